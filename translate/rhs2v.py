#!/venv/bin/python
"""rhs2v: fail-closed translator of the scalar / 1-D ODE right-hand sides of
EoN/analytic.py (and of the iteration bodies of Attack_rate_discrete,
Attack_rate_cts_time, EBCM_discrete) into Coq definitions over Q / list Q.

    rhs2v.py [--repo /repo] [--out coq/Gen/Rhs.v] [--sig coq/Gen/rhs_sig.json]

Fragment (everything else: exit 2 with `rhs2v: unsupported <construct> at
analytic.py:<line> in <function>`):
  statements : docstring; `name = e`; `a, b, c = e` (e 1-D); `return e` (last)
  expressions: int/float literals, names, + - * / (scalar/array, elementwise,
               scalar broadcast), unary -, `e ** <int literal>`,
               `scalar ** np.arange(..)`, `np.arange(n)`, `len(v)`, `a.dot(b)`,
               `sum(v)`, `v.sum()`, `float(x)`, `np.array(v | [..])`,
               `np.concatenate((.., [..]), axis=0)`, `shift(v, -1)`,
               `X[i]`, `X[a:b]`, `X[:-k]`, `X[-k:]`, `f(x)` for a function parameter
  loops      : see translate_loop (two shapes: scalar fixed-point iteration, and
               list accumulators `acc=[e0]` ... `acc.append(e)` read via `acc[-1]`)
Typing: parameters are scalars (Q) except those listed in SIGS (v = 1-D array,
f = function Q->Q, n = non-negative int).  A parameter list that differs from
the table is refused (the table is part of the translator's trusted fragment).

numpy semantics assumed (trusted, tied by the point-evaluation correspondence
on every run): elementwise ops on equal-length 1-D arrays, scalar broadcasting,
`**` with integer exponent = repeated multiplication, slices as documented,
scipy.ndimage.shift(a,-1) = drop first / append 0.  Division by zero is outside
the fragment (Coq: x/0 = 0; numpy: inf/nan): theorems carry `~ d == 0`
hypotheses and the harness never evaluates at such points."""
import ast, sys, os, json, hashlib, argparse
from fractions import Fraction

# non-scalar parameters of the translated functions; every other parameter is a scalar
SIGS = {
    '_dSIS_homogeneous_meanfield_': {'X': 'v'},
    '_dSIR_homogeneous_meanfield_': {'X': 'v'},
    '_dSIS_homogeneous_pairwise_': {'X': 'v'},
    '_dSIR_homogeneous_pairwise_': {'X': 'v'},
    '_dSIS_super_compact_pairwise_': {'X': 'v'},
    '_dSIR_super_compact_pairwise_': {'X': 'v', 'psihat': 'f', 'psihatPrime': 'f', 'psihatDPrime': 'f'},
    '_dEBCM_': {'X': 'v', 'psihat': 'f', 'psihatPrime': 'f'},
    '_dSIS_compact_pairwise_': {'X': 'v', 'Nk': 'v'},
    '_dSIR_compact_pairwise_': {'X': 'v'},
    '_dSIS_heterogeneous_meanfield_': {'X': 'v', 'kcount': 'n'},
    '_dSIR_heterogeneous_meanfield_': {'X': 'v', 'S0': 'v', 'Nk': 'v'},
    '_dSIR_compact_effective_degree_': {'X': 'v'},
}
# expected parameter lists (a changed signature is refused, not guessed at)
PARAMS = {
    '_dSIS_homogeneous_meanfield_': ['X', 't', 'n_over_N', 'tau', 'gamma'],
    '_dSIR_homogeneous_meanfield_': ['X', 't', 'n_over_N', 'tau', 'gamma'],
    '_dSIS_homogeneous_pairwise_': ['X', 't', 'N', 'n', 'tau', 'gamma'],
    '_dSIR_homogeneous_pairwise_': ['X', 't', 'n', 'tau', 'gamma'],
    '_dSIS_super_compact_pairwise_': ['X', 't', 'tau', 'gamma', 'N', 'k_ave', 'ksquare_ave', 'kcube_ave'],
    '_dSIR_super_compact_pairwise_': ['X', 't', 'tau', 'gamma', 'psihat', 'psihatPrime', 'psihatDPrime', 'N'],
    '_dEBCM_': ['X', 't', 'N', 'tau', 'gamma', 'psihat', 'psihatPrime', 'phiS0', 'phiR0'],
    '_dSIS_compact_pairwise_': ['X', 't', 'Nk', 'twoM', 'tau', 'gamma'],
    '_dSIR_compact_pairwise_': ['X', 't', 'N', 'tau', 'gamma'],
    '_dSIS_heterogeneous_meanfield_': ['X', 't', 'kcount', 'tau', 'gamma'],
    '_dSIR_heterogeneous_meanfield_': ['X', 't', 'S0', 'Nk', 'tau', 'gamma'],
    '_dSIR_compact_effective_degree_': ['X', 't', 'N', 'tau', 'gamma'],
}
ORDER = list(PARAMS)
# loops: function -> (kind, parameters of the emitted definitions in a FIXED order with their types).
# Every listed name is a parameter even when the current text does not use it (so dropping a term does
# not change the signature the theorems and Model/Attack.v are written against); a free name that is
# not listed is appended (sorted) -- the signature changes and the dependants stop compiling.
LOOPS = {
    'Attack_rate_discrete': ('scalar', [('p', 'q'), ('phiR0', 'q'), ('phiS0', 'q'), ('psihatPrime', 'f'), ('psihat', 'f')]),
    'Attack_rate_cts_time': ('scalar', [('gamma', 'q'), ('tau', 'q'), ('phiR0', 'q'), ('phiS0', 'q'), ('psihatPrime', 'f'), ('psihat', 'f')]),
    'EBCM_discrete': ('accum', [('R0', 'q'), ('N', 'q'), ('psihat', 'f'), ('p', 'q'), ('phiR0', 'q'), ('phiS0', 'q'), ('psihatPrime', 'f')]),
}

COQTY = {'q': 'Q', 'v': 'vec', 'f': 'Q -> Q', 'n': 'nat'}


class Refuse(Exception):
    pass


class E:
    """typed Coq expression.  ty in q v f n iv (iv = np.arange(nat); .nat holds the nat term)"""
    def __init__(self, ty, s, ival=None, nat=None):
        self.ty, self.s, self.ival, self.nat = ty, s, ival, nat


def qlit(x):
    f = Fraction(x)
    if f.denominator == 1:
        return str(f.numerator) if f.numerator >= 0 else '(%d)' % f.numerator
    return '(%d # %d)' % (f.numerator, f.denominator)


class Tr:
    def __init__(self, fname, env, src_name='analytic.py'):
        self.fname, self.env, self.src = fname, dict(env), src_name
        self.ivnat = {}

    def refuse(self, node, what=None):
        what = what or type(node).__name__
        raise Refuse('rhs2v: unsupported %s at %s:%d in %s' % (what, self.src, getattr(node, 'lineno', 0), self.fname))

    def var(self, name):
        return 'v_' + name

    def asvec(self, e, node):
        if e.ty == 'v':
            return e.s
        if e.ty == 'iv':
            return '(arange %s)' % e.nat
        self.refuse(node, 'non-array operand (%s)' % e.ty)

    def expr(self, n):
        if isinstance(n, ast.Constant):
            if isinstance(n.value, bool) or not isinstance(n.value, (int, float)):
                self.refuse(n, 'constant %r' % (n.value,))
            if isinstance(n.value, float) and (n.value != n.value or n.value in (float('inf'), float('-inf'))):
                self.refuse(n, 'non-finite constant')
            iv = n.value if isinstance(n.value, int) else None
            return E('q', qlit(n.value), ival=iv)
        if isinstance(n, ast.Name):
            if n.id not in self.env:
                self.refuse(n, 'unbound name %s' % n.id)
            ty = self.env[n.id]
            if isinstance(ty, E):           # loop translator: name bound to an expression
                return ty
            if ty == 'iv':
                return E('iv', None, nat=self.ivnat[n.id])
            return E(ty, self.var(n.id))
        if isinstance(n, ast.UnaryOp):
            if isinstance(n.op, ast.USub):
                a = self.expr(n.operand)
                if a.ty == 'q':
                    return E('q', '(- %s)' % a.s, ival=(-a.ival if a.ival is not None else None))
                return E('v', '(vneg %s)' % self.asvec(a, n))
            self.refuse(n, 'unary ' + type(n.op).__name__)
        if isinstance(n, ast.BinOp):
            return self.binop(n)
        if isinstance(n, ast.Call):
            return self.call(n)
        if isinstance(n, ast.Subscript):
            return self.subscript(n)
        if isinstance(n, ast.List):
            return self.listlit(n)
        self.refuse(n)

    def listlit(self, n):
        parts = []
        for el in n.elts:
            e = self.expr(el)
            if e.ty != 'q':
                self.refuse(el, 'non-scalar list element')
            parts.append(e.s)
        return E('v', '[%s]' % '; '.join(parts))

    def binop(self, n):
        ops = {ast.Add: ('+', 'add'), ast.Sub: ('-', 'sub'), ast.Mult: ('*', 'mul'), ast.Div: ('/', 'div')}
        if isinstance(n.op, ast.Pow):
            a = self.expr(n.left); b = self.expr(n.right)
            if a.ty == 'q' and b.ty == 'iv':
                return E('v', '(spow_arange %s %s)' % (a.s, b.nat))
            if b.ty == 'q' and b.ival is not None:
                if a.ty == 'q':
                    return E('q', '(qpow %s (%d)%%Z)' % (a.s, b.ival))
                return E('v', '(vpows %s (%d)%%Z)' % (self.asvec(a, n), b.ival))
            self.refuse(n, '** with a non-literal exponent')
        if type(n.op) not in ops:
            self.refuse(n, 'operator ' + type(n.op).__name__)
        sym, nm = ops[type(n.op)]
        a = self.expr(n.left); b = self.expr(n.right)
        for x in (a, b):
            if x.ty in ('f', 'n'):
                self.refuse(n, 'arithmetic on a %s' % ('function' if x.ty == 'f' else 'length/int parameter'))
        if a.ty == 'q' and b.ty == 'q':
            return E('q', '(%s %s %s)' % (a.s, sym, b.s))
        if a.ty == 'q':
            return E('v', '(s%s %s %s)' % ({'mul': 'mul', 'add': 'add', 'sub': 'sub', 'div': 'divv'}[nm], a.s, self.asvec(b, n)))
        if b.ty == 'q':
            return E('v', '(v%ss %s %s)' % (nm, self.asvec(a, n), b.s))
        return E('v', '(v%s %s %s)' % (nm, self.asvec(a, n), self.asvec(b, n)))

    def call(self, n):
        f = n.func
        kw = {k.arg: k.value for k in n.keywords}
        if isinstance(f, ast.Attribute) and isinstance(f.value, ast.Name) and f.value.id == 'np' and 'np' not in self.env:
            if f.attr == 'arange' and len(n.args) == 1 and not kw:
                a = self.expr(n.args[0])
                if a.ty != 'n':
                    self.refuse(n, 'np.arange of a non-length argument')
                return E('iv', None, nat=a.s)
            if f.attr == 'array' and len(n.args) == 1 and not kw:
                a = self.expr(n.args[0])
                return E('v', self.asvec(a, n))
            if f.attr == 'concatenate' and len(n.args) == 1 and set(kw) <= {'axis'}:
                if 'axis' in kw and not (isinstance(kw['axis'], ast.Constant) and kw['axis'].value == 0):
                    self.refuse(n, 'np.concatenate axis')
                t = n.args[0]
                if not isinstance(t, (ast.Tuple, ast.List)):
                    self.refuse(n, 'np.concatenate argument')
                parts = [self.asvec(self.expr(el), el) for el in t.elts]
                return E('v', '(%s)' % ' ++ '.join(parts))
            self.refuse(n, 'call np.%s' % f.attr)
        if isinstance(f, ast.Attribute):
            if f.attr == 'dot' and len(n.args) == 1 and not kw:
                a = self.expr(f.value); b = self.expr(n.args[0])
                return E('q', '(dot %s %s)' % (self.asvec(a, n), self.asvec(b, n)))
            if f.attr == 'sum' and not n.args and not kw:
                a = self.expr(f.value)
                return E('q', '(vsum %s)' % self.asvec(a, n))
            self.refuse(n, 'method .%s' % f.attr)
        if isinstance(f, ast.Name) and not kw:
            if f.id in self.env and self.env[f.id] == 'f':
                if len(n.args) != 1:
                    self.refuse(n, 'function parameter arity')
                a = self.expr(n.args[0])
                if a.ty != 'q':
                    self.refuse(n, 'function parameter applied to a non-scalar')
                return E('q', '(%s %s)' % (self.var(f.id), a.s))
            if f.id in self.env:
                self.refuse(n, 'call of non-function %s' % f.id)
            if f.id == 'len' and len(n.args) == 1:
                a = self.expr(n.args[0])
                return E('n', '(length %s)' % self.asvec(a, n))
            if f.id == 'sum' and len(n.args) == 1:
                a = self.expr(n.args[0])
                return E('q', '(vsum %s)' % self.asvec(a, n))
            if f.id == 'float' and len(n.args) == 1:
                a = self.expr(n.args[0])
                if a.ty != 'q':
                    self.refuse(n, 'float() of a non-scalar')
                return a
            if f.id == 'shift' and len(n.args) == 2:
                a = self.expr(n.args[0]); b = self.expr(n.args[1])
                if b.ival != -1:
                    self.refuse(n, 'shift by something other than -1')
                return E('v', '(shift_m1 %s)' % self.asvec(a, n))
        self.refuse(n, 'call')

    def bound(self, n):
        """slice bound: None | ('lit', k) | ('neg', k) | ('nat', term)"""
        if n is None:
            return None
        e = self.expr(n)
        if e.ty == 'q' and e.ival is not None:
            return ('lit', e.ival) if e.ival >= 0 else ('neg', -e.ival)
        if e.ty == 'n':
            return ('nat', e.s)
        self.refuse(n, 'slice bound')

    def subscript(self, n):
        a = self.expr(n.value)
        if a.ty != 'v':
            self.refuse(n, 'subscript of a non-array')
        sl = n.slice
        if isinstance(sl, ast.Slice):
            if sl.step is not None:
                self.refuse(n, 'slice step')
            lo, hi = self.bound(sl.lower), self.bound(sl.upper)
            t = lambda b: str(b[1]) if b[0] == 'lit' else b[1]
            if lo is None and hi is None:
                return a
            if lo is None:
                if hi[0] == 'neg':
                    return E('v', '(drop_last %d %s)' % (hi[1], a.s))
                return E('v', '(slice_to %s %s)' % (t(hi), a.s))
            if hi is None:
                if lo[0] == 'neg':
                    return E('v', '(take_last %d %s)' % (lo[1], a.s))
                return E('v', '(slice_from %s %s)' % (t(lo), a.s))
            if lo[0] == 'neg' or hi[0] == 'neg':
                self.refuse(n, 'two-sided slice with a negative bound')
            return E('v', '(slice %s %s %s)' % (t(lo), t(hi), a.s))
        e = self.expr(sl)
        if e.ty == 'q' and e.ival is not None and e.ival >= 0:
            return E('q', '(vnth %d %s)' % (e.ival, a.s))
        self.refuse(n, 'index')

    # ---- straight-line function body ---------------------------------------
    def body(self, stmts):
        lets = []
        ret = None
        for i, st in enumerate(stmts):
            if ret is not None:
                self.refuse(st, 'statement after return')
            if isinstance(st, ast.Expr) and isinstance(st.value, ast.Constant) and isinstance(st.value.value, str):
                continue
            if isinstance(st, ast.Assign) and len(st.targets) == 1:
                tg = st.targets[0]
                v = self.expr(st.value)
                if isinstance(tg, ast.Name):
                    if v.ty == 'iv':
                        self.env[tg.id] = 'iv'; self.ivnat[tg.id] = v.nat
                        continue
                    if v.ty == 'f':
                        self.refuse(st, 'function-valued assignment')
                    lets.append((self.var(tg.id), v.s))
                    self.env[tg.id] = v.ty
                    continue
                if isinstance(tg, ast.Tuple) and all(isinstance(x, ast.Name) for x in tg.elts):
                    src = self.asvec(v, st)
                    for k, x in enumerate(tg.elts):
                        lets.append((self.var(x.id), '(vnth %d %s)' % (k, src)))
                    for x in tg.elts:
                        self.env[x.id] = 'q'
                    continue
                self.refuse(st, 'assignment target')
            if isinstance(st, ast.Return):
                if st.value is None:
                    self.refuse(st, 'bare return')
                v = self.expr(st.value)
                ret = self.asvec(v, st)
                continue
            self.refuse(st)
        if ret is None:
            raise Refuse('rhs2v: no return in %s' % self.fname)
        return lets, ret


def coqname(pyname):
    return pyname.strip('_')


def translate_rhs(fn, src_lines):
    name = fn.name
    a = fn.args
    if a.vararg or a.kwarg or a.kwonlyargs or a.defaults or getattr(a, 'posonlyargs', []):
        raise Refuse('rhs2v: unsupported signature of %s at analytic.py:%d' % (name, fn.lineno))
    params = [x.arg for x in a.args]
    if params != PARAMS[name]:
        raise Refuse('rhs2v: parameter list of %s at analytic.py:%d is %s, expected %s' % (name, fn.lineno, params, PARAMS[name]))
    env = {p: SIGS[name].get(p, 'q') for p in params}
    tr = Tr(name, env)
    lets, ret = tr.body(fn.body)
    binders = ' '.join('(%s : %s)' % (tr.var(p), COQTY[env[p]]) for p in params)
    out = ['(* %s, analytic.py:%d-%d *)' % (name, fn.lineno, fn.end_lineno),
           'Definition %s %s : vec :=' % (coqname(name), binders)]
    for x, s in lets:
        out.append('  let %s := %s in' % (x, s))
    out.append('  %s.' % ret)
    sig = {'py': name, 'coq': coqname(name), 'params': [[p, env[p]] for p in params], 'line': fn.lineno}
    return '\n'.join(out), sig


# ---- loops -----------------------------------------------------------------
def free_names(node):
    return [n.id for n in ast.walk(node) if isinstance(n, ast.Name)]


def called_names(node):
    return {n.func.id for n in ast.walk(node) if isinstance(n, ast.Call) and isinstance(n.func, ast.Name)}


def fixed_order(name, pref, order, fcalled):
    """parameters: the preferred list first (always all of it), then unknown free names sorted"""
    pnames = [p for p, _ in pref]
    for p, ty in pref:
        if p in order and ((ty == 'f') != (p in fcalled)):
            raise Refuse('rhs2v: %s is used as a %s in %s but is declared %s' % (p, 'function' if p in fcalled else 'number', name, ty))
    extra = sorted(p for p in order if p not in pnames)
    env = {p: ty for p, ty in pref}
    env.update({p: ('f' if p in fcalled else 'q') for p in extra})
    return pnames + extra, env


def translate_loop(fn, kind, pref=()):
    """kind 'scalar':   x = e0 ; for _ in range(number_its): x = e(x) ; return r(x)
       kind 'accum' :   acc_i = [e0_i] ... ; for time in range(a, b): acc_i.append(e_i) with reads acc_j[-1]
    Only the loop (initialisation of the loop-carried names, body, and for 'scalar' the
    return expression) is translated; the code before it (argument defaulting, closures
    over the degree distribution) is hand-modelled in Model/Attack.v and tied by the
    correspondence.  Free names become parameters (Q, or Q -> Q when called)."""
    name = fn.name
    top = fn.body
    fors = [i for i, s in enumerate(top) if isinstance(s, ast.For)]
    if len(fors) != 1:
        raise Refuse('rhs2v: expected exactly one top-level for loop in %s (analytic.py:%d), found %d' % (name, fn.lineno, len(fors)))
    fi = fors[0]; loop = top[fi]
    if loop.orelse or not isinstance(loop.target, ast.Name):
        raise Refuse('rhs2v: unsupported for-loop shape at analytic.py:%d in %s' % (loop.lineno, name))
    it = loop.iter
    if not (isinstance(it, ast.Call) and isinstance(it.func, ast.Name) and it.func.id == 'range' and not it.keywords):
        raise Refuse('rhs2v: unsupported loop iterator at analytic.py:%d in %s' % (loop.lineno, name))
    loopvar = loop.target.id

    def mk(envq, envf):
        env = {p: 'q' for p in envq}
        env.update({p: 'f' for p in envf})
        return env

    if kind == 'scalar':
        if not (len(it.args) == 1 and isinstance(it.args[0], ast.Name)):
            raise Refuse('rhs2v: scalar loop must be `for _ in range(<name>)` at analytic.py:%d in %s' % (loop.lineno, name))
        count = it.args[0].id
        if len(loop.body) != 1 or not (isinstance(loop.body[0], ast.Assign) and len(loop.body[0].targets) == 1
                                       and isinstance(loop.body[0].targets[0], ast.Name)):
            raise Refuse('rhs2v: unsupported loop body at analytic.py:%d in %s' % (loop.lineno, name))
        x = loop.body[0].targets[0].id
        stepe = loop.body[0].value
        if loopvar in free_names(stepe):
            raise Refuse('rhs2v: loop counter used in the body at analytic.py:%d in %s' % (loop.lineno, name))
        inits = [s for s in top[:fi] if isinstance(s, ast.Assign) and len(s.targets) == 1
                 and isinstance(s.targets[0], ast.Name) and s.targets[0].id == x]
        if not inits:
            raise Refuse('rhs2v: no initialisation of %s before the loop at analytic.py:%d in %s' % (x, loop.lineno, name))
        inite = inits[-1].value
        # nothing between the initialisation and the loop may rebind names used by the loop
        if fi + 1 >= len(top) or not isinstance(top[fi + 1], ast.Return) or fi + 2 != len(top):
            raise Refuse('rhs2v: the loop of %s must be followed by the final return (analytic.py:%d)' % (name, loop.lineno))
        rete = top[fi + 1].value
        fcalled = set()
        for e in (inite, stepe, rete):
            fcalled |= called_names(e)
        order = []
        for e in (inite, stepe, rete):
            for nm in free_names(e):
                if nm != x and nm not in order:
                    order.append(nm)
        order, env = fixed_order(name, pref, order, fcalled)
        if x in free_names(inite):
            raise Refuse('rhs2v: initialisation refers to the loop variable in %s' % name)
        binders = ' '.join('(v_%s : %s)' % (p, COQTY[env[p]]) for p in order)
        args = ' '.join('v_%s' % p for p in order)
        tr = Tr(name, env)
        i0 = tr.expr(inite)
        env2 = dict(env); env2[x] = 'q'
        tr2 = Tr(name, env2)
        st = tr2.expr(stepe); rt = tr2.expr(rete)
        for e, nd in ((i0, inite), (st, stepe), (rt, rete)):
            if e.ty != 'q':
                tr.refuse(nd, 'non-scalar loop expression')
        cn = coqname(name)
        out = ['(* %s, analytic.py:%d-%d: loop at line %d; x = %s, count = %s *)' % (name, fn.lineno, fn.end_lineno, loop.lineno, x, count),
               'Definition %s_init %s : Q := %s.' % (cn, binders, i0.s),
               'Definition %s_step %s (v_%s : Q) : Q := %s.' % (cn, binders, x, st.s),
               'Definition %s_ret %s (v_%s : Q) : Q := %s.' % (cn, binders, x, rt.s),
               'Definition %s_loop %s (v_%s : nat) : Q :=' % (cn, binders, count),
               '  %s_ret %s (iter v_%s (%s_step %s) (%s_init %s)).' % (cn, args, count, cn, args, cn, args)]
        sig = {'py': name, 'coq': cn, 'kind': 'scalar', 'params': [[p, env[p]] for p in order], 'state': [x], 'count': count, 'line': loop.lineno}
        return '\n'.join(out), sig

    # ---- accumulators ----
    accs = []            # (name, init expr node)
    for s in top[:fi]:
        if isinstance(s, ast.Expr) and isinstance(s.value, ast.Constant):
            continue
        if isinstance(s, ast.Assign) and len(s.targets) == 1 and isinstance(s.targets[0], ast.Name) \
                and isinstance(s.value, ast.List) and len(s.value.elts) == 1:
            accs.append((s.targets[0].id, s.value.elts[0]))
            continue
        raise Refuse('rhs2v: unsupported %s before the loop at analytic.py:%d in %s' % (type(s).__name__, s.lineno, name))
    accnames = [a for a, _ in accs]
    # classify body statements
    appends = {}; lets = []
    fcalled = set(); order = []

    def note_free(e, bound):
        for nm in free_names(e):
            if nm not in bound and nm not in order and nm not in accnames:
                order.append(nm)
        fcalled.update(called_names(e))
    for _, e0 in accs:
        note_free(e0, set())
    bound = {loopvar}
    body_plan = []
    for s in loop.body:
        if isinstance(s, ast.Expr) and isinstance(s.value, ast.Call) and isinstance(s.value.func, ast.Attribute) \
                and s.value.func.attr == 'append' and isinstance(s.value.func.value, ast.Name) \
                and s.value.func.value.id in accnames and len(s.value.args) == 1 and not s.value.keywords:
            body_plan.append(('append', s.value.func.value.id, s.value.args[0], s))
            note_free(s.value.args[0], bound)
            continue
        if isinstance(s, ast.Assign) and len(s.targets) == 1 and isinstance(s.targets[0], ast.Name) \
                and s.targets[0].id not in accnames:
            body_plan.append(('let', s.targets[0].id, s.value, s))
            note_free(s.value, bound)
            bound = bound | {s.targets[0].id}
            continue
        raise Refuse('rhs2v: unsupported %s in the loop body at analytic.py:%d in %s' % (type(s).__name__, s.lineno, name))
    # accumulators that only record the loop variable (the time grid) are not state
    grid = {a for k, a, e, _ in body_plan if k == 'append' and isinstance(e, ast.Name) and e.id == loopvar}
    for nm in list(order):
        if nm == loopvar:
            order.remove(nm)
    # names used only by the range bounds / grid initial value are not parameters of the step
    state = [a for a in accnames if a not in grid]
    for a in state:
        n_app = sum(1 for k, b, _, _ in body_plan if k == 'append' and b == a)
        if n_app != 1:
            raise Refuse('rhs2v: accumulator %s appended %d times per iteration in %s' % (a, n_app, name))
    # recompute free names without the grid accumulators' initial values
    order = []
    fcalled = set()
    for a, e0 in accs:
        if a in state:
            note_free(e0, set())
    bound = {loopvar}
    for k, a, e, s in body_plan:
        if k == 'append' and a in grid:
            continue
        note_free(e, bound)
        if k == 'let':
            bound = bound | {a}
    order = [nm for nm in order if nm != loopvar]
    order, env = fixed_order(name, pref, order, fcalled)

    class AccTr(Tr):
        def subscript(self, n):
            if isinstance(n.value, ast.Name) and n.value.id in accnames:
                a = n.value.id
                sl = n.slice
                if a in state and isinstance(sl, ast.UnaryOp) and isinstance(sl.op, ast.USub) \
                        and isinstance(sl.operand, ast.Constant) and sl.operand.value == 1:
                    if a not in self.last:
                        self.refuse(n, 'read of accumulator %s before its initialisation' % a)
                    return E('q', self.last[a])
                self.refuse(n, 'accumulator access other than [-1]')
            return Tr.subscript(self, n)

    binders = ' '.join('(v_%s : %s)' % (p, COQTY[env[p]]) for p in order)
    cn = coqname(name)
    # init
    tr = AccTr(name, env); tr.last = {}
    init_lets = []
    for a, e0 in accs:
        if a not in state:
            continue
        e = tr.expr(e0)
        if e.ty != 'q':
            tr.refuse(e0, 'non-scalar accumulator')
        init_lets.append(('i_' + a, e.s))
        tr.last[a] = 'i_' + a
    sty = ' * '.join(['Q'] * len(state))
    out = ['(* %s, analytic.py:%d-%d: loop at line %d; state = last elements of (%s); grid accumulators (%s) are not state *)'
           % (name, fn.lineno, fn.end_lineno, loop.lineno, ', '.join(state), ', '.join(sorted(grid))),
           'Definition %s_init %s : %s :=' % (cn, binders, sty)]
    for x, s in init_lets:
        out.append('  let %s := %s in' % (x, s))
    out.append('  (%s).' % ', '.join('i_' + a for a in state))
    # step
    tr = AccTr(name, env); tr.last = {a: 'v_' + a for a in state}
    step_lets = []
    for k, a, e, s in body_plan:
        if k == 'append' and a in grid:
            continue
        if loopvar in free_names(e):
            tr.refuse(s, 'use of the loop variable outside a grid accumulator')
        v = tr.expr(e)
        if v.ty != 'q':
            tr.refuse(s, 'non-scalar value in the loop')
        if k == 'let':
            if a in tr.env and tr.env[a] == 'f':
                tr.refuse(s, 'rebinding of a function')
            step_lets.append(('v_' + a, v.s))
            tr.env[a] = 'q'
        else:
            step_lets.append(('n_' + a, v.s))
            tr.last[a] = 'n_' + a
    out.append('Definition %s_step %s (st : %s) : %s :=' % (cn, binders, sty, sty))
    out.append("  let '(%s) := st in" % ', '.join('v_' + a for a in state))
    for x, s in step_lets:
        out.append('  let %s := %s in' % (x, s))
    out.append('  (%s).' % ', '.join(tr.last[a] for a in state))
    args = ' '.join('v_%s' % p for p in order)
    out.append('Definition %s_loop %s (n : nat) : %s := iter n (%s_step %s) (%s_init %s).' % (cn, binders, sty, cn, args, cn, args))
    sig = {'py': name, 'coq': cn, 'kind': 'accum', 'params': [[p, env[p]] for p in order], 'state': state, 'grid': sorted(grid), 'line': loop.lineno}
    return '\n'.join(out), sig


def dispatcher(sigs):
    """uniform entry point for the extracted driver: function index + arguments by type"""
    out = ['(* uniform entry point used by the extracted driver (ocaml/rhs_driver.ml):',
           '   arguments are passed by type in parameter order; indices are in rhs_sig.json *)',
           'Definition rhs_call (i : nat) (qs : list Q) (vs : list vec) (ns : list nat) (fs : list (Q -> Q)) : vec :=',
           '  match i with']
    for i, s in enumerate(sigs):
        cnt = {'q': 0, 'v': 0, 'n': 0, 'f': 0}
        args = []
        for p, ty in s['params']:
            k = cnt[ty]; cnt[ty] += 1
            args.append({'q': '(nth %d qs 0)', 'v': '(nth %d vs [])', 'n': '(nth %d ns 0%%nat)', 'f': '(nth %d fs (fun _ => 0))'}[ty] % k)
        s['index'] = i
        out.append('  | %d%%nat => %s %s' % (i, s['coq'], ' '.join(args)))
    out.append('  | _ => []')
    out.append('  end.')
    return '\n'.join(out)


def loop_dispatcher(lsigs, base):
    out = ['Definition loop_call (i : nat) (qs : list Q) (fs : list (Q -> Q)) (n : nat) : vec :=', '  match i with']
    for j, s in enumerate(lsigs):
        cnt = {'q': 0, 'f': 0}; args = []
        for p, ty in s['params']:
            k = cnt[ty]; cnt[ty] += 1
            args.append({'q': '(nth %d qs 0)', 'f': '(nth %d fs (fun _ => 0))'}[ty] % k)
        s['index'] = j
        call = '%s_loop %s n' % (s['coq'], ' '.join(args))
        if s['kind'] == 'scalar':
            out.append('  | %d%%nat => [%s]' % (j, call))
        else:
            k = len(s['state'])
            pat = ', '.join('x%d' % t for t in range(k))
            out.append("  | %d%%nat => let '(%s) := %s in [%s]" % (j, pat, call, '; '.join('x%d' % t for t in range(k))))
    out += ['  | _ => []', '  end.']
    return '\n'.join(out)


def translate(repo):
    path = os.path.join(repo, 'EoN', 'analytic.py')
    src = open(path).read()
    import warnings
    with warnings.catch_warnings():
        warnings.simplefilter('ignore')
        tree = ast.parse(src)
    fns = {}
    for node in tree.body:
        if isinstance(node, ast.FunctionDef):
            if node.name in fns and (node.name in PARAMS or node.name in LOOPS):
                raise Refuse('rhs2v: %s defined twice (analytic.py:%d)' % (node.name, node.lineno))
            fns[node.name] = node
    lines = src.split('\n')
    chunks = []; sigs = []; lsigs = []
    for name in ORDER:
        if name not in fns:
            raise Refuse('rhs2v: function %s not found in analytic.py' % name)
        txt, sig = translate_rhs(fns[name], lines)
        sig['sha'] = hashlib.sha1(ast.get_source_segment(src, fns[name]).encode()).hexdigest()[:12]
        chunks.append(txt); sigs.append(sig)
    for name, (kind, pref) in LOOPS.items():
        if name not in fns:
            raise Refuse('rhs2v: function %s not found in analytic.py' % name)
        txt, sig = translate_loop(fns[name], kind, pref)
        sig['sha'] = hashlib.sha1(ast.get_source_segment(src, fns[name]).encode()).hexdigest()[:12]
        chunks.append(txt); lsigs.append(sig)
    # `shift` must be scipy.ndimage's
    ok_shift = any(isinstance(n, ast.ImportFrom) and n.module in ('scipy.ndimage.interpolation', 'scipy.ndimage')
                   and any(a.name == 'shift' and a.asname is None for a in n.names) for n in tree.body)
    if not ok_shift:
        raise Refuse('rhs2v: `shift` is not imported from scipy.ndimage in analytic.py')
    head = ['(* GENERATED by translate/rhs2v.py from EoN/analytic.py -- do not edit.',
            '   Right-hand sides of the scalar / 1-D ODE models and the iteration bodies of',
            '   Attack_rate_discrete, Attack_rate_cts_time, EBCM_discrete, as the file says now. *)',
            'From EoNV Require Import Prelude Vec.', '', '']
    body = '\n\n'.join(chunks) + '\n\n' + dispatcher(sigs) + '\n\n' + loop_dispatcher(lsigs, len(sigs)) + '\n'
    return '\n'.join(head) + body, {'rhs': sigs, 'loops': lsigs}


def main():
    ap = argparse.ArgumentParser()
    here = os.path.dirname(os.path.dirname(os.path.abspath(__file__)))
    ap.add_argument('--repo', default=os.environ.get('EON_REPO', '/repo'))
    ap.add_argument('--out', default=os.path.join(here, 'coq', 'Gen', 'Rhs.v'))
    ap.add_argument('--sig', default=os.path.join(here, 'coq', 'Gen', 'rhs_sig.json'))
    a = ap.parse_args()
    try:
        v, sig = translate(a.repo)
    except Refuse as e:
        print(str(e), file=sys.stderr)
        return 2
    except SyntaxError as e:
        print('rhs2v: analytic.py does not parse: %s' % e, file=sys.stderr)
        return 2
    os.makedirs(os.path.dirname(a.out), exist_ok=True)
    for path, txt in ((a.out, v), (a.sig, json.dumps(sig, indent=1) + '\n')):
        old = open(path).read() if os.path.exists(path) else None
        if old != txt:                      # keep mtime when unchanged (no needless rebuild)
            open(path, 'w').write(txt)
    return 0


if __name__ == '__main__':
    sys.exit(main())
