"""parameter aliases, rebinding, containers of parameters, helpers, closures, generators, defaults"""
CASES = {}
REGRESSION = []


def al_plain_alias_append(xs):
    x = xs
    x.append(1)
CASES['al_plain_alias_append'] = [('L',)]


def al_rebind_then_append(xs):
    xs = list(xs)
    xs.append(1)
    return xs
CASES['al_rebind_then_append'] = [('L',)]


def al_copy_method(xs):
    x = xs.copy()
    x.append(1)
    return x
CASES['al_copy_method'] = [('L',), ('DL',)]


def al_branch_alias(xs, q):
    if len(xs) > 5:
        x = xs
    else:
        x = q
    x.append(0)
CASES['al_branch_alias'] = [('L', 'L'), ('L7', 'L')]


def al_swap(xs, q):
    xs, q = q, xs
    xs.append(1)
CASES['al_swap'] = [('L', 'L')]


def al_nested_elem(xs):
    x = xs[0]
    x.append(5)
CASES['al_nested_elem'] = [('LL',)]


def al_tuple_pack(xs, q):
    t = (xs, q)
    t[1].append(1)
CASES['al_tuple_pack'] = [('L', 'L')]


def al_tuple_unpack(tp):
    a, b = tp
    b.append(1)
CASES['al_tuple_unpack'] = [('T',)]


def al_dict_store_load(xs):
    d = {}
    d['k'] = xs
    d['k'].append(1)
CASES['al_dict_store_load'] = [('L',)]


def al_list_of_param(xs):
    l = [xs]
    l[0].append(2)
CASES['al_list_of_param'] = [('L',)]


def al_loop_alias(xs):
    for x in xs:
        x.append(1)
CASES['al_loop_alias'] = [('LL',)]


def al_loop_copy(xs):
    out = []
    for x in xs:
        y = list(x)
        y.append(1)
        out.append(y)
    return out
CASES['al_loop_copy'] = [('LL',)]


def al_early_return(xs):
    if len(xs) > 100:
        return xs
    q = list(xs)
    q.append(1)
    return q
CASES['al_early_return'] = [('L',)]


def _al_id(x):
    return x


def al_helper_identity(xs):
    y = _al_id(xs)
    y.append(1)
CASES['al_helper_identity'] = [('L',)]


def _al_push(x):
    x.append(1)


def al_helper_mutates(xs):
    _al_push(xs)
CASES['al_helper_mutates'] = [('L',)]


def al_helper_mutates_copy(xs):
    _al_push(list(xs))
CASES['al_helper_mutates_copy'] = [('L',)]


def _al_push_second(a, b):
    b.append(len(a))


def al_helper_keyword_binding(xs, q):
    _al_push_second(b=xs, a=q)
CASES['al_helper_keyword_binding'] = [('L', 'L')]


def al_default_list(xs, acc=[]):
    acc.append(len(xs))
    return acc
CASES['al_default_list'] = [('L',)]


def al_default_none(xs, acc=None):
    if acc is None:
        acc = []
    acc.append(len(xs))
    return acc
CASES['al_default_none'] = [('L',)]


def cl_closure_reads(xs):
    def g(i):
        return xs[i]
    return g(0)
CASES['cl_closure_reads'] = [('L',)]


def cl_closure_writes(xs):
    def g():
        xs.append(1)
    g()
CASES['cl_closure_writes'] = [('L',)]


def cl_lambda_capture(xs):
    f = lambda: xs
    f().append(1)
CASES['cl_lambda_capture'] = [('L',)]


def cl_callback_result(xs, f):
    x = f(xs)
    x.append(1)
CASES['cl_callback_result'] = [('L', 'F')]


def ge_generator_elems(xs):
    g = (x for x in xs)
    for x in g:
        x.append(1)
CASES['ge_generator_elems'] = [('LL',)]


def ge_generator_copies(xs):
    g = (list(x) for x in xs)
    for x in g:
        x.append(1)
CASES['ge_generator_copies'] = [('LL',)]


def co_while_pop_copy(xs):
    q = list(xs)
    while q:
        q.pop()
CASES['co_while_pop_copy'] = [('L',)]


def co_while_pop_param(xs):
    while xs:
        xs.pop()
CASES['co_while_pop_param'] = [('L',)]


def co_try_handler(xs):
    try:
        x = xs[5]
    except IndexError:
        xs.append(0)
CASES['co_try_handler'] = [('L',)]


def at_attr_store(o):
    o.flag = 1
CASES['at_attr_store'] = [('O',)]


def at_attr_load_write(o):
    b = o.box
    b.append(1)
CASES['at_attr_load_write'] = [('O',)]


def sc_scalar_param(tau):
    tau += 1
    return tau
CASES['sc_scalar_param'] = [('N',)]


def sc_number_aug(k):
    k += 1
    return k
CASES['sc_number_aug'] = [('N',)]
