"""parameter aliases, rebinding, containers of parameters, helpers, closures, generators, defaults"""
CASES = {}
REGRESSION = []


def al_plain_alias_append(p):
    x = p
    x.append(1)
CASES['al_plain_alias_append'] = [('L',)]


def al_rebind_then_append(p):
    p = list(p)
    p.append(1)
    return p
CASES['al_rebind_then_append'] = [('L',)]


def al_copy_method(p):
    x = p.copy()
    x.append(1)
    return x
CASES['al_copy_method'] = [('L',), ('DL',)]


def al_branch_alias(p, q):
    if len(p) > 5:
        x = p
    else:
        x = q
    x.append(0)
CASES['al_branch_alias'] = [('L', 'L'), ('L7', 'L')]


def al_swap(p, q):
    p, q = q, p
    p.append(1)
CASES['al_swap'] = [('L', 'L')]


def al_nested_elem(p):
    x = p[0]
    x.append(5)
CASES['al_nested_elem'] = [('LL',)]


def al_tuple_pack(p, q):
    t = (p, q)
    t[1].append(1)
CASES['al_tuple_pack'] = [('L', 'L')]


def al_tuple_unpack(t):
    a, b = t
    b.append(1)
CASES['al_tuple_unpack'] = [('T',)]


def al_dict_store_load(p):
    d = {}
    d['k'] = p
    d['k'].append(1)
CASES['al_dict_store_load'] = [('L',)]


def al_list_of_param(p):
    l = [p]
    l[0].append(2)
CASES['al_list_of_param'] = [('L',)]


def al_loop_alias(p):
    for x in p:
        x.append(1)
CASES['al_loop_alias'] = [('LL',)]


def al_loop_copy(p):
    out = []
    for x in p:
        y = list(x)
        y.append(1)
        out.append(y)
    return out
CASES['al_loop_copy'] = [('LL',)]


def al_early_return(p):
    if len(p) > 100:
        return p
    q = list(p)
    q.append(1)
    return q
CASES['al_early_return'] = [('L',)]


def _al_id(x):
    return x


def al_helper_identity(p):
    y = _al_id(p)
    y.append(1)
CASES['al_helper_identity'] = [('L',)]


def _al_push(x):
    x.append(1)


def al_helper_mutates(p):
    _al_push(p)
CASES['al_helper_mutates'] = [('L',)]


def al_helper_mutates_copy(p):
    _al_push(list(p))
CASES['al_helper_mutates_copy'] = [('L',)]


def _al_push_second(a, b):
    b.append(len(a))


def al_helper_keyword_binding(p, q):
    _al_push_second(b=p, a=q)
CASES['al_helper_keyword_binding'] = [('L', 'L')]


def al_default_list(p, acc=[]):
    acc.append(len(p))
    return acc
CASES['al_default_list'] = [('L',)]


def al_default_none(p, acc=None):
    if acc is None:
        acc = []
    acc.append(len(p))
    return acc
CASES['al_default_none'] = [('L',)]


def cl_closure_reads(p):
    def g(i):
        return p[i]
    return g(0)
CASES['cl_closure_reads'] = [('L',)]


def cl_closure_writes(p):
    def g():
        p.append(1)
    g()
CASES['cl_closure_writes'] = [('L',)]


def cl_lambda_capture(p):
    f = lambda: p
    f().append(1)
CASES['cl_lambda_capture'] = [('L',)]


def cl_callback_result(p, f):
    x = f(p)
    x.append(1)
CASES['cl_callback_result'] = [('L', 'F')]


def ge_generator_elems(p):
    g = (x for x in p)
    for x in g:
        x.append(1)
CASES['ge_generator_elems'] = [('LL',)]


def ge_generator_copies(p):
    g = (list(x) for x in p)
    for x in g:
        x.append(1)
CASES['ge_generator_copies'] = [('LL',)]


def co_while_pop_copy(p):
    q = list(p)
    while q:
        q.pop()
CASES['co_while_pop_copy'] = [('L',)]


def co_while_pop_param(p):
    while p:
        p.pop()
CASES['co_while_pop_param'] = [('L',)]


def co_try_handler(p):
    try:
        x = p[5]
    except IndexError:
        p.append(0)
CASES['co_try_handler'] = [('L',)]


def at_attr_store(o):
    o.flag = 1
CASES['at_attr_store'] = [('O',)]


def at_attr_load_write(o):
    b = o.box
    b.append(1)
CASES['at_attr_load_write'] = [('O',)]


def sc_scalar_param(tau):
    tau += 1
    return tau
CASES['sc_scalar_param'] = [('N',)]


def sc_number_aug(k):
    k += 1
    return k
CASES['sc_number_aug'] = [('N',)]
