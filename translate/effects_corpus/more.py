"""further statement forms: conditional expressions, chained assignment, calls on call results, mutating library
functions, comprehensions with effects, deep nesting, iteration helpers"""
import numpy as np
import random
import heapq
import copy
import networkx as nx
CASES = {}
REGRESSION = []


def mo_ifexp_alias(xs, ys):
    x = xs if len(xs) > 5 else ys
    x.append(1)
CASES['mo_ifexp_alias'] = [('L', 'L'), ('L7', 'L')]


def mo_chained_assign(xs):
    a = b = xs
    b.append(1)
CASES['mo_chained_assign'] = [('L',)]


def mo_boolop_alias(xs):
    x = xs or []
    x.append(1)
CASES['mo_boolop_alias'] = [('L',)]


def mo_rebind_binop(xs):
    x = xs
    x = x + [1]
    x.append(2)
    return x
CASES['mo_rebind_binop'] = [('L',)]


def mo_get_default(xs):
    d = {}
    d.get(0, xs).append(1)
CASES['mo_get_default'] = [('L',)]


def mo_setdefault_param(xs):
    d = {}
    d.setdefault(0, xs).append(1)
CASES['mo_setdefault_param'] = [('L',)]


def mo_next_iter(xs):
    next(iter(xs)).append(1)
CASES['mo_next_iter'] = [('LL',)]


def mo_sorted_elem(xs):
    sorted(xs, key=len)[0].append(1)
CASES['mo_sorted_elem'] = [('LL',)]


def mo_call_on_copy(xs):
    list(xs).append(1)
    xs.copy().append(1)
CASES['mo_call_on_copy'] = [('L',)]


def mo_reverse_slice_view(a):
    v = a[::-1]
    v[0] = 9
CASES['mo_reverse_slice_view'] = [('A',)]


def mo_nested_subscript_store(a2):
    a2[0][1] = 5
CASES['mo_nested_subscript_store'] = [('A2',)]


def mo_mask_store(a):
    a[a > 2] = 0
CASES['mo_mask_store'] = [('A',)]


def mo_np_put(a):
    np.put(a, [0], 9)
CASES['mo_np_put'] = [('A',)]


def mo_fill_diagonal(a2):
    np.fill_diagonal(a2, 0)
CASES['mo_fill_diagonal'] = [('A2',)]


def mo_copyto(a, b):
    np.copyto(a, b + 1)
CASES['mo_copyto'] = [('A', 'A')]


def mo_copyto_fresh(a, b):
    c = np.zeros(4)
    np.copyto(c, b)
    return c
CASES['mo_copyto_fresh'] = [('A', 'A')]


def mo_shuffle(xs):
    random.shuffle(xs)
CASES['mo_shuffle'] = [('L7',)]


def mo_shuffle_copy(xs):
    ys = list(xs)
    random.shuffle(ys)
    return ys
CASES['mo_shuffle_copy'] = [('L7',)]


def mo_heapify(xs):
    heapq.heapify(xs)
CASES['mo_heapify'] = [('L',)]


def _mo_store(a, b):
    a.append(b)


def mo_store_then_write(xs, ys):
    _mo_store(xs, ys)
    xs[-1].append(1)
CASES['mo_store_then_write'] = [('LL', 'L')]


def mo_comp_with_effect(xs):
    return [x.append(1) for x in xs]
CASES['mo_comp_with_effect'] = [('LL',)]


def mo_comp_pop(xs):
    return [xs.pop() for _ in range(2)]
CASES['mo_comp_pop'] = [('L',)]


def mo_immediate_lambda(xs):
    (lambda z: z)(xs).append(1)
CASES['mo_immediate_lambda'] = [('L',)]


def mo_fstring_effect(xs):
    return f"{xs.pop()}"
CASES['mo_fstring_effect'] = [('L',)]


def mo_imul(xs):
    xs *= 2
CASES['mo_imul'] = [('L',)]


def mo_deep_nesting(xs):
    ys = [xs]
    zs = [ys]
    zs[0][0].append(1)
CASES['mo_deep_nesting'] = [('L',)]


def mo_enumerate_elems(xs):
    for i, x in enumerate(xs):
        x.append(i)
CASES['mo_enumerate_elems'] = [('LL',)]


def mo_zip_elems(xs, ys):
    for a, b in zip(xs, ys):
        a.append(b)
CASES['mo_zip_elems'] = [('LL', 'L')]


def mo_random_choice_elem(xs):
    random.choice(xs).append(1)
CASES['mo_random_choice_elem'] = [('LL',)]


def mo_random_sample_elem(xs):
    random.sample(xs, 1)[0].append(1)
CASES['mo_random_sample_elem'] = [('LL',)]


def mo_del_keys_loop(d):
    for k in list(d):
        del d[k]
CASES['mo_del_keys_loop'] = [('D',)]


def mo_node_attr_update(G):
    G.nodes[0].update({'x': 1})
CASES['mo_node_attr_update'] = [('G',)]


def mo_graph_ctor_shared_attr(G):
    H = nx.Graph(G)
    H.nodes[0]['box'].append(1)
CASES['mo_graph_ctor_shared_attr'] = [('G',)]


def mo_deepcopy_elem(xs):
    ys = copy.deepcopy(xs)
    ys[0].append(1)
    return ys
CASES['mo_deepcopy_elem'] = [('LL',)]


def mo_attr_aug(o):
    o.flag += 1
CASES['mo_attr_aug'] = [('O',)]


def mo_unbound_method(xs):
    list.append(xs, 1)
CASES['mo_unbound_method'] = [('L',)]
REGRESSION.append('mo_unbound_method')


def mo_getattr_call(xs):
    getattr(xs, 'append')(1)
CASES['mo_getattr_call'] = [('L',)]
REGRESSION.append('mo_getattr_call')


def mo_for_else_break(xs):
    for x in xs:
        if len(x) > 5:
            break
    else:
        xs.append([0])
CASES['mo_for_else_break'] = [('LL',)]


def mo_while_else(xs):
    i = 0
    while i < 2:
        i += 1
    else:
        xs.append(i)
CASES['mo_while_else'] = [('L',)]


def mo_try_else(xs):
    try:
        x = xs[0]
    except IndexError:
        x = 0
    else:
        xs.append(x)
CASES['mo_try_else'] = [('L',)]


def mo_transpose_copy(a2):
    b = a2.T.copy()
    b[0, 0] = 9
    return b
CASES['mo_transpose_copy'] = [('A2',)]


def mo_status_arrays(G, tmin, tmax):
    times = [tmin]
    S = [G.order()]
    I = [0]
    for u in G.nodes():
        times.append(times[-1] + 1)
        S.append(S[-1] - 1)
        I.append(I[-1] + 1)
    return np.array(times), np.array(S), np.array(I)
CASES['mo_status_arrays'] = [('G', 'N', 'N')]
