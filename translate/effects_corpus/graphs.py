"""networkx graphs and views; event queue; odeint"""
import numpy as np
import networkx as nx
from scipy import integrate
CASES = {}
REGRESSION = ['gr_set_node_attrs_copy', 'gr_copy_as_view']


def gr_add_node(G):
    G.add_node(99)
CASES['gr_add_node'] = [('G',)]


def gr_copy_add(G):
    H = G.copy()
    H.add_node(99)
    return H
CASES['gr_copy_add'] = [('G',)]


def gr_copy_as_view(G):
    H = G.copy(as_view=True)
    H.nodes[0]['box'].append(1)
CASES['gr_copy_as_view'] = [('G',)]


def gr_nodes_attr_write(G):
    G.nodes[0]['x'] = 1
CASES['gr_nodes_attr_write'] = [('G',)]


def gr_adj_write(G):
    G.adj[0][1]['w'] = 5
CASES['gr_adj_write'] = [('G',)]


def gr_copy_shared_attr(G):
    H = G.copy()
    H.nodes[0]['box'].append(1)
CASES['gr_copy_shared_attr'] = [('G',)]


def gr_subgraph_write(G):
    H = G.subgraph([0, 1])
    H.nodes[0]['x'] = 1
CASES['gr_subgraph_write'] = [('G',)]


def gr_neighbors_loop(G):
    n = 0
    for u in G.neighbors(0):
        n += G.degree(u)
    return n
CASES['gr_neighbors_loop'] = [('G',)]


def gr_graph_ctor(G):
    H = nx.Graph(G)
    H.add_edge(0, 99)
    return H
CASES['gr_graph_ctor'] = [('G',)]


def gr_edges_data_write(G):
    for u, v, d in G.edges(data=True):
        d['w'] = 0
CASES['gr_edges_data_write'] = [('G',)]


def gr_degree_read(G):
    return dict(G.degree())
CASES['gr_degree_read'] = [('G',)]


def gr_status_dict(G, initial_infecteds):
    status = {u: 'S' for u in G.nodes()}
    for u in initial_infecteds:
        status[u] = 'I'
    infected = list(initial_infecteds)
    infected.append(3)
    return status, infected
CASES['gr_status_dict'] = [('G', 'L01')]


def gr_set_node_attrs(G, dl):
    nx.set_node_attributes(G, dl, 'z')
CASES['gr_set_node_attrs'] = [('G', 'DL')]


def gr_set_node_attrs_copy(G, dl):
    H = nx.Graph()
    H.add_nodes_from([0, 1])
    nx.set_node_attributes(H, dl, 'z')
    x = nx.get_node_attributes(H, 'z')
    x[0].append(1)
CASES['gr_set_node_attrs_copy'] = [('G', 'DL')]


def gr_get_node_attrs_write(G):
    x = nx.get_node_attributes(G, 'box')
    x[0].append(1)
CASES['gr_get_node_attrs_write'] = [('G',)]


def gr_graph_attr(G):
    G.graph['k'] = 1
CASES['gr_graph_attr'] = [('G',)]


def _gr_handler(t, b):
    b.append(t)


def gr_queue_param(xs):
    Q = myQueue(10)
    Q.add(1.0, _gr_handler, args=(xs,))
    Q.pop_and_run()
CASES['gr_queue_param'] = [('L',)]


def gr_queue_copy(xs):
    Q = myQueue(10)
    Q.add(1.0, _gr_handler, args=(list(xs),))
    Q.pop_and_run()
CASES['gr_queue_copy'] = [('L',)]


def _gr_rhs_bad(X, t, P):
    P[0] = P[0] + 1.0
    return -X


def _gr_rhs_ok(X, t, P):
    X[0] = X[0] * 1.0
    return -X * P[0]


def gr_odeint_args_written(X0):
    times = np.linspace(0, 1, 3)
    return integrate.odeint(_gr_rhs_bad, X0, times, args=(X0,))
CASES['gr_odeint_args_written'] = [('A',)]


def gr_odeint_state_written(X0):
    times = np.linspace(0, 1, 3)
    return integrate.odeint(_gr_rhs_ok, X0, times, args=(X0,))
CASES['gr_odeint_state_written'] = [('A',)]
