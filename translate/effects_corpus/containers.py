"""lists, dicts, sets, heaps: bulk stores, copies, element loads"""
import numpy as np
import heapq
import copy
from collections import defaultdict, Counter
CASES = {}
REGRESSION = ['co_extend_then_write', 'co_iadd_then_write', 'co_slice_assign_then_write', 'co_dict_pairs', 'co_dict_kw',
              'co_heappop_write', 'co_sum_start', 'co_update_pairs_then_write', 'co_copy_copy_graph']


def co_extend_then_write(xs):
    o = list(xs)
    d = []
    d.extend(o)
    d[0].append(1)
CASES['co_extend_then_write'] = [('LL',)]


def co_update_then_write(dl):
    d = {}
    d.update(dl)
    d[0].append(1)
CASES['co_update_then_write'] = [('DL',)]


def co_update_pairs_then_write(xs):
    d = {}
    d.update([(1, xs)])
    d[1].append(1)
CASES['co_update_pairs_then_write'] = [('L',)]


def co_iadd_then_write(xs):
    o = list(xs)
    d = []
    d += o
    d[0].append(1)
CASES['co_iadd_then_write'] = [('LL',)]


def co_slice_assign_then_write(xs):
    o = list(xs)
    d = [0]
    d[0:1] = o
    d[0].append(1)
CASES['co_slice_assign_then_write'] = [('LL',)]


def co_dict_pairs(xs):
    d = dict([(1, xs)])
    d[1].append(5)
CASES['co_dict_pairs'] = [('L',)]


def co_dict_kw(xs):
    d = dict(a=xs)
    d['a'].append(1)
CASES['co_dict_kw'] = [('L',)]


def co_set_update(s, xs):
    s.update(xs)
CASES['co_set_update'] = [('S', 'L7')]


def co_set_ior(s, xs):
    s |= set(xs)
CASES['co_set_ior'] = [('S', 'L7')]


def co_set_ior_fresh(s, xs):
    t = set(s)
    t |= set(xs)
    return t
CASES['co_set_ior_fresh'] = [('S', 'L7')]


def co_dict_update_param(d):
    d.update({9: 9})
CASES['co_dict_update_param'] = [('D',)]


def co_dict_setitem(d):
    d[5] = 1
CASES['co_dict_setitem'] = [('D',)]


def co_dict_del(d):
    del d[0]
CASES['co_dict_del'] = [('D',)]


def co_dict_pop(d):
    d.pop(0)
CASES['co_dict_pop'] = [('D',)]


def co_dict_get_write(dl):
    x = dl.get(0)
    x.append(1)
CASES['co_dict_get_write'] = [('DL',)]


def co_dict_values_loop(dl):
    for v in dl.values():
        v.append(1)
CASES['co_dict_values_loop'] = [('DL',)]


def co_dict_items_loop(dl):
    for k, v in dl.items():
        v.append(k)
CASES['co_dict_items_loop'] = [('DL',)]


def co_dict_keys_safe(dl):
    ks = list(dl.keys())
    ks.append(1)
    return ks
CASES['co_dict_keys_safe'] = [('DL',)]


def co_dict_copy_shallow(dl):
    d = dict(dl)
    d[0].append(1)
CASES['co_dict_copy_shallow'] = [('DL',)]


def co_dict_copy_setitem(dl):
    d = dict(dl)
    d[0] = 5
    return d
CASES['co_dict_copy_setitem'] = [('DL',)]


def co_sorted_safe(xs):
    s = sorted(xs)
    s.append(1)
    return s
CASES['co_sorted_safe'] = [('L',)]


def co_setdefault(dl):
    dl.setdefault(7, []).append(1)
CASES['co_setdefault'] = [('DL',)]


def co_defaultdict_store(xs):
    x = defaultdict(list)
    x[1].append(xs)
    x[1][0].append(3)
CASES['co_defaultdict_store'] = [('L',)]


def co_counter(xs):
    c = Counter(xs)
    c[1] += 1
    return c
CASES['co_counter'] = [('L',)]


def co_heappop_write(h):
    x = list(h)
    e = heapq.heappop(x)
    e[2].append(1)
CASES['co_heappop_write'] = [('H',)]


def co_heappush_param(h):
    heapq.heappush(h, (9.0, 9, []))
CASES['co_heappush_param'] = [('H',)]


def co_sum_start(pl, q):
    r = sum(pl, q)
    r.append(1)
CASES['co_sum_start'] = [('L0', 'L')]


def co_comprehension_alias(xs):
    x = [y for y in xs]
    x[0].append(1)
CASES['co_comprehension_alias'] = [('LL',)]


def co_comprehension_copy(xs):
    x = [list(y) for y in xs]
    x[0].append(1)
    return x
CASES['co_comprehension_copy'] = [('LL',)]


def co_dictcomp_alias(dl):
    x = {k: v for k, v in dl.items()}
    x[0].append(1)
CASES['co_dictcomp_alias'] = [('DL',)]


def co_list_insert(xs):
    xs.insert(0, 1)
CASES['co_list_insert'] = [('L',)]


def co_del_slice(xs):
    del xs[0:1]
CASES['co_del_slice'] = [('L',)]


def co_list_concat_fresh(xs, q):
    r = xs + q
    r.append(1)
    return r
CASES['co_list_concat_fresh'] = [('L', 'L')]


def co_list_concat_elem(xs, q):
    r = xs + q
    r[0].append(1)
CASES['co_list_concat_elem'] = [('LL', 'LL')]


def co_list_mul(xs):
    r = xs * 2
    r[0].append(1)
CASES['co_list_mul'] = [('LL',)]


def co_slice_copy(xs):
    r = xs[:]
    r.append(1)
    return r
CASES['co_slice_copy'] = [('L',)]


def co_slice_copy_elem(xs):
    r = xs[:]
    r[0].append(1)
CASES['co_slice_copy_elem'] = [('LL',)]


def co_copy_copy_graph(G):
    H = copy.copy(G)
    H.add_node(99)
CASES['co_copy_copy_graph'] = [('G',)]


def co_deepcopy_graph(G):
    H = copy.deepcopy(G)
    H.add_node(99)
    return H
CASES['co_deepcopy_graph'] = [('G',)]


def co_max_elem(xs):
    m = max(xs, key=len)
    m.append(0)
CASES['co_max_elem'] = [('LL',)]


def co_zip_dict(ks, vs):
    d = dict(zip(ks, vs))
    d[3].append(1)
CASES['co_zip_dict'] = [('L', 'LL3')]


def co_aug_subscript_elem(xs):
    x = list(xs)
    x[0] += [1]
CASES['co_aug_subscript_elem'] = [('LL',)]
REGRESSION.append('co_aug_subscript_elem')


def co_aug_subscript_number(xs):
    x = list(xs)
    x[0] += 1
    return x
CASES['co_aug_subscript_number'] = [('L',)]


def co_aug_dict_elem(dl):
    d = dict(dl)
    d[0] += [5]
CASES['co_aug_dict_elem'] = [('DL',)]
REGRESSION.append('co_aug_dict_elem')


def co_lambda_default(xs):
    f = lambda x=xs: x
    f().append(1)
CASES['co_lambda_default'] = [('L',)]
REGRESSION.append('co_lambda_default')
