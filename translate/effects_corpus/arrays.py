"""numpy: views, copies, in-place operators, attribute stores, out= arguments"""
import numpy as np
CASES = {}
REGRESSION = ['ar_list_of_rows', 'ar_reversed_rows', 'ar_tuple_rows', 'ar_out_kw', 'ar_out_positional', 'ar_method_out',
              'ar_array_nocopy', 'ar_astype_nocopy', 'ar_atleast_two', 'ar_sorted_rows', 'ar_dot_out']


def ar_aug_add(a):
    a += 1
CASES['ar_aug_add'] = [('A',)]


def ar_aug_rebind_first(a):
    a = a + 0
    a += 1
    return a
CASES['ar_aug_rebind_first'] = [('A',)]


def ar_aug_alias(a):
    b = a
    b *= 2
CASES['ar_aug_alias'] = [('A',)]


def ar_aug_slice(a):
    a[1:] += 1
CASES['ar_aug_slice'] = [('A',)]


def ar_slice_view_write(a):
    v = a[1:]
    v[0] = 9
CASES['ar_slice_view_write'] = [('A',)]


def ar_slice_assign(a):
    a[:] = 0
CASES['ar_slice_assign'] = [('A',)]


def ar_T_write(a2):
    t = a2.T
    t[0, 0] = 5
CASES['ar_T_write'] = [('A2',)]


def ar_reshape_write(a2):
    r = a2.reshape(-1)
    r[0] = 7
CASES['ar_reshape_write'] = [('A2',)]


def ar_ravel_write(a2):
    r = a2.ravel()
    r[0] = 7
CASES['ar_ravel_write'] = [('A2',)]


def ar_np_ravel_write(a2):
    r = np.ravel(a2)
    r[0] = 7
CASES['ar_np_ravel_write'] = [('A2',)]


def ar_flatten_write(a2):
    r = a2.flatten()
    r[0] = 7
    return r
CASES['ar_flatten_write'] = [('A2',)]


def ar_copy_write(a):
    c = a.copy()
    c[0] = 1
    return c
CASES['ar_copy_write'] = [('A',)]


def ar_asarray_write(a):
    b = np.asarray(a)
    b[0] = 3
CASES['ar_asarray_write'] = [('A',)]


def ar_array_write(a):
    b = np.array(a)
    b[0] = 3
    return b
CASES['ar_array_write'] = [('A',)]


def ar_shape_store(a2):
    a2.shape = (a2.size,)
CASES['ar_shape_store'] = [('A2',)]


def ar_shape_store_alias(a2):
    b = a2
    b.shape = (12,)
CASES['ar_shape_store_alias'] = [('A2',)]


def ar_shape_store_after_copy(a2):
    b = a2 * 1
    b.shape = (b.size,)
    return b
CASES['ar_shape_store_after_copy'] = [('A2',)]


def ar_index_row_write(a2):
    r = a2[0]
    r[0] = 5
CASES['ar_index_row_write'] = [('A2',)]


def ar_fill(a):
    a.fill(0)
CASES['ar_fill'] = [('A',)]


def ar_sort_method(a):
    a.sort()
CASES['ar_sort_method'] = [('AU',)]


def ar_squeeze_write(a141):
    s = np.squeeze(a141)
    s[0] = 9
CASES['ar_squeeze_write'] = [('A141',)]


def ar_atleast_write(a):
    b = np.atleast_1d(a)
    b[0] = 9
CASES['ar_atleast_write'] = [('A',)]


def ar_atleast_two(a, b):
    x, y = np.atleast_1d(a * 1, b)
    y[0] = 9
CASES['ar_atleast_two'] = [('A', 'A')]


def ar_for_rows(a2):
    for r in a2:
        r[0] = 1
CASES['ar_for_rows'] = [('A2',)]


def ar_list_of_rows(a2):
    rows = list(a2)
    rows[0][0] = 9
CASES['ar_list_of_rows'] = [('A2',)]


def ar_reversed_rows(a2):
    for r in reversed(a2):
        r[0] = 1
CASES['ar_reversed_rows'] = [('A2',)]


def ar_tuple_rows(a2):
    t = tuple(a2)
    t[1][:] = 0
CASES['ar_tuple_rows'] = [('A2',)]


def ar_sorted_rows(a141):
    s = sorted(a141)
    s[0][0] = 9
CASES['ar_sorted_rows'] = [('A141',)]


def ar_enumerate_rows(a2):
    for i, r in enumerate(a2):
        r[i] = 0
CASES['ar_enumerate_rows'] = [('A2',)]


def ar_zip_rows(a2, b2):
    for r, s in zip(a2, b2):
        r[0] = s[0] + 1
CASES['ar_zip_rows'] = [('A2', 'A2')]


def ar_out_kw(a):
    np.exp(a, out=a)
CASES['ar_out_kw'] = [('A',)]


def ar_out_positional(a, b):
    np.sqrt(a, b)
CASES['ar_out_positional'] = [('A', 'A')]


def ar_method_out(a):
    a.cumsum(out=a)
CASES['ar_method_out'] = [('A',)]


def ar_dot_out(a2, b, c):
    a2.dot(b, c)
CASES['ar_dot_out'] = [('A2', 'A', 'A3')]


def ar_array_nocopy(a):
    b = np.array(a, copy=False)
    b[0] = 7
CASES['ar_array_nocopy'] = [('A',)]


def ar_astype_nocopy(a):
    b = a.astype(float, copy=False)
    b[0] = 7
CASES['ar_astype_nocopy'] = [('A',)]


def ar_astype_copy(a):
    b = a.astype(float)
    b[0] = 1
    return b
CASES['ar_astype_copy'] = [('A',)]


def ar_flat_write(a2):
    a2.flat[0] = 5
CASES['ar_flat_write'] = [('A2',)]


def ar_real_write(a):
    a.real[0] = 3
CASES['ar_real_write'] = [('A',)]


def ar_concat_write(a):
    c = np.concatenate((a, a), axis=0)
    c[0] = 1
    return c
CASES['ar_concat_write'] = [('A',)]


def ar_zeros_like(a):
    z = np.zeros_like(a)
    z[0] = 1
    return z
CASES['ar_zeros_like'] = [('A',)]


def ar_swap_rows(a2):
    a2[0], a2[1] = a2[1].copy(), a2[0].copy()
CASES['ar_swap_rows'] = [('A2',)]


def ar_arith_fresh(a, b):
    c = a * b + 1
    c[0] = 0
    c += 1
    return c
CASES['ar_arith_fresh'] = [('A', 'A')]


def ar_transpose_method_write(a2):
    t = a2.transpose()
    t[1, 1] = 3
CASES['ar_transpose_method_write'] = [('A2',)]


def ar_sum_axis(a2):
    s = a2.sum(axis=0)
    s[0] = 1
    return s
CASES['ar_sum_axis'] = [('A2',)]


def ar_aug_subscript_rows(a2):
    rows = [r for r in a2]
    rows[0] += 1
CASES['ar_aug_subscript_rows'] = [('A2',)]
REGRESSION.append('ar_aug_subscript_rows')


def ar_aug_numeric_local(a):
    d = np.zeros(4)
    for i in range(4):
        d[i] += a[i]
    return d
CASES['ar_aug_numeric_local'] = [('A',)]
