#!/venv/bin/python
"""rhs2d2v: fail-closed translator of node-level / 2-D ODE right-hand sides of EoN/analytic.py
into Coq definitions (coq/Gen/Rhs2.v) over Q, list Q and the graphs of Base/Graph.v.

    rhs2d2v.py [--repo /repo] [--out coq/Gen/Rhs2.v] [--sig coq/Gen/rhs2_sig.json]

Translated now: _dSIS/_dSIR_individual_based_, _dSIS/_dSIR_effective_degree_,
_dSIS/_dSIR_heterogeneous_pairwise_ and _dSIS/_dSIR_pair_based_ (see FUNCS).  The generated definitions
are proved equal to the hand-written, proof-friendly models of Model/Rhs2D.v in Proofs/Rhs2GenP.v
(recompiled on every run of C06/C07/C08): the theorems of Proofs/Rhs2DP.v thereby speak about what the
file says now.  Everything outside the fragment below is refused: exit 2 with
`rhs2d2v: unsupported <construct> at analytic.py:<line> in <function>`.

Types: q = float scalar (Q); i = Python int (translated twice: exactly into Q where it is used in
arithmetic, and into nat where it is used as an index, a length or a range bound; nat subtraction
truncates, Python's would go negative: an index `a - b` is inside the fragment only as written, the
code guards it with its own `if`, and the point-evaluation tie of harness/rhs2_lib.py runs the generated
definition against the function); v = 1-D array; m = 2-D array = flat row-major vec + shape (r, c);
node, nodes (list of nodes), graph, idx (dict node -> position), f1/f2 (rate functions), shape (pair of ints).

Fragment
  statements : docstring; `x = e`; `a.shape = <shape>` (reshape of a contiguous 1-D slice to 2-D, or of a
               2-D array back to 1-D of length r*c, or to a column (r*c, 1)); `a = np.zeros(n | shape | (n, n))`;
               `a[a == 0] = 1`; `return e` (last);
               loops, each defining the zero-initialised arrays it writes (every cell at most once):
                 L1 `for index, (x, a, ..) in enumerate(zip(nodelist, A, ..)): arr[index] = e ..`
                 L2 `for s in range(r): for i in range(c): [if/else scalar assignments] arr[s, i] = e ..`
                 L3 `for u in nodelist: i = index_of_node[u]; arr[i] += e; for v in G.neighbors(u): j = index_of_node[v];
                     arr[i] += e; arr2[i, j] += e; for w in G.neighbors(x): if w == y: continue; k = index_of_node[w];
                     arr2[i, j] += e` -- accumulation into cells addressed through index_of_node; the generated
                     cell (i, j) is the sum over the iterations that address it (see emit_accum)
  expressions: literals, names, + - * /, unary -, `len(nodelist)`, `G.order()`, `shape[0|1]`, `N**2`,
               `X[-1]`, `X[:-1]`, `X[a:b]`, `X[:a]`, `X[a:]`, `A[s, i]`, `Y[index_of_node[u]]`, `f(u)`, `f(u, v)`,
               `sum(e for x in G.neighbors(u))`, `sum([e for i in range(n)])`, `A.sum()`, `A.sum(1)`, `A.T`,
               1-D / 2-D elementwise arithmetic with numpy broadcasting of scalars and of 1-D operands along the
               last axis, `np.array([e if c else e for v in X])`, `np.array(e)`,
               `np.concatenate((a, b, [x]), axis=0)` of 1-D parts, and the idiom
               `np.concatenate((a[:,None], B, ..), axis=0).T[0]` with column-shaped parts (= concatenation of the flats),
               comparisons `==`, `!=` of ints / of nodes / of a float with 0, `or`.
"""
import ast, sys, os, json, hashlib, argparse
from fractions import Fraction

NODEARGS = [('G', 'graph'), ('nodelist', 'nodes'), ('index_of_node', 'idx'), ('trans_rate_fxn', 'f2'), ('rec_rate_fxn', 'f1')]
SIG = {
    '_dSIS_individual_based_': [('Y', 'v'), ('t', 'q')] + NODEARGS,
    '_dSIR_individual_based_': [('V', 'v'), ('t', 'q')] + NODEARGS,
    '_dSIS_effective_degree_': [('X', 'v'), ('t', 'q'), ('original_shape', 'shape'), ('tau', 'q'), ('gamma', 'q')],
    '_dSIR_effective_degree_': [('X', 'v'), ('t', 'q'), ('N', 'q'), ('original_shape', 'shape'), ('tau', 'q'), ('gamma', 'q')],
}
SIG.update({
    '_dSIS_heterogeneous_pairwise_': [('X', 'v'), ('t', 'q'), ('Nk', 'v'), ('NkNl', 'msq:Ks'), ('tau', 'q'), ('gamma', 'q'), ('Ks', 'v')],
    '_dSIR_heterogeneous_pairwise_': [('X', 'v'), ('t', 'q'), ('tau', 'q'), ('gamma', 'q'), ('Nk', 'v'), ('Ks', 'v')],
    '_dSIS_pair_based_': [('V', 'v'), ('t', 'q')] + NODEARGS,
    '_dSIR_pair_based_': [('V', 'v'), ('t', 'q')] + NODEARGS,
})
FUNCS = list(SIG)
COQTY = {'q': 'Q', 'v': 'vec', 'msq:Ks': 'vec', 'graph': 'graph', 'nodes': 'list node', 'idx': 'node -> nat', 'f2': 'node -> node -> Q',
         'f1': 'node -> Q', 'shape': '(nat * nat)%type'}


class Refuse(Exception):
    pass


NATDEF = {}          # let-bound nat names of the function being translated -> their definitions


def norm_nat(t):
    """nat term with let-bound names expanded and blanks / scope marks removed (syntactic comparison of shapes)"""
    import re
    for _ in range(20):
        t2 = re.sub(r'\bn_[A-Za-z0-9_]+\b', lambda m: '(%s)' % NATDEF[m.group(0)] if m.group(0) in NATDEF else m.group(0), t)
        if t2 == t:
            break
        t = t2
    t = t.replace('%nat', '').replace(' ', '')
    while True:                                   # drop redundant parentheses around atoms: ((x)) -> (x)
        t2 = re.sub(r'\(\(([^()]*)\)\)', r'(\1)', t)
        if t2 == t:
            break
        t = t2
    return t


class E:
    """typed Coq expression.  ty: q i v m node nodes graph idx f1 f2 shape b
       i: .s = Q term, .n = nat term (None when not expressible)
       v: .s = vec term, .len = nat term or None
       m: .s = flat vec term, .shape = (r, c) nat terms"""
    def __init__(self, ty, s, n=None, ln=None, shape=None, ival=None):
        self.ty, self.s, self.n, self.len, self.shape, self.ival = ty, s, n, ln, shape, ival


def qlit(x):
    f = Fraction(x)
    if f.denominator == 1:
        return str(f.numerator) if f.numerator >= 0 else '(%d)' % f.numerator
    return '(%d # %d)' % (f.numerator, f.denominator)


class Tr:
    def __init__(self, fname, env):
        self.fname = fname
        self.env = dict(env)            # name -> E (variables carry their Coq name in .s)
        self.lets = []                  # (coq name, term)
        self.pending = {}               # zero arrays waiting for the loop that defines them: name -> ('v', len) | ('m', (r, c))
        self.cells = {}                 # inside a loop body: (array name) -> coq name of the cell written in this iteration
        self.fresh = set()              # computed 1-D arrays with no alias (targets of `a[a == 0] = 1`)

    # ------------------------------------------------------------------ helpers
    def refuse(self, node, what=None):
        what = what or type(node).__name__
        raise Refuse('rhs2d2v: unsupported %s at analytic.py:%d in %s' % (what, getattr(node, 'lineno', 0), self.fname))

    def var(self, name):
        return 'v_' + name

    def bind(self, name, e):
        """let-bind `name` to expression e; returns the variable expression"""
        x = self.var(name)
        if e.ty == 'i':
            # ints are bound twice: the Q view and (when it exists) the nat view
            self.lets.append((x, e.s))
            nn = None
            if e.n is not None:
                nn = 'n_' + name
                self.lets.append((nn, e.n))
                NATDEF[nn] = e.n
            v = E('i', x, n=nn, ival=e.ival)
        elif e.ty in ('q', 'node', 'b'):
            self.lets.append((x, e.s)); v = E(e.ty, x)
        elif e.ty == 'v':
            self.lets.append((x, e.s)); v = E('v', x, ln=e.len)
        elif e.ty == 'm':
            self.lets.append((x, e.s)); v = E('m', x, shape=e.shape)
        elif e.ty == 'fv':
            self.lets.append((x, e.s)); v = E('fv', x, ln=e.len)
        elif e.ty == 'fm':
            self.lets.append((x, e.s)); v = E('fm', x, shape=e.shape)
        elif e.ty == 'col':
            self.lets.append((x, e.s)); v = E('col', x)
        else:
            self.refuse(None, 'binding of a %s' % e.ty)
        self.env[name] = v
        return v

    def as_q(self, e, node):
        if e.ty in ('q', 'i'):
            return e.s
        self.refuse(node, 'non-scalar operand (%s)' % e.ty)

    def as_nat(self, e, node):
        if e.ty == 'i' and e.n is not None:
            return e.n
        self.refuse(node, 'expression used as an index / length is not a non-negative int expression')

    # ------------------------------------------------------------------ arrays
    # 1-D: 'v' (list term) | 'fv' (function nat -> Q, .len);  2-D: 'm' (flat list + .shape) | 'fm' (function nat -> nat -> Q, .shape)
    # 'col': a column (n, 1), .s = the flat list
    def elt1(self, e, i):
        return '(vnth %s %s)' % (i, e.s) if e.ty == 'v' else '(%s %s)' % (e.s, i)

    def elt2(self, e, i, j):
        return '(vnth (%s * %s + %s) %s)' % (i, e.shape[1], j, e.s) if e.ty == 'm' else '(%s %s %s)' % (e.s, i, j)

    def len1(self, e):
        return e.len if (e.ty == 'fv' or e.len is not None) else '(length %s)' % e.s

    def to_list(self, e, node):
        if e.ty == 'v':
            return e.s
        if e.ty == 'fv':
            return '(tab %s %s)' % (e.len, e.s)
        if e.ty == 'col':
            return e.s
        self.refuse(node, 'conversion of a %s to a flat vector' % e.ty)

    def arr_binop(self, a, b, sym, node):
        """numpy elementwise arithmetic with broadcasting of scalars and of 1-D operands along the last axis;
        shapes are those of the left-most array operand (numpy raises where they do not fit: outside the domain)"""
        d1 = ('v', 'fv'); d2 = ('m', 'fm'); sc = ('q', 'i')
        def op(x, y):
            return '(%s %s %s)' % (x, sym, y)
        if a.ty in d2 or b.ty in d2:
            sh = a.shape if a.ty in d2 else b.shape
            def el(e):
                if e.ty in d2: return self.elt2(e, 'i_', 'j_')
                if e.ty in d1: return self.elt1(e, 'j_')
                if e.ty in sc: return e.s
                self.refuse(node, 'operand %s' % e.ty)
            return E('fm', '(fun i_ j_ => %s)' % op(el(a), el(b)), shape=sh)
        if a.ty in d1 or b.ty in d1:
            ln = self.len1(a) if a.ty in d1 else self.len1(b)
            def el(e):
                if e.ty in d1: return self.elt1(e, 'i_')
                if e.ty in sc: return e.s
                self.refuse(node, 'operand %s' % e.ty)
            return E('fv', '(fun i_ => %s)' % op(el(a), el(b)), ln=ln)
        self.refuse(node, 'arithmetic between %s and %s' % (a.ty, b.ty))

    # ------------------------------------------------------------------ expressions
    def expr(self, n):
        if isinstance(n, ast.Constant):
            if isinstance(n.value, bool) or not isinstance(n.value, (int, float)):
                self.refuse(n, 'constant %r' % (n.value,))
            if isinstance(n.value, int):
                return E('i', qlit(n.value), n=('%d%%nat' % n.value if n.value >= 0 else None), ival=n.value)
            if n.value != n.value or n.value in (float('inf'), float('-inf')):
                self.refuse(n, 'non-finite constant')
            return E('q', qlit(n.value))
        if isinstance(n, ast.Name):
            if n.id in self.pending:
                self.refuse(n, 'read of the zero-initialised array %s before the loop that fills it' % n.id)
            if n.id not in self.env:
                self.refuse(n, 'unbound name %s' % n.id)
            return self.env[n.id]
        if isinstance(n, ast.UnaryOp) and isinstance(n.op, ast.USub):
            a = self.expr(n.operand)
            if a.ty == 'i':
                return E('i', '(- %s)' % a.s, ival=(-a.ival if a.ival is not None else None))
            if a.ty == 'q':
                return E('q', '(- %s)' % a.s)
            if a.ty in ('v', 'fv', 'm', 'fm'):
                return self.arr_binop(E('i', '0', n='0%nat', ival=0), a, '-', n)
            self.refuse(n, 'unary minus of a %s' % a.ty)
        if isinstance(n, ast.Attribute) and n.attr == 'T':
            if isinstance(n.value, ast.Name):
                self.fresh.discard(n.value.id)          # .T is a view: a later in-place write would be shared
            a = self.expr(n.value)
            if a.ty in ('m', 'fm'):
                return E('fm', '(fun i_ j_ => %s)' % self.elt2(a, 'j_', 'i_'), shape=(a.shape[1], a.shape[0]))
            self.refuse(n, '.T of a %s' % a.ty)
        if isinstance(n, ast.IfExp):
            c = self.cond(n.test); a = self.expr(n.body); b = self.expr(n.orelse)
            return E('q', '(if %s then %s else %s)' % (c.s, self.as_q(a, n.body), self.as_q(b, n.orelse)))
        if isinstance(n, ast.BinOp):
            return self.binop(n)
        if isinstance(n, ast.Call):
            return self.call(n)
        if isinstance(n, ast.Subscript):
            return self.subscript(n)
        if isinstance(n, ast.Compare) or isinstance(n, ast.BoolOp):
            return self.cond(n)
        self.refuse(n)

    def binop(self, n):
        ops = {ast.Add: '+', ast.Sub: '-', ast.Mult: '*', ast.Div: '/'}
        if isinstance(n.op, ast.Pow):
            a = self.expr(n.left); b = self.expr(n.right)
            if a.ty == 'i' and b.ty == 'i' and b.ival == 2 and a.n is not None:
                return E('i', '(%s * %s)' % (a.s, a.s), n='(%s * %s)%%nat' % (a.n, a.n))
            self.refuse(n, '** other than <int> ** 2')
        if type(n.op) not in ops:
            self.refuse(n, 'operator ' + type(n.op).__name__)
        sym = ops[type(n.op)]
        a = self.expr(n.left); b = self.expr(n.right)
        if a.ty == 'i' and b.ty == 'i' and sym != '/':
            nn = None
            if a.n is not None and b.n is not None:
                nn = '(%s %s %s)%%nat' % (a.n, sym, b.n)
            iv = None
            if a.ival is not None and b.ival is not None:
                iv = {'+': a.ival + b.ival, '-': a.ival - b.ival, '*': a.ival * b.ival}[sym]
            return E('i', '(%s %s %s)' % (a.s, sym, b.s), n=nn, ival=iv)
        if a.ty in ('q', 'i') and b.ty in ('q', 'i'):
            return E('q', '(%s %s %s)' % (a.s, sym, b.s))
        return self.arr_binop(a, b, sym, n)

    def comp_sum(self, comp, node):
        """sum(<elt> for x in <iter>) / sum([<elt> for x in <iter>])"""
        if len(comp.generators) != 1:
            self.refuse(node, 'comprehension with several for clauses')
        g = comp.generators[0]
        if g.ifs or getattr(g, 'is_async', 0) or not isinstance(g.target, ast.Name):
            self.refuse(node, 'comprehension shape')
        x = g.target.id
        saved = self.env.get(x)
        it = g.iter
        if isinstance(it, ast.Call) and isinstance(it.func, ast.Name) and it.func.id == 'range' and len(it.args) == 1 and not it.keywords:
            bound = self.as_nat(self.expr(it.args[0]), it)
            self.env[x] = E('i', '(Qnat %s)' % self.var(x), n=self.var(x))
            body = self.expr(comp.elt)
            res = E('q', '(sumn %s (fun %s => %s))' % (bound, self.var(x), self.as_q(body, comp.elt)))
        elif self.is_neighbors(it):
            u = self.expr(it.args[0])
            self.env[x] = E('node', self.var(x))
            body = self.expr(comp.elt)
            res = E('q', '(sumQ (map (fun %s => %s) (gadj %s %s)))' % (self.var(x), self.as_q(body, comp.elt), self.env[it.func.value.id].s, u.s))
        else:
            self.refuse(it, 'comprehension iterator')
        if saved is None:
            self.env.pop(x, None)
        else:
            self.env[x] = saved
        return res

    def is_neighbors(self, it):
        return (isinstance(it, ast.Call) and isinstance(it.func, ast.Attribute) and it.func.attr == 'neighbors'
                and isinstance(it.func.value, ast.Name) and it.func.value.id in self.env and self.env[it.func.value.id].ty == 'graph'
                and len(it.args) == 1 and not it.keywords and self.expr(it.args[0]).ty == 'node')

    def call(self, n):
        f = n.func
        kw = {k.arg: k.value for k in n.keywords}
        if isinstance(f, ast.Name) and f.id in self.env:
            fe = self.env[f.id]
            args = [self.expr(a) for a in n.args]
            if fe.ty == 'f1' and len(args) == 1 and args[0].ty == 'node' and not kw:
                return E('q', '(%s %s)' % (fe.s, args[0].s))
            if fe.ty == 'f2' and len(args) == 2 and all(a.ty == 'node' for a in args) and not kw:
                return E('q', '(%s %s %s)' % (fe.s, args[0].s, args[1].s))
            self.refuse(n, 'call of %s' % f.id)
        if isinstance(f, ast.Name) and not kw:
            if f.id == 'len' and len(n.args) == 1:
                a = self.expr(n.args[0])
                if a.ty in ('nodes', 'v'):
                    return E('i', '(Qnat (length %s))' % a.s, n='(length %s)' % a.s)
                self.refuse(n, 'len of a %s' % a.ty)
            if f.id == 'sum' and len(n.args) == 1:
                a = n.args[0]
                if isinstance(a, (ast.GeneratorExp, ast.ListComp)):
                    return self.comp_sum(a, n)
                e = self.expr(a)
                if e.ty in ('v', 'm'):
                    if e.ty == 'm':
                        self.refuse(n, 'builtin sum of a 2-D array')
                    return E('q', '(vsum %s)' % e.s)
                self.refuse(n, 'sum argument')
        if isinstance(f, ast.Attribute) and isinstance(f.value, ast.Name) and f.value.id == 'np' and 'np' not in self.env:
            if f.attr == 'array' and len(n.args) == 1 and not kw:
                lc = n.args[0]
                if isinstance(lc, ast.ListComp):
                    # np.array([e(v) for v in A]) over a 1-D array
                    if len(lc.generators) != 1 or lc.generators[0].ifs or not isinstance(lc.generators[0].target, ast.Name):
                        self.refuse(n, 'list comprehension shape')
                    A = self.expr(lc.generators[0].iter)
                    if A.ty not in ('v', 'fv'):
                        self.refuse(n, 'list comprehension over a %s' % A.ty)
                    x = lc.generators[0].target.id
                    saved = self.env.get(x)
                    self.env[x] = E('q', self.var(x))
                    body = self.expr(lc.elt)
                    if saved is None: self.env.pop(x, None)
                    else: self.env[x] = saved
                    return E('fv', '(fun i_ => (fun %s => %s) %s)' % (self.var(x), self.as_q(body, lc.elt), self.elt1(A, 'i_')), ln=self.len1(A))
                a = self.expr(lc)
                if a.ty in ('v', 'm', 'fv', 'fm'):
                    return a
                self.refuse(n, 'np.array of a %s' % a.ty)
            if f.attr == 'concatenate' and len(n.args) == 1 and set(kw) <= {'axis'}:
                if 'axis' in kw and not (isinstance(kw['axis'], ast.Constant) and kw['axis'].value == 0):
                    self.refuse(n, 'np.concatenate axis')
                t = n.args[0]
                if not isinstance(t, (ast.Tuple, ast.List)):
                    self.refuse(n, 'np.concatenate argument')
                parts = []
                for el in t.elts:
                    if isinstance(el, ast.List):
                        parts.append('[%s]' % '; '.join(self.as_q(self.expr(x), x) for x in el.elts))
                        continue
                    e = self.expr(el)
                    if e.ty not in ('v', 'fv'):
                        self.refuse(el, 'np.concatenate of a %s (1-D parts only)' % e.ty)
                    parts.append(self.to_list(e, el))
                return E('v', '(%s)' % ' ++ '.join(parts))
            self.refuse(n, 'call np.%s' % f.attr)
        if isinstance(f, ast.Attribute) and not kw:
            if f.attr == 'order' and not n.args and isinstance(f.value, ast.Name) and f.value.id in self.env and self.env[f.value.id].ty == 'graph':
                g = self.env[f.value.id].s
                return E('i', '(Qnat (length (gnodes %s)))' % g, n='(length (gnodes %s))' % g)
            if f.attr == 'sum' and not n.args:
                a = self.expr(f.value)
                if a.ty in ('v', 'm'):
                    return E('q', '(vsum %s)' % a.s)
                self.refuse(n, '.sum() of a %s' % a.ty)
            if f.attr == 'sum' and len(n.args) == 1 and isinstance(n.args[0], ast.Constant) and n.args[0].value == 1:
                a = self.expr(f.value)
                if a.ty in ('m', 'fm'):
                    return E('fv', '(fun i_ => sumn %s (fun j_ => %s))' % (a.shape[1], self.elt2(a, 'i_', 'j_')), ln=a.shape[0])
                self.refuse(n, '.sum(1) of a %s' % a.ty)
        self.refuse(n, 'call')

    def index_nat(self, n):
        return self.as_nat(self.expr(n), n)

    def subscript(self, n):
        base = n.value
        sl = n.slice
        # cell of an array written in this iteration of the enclosing loop
        if isinstance(base, ast.Name) and base.id in self.cells:
            key, cellvar = self.cells[base.id]
            if ast.dump(sl) == key:
                return E('q', cellvar)
            self.refuse(n, 'read of %s at a cell other than the one written in this iteration' % base.id)
        # np.concatenate((col, col, ..), axis=0).T[0]: the flats of the columns, one after the other
        if isinstance(base, ast.Attribute) and base.attr == 'T' and isinstance(base.value, ast.Call) and isinstance(sl, ast.Constant) and sl.value == 0:
            c = base.value; f = c.func
            kw = {k.arg: k.value for k in c.keywords}
            if isinstance(f, ast.Attribute) and isinstance(f.value, ast.Name) and f.value.id == 'np' and f.attr == 'concatenate' \
                    and len(c.args) == 1 and isinstance(c.args[0], (ast.Tuple, ast.List)) and set(kw) <= {'axis'} \
                    and ('axis' not in kw or (isinstance(kw['axis'], ast.Constant) and kw['axis'].value == 0)):
                parts = []
                for el in c.args[0].elts:
                    e = self.expr(el)
                    if e.ty != 'col':
                        self.refuse(el, 'np.concatenate(..).T[0] of a %s (columns only)' % e.ty)
                    parts.append(e.s)
                return E('v', '(%s)' % ' ++ '.join(parts))
            self.refuse(n, '.T[0]')
        a = self.expr(base)
        # a[:, None]: 1-D array as a column
        if a.ty in ('v', 'fv') and isinstance(sl, ast.Tuple) and len(sl.elts) == 2 and isinstance(sl.elts[0], ast.Slice) \
                and sl.elts[0].lower is None and sl.elts[0].upper is None and sl.elts[0].step is None \
                and isinstance(sl.elts[1], ast.Constant) and sl.elts[1].value is None:
            if isinstance(base, ast.Name):
                self.fresh.discard(base.id)             # a[:, None] is a view
            return E('col', self.to_list(a, n))
        if a.ty == 'fm':
            if isinstance(sl, ast.Tuple) and len(sl.elts) == 2 and not any(isinstance(x, ast.Slice) for x in sl.elts):
                return E('q', self.elt2(a, self.index_nat(sl.elts[0]), self.index_nat(sl.elts[1])))
            self.refuse(n, '2-D subscript')
        if a.ty == 'fv':
            if isinstance(sl, ast.Slice) or isinstance(sl, ast.Tuple):
                self.refuse(n, 'slice of a computed array')
            return E('q', self.elt1(a, self.index_nat(sl)))
        if a.ty == 'shape':
            if isinstance(sl, ast.Constant) and sl.value in (0, 1):
                p = 'fst' if sl.value == 0 else 'snd'
                return E('i', '(Qnat (%s %s))' % (p, a.s), n='(%s %s)' % (p, a.s))
            self.refuse(n, 'shape index')
        if a.ty == 'idx':
            u = self.expr(sl)
            if u.ty != 'node':
                self.refuse(n, 'index_of_node of a non-node')
            return E('i', '(Qnat (%s %s))' % (a.s, u.s), n='(%s %s)' % (a.s, u.s))
        if a.ty == 'm':
            if isinstance(sl, ast.Tuple) and len(sl.elts) == 2 and not any(isinstance(x, ast.Slice) for x in sl.elts):
                i = self.index_nat(sl.elts[0]); j = self.index_nat(sl.elts[1])
                return E('q', '(vnth (%s * %s + %s) %s)' % (i, a.shape[1], j, a.s))
            self.refuse(n, '2-D subscript')
        if a.ty != 'v':
            self.refuse(n, 'subscript of a %s' % a.ty)
        if isinstance(sl, ast.Slice):
            if sl.step is not None:
                self.refuse(n, 'slice step')
            def neg1(x):
                return isinstance(x, ast.UnaryOp) and isinstance(x.op, ast.USub) and isinstance(x.operand, ast.Constant) and x.operand.value == 1
            if sl.lower is None and sl.upper is None:
                return a
            if sl.lower is None:
                if neg1(sl.upper):
                    return E('v', '(drop_last 1 %s)' % a.s)
                return E('v', '(slice_to %s %s)' % (self.index_nat(sl.upper), a.s))
            if sl.upper is None:
                return E('v', '(slice_from %s %s)' % (self.index_nat(sl.lower), a.s))
            return E('v', '(slice %s %s %s)' % (self.index_nat(sl.lower), self.index_nat(sl.upper), a.s))
        if isinstance(sl, ast.UnaryOp) and isinstance(sl.op, ast.USub) and isinstance(sl.operand, ast.Constant) and sl.operand.value == 1:
            return E('q', '(vnth (length %s - 1) %s)' % (a.s, a.s))
        return E('q', '(vnth %s %s)' % (self.index_nat(sl), a.s))

    def cond(self, n):
        if isinstance(n, ast.BoolOp):
            if not isinstance(n.op, ast.Or):
                self.refuse(n, 'boolean operator other than `or`')
            parts = [self.cond(v) for v in n.values]
            s = parts[0].s
            for p in parts[1:]:
                s = '(%s || %s)%%bool' % (s, p.s)
            return E('b', s)
        if isinstance(n, ast.Compare) and len(n.ops) == 1 and isinstance(n.ops[0], (ast.Eq, ast.NotEq)):
            a = self.expr(n.left); b = self.expr(n.comparators[0])
            if a.ty == 'i' and b.ty == 'i':
                s = '(Nat.eqb %s %s)' % (self.as_nat(a, n), self.as_nat(b, n))
            elif a.ty == 'node' and b.ty == 'node':
                s = '(N.eqb %s %s)' % (a.s, b.s)
            elif a.ty == 'q' and b.ty == 'i' and b.ival == 0:
                s = '(Qeqb %s 0)' % a.s
            else:
                self.refuse(n, 'comparison between %s and %s' % (a.ty, b.ty))
            if isinstance(n.ops[0], ast.NotEq):
                s = '(negb %s)' % s
            return E('b', s)
        self.refuse(n, 'condition')

    # ------------------------------------------------------------------ statements
    def shape_of(self, n):
        """shape expression: a name of type shape, or a product r*c (flatten)"""
        if isinstance(n, ast.Tuple) and len(n.elts) == 2:
            a = self.expr(n.elts[0]); b = self.expr(n.elts[1])
            if b.ty == 'i' and b.ival == 1:
                return ('col', self.as_nat(a, n))
            return ('2d', (self.as_nat(a, n), self.as_nat(b, n)))
        e = self.expr(n)
        if e.ty == 'shape':
            return ('2d', ('(fst %s)' % e.s, '(snd %s)' % e.s))
        if e.ty == 'i' and e.n is not None:
            return ('1d', e.n)
        self.refuse(n, 'shape expression')

    def stmt_zeros(self, st, name, arg):
        kind, sh = self.shape_of(arg)
        if kind == 'col':
            self.refuse(st, 'np.zeros of a column shape')
        self.pending[name] = ('v', sh) if kind == '1d' else ('m', sh)
        self.pending_line = getattr(self, 'pending_line', {}); self.pending_line[name] = st.lineno

    def flush_pending(self, names):
        """zero arrays that no loop filled (e.g. never used scratch arrays): bind them to zeros"""
        for name in names:
            kind, sh = self.pending.pop(name)
            if kind == 'v':
                self.bind(name, E('v', '(repeat 0 %s)' % sh, ln=sh))
            else:
                self.bind(name, E('m', '(repeat 0 (%s * %s))' % sh, shape=sh))

    def body(self, stmts):
        ret = None
        for st in stmts:
            if ret is not None:
                self.refuse(st, 'statement after return')
            if isinstance(st, ast.Expr) and isinstance(st.value, ast.Constant) and isinstance(st.value.value, str):
                continue
            if isinstance(st, ast.Assign) and len(st.targets) == 1:
                tg = st.targets[0]
                # a = np.zeros(..)
                if isinstance(tg, ast.Name) and isinstance(st.value, ast.Call) and isinstance(st.value.func, ast.Attribute) \
                        and isinstance(st.value.func.value, ast.Name) and st.value.func.value.id == 'np' and st.value.func.attr == 'zeros' \
                        and len(st.value.args) == 1 and not st.value.keywords:
                    if tg.id in self.env or tg.id in self.pending:
                        self.refuse(st, 'rebinding of %s' % tg.id)
                    self.stmt_zeros(st, tg.id, st.value.args[0])
                    continue
                # a.shape = ..
                if isinstance(tg, ast.Attribute) and tg.attr == 'shape' and isinstance(tg.value, ast.Name):
                    nm = tg.value.id
                    if nm in self.pending:
                        self.flush_pending([nm])
                    if nm not in self.env:
                        self.refuse(st, 'reshape of unbound %s' % nm)
                    a = self.env[nm]
                    kind, sh = self.shape_of(st.value)
                    if kind == 'col' and a.ty in ('m', 'fm'):
                        if norm_nat(sh) != norm_nat('(%s * %s)' % a.shape):
                            self.refuse(st, 'column of a length other than r*c (%s vs %s)' % (norm_nat(sh), norm_nat('(%s * %s)' % a.shape)))
                        flat = a.s if a.ty == 'm' else '(tab2 %s %s %s)' % (a.shape[0], a.shape[1], a.s)
                        self.env[nm] = E('col', flat)
                    elif kind == '2d' and a.ty == 'v':
                        self.env[nm] = E('m', a.s, shape=sh)
                    elif kind == '1d' and a.ty == 'm':
                        # numpy checks r*c == n at run time; the product must be literally that of the shape
                        if norm_nat(sh) != norm_nat('(%s * %s)' % a.shape):
                            self.refuse(st, 'flattening to a length other than r*c')
                        self.env[nm] = E('v', a.s, ln=sh)
                    else:
                        self.refuse(st, 'reshape')
                    continue
                # a[a == 0] = 1 on a freshly computed, un-aliased 1-D array
                if isinstance(tg, ast.Subscript) and isinstance(tg.value, ast.Name) and isinstance(tg.slice, ast.Compare) \
                        and len(tg.slice.ops) == 1 and isinstance(tg.slice.ops[0], ast.Eq) and isinstance(tg.slice.left, ast.Name) \
                        and tg.slice.left.id == tg.value.id and isinstance(tg.slice.comparators[0], ast.Constant) and tg.slice.comparators[0].value == 0 \
                        and isinstance(st.value, ast.Constant) and st.value.value == 1:
                    nm = tg.value.id
                    if nm not in self.fresh:
                        self.refuse(st, 'masked assignment to %s, which is a view / an alias / not a computed 1-D array' % nm)
                    a = self.env[nm]
                    self.bind(nm, E('fv', '(fun i_ => guard0 %s)' % self.elt1(a, 'i_'), ln=self.len1(a)))
                    continue
                if isinstance(tg, ast.Name):
                    if tg.id in self.pending:
                        self.refuse(st, 'rebinding of %s' % tg.id)
                    v = self.expr(st.value)
                    if isinstance(st.value, ast.Name):          # alias: later in-place writes to either name would be shared
                        self.fresh.discard(st.value.id); self.fresh.discard(tg.id)
                        self.env[tg.id] = v
                        continue
                    self.bind(tg.id, v)
                    if v.ty == 'fv' and isinstance(st.value, ast.BinOp):
                        self.fresh.add(tg.id)
                    else:
                        self.fresh.discard(tg.id)
                    continue
                self.refuse(st, 'assignment target')
            if isinstance(st, ast.For):
                self.loop(st)
                continue
            if isinstance(st, ast.Return):
                if st.value is None:
                    self.refuse(st, 'bare return')
                self.flush_pending(list(self.pending))
                v = self.expr(st.value)
                if v.ty != 'v':
                    self.refuse(st, 'return of a %s' % v.ty)
                ret = v.s
                continue
            self.refuse(st)
        if ret is None:
            raise Refuse('rhs2d2v: no return in %s' % self.fname)
        return ret

    # ------------------------------------------------------------------ loops
    def loop(self, st):
        if st.orelse:
            self.refuse(st, 'for-else')
        it = st.iter
        # L1: for index, (x, a, ..) in enumerate(zip(nodelist, A, ..)):
        if isinstance(it, ast.Call) and isinstance(it.func, ast.Name) and it.func.id == 'enumerate' and len(it.args) == 1 and not it.keywords:
            return self.loop_enum(st)
        if isinstance(it, ast.Call) and isinstance(it.func, ast.Name) and it.func.id == 'range' and len(it.args) == 1 and not it.keywords:
            return self.loop_range2(st)
        if isinstance(it, ast.Name) and it.id in self.env and self.env[it.id].ty == 'nodes':
            return self.loop_accum(st)
        self.refuse(st, 'loop iterator')

    def local_lets(self, sub, out):
        """render the lets collected by a sub-translator in front of `out`"""
        s = out
        for x, t in reversed(sub.lets):
            s = 'let %s := %s in %s' % (x, t, s)
        return s

    def sub(self):
        t = Tr(self.fname, self.env)
        t.pending = {}           # reads of pending arrays are refused through self.cells / expr
        t.outer_pending = dict(self.pending)
        return t

    def loop_enum(self, st):
        z = st.iter.args[0]
        if not (isinstance(z, ast.Call) and isinstance(z.func, ast.Name) and z.func.id == 'zip' and not z.keywords and len(z.args) >= 1):
            self.refuse(st, 'enumerate of something other than zip(..)')
        tg = st.target
        if not (isinstance(tg, ast.Tuple) and len(tg.elts) == 2 and isinstance(tg.elts[0], ast.Name) and isinstance(tg.elts[1], ast.Tuple)
                and all(isinstance(x, ast.Name) for x in tg.elts[1].elts) and len(tg.elts[1].elts) == len(z.args)):
            self.refuse(st, 'loop target')
        index = tg.elts[0].id
        srcs = [self.expr(a) for a in z.args]
        lens = []
        sub = self.sub()
        sub.env[index] = E('i', '(Qnat %s)' % self.var(index), n=self.var(index))
        for x, s, a in zip(tg.elts[1].elts, srcs, z.args):
            if s.ty == 'nodes':
                sub.bind(x.id, E('node', '(nth %s %s 0%%N)' % (self.var(index), s.s)))
            elif s.ty == 'v':
                sub.bind(x.id, E('q', '(vnth %s %s)' % (self.var(index), s.s)))
            else:
                self.refuse(a, 'zip of a %s' % s.ty)
            lens.append('(length %s)' % s.s)
        count = lens[0]
        for l in lens[1:]:
            count = '(Nat.min %s %s)' % (count, l)
        written = []
        for b in st.body:
            if not (isinstance(b, ast.Assign) and len(b.targets) == 1 and isinstance(b.targets[0], ast.Subscript)
                    and isinstance(b.targets[0].value, ast.Name) and isinstance(b.targets[0].slice, ast.Name) and b.targets[0].slice.id == index):
                self.refuse(b, 'statement in an enumerate loop (only `arr[%s] = e`)' % index)
            arr = b.targets[0].value.id
            if arr not in self.pending or self.pending[arr][0] != 'v' or arr in [w for w, _ in written]:
                self.refuse(b, 'write to %s (not a fresh 1-D zero array, or written twice)' % arr)
            e = sub.expr(b.value)
            cell = 'c_' + arr
            sub.lets.append((cell, sub.as_q(e, b.value)))
            sub.cells[arr] = (ast.dump(b.targets[0].slice), cell)
            written.append((arr, len(sub.lets)))
        for arr, upto in written:
            kind, ln = self.pending.pop(arr)
            inner = Tr(self.fname, {}); inner.lets = sub.lets[:upto]
            body = self.local_lets(inner, 'c_' + arr)
            self.bind(arr, E('v', '(ztab %s %s (fun %s => %s))' % (ln, count, self.var(index), body), ln=ln))

    def loop_range2(self, st):
        """for s in range(r): for i in range(c): [if/else and plain scalar assignments] arr[s, i] = e"""
        if not (isinstance(st.target, ast.Name) and len(st.body) == 1 and isinstance(st.body[0], ast.For)):
            self.refuse(st, 'range loop that is not a two-level nest')
        inner = st.body[0]
        if inner.orelse or not (isinstance(inner.target, ast.Name) and isinstance(inner.iter, ast.Call) and isinstance(inner.iter.func, ast.Name)
                                and inner.iter.func.id == 'range' and len(inner.iter.args) == 1 and not inner.iter.keywords):
            self.refuse(inner, 'inner loop')
        s, i = st.target.id, inner.target.id
        r = self.as_nat(self.expr(st.iter.args[0]), st)
        c = self.as_nat(self.expr(inner.iter.args[0]), inner)
        sub = self.sub()
        sub.env[s] = E('i', '(Qnat %s)' % self.var(s), n=self.var(s))
        sub.env[i] = E('i', '(Qnat %s)' % self.var(i), n=self.var(i))
        written = []
        for b in inner.body:
            if isinstance(b, ast.If):
                if not b.orelse:
                    self.refuse(b, 'if without else')
                cnd = sub.cond(b.test)
                def assigns(block):
                    out = []
                    for x in block:
                        if not (isinstance(x, ast.Assign) and len(x.targets) == 1 and isinstance(x.targets[0], ast.Name)):
                            self.refuse(x, 'statement in an if branch (only `x = e`)')
                        out.append((x.targets[0].id, x.value))
                    return out
                A, B = assigns(b.body), assigns(b.orelse)
                if [a for a, _ in A] != [a for a, _ in B]:
                    self.refuse(b, 'if/else branches assign different names')
                vals = []
                for (nm, ea), (_, eb) in zip(A, B):
                    va, vb = sub.expr(ea), sub.expr(eb)
                    vals.append((nm, '(if %s then %s else %s)' % (cnd.s, sub.as_q(va, ea), sub.as_q(vb, eb))))
                for nm, t in vals:
                    if nm in (s, i):
                        self.refuse(b, 'assignment to a loop variable')
                    sub.bind(nm, E('q', t))
                continue
            if isinstance(b, ast.Assign) and len(b.targets) == 1 and isinstance(b.targets[0], ast.Name):
                if b.targets[0].id in (s, i):
                    self.refuse(b, 'assignment to a loop variable')
                sub.bind(b.targets[0].id, sub.expr(b.value))
                continue
            if isinstance(b, ast.Assign) and len(b.targets) == 1 and isinstance(b.targets[0], ast.Subscript) and isinstance(b.targets[0].value, ast.Name):
                arr = b.targets[0].value.id; sl = b.targets[0].slice
                if not (isinstance(sl, ast.Tuple) and len(sl.elts) == 2 and all(isinstance(x, ast.Name) for x in sl.elts)
                        and [x.id for x in sl.elts] == [s, i]):
                    self.refuse(b, 'write to a cell other than [%s, %s]' % (s, i))
                if arr not in self.pending or self.pending[arr][0] != 'm' or arr in [w for w, _ in written]:
                    self.refuse(b, 'write to %s (not a fresh 2-D zero array, or written twice)' % arr)
                sh = self.pending[arr][1]
                if (norm_nat(sh[0]), norm_nat(sh[1])) != (norm_nat(r), norm_nat(c)):
                    self.refuse(b, 'loop ranges differ from the shape of %s' % arr)
                e = sub.expr(b.value)
                cell = 'c_' + arr
                sub.lets.append((cell, sub.as_q(e, b.value)))
                sub.cells[arr] = (ast.dump(sl), cell)
                written.append((arr, len(sub.lets)))
                continue
            self.refuse(b, 'statement in a range loop')
        for arr, upto in written:
            kind, sh = self.pending.pop(arr)
            inner_t = Tr(self.fname, {}); inner_t.lets = sub.lets[:upto]
            body = self.local_lets(inner_t, 'c_' + arr)
            self.bind(arr, E('m', '(tab2 %s %s (fun %s %s => %s))' % (sh[0], sh[1], self.var(s), self.var(i), body), shape=sh))

    # ------------------------------------------------------------------ L3: accumulation through index_of_node
    def parse_nest(self, st, depth, outer_nodes):
        """-> dict(var, iter (coq list term), skip [coq bool terms], binds [(int name, node var)], adds [(arr, [idx names], value ast)], kids)"""
        if st.orelse or not isinstance(st.target, ast.Name):
            self.refuse(st, 'loop shape')
        var = st.target.id
        it = st.iter
        if depth == 0:
            lst = self.env[it.id].s
        elif self.is_neighbors(it):
            lst = '(gadj %s %s)' % (self.env[it.func.value.id].s, self.expr(it.args[0]).s)
        else:
            self.refuse(st, 'inner loop iterator (only G.neighbors(<node>))')
        if var in self.env:
            self.refuse(st, 'loop variable %s shadows a name' % var)
        self.env[var] = E('node', self.var(var))
        node = {'var': var, 'iter': lst, 'skip': [], 'binds': [], 'adds': [], 'kids': [], 'line': st.lineno}
        body = list(st.body)
        # leading `if w == u: continue`
        while body and isinstance(body[0], ast.If):
            b = body.pop(0)
            if b.orelse or len(b.body) != 1 or not isinstance(b.body[0], ast.Continue):
                self.refuse(b, 'if in an accumulation loop (only `if a == b: continue` first)')
            c = self.cond(b.test)
            node['skip'].append('(negb %s)' % c.s)
        for b in body:
            if isinstance(b, ast.Assign) and len(b.targets) == 1 and isinstance(b.targets[0], ast.Name) and isinstance(b.value, ast.Subscript) \
                    and isinstance(b.value.value, ast.Name) and b.value.value.id in self.env and self.env[b.value.value.id].ty == 'idx':
                nm = b.targets[0].id
                if nm in self.env:
                    self.refuse(b, 'rebinding of %s' % nm)
                u = self.expr(b.value.slice)
                if u.ty != 'node' or not isinstance(b.value.slice, ast.Name) or b.value.slice.id != var:
                    self.refuse(b, 'index taken of a node other than the loop variable')
                idxf = self.env[b.value.value.id].s
                node['binds'].append((nm, var, '(%s %s)' % (idxf, self.var(var))))
                self.env[nm] = E('i', '(Qnat n_%s)' % nm, n='n_' + nm)
                continue
            if isinstance(b, ast.AugAssign) and isinstance(b.op, ast.Add) and isinstance(b.target, ast.Subscript) and isinstance(b.target.value, ast.Name):
                arr = b.target.value.id; sl = b.target.slice
                idxs = [sl] if isinstance(sl, ast.Name) else (list(sl.elts) if isinstance(sl, ast.Tuple) else None)
                if idxs is None or not all(isinstance(x, ast.Name) for x in idxs) or arr not in self.pending:
                    self.refuse(b, 'accumulation target')
                if not all(x.id in self.env and self.env[x.id].ty == 'i' and (self.env[x.id].n or '').startswith('n_') for x in idxs):
                    self.refuse(b, 'accumulation index that is not (yet) bound through index_of_node')
                e = self.expr(b.value)
                node['adds'].append((arr, [x.id for x in idxs], self.as_q(e, b.value), b))
                continue
            if isinstance(b, ast.For):
                node['kids'].append(self.parse_nest(b, depth + 1, outer_nodes + [var]))
                continue
            self.refuse(b, 'statement in an accumulation loop')
        # names bound inside the loop go out of scope
        self.env.pop(var, None)
        for nm, _, _ in node['binds']:
            self.env.pop(nm, None)
        return node

    def emit_accum(self, node, arr, idxs, coords):
        """sum over the iterations of `node` (and below) of what they add to the cell `coords` of `arr`;
        an iteration addresses the cell iff the index variables it binds equal the coordinates"""
        def has(nd):
            return any(a == arr for a, _, _, _ in nd['adds']) or any(has(k) for k in nd['kids'])
        if not has(node):
            return None
        filt = list(node['skip'])
        lets = ''
        for nm, var, term in node['binds']:
            lets += 'let n_%s := %s in ' % (nm, term)
            if nm in idxs:
                filt.append('(Nat.eqb %s %s)' % (term, coords[idxs.index(nm)]))
        terms = [v for a, ix, v, _ in node['adds'] if a == arr]
        for k in node['kids']:
            t = self.emit_accum(k, arr, idxs, coords)
            if t is not None:
                terms.append(t)
        body = terms[0] if len(terms) == 1 else '(' + ' + '.join(terms) + ')'
        lst = node['iter']
        if filt:
            f = filt[0]
            for g in filt[1:]:
                f = '(%s && %s)%%bool' % (f, g)
            lst = '(filter (fun %s => %s) %s)' % (self.var(node['var']), f, lst)
        return '(sumQ (map (fun %s => %s%s) %s))' % (self.var(node['var']), lets, body, lst)

    def loop_accum(self, st):
        saved = dict(self.env)
        nest = self.parse_nest(st, 0, [])
        self.env = saved
        # every array: one index tuple, each index bound by the loop at whose level (or above) the array is written
        def walk(nd, bound, out):
            bound = bound + [nm for nm, _, _ in nd['binds']]
            for arr, ix, _, b in nd['adds']:
                if not all(x in bound for x in ix):
                    self.refuse(b, 'accumulation index not bound by an enclosing loop')
                if arr in out and out[arr] != ix:
                    self.refuse(b, 'array %s addressed through different index variables' % arr)
                out.setdefault(arr, ix)
            for k in nd['kids']:
                walk(k, bound, out)
        arrs = {}
        walk(nest, [], arrs)
        for arr, ix in arrs.items():
            kind, sh = self.pending.pop(arr)
            if kind == 'v' and len(ix) == 1:
                t = self.emit_accum(nest, arr, ix, ['p_'])
                self.bind(arr, E('fv', '(fun p_ => %s)' % t, ln=sh))
            elif kind == 'm' and len(ix) == 2:
                t = self.emit_accum(nest, arr, ix, ['p_', 'q_'])
                self.bind(arr, E('fm', '(fun p_ q_ => %s)' % t, shape=sh))
            else:
                self.refuse(st, 'rank of %s' % arr)


def coqname(pyname):
    return 'g_' + pyname.strip('_')


def translate_fn(fn):
    name = fn.name
    a = fn.args
    if a.vararg or a.kwarg or a.kwonlyargs or a.defaults or getattr(a, 'posonlyargs', []):
        raise Refuse('rhs2d2v: unsupported signature of %s at analytic.py:%d' % (name, fn.lineno))
    params = [x.arg for x in a.args]
    want = [p for p, _ in SIG[name]]
    if params != want:
        raise Refuse('rhs2d2v: parameter list of %s at analytic.py:%d is %s, expected %s' % (name, fn.lineno, params, want))
    env = {}
    for p, ty in SIG[name]:
        if ty.startswith('msq:'):
            side = '(length v_%s)' % ty.split(':')[1]
            env[p] = E('m', 'v_' + p, shape=(side, side))
        else:
            env[p] = E(ty, 'v_' + p)
    NATDEF.clear()
    tr = Tr(name, env)
    ret = tr.body(fn.body)
    binders = ' '.join('(v_%s : %s)' % (p, COQTY[ty]) for p, ty in SIG[name])
    out = ['(* %s, analytic.py:%d-%d *)' % (name, fn.lineno, fn.end_lineno),
           'Definition %s %s : vec :=' % (coqname(name), binders)]
    for x, s in tr.lets:
        out.append('  let %s := %s in' % (x, s))
    out.append('  %s.' % ret)
    sig = {'py': name, 'coq': coqname(name), 'params': [[p, ty] for p, ty in SIG[name]], 'line': fn.lineno}
    return '\n'.join(out), sig


def translate(repo):
    path = os.path.join(repo, 'EoN', 'analytic.py')
    src = open(path).read()
    import warnings
    with warnings.catch_warnings():
        warnings.simplefilter('ignore')
        tree = ast.parse(src)
    fns = {}
    for node in tree.body:
        if isinstance(node, ast.FunctionDef):
            if node.name in fns and node.name in SIG:
                raise Refuse('rhs2d2v: %s defined twice (analytic.py:%d)' % (node.name, node.lineno))
            fns[node.name] = node
    ok_np = any(isinstance(n, ast.Import) and any(a.name == 'numpy' and a.asname == 'np' for a in n.names) for n in tree.body)
    if not ok_np:
        raise Refuse('rhs2d2v: `np` is not `import numpy as np` in analytic.py')
    chunks = []; sigs = []
    for name in FUNCS:
        if name not in fns:
            raise Refuse('rhs2d2v: function %s not found in analytic.py' % name)
        txt, sig = translate_fn(fns[name])
        sig['sha'] = hashlib.sha1(ast.get_source_segment(src, fns[name]).encode()).hexdigest()[:12]
        chunks.append(txt); sigs.append(sig)
    head = ['(* GENERATED by translate/rhs2d2v.py from EoN/analytic.py -- do not edit.',
            '   Node-level and 2-D ODE right-hand sides as the file says now; proved equal to the',
            '   hand-written models of Model/Rhs2D.v in Proofs/Rhs2GenP.v. *)',
            'From EoNV Require Import Prelude Graph Vec Rhs2D.', '',
            '(* array of length n (np.zeros(n)) whose first m cells were assigned f(index) by the loop *)',
            'Definition ztab (n m : nat) (f : nat -> Q) : vec := tab n (fun i => if Nat.ltb i m then f i else 0).', '', '']
    return '\n'.join(head) + '\n\n'.join(chunks) + '\n', {'rhs2': sigs}


def main():
    ap = argparse.ArgumentParser()
    here = os.path.dirname(os.path.dirname(os.path.abspath(__file__)))
    ap.add_argument('--repo', default=os.environ.get('EON_REPO', '/repo'))
    ap.add_argument('--out', default=os.path.join(here, 'coq', 'Gen', 'Rhs2.v'))
    ap.add_argument('--sig', default=os.path.join(here, 'coq', 'Gen', 'rhs2_sig.json'))
    a = ap.parse_args()
    try:
        v, sig = translate(a.repo)
    except Refuse as e:
        print(str(e), file=sys.stderr)
        return 2
    except SyntaxError as e:
        print('rhs2d2v: analytic.py does not parse: %s' % e, file=sys.stderr)
        return 2
    os.makedirs(os.path.dirname(a.out), exist_ok=True)
    for path, txt in ((a.out, v), (a.sig, json.dumps(sig, indent=1) + '\n')):
        old = open(path).read() if os.path.exists(path) else None
        if old != txt:
            open(path, 'w').write(txt)
    return 0


if __name__ == '__main__':
    sys.exit(main())
