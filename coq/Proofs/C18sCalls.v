(* C18, fast_nonMarkov_SIS: which calls of the user's rules a run makes.  The model's rules
   are functions [dur v k] / [delays v w k] of the node and of its infection ordinal k (the
   k-th call of rec_time_fxn for v returns dur v k; trans_time_fxn(v, w, ..) during that call
   returns delays v w k).  [tcalls txs ord]: one call (target, ordinal) per entry of the
   transmission log, in its order.  Theorem [n_loop_calls]: a run consults the rules ONLY at
   the pairs of [tcalls] of its own transmission log -- any other rule tables that agree on
   those pairs give literally the same final state.  Since the event loop does not take the
   return_full_data flag, the sequence of calls (node, ordinal; neighbours in adjacency
   order) is the same in both modes, and with full data it can be read off transmissions(). *)
From EoNV Require Import Prelude Samp Graph EventSIS.

Fixpoint tcalls (txs : list (Q * option node * node)) (ord : node -> nat) : list (node * nat) :=
  match txs with
  | [] => []
  | (_, _, v) :: r => (v, ord v) :: tcalls r (fupdN ord v (S (ord v)))
  end.

Definition ord_after (txs : list (Q * option node * node)) (ord : node -> nat) : node -> nat :=
  fold_left (fun o x => fupdN o (snd x) (S (o (snd x)))) txs ord.

Lemma tcalls_app : forall a b ord, tcalls (a ++ b) ord = tcalls a ord ++ tcalls b (ord_after a ord).
Proof.
  induction a as [|[[t s] v] a IH]; intros b ord; [reflexivity|].
  cbn [app tcalls]. rewrite IH. reflexivity.
Qed.

Section Calls.
Variable g : graph.
Variables dur dur' : node -> nat -> Q.
Variables delays delays' : node -> node -> nat -> list Q.
Variable tmax : xtime.

Definition agree (v : node) (k : nat) : Prop := dur' v k = dur v k /\ forall w, delays' v w k = delays v w k.

Lemma fold_left_ext_all : forall (A B : Type) (f f' : A -> B -> A) l a,
  (forall a b, f a b = f' a b) -> fold_left f l a = fold_left f' l a.
Proof. intros A B f f' l. induction l as [|b l IH]; intros a H; [reflexivity|]. cbn [fold_left]. rewrite H. apply IH. exact H. Qed.

(* one event: the transmission log grows by at most one entry; when the rules agree on the
   call that entry stands for, the event is the same function of the state *)
Lemma n_event_calls : forall t e s,
  let s1 := n_event g dur delays tmax t e s in
  exists added, l_tlog (ns_log s1) = added ++ l_tlog (ns_log s) /\
    ns_ord s1 = ord_after (rev added) (ns_ord s) /\
    ((forall v k, In (v, k) (tcalls (rev added) (ns_ord s)) -> agree v k) ->
     n_event g dur' delays' tmax t e s = s1).
Proof.
  intros t [v|src tgt fut] s; cbn [n_event].
  - exists []. split; [reflexivity|]. split; [reflexivity|]. intros _. reflexivity.
  - unfold n_trans. destruct (N.eqb (ns_stat s tgt) stS).
    + exists [(t, src, tgt)]. cbn [ns_log ns_ord log_inf l_tlog app rev]. split; [reflexivity|]. split; [reflexivity|].
      intro H. destruct (H tgt (ns_ord s tgt)) as [Hd Hl]; [left; reflexivity|].
      rewrite Hd.
      rewrite (fold_left_ext_all _ _
                 (n_sched delays' tmax t tgt (ns_ord s tgt) (fupdN (ns_stat s) tgt stI) (fupdN (ns_rec s) tgt (tadd t (dur tgt (ns_ord s tgt)))))
                 (n_sched delays tmax t tgt (ns_ord s tgt) (fupdN (ns_stat s) tgt stI) (fupdN (ns_rec s) tgt (tadd t (dur tgt (ns_ord s tgt)))))).
      * reflexivity.
      * intros q w. unfold n_sched. rewrite Hl. reflexivity.
    + exists []. split; [reflexivity|]. split; [reflexivity|]. intros _. reflexivity.
Qed.

Theorem n_loop_calls : forall fuel s s', n_loop g dur delays tmax fuel s = Ok s' ->
  exists added, l_tlog (ns_log s') = added ++ l_tlog (ns_log s) /\
    ((forall v k, In (v, k) (tcalls (rev added) (ns_ord s)) -> agree v k) ->
     n_loop g dur' delays' tmax fuel s = Ok s').
Proof.
  induction fuel as [|f IH]; intros s s' H; cbn [n_loop] in *; destruct (q_items (ns_q s)) as [|[[t c] e] rest].
  - injection H as <-. exists []. split; [reflexivity|]. intros _. reflexivity.
  - discriminate H.
  - injection H as <-. exists []. split; [reflexivity|]. intros _. reflexivity.
  - set (s0 := mkN (ns_stat s) (ns_rec s) (ns_ord s) (mkQ rest (q_ctr (ns_q s))) (ns_log s)) in *.
    destruct (n_event_calls t e s0) as [a1 [E1 [O1 C1]]]. cbv zeta in E1, O1, C1.
    destruct (IH _ _ H) as [a2 [E2 C2]].
    exists (a2 ++ a1). split.
    + rewrite E2, E1. unfold s0. cbn [ns_log]. rewrite app_assoc. reflexivity.
    + intro Hag. rewrite rev_app_distr, tcalls_app in Hag. change (ns_ord s) with (ns_ord s0) in Hag.
      rewrite C1; [|intros v k Hin; apply Hag; apply in_or_app; left; exact Hin].
      apply C2. intros v k Hin. apply Hag. apply in_or_app. right. rewrite <- O1. exact Hin.
Qed.

End Calls.

(* the calls of a whole run, read off its transmission list (chronological, the initial
   source-less entries first) *)
Definition rule_calls (txs : list (Q * option node * node)) : list (node * nat) := tcalls txs (fun _ => O).

Theorem nm_run_calls : forall g dur dur' delays delays' tmax tmin fuel i0 s',
  n_loop g dur delays tmax fuel (n_init g tmax tmin i0) = Ok s' ->
  (forall v k, In (v, k) (rule_calls (rev (l_tlog (ns_log s')))) -> agree dur dur' delays delays' v k) ->
  n_loop g dur' delays' tmax fuel (n_init g tmax tmin i0) = Ok s' /\
  forall full, nm_run g dur' delays' tmax tmin full fuel i0 = nm_run g dur delays tmax tmin full fuel i0.
Proof.
  intros g dur dur' delays delays' tmax tmin fuel i0 s' H Hag.
  destruct (n_loop_calls g dur dur' delays delays' tmax fuel _ _ H) as [added [E C]].
  assert (K : n_loop g dur' delays' tmax fuel (n_init g tmax tmin i0) = Ok s').
  { apply C. intros v k Hin. apply Hag. rewrite E. cbn [n_init ns_log logs0 l_tlog]. rewrite app_nil_r.
    unfold rule_calls. exact Hin. }
  split; [exact K|]. intro full. unfold nm_run. rewrite K, H. reflexivity.
Qed.

(* with full data the list is the returned transmissions() *)
Lemma finish_trans : forall g tmin n l fd, so_full (finish g tmin true n l) = Some fd -> fd_trans fd = rev (l_tlog l).
Proof. intros g tmin n l fd H. unfold finish, build_full in H. cbn [so_full] in H. injection H as <-. reflexivity. Qed.

Theorem nm_run_calls_from_transmissions : forall g dur dur' delays delays' tmax tmin fuel i0 out fd,
  nm_run g dur delays tmax tmin true fuel i0 = Ok out -> so_full out = Some fd ->
  (forall v k, In (v, k) (rule_calls (fd_trans fd)) -> agree dur dur' delays delays' v k) ->
  forall full, nm_run g dur' delays' tmax tmin full fuel i0 = nm_run g dur delays tmax tmin full fuel i0.
Proof.
  intros g dur dur' delays delays' tmax tmin fuel i0 out fd H Hf Hag.
  unfold nm_run in H. destruct (n_loop g dur delays tmax fuel (n_init g tmax tmin i0)) as [s'|e] eqn:E; cbn [rbind] in H; [|discriminate H].
  injection H as <-. apply finish_trans in Hf.
  apply (nm_run_calls g dur dur' delays delays' tmax tmin fuel i0 s' E). rewrite <- Hf. exact Hag.
Qed.
