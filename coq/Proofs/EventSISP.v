(* Proofs about Model/EventSIS.v, part 1: arithmetic, the queue, the reference
   agenda and its invariant, the expansion of queue entries into agenda items. *)
From EoNV Require Import Prelude Samp Graph EventSIS.
From Coq Require Import Permutation Sorted Lqa.

(* ---------------- comparisons ---------------- *)
Lemma Qltb_true : forall a b, Qltb a b = true <-> a < b.
Proof.
  intros a b. unfold Qltb. destruct (Qlt_le_dec a b) as [H|H]; split; intro K; try reflexivity; try exact H.
  - discriminate.
  - exfalso. lra.
Qed.
Lemma Qltb_false : forall a b, Qltb a b = false <-> b <= a.
Proof.
  intros a b. unfold Qltb. destruct (Qlt_le_dec a b) as [H|H]; split; intro K; try reflexivity; try exact H.
  - discriminate.
  - exfalso. lra.
Qed.
Lemma Qeqb_true : forall a b, Qeqb a b = true <-> a == b.
Proof. intros. unfold Qeqb. apply Qeq_bool_iff. Qed.
Lemma tadd_eq : forall a b, tadd a b == a + b.
Proof. intros. unfold tadd. apply Qred_correct. Qed.

Definition xvis (tmax : xtime) (t : Q) : Prop := xlt t tmax = true.
Lemma xlt_mono : forall tmax a b, a <= b -> xlt b tmax = true -> xlt a tmax = true.
Proof.
  intros [m|] a b Hab; cbn [xlt]; [|reflexivity].
  destruct (Qlt_le_dec b m); [|discriminate]. intros _.
  destruct (Qlt_le_dec a m); [reflexivity|exfalso; lra].
Qed.
Lemma xlt_lt : forall tmax a b, xlt a tmax = true -> xlt b tmax = false -> a < b.
Proof.
  intros [m|] a b; cbn [xlt]; [|discriminate].
  destruct (Qlt_le_dec a m); [|discriminate]. destruct (Qlt_le_dec b m); [discriminate|]. intros _ _. lra.
Qed.

(* ---------------- ascending lists ---------------- *)
Lemma ascending_cons : forall a l, ascending (a :: l) = true -> ascending l = true /\ Forall (fun x => a < x) l.
Proof.
  intros a l. revert a. induction l as [|b l IH]; intros a H.
  - split; [reflexivity|constructor].
  - cbn [ascending] in H. apply andb_prop in H. destruct H as [Hab Hl]. apply Qltb_true in Hab.
    split; [exact Hl|]. constructor; [exact Hab|].
    destruct (IH b Hl) as [_ F]. eapply Forall_impl; [|exact F]. intros x Hx. cbn beta in Hx. lra.
Qed.
Lemma ascending_intro : forall a l, ascending l = true -> Forall (fun x => a < x) l -> ascending (a :: l) = true.
Proof.
  intros a [|b l] Hl F; [reflexivity|]. cbn [ascending]. inversion F as [|? ? Hab _]; subst.
  apply andb_true_intro. split; [apply Qltb_true; exact Hab|exact Hl].
Qed.
Lemma ascending_filter : forall p l, ascending l = true -> ascending (filter p l) = true.
Proof.
  intros p l. induction l as [|a l IH]; intro H; [reflexivity|].
  destruct (ascending_cons a l H) as [Hl F]. cbn [filter]. destruct (p a).
  - apply ascending_intro; [apply IH; exact Hl|]. apply Forall_forall. intros x Hx.
    apply filter_In in Hx. destruct Hx as [Hx _]. rewrite Forall_forall in F. apply F. exact Hx.
  - apply IH. exact Hl.
Qed.
Lemma ascending_map_tadd : forall t l, ascending l = true -> ascending (map (fun d => tadd t d) l) = true.
Proof.
  intros t l. induction l as [|a l IH]; intro H; [reflexivity|].
  destruct (ascending_cons a l H) as [Hl F]. cbn [map]. apply ascending_intro; [apply IH; exact Hl|].
  apply Forall_forall. intros x Hx. apply in_map_iff in Hx. destruct Hx as [d [Hd Hin]]. subst x.
  rewrite Forall_forall in F. specialize (F d Hin). cbn beta in F. rewrite !tadd_eq. lra.
Qed.

(* ---------------- the queue ---------------- *)
Section QueueFacts.
Context {E : Type}.
Definition tsorted (l : list (qent E)) : Prop := StronglySorted (fun a b => qtime a <= qtime b) l.

Lemma qins_perm : forall (x : qent E) l, Permutation (qins x l) (x :: l).
Proof.
  intros x l. induction l as [|h t IH]; cbn [qins]; [apply Permutation_refl|].
  destruct (qbefore x h); [apply Permutation_refl|].
  eapply Permutation_trans; [apply perm_skip; exact IH|apply perm_swap].
Qed.
Lemma qbefore_false : forall (x h : qent E), qbefore x h = false -> qtime h <= qtime x.
Proof.
  intros x h H. unfold qbefore in H. apply orb_false_elim in H. destruct H as [H _].
  apply Qltb_false in H. exact H.
Qed.
Lemma qbefore_true : forall (x h : qent E), qbefore x h = true -> qtime x <= qtime h.
Proof.
  intros x h H. unfold qbefore in H. apply orb_prop in H. destruct H as [H|H].
  - apply Qltb_true in H. lra.
  - apply andb_prop in H. destruct H as [H _]. apply Qeqb_true in H. lra.
Qed.
Lemma qins_sorted : forall (x : qent E) l, tsorted l -> tsorted (qins x l).
Proof.
  intros x l. induction l as [|h t IH]; intro H; cbn [qins].
  - constructor; constructor.
  - destruct (qbefore x h) eqn:B.
    + constructor; [exact H|]. apply qbefore_true in B.
      inversion H as [|? ? Ht F]; subst. constructor; [exact B|].
      eapply Forall_impl; [|exact F]. intros y Hy. cbn beta in Hy. lra.
    + inversion H as [|? ? Ht F]; subst. constructor; [apply IH; exact Ht|].
      apply qbefore_false in B.
      eapply Permutation_Forall; [apply Permutation_sym; apply qins_perm|].
      constructor; [exact B|exact F].
Qed.
(* entries that precede everything new stay in front *)
Lemma qins_prefix : forall (x : qent E) P l,
  Forall (fun p => qtime p < qtime x) P -> qins x (P ++ l) = P ++ qins x l.
Proof.
  intros x P l F. induction F as [|p P Hp F IH]; [reflexivity|].
  cbn [app qins]. destruct (qbefore x p) eqn:B.
  - apply qbefore_true in B. exfalso. lra.
  - rewrite IH. reflexivity.
Qed.
End QueueFacts.

(* ================================================================== *)
Section NM.
Variable g : graph.
Variable dur : node -> nat -> Q.
Variable delays : node -> node -> nat -> list Q.
Variable tmax : xtime.

Notation vist := (fun x : Q * aev => xlt (fst x) tmax).
Definition vis (l : list (Q * aev)) : list (Q * aev) := filter vist l.
Definition atts (u v : node) (l : list Q) : list (Q * aev) := map (fun t => (t, AAtt u v)) l.

Definition expand (x : qent nev) : list (Q * aev) :=
  match x with
  | (t, _, NRec v) => [(t, ARec v)]
  | (t, _, NTrans (Some u) v fut) => atts u v (t :: fut)
  | (_, _, NTrans None _ _) => []
  end.
Definition expandQ (l : list (qent nev)) : list (Q * aev) := flat_map expand l.

Lemma vis_app : forall a b, vis (a ++ b) = vis a ++ vis b.
Proof. intros. unfold vis. apply filter_app. Qed.
Lemma vis_perm : forall a b, Permutation a b -> Permutation (vis a) (vis b).
Proof.
  intros a b H. unfold vis. induction H as [|x l l' H IH|x y l|l l' l'' H1 IH1 H2 IH2].
  - constructor.
  - cbn [filter]. destruct (xlt (fst x) tmax); [apply perm_skip|]; exact IH.
  - cbn [filter]. destruct (xlt (fst x) tmax), (xlt (fst y) tmax); try apply Permutation_refl. apply perm_swap.
  - eapply Permutation_trans; eassumption.
Qed.
Lemma expandQ_app : forall a b, expandQ (a ++ b) = expandQ a ++ expandQ b.
Proof. intros. unfold expandQ. apply flat_map_app. Qed.
Lemma expandQ_perm : forall a b, Permutation a b -> Permutation (expandQ a) (expandQ b).
Proof. intros a b H. unfold expandQ. apply Permutation_flat_map. exact H. Qed.
Lemma expandQ_qins : forall x l, Permutation (vis (expandQ (qins x l))) (vis (expand x) ++ vis (expandQ l)).
Proof.
  intros x l. rewrite <- vis_app. apply vis_perm.
  change (expand x ++ expandQ l) with (expandQ (x :: l)). apply expandQ_perm. apply qins_perm.
Qed.

Lemma vis_atts_invisible : forall u v h tl,
  xlt h tmax = false -> Forall (fun x => h < x) tl -> vis (atts u v (h :: tl)) = [].
Proof.
  intros u v h tl Hh F. unfold vis, atts. cbn [map filter fst]. rewrite Hh.
  induction F as [|x tl Hx F IH]; [reflexivity|]. cbn [map filter fst].
  assert (xlt x tmax = false) as ->.
  { destruct (xlt x tmax) eqn:K; [|reflexivity]. rewrite (xlt_mono tmax h x) in Hh; [discriminate|lra|exact K]. }
  exact IH.
Qed.

(* Q.add of the head of an ascending chain: the visible attempts of the chain *)
Lemma chain_expand : forall q u v tt,
  ascending tt = true ->
  Permutation (vis (expandQ (q_items (chain tmax q (Some u) v tt))))
              (vis (atts u v tt) ++ vis (expandQ (q_items q))).
Proof.
  intros q u v [|h tl] Ha; cbn [chain]; [apply Permutation_refl|].
  unfold q_add. destruct (xlt h tmax) eqn:Hh; cbn [q_items].
  - eapply Permutation_trans; [apply expandQ_qins|]. apply Permutation_refl.
  - destruct (ascending_cons h tl Ha) as [_ F]. rewrite (vis_atts_invisible u v h tl Hh F). apply Permutation_refl.
Qed.

(* ---------------- the reference agenda ---------------- *)
Definition ltT (a b : Q * aev) : Prop := fst a < fst b.
Definition RInv (now : Q) (ag : list (Q * aev)) : Prop :=
  StronglySorted ltT ag /\ Forall (fun x => now < fst x) ag.

Lemma ains_perm : forall x l, Permutation (ains x l) (x :: l).
Proof.
  intros x l. induction l as [|h t IH]; cbn [ains]; [apply Permutation_refl|].
  destruct (Qltb (fst x) (fst h)); [apply Permutation_refl|].
  eapply Permutation_trans; [apply perm_skip; exact IH|apply perm_swap].
Qed.
Lemma ains_sorted : forall x l,
  StronglySorted ltT l -> forallb (fun y => negb (Qeqb (fst y) (fst x))) l = true ->
  StronglySorted ltT (ains x l).
Proof.
  intros x l. induction l as [|h t IH]; intros H Hf; cbn [ains].
  - constructor; constructor.
  - cbn [forallb] in Hf. apply andb_prop in Hf. destruct Hf as [Hh Hf].
    inversion H as [|? ? Ht F]; subst.
    destruct (Qltb (fst x) (fst h)) eqn:B.
    + apply Qltb_true in B. constructor; [exact H|]. constructor; [exact B|].
      eapply Forall_impl; [|exact F]. intros y Hy. unfold ltT in *. lra.
    + apply Qltb_false in B. constructor; [apply IH; assumption|].
      eapply Permutation_Forall; [apply Permutation_sym; apply ains_perm|].
      constructor; [|exact F]. unfold ltT.
      apply negb_true_iff in Hh. destruct (Qeq_dec (fst h) (fst x)) as [E|E].
      * apply Qeqb_true in E. rewrite E in Hh. discriminate.
      * lra.
Qed.

(* strictly sorted: an item is determined by its time *)
Lemma sorted_unique : forall ag x y,
  StronglySorted ltT ag -> In x ag -> In y ag -> fst x == fst y -> x = y.
Proof.
  intros ag x y H. induction H as [|h t Ht IH F]; intros Hx Hy E; [destruct Hx|].
  rewrite Forall_forall in F. destruct Hx as [Hx|Hx], Hy as [Hy|Hy]; subst.
  - reflexivity.
  - specialize (F y Hy). unfold ltT in F. exfalso. lra.
  - specialize (F x Hx). unfold ltT in F. exfalso. lra.
  - apply IH; assumption.
Qed.


(* ---------------- r_insert / r_infect ---------------- *)
Local Notation rins := (r_insert tmax).
Definition vis1 (t : Q) (a : aev) : list (Q * aev) := vis [(t, a)].

Lemma r_insert_ok_mono : forall now s t a, r_ok (rins now s t a) = true -> r_ok s = true.
Proof.
  intros now s t a. unfold r_insert. destruct (xlt t tmax); cbn [r_ok]; [|tauto].
  intro H. apply andb_prop in H. tauto.
Qed.

Lemma r_insert_spec : forall now s t a,
  RInv now (r_ag s) -> r_ok (rins now s t a) = true ->
  RInv now (r_ag (rins now s t a)) /\
  Permutation (r_ag (rins now s t a)) (vis1 t a ++ r_ag s) /\
  r_stat (rins now s t a) = r_stat s /\ r_ord (rins now s t a) = r_ord s /\
  r_log (rins now s t a) = r_log s.
Proof.
  intros now s t a [Hs Hn]. unfold r_insert, vis1, vis. cbn [filter fst].
  destruct (xlt t tmax) eqn:V; cbn [r_ok r_ag r_stat r_ord r_log].
  - intro H. apply andb_prop in H. destruct H as [_ Hf]. unfold fresh in Hf.
    apply andb_prop in Hf. destruct Hf as [Hnow Hf]. apply Qltb_true in Hnow.
    split; [split|split; [apply ains_perm|tauto]].
    + apply ains_sorted; assumption.
    + eapply Permutation_Forall; [apply Permutation_sym; apply ains_perm|]. constructor; assumption.
  - intros _. split; [split; assumption|]. split; [apply Permutation_refl|tauto].
Qed.

Lemma r_insert_fold_ok_mono : forall now (f : Q -> Q * aev) l s,
  r_ok (fold_left (fun s d => rins now s (fst (f d)) (snd (f d))) l s) = true -> r_ok s = true.
Proof.
  intros now f l. induction l as [|d l IH]; intros s H; [exact H|].
  cbn [fold_left] in H. apply IH in H. eapply r_insert_ok_mono. exact H.
Qed.

Lemma r_insert_fold_spec : forall now (f : Q -> Q * aev) l s,
  RInv now (r_ag s) ->
  let s' := fold_left (fun s d => rins now s (fst (f d)) (snd (f d))) l s in
  r_ok s' = true ->
  RInv now (r_ag s') /\ Permutation (r_ag s') (vis (map f l) ++ r_ag s) /\
  r_stat s' = r_stat s /\ r_ord s' = r_ord s /\ r_log s' = r_log s.
Proof.
  intros now f l. induction l as [|d l IH]; intros s Hi s' Hok.
  - subst s'. cbn [fold_left map]. split; [exact Hi|]. split; [apply Permutation_refl|tauto].
  - subst s'. cbn [fold_left] in *.
    assert (Hok1 := r_insert_fold_ok_mono now f l _ Hok).
    destruct (r_insert_spec now s (fst (f d)) (snd (f d)) Hi Hok1) as [Hi1 [Hp1 [E1 [E2 E3]]]].
    destruct (IH _ Hi1 Hok) as [Hi2 [Hp2 [F1 [F2 F3]]]].
    split; [exact Hi2|]. split.
    + eapply Permutation_trans; [exact Hp2|]. cbn [map].
      change (f d :: map f l) with ([f d] ++ map f l). rewrite vis_app.
      eapply Permutation_trans; [apply Permutation_app_head; exact Hp1|].
      unfold vis1. rewrite <- surjective_pairing.
      rewrite !app_assoc. apply Permutation_app_tail. apply Permutation_app_comm.
    + rewrite F1, F2, F3, E1, E2, E3. tauto.
Qed.

(* the items an infection of v at [time] with ordinal k inserts *)
Definition new_atts (time : Q) (v : node) (k : nat) (ws : list node) : list (Q * aev) :=
  flat_map (fun w => atts v w (map (fun d => tadd time d) (delays v w k))) ws.

Definition r_sched (time : Q) (v : node) (k : nat) (s : rst) (w : node) : rst :=
  let dl := delays v w k in
  fold_left (fun s d => rins time s (tadd time d) (AAtt v w))
            dl (mkR (r_stat s) (r_ord s) (r_ag s) (r_log s) (r_ok s && ascending dl)).

Lemma r_sched_spec : forall time v k s w,
  RInv time (r_ag s) -> r_ok (r_sched time v k s w) = true ->
  r_ok s = true /\ ascending (delays v w k) = true /\
  RInv time (r_ag (r_sched time v k s w)) /\
  Permutation (r_ag (r_sched time v k s w)) (vis (atts v w (map (fun d => tadd time d) (delays v w k))) ++ r_ag s) /\
  r_stat (r_sched time v k s w) = r_stat s /\ r_ord (r_sched time v k s w) = r_ord s /\
  r_log (r_sched time v k s w) = r_log s.
Proof.
  intros time v k s w Hi Hok. unfold r_sched in *.
  set (f := fun d : Q => (tadd time d, AAtt v w)).
  set (s0 := mkR (r_stat s) (r_ord s) (r_ag s) (r_log s) (r_ok s && ascending (delays v w k))) in *.
  assert (Hok0 : r_ok s0 = true) by (apply (r_insert_fold_ok_mono time f (delays v w k) s0); exact Hok).
  cbn [r_ok s0] in Hok0. apply andb_prop in Hok0. destruct Hok0 as [K1 K2].
  destruct (r_insert_fold_spec time f (delays v w k) s0 Hi Hok) as [Hi2 [Hp [E1 [E2 E3]]]].
  split; [exact K1|]. split; [exact K2|]. split; [exact Hi2|]. split.
  - unfold atts. rewrite map_map. exact Hp.
  - tauto.
Qed.

Lemma r_sched_fold_spec : forall time v k ws s,
  RInv time (r_ag s) ->
  let s' := fold_left (r_sched time v k) ws s in
  r_ok s' = true ->
  r_ok s = true /\ Forall (fun w => ascending (delays v w k) = true) ws /\
  RInv time (r_ag s') /\ Permutation (r_ag s') (vis (new_atts time v k ws) ++ r_ag s) /\
  r_stat s' = r_stat s /\ r_ord s' = r_ord s /\ r_log s' = r_log s.
Proof.
  intros time v k ws. induction ws as [|w ws IH]; intros s Hi s' Hok.
  - subst s'. cbn [fold_left] in *. split; [exact Hok|]. split; [constructor|]. split; [exact Hi|].
    split; [apply Permutation_refl|tauto].
  - subst s'. cbn [fold_left] in *.
    assert (Hok1 : r_ok (r_sched time v k s w) = true).
    { clear -Hok. revert Hok. generalize (r_sched time v k s w). induction ws as [|w' ws IH]; intros s1 H; [exact H|].
      cbn [fold_left] in H. apply IH in H. unfold r_sched in H.
      apply (r_insert_fold_ok_mono time (fun d => (tadd time d, AAtt v w')) (delays v w' k)) in H. cbn [r_ok] in H.
      apply andb_prop in H. tauto. }
    destruct (r_sched_spec time v k s w Hi Hok1) as [K1 [K2 [Hi1 [Hp1 [E1 [E2 E3]]]]]].
    destruct (IH _ Hi1 Hok) as [_ [F [Hi2 [Hp2 [G1 [G2 G3]]]]]].
    split; [exact K1|]. split; [constructor; assumption|]. split; [exact Hi2|]. split.
    + eapply Permutation_trans; [exact Hp2|]. unfold new_atts. cbn [flat_map]. fold (new_atts time v k ws).
      rewrite vis_app. eapply Permutation_trans; [apply Permutation_app_head; exact Hp1|].
      rewrite !app_assoc. apply Permutation_app_tail. apply Permutation_app_comm.
    + rewrite G1, G2, G3, E1, E2, E3. tauto.
Qed.

Lemma r_infect_unfold : forall time src v s,
  r_infect g dur delays tmax time src v s =
  fold_left (r_sched time v (r_ord s v)) (gadj g v)
    (rins time (mkR (fupdN (r_stat s) v stI) (fupdN (r_ord s) v (S (r_ord s v))) (r_ag s)
                        (log_inf (r_log s) time src v) (r_ok s))
              (tadd time (dur v (r_ord s v))) (ARec v)).
Proof. reflexivity. Qed.

Lemma r_infect_spec : forall time src v s,
  RInv time (r_ag s) ->
  let k := r_ord s v in
  let s' := r_infect g dur delays tmax time src v s in
  r_ok s' = true ->
  r_ok s = true /\ Forall (fun w => ascending (delays v w k) = true) (gadj g v) /\
  RInv time (r_ag s') /\
  Permutation (r_ag s') (vis (new_atts time v k (gadj g v)) ++ vis1 (tadd time (dur v k)) (ARec v) ++ r_ag s) /\
  r_stat s' = fupdN (r_stat s) v stI /\ r_ord s' = fupdN (r_ord s) v (S k) /\
  r_log s' = log_inf (r_log s) time src v.
Proof.
  intros time src v s Hi k s' Hok. subst s'. rewrite r_infect_unfold in *. fold k in Hok. fold k.
  set (s0 := mkR (fupdN (r_stat s) v stI) (fupdN (r_ord s) v (S k)) (r_ag s) (log_inf (r_log s) time src v) (r_ok s)) in *.
  set (s1 := rins time s0 (tadd time (dur v k)) (ARec v)) in *.
  assert (Hi0 : RInv time (r_ag s0)) by exact Hi.
  pose proof (r_sched_fold_spec time v k (gadj g v) s1) as H2.
  assert (Hok1 : r_ok s1 = true).
  { clear -Hok. revert Hok. generalize s1. induction (gadj g v) as [|w' ws IH]; intros s2 H; [exact H|].
    cbn [fold_left] in H. apply IH in H. unfold r_sched in H.
    apply (r_insert_fold_ok_mono time (fun d => (tadd time d, AAtt v w'))) in H. cbn [r_ok] in H.
    apply andb_prop in H. tauto. }
  destruct (r_insert_spec time s0 _ _ Hi0 Hok1) as [Hi1 [Hp1 [E1 [E2 E3]]]]. fold s1 in Hi1, Hp1, E1, E2, E3.
  destruct (H2 Hi1 Hok) as [_ [F [Hi2 [Hp2 [G1 [G2 G3]]]]]].
  split; [apply (r_insert_ok_mono time s0 _ _ Hok1)|]. split; [exact F|]. split; [exact Hi2|]. split.
  - eapply Permutation_trans; [exact Hp2|]. apply Permutation_app_head. exact Hp1.
  - rewrite G1, G2, G3, E1, E2, E3. cbn [s0 r_stat r_ord r_log]. tauto.
Qed.

Lemma r_event_ok_mono : forall t a s, r_ok (r_event g dur delays tmax t a s) = true -> r_ok s = true.
Proof.
  intros t a s. destruct a as [v|u v]; cbn [r_event r_ok]; [tauto|].
  destruct (N.eqb (r_stat s v) stS); [|tauto].
  rewrite r_infect_unfold. intro H.
  assert (K : forall ws s1, r_ok (fold_left (r_sched t v (r_ord s v)) ws s1) = true -> r_ok s1 = true).
  { induction ws as [|w' ws IH]; intros s2 H2; [exact H2|].
    cbn [fold_left] in H2. apply IH in H2. unfold r_sched in H2.
    apply (r_insert_fold_ok_mono t (fun d => (tadd t d, AAtt v w')) (delays v w' (r_ord s v))) in H2. cbn [r_ok] in H2.
    apply andb_prop in H2. tauto. }
  apply K in H. apply r_insert_ok_mono in H. exact H.
Qed.

Lemma r_loop_ok_mono : forall f s s', r_loop g dur delays tmax f s = Ok s' -> r_ok s' = true -> r_ok s = true.
Proof.
  induction f as [|f IH]; intros s s' H Hok; cbn [r_loop] in H.
  - destruct (r_ag s) as [|[t a] rest]; [|discriminate]. injection H as <-. exact Hok.
  - destruct (r_ag s) as [|[t a] rest] eqn:Ea; [injection H as <-; exact Hok|].
    apply IH in H; [|exact Hok]. apply r_event_ok_mono in H. exact H.
Qed.

End NM.
