(* A worked example for the event-driven SIS theorems (non-vacuity): the path
   0 - 1 - 2, fast_SIS with tau = 2, gamma = 1 from node 0 until tmax = 2 on a script of
   20 draws (two re-infections of node 0, three redraws from rec_time[target]), and
   fast_nonMarkov_SIS with rule tables that satisfy the contract "every delay is
   strictly before the recovery". *)
From EoNV Require Import Prelude Samp Graph ListDict ListDictP Gillespie KldP GillespieInv SampP GillespieP GillespieLog.
From EoNV Require Import Investigation InvestigationP GillespieC10.
From EoNV Require Import EventSIS EventSISP EventSISP4 EventSISRows EventSISLog EventSISTrace EventSISRel EventSISFast EventSISNM EventSISOut EventSISClock EventSISProv.
From Coq Require Import Sorted Lqa.

Definition adjp (u : node) : list node :=
  match u with 0%N => [1%N] | 1%N => [0%N; 2%N] | 2%N => [1%N] | _ => [] end.
Definition gp : graph := mkGraph [0%N;1%N;2%N] adjp adjp false (fun _ _ => 1) (fun _ => 1) false false.

Lemma gp_nodup : NoDup (gnodes gp).
Proof. cbn. repeat constructor; cbn; intuition discriminate. Qed.

Lemma gp_adj : forall u v, In v (gadj gp u) -> In v (gnodes gp).
Proof.
  intros u v H. cbn [gadj gp gnodes] in *. unfold adjp in H.
  destruct u as [|[p|[p|p|]|]]; cbn in H; intuition (subst; cbn; auto).
Qed.

Lemma i0_ok : NoDup [0%N] /\ incl [0%N] (gnodes gp).
Proof. split; [repeat constructor; intros []|]. intros x [<-|[]]. cbn. auto. Qed.

(* ---------------- fast_SIS ---------------- *)
Definition script3 : list Q :=
  [1#4; 1#8; 1; 1#4; 1#2; 1#16; 1#32; 1#8; 2; 1#8; 1#16; 3#32; 1#64; 1#4; 5; 1#32; 1#32; 3; 2; 3].
Definition fs_run := exec (fast_SIS gp 2 1 (Some 2) (Some [0%N]) None 0 true 100) script3 [].

Definition fs_rows : list row :=
  [(0, [2; 1]%Z); (1 # 8, [1; 2]%Z); (1 # 4, [2; 1]%Z); (3 # 8, [1; 2]%Z); (7 # 16, [2; 1]%Z); (9 # 16, [1; 2]%Z);
   (5 # 8, [0; 3]%Z); (23 # 32, [1; 2]%Z); (31 # 32, [0; 3]%Z); (9 # 8, [1; 2]%Z); (37 # 32, [0; 3]%Z)].
Definition fs_trans : list tx :=
  [(0, None, 0%N); (1 # 8, Some 0%N, 1%N); (3 # 8, Some 1%N, 0%N); (9 # 16, Some 1%N, 0%N);
   (5 # 8, Some 1%N, 2%N); (31 # 32, Some 1%N, 2%N); (37 # 32, Some 2%N, 1%N)].

Lemma fs_run_ok : exists out tr, fs_run = (Ok out, tr) /\ length tr = 20%nat /\
  map (fun x : row => (Qred (fst x), snd x)) (so_rows out) = fs_rows /\
  match so_full out with
  | Some fd => map (fun x : tx => (Qred (fst (fst x)), snd (fst x), snd x)) (fd_trans fd) = fs_trans
  | None => False end.
Proof.
  destruct fs_run as [[out|e] tr] eqn:E; [|vm_compute in E; discriminate E].
  exists out, tr. split; [reflexivity|]. vm_compute in E. injection E as <- <-. repeat split.
Qed.

(* ---------------- fast_nonMarkov_SIS ---------------- *)
Definition durS (u : node) (k : nat) : Q := match u with 0%N => 1 | 1%N => 5#4 | _ => 3#2 end.
Definition delS (u v : node) (k : nat) : list Q :=
  match u, v with
  | 0%N, 1%N => [1#8; 7#8]
  | 1%N, 0%N => [1#4; 9#8]
  | 1%N, 2%N => [3#8]
  | 2%N, 1%N => [5#4]
  | _, _ => []
  end.

Lemma exS_rules_ok : rules_ok durS delS.
Proof.
  split.
  - intros v k. unfold durS. destruct v as [|[p|[p|p|]|]]; lra.
  - intros v w k. unfold delS.
    destruct v as [|[p|[p|p|]|]]; destruct w as [|[q|[q|q|]|]]; split; repeat constructor; lra.
Qed.

Lemma exS_rules_strict : rules_strict durS delS.
Proof.
  intros v w k d H. unfold delS in H. unfold durS.
  destruct v as [|[p|[p|p|]|]]; destruct w as [|[q|[q|q|]|]]; cbn in H; intuition (subst; lra).
Qed.

Definition nm_out := nm_run gp durS delS (Some 4) 0 true 100 [0%N].

Lemma nm_out_ok : exists out, nm_out = Ok out /\ length (so_rows out) = 16%nat /\
  match so_full out with Some fd => length (fd_trans fd) = 9%nat | None => False end.
Proof.
  destruct nm_out as [out|e] eqn:E; [|vm_compute in E; discriminate E].
  exists out. split; [reflexivity|]. vm_compute in E. injection E as <-. split; reflexivity.
Qed.

(* ---------------- a tie: a delay EQUAL to the duration ---------------- *)
(* two nodes 0 - 1; node 0 is infectious for exactly 1 and its only delay to node 1 is 1:
   inside the documented contract read as "<=", outside its strict form *)
Definition adj2 (u : node) : list node := match u with 0%N => [1%N] | 1%N => [0%N] | _ => [] end.
Definition g2 : graph := mkGraph [0%N;1%N] adj2 adj2 false (fun _ _ => 1) (fun _ => 1) false false.
Definition durT (u : node) (k : nat) : Q := match u with 0%N => 1 | _ => 5 end.
Definition delT (u v : node) (k : nat) : list Q := match u, v with 0%N, 1%N => [1] | _, _ => [] end.

Lemma g2_nodup : NoDup (gnodes g2).
Proof. cbn. repeat constructor; cbn; intuition discriminate. Qed.
Lemma g2_adj : forall u v, In v (gadj g2 u) -> In v (gnodes g2).
Proof.
  intros u v H. cbn [gadj g2 gnodes] in *. unfold adj2 in H.
  destruct u as [|[p|p|]]; cbn in H; intuition (subst; cbn; auto).
Qed.
Lemma i0_ok2 : NoDup [0%N] /\ incl [0%N] (gnodes g2).
Proof. split; [repeat constructor; intros []|]. intros x [<-|[]]. cbn. auto. Qed.
Lemma exT_rules_ok : rules_ok durT delT.
Proof.
  split.
  - intros v k. unfold durT. destruct v as [|p]; lra.
  - intros v w k. unfold delT. destruct v as [|p]; [destruct w as [|[q|q|]]|]; split; repeat constructor; lra.
Qed.
Lemma exT_rules_contract : rules_contract durT delT.
Proof.
  intros v w k d H. unfold delT in H. unfold durT.
  destruct v as [|p]; [destruct w as [|[q|q|]]|]; cbn in H; intuition (subst; lra).
Qed.
Lemma exT_not_strict : ~ rules_strict durT delT.
Proof. intro H. specialize (H 0%N 1%N O 1 (or_introl eq_refl)). cbn in H. lra. Qed.
Lemma exS_rules_contract : rules_contract durS delS.
Proof. intros v w k d H. pose proof (exS_rules_strict v w k d H). lra. Qed.
