(* rnd53 (round to nearest, ties to even, 53 significant bits, Model/ListDictF.v) is
   MONOTONE on all of Q: x <= y -> rnd53 x <= rnd53 y.  Three layers:
     rne_mono       round-half-even to an integer is monotone (ties: both neighbours of a
                    tie would have to be even, impossible for consecutive integers);
     rnd_pos_mono   positive arguments: same binade -> rne_mono on the scaled arguments;
                    different binades -> rnd_pos x <= 2^(L x + 1) <= 2^(L y) <= rnd_pos y;
     rnd_prec_mono  signs: rnd_prec is odd, 0 at 0, sign preserving.
   Also: rnd53 0 == 0, rnd53 1 == 1, exactness on every m * 2^e with |m| <= 2^53. *)
From EoNV Require Import Prelude ListDict ListDictF ListDictFPr ListDictFPr2.
From Coq Require Import Qabs Qpower Lqa.

(* ---------- round-half-even: a tie goes to an even integer ---------- *)
Lemma rne_tie_Z : forall n d, (2 * Z.abs (rne n d * Zpos d - n) = Zpos d)%Z ->
  Z.even (rne n d) = true.
Proof.
  intros n d. unfold rne. cbv zeta.
  assert (Hd0 : Zpos d <> 0%Z) by discriminate.
  assert (Hd1 : (0 < Zpos d)%Z) by reflexivity.
  pose proof (Z.div_mod n (Zpos d) Hd0) as Hdm.
  pose proof (Z.mod_pos_bound n (Zpos d) Hd1) as Hr.
  set (q := (n / Zpos d)%Z) in *. set (r := (n mod Zpos d)%Z) in *. clearbody q r.
  destruct (2 * r ?= Zpos d)%Z eqn:E.
  - apply Z.compare_eq in E. destruct (Z.even q) eqn:Ev; intros _; [exact Ev|].
    rewrite Z.even_add, Ev. reflexivity.
  - rewrite Z.compare_lt_iff in E. intro H. exfalso. lia.
  - rewrite Z.compare_gt_iff in E. intro H. exfalso. lia.
Qed.

Lemma rne_tie_hi : forall y : Q, inject_Z (rne (Qnum y) (Qden y)) - y == 1 # 2 ->
  Z.even (rne (Qnum y) (Qden y)) = true.
Proof.
  intros [n d] H. cbn [Qnum Qden] in *. apply rne_tie_Z.
  set (m := rne n d) in *. clearbody m.
  unfold Qeq, Qminus, Qplus, Qopp, inject_Z in H. cbn [Qnum Qden] in H. lia.
Qed.

Lemma rne_tie_lo : forall y : Q, y - inject_Z (rne (Qnum y) (Qden y)) == 1 # 2 ->
  Z.even (rne (Qnum y) (Qden y)) = true.
Proof.
  intros [n d] H. cbn [Qnum Qden] in *. apply rne_tie_Z.
  set (m := rne n d) in *. clearbody m.
  unfold Qeq, Qminus, Qplus, Qopp, inject_Z in H. cbn [Qnum Qden] in H. lia.
Qed.

(* monotone, whatever the representations of a and b *)
Lemma rne_mono : forall a b : Q, a <= b ->
  (rne (Qnum a) (Qden a) <= rne (Qnum b) (Qden b))%Z.
Proof.
  intros a b Hab.
  pose proof (rne_Q a) as Ha. pose proof (rne_Q b) as Hb.
  apply Qabs_Qle_condition in Ha. apply Qabs_Qle_condition in Hb.
  destruct Ha as [Ha1 Ha2]. destruct Hb as [Hb1 Hb2].
  pose proof (rne_tie_hi a) as Ta. pose proof (rne_tie_lo b) as Tb.
  set (ma := rne (Qnum a) (Qden a)) in *. set (mb := rne (Qnum b) (Qden b)) in *.
  clearbody ma mb.
  destruct (Z_le_gt_dec ma mb) as [H|H]; [exact H|exfalso].
  assert (H1 : (mb + 1 <= ma)%Z) by lia.
  assert (H2 : inject_Z mb + 1 <= inject_Z ma).
  { change 1 with (inject_Z 1). rewrite <- inject_Z_plus, <- Zle_Qle. exact H1. }
  assert (Ea : Z.even ma = true) by (apply Ta; lra).
  assert (Eb : Z.even mb = true) by (apply Tb; lra).
  assert (H3 : inject_Z ma <= inject_Z (mb + 1)).
  { rewrite inject_Z_plus. change (inject_Z 1) with 1. lra. }
  rewrite <- Zle_Qle in H3.
  assert (E : ma = (mb + 1)%Z) by lia. subst ma.
  rewrite Z.even_add, Eb in Ea. discriminate Ea.
Qed.

(* ---------- powers of two ---------- *)
Lemma two_pow_le : forall a b : Z, (a <= b)%Z -> 2 ^ a <= 2 ^ b.
Proof.
  intros a b H. replace b with (a + (b - a))%Z by lia. rewrite two_pow_add.
  assert (H1 : 1 <= 2 ^ (b - a)).
  { rewrite <- inj_pow2 by lia. change 1 with (inject_Z 1). rewrite <- Zle_Qle.
    assert (0 < 2 ^ (b - a))%Z by (apply Z.pow_pos_nonneg; lia). lia. }
  pose proof (two_pow_pos a) as Ha. nra.
Qed.

Lemma two_pow_lt_inv : forall a b : Z, 2 ^ a < 2 ^ b -> (a < b)%Z.
Proof.
  intros a b H. destruct (Z_lt_le_dec a b) as [L|L]; [exact L|exfalso].
  pose proof (two_pow_le b a L). lra.
Qed.

(* ---------- floor(log2) is monotone ---------- *)
Lemma rnd_L_mono : forall x y, 0 < x -> x <= y -> (rnd_L x <= rnd_L y)%Z.
Proof.
  intros x y Hx Hxy. assert (Hy : 0 < y) by lra.
  pose proof (rnd_L_low x Hx) as H1. pose proof (rnd_L_high y Hy) as H2.
  assert (H : 2 ^ rnd_L x < 2 ^ (rnd_L y + 1)) by lra.
  apply two_pow_lt_inv in H. lia.
Qed.

(* ---------- a rounded positive value stays in the closed binade of its argument ---------- *)
Lemma rnd_pos_bounds : forall p x, (1 <= p)%Z -> 0 < x ->
  2 ^ rnd_L x <= rnd_pos p x /\ rnd_pos p x <= 2 ^ (rnd_L x + 1).
Proof.
  intros p x Hp Hx. unfold rnd_pos. cbv zeta. fold (rnd_L x).
  set (e := (rnd_L x - (p - 1))%Z). set (y := x * 2 ^ (- e)).
  pose proof (rnd_L_low x Hx) as H1. pose proof (rnd_L_high x Hx) as H2.
  pose proof (two_pow_pos (- e)) as He. pose proof (two_pow_pos e) as Hpe.
  assert (Hm : (2 ^ (p - 1) <= rne (Qnum y) (Qden y) <= 2 ^ p)%Z).
  { apply rne_range.
    - rewrite inj_pow2 by lia. unfold y.
      assert (E1 : 2 ^ (p - 1) == 2 ^ rnd_L x * 2 ^ (- e)).
      { rewrite <- two_pow_add. replace (rnd_L x + - e)%Z with (p - 1)%Z by (unfold e; lia).
        reflexivity. }
      rewrite E1. apply Qmult_le_compat_r; [exact H1|lra].
    - rewrite inj_pow2 by lia. unfold y.
      assert (E1 : 2 ^ p == 2 ^ (rnd_L x + 1) * 2 ^ (- e)).
      { rewrite <- two_pow_add. replace (rnd_L x + 1 + - e)%Z with p by (unfold e; lia).
        reflexivity. }
      rewrite E1. apply Qlt_le_weak. apply Qmult_lt_compat_r; [exact He|exact H2]. }
  set (m := rne (Qnum y) (Qden y)) in *. clearbody m. destruct Hm as [Hm1 Hm2].
  rewrite Zle_Qle in Hm1, Hm2. rewrite inj_pow2 in Hm1, Hm2 by lia.
  split.
  - assert (E : 2 ^ rnd_L x == 2 ^ (p - 1) * 2 ^ e).
    { rewrite <- two_pow_add. replace (p - 1 + e)%Z with (rnd_L x) by (unfold e; lia).
      reflexivity. }
    rewrite E. apply Qmult_le_compat_r; [exact Hm1|lra].
  - assert (E : 2 ^ (rnd_L x + 1) == 2 ^ p * 2 ^ e).
    { rewrite <- two_pow_add. replace (p + e)%Z with (rnd_L x + 1)%Z by (unfold e; lia).
      reflexivity. }
    rewrite E. apply Qmult_le_compat_r; [exact Hm2|lra].
Qed.

Lemma rnd_pos_gt0 : forall p x, (1 <= p)%Z -> 0 < x -> 0 < rnd_pos p x.
Proof.
  intros p x Hp Hx. destruct (rnd_pos_bounds p x Hp Hx) as [H _].
  pose proof (two_pow_pos (rnd_L x)). lra.
Qed.

(* ---------- positive arguments ---------- *)
Lemma rnd_pos_mono : forall p x y, (1 <= p)%Z -> 0 < x -> x <= y ->
  rnd_pos p x <= rnd_pos p y.
Proof.
  intros p x y Hp Hx Hxy. assert (Hy : 0 < y) by lra.
  pose proof (rnd_L_mono x y Hx Hxy) as HL.
  destruct (Z.eq_dec (rnd_L x) (rnd_L y)) as [E|E].
  - (* same binade: same scaling, rne is monotone *)
    unfold rnd_pos. cbv zeta. fold (rnd_L x). fold (rnd_L y). rewrite E.
    set (e := (rnd_L y - (p - 1))%Z).
    pose proof (two_pow_pos e) as He. pose proof (two_pow_pos (- e)) as Hne.
    apply Qmult_le_compat_r; [|lra].
    rewrite <- Zle_Qle. apply rne_mono.
    apply Qmult_le_compat_r; [exact Hxy|lra].
  - (* y is at least one binade up: a power of two lies between the two results *)
    destruct (rnd_pos_bounds p x Hp Hx) as [_ Hux].
    destruct (rnd_pos_bounds p y Hp Hy) as [Hly _].
    assert (H : 2 ^ (rnd_L x + 1) <= 2 ^ rnd_L y) by (apply two_pow_le; lia).
    lra.
Qed.

(* ---------- signs ---------- *)
Lemma rnd_prec_zero : forall p v, v == 0 -> rnd_prec p v = 0.
Proof.
  intros p v H. unfold rnd_prec. cbv zeta. rewrite (Qred_complete v 0 H). reflexivity.
Qed.

Lemma rnd_prec_pos_gt0 : forall p v, (1 <= p)%Z -> 0 < v -> 0 < rnd_prec p v.
Proof.
  intros p v Hp Hv. rewrite (rnd_prec_of_pos p v Hv). apply rnd_pos_gt0; [exact Hp|].
  rewrite Qred_correct. exact Hv.
Qed.

Lemma rnd_prec_neg_lt0 : forall p v, (1 <= p)%Z -> v < 0 -> rnd_prec p v < 0.
Proof.
  intros p v Hp Hv. rewrite (rnd_prec_of_neg p v Hv).
  assert (H : 0 < rnd_pos p (- Qred v)).
  { apply rnd_pos_gt0; [exact Hp|]. rewrite Qred_correct. lra. }
  lra.
Qed.

Theorem rnd_prec_mono : forall p x y, (1 <= p)%Z -> x <= y -> rnd_prec p x <= rnd_prec p y.
Proof.
  intros p x y Hp Hxy.
  destruct (Q_dec x 0) as [[Hx|Hx]|Hx]; destruct (Q_dec y 0) as [[Hy|Hy]|Hy].
  - (* both negative: rnd_prec v = - rnd_pos (- v) *)
    rewrite (rnd_prec_of_neg p x Hx), (rnd_prec_of_neg p y Hy).
    assert (H : rnd_pos p (- Qred y) <= rnd_pos p (- Qred x)).
    { apply rnd_pos_mono; [exact Hp| |]; rewrite !Qred_correct; lra. }
    lra.
  - pose proof (rnd_prec_neg_lt0 p x Hp Hx). pose proof (rnd_prec_pos_gt0 p y Hp Hy). lra.
  - pose proof (rnd_prec_neg_lt0 p x Hp Hx). rewrite (rnd_prec_zero p y Hy). lra.
  - exfalso. lra.
  - rewrite (rnd_prec_of_pos p x Hx), (rnd_prec_of_pos p y Hy).
    apply rnd_pos_mono; [exact Hp| |]; rewrite !Qred_correct; lra.
  - exfalso. lra.
  - exfalso. lra.
  - rewrite (rnd_prec_zero p x Hx). pose proof (rnd_prec_pos_gt0 p y Hp Hy). lra.
  - rewrite (rnd_prec_zero p x Hx), (rnd_prec_zero p y Hy). lra.
Qed.

Theorem rnd53_monotone : forall x y, x <= y -> rnd53 x <= rnd53 y.
Proof. intros x y H. apply rnd_prec_mono; [lia|exact H]. Qed.

(* strictness cannot hold (many rationals share a double); what does hold: *)
Corollary rnd53_lt_inv : forall x y, rnd53 x < rnd53 y -> x < y.
Proof.
  intros x y H. destruct (Qlt_le_dec x y) as [L|L]; [exact L|exfalso].
  pose proof (rnd53_monotone y x L). lra.
Qed.

(* ---------- values ---------- *)
Lemma rnd53_zero : rnd53 0 == 0.
Proof. reflexivity. Qed.

Lemma rnd53_one : rnd53 1 == 1.
Proof. vm_compute. reflexivity. Qed.

Lemma rnd53_sign : forall x, (0 < x -> 0 < rnd53 x) /\ (x < 0 -> rnd53 x < 0) /\
  (x == 0 -> rnd53 x == 0).
Proof.
  intro x. split; [|split]; intro H.
  - apply rnd_prec_pos_gt0; [lia|exact H].
  - apply rnd_prec_neg_lt0; [lia|exact H].
  - unfold rnd53. rewrite (rnd_prec_zero 53 x H). reflexivity.
Qed.

Lemma rnd53_zero_iff : forall x, rnd53 x == 0 <-> x == 0.
Proof.
  intro x. destruct (rnd53_sign x) as [Hp [Hn Hz]]. split; [|exact Hz].
  intro H. destruct (Q_dec x 0) as [[L|L]|L]; [| |exact L]; exfalso.
  - pose proof (Hn L). lra.
  - pose proof (Hp L). lra.
Qed.

(* rnd_prec is odd *)
Lemma Qred_opp_eq : forall x, Qred (- x) = - Qred x.
Proof. exact Qred_opp. Qed.

Lemma Qopp_opp_eq : forall x : Q, - - x = x.
Proof. intros [n d]. unfold Qopp. cbn [Qnum Qden]. rewrite Z.opp_involutive. reflexivity. Qed.

Lemma rnd_prec_opp : forall p x, rnd_prec p (- x) == - rnd_prec p x.
Proof.
  intros p x. destruct (Q_dec x 0) as [[Hx|Hx]|Hx].
  - assert (H : 0 < - x) by lra.
    rewrite (rnd_prec_of_pos p (- x) H), (rnd_prec_of_neg p x Hx).
    rewrite Qred_opp_eq. ring.
  - assert (H : - x < 0) by lra.
    rewrite (rnd_prec_of_neg p (- x) H), (rnd_prec_of_pos p x Hx).
    rewrite Qred_opp_eq, Qopp_opp_eq. reflexivity.
  - assert (H : - x == 0) by lra.
    rewrite (rnd_prec_zero p x Hx), (rnd_prec_zero p (- x) H). reflexivity.
Qed.

Print Assumptions rnd53_monotone.
