(* C14, proof side, executable definitions (no proofs here; they are extracted by
   Extract/XC14x.v and evaluated against the Python functions by harness/c14x.py).

   The relabelling action on the state vectors of the four node-level ODE systems of
   Model/Rhs2D.v.  Problem 1 is (G, nodelist, idx, tr, rc); problem 2 is the SAME
   epidemic on a relabelled and re-ordered copy: nodes renamed by phi, every adjacency
   list listed in any order, and the caller's nodelist replaced by  map phi nl2  where
   nl2 is any re-ordering of nodelist.  A state vector V of problem 1 (blocks of N
   per-node values, then N x N per-pair blocks, row-major, in the order of nodelist)
   is carried to problem 2 by re-reading every block in the order nl2:
       blk1 off V [i]      = V[off + idx (nl2[i])]
       blk2 off V [i, j]   = V[off + idx (nl2[i]) * N + idx (nl2[j])]
   `perm_state sys` does this for the layout of system sys (numbering of
   Rhs2D.rhs2_node: 0 = SIS individual based (Y), 1 = SIR individual based (X ++ Y),
   2 = SIS pair based (Y ++ XY ++ XX), 3 = SIR pair based (X ++ Y ++ XY ++ XX)); the
   right-hand side has the layout of the state, so the same operator acts on it. *)
From EoNV Require Import Prelude Vec Graph Rhs2D.

Section Action.
Variables (idx : node -> nat) (nl2 : list node).
Definition blk1 (off : nat) (V : vec) : vec :=
  tab (nN nl2) (fun i => vnth (off + idx (node_at nl2 i)) V).
Definition blk2 (off : nat) (V : vec) : vec :=
  tab2 (nN nl2) (nN nl2) (fun i j => vnth (off + idx (node_at nl2 i) * nN nl2 + idx (node_at nl2 j)) V).

Definition perm_ibSIS (V : vec) : vec := blk1 0 V.
Definition perm_ibSIR (V : vec) : vec := blk1 0 V ++ blk1 (nN nl2) V.
Definition perm_pbSIS (V : vec) : vec :=
  blk1 0 V ++ blk2 (nN nl2) V ++ blk2 (nN nl2 + nN nl2 * nN nl2) V.
Definition perm_pbSIR (V : vec) : vec :=
  blk1 0 V ++ blk1 (nN nl2) V ++ blk2 (2 * nN nl2) V ++ blk2 (2 * nN nl2 + nN nl2 * nN nl2) V.
Definition perm_state (sys : nat) (V : vec) : vec :=
  match sys with
  | 0%nat => perm_ibSIS V
  | 1%nat => perm_ibSIR V
  | 2%nat => perm_pbSIS V
  | 3%nat => perm_pbSIR V
  | _ => []
  end.
End Action.

(* length of the state vector of system sys over n nodes *)
Definition state_len (sys n : nat) : nat :=
  match sys with
  | 0%nat => n
  | 1%nat => (n + n)%nat
  | 2%nat => (n + (n * n + n * n))%nat
  | 3%nat => (n + (n + (n * n + n * n)))%nat
  | _ => 0%nat
  end.

(* ---------------- decidable forms ---------------- *)
Definition veqb (a b : vec) : bool :=
  Nat.eqb (length a) (length b) && forallb (fun xy => Qeqb (fst xy) (snd xy)) (combine a b).

(* multiset equality of node lists *)
Definition cntN (x : node) (l : list node) : nat := length (filter (N.eqb x) l).
Definition permb (a b : list node) : bool :=
  forallb (fun x => Nat.eqb (cntN x a) (cntN x b)) (a ++ b).

(* what every caller of the node-level right-hand sides establishes:
   index_of_node = {node: i for i, node in enumerate(nodelist)} and the neighbours of listed nodes are listed *)
Definition nl_wfb (G : graph) (nodelist : list node) (idx : node -> nat) : bool :=
  forallb (fun i => Nat.eqb (idx (node_at nodelist i)) i &&
                    forallb (fun v => Nat.ltb (idx v) (nN nodelist) && N.eqb (node_at nodelist (idx v)) v)
                            (gadj G (node_at nodelist i))) (seq 0 (nN nodelist)).

(* problem 2 is a relabelled + re-ordered copy of problem 1 *)
Definition relabel_okb (G : graph) (nodelist : list node) (idx : node -> nat) (tr : node -> node -> Q) (rc : node -> Q)
           (G' : graph) (nl2 : list node) (phi : node -> node) (idx' : node -> nat) (tr' : node -> node -> Q) (rc' : node -> Q) : bool :=
  nl_wfb G nodelist idx &&
  permb nl2 nodelist &&                                                       (* any re-ordering of the node list *)
  nodupb (map phi nodelist) &&                                                (* phi is injective on the nodes *)
  forallb (fun i => Nat.eqb (idx' (phi (node_at nl2 i))) i) (seq 0 (nN nl2)) &&   (* index_of_node of problem 2 *)
  forallb (fun u => permb (gadj G' (phi u)) (map phi (gadj G u)) &&           (* adjacency lists in ANY order *)
                    Qeqb (rc' (phi u)) (rc u) &&
                    forallb (fun v => Qeqb (tr' (phi u) (phi v)) (tr u v)) (gadj G u)) nodelist.

(* "the vector field commutes with the relabelling action", at one point *)
Definition equivariant_at (sys : nat) (G : graph) (nodelist : list node) (idx : node -> nat) (tr : node -> node -> Q) (rc : node -> Q)
           (G' : graph) (nl2 : list node) (phi : node -> node) (idx' : node -> nat) (tr' : node -> node -> Q) (rc' : node -> Q)
           (V : vec) (t : Q) : bool :=
  veqb (rhs2_node sys G' (map phi nl2) idx' tr' rc' (perm_state idx nl2 sys V) t)
       (perm_state idx nl2 sys (rhs2_node sys G nodelist idx tr rc V t)).

(* the aggregated series the entry points return: sum over the nodes of one per-node block *)
Definition block_sum (n off : nat) (V : vec) : Q := sumn n (fun i => vnth (off + i) V).

(* ---------------- initial vectors of the node-level entry points ---------------- *)
(* SIS_individual_based / SIR_individual_based(rho): Y0 = rho*np.ones(len(nodelist)), X0 = 1 - Y0;
   *_pure_IC: Y0 = [1 if u in initial_infecteds else 0 for u in nodelist] (X0 = 1 - Y0 - Z0 with Z0 from initial_recovereds) *)
Definition y0_rho (nodelist : list node) (rho : Q) : vec := map (fun _ => rho) nodelist.
Definition y0_set (nodelist I0 : list node) : vec := map (fun u => if mem u I0 then 1 else 0) nodelist.
Definition x0_of (Y0 : vec) : vec := map (fun y => 1 - y) Y0.
(* SIR *_pure_IC with initial_recovereds: X0 = [0 if u in initial_recovereds.union(initial_infecteds) else 1 for u in nodelist] *)
Definition x0_sets (nodelist I0 R0 : list node) : vec := map (fun u => if mem u R0 || mem u I0 then 0 else 1) nodelist.
Definition ib_SIS_V0 (Y0 : vec) : vec := Y0.
Definition ib_SIR_V0 (X0 Y0 : vec) : vec := X0 ++ Y0.
(* SIS_pair_based: X0 = 1 - Y0; XY0 = X0[:,None]*Y0[None,:]*A; XX0 = X0[:,None]*X0[None,:]*A with A =
   nx.adjacency_matrix(G, nodelist, weight=None) (in nodelist order); V0 = Y0 ++ XY0 ++ XX0.
   SIR_pair_based: the same arrays from X0 (default 1 - Y0), V0 = X0 ++ Y0 ++ XY0 ++ XX0 *)
Definition pair0 (G : graph) (nodelist : list node) (A B : vec) : vec :=
  tab2 (nN nodelist) (nN nodelist) (fun i j => if is_edge G nodelist i j then vnth i A * vnth j B else 0).
Definition pb_SIS_V0 (G : graph) (nodelist : list node) (Y0 : vec) : vec :=
  Y0 ++ pair0 G nodelist (x0_of Y0) Y0 ++ pair0 G nodelist (x0_of Y0) (x0_of Y0).
Definition pb_SIR_V0 (G : graph) (nodelist : list node) (X0 Y0 : vec) : vec :=
  X0 ++ Y0 ++ pair0 G nodelist X0 Y0 ++ pair0 G nodelist X0 X0.
(* X0 is used by the SIR systems only *)
Definition node_V0 (sys : nat) (G : graph) (nodelist : list node) (X0 Y0 : vec) : vec :=
  match sys with
  | 0%nat => ib_SIS_V0 Y0
  | 1%nat => ib_SIR_V0 X0 Y0
  | 2%nat => pb_SIS_V0 G nodelist Y0
  | 3%nat => pb_SIR_V0 G nodelist X0 Y0
  | _ => []
  end.

(* explicit Euler steps of the field (the discrete solution whose equivariance is PROVED, next to the cited
   lift to the exact flow) *)
Definition euler_step (f : vec -> Q -> vec) (h t : Q) (V : vec) : vec := vadd V (smul h (f V t)).
Fixpoint euler (f : vec -> Q -> vec) (h t : Q) (k : nat) (V : vec) : vec :=
  match k with
  | O => V
  | S k' => euler f h (t + h) k' (euler_step f h t V)
  end.

(* explicit Runge-Kutta methods: a tableau is a list of stages (c_i, [a_i1; ...; a_i,i-1]) and weights b.
   k_i = f (V + h * sum_j a_ij k_j, t + c_i h);  V_next = V + h * sum_i b_i k_i.   Euler = ([(0, [])], [1]). *)
Definition lcomb (cs : list Q) (ks : list vec) (z : vec) : vec :=
  fold_left (fun acc ck => vadd acc (smul (fst ck) (snd ck))) (combine cs ks) z.
Fixpoint rk_stages (f : vec -> Q -> vec) (h t : Q) (V : vec) (tab : list (Q * list Q)) (acc : list vec) : list vec :=
  match tab with
  | [] => acc
  | (c, a) :: tab' =>
    let Vi := vadd V (smul h (lcomb a acc (map (fun _ => 0) V))) in
    rk_stages f h t V tab' (acc ++ [f Vi (t + c * h)])
  end.
Definition rk_step (tab : list (Q * list Q)) (b : list Q) (f : vec -> Q -> vec) (h t : Q) (V : vec) : vec :=
  vadd V (smul h (lcomb b (rk_stages f h t V tab []) (map (fun _ => 0) V))).
Fixpoint rk_iter (tab : list (Q * list Q)) (b : list Q) (f : vec -> Q -> vec) (h t : Q) (k : nat) (V : vec) : vec :=
  match k with
  | O => V
  | S k' => rk_iter tab b f h (t + h) k' (rk_step tab b f h t V)
  end.
Definition rk4_tab : list (Q * list Q) := [(0, []); (1 # 2, [1 # 2]); (1 # 2, [0; 1 # 2]); (1, [0; 0; 1])].
Definition rk4_b : list Q := [1 # 6; 1 # 3; 1 # 3; 1 # 6].

(* ---------------- graph isomorphism given by a table (for the harness) ---------------- *)
(* nodes of both graphs are 0..n-1; tbl[u] = the node of the copy that carries node u; extended by the identity *)
Definition phi_of (tbl : list node) (u : node) : node :=
  if N.ltb u (N.of_nat (length tbl)) then nth (N.to_nat u) tbl u else u.
Definition iota (n : nat) : list node := map N.of_nat (seq 0 n).
Definition iso_okb (g g' : graph) (tbl : list node) : bool :=
  let n := length (gnodes g) in
  Nat.eqb (length tbl) n && permb tbl (iota n) && permb (gnodes g) (iota n) &&
  permb (gnodes g') (map (phi_of tbl) (gnodes g)) &&
  forallb (fun u => permb (gadj g' (phi_of tbl u)) (map (phi_of tbl) (gadj g u))) (gnodes g).
