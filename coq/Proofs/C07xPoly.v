(* Polynomial laws over Q for the coefficient-list polynomials of Model/Aux.v (peval, pderiv) and the
   arithmetic of Model/Pgf.v (padd, pscale, pmul, pmono, ppow): evaluation is a ring morphism, the
   formal derivative is linear, satisfies the Leibniz rule and the power rule, and IS the derivative:
   p(x+h) = p(x) + h p'(x) + h^2 r(x,h) with r a polynomial (first-order Taylor expansion with
   polynomial remainder, `peval_taylor1`).  Everything for every polynomial, no analysis. *)
From EoNV Require Import Prelude Vec VecP Aux AuxP Pgf.
From Coq Require Import Qpower Lqa Setoid Morphisms.

Notation D p x := (peval (pderiv p) x).

(* ---------- evaluation ---------- *)
Lemma peval_nil x : peval [] x = 0. Proof. reflexivity. Qed.
Lemma peval_cons a p x : peval (a :: p) x = a + x * peval p x. Proof. reflexivity. Qed.

Lemma peval_padd p : forall q x, peval (padd p q) x == peval p x + peval q x.
Proof.
  induction p as [|a p IH]; intros [|b q] x; cbn [padd peval]; try ring.
  rewrite IH. ring.
Qed.
Lemma peval_pscale c p x : peval (pscale c p) x == c * peval p x.
Proof. induction p as [|a p IH]; cbn [pscale map peval]; [ring|]. fold (pscale c p). rewrite IH. ring. Qed.
Lemma peval_psub p q x : peval (psub p q) x == peval p x - peval q x.
Proof. unfold psub. rewrite peval_padd, peval_pscale. ring. Qed.
Lemma peval_pmul p : forall q x, peval (pmul p q) x == peval p x * peval q x.
Proof.
  induction p as [|a p IH]; intros q x; cbn [pmul peval]; [ring|].
  rewrite peval_padd, peval_pscale. cbn [peval]. rewrite IH. ring.
Qed.
Lemma peval_pX x : peval pX x == x. Proof. unfold pX; cbn [peval]. ring. Qed.
Lemma peval_ppow p n x : peval (ppow p n) x == qpow (peval p x) (Z.of_nat n).
Proof.
  induction n as [|n IH]; cbn [ppow].
  - cbn [peval]. unfold qpow. cbn. ring.
  - rewrite peval_pmul, IH. unfold qpow. fold (Qpow (peval p x) (Z.of_nat (S n))). rewrite Qpow_nat_S. reflexivity.
Qed.
Lemma peval_pmono a k x : peval (pmono a k) x == a * qpow x (Z.of_nat k).
Proof.
  unfold pmono. induction k as [|k IH]; cbn [repeat app peval].
  - unfold qpow. cbn. ring.
  - rewrite IH. unfold qpow. fold (Qpow x (Z.of_nat (S k))). rewrite Qpow_nat_S. unfold Qpow. ring.
Qed.

(* ---------- the formal derivative: Horner step, linearity, Leibniz ---------- *)
Lemma D_cons a p x : D (a :: p) x == peval p x + x * D p x.
Proof. cbn [pderiv]. rewrite pderiv_from_S, pderiv_from_0. reflexivity. Qed.

Lemma pderiv_from_padd p : forall q k x,
  peval (pderiv_from (padd p q) k) x == peval (pderiv_from p k) x + peval (pderiv_from q k) x.
Proof.
  induction p as [|a p IH]; intros [|b q] k x; cbn [padd pderiv_from peval]; try ring.
  rewrite IH. ring.
Qed.
Lemma pderiv_from_pscale c p : forall k x,
  peval (pderiv_from (pscale c p) k) x == c * peval (pderiv_from p k) x.
Proof.
  induction p as [|a p IH]; intros k x; cbn [pscale map pderiv_from peval]; [ring|].
  fold (pscale c p). rewrite IH. ring.
Qed.
Lemma D_padd p q x : D (padd p q) x == D p x + D q x.
Proof.
  destruct p as [|a p], q as [|b q]; cbn [padd pderiv peval]; try ring.
  apply pderiv_from_padd.
Qed.
Lemma D_pscale c p x : D (pscale c p) x == c * D p x.
Proof.
  destruct p as [|a p]; cbn [pscale map pderiv peval]; [ring|]. fold (pscale c p). apply pderiv_from_pscale.
Qed.
Lemma D_psub p q x : D (psub p q) x == D p x - D q x.
Proof. unfold psub. rewrite D_padd, D_pscale. ring. Qed.
Lemma D_pmul p : forall q x, D (pmul p q) x == D p x * peval q x + peval p x * D q x.
Proof.
  induction p as [|a p IH]; intros q x; cbn [pmul].
  - cbn [pderiv peval]. ring.
  - rewrite D_padd, D_pscale, !D_cons, IH, peval_pmul. cbn [peval]. ring.
Qed.
Lemma D_pX x : D pX x == 1. Proof. unfold pX. cbn [pderiv pderiv_from peval]. change (Qnat 1) with 1. ring. Qed.
Lemma D_const a x : D [a] x == 0. Proof. reflexivity. Qed.
Lemma D_lin a b x : D [a; b] x == b. Proof. cbn [pderiv pderiv_from peval]. change (Qnat 1) with 1. ring. Qed.
Lemma peval_lin a b x : peval [a; b] x == a + b * x. Proof. cbn [peval]. ring. Qed.

(* power rule:  (p^(n+1))' = (n+1) p^n p' *)
Lemma D_ppow p n x : D (ppow p (S n)) x == Qnat (S n) * peval (ppow p n) x * D p x.
Proof.
  induction n as [|n IH].
  - cbn [ppow]. rewrite D_pmul. cbn [peval pderiv pderiv_from]. change (Qnat 1) with 1. ring.
  - change (ppow p (S (S n))) with (pmul p (ppow p (S n))). rewrite D_pmul, IH.
    change (ppow p (S n)) with (pmul p (ppow p n)). rewrite peval_pmul. rewrite (Qnat_S (S n)). ring.
Qed.
Lemma D_ppow0 p x : D (ppow p 0) x == 0. Proof. reflexivity. Qed.

(* x * (a x^k)' = k a x^k *)
Lemma pderiv_from_pmono a : forall k s x,
  peval (pderiv_from (pmono a k) s) x == Qnat (s + k) * a * qpow x (Z.of_nat k).
Proof.
  unfold pmono. induction k as [|k IH]; intros s x; cbn [repeat app pderiv_from peval].
  - rewrite Nat.add_0_r. unfold qpow. cbn. ring.
  - rewrite IH. replace (S s + k)%nat with (s + S k)%nat by lia.
    unfold qpow. fold (Qpow x (Z.of_nat (S k))). rewrite Qpow_nat_S. unfold Qpow. ring.
Qed.
Lemma D_pmono_x a k x : x * D (pmono a k) x == Qnat k * (a * qpow x (Z.of_nat k)).
Proof. rewrite <- pderiv_from_0. rewrite pderiv_from_pmono. cbn [plus]. ring. Qed.

(* ---------- the formal derivative is the derivative ---------- *)
(* pdq c x y is the difference quotient (AuxP.pdq_diff, pdq_diag); its own difference quotient in y *)
Fixpoint pdq2 (c : list Q) (x y : Q) : Q :=
  match c with [] => 0 | _ :: c' => pdq c' x y + x * pdq2 c' x y end.
Lemma pdq2_diff c : forall x y, pdq c x y - pdq c x x == (y - x) * pdq2 c x y.
Proof.
  induction c as [|a c IH]; intros x y; cbn [pdq pdq2]; [ring|].
  setoid_replace (peval c y + x * pdq c x y - (peval c x + x * pdq c x x))
    with ((peval c y - peval c x) + x * (pdq c x y - pdq c x x)) by ring.
  rewrite IH, pdq_diff. ring.
Qed.
(* first-order Taylor expansion with polynomial remainder pdq2 c x (x+h) *)
Lemma peval_taylor1 c x h :
  peval c (x + h) == peval c x + h * D c x + h * h * pdq2 c x (x + h).
Proof.
  pose proof (pdq_diff c x (x + h)) as H1. pose proof (pdq2_diff c x (x + h)) as H2.
  rewrite pdq_diag in H2.
  setoid_replace (x + h - x) with h in H1 by ring. setoid_replace (x + h - x) with h in H2 by ring.
  setoid_replace (peval c (x + h)) with (peval c x + h * pdq c x (x + h)) by (rewrite <- H1; ring).
  setoid_replace (pdq c x (x + h)) with (D c x + h * pdq2 c x (x + h)) by (rewrite <- H2; ring).
  ring.
Qed.

(* for polynomial maps: pm_push is the directional derivative of pm_eval *)
Lemma pm_taylor1 (F : pmap) x h :
  veq (pm_eval F (x + h))
      (vadd (vadd (pm_eval F x) (pm_push F x h)) (smul (h * h) (map (fun p => pdq2 p x (x + h)) F))).
Proof.
  induction F as [|p F IH]; cbn [pm_eval pm_push map vadd zipWith smul]; constructor.
  - rewrite peval_taylor1. ring.
  - exact IH.
Qed.

Lemma pm_eval_length F x : length (pm_eval F x) = length F. Proof. apply map_length. Qed.
Lemma pm_push_length F x dx : length (pm_push F x dx) = length F. Proof. apply map_length. Qed.
Lemma pm_eval_app F G x : pm_eval (F ++ G) x = pm_eval F x ++ pm_eval G x. Proof. apply map_app. Qed.
Lemma pm_push_app F G x dx : pm_push (F ++ G) x dx = pm_push F x dx ++ pm_push G x dx. Proof. apply map_app. Qed.

(* peval respects pointwise-equal coefficient lists *)
Lemma peval_veq p q x : veq p q -> peval p x == peval q x.
Proof. induction 1 as [|a b p q Hab _ IH]; cbn [peval]; [reflexivity|]. rewrite Hab, IH. reflexivity. Qed.

Lemma derivative_laws p q a n x :
  peval (padd p q) x == peval p x + peval q x /\ peval (pscale a p) x == a * peval p x /\
  peval (pmul p q) x == peval p x * peval q x /\ peval (ppow p n) x == qpow (peval p x) (Z.of_nat n) /\
  D (padd p q) x == D p x + D q x /\ D (pscale a p) x == a * D p x /\
  D (pmul p q) x == D p x * peval q x + peval p x * D q x /\
  D (ppow p (S n)) x == Qnat (S n) * peval (ppow p n) x * D p x.
Proof.
  repeat split; [apply peval_padd|apply peval_pscale|apply peval_pmul|apply peval_ppow|apply D_padd|apply D_pscale|apply D_pmul|apply D_ppow].
Qed.

(* boolean pointwise equality, for closed examples *)
Fixpoint veqb (a b : vec) : bool :=
  match a, b with
  | [], [] => true
  | x :: a', y :: b' => Qeq_bool x y && veqb a' b'
  | _, _ => false
  end.
Lemma veqb_sound a : forall b, veqb a b = true -> veq a b.
Proof.
  induction a as [|x a IH]; intros [|y b] H; cbn [veqb] in H; try discriminate; constructor.
  - apply Qeq_bool_iff. apply andb_prop in H. tauto.
  - apply IH. apply andb_prop in H. tauto.
Qed.

(* slices respect pointwise equality *)
Lemma veq_firstn a b : veq a b -> forall n, veq (firstn n a) (firstn n b).
Proof. induction 1 as [|x y a b Hxy _ IH]; intros [|n]; cbn [firstn]; constructor; auto. Qed.
Lemma veq_skipn a b : veq a b -> forall n, veq (skipn n a) (skipn n b).
Proof. induction 1 as [|x y a b Hxy Hab IH]; intros [|n]; cbn [skipn]; try constructor; auto. Qed.
Lemma drop_last_veq k a b : veq a b -> veq (drop_last k a) (drop_last k b).
Proof. intros H. unfold drop_last. rewrite (veq_length _ _ H). apply veq_firstn. exact H. Qed.
Lemma take_last_veq k a b : veq a b -> veq (take_last k a) (take_last k b).
Proof. intros H. unfold take_last. rewrite (veq_length _ _ H). apply veq_skipn. exact H. Qed.
Lemma peval_Qeq p x y : x == y -> peval p x == peval p y.
Proof. intros E. induction p as [|a p IH]; cbn [peval]; [reflexivity|]. rewrite IH, E. reflexivity. Qed.
