(* C08, tree clause: the side conditions of tree_okb for ANY caller-supplied nodelist that lists the nodes of the simple
   graph G exactly once (nodelist_okb), with index_of_node = {node: i for i, node in enumerate(nodelist)} = pos_in nodelist;
   and the clause for every connected acyclic simple graph with such a nodelist. *)
From EoNV Require Import Prelude Vec VecP Graph Rhs2D Rhs2DP Rhs2 Rhs2GenP Master C08tG C08tS C08tT C08tR C08tA C08tO C08tC C08tF
  C08tTreeA C08tTreeB C08tTreeC C08tTreeD C08tTreeE C08tTreeG C08tTreeH.
From Coq Require Import Lia List Arith Bool.
Import ListNotations.
Local Open Scope nat_scope.

Definition nodelist_okb (G : graph) (nodelist : list node) : bool :=
  nodupb nodelist && Nat.eqb (length nodelist) (length (gnodes G)) && subsetb nodelist (gnodes G).

Lemma nodelist_ok_self G : wf_graphb G = true -> nodelist_okb G (gnodes G) = true.
Proof.
  intros W. unfold wf_graphb in W. apply andb_prop in W. destruct W as [W _]. apply andb_prop in W. destruct W as [ND _].
  unfold nodelist_okb. rewrite ND, Nat.eqb_refl. cbn [andb]. unfold subsetb. apply forallb_forall. intros x Hx. apply mem_In. exact Hx.
Qed.

Theorem wf_pb_wfb_any G nodelist : wf_graphb G = true -> nodelist_okb G nodelist = true ->
  pb_wfb G nodelist (pos_in nodelist) = true /\ noloopb G nodelist = true.
Proof.
  intros W OK. unfold nodelist_okb in OK. apply andb_prop in OK. destruct OK as [OK Sub]. apply andb_prop in OK.
  destruct OK as [ND L]. apply nodupb_NoDup in ND. apply Nat.eqb_eq in L.
  assert (In1 : incl nodelist (gnodes G)).
  { intros x Hx. unfold subsetb in Sub. rewrite forallb_forall in Sub. apply mem_In. apply Sub. exact Hx. }
  assert (In2 : incl (gnodes G) nodelist) by (apply (NoDup_length_incl ND); [lia|exact In1]).
  unfold wf_graphb in W. apply andb_prop in W. destruct W as [W _]. apply andb_prop in W. destruct W as [_ W].
  rewrite forallb_forall in W.
  assert (P : forall i, i < length nodelist ->
     nodupb (gadj G (node_at nodelist i)) = true /\ subsetb (gadj G (node_at nodelist i)) (gnodes G) = true /\
     mem (node_at nodelist i) (gadj G (node_at nodelist i)) = false).
  { intros i Hi. assert (H := W (node_at nodelist i) ltac:(apply In1; apply nth_In; exact Hi)).
    repeat (apply andb_prop in H; let K := fresh "K" in destruct H as [H K]).
    apply negb_true_iff in K3. repeat split; assumption. }
  split.
  - unfold pb_wfb, nN. rewrite <- L, Nat.eqb_refl. cbn [andb]. apply forallb_forall. intros i Hi. apply in_seq in Hi.
    destruct (P i ltac:(lia)) as [P1 [P2 _]]. unfold node_at at 1. rewrite pos_in_nth by (assumption || lia).
    rewrite Nat.eqb_refl, P1. cbn [andb]. apply forallb_forall. intros v Hv.
    unfold subsetb in P2. rewrite forallb_forall in P2. assert (Iv := P2 v Hv). apply mem_In in Iv. apply In2 in Iv.
    destruct (pos_in_In _ _ 0%N Iv) as [A B]. apply andb_true_intro. split; [apply Nat.ltb_lt; exact A|].
    apply N.eqb_eq. exact B.
  - unfold noloopb. apply forallb_forall. intros i Hi. apply in_seq in Hi. unfold nN in Hi.
    destruct (P i ltac:(lia)) as [_ [_ P3]]. apply negb_true_iff. exact P3.
Qed.

Theorem connected_acyclic_exact_any G nodelist tr rc : wf_graphb G = true -> nodelist_okb G nodelist = true ->
  pos_connected G nodelist -> pos_acyclic G nodelist ->
  let idx := pos_in nodelist in
  tree_okb G nodelist idx = true /\
  forall p t, nonneg nodelist p -> inMs nodelist (branch_cuts G nodelist) p ->
  veq (g_dSIR_pair_based (marginals G nodelist p) t G nodelist idx tr rc)
      (marginals G nodelist (master_rhs G nodelist idx tr rc p)).
Proof.
  intros W OK Con AC. cbv zeta. destruct (wf_pb_wfb_any G nodelist W OK) as [A B].
  destruct (proj1 (tree_iff_connected_acyclic_pos G nodelist B) (conj Con AC)) as [ord T].
  assert (K : tree_okb G nodelist (pos_in nodelist) = true)
    by (apply (forest_tree_okb G nodelist _ ord A B); apply tree_forest_order; exact T).
  split; [exact K|]. intros p t. apply tree_exact_on_M. exact K.
Qed.

(* non-vacuity: a tree whose nodes are listed by the caller in another order than list(G.nodes()) *)
Definition ex_tree6'' : graph := graph_of [(3, [1; 5]); (1, [3; 2; 0]); (2, [1]); (0, [1]); (5, [3; 4]); (4, [5])]%N.
Lemma ex_any_nodelist : wf_graphb ex_tree6'' = true /\ nodelist_okb ex_tree6'' (nodes_upto 6) = true /\
  gnodes ex_tree6'' <> nodes_upto 6 /\ pos_connected ex_tree6'' (nodes_upto 6) /\ pos_acyclic ex_tree6'' (nodes_upto 6).
Proof.
  split; [vm_compute; reflexivity|]. split; [vm_compute; reflexivity|]. split; [vm_compute; discriminate|].
  apply tree_iff_connected_acyclic_pos; [vm_compute; reflexivity|]. exists [0; 2; 4; 5; 3; 1]. vm_compute. reflexivity.
Qed.
