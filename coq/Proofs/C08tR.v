(* C08, tree exactness, step (3c) for EVERY graph-independent cut: the closure residual is a sum of minors.

     residual_eq   for all p, j < n, i on the U side, k on the other side:
                   <a_i S_j b_k> <S_j> - <a_i S_j> <S_j b_k>  =  sum over s1 in the slice with s1_i = a, s1_k = b, and over
                   s2 in the slice, of  minor U p s1 s2
   (re-indexing of the double sum over the slice by the involution (s1, s2) |-> (mix s1 s2, mix s2 s1)).
   With inM_residual0 and closure_of_product (C08tG) this gives the closure at every point of M_{j,U} with p >= 0,
   for every n.  Closed under the global context. *)
From EoNV Require Import Prelude Vec VecP Graph Rhs2D Rhs2DP Master C08tG C08tS.
From Coq Require Import Lqa Setoid Morphisms Permutation FinFun.

(* ---------------- finite sums: filters, products, permutations ---------------- *)
Lemma nodup_app {A} (l1 l2 : list A) : NoDup l1 -> NoDup l2 -> (forall x, In x l1 -> ~ In x l2) -> NoDup (l1 ++ l2).
Proof.
  induction l1 as [|x l1 IH]; intros H1 H2 D; cbn [app]; [exact H2|].
  inversion H1 as [|? ? Hx H1']; subst. constructor.
  - rewrite in_app_iff. intros [H|H]; [exact (Hx H)|exact (D x (or_introl eq_refl) H)].
  - apply IH; [exact H1'|exact H2|intros y Hy; apply D; right; exact Hy].
Qed.
Lemma nodup_map_on {A B} (f : A -> B) l : (forall x y, In x l -> In y l -> f x = f y -> x = y) -> NoDup l -> NoDup (map f l).
Proof.
  induction l as [|x l IH]; intros Hf Hn; cbn [map]; [constructor|].
  inversion Hn as [|? ? Hx Hn']; subst. constructor.
  - intros H. apply in_map_iff in H. destruct H as [y [E Hy]].
    assert (y = x) by (apply Hf; [right; exact Hy|left; reflexivity|exact E]). subst y. exact (Hx Hy).
  - apply IH; [intros a b Ha Hb; apply Hf; right; assumption|exact Hn'].
Qed.
Section Sums.
Context {A : Type}.
Lemma sumQ_app (l1 l2 : list Q) : sumQ (l1 ++ l2) == sumQ l1 + sumQ l2.
Proof. induction l1 as [|x l1 IH]; cbn [app]; rewrite ?sumQ_cons, ?sumQ_nil; [ring|]. rewrite IH. ring. Qed.
Lemma sum_filter (g : A -> bool) (f : A -> Q) l :
  sumQ (map f (filter g l)) == sumQ (map (fun s => if g s then f s else 0) l).
Proof.
  induction l as [|x l IH]; cbn [filter map]; [reflexivity|]. rewrite sumQ_cons.
  destruct (g x); cbn [map]; rewrite ?sumQ_cons, IH; ring.
Qed.
Lemma sum_perm (f : A -> Q) l l' : Permutation l l' -> sumQ (map f l) == sumQ (map f l').
Proof.
  induction 1 as [|x l l' _ IH|x y l|l l' l'' _ IH1 _ IH2]; cbn [map]; rewrite ?sumQ_cons.
  - reflexivity.
  - rewrite IH. reflexivity.
  - ring.
  - rewrite IH1. exact IH2.
Qed.
Lemma sum_prod {B} (G : A -> B -> Q) (l1 : list A) (l2 : list B) :
  sumQ (map (fun a => sumQ (map (fun b => G a b) l2)) l1) == sumQ (map (fun x => G (fst x) (snd x)) (list_prod l1 l2)).
Proof.
  induction l1 as [|a l1 IH]; cbn [map list_prod]; [reflexivity|].
  rewrite sumQ_cons, map_app, sumQ_app, IH, map_map. cbn [fst snd]. reflexivity.
Qed.
Lemma nodup_prod {B} (l1 : list A) (l2 : list B) : NoDup l1 -> NoDup l2 -> NoDup (list_prod l1 l2).
Proof.
  intros H1 H2. induction H1 as [|a l1 Ha H1 IH]; cbn [list_prod]; [constructor|].
  apply nodup_app; [|exact IH|].
  - apply nodup_map_on; [|exact H2]. intros x y _ _ E. inversion E. reflexivity.
  - intros [x y] Hx Hy. apply in_map_iff in Hx. destruct Hx as [b [E _]]. inversion E; subst.
    apply in_prod_iff in Hy. exact (Ha (proj1 Hy)).
Qed.
(* re-indexing a sum by an involution of the index list *)
Lemma sum_involution (Phi : A -> A) (f : A -> Q) l : NoDup l ->
  (forall x, In x l -> In (Phi x) l) -> (forall x, In x l -> Phi (Phi x) = x) ->
  sumQ (map (fun x => f (Phi x)) l) == sumQ (map f l).
Proof.
  intros Hn Hin Hinv. rewrite <- (map_map Phi f). apply sum_perm. apply NoDup_Permutation; [|exact Hn|].
  - apply nodup_map_on; [|exact Hn]. intros x y Hx Hy E. rewrite <- (Hinv x Hx), <- (Hinv y Hy), E. reflexivity.
  - intros y. rewrite in_map_iff. split.
    + intros [x [<- Hx]]. apply Hin. exact Hx.
    + intros Hy. exists (Phi y). split; [apply Hinv; exact Hy|apply Hin; exact Hy].
Qed.
End Sums.

Lemma all_states_nodup n : NoDup (all_states n).
Proof.
  induction n as [|n IH]; cbn [all_states flat_map]; [constructor; [intros []|constructor]|].
  assert (M : forall a, NoDup (map (cons a) (all_states n))).
  { intros a. apply nodup_map_on; [|exact IH]. intros x y _ _ E. inversion E. reflexivity. }
  assert (D : forall a b x, a <> b -> In x (map (cons a) (all_states n)) -> ~ In x (map (cons b) (all_states n))).
  { intros a b x N Ha Hb. apply in_map_iff in Ha, Hb. destruct Ha as [s [<- _]], Hb as [t [E _]]. inversion E. congruence. }
  rewrite app_nil_r. apply nodup_app; [apply M|apply nodup_app; [apply M|apply M|]|].
  - intros x. apply D. discriminate.
  - intros x Hx H. apply in_app_iff in H.
    destruct H as [H|H]; [exact (D stS stI x ltac:(discriminate) Hx H)|exact (D stS stR x ltac:(discriminate) Hx H)].
Qed.

Section Residual.
Variable nodelist : list node.
Notation n_ := (nN nodelist).
Notation mx := (mix nodelist).
Variables (j : nat) (U : nat -> bool).
Notation sl := (slice nodelist j).
Hypothesis Hj : (j < n_)%nat.

Lemma mix_mix a b : length a = n_ -> mx U (mx U a b) (mx U b a) = a.
Proof.
  intros La. apply state_ext; [rewrite mix_length; auto|]. intros k Hk. rewrite mix_length in Hk.
  rewrite st_at_mix by exact Hk. destruct (U k) eqn:Uk; rewrite st_at_mix by exact Hk; rewrite Uk; reflexivity.
Qed.

Lemma slice_sum (f : state -> Q) : sumQ (map f sl) == sumQ (map (fun s => if is1 j stS s then f s else 0) (all_states n_)).
Proof. unfold slice. apply sum_filter. Qed.

Theorem residual_eq p a i b k : (i < n_)%nat -> (k < n_)%nat -> U i = true -> U k = false ->
  m3 nodelist p a i stS j b k * mX nodelist p j - m2 nodelist p a i stS j * m2 nodelist p stS j b k
  == residual nodelist j U p a i b k.
Proof.
  intros Hi Hk Ui Uk. unfold residual.
  (* the residual as a double sum over the slice *)
  transitivity (sumQ (map (fun x => (if (is1 i a (fst x) && is1 k b (fst x))%bool then p (fst x) * p (snd x) else 0)
                                     - (if (is1 i a (mx U (fst x) (snd x)) && is1 k b (mx U (snd x) (fst x)))%bool
                                        then p (mx U (fst x) (snd x)) * p (mx U (snd x) (fst x)) else 0)) (list_prod sl sl))).
  2:{ rewrite <- (sum_prod (fun s1 s2 => (if (is1 i a s1 && is1 k b s1)%bool then p s1 * p s2 else 0)
                                   - (if (is1 i a (mx U s1 s2) && is1 k b (mx U s2 s1))%bool then p (mx U s1 s2) * p (mx U s2 s1) else 0))).
      apply sum_map_ext. intros s1 H1. 
      assert (E : forall s2, In s2 sl ->
                (if (is1 i a (mx U s1 s2) && is1 k b (mx U s2 s1))%bool then p (mx U s1 s2) * p (mx U s2 s1) else 0)
                == (if (is1 i a s1 && is1 k b s1)%bool then p (mx U s1 s2) * p (mx U s2 s1) else 0)).
      { intros s2 _. unfold is1. rewrite !st_at_mix by assumption. rewrite Ui, Uk. reflexivity. }
      destruct (is1 i a s1 && is1 k b s1)%bool eqn:EA.
      - apply sum_map_ext. intros s2 H2. rewrite (E s2 H2). rewrite ?EA. unfold minor. reflexivity.
      - rewrite sum_map_zero; [reflexivity|]. intros s2 H2. rewrite (E s2 H2). rewrite ?EA. ring. }
  rewrite sum_map_sub.
  (* second half: re-index by the involution *)
  set (F := fun x : state * state => if (is1 i a (fst x) && is1 k b (snd x))%bool then p (fst x) * p (snd x) else 0).
  set (Phi := fun x : state * state => (mx U (fst x) (snd x), mx U (snd x) (fst x))).
  assert (R : sumQ (map (fun x => F (Phi x)) (list_prod sl sl)) == sumQ (map F (list_prod sl sl))).
  { apply sum_involution.
    - apply nodup_prod; unfold slice; apply NoDup_filter; apply all_states_nodup.
    - intros [s1 s2] H. apply in_prod_iff in H. destruct H as [H1 H2]. unfold Phi. cbn [fst snd].
      apply in_prod_iff. split; apply mix_in_slice; assumption.
    - intros [s1 s2] H. apply in_prod_iff in H. destruct H as [H1 H2]. unfold Phi. cbn [fst snd].
      apply in_slice in H1, H2. destruct H1 as [H1 _], H2 as [H2 _]. apply in_all_states in H1, H2.
      rewrite (mix_mix s1 s2 (proj1 H1)), (mix_mix s2 s1 (proj1 H2)). reflexivity. }
  unfold F at 1, Phi in R. cbn [fst snd] in R. rewrite R. clear R. unfold F. clear F Phi.
  (* both halves as products of marginals *)
  rewrite <- (sum_prod (fun s1 s2 => if (is1 i a s1 && is1 k b s1)%bool then p s1 * p s2 else 0)).
  rewrite <- (sum_prod (fun s1 s2 => if (is1 i a s1 && is1 k b s2)%bool then p s1 * p s2 else 0)).
  assert (P1 : sumQ (map (fun s1 => sumQ (map (fun s2 => if (is1 i a s1 && is1 k b s1)%bool then p s1 * p s2 else 0) sl)) sl)
               == m3 nodelist p a i stS j b k * mX nodelist p j).
  { transitivity (sumQ (map (fun s1 => (if (is1 i a s1 && is1 k b s1)%bool then p s1 else 0) * sumQ (map p sl)) sl)).
    - apply sum_map_ext. intros s1 _. rewrite <- sum_map_scal. apply sum_map_ext. intros s2 _.
      destruct (is1 i a s1 && is1 k b s1)%bool; ring.
    - rewrite (sum_map_ext sl _ (fun s1 => sumQ (map p sl) * (if (is1 i a s1 && is1 k b s1)%bool then p s1 else 0))) by (intros; ring).
      rewrite sum_map_scal. rewrite !slice_sum. unfold m3, mX, m1, prob.
      rewrite Qmult_comm. apply Qmult_comp; apply sum_map_ext; intros s _;
        destruct (is1 i a s), (is1 j stS s), (is1 k b s); reflexivity. }
  assert (P2 : sumQ (map (fun s1 => sumQ (map (fun s2 => if (is1 i a s1 && is1 k b s2)%bool then p s1 * p s2 else 0) sl)) sl)
               == m2 nodelist p a i stS j * m2 nodelist p stS j b k).
  { transitivity (sumQ (map (fun s1 => (if is1 i a s1 then p s1 else 0) * sumQ (map (fun s2 => if is1 k b s2 then p s2 else 0) sl)) sl)).
    - apply sum_map_ext. intros s1 _. rewrite <- sum_map_scal. apply sum_map_ext. intros s2 _.
      destruct (is1 i a s1), (is1 k b s2); cbn [andb]; ring.
    - rewrite (sum_map_ext sl _ (fun s1 => sumQ (map (fun s2 => if is1 k b s2 then p s2 else 0) sl) * (if is1 i a s1 then p s1 else 0))) by (intros; ring).
      rewrite sum_map_scal. rewrite !slice_sum. unfold m2, prob.
      rewrite Qmult_comm. apply Qmult_comp; apply sum_map_ext; intros s _;
        destruct (is1 i a s), (is1 j stS s), (is1 k b s); reflexivity. }
  rewrite P1, P2. reflexivity.
Qed.

(* the closure at every point of M, both orientations *)
Theorem closure_on_M p a i b k : (i < n_)%nat -> (k < n_)%nat -> U i = true -> U k = false ->
  nonneg nodelist p -> inM nodelist j U p ->
  closure_at nodelist p a i j b k /\ closure_at nodelist p b k j a i.
Proof.
  intros Hi Hk Ui Uk Hp HM. assert (R := residual_eq p a i b k Hi Hk Ui Uk).
  rewrite (inM_residual0 nodelist j U p a i b k HM) in R.
  split; apply closure_of_product; try exact Hp.
  - lra.
  - assert (E3 : m3 nodelist p b k stS j a i == m3 nodelist p a i stS j b k).
    { unfold m3. apply prob_ext. intros s. destruct (is1 i a s), (is1 j stS s), (is1 k b s); reflexivity. }
    rewrite E3, (m2_comm nodelist p b k stS j), (m2_comm nodelist p stS j a i). lra.
Qed.
End Residual.
