(* C08, tree clause: the usual definition of a tree, on the positions of `nodelist` with the adjacency adjb G nodelist:
     connected and |E| = |V| - 1   (degree sum = 2 (n - 1)),
   as a Prop (pos_connected, pos_degsum) and as an executable test without certificate (usual_treeb: the degree sum, and
   every position found by the search of C08tF.v from position 0 with no position removed).
     tree_order_of_usual / usual_of_tree_order   usual definition  <=>  a tree peeling order exists;
     usual_treeb_order                           usual_treeb = true  ==>  a tree peeling order exists;
   hence tree_okb accepts every graph that is a tree in the usual sense. *)
From EoNV Require Import Prelude Vec VecP Graph Rhs2D Rhs2DP Rhs2 Rhs2GenP Master C08tG C08tS C08tT C08tR C08tA C08tO C08tC C08tF
  C08tTreeA C08tTreeB C08tTreeC C08tTreeD.
From Coq Require Import Lia List Arith Bool.
Import ListNotations.
Local Open Scope nat_scope.

(* sums over duplicate-free lists with the same elements *)
Lemma sumn_same (h : nat -> nat) l : forall l', NoDup l -> NoDup l' -> (forall x, In x l <-> In x l') ->
  sumn (map h l) = sumn (map h l').
Proof.
  induction l as [|a l IH]; intros l' N N' H.
  - destruct l' as [|b l']; [reflexivity|]. exfalso. apply (proj2 (H b)). left. reflexivity.
  - inversion N as [|? ? Ha N0]; subst. assert (Ia : In a l') by (apply H; left; reflexivity).
    rewrite (sumn_del h a l' N' Ia). cbn [map]. rewrite sumn_cons. rewrite (IH (del a l') N0 (NoDup_del a l' N')); [lia|].
    intros x. rewrite del_In. split.
    + intros Hx. split; [apply H; right; exact Hx|]. intros ->. apply Ha. exact Hx.
    + intros [Hx Nx]. apply H in Hx. destruct Hx as [<-|Hx]; [exfalso; apply Nx; reflexivity|exact Hx].
Qed.

Section Usual.
Variables (G : graph) (nodelist : list node).
Notation n_ := (nN nodelist).
Notation adj := (adjb G nodelist).

Definition pos_connected : Prop := connected adj (seq 0 n_).
Definition pos_degsum : nat := degsum adj (seq 0 n_).

Lemma noloop_irrefl : noloopb G nodelist = true -> forall x, In x (seq 0 n_) -> adj x x = false.
Proof. intros NL x Hx. apply in_seq in Hx. apply (adj_irrefl G nodelist NL). lia. Qed.

Lemma same_elts_order ord : same_elts ord (seq 0 n_) -> NoDup ord -> perm_orderb nodelist ord = true.
Proof.
  intros SE ND. unfold perm_orderb. apply andb_true_intro. split.
  - apply Nat.eqb_eq. transitivity (length (seq 0 n_)); [|apply seq_length].
    apply Nat.le_antisymm; apply NoDup_incl_length; try exact ND; try apply seq_NoDup; intros x Hx; apply SE; exact Hx.
  - apply forallb_forall. intros k Hk. apply SE in Hk. apply in_seq in Hk. apply Nat.ltb_lt. lia.
Qed.

Theorem tree_order_of_usual : noloopb G nodelist = true -> pos_connected -> pos_degsum = 2 * (n_ - 1) ->
  exists ord, tree_orderb G nodelist ord = true.
Proof.
  intros NL Con DS.
  destruct (order_of_connected_degsum adj (adjb_sym G nodelist) n_ (seq 0 n_) (seq_length _ _) (seq_NoDup _ _)
              (noloop_irrefl NL) Con DS) as [ord [SE TP]].
  exists ord. unfold tree_orderb. rewrite TP, andb_true_r. apply same_elts_order; [exact SE|].
  apply (forest_peel_nodup adj). apply tree_forest_peel. exact TP.
Qed.

Theorem usual_of_tree_order ord : noloopb G nodelist = true -> tree_orderb G nodelist ord = true ->
  pos_connected /\ pos_degsum = 2 * (n_ - 1).
Proof.
  intros NL TO. assert (FO := tree_forest_order G nodelist ord TO).
  destruct (ord_parts G nodelist ord FO) as [L [B _]]. assert (All := ord_all G nodelist ord FO).
  unfold tree_orderb in TO. apply andb_prop in TO. destruct TO as [_ TP].
  assert (ND : NoDup ord) by (apply (forest_peel_nodup adj); apply tree_forest_peel; exact TP).
  assert (SE : forall x, In x ord <-> In x (seq 0 n_)).
  { intros x. rewrite in_seq. split; [intros Hx; specialize (B x Hx); lia|intros Hx; apply All; lia]. }
  destruct (connected_degsum_of_order adj (adjb_sym G nodelist) ord) as [Con DS]; [|exact TP|].
  { intros x Hx. apply (adj_irrefl G nodelist NL). apply B. exact Hx. }
  split.
  - intros a b Ha Hb. apply (walk_mono adj ord); [intros x Hx; apply SE; exact Hx|]. apply Con; apply SE; assumption.
  - unfold pos_degsum. transitivity (degsum adj ord); [|rewrite DS, L; reflexivity]. unfold degsum.
    rewrite (sumn_same _ (seq 0 n_) ord (seq_NoDup _ _) ND (fun x => iff_sym (SE x))).
    apply sumn_map_ext. intros u _. unfold deg_in. apply filter_length_same; [apply seq_NoDup|exact ND|].
    intros x. apply iff_sym. apply SE.
Qed.

(* ---- executable, no certificate ---- *)
Definition connectedb : bool := forallb (fun k => memn k (grow G nodelist n_ n_ [0])) (seq 0 n_).
Definition usual_treeb : bool :=
  noloopb G nodelist && Nat.eqb pos_degsum (2 * (n_ - 1)) && connectedb.

Lemma reach_walk S j a b : reach adj S j a b -> walk adj S a b.
Proof. intros H. induction H as [a|a c b E _ Ic _ IH]; [constructor|]. apply (walk_step adj S a c b E Ic IH). Qed.
Lemma connectedb_connected : connectedb = true -> pos_connected.
Proof.
  intros H a b Ha Hb. unfold connectedb in H. rewrite forallb_forall in H.
  assert (Z : In 0 (seq 0 n_)) by (apply in_seq; apply in_seq in Ha; lia).
  assert (R : forall k, In k (seq 0 n_) -> walk adj (seq 0 n_) 0 k).
  { intros k Hk. assert (K := H k Hk). apply memn_In in K. apply grow_sound in K. destruct K as [a0 [[<-|[]] K]].
    apply (reach_walk _ _ _ _ K). }
  apply (walk_trans adj _ a 0 b); [apply (walk_sym adj (adjb_sym G nodelist)); [exact Z|apply R; exact Ha]|apply R; exact Hb].
Qed.
Theorem usual_treeb_order : usual_treeb = true -> exists ord, tree_orderb G nodelist ord = true.
Proof.
  intros H. unfold usual_treeb in H. apply andb_prop in H. destruct H as [H H3]. apply andb_prop in H. destruct H as [H1 H2].
  apply Nat.eqb_eq in H2. apply (tree_order_of_usual H1 (connectedb_connected H3) H2).
Qed.
End Usual.

Theorem usual_tree_accepted G : wf_graphb G = true -> usual_treeb G (gnodes G) = true ->
  tree_okb G (gnodes G) (pos_in (gnodes G)) = true.
Proof.
  intros W U. destruct (usual_treeb_order G (gnodes G) U) as [ord T].
  apply (forest_accepted G ord W). apply tree_forest_order. exact T.
Qed.
Theorem usual_tree_exact G tr rc : wf_graphb G = true -> usual_treeb G (gnodes G) = true ->
  let nodelist := gnodes G in let idx := pos_in (gnodes G) in
  forall p t, nonneg nodelist p -> inMs nodelist (branch_cuts G nodelist) p ->
  veq (g_dSIR_pair_based (marginals G nodelist p) t G nodelist idx tr rc)
      (marginals G nodelist (master_rhs G nodelist idx tr rc p)).
Proof.
  intros W U. destruct (usual_treeb_order G (gnodes G) U) as [ord T]. apply (tree_exact_simple_graph G ord tr rc W T).
Qed.

(* statements of Props/C08tree.v that combine the lemmas above *)
Lemma pendant_iff (adj : nat -> nat -> bool) ord :
  (pendant adj true ord <-> tree_peelb adj ord = true) /\ (pendant adj false ord <-> forest_peelb adj ord = true).
Proof. split; [exact (pendant_tree adj ord)|exact (pendant_forest adj ord)]. Qed.
Lemma tree_accepted_simple_graph G ord : wf_graphb G = true -> tree_orderb G (gnodes G) ord = true ->
  tree_okb G (gnodes G) (pos_in (gnodes G)) = true.
Proof. intros W T. exact (forest_accepted G ord W (tree_forest_order G _ ord T)). Qed.
Lemma usual_iff G nodelist : noloopb G nodelist = true ->
  ((pos_connected G nodelist /\ pos_degsum G nodelist = 2 * (nN nodelist - 1)) <->
   exists ord, tree_orderb G nodelist ord = true).
Proof.
  intros NL. split.
  - intros [A B]. exact (tree_order_of_usual G nodelist NL A B).
  - intros [ord T]. exact (usual_of_tree_order G nodelist ord NL T).
Qed.
