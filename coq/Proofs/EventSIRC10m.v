(* Event-driven SIR, cross-cutting properties, part 8 (C10 without the strictness
   hypothesis): for every run and every tie policy, ties and events at tmin included,
   summary(node_history) has one row per distinct time, and that row is the LAST row of the
   arrays at that time. *)
From EoNV Require Import Prelude Samp Graph EventSIR EventSIRP EventSIRInv EventSIRMain EventSIRChar EventSIRTop EventSIRPred.
From EoNV Require Import Investigation InvestigationP EventSIRLog EventSIRRows EventSIRTraj EventSIRC04 EventSIRC09 EventSIRC10 EventSIRHist.
From Coq Require Import Sorting.Sorted.
Require Import Lqa.

(* ---------------- generic list facts ---------------- *)
Lemma replay_node : forall L st u, replay st L u = last_status (st u) (filter (of_u u) L).
Proof.
  induction L as [|e L IH]; intros st u; [reflexivity|].
  cbn [replay fold_left filter]. fold (replay (apply_event st e) L). rewrite IH.
  unfold apply_event, fupdN, of_u at 2. rewrite (N.eqb_sym u (ev_u e)).
  destruct (N.eqb (ev_u e) u); reflexivity.
Qed.

Lemma filter_comm : forall A (f h : A -> bool) l, filter f (filter h l) = filter h (filter f l).
Proof.
  intros A f h l. induction l as [|a l IH]; [reflexivity|]. cbn [filter].
  destruct (h a) eqn:Eh; destruct (f a) eqn:Ef; cbn [filter]; rewrite ?Eh, ?Ef, IH; reflexivity.
Qed.

Lemma ssorted_split : forall t l, StronglySorted tle l ->
  l = filter (le_ev t) l ++ filter (fun e => negb (le_ev t e)) l.
Proof.
  intros t l H. induction H as [|a l H IH Ha]; [reflexivity|]. cbn [filter].
  destruct (le_ev t a) eqn:E; cbn [negb].
  - cbn [app]. f_equal. exact IH.
  - assert (K : forall x, In x l -> le_ev t x = false).
    { intros x Hx. rewrite Forall_forall in Ha. specialize (Ha x Hx). unfold tle in Ha. unfold le_ev in *.
      apply qleb_f. apply qleb_f in E. lra. }
    rewrite (filter_none _ l K). cbn [app]. f_equal. symmetry. apply filter_all. intros x Hx. rewrite (K x Hx). reflexivity.
Qed.

Lemma ssorted_last_max : forall l e d, StronglySorted tle l -> In e l -> ev_t e <= ev_t (last l d).
Proof.
  intros l e d H. revert e. induction H as [|a l H IH Ha]; intros e He; [destruct He|].
  destruct l as [|b l].
  - destruct He as [<-|[]]. cbn. apply Qle_refl.
  - change (last (a :: b :: l) d) with (last (b :: l) d). destruct He as [<-|He]; [|apply IH; exact He].
    rewrite Forall_forall in Ha. apply (Ha (last (b :: l) d)).
    destruct (@exists_last _ (b :: l)) as [l' [x E]]; [discriminate|]. rewrite E, last_last. apply in_or_app. right. left. reflexivity.
Qed.

(* the last row of an array of running counts *)
Lemma log_rows_last : forall nodes ps l st (r0 : row),
  snd r0 = map (count_status nodes st) ps ->
  snd (last (r0 :: log_rows nodes ps st l) r0) = map (count_status nodes (replay st l)) ps /\
  fst (last (r0 :: log_rows nodes ps st l) r0) = match l with [] => fst r0 | _ => ev_t (last l (0, 0%N, 0%N)) end.
Proof.
  intros nodes ps l. induction l as [|e l IH]; intros st r0 H0; [split; [exact H0|reflexivity]|].
  cbn [log_rows].
  set (r1 := (ev_t e, map (count_status nodes (fupdN st (ev_u e) (ev_s e))) ps)).
  change (last (r0 :: r1 :: log_rows nodes ps (fupdN st (ev_u e) (ev_s e)) l) r0)
    with (last (r1 :: log_rows nodes ps (fupdN st (ev_u e) (ev_s e)) l) r0).
  assert (Hd : forall (x : list row) d d', x <> [] -> last x d = last x d').
  { induction x as [|a x IHx]; intros d d' Hx; [contradiction|]. destruct x; [reflexivity|]. cbn. apply IHx. discriminate. }
  rewrite (Hd _ r0 r1) by discriminate.
  destruct (IH (fupdN st (ev_u e) (ev_s e)) r1 eq_refl) as [I1 I2]. split.
  - exact I1.
  - etransitivity; [exact I2|]. destruct l as [|e' l']; reflexivity.
Qed.

Lemma length_filter_rev : forall A (f : A -> bool) l, length (filter f (rev l)) = length (filter f l).
Proof. intros. rewrite <- filter_rev, rev_length. reflexivity. Qed.

Lemma elock_ssorted : forall g tmin tmax st0 row0, snd row0 = census3 g st0 -> fst row0 = tmin ->
  forall evs txs rws st, elock g tmax st0 row0 evs txs rws st -> StronglySorted tle (rev evs).
Proof.
  intros g tmin tmax st0 row0 H00 H00t evs txs rws st H.
  induction H as [|evs txs rws st t u H IH Hu Hug Ht Hx|evs txs rws st t src v H IH Hv Hvg Ht Hx].
  - constructor.
  - cbn [rev]. apply ssorted_snoc; [exact IH|]. apply Forall_rev. apply Forall_forall. intros e He.
    destruct (elock_times g tmin tmax st0 row0 H00 H00t _ _ _ _ H) as [_ [_ [_ I4]]].
    pose proof (I4 e He). unfold tle. cbn [ev_t fst]. lra.
  - cbn [rev]. apply ssorted_snoc; [exact IH|]. apply Forall_rev. apply Forall_forall. intros e He.
    destruct (elock_times g tmin tmax st0 row0 H00 H00t _ _ _ _ H) as [_ [_ [_ I4]]].
    pose proof (I4 e He). unfold tle. cbn [ev_t fst]. lra.
Qed.

Section Merged.
Variable tb : tiepolicy.
Variable g : graph.
Variable tmax : xtime.
Variable delay : node -> node -> xtime.
Variable dur : node -> xtime.
Variable tmin : Q.
Variables i0 r0 : list node.

Hypothesis Hdelay : forall u v d, In u (gnodes g) -> In v (gadj g u) -> delay u v = Some d -> 0 <= d.
Hypothesis Hdur : forall u d, In u (gnodes g) -> dur u = Some d -> 0 <= d.
Hypothesis Hadj : forall u, In u (gnodes g) -> NoDup (gadj g u).
Hypothesis Hdisj : forall u, In u i0 -> ~ In u r0.
Hypothesis Htmin : ltmax tmax tmin.
Hypothesis Hgn : NoDup (gnodes g).
Hypothesis Hi0g : forall u, In u i0 -> In u (gnodes g).
Hypothesis Hadjg : forall u v, In u (gnodes g) -> In v (gadj g u) -> In v (gnodes g).
Hypothesis Hr0nd : NoDup r0.
Hypothesis Hr0g : forall u, In u r0 -> In u (gnodes g).
Hypothesis Hi0nd : NoDup i0.

Notation INV := (Inv g tmax delay dur tmin i0 r0).
Notation XINV := (XI g tmax tmin i0 r0).
Notation ST00 := (st00 r0).
Notation ROW00 := (row00 g tmin r0).

Variables (sF : est) (cF : Q) (evs : list event).
Hypothesis HI : INV cF sF.
Hypothesis H2 : Inv2 tmin r0 sF.
Hypothesis HX : XINV cF evs sF.
Hypothesis Hq : qu sF = [].

Let HL := x_lock _ _ _ _ _ _ _ _ HX.
Let H00 := row00_census g tmin r0 Hgn Hr0nd Hr0g.
Let L := rev evs.

(* node_history[u] = the transform, with its tmin reset, of u's own events in the log *)
Definition Hof (u : node) : history := hist_of_chain tmin (ST00 u) (filter (of_u u) L).

Lemma node_hist_chain : forall u, node_hist tmin sF u = Ok (Hof u).
Proof.
  intros u. unfold Hof, L. rewrite <- filter_rev.
  pose proof (elock_chain g tmax ST00 ROW00 _ _ _ _ HL (st00_not_I r0) u) as Hch.
  destruct Hch as [[A B]|[[A [B [t C]]]|[A [B [t [t' C]]]]]].
  - rewrite B. cbn [rev]. unfold hist_of_chain. cbn [fold_left].
    unfold node_hist. rewrite st00_spec in *. destruct (mem u r0) eqn:Er.
    + apply mem_In in Er. destruct (j_r0 _ _ _ H2 u Er) as [Hrc Hpr]. rewrite Hpr, Hrc, A. cbn.
      rewrite hist_step_at. reflexivity.
    + rewrite A. cbn. destruct (predt sF u); destruct (rect sF u); reflexivity.
  - rewrite st00_spec in A. destruct (mem u r0) eqn:Er; [discriminate A|].
    assert (Hev : In (t, u, stI) evs).
    { assert (Hx : In (t, u, stI) (filter (of_u u) evs)) by (rewrite C; left; reflexivity). apply filter_In in Hx. apply Hx. }
    destruct (elock_ev_tx g tmax ST00 ROW00 _ _ _ _ HL t u Hev) as [sr Hsr].
    pose proof (x_pred _ _ _ _ _ _ _ _ HX t sr u Hsr) as Hp.
    rewrite C. cbn [rev app]. unfold hist_of_chain. cbn [fold_left]. unfold hstep. cbn [ev_t ev_s fst snd].
    rewrite st00_spec, Er. unfold node_hist. rewrite Hp, B. cbn [negb N.eqb stI stS Pos.eqb rbind].
    destruct (rect sF u); reflexivity.
  - rewrite st00_spec in A. destruct (mem u r0) eqn:Er; [discriminate A|].
    assert (Hev1 : In (t, u, stI) evs).
    { assert (Hx : In (t, u, stI) (filter (of_u u) evs)) by (rewrite C; right; left; reflexivity). apply filter_In in Hx. apply Hx. }
    assert (Hev2 : In (t', u, stR) evs).
    { assert (Hx : In (t', u, stR) (filter (of_u u) evs)) by (rewrite C; left; reflexivity). apply filter_In in Hx. apply Hx. }
    destruct (elock_ev_tx g tmax ST00 ROW00 _ _ _ _ HL t u Hev1) as [sr Hsr].
    pose proof (x_pred _ _ _ _ _ _ _ _ HX t sr u Hsr) as Hp.
    destruct (x_rec _ _ _ _ _ _ _ _ HX t' u Hev2) as [Hrc _].
    rewrite C. cbn [rev app]. unfold hist_of_chain. cbn [fold_left]. unfold hstep. cbn [ev_t ev_s fst snd].
    rewrite st00_spec, Er. unfold node_hist. rewrite Hp, Hrc, B. cbn [negb N.eqb stR stS Pos.eqb rbind]. reflexivity.
Qed.

Lemma L_sorted : StronglySorted tle L.
Proof. apply (elock_ssorted g tmin tmax ST00 ROW00 H00 eq_refl _ _ _ _ HL). Qed.

Lemma L_ge : forall e, In e L -> tmin <= ev_t e.
Proof.
  intros e He. destruct (elock_times g tmin tmax ST00 ROW00 H00 eq_refl _ _ _ _ HL) as [_ [I2 _]].
  apply I2. apply in_rev. exact He.
Qed.

Lemma Hof_ok : forall u, chain_ok tmin (ST00 u) (filter (of_u u) L) (Hof u).
Proof.
  intros u. apply chain_props.
  - apply ssorted_filter. apply L_sorted.
  - intros e He. apply filter_In in He. apply L_ge. apply He.
Qed.

Definition hs : list (node * history) := map (fun u => (u, Hof u)) (gnodes g).
Definition iv : inv := mkInv (gnodes g) hs None (Some sir_ps).

Lemma iv_hist_of : forall u, In u (gnodes g) -> hist_of iv u = Ok (Hof u).
Proof. intros u Hu. unfold hist_of, iv, hs. cbn [iv_hist]. rewrite (assoc_map_nodes Hof (gnodes g) u Hu). reflexivity. Qed.

Lemma L_status : forall e, In e L -> In (ev_u e) (gnodes g) /\ (ev_s e = stI \/ ev_s e = stR).
Proof.
  intros e He. apply in_rev in He. destruct (elock_tx g tmax ST00 ROW00 _ _ _ _ HL) as [_ [Hst Hnodes]].
  split; [apply (Hnodes e He)|apply (Hst e He)].
Qed.

Lemma Hof_wf : forall u, wf_histb sir_ps tmin (Hof u) = true.
Proof.
  intros u. pose proof (Hof_ok u) as Hc. destruct (c_head _ _ _ _ Hc) as [e0 [r [E0 H0]]].
  unfold wf_histb. rewrite E0. rewrite <- E0.
  rewrite (proj2 (qeqb_t (fst e0) tmin) H0), (c_sorted _ _ _ _ Hc). cbn [andb].
  apply forallb_forall. intros x Hx. cbn beta.
  destruct (c_stats _ _ _ _ Hc x Hx) as [Hs|[e [He Hs]]]; (etransitivity; [apply (f_equal (fun s => mem s sir_ps) Hs)|]).
  - rewrite st00_spec. destruct (mem u r0); reflexivity.
  - apply filter_In in He. destruct (L_status e (proj1 He)) as [_ [H1|H1]]; rewrite H1; reflexivity.
Qed.

(* node_status at any t >= tmin: the status after all events of the log up to t *)
Lemma iv_status : forall u t, In u (gnodes g) -> tmin <= t ->
  node_status iv u t = Ok (replay ST00 (filter (le_ev t) L) u).
Proof.
  intros u t Hu Ht. unfold node_status. rewrite (iv_hist_of u Hu). cbn [rbind].
  pose proof (Hof_ok u) as Hc. destruct (c_head _ _ _ _ Hc) as [e0 [r [E0 H0]]].
  pose proof (c_sorted _ _ _ _ Hc) as Hs. rewrite E0 in Hs.
  rewrite E0, (status_at_scan e0 r t stS Hs) by lra. rewrite <- E0. f_equal.
  rewrite (c_scan _ _ _ _ Hc t stS Ht), replay_node, filter_comm. reflexivity.
Qed.

Lemma iv_count : forall t s, tmin <= t ->
  count_at iv (gnodes g) t s = count_status (gnodes g) (replay ST00 (filter (le_ev t) L)) s.
Proof.
  intros t s Ht. unfold count_at, count_status. f_equal. f_equal.
  assert (H : forall l, incl l (gnodes g) ->
            filter (status_isb iv t s) l = filter (fun u => N.eqb (replay ST00 (filter (le_ev t) L) u) s) l).
  { induction l as [|u l IH]; intros Hl; [reflexivity|]. cbn [filter].
    assert (Hu : In u (gnodes g)) by (apply Hl; left; reflexivity).
    unfold status_isb at 1. rewrite (iv_status u t Hu Ht). rewrite IH; [reflexivity|].
    intros x Hx. apply Hl. right. exact Hx. }
  apply H. apply incl_refl.
Qed.


Lemma skipn_app_le : forall A n (a b : list A), (n <= length a)%nat -> skipn n (a ++ b) = skipn n a ++ b.
Proof.
  intros A n. induction n as [|n IH]; intros a b H; [reflexivity|].
  destruct a as [|x a]; [simpl in H; lia|]. cbn [app skipn]. apply IH. simpl in H. lia.
Qed.

Lemma in_skipn_in : forall A n (l : list A) x, In x (skipn n l) -> In x l.
Proof. intros A n l x H. rewrite <- (firstn_skipn n l). apply in_or_app. right. exact H. Qed.

Lemma log_rows_length : forall nodes ps l st, length (log_rows nodes ps st l) = length l.
Proof. intros nodes ps l. induction l as [|e l IH]; intros st; [reflexivity|]. cbn [log_rows length]. rewrite IH. reflexivity. Qed.

(* summary(node_history): one row per distinct time, equal to the LAST row of the returned
   arrays at that time; and every time of the arrays is listed *)
Lemma merged_rows : gnodes g <> [] -> exists rows',
  summary iv None = Ok rows' /\ StronglySorted Qlt (map fst rows') /\
  (forall t cs, In (t, cs) rows' ->
     exists a r b, skipn (length i0) (rev (rows sF)) = a ++ r :: b /\ fst r == t /\ snd r = cs /\
                   forall r', In r' b -> t < fst r') /\
  (forall r, In r (skipn (length i0) (rev (rows sF))) -> exists t, In t (map fst rows') /\ t == fst r).
Proof.
  intros Hne.
  assert (Hwf : forall u, In u (gnodes g) -> exists h, hist_of iv u = Ok h /\ wf_histb sir_ps tmin h = true).
  { intros u Hu. exists (Hof u). split; [apply iv_hist_of; exact Hu|apply Hof_wf]. }
  destruct (summary_spec iv sir_ps tmin (gnodes g) eq_refl Hne Hwf) as [rows' [Er [Rne [Rs [R4 [R5 R6]]]]]].
  exists rows'. split; [exact Er|]. split; [exact Rs|].
  pose proof (fin_rows g tmax tmin i0 r0 sF cF evs HX) as Hfull. fold L in Hfull.
  assert (HROW : snd ROW00 = map (count_status (gnodes g) ST00) sir_ps) by exact H00.
  split.
  - intros t cs Hin. destruct (R4 t cs Hin) as [Ht Hcs].
    set (L1 := filter (le_ev t) L). set (L2 := filter (fun e => negb (le_ev t e)) L).
    assert (HLs : L = L1 ++ L2) by (apply ssorted_split; apply L_sorted).
    assert (Hcs' : cs = map (count_status (gnodes g) (replay ST00 L1)) sir_ps).
    { rewrite Hcs. apply map_ext. intros s. apply iv_count. exact Ht. }
    set (X := ROW00 :: log_rows (gnodes g) sir_ps ST00 L1).
    assert (HX0 : X <> []) by discriminate.
    destruct (log_rows_last (gnodes g) sir_ps L1 ST00 ROW00 HROW) as [Hl1 Hl2]. fold X in Hl1, Hl2.
    pose proof (app_removelast_last ROW00 HX0) as HXs.
    set (r := last X ROW00) in *. set (pre := removelast X) in *.
    assert (Hlen : length pre = length L1).
    { assert (Hx : length X = S (length L1)) by (unfold X; cbn [length]; rewrite log_rows_length; reflexivity).
      rewrite HXs, app_length in Hx. cbn [length] in Hx. lia. }
    assert (Hn0 : (length i0 <= length L1)%nat).
    { destruct (fin_phase g tmax delay dur tmin i0 r0 Htmin Hgn Hr0nd Hr0g Hi0nd sF cF evs HI HX Hq) as [Bp [A [E [HA [_ [_ HlenA]]]]]].
      unfold L1, L. rewrite length_filter_rev, E, filter_app, app_length.
      assert (HfA : filter (le_ev t) A = A).
      { apply filter_all. intros e He. rewrite Forall_forall in HA. specialize (HA e He). apply at_tmin_true in HA.
        unfold le_ev. apply qleb_t. lra. }
      rewrite HfA. lia. }
    exists (skipn (length i0) pre), r, (log_rows (gnodes g) sir_ps (replay ST00 L1) L2).
    split; [|split; [|split]].
    + rewrite Hfull, HLs, log_rows_app.
      change (ROW00 :: log_rows (gnodes g) sir_ps ST00 L1 ++ log_rows (gnodes g) sir_ps (replay ST00 L1) L2)
        with (X ++ log_rows (gnodes g) sir_ps (replay ST00 L1) L2).
      rewrite HXs, <- app_assoc. cbn [app]. apply skipn_app_le. lia.
    + (* the time of that row *)
      rewrite Hl2.
      assert (Horigin : t == tmin \/ exists e, In e L /\ t = ev_t e).
      { assert (Hm : In t (map fst rows')) by (apply in_map_iff; exists (t, cs); split; [reflexivity|exact Hin]).
        destruct (R5 t Hm) as [u [h [x [Hu [Eh [Hx Ex]]]]]].
        rewrite (iv_hist_of u Hu) in Eh. injection Eh as Eh. subst h.
        destruct (c_times _ _ _ _ (Hof_ok u) x Hx) as [H1|[e [He H1]]].
        - left. rewrite <- Ex. exact H1.
        - right. exists e. apply filter_In in He. split; [apply He|rewrite <- Ex; exact H1]. }
      destruct L1 as [|e1 L1'] eqn:EL1.
      * cbn [fst]. destruct Horigin as [H1|[e [He H1]]]; [symmetry; exact H1|exfalso].
        assert (Hx : In e (filter (le_ev t) L)).
        { apply filter_In. split; [exact He|]. unfold le_ev. apply qleb_t. rewrite H1. apply Qle_refl. }
        fold L1 in Hx. rewrite EL1 in Hx. destruct Hx.
      * rewrite <- EL1.
        assert (HL1s : StronglySorted tle L1) by (apply ssorted_filter; apply L_sorted).
        assert (Hlast : In (last L1 (0, 0%N, 0%N)) L1).
        { destruct (@exists_last _ L1) as [l' [x Ex]]; [rewrite EL1; discriminate|]. rewrite Ex, last_last. apply in_or_app. right. left. reflexivity. }
        assert (Hle : ev_t (last L1 (0, 0%N, 0%N)) <= t).
        { unfold L1 in Hlast at 2. apply filter_In in Hlast. destruct Hlast as [_ Hl]. unfold le_ev in Hl. apply qleb_t in Hl. exact Hl. }
        assert (Hge : tmin <= ev_t (last L1 (0, 0%N, 0%N))).
        { apply L_ge. unfold L1 in Hlast at 2. apply filter_In in Hlast. apply Hlast. }
        destruct Horigin as [H1|[e [He H1]]]; [lra|].
        assert (Hx : In e L1).
        { apply filter_In. split; [exact He|]. unfold le_ev. apply qleb_t. rewrite H1. apply Qle_refl. }
        pose proof (ssorted_last_max L1 e (0, 0%N, 0%N) HL1s Hx) as Hmx. rewrite H1 in Hle |- *. lra.
    + rewrite Hl1. symmetry. exact Hcs'.
    + intros r' Hr'.
      assert (HF : Forall (fun x : row => t < fst x) (log_rows (gnodes g) sir_ps (replay ST00 L1) L2)).
      { apply (log_rows_Forall (gnodes g) sir_ps (fun x => t < x)). apply Forall_forall. intros e He.
        unfold L2 in He. apply filter_In in He. destruct He as [_ He]. apply negb_true_iff in He. unfold le_ev in He.
        apply qleb_f in He. exact He. }
      rewrite Forall_forall in HF. apply (HF r' Hr').
  - intros r Hr. apply in_skipn_in in Hr. rewrite Hfull in Hr. destruct Hr as [<-|Hr].
    + assert (Hex : exists u0, In u0 (gnodes g)).
      { clear -Hne. destruct (gnodes g) as [|u0 l0]; [contradiction Hne; reflexivity|]. exists u0. left. reflexivity. }
      destruct Hex as [u0 Hu0].
      destruct (c_head _ _ _ _ (Hof_ok u0)) as [e0 [rr [E0 H0]]].
      destruct (R6 u0 (Hof u0) e0 Hu0 (iv_hist_of u0 Hu0)) as [t' [Ht' Et']].
      * rewrite E0. left. reflexivity.
      * exists t'. split; [exact Ht'|]. cbn [fst row00]. lra.
    + assert (Hm : In (fst r) (map ev_t L)).
      { rewrite <- (log_rows_times (gnodes g) sir_ps L ST00). apply in_map. exact Hr. }
      apply in_map_iff in Hm. destruct Hm as [e [Ee He]].
      destruct (L_status e He) as [Hu _].
      assert (Hef : In e (filter (of_u (ev_u e)) L)) by (apply filter_In; split; [exact He|unfold of_u; apply N.eqb_refl]).
      destruct (c_cover _ _ _ _ (Hof_ok (ev_u e)) e Hef) as [x [Hx Ex]].
      destruct (R6 (ev_u e) (Hof (ev_u e)) x Hu (iv_hist_of _ Hu) Hx) as [t' [Ht' Et']].
      exists t'. split; [exact Ht'|]. rewrite Et', Ex, Ee. reflexivity.
Qed.

End Merged.

(* C10 for fast_nonMarkov_SIR with table rules, every tie policy, NO hypothesis on ties *)
Theorem esir_summary_merged : forall tb g delay dur i0 r0 tmin tmax fuel,
  esir_okb2 g delay dur i0 r0 tmin tmax = true -> (esir_fuel g i0 <= fuel)%nat -> gnodes g <> [] ->
  exists evs out cs fd rows',
    esir_log tb g delay dur i0 r0 tmin tmax fuel = Ok evs /\
    esir_det tb g delay dur i0 r0 tmin tmax true fuel = Ok (out, cs) /\
    so_full out = Some fd /\
    fd_hist fd = map (fun u => (u, hist_of_chain tmin (st00 r0 u) (filter (of_u u) evs))) (gnodes g) /\
    summary (mkInv (gnodes g) (fd_hist fd) None (Some sir_ps)) None = Ok rows' /\
    StronglySorted Qlt (map fst rows') /\
    (forall t cs, In (t, cs) rows' ->
       exists a r b, so_rows out = a ++ r :: b /\ fst r == t /\ snd r = cs /\ forall r', In r' b -> t < fst r') /\
    (forall r, In r (so_rows out) -> exists t, In t (map fst rows') /\ t == fst r).
Proof.
  intros tb g delay dur i0 r0 tmin tmax fuel Hok Hf Hne.
  destruct (esir_final tb g delay dur i0 r0 tmin tmax fuel Hok Hf) as [sF [cF [evs [HL [HR [Hq [HI [H2 HX]]]]]]]].
  destruct (okb2_parts _ _ _ _ _ _ _ Hok) as [Hok1 [Hi [Hr Hrg]]].
  destruct (okb_parts g delay dur i0 r0 tmin tmax Hok1) as [H1 [H3 [H4 [H5 [H6 [H7 [H8 H9]]]]]]].
  destruct (fin_finish g tmax delay dur tmin i0 r0 sF cF HI H2 true) as [hs0 [Hfin Hhs]].
  destruct (merged_rows g tmax delay dur tmin i0 r0 H9 H1 Hr Hrg Hi sF cF evs HI HX Hq Hne) as [rows' [M1 [M2 [M3 M4]]]].
  exists (rev evs). eexists. eexists. eexists. exists rows'.
  split; [apply (esir_log_of _ _ _ _ _ _ _ _ _ _ _ HL)|].
  split; [unfold esir_det; rewrite HR; cbn [rbind]; exact Hfin|].
  cbn [so_full so_rows fd_hist]. split; [reflexivity|].
  assert (Ehs : hs0 = hs g tmin r0 evs).
  { specialize (Hhs eq_refl).
    rewrite (all_ok_map_eq _ _ _ (fun u => (u, Hof tmin r0 evs u))) in Hhs.
    - injection Hhs as Hhs. rewrite <- Hhs. reflexivity.
    - intros u _. rewrite (node_hist_chain g tmax tmin i0 r0 sF cF evs H2 HX u). reflexivity. }
  rewrite Ehs. split; [reflexivity|]. split; [exact M1|]. split; [exact M2|]. split; [exact M3|exact M4].
Qed.
