(* C05, event-driven SIR: the sampler entry points (fast_nonMarkov_SIR with any provider,
   fast_SIR on its per-edge path and on its binomial path) run through [gstep]; their
   providers answer inside [okans]; hence every run that returns starts from the request
   (the extracted checker [ic_sirb] accepts it), for every draw script.  rho, and the
   rejected argument combinations. *)
From EoNV Require Import Prelude Samp Graph EventSIR EventSIRConst SampP InitChk C05xEsirInv C05xGeneric C05xEsir.
From EoNV Require GillespieP.
Require Import Lqa Qround.
From Coq Require Import Permutation.

Lemma reach_lift_ret : forall A (r : result A) a, reach (lift r Ret) a -> r = Ok a.
Proof. intros A [x|e] a H; cbn [lift] in H; inversion H; subst; reflexivity. Qed.

Lemma reach_sample_inv : forall A pop n (k : list key -> samp A) a, reach (Sample pop n k) a ->
  (n <= length pop)%nat /\ exists i, reach (k (firstn n (rotate i pop))) a.
Proof. intros A pop n k a H. inversion H as [| | | | | | |? ? ? i ? Hl Hk]; subst. split; [exact Hl|exists i; exact Hk]. Qed.

(* ---------------- the loop over samp ---------------- *)
Section Loop.
Variable g : graph.
Variable tmin : Q.
Variable tmax : xtime.

Lemma gloop_gsteps : forall prov full n0 fuel s o,
  reach (gloop fifo g tmin tmax prov full n0 fuel s) o ->
  exists sF, gsteps g tmax (fun u sus a => reach (prov u sus) a) s sF /\ qu sF = [] /\ finish g tmin full n0 sF = Ok o.
Proof.
  intros prov full n0. induction fuel as [|f IH]; intros s o H; cbn [gloop] in H; destruct (qu s) as [|e q'] eqn:Eq.
  - apply reach_lift_ret in H. exists s. split; [constructor|]. split; assumption.
  - apply reach_fail_inv in H. contradiction.
  - apply reach_lift_ret in H. exists s. split; [constructor|]. split; assumption.
  - destruct (qe e) as [src tgt|u] eqn:Ee.
    + destruct (N.eqb (stat (set_qu s q') tgt) stS) eqn:Es.
      * apply reach_bind in H. destruct H as [a [Ha H]]. destruct (IH _ _ H) as [sF [A [B C]]].
        exists sF. split; [|split; assumption]. eapply gss_step; [|exact A].
        exact (gs_inf g tmax _ s e q' src tgt a _ Eq Ee Es Ha).
      * destruct (IH _ _ H) as [sF [A [B C]]]. exists sF. split; [|split; assumption]. eapply gss_step; [|exact A].
        exact (gs_skip g tmax _ s e q' src tgt Eq Ee Es).
    + destruct (IH _ _ H) as [sF [A [B C]]]. exists sF. split; [|split; assumption]. eapply gss_step; [|exact A].
      exact (gs_rec g tmax _ s e q' u Eq Ee).
Qed.

End Loop.

(* ---------------- the sampler with the binomial call ---------------- *)
Inductive breach {A} : bsamp A -> A -> Prop :=
| br_ret : forall a, breach (BRet a) a
| br_expo : forall r k d a, 0 <= d -> breach (k d) a -> breach (BExpo r k) a
| br_sample : forall pop n k i a, (n <= length pop)%nat -> breach (k (firstn n (rotate i pop))) a -> breach (BSample pop n k) a
| br_binom : forall n tau dd k i a, binom_possible n tau dd i = true -> breach (k i) a -> breach (BBinom n tau dd k) a.

Theorem bexec_breach : forall A (m : bsamp A) ds tr a tr', bexec m ds tr = (Ok a, tr') -> breach m a.
Proof.
  intros A m. induction m as [a0|e|r k IH|pop n k IH|n tau dd k IH]; intros ds tr a tr' H; cbn [bexec] in H.
  - injection H as <- _. constructor.
  - discriminate H.
  - destruct (Qeqb r 0); [discriminate H|]. destruct ds as [|d ds']; [discriminate H|].
    destruct (Qltb d 0) eqn:Ed; [discriminate H|]. unfold Qltb in Ed. destruct (Qlt_le_dec d 0); [discriminate Ed|].
    eapply br_expo; [eassumption|eapply IH; exact H].
  - destruct (Nat.ltb (length pop) n) eqn:El; [discriminate H|]. apply Nat.ltb_ge in El. destruct ds as [|d ds']; [discriminate H|].
    eapply br_sample; [exact El|eapply IH; exact H].
  - destruct ds as [|d ds']; [discriminate H|]. destruct (binom_possible n tau dd (rank d)) eqn:Eb; [|discriminate H].
    eapply br_binom; [exact Eb|eapply IH; exact H].
Qed.

Lemma breach_bbind : forall A B (m : bsamp A) (f : A -> bsamp B) b, breach (bbind m f) b -> exists a, breach m a /\ breach (f a) b.
Proof.
  intros A B m f. induction m as [a0|e|r k IH|pop n k IH|n tau dd k IH]; intros b H; cbn [bbind] in H.
  - exists a0. split; [constructor|exact H].
  - inversion H.
  - inversion H as [|? ? d ? Hd Hk| |]; subst. destruct (IH d b Hk) as [a [Ha Hb]]. exists a. split; [eapply br_expo; eassumption|exact Hb].
  - inversion H as [| |? ? ? i ? Hl Hk|]; subst. destruct (IH _ b Hk) as [a [Ha Hb]]. exists a. split; [eapply br_sample; eassumption|exact Hb].
  - inversion H as [| | |? ? ? ? i ? Hp Hk]; subst. destruct (IH i b Hk) as [a [Ha Hb]]. exists a. split; [eapply br_binom; eassumption|exact Hb].
Qed.

Lemma breach_blift_ret : forall A (r : result A) a, breach (blift r BRet) a -> r = Ok a.
Proof. intros A [x|e] a H; cbn [blift] in H; inversion H; subst; reflexivity. Qed.

Lemma bgloop_gsteps : forall g tmin tmax prov full n0 fuel s o,
  breach (bgloop g tmin tmax prov full n0 fuel s) o ->
  exists sF, gsteps g tmax (fun u sus a => breach (prov u sus) a) s sF /\ qu sF = [] /\ finish g tmin full n0 sF = Ok o.
Proof.
  intros g tmin tmax prov full n0. induction fuel as [|f IH]; intros s o H; cbn [bgloop] in H; destruct (qu s) as [|e q'] eqn:Eq.
  - apply breach_blift_ret in H. exists s. split; [constructor|]. split; assumption.
  - inversion H.
  - apply breach_blift_ret in H. exists s. split; [constructor|]. split; assumption.
  - destruct (qe e) as [src tgt|u] eqn:Ee.
    + destruct (N.eqb (stat (set_qu s q') tgt) stS) eqn:Es.
      * apply breach_bbind in H. destruct H as [a [Ha H]]. destruct (IH _ _ H) as [sF [A [B C]]].
        exists sF. split; [|split; assumption]. eapply gss_step; [|exact A].
        exact (gs_inf g tmax _ s e q' src tgt a _ Eq Ee Es Ha).
      * destruct (IH _ _ H) as [sF [A [B C]]]. exists sF. split; [|split; assumption]. eapply gss_step; [|exact A].
        exact (gs_skip g tmax _ s e q' src tgt Eq Ee Es).
    + destruct (IH _ _ H) as [sF [A [B C]]]. exists sF. split; [|split; assumption]. eapply gss_step; [|exact A].
      exact (gs_rec g tmax _ s e q' u Eq Ee).
Qed.

(* ---------------- what the providers can answer ---------------- *)
Lemma Qleb_of_le : forall d, 0 <= d -> Qleb 0 d = true.
Proof. intros d H. unfold Qleb. destruct (Qlt_le_dec d 0); [lra|reflexivity]. Qed.

Lemma reach_draw_time : forall A rate (k : xtime -> samp A) a, reach (draw_time rate k) a ->
  exists x, nonnegx x = true /\ reach (k x) a.
Proof.
  intros A rate k a H. unfold draw_time in H. destruct (Qltb 0 rate).
  - apply reach_expo_inv in H. destruct H as [d [Hd Hk]]. exists (Some d). split; [apply Qleb_of_le; exact Hd|exact Hk].
  - exists None. split; [reflexivity|exact H].
Qed.

Lemma reach_draw_delays : forall A rate sus acc (k : list (node * xtime) -> samp A) a,
  reach (draw_delays rate sus acc k) a ->
  exists l, reach (k (rev acc ++ l)) a /\ forall v d, In (v, d) l -> In v sus /\ nonnegx d = true.
Proof.
  intros A rate. induction sus as [|v sus IH]; intros acc k a H; cbn [draw_delays] in H.
  - exists []. rewrite app_nil_r. split; [exact H|intros v d []].
  - apply reach_draw_time in H. destruct H as [x [Hx H]]. destruct (IH _ _ _ H) as [l [Hl Hin]].
    exists ((v, x) :: l). cbn [rev] in Hl. rewrite <- app_assoc in Hl. split; [exact Hl|].
    intros v' d' [E|Hin']; [injection E as <- <-; split; [left; reflexivity|exact Hx]|].
    destruct (Hin v' d' Hin') as [A1 A2]. split; [right; exact A1|exact A2].
Qed.

(* fast_SIR's per-edge path: expovariate draws are never negative *)
Lemma markov_provider_ok : forall g tau gamma u sus a, reach (markov_provider g tau gamma u sus) a -> okans sus a.
Proof.
  intros g tau gamma u sus a H. unfold markov_provider in H. apply reach_draw_time in H. destruct H as [rd [Hrd H]].
  apply reach_draw_delays in H. destruct H as [l [H Hl]]. cbn [rev app] in H. inversion H; subst.
  split; [exact Hl|exact Hrd].
Qed.

(* the user's tables: non-negative tables answer inside okans *)
Lemma det_provider_ok : forall delay dur, (forall u v, nonnegx (delay u v) = true) -> (forall u, nonnegx (dur u) = true) ->
  forall u sus a, reach (det_provider delay dur u sus) a -> okans sus a.
Proof.
  intros delay dur Hd Hr u sus a H. unfold det_provider in H. inversion H; subst. split; [|apply Hr].
  cbn [fst]. intros v d Hin. apply in_map_iff in Hin. destruct Hin as [v' [E Hin]]. injection E as <- <-. split; [exact Hin|apply Hd].
Qed.

(* fast_SIR's binomial path *)
Lemma ninsert_perm : forall x l, Permutation (ninsert x l) (x :: l).
Proof.
  intros x. induction l as [|h t IH]; cbn [ninsert]; [apply Permutation_refl|].
  destruct (N.ltb x h); [apply Permutation_refl|]. eapply Permutation_trans; [apply perm_skip; exact IH|apply perm_swap].
Qed.
Lemma nsort_perm : forall l, Permutation (nsort l) l.
Proof.
  induction l as [|x l IH]; [apply Permutation_refl|]. unfold nsort. cbn [fold_right]. fold (nsort l).
  eapply Permutation_trans; [apply ninsert_perm|apply perm_skip; exact IH].
Qed.

Lemma trunc_exp_nonneg : forall x T y, 0 <= x -> nonnegx T = true -> trunc_exp x T = Ok y -> 0 <= y.
Proof.
  intros x [t|] y Hx HT H; cbn [trunc_exp] in H; [|injection H as <-; exact Hx].
  destruct (Qltb x t); [injection H as <-; exact Hx|]. destruct (Qeqb t 0) eqn:Et; [discriminate H|]. injection H as <-.
  cbn [nonnegx] in HT. unfold Qleb in HT. destruct (Qlt_le_dec t 0); [discriminate HT|].
  assert (Htpos : 0 < t). { apply Qle_lteq in q. destruct q as [q|q]; [exact q|]. exfalso. unfold Qeqb in Et. rewrite (proj2 (Qeq_bool_iff t 0)) in Et; [discriminate Et|symmetry; exact q]. }
  pose proof (Qfloor_le (x / t)) as Hf.
  assert (inject_Z (Qfloor (x / t)) * t <= x).
  { apply Qle_trans with ((x / t) * t); [apply Qmult_le_compat_r; [exact Hf|lra]|].
    assert (E : x / t * t == x) by (field; lra). rewrite E. lra. }
  set (z := inject_Z (Qfloor (x / t)) * t) in *. change (0 <= x - z). lra.
Qed.

Lemma breach_draw_trunc : forall A tau dur rcp acc (k : list (node * xtime) -> bsamp A) a, nonnegx dur = true ->
  breach (draw_trunc tau dur rcp acc k) a ->
  exists l, breach (k (rev acc ++ l)) a /\ forall v d, In (v, d) l -> In v rcp /\ nonnegx d = true.
Proof.
  intros A tau dur. induction rcp as [|v rcp IH]; intros acc k a Hdur H; cbn [draw_trunc] in H.
  - exists []. rewrite app_nil_r. split; [exact H|intros v d []].
  - inversion H as [|? ? x ? Hx Hk| |]; subst. destruct (trunc_exp x dur) as [y|e] eqn:Ey; [|inversion Hk].
    destruct (IH _ _ _ Hdur Hk) as [l [Hl Hin]]. exists ((v, Some y) :: l). cbn [rev] in Hl. rewrite <- app_assoc in Hl. split; [exact Hl|].
    intros v' d' [E|Hin']; [injection E as <- <-; split; [left; reflexivity|]|].
    + cbn [nonnegx]. apply Qleb_of_le. eapply trunc_exp_nonneg; eassumption.
    + destruct (Hin v' d' Hin') as [A1 A2]. split; [right; exact A1|exact A2].
Qed.

Lemma const_provider_ok : forall g tau gamma u sus a, breach (const_provider g tau gamma u sus) a -> okans sus a.
Proof.
  intros g tau gamma u sus a H. unfold const_provider in H.
  assert (Hk : forall dur, nonnegx dur = true ->
            breach (BBinom (length sus) tau dur (fun n => BSample (map knode (nsort sus)) n (fun ks =>
                      draw_trunc tau dur (concat ks) [] (fun td => BRet (td, dur))))) a -> okans sus a).
  { intros dur Hdur Hb. inversion Hb as [| | |? ? ? ? n ? Hp Hs]; subst.
    inversion Hs as [| |? ? ? i ? Hl Ht|]; subst.
    apply breach_draw_trunc in Ht; [|exact Hdur]. destruct Ht as [l [Hr Hl']]. cbn [rev app] in Hr. inversion Hr; subst.
    split; [|exact Hdur]. cbn [fst]. intros v d Hin. destruct (Hl' v d Hin) as [A1 A2]. split; [|exact A2].
    rewrite GillespieP.rotate_map, GillespieP.firstn_map, GillespieP.concat_knode in A1.
    apply (Permutation_in v (nsort_perm sus)). apply (Permutation_in v (GillespieP.rotate_perm _ i (nsort sus))).
    rewrite <- (firstn_skipn n (rotate i (nsort sus))). apply in_or_app. left. exact A1. }
  destruct (Qltb 0 (rec_rate g gamma u)).
  - inversion H as [|? ? d ? Hd Hb| |]; subst. apply (Hk (Some d)); [apply Qleb_of_le; exact Hd|exact Hb].
  - apply (Hk None); [reflexivity|exact H].
Qed.

(* ---------------- the entry points ---------------- *)
Lemma ic_domb_parts : forall nodes i0 r0 tmin tmax, ic_domb nodes i0 r0 tmin tmax = true ->
  NoDup i0 /\ (forall u, In u i0 -> ~ In u r0) /\ xltb (Some tmin) tmax = true.
Proof.
  intros nodes i0 r0 tmin tmax H. unfold ic_domb in H.
  apply andb_true_iff in H; destruct H as [H Hx]. apply andb_true_iff in H; destruct H as [H Hd].
  apply andb_true_iff in H; destruct H as [H Hr0s]. apply andb_true_iff in H; destruct H as [H Hi0s].
  apply andb_true_iff in H; destruct H as [H Hr0n]. apply andb_true_iff in H; destruct H as [Hn Hi0n].
  split; [|split].
  - clear - Hi0n. induction i0 as [|x l IH]; [constructor|]. cbn [nodupb] in Hi0n. apply andb_true_iff in Hi0n. destruct Hi0n as [A B].
    constructor; [apply mem_false_In; apply negb_true_iff; exact A|apply IH; exact B].
  - intros u Hu Hr. rewrite forallb_forall in Hd. specialize (Hd u Hu). apply negb_true_iff in Hd. apply mem_false_In in Hd. contradiction.
  - destruct tmax as [m|]; [|reflexivity]. exact Hx.
Qed.

Definition provider_ok (prov : provider) : Prop := forall u sus a, reach (prov u sus) a -> okans sus a.

Definition opt_list (r0 : option (list node)) : list node := match r0 with Some l => l | None => [] end.

(* fast_nonMarkov_SIR called with initial_infecteds (a node or a collection: the model sees
   the element list) and optionally initial_recovereds: every returning run starts as requested *)
Theorem esir_starts_as_requested : forall g prov i0 r0 tmin tmax full fuel o,
  ic_domb (gnodes g) i0 (opt_list r0) tmin tmax = true -> provider_ok prov ->
  reach (fast_nonmarkov fifo g prov (Some i0) r0 None tmin tmax full fuel) o ->
  ic_sirb (gnodes g) i0 (opt_list r0) tmin (so_rows (fst o)) (option_map fd_hist (so_full (fst o))) = true.
Proof.
  intros g prov i0 r0 tmin tmax full fuel [out cs] Hdom Hprov H.
  destruct (ic_domb_parts _ _ _ _ _ Hdom) as [Hnd [Hdisj Hlt]].
  assert (Hg : reach (gloop fifo g tmin tmax prov full (length i0) fuel (init_state fifo g tmin tmax i0 (opt_list r0))) (out, cs)).
  { unfold fast_nonmarkov in H. destruct r0; exact H. }
  apply gloop_gsteps in Hg. destruct Hg as [sF [A [B C]]].
  exact (run_starts_as_requested g tmin tmax _ Hprov i0 (opt_list r0) Hnd Hdisj Hlt full sF out cs A B C).
Qed.

(* neither initial_infecteds nor initial_recovereds: rho (or nothing) draws
   int(round(N*rho)) (or 1) DISTINCT nodes of the graph, and the run starts from them *)
Theorem esir_rho_starts_as_requested : forall g prov rho tmin tmax full fuel o,
  NoDup (gnodes g) -> xlt tmin tmax = true -> provider_ok prov ->
  reach (fast_nonmarkov fifo g prov None None rho tmin tmax full fuel) o ->
  let n := match rho with None => 1%Z | Some r => round_half_even (Qnat (length (gnodes g)) * r) end in
  (0 <= n)%Z /\ exists i0, NoDup i0 /\ incl i0 (gnodes g) /\ Z.of_nat (length i0) = n /\
    ic_sirb (gnodes g) i0 [] tmin (so_rows (fst o)) (option_map fd_hist (so_full (fst o))) = true.
Proof.
  intros g prov rho tmin tmax full fuel o Hnd Hlt Hprov H. cbv zeta.
  assert (Hgen : forall n : Z,
    reach (if (n <? 0)%Z then Fail ValueErr
           else Sample (map knode (gnodes g)) (Z.to_nat n) (fun ks =>
                  gloop fifo g tmin tmax prov full (length (concat ks)) fuel (init_state fifo g tmin tmax (concat ks) []))) o ->
    (0 <= n)%Z /\ exists i0, NoDup i0 /\ incl i0 (gnodes g) /\ Z.of_nat (length i0) = n /\
      ic_sirb (gnodes g) i0 [] tmin (so_rows (fst o)) (option_map fd_hist (so_full (fst o))) = true).
  { intros n Hn. destruct (n <? 0)%Z eqn:En; [apply reach_fail_inv in Hn; contradiction|]. apply Z.ltb_ge in En. split; [exact En|].
    apply reach_sample_inv in Hn. destruct Hn as [Hl [i Hk]]. rewrite map_length in Hl.
    pose proof (GillespieP.sample_wf g Hnd (Z.to_nat n) i Hl) as Hs. cbv zeta in Hs. destruct Hs as [A [B C]].
    exists (concat (firstn (Z.to_nat n) (rotate i (map knode (gnodes g))))).
    split; [exact A|]. split; [exact B|]. split; [transitivity (Z.of_nat (Z.to_nat n)); [f_equal; exact C|apply Z2Nat.id; exact En]|].
    destruct o as [out cs]. apply gloop_gsteps in Hk. destruct Hk as [sF [S1 [S2 S3]]].
    refine (run_starts_as_requested g tmin tmax _ Hprov _ [] A (fun u _ Hf => Hf) _ full sF out cs S1 S2 S3).
    destruct tmax as [m|]; [exact Hlt|reflexivity]. }
  unfold fast_nonmarkov in H. destruct rho as [r|]; apply Hgen; exact H.
Qed.

(* rho together with initial_infecteds, or together with initial_recovereds: EoNError,
   whatever the values (also an empty list, node 0, rho = 0), before any draw *)
Theorem esir_rho_conflicts_rejected : forall tb g prov i0 r0 rho tmin tmax full fuel,
  (i0 <> None \/ r0 <> None) ->
  fast_nonmarkov tb g prov i0 r0 (Some rho) tmin tmax full fuel = Fail EoNError.
Proof.
  intros tb g prov i0 r0 rho tmin tmax full fuel H. unfold fast_nonmarkov.
  destruct i0 as [l|]; [reflexivity|]. destruct r0 as [l|]; [reflexivity|]. destruct H as [H|H]; contradiction H; reflexivity.
Qed.

(* fast_SIR, constant-tau path *)
Theorem fast_sir_const_starts_as_requested : forall g tau gamma i0 r0 tmin tmax full fuel ds o tr,
  ic_domb (gnodes g) i0 (opt_list r0) tmin tmax = true ->
  bexec (fast_sir_const g tau gamma (Some i0) r0 None tmin tmax full fuel) ds [] = (Ok o, tr) ->
  ic_sirb (gnodes g) i0 (opt_list r0) tmin (so_rows (fst o)) (option_map fd_hist (so_full (fst o))) = true.
Proof.
  intros g tau gamma i0 r0 tmin tmax full fuel ds [out cs] tr Hdom H. apply bexec_breach in H.
  destruct (ic_domb_parts _ _ _ _ _ Hdom) as [Hnd [Hdisj Hlt]].
  assert (Hg : breach (bgloop g tmin tmax (const_provider g tau gamma) full (length i0) fuel (init_state fifo g tmin tmax i0 (opt_list r0))) (out, cs)).
  { unfold fast_sir_const in H. destruct r0; exact H. }
  apply bgloop_gsteps in Hg. destruct Hg as [sF [A [B C]]].
  exact (run_starts_as_requested g tmin tmax _ (const_provider_ok g tau gamma) i0 (opt_list r0) Hnd Hdisj Hlt full sF out cs A B C).
Qed.

Theorem fast_sir_const_rho_conflicts_rejected : forall g tau gamma i0 r0 rho tmin tmax full fuel,
  (i0 <> None \/ r0 <> None) ->
  fast_sir_const g tau gamma i0 r0 (Some rho) tmin tmax full fuel = BFail EoNError.
Proof.
  intros g tau gamma i0 r0 rho tmin tmax full fuel H. unfold fast_sir_const.
  destruct i0 as [l|]; [reflexivity|]. destruct r0 as [l|]; [reflexivity|]. destruct H as [H|H]; contradiction H; reflexivity.
Qed.

(* what the checker's acceptance means *)
Theorem ic_sirb_sound : forall nodes i0 r0 tmin rows hist, ic_sirb nodes i0 r0 tmin rows hist = true ->
  (exists t rest, rows = (t, [Z.of_nat (length nodes) - Z.of_nat (length i0) - Z.of_nat (length r0);
                              Z.of_nat (length i0); Z.of_nat (length r0)]%Z) :: rest /\ t == tmin) /\
  (forall hs, hist = Some hs -> forall u, In u nodes -> exists h, hlook u hs = Some h /\
     (In u r0 -> exists t, h = [(t, stR)] /\ t == tmin) /\
     (~ In u r0 -> In u i0 -> exists t s rest, h = (t, s) :: rest /\ t == tmin /\ (s = stI \/ (s = stR /\ rest = []))) /\
     (~ In u r0 -> ~ In u i0 -> exists t s rest, h = (t, s) :: rest /\ t == tmin)).
Proof.
  intros nodes i0 r0 tmin rows hist H. unfold ic_sirb in H. apply andb_true_iff in H. destruct H as [H1 H2]. split.
  - destruct rows as [|[t c] rest]; [discriminate H1|]. apply andb_true_iff in H1. destruct H1 as [Ht Hc].
    apply zlist_eqb_eq in Hc. subst c. exists t, rest. split; [reflexivity|apply Qeq_bool_iff; exact Ht].
  - intros hs E u Hu. subst hist. rewrite forallb_forall in H2. specialize (H2 u Hu).
    destruct (hlook u hs) as [h|]; [|discriminate H2]. exists h. split; [reflexivity|]. unfold hist_sir_okb in H2.
    destruct (mem u r0) eqn:Er.
    + apply mem_true_In in Er. split; [|split; intro; contradiction]. intros _.
      destruct h as [|[t s] [|? ?]]; try discriminate H2. apply andb_true_iff in H2. destruct H2 as [A B].
      apply N.eqb_eq in B. subst s. exists t. split; [reflexivity|apply Qeq_bool_iff; exact A].
    + apply mem_false_In in Er. split; [intro; contradiction|]. destruct (mem u i0) eqn:Ei.
      * apply mem_true_In in Ei. split; [|intros _ Hn; contradiction]. intros _ _.
        destruct h as [|[t s] rest]; [discriminate H2|]. apply andb_true_iff in H2. destruct H2 as [A B].
        exists t, s, rest. split; [reflexivity|]. split; [apply Qeq_bool_iff; exact A|].
        apply orb_true_iff in B. destruct B as [B|B]; [left; apply N.eqb_eq; exact B|].
        apply andb_true_iff in B. destruct B as [B1 B2]. right. split; [apply N.eqb_eq; exact B1|destruct rest; [reflexivity|discriminate B2]].
      * apply mem_false_In in Ei. split; [intros _ Hi; contradiction|]. intros _ _.
        destruct h as [|[t s] rest]; [discriminate H2|]. apply andb_true_iff in H2. destruct H2 as [A _].
        exists t, s, rest. split; [reflexivity|apply Qeq_bool_iff; exact A].
Qed.

(* ---------------- the default start node with initial_recovereds given ---------------- *)
(* (repaired code, /repo 0a3e1b4) initial_infecteds None, rho None, initial_recovereds given:
   ONE node is drawn from [node for node in G if node not in initial_recovereds] *)
Lemma sample_pop_spec : forall g r0 u, In u (sample_pop g (Some r0)) <-> In u (gnodes g) /\ ~ In u r0.
Proof.
  intros g r0 u. unfold sample_pop. rewrite filter_In. split; intros [A B]; (split; [exact A|]).
  - apply mem_false_In. apply negb_true_iff. exact B.
  - apply negb_true_iff. apply mem_false_In. exact B.
Qed.

Lemma first_of_rotation : forall pop i, (1 <= length pop)%nat ->
  exists u, concat (firstn 1 (rotate i (map knode pop))) = [u] /\ In u pop.
Proof.
  intros pop i Hl. rewrite GillespieP.rotate_map, GillespieP.firstn_map, GillespieP.concat_knode.
  pose proof (GillespieP.rotate_perm _ i pop) as Hp.
  destruct (rotate i pop) as [|u t] eqn:E.
  - apply Permutation_length in Hp. cbn [length] in Hp. lia.
  - exists u. split; [reflexivity|]. apply (Permutation_in u Hp). left. reflexivity.
Qed.

Theorem esir_default_start_with_recovereds : forall g prov r0 tmin tmax full fuel o,
  xlt tmin tmax = true -> provider_ok prov ->
  reach (fast_nonmarkov fifo g prov None (Some r0) None tmin tmax full fuel) o ->
  exists u, In u (gnodes g) /\ ~ In u r0 /\
    ic_sirb (gnodes g) [u] r0 tmin (so_rows (fst o)) (option_map fd_hist (so_full (fst o))) = true.
Proof.
  intros g prov r0 tmin tmax full fuel [out cs] Hlt Hprov H. unfold fast_nonmarkov in H. cbn [Z.ltb Z.compare] in H.
  apply reach_sample_inv in H. destruct H as [Hl [i Hk]]. rewrite map_length in Hl. change (Z.to_nat 1) with 1%nat in Hl, Hk.
  destruct (first_of_rotation (sample_pop g (Some r0)) i Hl) as [u [Eu Hu]]. rewrite Eu in Hk.
  apply sample_pop_spec in Hu. destruct Hu as [Hg Hr]. exists u. split; [exact Hg|]. split; [exact Hr|].
  apply gloop_gsteps in Hk. destruct Hk as [sF [S1 [S2 S3]]].
  refine (run_starts_as_requested g tmin tmax _ Hprov [u] r0 _ _ _ full sF out cs S1 S2 S3).
  - constructor; [intros []|constructor].
  - intros v [<-|[]]. exact Hr.
  - destruct tmax as [m|]; [exact Hlt|reflexivity].
Qed.

Lemma sample_pop_all_recovered : forall g r0, (forall u, In u (gnodes g) -> In u r0) -> sample_pop g (Some r0) = [].
Proof.
  intros g r0 H. unfold sample_pop. induction (gnodes g) as [|x l IH]; [reflexivity|]. cbn [filter].
  rewrite (proj2 (mem_true_In x r0) (H x (or_introl eq_refl))). cbn [negb]. apply IH. intros u Hu. apply H. right. exact Hu.
Qed.

(* every node initially recovered: random.sample([], 1) raises ValueError; nothing is drawn *)
Theorem esir_default_start_all_recovered : forall tb g prov r0 tmin tmax full fuel ds,
  (forall u, In u (gnodes g) -> In u r0) ->
  exec (fast_nonmarkov tb g prov None (Some r0) None tmin tmax full fuel) ds [] = (Err ValueErr, [CSample [] 1]).
Proof.
  intros tb g prov r0 tmin tmax full fuel ds H. unfold fast_nonmarkov. cbn [Z.ltb Z.compare].
  rewrite (sample_pop_all_recovered g r0 H). reflexivity.
Qed.

Lemma breach_sample_inv : forall A pop n (k : list key -> bsamp A) a, breach (BSample pop n k) a ->
  (n <= length pop)%nat /\ exists i, breach (k (firstn n (rotate i pop))) a.
Proof. intros A pop n k a H. inversion H as [| |? ? ? i ? Hl Hk|]; subst. split; [exact Hl|exists i; exact Hk]. Qed.

(* the same on fast_SIR's constant-tau path *)
Theorem fast_sir_const_default_start_with_recovereds : forall g tau gamma r0 tmin tmax full fuel ds o tr,
  xlt tmin tmax = true ->
  bexec (fast_sir_const g tau gamma None (Some r0) None tmin tmax full fuel) ds [] = (Ok o, tr) ->
  exists u, In u (gnodes g) /\ ~ In u r0 /\
    ic_sirb (gnodes g) [u] r0 tmin (so_rows (fst o)) (option_map fd_hist (so_full (fst o))) = true.
Proof.
  intros g tau gamma r0 tmin tmax full fuel ds [out cs] tr Hlt H. apply bexec_breach in H.
  unfold fast_sir_const in H. cbn [Z.ltb Z.compare] in H.
  apply breach_sample_inv in H. destruct H as [Hl [i Hk]]. rewrite map_length in Hl. change (Z.to_nat 1) with 1%nat in Hl, Hk.
  destruct (first_of_rotation (sample_pop g (Some r0)) i Hl) as [u [Eu Hu]]. rewrite Eu in Hk.
  apply sample_pop_spec in Hu. destruct Hu as [Hg Hr]. exists u. split; [exact Hg|]. split; [exact Hr|].
  apply bgloop_gsteps in Hk. destruct Hk as [sF [S1 [S2 S3]]].
  refine (run_starts_as_requested g tmin tmax _ (const_provider_ok g tau gamma) [u] r0 _ _ _ full sF out cs S1 S2 S3).
  - constructor; [intros []|constructor].
  - intros v [<-|[]]. exact Hr.
  - destruct tmax as [m|]; [exact Hlt|reflexivity].
Qed.

Theorem fast_sir_const_default_start_all_recovered : forall g tau gamma r0 tmin tmax full fuel ds,
  (forall u, In u (gnodes g) -> In u r0) ->
  bexec (fast_sir_const g tau gamma None (Some r0) None tmin tmax full fuel) ds [] = (Err ValueErr, [BCSample [] 1]).
Proof.
  intros g tau gamma r0 tmin tmax full fuel ds H. unfold fast_sir_const. cbn [Z.ltb Z.compare].
  rewrite (sample_pop_all_recovered g r0 H). reflexivity.
Qed.
