(* C08, tree clause: trees as an INDUCTIVE family of `graph`s (Base/Graph.v): a single node, or a tree with a new pendant
   node v attached to one of its nodes u (appended to list(G.nodes()), adjacency lists updated as networkx does).  Weights
   are irrelevant here (tr, rc of the statements are arbitrary functions): the generated graphs carry unit weights.
     gtree_simple   every generated graph is a simple graph (wf_graphb);
     gtree_order    it has a tree peeling order of its positions (the new node first);
   hence tree_okb accepts it and the clause holds on it (gtree_exact). *)
From EoNV Require Import Prelude Vec VecP Graph Rhs2D Rhs2DP Rhs2 Rhs2GenP Master C08tG C08tS C08tT C08tR C08tA C08tO C08tC C08tF
  C08tTreeA C08tTreeB C08tTreeC C08tTreeD C08tTreeE.
From Coq Require Import Lia List Arith Bool.
Import ListNotations.
Local Open Scope nat_scope.

Definition single (v : node) : graph :=
  mkGraph [v] (fun _ => []) (fun _ => []) false (fun _ _ => 1%Q) (fun _ => 1%Q) false false.
Definition attach_adj (G : graph) (u v : node) (x : node) : list node :=
  if N.eqb x v then [u] else if N.eqb x u then gadj G x ++ [v] else gadj G x.
Definition attach (G : graph) (u v : node) : graph :=
  mkGraph (gnodes G ++ [v]) (attach_adj G u v) (attach_adj G u v) false (fun _ _ => 1%Q) (fun _ => 1%Q) false false.
Inductive gtree : graph -> Prop :=
| gt_single v : gtree (single v)
| gt_attach G u v : gtree G -> In u (gnodes G) -> ~ In v (gnodes G) -> gtree (attach G u v).

(* adjacency sanity, as propositions *)
Record adj_ok (G : graph) : Prop := mkAdjOk {
  ao_nodes : NoDup (gnodes G);
  ao_nodup : forall x, In x (gnodes G) -> NoDup (gadj G x);
  ao_sub : forall x y, In x (gnodes G) -> In y (gadj G x) -> In y (gnodes G);
  ao_irr : forall x, In x (gnodes G) -> ~ In x (gadj G x);
  ao_sym : forall x y, In x (gnodes G) -> In y (gadj G x) -> In x (gadj G y) }.
Definition unit_graph (G : graph) : Prop :=
  gdirected G = false /\ gpred G = gadj G /\ ew G = (fun _ _ => 1%Q).

Lemma mem_false x l : mem x l = false <-> ~ In x l.
Proof.
  split; [intros H K; apply mem_In in K; rewrite K in H; discriminate H|].
  intros H. destruct (mem x l) eqn:E; [exfalso; apply H; apply mem_In; exact E|reflexivity].
Qed.
Lemma nodupb_of_NoDup l : NoDup l -> nodupb l = true.
Proof.
  induction 1 as [|x l Hx _ IH]; [reflexivity|]. cbn [nodupb]. rewrite IH, andb_true_r. apply negb_true_iff. apply mem_false. exact Hx.
Qed.
Lemma subsetb_of_incl a b : (forall x, In x a -> In x b) -> subsetb a b = true.
Proof. intros H. apply forallb_forall. intros x Hx. apply mem_In. apply H. exact Hx. Qed.

Lemma NoDup_snoc {A} (l : list A) v : NoDup l -> ~ In v l -> NoDup (l ++ [v]).
Proof.
  induction 1 as [|x l Hx ND IH]; intros Hv; [constructor; [intros []|constructor]|]. cbn [app]. constructor.
  - intros K. apply in_app_or in K. destruct K as [K|[K|[]]]; [apply Hx; exact K|apply Hv; left; symmetry; exact K].
  - apply IH. intros K. apply Hv. right. exact K.
Qed.

Lemma adj_ok_wf G : unit_graph G -> adj_ok G -> wf_graphb G = true.
Proof.
  intros [D [P E]] A. unfold wf_graphb. rewrite D, P, E. cbn [orb]. apply andb_true_intro. split; [apply andb_true_intro; split|].
  - apply nodupb_of_NoDup. apply (ao_nodes G A).
  - apply forallb_forall. intros u Hu.
    assert (S1 : forallb (fun v => mem u (gadj G v)) (gadj G u) = true).
    { apply forallb_forall. intros v Hv. apply mem_In. apply (ao_sym G A u v Hu Hv). }
    rewrite (nodupb_of_NoDup _ (ao_nodup G A u Hu)), (subsetb_of_incl _ _ (fun y => ao_sub G A u y Hu)), S1.
    rewrite (proj2 (mem_false _ _) (ao_irr G A u Hu)). reflexivity.
  - apply forallb_forall. intros u Hu. apply forallb_forall. intros v Hv.
    rewrite (proj2 (mem_In _ _) (ao_sym G A u v Hu Hv)). reflexivity.
Qed.

Lemma single_ok v : unit_graph (single v) /\ adj_ok (single v).
Proof.
  split; [repeat split|]. constructor; cbn [single gnodes gadj].
  - constructor; [intros []|constructor].
  - intros x _. constructor.
  - intros x y _ [].
  - intros x _ [].
  - intros x y _ [].
Qed.

Section Attach.
Variables (G : graph) (u v : node).
Hypothesis A : adj_ok G.
Hypothesis Hu : In u (gnodes G).
Hypothesis Hv : ~ In v (gnodes G).
Notation G' := (attach G u v).

Lemma uv_neq : u <> v.
Proof. intros E. apply Hv. rewrite <- E. exact Hu. Qed.
Lemma adj_v : gadj G' v = [u].
Proof. cbn [attach gadj]. unfold attach_adj. rewrite N.eqb_refl. reflexivity. Qed.
Lemma adj_u : gadj G' u = gadj G u ++ [v].
Proof.
  cbn [attach gadj]. unfold attach_adj. rewrite (proj2 (N.eqb_neq u v) uv_neq), N.eqb_refl. reflexivity.
Qed.
Lemma adj_other x : x <> v -> x <> u -> gadj G' x = gadj G x.
Proof.
  intros Nv Nu. cbn [attach gadj]. unfold attach_adj. rewrite (proj2 (N.eqb_neq x v) Nv), (proj2 (N.eqb_neq x u) Nu). reflexivity.
Qed.
Lemma old_neq_v x : In x (gnodes G) -> x <> v.
Proof. intros Hx E. apply Hv. rewrite <- E. exact Hx. Qed.
Lemma nodes_cases x : In x (gnodes G') -> x = v \/ (x <> v /\ In x (gnodes G)).
Proof.
  cbn [attach gnodes]. intros H. apply in_app_or in H. destruct H as [H|[H|[]]]; [right; split; [apply old_neq_v; exact H|exact H]|left; symmetry; exact H].
Qed.
Lemma v_notin_adj x : In x (gnodes G) -> ~ In v (gadj G x).
Proof. intros Hx K. apply Hv. apply (ao_sub G A x v Hx K). Qed.

Lemma attach_ok : unit_graph G' /\ adj_ok G'.
Proof.
  split; [repeat split|]. constructor.
  - cbn [attach gnodes]. apply NoDup_snoc; [apply (ao_nodes G A)|exact Hv].
  - intros x Hx. destruct (nodes_cases x Hx) as [->|[Nv Ix]]; [rewrite adj_v; constructor; [intros []|constructor]|].
    destruct (N.eq_dec x u) as [->|Nu]; [|rewrite adj_other by assumption; apply (ao_nodup G A x Ix)].
    rewrite adj_u. apply NoDup_snoc; [apply (ao_nodup G A u Hu)|apply v_notin_adj; exact Hu].
  - intros x y Hx Hy. cbn [attach gnodes]. apply in_or_app.
    destruct (nodes_cases x Hx) as [->|[Nv Ix]]; [rewrite adj_v in Hy; destruct Hy as [<-|[]]; left; exact Hu|].
    destruct (N.eq_dec x u) as [->|Nu].
    + rewrite adj_u in Hy. apply in_app_or in Hy. destruct Hy as [Hy|[<-|[]]]; [left; apply (ao_sub G A u y Hu Hy)|right; left; reflexivity].
    + rewrite adj_other in Hy by assumption. left. apply (ao_sub G A x y Ix Hy).
  - intros x Hx. destruct (nodes_cases x Hx) as [->|[Nv Ix]]; [rewrite adj_v; intros [E|[]]; apply uv_neq; exact E|].
    destruct (N.eq_dec x u) as [->|Nu].
    + rewrite adj_u. intros K. apply in_app_or in K. destruct K as [K|[K|[]]]; [apply (ao_irr G A u Hu K)|apply uv_neq; symmetry; exact K].
    + rewrite adj_other by assumption. apply (ao_irr G A x Ix).
  - intros x y Hx Hy. destruct (nodes_cases x Hx) as [->|[Nv Ix]].
    + rewrite adj_v in Hy. destruct Hy as [<-|[]]. rewrite adj_u. apply in_or_app. right. left. reflexivity.
    + destruct (N.eq_dec x u) as [->|Nu].
      * rewrite adj_u in Hy. apply in_app_or in Hy. destruct Hy as [Hy|[<-|[]]]; [|rewrite adj_v; left; reflexivity].
        assert (Iy := ao_sub G A u y Hu Hy). assert (Nyu : y <> u) by (intros ->; apply (ao_irr G A u Hu Hy)).
        rewrite adj_other by (try apply old_neq_v; assumption). apply (ao_sym G A u y Hu Hy).
      * rewrite adj_other in Hy by assumption. assert (Iy := ao_sub G A x y Ix Hy). assert (S1 := ao_sym G A x y Ix Hy).
        destruct (N.eq_dec y u) as [->|Nyu]; [rewrite adj_u; apply in_or_app; left; exact S1|].
        rewrite adj_other by (try apply old_neq_v; assumption). exact S1.
Qed.
End Attach.

Lemma tree_peelb_ext (adj adj' : nat -> nat -> bool) ord :
  (forall a b, In a ord -> In b ord -> adj a b = adj' a b) -> tree_peelb adj ord = tree_peelb adj' ord.
Proof.
  induction ord as [|x rest IH]; intros H; [reflexivity|]. cbn [tree_peelb].
  rewrite IH by (intros a b Ha Hb; apply H; right; assumption).
  assert (E : deg_in adj x rest = deg_in adj' x rest).
  { unfold deg_in. f_equal. apply filter_ext_in. intros b Hb. apply H; [left; reflexivity|right; exact Hb]. }
  rewrite E. reflexivity.
Qed.
Lemma filter_unique {A} (f : A -> bool) l a : NoDup l -> In a l -> f a = true ->
  (forall x, In x l -> f x = true -> x = a) -> length (filter f l) = 1.
Proof.
  intros ND Ia Fa U. assert (NF : NoDup (filter f l)) by (apply NoDup_filter; exact ND).
  assert (Ia' : In a (filter f l)) by (apply filter_In; split; assumption).
  assert (U' : forall x, In x (filter f l) -> x = a) by (intros x Hx; apply filter_In in Hx; apply U; apply Hx).
  destruct (filter f l) as [|x [|y t]]; [destruct Ia'|reflexivity|]. exfalso.
  assert (x = a) by (apply U'; left; reflexivity). assert (y = a) by (apply U'; right; left; reflexivity). subst x y.
  inversion NF as [|? ? K _]. apply K. left. reflexivity.
Qed.

Section AttachOrder.
Variables (G : graph) (u v : node).
Hypothesis A : adj_ok G.
Hypothesis Hu : In u (gnodes G).
Hypothesis Hv : ~ In v (gnodes G).
Notation G' := (attach G u v).
Notation nl := (gnodes G).
Notation nl' := (gnodes G ++ [v]).
Notation n_ := (length (gnodes G)).

Lemma nd_old i : i < n_ -> node_at nl' i = node_at nl i.
Proof. intros Hi. unfold node_at. apply app_nth1. exact Hi. Qed.
Lemma nd_new : node_at nl' n_ = v.
Proof. unfold node_at. rewrite app_nth2 by lia. rewrite Nat.sub_diag. reflexivity. Qed.
Lemma nd_in i : i < n_ -> In (node_at nl i) nl.
Proof. intros Hi. apply nth_In. exact Hi. Qed.
Lemma mem_snoc_other y l : y <> v -> mem y (l ++ [v]) = mem y l.
Proof.
  intros Ny. unfold mem. rewrite existsb_app. cbn [existsb]. rewrite (proj2 (N.eqb_neq y v) Ny). cbn [orb]. apply orb_false_r.
Qed.

Lemma edge_old i j : i < n_ -> j < n_ -> is_edge G' nl' i j = is_edge G nl i j.
Proof.
  intros Hi Hj. unfold is_edge. rewrite !nd_old by assumption.
  assert (Ix := nd_in i Hi). assert (Iy := nd_in j Hj). assert (Nx := old_neq_v G v Hv _ Ix). assert (Ny := old_neq_v G v Hv _ Iy).
  destruct (N.eq_dec (node_at nl i) u) as [E|Nu].
  - rewrite E. rewrite (adj_u G u v Hu Hv). apply mem_snoc_other. exact Ny.
  - rewrite (adj_other G u v _ Nx Nu). reflexivity.
Qed.
Lemma edge_new_out j : j < n_ -> is_edge G' nl' n_ j = N.eqb (node_at nl j) u.
Proof.
  intros Hj. unfold is_edge. rewrite nd_new, nd_old by assumption. rewrite (adj_v G u v). cbn [mem existsb]. apply orb_false_r.
Qed.
Lemma edge_new_in j : j < n_ -> is_edge G' nl' j n_ = N.eqb (node_at nl j) u.
Proof.
  intros Hj. unfold is_edge. rewrite nd_new, nd_old by assumption. assert (Ix := nd_in j Hj). assert (Nx := old_neq_v G v Hv _ Ix).
  destruct (N.eqb_spec (node_at nl j) u) as [E|Nu].
  - rewrite E, (adj_u G u v Hu Hv). apply mem_In. apply in_or_app. right. left. reflexivity.
  - rewrite (adj_other G u v _ Nx Nu). apply mem_false. apply (v_notin_adj G v A Hv _ Ix).
Qed.

Theorem attach_order ord : tree_orderb G nl ord = true -> tree_orderb G' (gnodes G') (n_ :: ord) = true.
Proof.
  intros TO. assert (FO := tree_forest_order G nl ord TO). destruct (ord_parts G nl ord FO) as [L [B FP]].
  assert (All := ord_all G nl ord FO). unfold nN in L, B, All.
  unfold tree_orderb in TO. apply andb_prop in TO. destruct TO as [_ TP].
  assert (NDo : NoDup ord) by (apply (forest_peel_nodup (adjb G nl)); exact FP).
  cbn [attach gnodes]. unfold tree_orderb, perm_orderb, nN. rewrite app_length. cbn [length forallb].
  replace (Nat.eqb (S (length ord)) (n_ + 1)) with true by (symmetry; apply Nat.eqb_eq; lia).
  replace (Nat.ltb n_ (n_ + 1)) with true by (symmetry; apply Nat.ltb_lt; lia). cbn [andb].
  apply andb_true_intro. split.
  - apply forallb_forall. intros k Hk. apply Nat.ltb_lt. specialize (B k Hk). lia.
  - cbn [tree_peelb].
    assert (Nn : ~ In n_ ord) by (intros K; specialize (B _ K); lia).
    rewrite (proj2 (memn'_false _ _) Nn). cbn [negb andb].
    rewrite (tree_peelb_ext (adjb G' nl') (adjb G nl) ord).
    2:{ intros a b Ha Hb. unfold adjb. rewrite !edge_old by (apply B; assumption). reflexivity. }
    rewrite TP, andb_true_r. destruct ord as [|o ord'] eqn:Eo; [reflexivity|]. rewrite <- Eo in *. apply Nat.eqb_eq.
    destruct (pos_in_In nl u 0%N Hu) as [Pu Eu]. unfold deg_in.
    rewrite (filter_ext_in (adjb G' nl' n_) (fun j => N.eqb (node_at nl j) u)).
    2:{ intros j Hj. unfold adjb. rewrite edge_new_out, edge_new_in by (apply B; exact Hj). apply orb_diag. }
    apply (filter_unique _ ord (pos_in nl u) NDo).
    + apply All. exact Pu.
    + apply N.eqb_eq. exact Eu.
    + intros x Hx Fx. apply N.eqb_eq in Fx. unfold node_at in Fx. rewrite <- Fx. symmetry. apply pos_in_nth; [apply (ao_nodes G A)|apply B; exact Hx].
Qed.
End AttachOrder.

Theorem gtree_ok G : gtree G -> (unit_graph G /\ adj_ok G) /\ exists ord, tree_orderb G (gnodes G) ord = true.
Proof.
  induction 1 as [v|G u v _ [[UG AO] [ord TO]] Hu Hv].
  - split; [apply single_ok|]. exists [0]. vm_compute. reflexivity.
  - split; [apply attach_ok; assumption|]. exists (length (gnodes G) :: ord). apply attach_order; assumption.
Qed.
Theorem gtree_simple G : gtree G -> wf_graphb G = true.
Proof. intros T. destruct (gtree_ok G T) as [[UG AO] _]. apply adj_ok_wf; assumption. Qed.
Theorem gtree_order G : gtree G -> exists ord, tree_orderb G (gnodes G) ord = true.
Proof. intros T. apply (gtree_ok G T). Qed.
Theorem gtree_exact G tr rc : gtree G ->
  let nodelist := gnodes G in let idx := pos_in (gnodes G) in
  tree_okb G nodelist idx = true /\
  forall p t, nonneg nodelist p -> inMs nodelist (branch_cuts G nodelist) p ->
  veq (g_dSIR_pair_based (marginals G nodelist p) t G nodelist idx tr rc)
      (marginals G nodelist (master_rhs G nodelist idx tr rc p)).
Proof.
  intros T. cbv zeta. assert (W := gtree_simple G T). destruct (gtree_order G T) as [ord TO].
  assert (K := tree_accepted_simple_graph G ord W TO). split; [exact K|]. intros p t. apply tree_exact_on_M. exact K.
Qed.

(* instances: the path 0 - 1 - 2 - 3 grown from node 0, a star, a caterpillar *)
Definition ex_gpath4 : graph := attach (attach (attach (single 0%N) 0%N 1%N) 1%N 2%N) 2%N 3%N.
Definition ex_gcater : graph :=
  attach (attach (attach (attach (attach (single 0%N) 0%N 1%N) 1%N 2%N) 0%N 3%N) 1%N 4%N) 2%N 5%N.
Lemma ex_gtrees : gtree ex_gpath4 /\ gtree ex_gcater /\
  gadj ex_gcater 1%N = [0; 2; 4]%N /\ gnodes ex_gcater = [0; 1; 2; 3; 4; 5]%N.
Proof.
  split; [|split; [|split; reflexivity]]; unfold ex_gpath4, ex_gcater;
    repeat (apply gt_attach; [|cbn; intuition|cbn; intuition discriminate]); apply gt_single.
Qed.
