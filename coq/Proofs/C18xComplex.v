(* C18, Gillespie_complex_contagion: return_full_data only appends to node_history and
   decides what is built after the loop.  Both modes make the same calls to the random
   source AND to the user's three functions (same order, same status snapshots) on every
   script, and return the same arrays; the full-data mode can in addition fail in
   Simulation_Investigation's constructor (KeyErr / IndexErr). *)
From EoNV Require Import Prelude Samp Graph ListDict Gillespie Complex FlagIndep C18xSim.

Definition csame (s1 s2 : cst) : Prop :=
  cstat s1 = cstat s2 /\ cnbr s1 = cnbr s2 /\ crows s1 = crows s2 /\ ccalls s1 = ccalls s2.

(* r1 = result with full data, r2 = result in plain mode; the second component is the
   log of the calls made to rate_function / transition_choice / get_influence_set *)
Definition cflag_rel (r1 r2 : result cout) : Prop :=
  match r2 with
  | Ok (o2, c2) =>
      so_full o2 = None /\
      (r1 = Err KeyErr \/ r1 = Err IndexErr \/
       exists o1, r1 = Ok (o1, c2) /\ so_rows o1 = so_rows o2 /\ so_full o1 <> None)
  | Err e => r1 = Err e
  end.

Lemma cflag_rel_err : err_refl cflag_rel.
Proof. intro e. reflexivity. Qed.

Section Flag.
Variable g : graph.
Variable rate : smap -> node -> Q.
Variable choice : smap -> node -> N.
Variable infl : smap -> node -> list node.
Variable rstats : list N.
Variable tmin : Q.
Variable tmax : xtime.

Lemma apply_event_flag : forall f1 f2 t u s1 s2, csame s1 s2 ->
  rel_result csame (apply_event g rate choice infl rstats f1 t u s1) (apply_event g rate choice infl rstats f2 t u s2).
Proof.
  intros f1 f2 t u s1 s2 [H1 [H2 [H3 H4]]]. unfold apply_event. rewrite H1, H2, H3, H4.
  destruct (refresh g rate _ _ u) as [lc1|e]; cbn [rbind]; [|reflexivity].
  destruct (fold_left _ _ _) as [lc2|e]; cbn [rbind rel_result]; [|reflexivity].
  repeat split.
Qed.

Lemma cfinish_flag : forall st0 s1 s2, csame s1 s2 ->
  exists r1 r2, leaf (cfinish g rstats tmin true st0 s1) = Some r1 /\
                leaf (cfinish g rstats tmin false st0 s2) = Some r2 /\ cflag_rel r1 r2.
Proof.
  intros st0 s1 s2 [H1 [H2 [H3 H4]]]. unfold cfinish.
  destruct (full_check g rstats st0 _) as [u|e] eqn:Hc.
  - eexists. eexists. split; [reflexivity|]. split; [reflexivity|].
    cbn [cflag_rel so_full so_rows]. split; [reflexivity|]. right. right. eexists. rewrite H3, H4.
    split; [reflexivity|]. cbn [so_rows so_full]. split; [reflexivity|discriminate].
  - eexists. eexists. split; [reflexivity|]. split; [reflexivity|].
    cbn [cflag_rel so_full]. split; [reflexivity|].
    unfold full_check in Hc. destruct (existsb _ _); [injection Hc as <-; left; reflexivity|].
    destruct (filter _ _); [injection Hc as <-; right; left; reflexivity|discriminate Hc].
Qed.

Lemma cloop_flag : forall st0 fuel t s1 s2, csame s1 s2 ->
  simrelx cflag_rel (cloop g rate choice infl rstats tmin tmax true st0 fuel t s1)
                    (cloop g rate choice infl rstats tmin tmax false st0 fuel t s2).
Proof.
  intro st0.
  assert (HF : forall s1 s2, csame s1 s2 ->
            simrelx cflag_rel (cfinish g rstats tmin true st0 s1) (cfinish g rstats tmin false st0 s2)).
  { intros s1 s2 Hs. destruct (cfinish_flag st0 s1 s2 Hs) as [r1 [r2 [Ha [Hb Hr]]]]. eapply sx_leaf; eassumption. }
  induction fuel as [|f IH]; intros t s1 s2 Hs; pose proof Hs as [H1 [H2 [H3 H4]]]; cbn [cloop]; rewrite H2;
    (destruct (Qltb 0 _); [|apply HF; exact Hs]); constructor; intro d;
    (destruct (xlt (t + d) tmax); [|apply HF; exact Hs]).
  - eapply sx_leaf; reflexivity.
  - unfold event, jump. rewrite H1, H2.
    apply simrelx_bind_same; [exact cflag_rel_err|]. intro un.
    pose proof (apply_event_flag true false (t + d) (fst un) s1 s2 Hs) as Ha.
    destruct (apply_event g rate choice infl rstats true (t + d) (fst un) s1) as [a|e1];
      destruct (apply_event g rate choice infl rstats false (t + d) (fst un) s2) as [b|e2];
      cbn [rel_result] in Ha; try contradiction; cbn [liftc].
    + apply IH. exact Ha.
    + subst e2. eapply sx_leaf; reflexivity.
Qed.

End Flag.

(* Gillespie_complex_contagion: identical draws, identical calls of the user's functions and
   identical arrays with and without return_full_data, for every graph, user functions,
   IC (also one that misses a node: KeyErr in both modes), return_statuses, script *)
Theorem complex_flag_indep : forall g rate choice infl rstats tmin tmax ic fuel ds,
  let r1 := exec (complex g rate choice infl rstats tmin tmax true ic fuel) ds [] in
  let r2 := exec (complex g rate choice infl rstats tmin tmax false ic fuel) ds [] in
  snd r1 = snd r2 /\ cflag_rel (fst r1) (fst r2).
Proof.
  intros. cbv zeta. apply simrelx_exec; [exact cflag_rel_err|]. unfold complex.
  destruct (forallb _ _); [|eapply sx_leaf; reflexivity].
  destruct (fill g rate _) as [lc|e]; cbn [liftc]; [|eapply sx_leaf; reflexivity].
  apply cloop_flag. repeat split.
Qed.
