(* C18, Gillespie_simple_contagion: `sorted(graph.edges())` (sim:4110-4111, the property's
   anchor "sorted transition lists so that event selection order is hash-independent").
   The cascade `for transition in spontaneous_transitions+induced_transitions: r -= ...`
   walks the transitions in list order, so that order decides which transition a given
   draw selects.  With sortable statuses the simulator sorts both lists: the run is then
   the same PROGRAM for every order in which the two transition graphs yield their edges
   ([simple_transition_order_indep]).  With unsortable statuses the code keeps the graphs'
   own order (and prints a warning): the order is then an input of the run
   (witness in Props/C18x.v).
   The sort of the model is an insertion sort on keys; the lemma is: an insertion sort
   over a strict total order is invariant under permutation of a list with distinct keys. *)
From EoNV Require Import Prelude Samp Graph ListDict Gillespie Simple.
From Coq Require Import Permutation.

Lemma kltb_irrefl : forall a, kltb a a = false.
Proof. induction a as [|x a IH]; cbn [kltb]; [reflexivity|]. rewrite N.ltb_irrefl. exact IH. Qed.

Lemma kltb_trans : forall a b c, kltb a b = true -> kltb b c = true -> kltb a c = true.
Proof.
  induction a as [|x a IH]; intros [|y b] [|z c] H1 H2; cbn [kltb] in *; try discriminate; try reflexivity.
  destruct (N.ltb_spec x y) as [Hxy|Hxy].
  - destruct (N.ltb_spec y z) as [Hyz|Hyz].
    + destruct (N.ltb_spec x z); [reflexivity|lia].
    + destruct (N.ltb_spec z y) as [Hzy|Hzy]; [discriminate H2|]. assert (y = z) by lia. subst z.
      destruct (N.ltb_spec x y); [reflexivity|lia].
  - destruct (N.ltb_spec y x) as [Hyx|Hyx]; [discriminate H1|]. assert (x = y) by lia. subst y.
    destruct (N.ltb_spec x z) as [Hxz|Hxz]; [reflexivity|].
    destruct (N.ltb_spec z x) as [Hzx|Hzx]; [discriminate H2|]. eapply IH; eassumption.
Qed.

Lemma kltb_asym : forall a b, kltb a b = true -> kltb b a = false.
Proof.
  intros a b H. destruct (kltb b a) eqn:E; [|reflexivity].
  pose proof (kltb_trans a b a H E) as C. rewrite kltb_irrefl in C. discriminate C.
Qed.

Lemma kltb_total : forall a b, a <> b -> kltb a b = true \/ kltb b a = true.
Proof.
  induction a as [|x a IH]; intros [|y b] H; cbn [kltb]; try (left; reflexivity); try (right; reflexivity); [contradiction H; reflexivity|].
  destruct (N.ltb_spec x y) as [Hxy|Hxy]; [left; reflexivity|].
  destruct (N.ltb_spec y x) as [Hyx|Hyx]; [right; reflexivity|].
  assert (x = y) by lia. subst y. apply IH. intro E. apply H. rewrite E. reflexivity.
Qed.

Lemma kinsert_comm_lt : forall V (a b : key * V) l, kltb (fst a) (fst b) = true ->
  kinsert a (kinsert b l) = kinsert b (kinsert a l).
Proof.
  intros V a b l Hab. pose proof (kltb_asym _ _ Hab) as Hba.
  induction l as [|h t IH]; cbn [kinsert].
  - rewrite Hab, Hba. reflexivity.
  - destruct (kltb (fst b) (fst h)) eqn:Hbh.
    + rewrite (kltb_trans _ _ _ Hab Hbh). cbn [kinsert]. rewrite Hab, Hba, Hbh. reflexivity.
    + cbn [kinsert]. destruct (kltb (fst a) (fst h)) eqn:Hah; cbn [kinsert].
      * rewrite Hba, Hbh. reflexivity.
      * rewrite Hbh, IH. reflexivity.
Qed.

Lemma kinsert_comm : forall V (a b : key * V) l, fst a <> fst b ->
  kinsert a (kinsert b l) = kinsert b (kinsert a l).
Proof.
  intros V a b l H. destruct (kltb_total _ _ H) as [E|E]; [apply kinsert_comm_lt; exact E|].
  symmetry. apply kinsert_comm_lt. exact E.
Qed.

(* the canonical order does not depend on the order in which the entries arrive *)
Theorem ksort_perm_eq : forall V (l l' : list (key * V)), Permutation l l' -> NoDup (map fst l) -> ksort l = ksort l'.
Proof.
  intros V l l' H. induction H as [|x l l' H IH|x y l|l l' l'' H1 IH1 H2 IH2]; intro Hnd.
  - reflexivity.
  - unfold ksort. cbn [fold_right]. fold (ksort l). fold (ksort l'). cbn [map] in Hnd. inversion Hnd; subst. rewrite IH; [reflexivity|assumption].
  - unfold ksort. cbn [fold_right]. fold (ksort l). apply kinsert_comm. cbn [map] in Hnd. inversion Hnd as [|? ? Hn _]; subst.
    intro E. apply Hn. left. symmetry. exact E.
  - rewrite IH1; [|exact Hnd]. apply IH2. eapply Permutation_NoDup; [apply Permutation_map; exact H1|exact Hnd].
Qed.

Definition trans_key (tr : trans) : key := tr_from tr ++ tr_to tr.

Lemma sort_trans_perm : forall l l', Permutation l l' -> NoDup (map trans_key l) ->
  sort_trans true l = sort_trans true l'.
Proof.
  intros l l' H Hnd. unfold sort_trans. f_equal. apply ksort_perm_eq.
  - apply Permutation_map. exact H.
  - rewrite map_map. exact Hnd.
Qed.

(* sortable statuses: whatever order spontaneous_transition_graph.edges() and
   nbr_induced_transition_graph.edges() yield their (distinct) edges in, the simulator is
   the same sampler program -- same calls, same draws, same output on every script *)
Theorem simple_transition_order_indep : forall g spont spont' induced induced' ic rstat tmin tmax full fuel,
  Permutation spont spont' -> Permutation induced induced' ->
  NoDup (map trans_key spont) -> NoDup (map trans_key induced) ->
  simple g true spont induced ic rstat tmin tmax full fuel = simple g true spont' induced' ic rstat tmin tmax full fuel.
Proof.
  intros g spont spont' induced induced' ic rstat tmin tmax full fuel H1 H2 N1 N2. unfold simple.
  rewrite (sort_trans_perm spont spont' H1 N1), (sort_trans_perm induced induced' H2 N2). reflexivity.
Qed.
