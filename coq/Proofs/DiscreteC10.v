(* C10 for the discrete-time simulators, part 1: a full-data run with its sequence of status
   maps explicit ([drunF], Proofs/DiscreteHist.v).  The history of a node is the explicit
   chronological list [(tmin, sq 0 u)] ++ [(tq (j+1), sq (j+1) u) | j < K, sq j u <> sq (j+1) u];
   it is a good history (starts at tmin, strictly increasing times, possible statuses, legal
   moves only); node_status at any time of [tq j, tq (j+1)) is sq j u; hence the counts of
   summary() at a listed time tq j are the census of sq j = row j of the arrays, the summary
   read as a step function gives row j at every tq j, and the decidable checker
   [consistent_b] of Model/Investigation.v accepts (histories, arrays). *)
From EoNV Require Import Prelude Samp Graph Discrete DiscreteP SampP DiscreteChk DiscreteRun DiscreteRunS DiscreteTop DiscreteC04 DiscreteC05 DiscreteHist.
From EoNV Require Import Investigation InvestigationP.
From EoNV Require Gillespie GillespieP.
From Coq Require Import Permutation Lqa Sorting.Sorted.

Definition dps_of (kind : Gillespie.model_kind) : list N :=
  match kind with kSIR => [stS; stI; stR] | kSIS => [stS; stI] end.
Definition dmv_of (kind : Gillespie.model_kind) : list (N * N) :=
  match kind with kSIR => [(stS, stI); (stI, stR)] | kSIS => [(stS, stI); (stI, stS)] end.

(* ---------------- generic facts on step functions (as in Proofs/EventSIRC10c.v) ---------------- *)
Lemma dstep_at_split : forall (a : list row) (r : row) (b : list row) t cur,
  (forall x, In x a -> fst x <= t) -> fst r <= t -> (forall x, In x b -> t < fst x) ->
  step_at (a ++ r :: b) t cur = Some (snd r).
Proof.
  induction a as [|[tx cx] a IH]; intros r b t cur Ha Hr Hb.
  - destruct r as [t' cs]. cbn [app step_at fst snd] in *. rewrite (proj2 (qleb_t t' t) Hr). apply step_at_later. exact Hb.
  - cbn [app step_at]. rewrite (proj2 (qleb_t tx t) (Ha (tx, cx) (or_introl eq_refl))).
    apply IH; auto. intros x Hx. apply Ha. right. exact Hx.
Qed.

Lemma step_at_same_cmp : forall (rows : list row) t t' cur,
  (forall r, In r rows -> Qleb (fst r) t = Qleb (fst r) t') -> step_at rows t cur = step_at rows t' cur.
Proof.
  induction rows as [|[tx cx] rows IH]; intros t t' cur H; [reflexivity|]. cbn [step_at].
  pose proof (H (tx, cx) (or_introl eq_refl)) as E. cbn [fst] in E. rewrite E.
  destruct (Qleb tx t'); apply IH; intros r Hr; apply H; right; exact Hr.
Qed.

Lemma dzlist_eqb_refl : forall a, zlist_eqb a a = true.
Proof. induction a as [|x a IH]; [reflexivity|]. cbn. rewrite Z.eqb_refl. exact IH. Qed.

Lemma dfirst_bad_hist_all : forall iv ps mv tmin l,
  (forall u, In u l -> exists h, hist_of iv u = Ok h /\ good_histb ps mv tmin h = true) ->
  first_bad_hist iv ps mv tmin l = None.
Proof.
  intros iv ps mv tmin l. induction l as [|u l IH]; intros H; [reflexivity|]. cbn [first_bad_hist].
  destruct (H u (or_introl eq_refl)) as [h [Eh G]]. rewrite Eh, G. apply IH. intros v Hv. apply H. right. exact Hv.
Qed.

Lemma dfind_none_all : forall A (f : A -> bool) l, (forall x, In x l -> f x = false) -> find f l = None.
Proof.
  intros A f l. induction l as [|a l IH]; intros H; [reflexivity|]. cbn [find].
  rewrite (H a (or_introl eq_refl)). apply IH. intros x Hx. apply H. right. exact Hx.
Qed.

(* node_status (count the change times <= t) and the left-to-right scan [hstatus] agree *)
Lemma hstatus_scan : forall h t p, hstatus h t (Some p) = Some (scan t p h).
Proof.
  induction h as [|[t' s] h IH]; intros t p; [reflexivity|].
  cbn [hstatus]. change (scan t p ((t', s) :: h)) with (scan t (if le_t t (t', s) then s else p) h).
  unfold le_t. cbn [fst]. destruct (Qleb t' t); apply IH.
Qed.

Lemma status_at_hstatus : forall e0 r t s, sortedb (e0 :: r) = true -> fst e0 <= t ->
  hstatus (e0 :: r) t None = Some s -> status_at (e0 :: r) t = Ok s.
Proof.
  intros [t0 s0] r t s Hs H0 H. cbn [fst] in H0.
  rewrite (status_at_scan (t0, s0) r t s0 Hs H0).
  cbn [hstatus] in H. rewrite (proj2 (qleb_t t0 t) H0), hstatus_scan in H. injection H as H. rewrite <- H.
  f_equal. change (scan t s0 ((t0, s0) :: r)) with (scan t (if le_t t (t0, s0) then s0 else s0) r).
  unfold le_t. cbn [fst]. rewrite (proj2 (qleb_t t0 t) H0). reflexivity.
Qed.

(* ---------------- the explicit list of changes ---------------- *)
Section Lists.
Variable tmin : Q.
Variable sq : nat -> node -> N.
Variable u : node.

Definition chg (j : nat) : list (Q * N) :=
  if N.eqb (sq j u) (sq (S j) u) then [] else [(tq tmin (S j), sq (S j) u)].
Definition evlist (j n : nat) : list (Q * N) := flat_map chg (seq j n).

Variable ps : list N.
Variable mv : list (N * N).

Lemma hist_good_gen : forall n j a, a < tq tmin (S j) ->
  (forall i, (j <= i < j + n)%nat -> sq i u <> sq (S i) u -> move_ok mv (sq i u) (sq (S i) u) = true) ->
  (forall i, (j <= i <= j + n)%nat -> mem (sq i u) ps = true) ->
  sortedb ((a, sq j u) :: evlist j n) = true /\
  forallb (fun x => mem (snd x) ps) ((a, sq j u) :: evlist j n) = true /\
  legalb mv ((a, sq j u) :: evlist j n) = true /\
  StronglySorted Qlt (map fst ((a, sq j u) :: evlist j n)) /\
  (forall x, In x (evlist j n) -> tq tmin (S j) <= fst x).
Proof.
  induction n as [|n IH]; intros j a Ha Hmv Hps.
  - unfold evlist. cbn [seq flat_map]. split; [reflexivity|]. split.
    + cbn [forallb snd]. rewrite (Hps j) by lia. reflexivity.
    + split; [reflexivity|]. split; [|intros x []]. cbn [map fst]. constructor; [constructor|constructor].
  - assert (Eev : evlist j (S n) = chg j ++ evlist (S j) n) by reflexivity. rewrite Eev. clear Eev.
    assert (Hmv' : forall i, (S j <= i < S j + n)%nat -> sq i u <> sq (S i) u -> move_ok mv (sq i u) (sq (S i) u) = true)
      by (intros i Hi; apply Hmv; lia).
    assert (Hps' : forall i, (S j <= i <= S j + n)%nat -> mem (sq i u) ps = true) by (intros i Hi; apply Hps; lia).
    assert (Hlt : tq tmin (S j) < tq tmin (S (S j))) by (apply tq_lt; lia).
    unfold chg. destruct (N.eqb_spec (sq j u) (sq (S j) u)) as [E|E].
    + cbn [app]. rewrite E.
      destruct (IH (S j) a (Qlt_trans _ _ _ Ha Hlt) Hmv' Hps') as [A [B [C [D F]]]].
      split; [exact A|]. split; [exact B|]. split; [exact C|]. split; [exact D|].
      intros x Hx. apply Qle_trans with (tq tmin (S (S j))); [apply Qlt_le_weak; exact Hlt|apply F; exact Hx].
    + cbn [app].
      destruct (IH (S j) (tq tmin (S j)) Hlt Hmv' Hps') as [A [B [C [D F]]]].
      split; [|split; [|split; [|split]]].
      * change (Qleb a (tq tmin (S j)) && sortedb ((tq tmin (S j), sq (S j) u) :: evlist (S j) n) = true).
        rewrite A, (proj2 (qleb_t _ _) (Qlt_le_weak _ _ Ha)). reflexivity.
      * change (mem (sq j u) ps && forallb (fun x => mem (snd x) ps) ((tq tmin (S j), sq (S j) u) :: evlist (S j) n) = true).
        rewrite B, (Hps j) by lia. reflexivity.
      * change (move_ok mv (sq j u) (sq (S j) u) && legalb mv ((tq tmin (S j), sq (S j) u) :: evlist (S j) n) = true).
        rewrite C, (Hmv j) by (try lia; exact E). reflexivity.
      * cbn [map fst] in *. constructor; [exact D|]. constructor; [exact Ha|].
        apply Forall_forall. intros y Hy. apply in_map_iff in Hy. destruct Hy as [x [Ex Hx]]. subst y.
        apply Qlt_le_trans with (tq tmin (S (S j))); [apply Qlt_trans with (tq tmin (S j)); assumption|apply F; exact Hx].
      * intros x [Hx|Hx]; [subst x; cbn [fst]; apply Qle_refl|].
        apply Qle_trans with (tq tmin (S (S j))); [apply Qlt_le_weak; exact Hlt|apply F; exact Hx].
Qed.

End Lists.

Lemma evlist_ext : forall tmin sq sq' u j n, (forall i, (i <= j + n)%nat -> sq' i u = sq i u) ->
  evlist tmin sq' u j n = evlist tmin sq u j n.
Proof.
  intros tmin sq sq' u j n H. unfold evlist. rewrite !flat_map_concat_map. f_equal. apply map_ext_in.
  intros i Hi. apply in_seq in Hi. unfold chg. rewrite !H by lia. reflexivity.
Qed.

Section F.
Variable g : graph.
Variable kind : Gillespie.model_kind.
Variable os : bool.
Variable tmin : Q.
Variable tmax : xtime.
Variable st0 : node -> N.
Variable tl0 : list tx.

Notation DRUNF := (drunF g kind os tmin tmax st0 tl0).

(* the appends of a node, oldest first: one entry per step at which its status changes *)
Lemma drunF_evlist : forall sq K t rows hl tl, DRUNF sq K t rows hl tl -> forall u, In u (gnodes g) ->
  node_events u (rev hl) = evlist tmin sq u 0 K.
Proof.
  intros sq K t rows hl tl H u Hu.
  induction H as [sq H0 Hok|sq sq' k t rows hl tl hnew tnew H IH Hag Hlt Hinf Hok Hstep Hh Ht]; [reflexivity|].
  rewrite rev_app_distr, node_events_app, IH, (Hh u Hu). unfold evlist. rewrite seq_S, flat_map_app.
  fold (evlist tmin sq u 0 k). fold (evlist tmin sq' u 0 k). rewrite (evlist_ext tmin sq sq' u 0 k) by (intros i Hi; apply Hag; lia).
  f_equal. cbn [plus flat_map]. rewrite app_nil_r. unfold chg. rewrite (Hag k u) by lia.
  rewrite (drunF_time _ _ _ _ _ _ _ _ _ _ _ _ _ H). reflexivity.
Qed.

Lemma drunF_sq0 : forall sq K t rows hl tl, DRUNF sq K t rows hl tl -> forall v, In v (gnodes g) -> sq O v = st0 v.
Proof.
  intros sq K t rows hl tl H.
  induction H as [sq H0 Hok|sq sq' k t rows hl tl hnew tnew H IH Hag Hlt Hinf Hok Hstep Hh Ht]; [exact H0|].
  intros v Hv. rewrite (Hag O v) by lia. apply IH. exact Hv.
Qed.

Lemma dstep_move : forall st st' v, dstep g kind os st st' -> In v (gnodes g) -> st v <> st' v ->
  move_ok (dmv_of kind) (st v) (st' v) = true.
Proof.
  intros st st' v H Hv Hne. specialize (H v Hv). unfold infected_by_neighbour in H. destruct kind.
  - destruct H as [[A [B|[B _]]]|[[A [B|[_ B]]]|[A B]]]; rewrite A, B in *; try reflexivity; exfalso; apply Hne; reflexivity.
  - destruct H as [[A [B|[B _]]]|[A B]]; rewrite A, B in *; try reflexivity; exfalso; apply Hne; reflexivity.
Qed.

Lemma stat_ok_mem : forall st v, GillespieP.stat_ok kind st -> mem (st v) (dps_of kind) = true.
Proof.
  intros st v H. unfold GillespieP.stat_ok in H. destruct kind.
  - destruct (H v) as [E|[E|E]]; rewrite E; reflexivity.
  - destruct (H v) as [E|E]; rewrite E; reflexivity.
Qed.

Lemma census_map : forall (f : N -> Z) st, (forall s, f s = GillespieP.cntst g st s) ->
  map f (dps_of kind) = GillespieP.census g kind st.
Proof. intros f st H. unfold GillespieP.census. destruct kind; cbn [dps_of map]; rewrite !H; reflexivity. Qed.

Section Run.
Variables (sq : nat -> node -> N) (K : nat) (t : Q) (rows : list row) (hl : list hev) (tl : list tx).
Hypothesis HF : DRUNF sq K t rows hl tl.

Notation HOF := (hist_of_log tmin st0 hl).
Notation PS := (dps_of kind).
Notation MV := (dmv_of kind).
Notation CEN := (GillespieP.census g kind).

Lemma hof_eq : forall u, In u (gnodes g) -> HOF u = (tmin, sq O u) :: evlist tmin sq u 0 K.
Proof.
  intros u Hu. unfold hist_of_log. rewrite (drunF_evlist _ _ _ _ _ _ HF u Hu), (drunF_sq0 _ _ _ _ _ _ HF u Hu). reflexivity.
Qed.

Lemma hof_facts : forall u, In u (gnodes g) ->
  sortedb (HOF u) = true /\ forallb (fun x => mem (snd x) PS) (HOF u) = true /\ legalb MV (HOF u) = true /\
  StronglySorted Qlt (map fst (HOF u)).
Proof.
  intros u Hu. rewrite (hof_eq u Hu).
  destruct (hist_good_gen tmin sq u PS MV K O tmin) as [A [B [C [D _]]]].
  - change tmin with (tq tmin O) at 1. apply tq_lt. lia.
  - intros i Hi Hne. destruct (drunF_steps _ _ _ _ _ _ _ _ _ _ _ _ _ HF i) as [Hs _]; [lia|].
    apply (dstep_move (sq i) (sq (S i)) u Hs Hu Hne).
  - intros i Hi. apply stat_ok_mem. apply (drunF_stat_ok _ _ _ _ _ _ _ _ _ _ _ _ _ HF i). lia.
  - repeat split; assumption.
Qed.

(* 1. every node history is good; its times are strictly increasing *)
Lemma hof_good : forall u, In u (gnodes g) -> good_histb PS MV tmin (HOF u) = true.
Proof.
  intros u Hu. destruct (hof_facts u Hu) as [A [B [C _]]]. unfold good_histb. rewrite C, andb_true_r.
  unfold wf_histb, hist_of_log in *. cbn [fst]. rewrite A, B, !andb_true_r. apply qeqb_t. reflexivity.
Qed.

Definition hs_of : list (node * history) := map (fun u => (u, HOF u)) (gnodes g).
Definition iv_of : inv := mkInv (gnodes g) hs_of None (Some PS).
Notation IV := iv_of.

Lemma iv_hist_of : forall u, In u (gnodes g) -> hist_of IV u = Ok (HOF u).
Proof.
  intros u Hu. unfold hist_of, iv_of, hs_of. cbn [iv_hist]. rewrite (assoc_map_nodes HOF (gnodes g) u Hu). reflexivity.
Qed.


(* node_status at any time of [tq j, tq (j+1)) (j = K: any later time) is the status after j steps *)
Lemma iv_node_status : forall u j q, In u (gnodes g) -> (j <= K)%nat -> tq tmin j <= q -> ((j < K)%nat -> q < tq tmin (S j)) ->
  node_status IV u q = Ok (sq j u).
Proof.
  intros u j q Hu Hj Hq1 Hq2. unfold node_status. rewrite (iv_hist_of u Hu). cbn [rbind].
  destruct (hof_facts u Hu) as [A _].
  pose proof (drunF_status g kind os tmin tmax st0 tl0 sq K t rows hl tl HF u Hu j q Hj Hq1 Hq2) as Hst.
  unfold hist_of_log in *. apply status_at_hstatus; [exact A| |exact Hst].
  cbn [fst]. apply Qle_trans with (tq tmin j); [|exact Hq1]. change tmin with (tq tmin O) at 1. apply tq_le. lia.
Qed.

Lemma iv_count_at : forall j q s, (j <= K)%nat -> tq tmin j <= q -> ((j < K)%nat -> q < tq tmin (S j)) ->
  count_at IV (gnodes g) q s = GillespieP.cntst g (sq j) s.
Proof.
  intros j q s Hj Hq1 Hq2. unfold count_at, GillespieP.cntst. f_equal. f_equal. apply filter_ext_in.
  intros u Hu. unfold status_isb. rewrite (iv_node_status u j q Hu Hj Hq1 Hq2). reflexivity.
Qed.

Lemma iv_counts : forall j q, (j <= K)%nat -> tq tmin j <= q -> ((j < K)%nat -> q < tq tmin (S j)) ->
  map (count_at IV (gnodes g) q) PS = CEN (sq j).
Proof.
  intros j q Hj Hq1 Hq2. apply census_map. intro s. apply iv_count_at; assumption.
Qed.

(* the arrays *)
Definition arr_of : list row := map (fun j => (tq tmin j, CEN (sq j))) (seq 0 (S K)).

Lemma arr_rows : rev rows = arr_of.
Proof. exact (drunF_rows g kind os tmin tmax st0 tl0 sq K t rows hl tl HF). Qed.

Lemma arr_step_at : forall j, (j <= K)%nat -> step_at arr_of (tq tmin j) None = Some (CEN (sq j)).
Proof.
  intros j Hj. unfold arr_of.
  replace (S K) with (j + S (K - j))%nat by lia. rewrite seq_app, map_app. cbn [plus seq map].
  apply (dstep_at_split (map (fun i => (tq tmin i, CEN (sq i))) (seq 0 j)) (tq tmin j, CEN (sq j))).
  - intros x Hx. apply in_map_iff in Hx. destruct Hx as [i [Ex Hi]]. subst x. apply in_seq in Hi. cbn [fst]. apply tq_le. lia.
  - cbn [fst]. apply Qle_refl.
  - intros x Hx. apply in_map_iff in Hx. destruct Hx as [i [Ex Hi]]. subst x. apply in_seq in Hi. cbn [fst]. apply tq_lt. lia.
Qed.

Hypothesis Hne : gnodes g <> [].

(* 2. summary() of the node histories *)
Theorem iv_summary : exists rows',
  summary IV None = Ok rows' /\ rows' <> [] /\ StronglySorted Qlt (map fst rows') /\
  (forall t cs, In (t, cs) rows' -> exists j, (j <= K)%nat /\ t = tq tmin j /\ cs = CEN (sq j) /\ cs = map (count_at IV (gnodes g) t) PS) /\
  (forall j, (j <= K)%nat -> step_at rows' (tq tmin j) None = Some (CEN (sq j))) /\
  (forall j u, (j < K)%nat -> In u (gnodes g) -> sq j u <> sq (S j) u -> In (tq tmin (S j)) (map fst rows')) /\
  In tmin (map fst rows').
Proof.
  assert (Hwf : forall u, In u (gnodes g) -> exists h, hist_of IV u = Ok h /\ wf_histb PS tmin h = true).
  { intros u Hu. exists (HOF u). split; [apply iv_hist_of; exact Hu|]. pose proof (hof_good u Hu) as G.
    unfold good_histb in G. apply andb_true_iff in G. exact (proj1 G). }
  destruct (summary_spec IV PS tmin (gnodes g) eq_refl Hne Hwf) as [rows' [S1 [S2 [S3 [S4 [S5 S6]]]]]].
  (* a listed time is tmin or the time of a change *)
  assert (FA : forall x, In x (map fst rows') -> exists j, (j <= K)%nat /\ x = tq tmin j /\
             (j = O \/ exists j' u, j = S j' /\ In u (gnodes g) /\ sq j' u <> sq (S j') u)).
  { intros x Hx. destruct (S5 x Hx) as [u [h [e [Hu [Eh [He Ee]]]]]]. rewrite (iv_hist_of u Hu) in Eh. injection Eh as Eh. subst h.
    unfold hist_of_log in He. destruct He as [He|He].
    - subst e. exists O. split; [lia|]. split; [symmetry; exact Ee|left; reflexivity].
    - apply (drunF_events g kind os tmin tmax st0 tl0 sq K t rows hl tl HF u Hu) in He. destruct He as [j [Hj [E1 E2]]]. subst e. cbn [fst] in Ee.
      exists (S j). split; [lia|]. split; [symmetry; exact Ee|]. right. exists j, u. repeat split; assumption. }
  assert (FL : forall e u, In u (gnodes g) -> In e (HOF u) -> forall j, fst e = tq tmin j -> In (tq tmin j) (map fst rows')).
  { intros e u Hu He j Ej. destruct (S6 u (HOF u) e Hu (iv_hist_of u Hu) He) as [x [Hx Ex]].
    destruct (FA x Hx) as [i [_ [Ei _]]]. rewrite Ei, Ej in Ex. apply tq_inj in Ex. subst i. rewrite <- Ei. exact Hx. }
  assert (FB : forall j u, (j < K)%nat -> In u (gnodes g) -> sq j u <> sq (S j) u -> In (tq tmin (S j)) (map fst rows')).
  { intros j u Hj Hu Hc. apply (FL (tq tmin (S j), sq (S j) u) u Hu); [|reflexivity].
    unfold hist_of_log. right. apply (drunF_events g kind os tmin tmax st0 tl0 sq K t rows hl tl HF u Hu). exists j. repeat split; assumption. }
  assert (FB0 : In tmin (map fst rows')).
  { destruct (gnodes g) as [|u l] eqn:Eg; [contradiction|].
    assert (Hu : In u (gnodes g)) by (rewrite Eg; left; reflexivity). rewrite <- Eg in *.
    apply (FL (tmin, st0 u) u Hu (or_introl eq_refl) O). reflexivity. }
  assert (FC : forall j cs, (j <= K)%nat -> In (tq tmin j, cs) rows' -> cs = CEN (sq j)).
  { intros j cs Hj Hin. destruct (S4 _ _ Hin) as [_ E]. rewrite E. apply iv_counts; [exact Hj|apply Qle_refl|intros _; apply tq_lt; lia]. }
  exists rows'. split; [exact S1|]. split; [exact S2|]. split; [exact S3|]. split; [|split; [|split; [exact FB|exact FB0]]].
  - intros x cs Hin. assert (Hx : In x (map fst rows')) by (apply in_map_iff; exists (x, cs); split; [reflexivity|exact Hin]).
    destruct (FA x Hx) as [j [Hj [Ej _]]]. subst x. exists j. split; [exact Hj|]. split; [reflexivity|].
    split; [apply (FC j cs Hj Hin)|exact (proj2 (S4 _ _ Hin))].
  - induction j as [|j IHj]; intro Hj.
    + apply in_map_iff in FB0. destruct FB0 as [[x cs] [Ex Hin]]. cbn [fst] in Ex. subst x.
      cbn [tq]. rewrite (step_at_row rows' tmin cs None S3 Hin). f_equal. apply (FC O cs Hj Hin).
    + destruct (existsb (fun u => negb (N.eqb (sq j u) (sq (S j) u))) (gnodes g)) eqn:Ex.
      * apply existsb_exists in Ex. destruct Ex as [u [Hu Hc]]. apply negb_true_iff in Hc. apply N.eqb_neq in Hc.
        pose proof (FB j u Hj Hu Hc) as Hl. apply in_map_iff in Hl. destruct Hl as [[x cs] [Ex Hin]]. cbn [fst] in Ex. subst x.
        rewrite (step_at_row rows' _ cs None S3 Hin). f_equal. apply (FC (S j) cs Hj Hin).
      * assert (Hsame : forall u, In u (gnodes g) -> sq j u = sq (S j) u).
        { intros u Hu. destruct (N.eqb_spec (sq j u) (sq (S j) u)) as [E|E]; [exact E|]. exfalso.
          assert (X : existsb (fun u => negb (N.eqb (sq j u) (sq (S j) u))) (gnodes g) = true).
          { apply existsb_exists. exists u. split; [exact Hu|]. apply negb_true_iff. apply N.eqb_neq. exact E. }
          rewrite X in Ex. discriminate. }
        rewrite <- (census_ext g kind (sq j) (sq (S j)) Hsame), <- IHj by lia.
        apply step_at_same_cmp. intros r Hr.
        assert (Hx : In (fst r) (map fst rows')) by (apply in_map; exact Hr).
        destruct (FA _ Hx) as [i [Hi [Ei Hwhy]]]. rewrite Ei.
        destruct (Nat.le_gt_cases i j) as [L|L].
        -- rewrite (proj2 (qleb_t _ _) (tq_le tmin i j L)). apply qleb_t. apply tq_le. lia.
        -- destruct (Nat.eq_dec i (S j)) as [E|E].
           ++ exfalso. subst i. destruct Hwhy as [Z|[j' [u [E1 [Hu Hc]]]]]; [discriminate|]. injection E1 as E1. subst j'.
              apply Hc. apply Hsame. exact Hu.
           ++ rewrite (proj2 (qleb_f _ _) (tq_lt tmin j i L)). apply qleb_f. apply tq_lt. lia.
Qed.

(* 3. the checker accepts (node histories, arrays) *)
Theorem iv_consistent : consistent_b IV arr_of tmin MV = true.
Proof.
  destruct iv_summary as [rows' [S1 [_ [S3 [S4 [S5 _]]]]]].
  unfold consistent_b, consistent. cbn [possible_statuses iv_of iv_ps iv_nodes].
  rewrite dfirst_bad_hist_all.
  2:{ intros u Hu. exists (HOF u). split; [apply (iv_hist_of u Hu)|apply hof_good; exact Hu]. }
  fold iv_of. rewrite S1. unfold first_diff. rewrite dfind_none_all; [reflexivity|].
  intros x Hx. apply negb_false_iff.
  assert (Hj : exists j, (j <= K)%nat /\ x = tq tmin j).
  { apply in_app_or in Hx. destruct Hx as [Hx|Hx].
    - apply in_map_iff in Hx. destruct Hx as [[x1 cs] [E Hin]]. cbn [fst] in E. subst x1.
      destruct (S4 x cs Hin) as [j [Hj [Ej _]]]. exists j. split; assumption.
    - unfold arr_of in Hx. rewrite map_map in Hx. cbn [fst] in Hx. apply in_map_iff in Hx. destruct Hx as [j [E Hin]].
      apply in_seq in Hin. exists j. split; [lia|symmetry; exact E]. }
  destruct Hj as [j [Hj Ej]]. subst x. rewrite (S5 j Hj), (arr_step_at j Hj). cbn [opt_eqb]. apply dzlist_eqb_refl.
Qed.

End Run.
End F.
