(* Generic tools for the event-driven SIS proofs.
   (1) [reachT m a tr]: the leaf [a] of the sampler program [m] is reached along a
       path of valid draws, and [tr] lists the calls made on that path, each with the
       draw it consumed (for expovariate: the value it returned).  Every successful
       [exec] of a program without choose_random is such a path, its trace is
       [map fst tr] and the draws are the script's, in order ([exec_reachT]).
   (2) the queue (myQueue): entries at tmin with small counters stay in front of
       everything added later at or after tmin. *)
From EoNV Require Import Prelude Samp Graph ListDictP SampP EventSIS EventSISP EventSISP4.
From Coq Require Import Permutation Sorted Lqa.

Inductive reachT {A} : samp A -> A -> list (call * Q) -> Prop :=
| rt_ret : forall a, reachT (Ret a) a []
| rt_expo : forall r k d a tr, ~ r == 0 -> 0 <= d -> reachT (k d) a tr ->
    reachT (Expo r k) a ((CExpo r, d) :: tr)
| rt_flip : forall p kt kf d a tr, unit_draw d = true -> reachT (if Qltb d p then kt else kf) a tr ->
    reachT (Flip p kt kf) a ((CFlip p, d) :: tr)
| rt_casc : forall ps k d a tr, unit_draw d = true -> reachT (k (casc_index ps d 0)) a tr ->
    reachT (Casc ps k) a ((CCasc ps, d) :: tr)
| rt_unif : forall c k d x a tr, nth_error c (rank d) = Some x -> reachT (k x) a tr ->
    reachT (Unif c k) a ((CPick c, d) :: tr)
| rt_sample : forall pop n k d a tr, (n <= length pop)%nat ->
    reachT (k (firstn n (rotate (rank d) pop))) a tr ->
    reachT (Sample pop n k) a ((CSample pop n, d) :: tr).

Fixpoint nochoose {A} (m : samp A) : Prop :=
  match m with
  | Ret _ => True
  | Fail _ => True
  | Expo _ k => forall d, nochoose (k d)
  | Flip _ a b => nochoose a /\ nochoose b
  | Casc _ k => forall i, nochoose (k i)
  | Choose _ _ _ => False
  | Unif _ k => forall x, nochoose (k x)
  | Sample _ _ k => forall l, nochoose (k l)
  end.

Lemma allC_nochoose : forall A C (m : samp A), allC C m -> nochoose m.
Proof.
  intros A C m. induction m as [a0|e|r k IH|p kt IHt kf IHf|ps k IH|w c k IH|c k IH|pop n k IH]; cbn [allC nochoose]; intro H.
  - exact I.
  - exact I.
  - intro d. apply IH. apply H.
  - destruct H as [_ [H1 H2]]. split; [apply IHt|apply IHf]; assumption.
  - intro i. apply IH. apply H.
  - exact H.
  - intro x. apply IH. apply H.
  - intro l. apply IH. apply H.
Qed.

Theorem exec_reachT : forall A (m : samp A), nochoose m -> forall ds acc a tr',
  exec m ds acc = (Ok a, tr') ->
  exists tr, reachT m a tr /\ tr' = rev acc ++ map fst tr /\ map snd tr = firstn (length tr) ds.
Proof.
  intros A m. induction m as [a0|e|r k IH|p kt IHt kf IHf|ps k IH|w c k IH|c k IH|pop n k IH];
    intros Hn ds acc a tr' H; cbn [exec nochoose] in *.
  - injection H as <- <-. exists []. split; [constructor|]. split; [rewrite app_nil_r; reflexivity|reflexivity].
  - discriminate H.
  - destruct (Qeqb r 0) eqn:Er; [discriminate H|]. destruct ds as [|d ds']; [discriminate H|].
    destruct (Qltb d 0) eqn:Ed; [discriminate H|].
    destruct (IH d (Hn d) ds' _ a tr' H) as [tr [H1 [H2 H3]]].
    exists ((CExpo r, d) :: tr). split; [|split].
    + apply rt_expo; [apply Qeqb_false; exact Er|apply Qltb_false; exact Ed|exact H1].
    + rewrite H2. cbn [rev map fst]. rewrite <- app_assoc. reflexivity.
    + cbn [map snd length firstn]. rewrite H3. reflexivity.
  - destruct Hn as [Hn1 Hn2]. destruct ds as [|d ds']; [discriminate H|]. destruct (unit_draw d) eqn:Eu; [|discriminate H].
    assert (K : exists tr, reachT (if Qltb d p then kt else kf) a tr /\ tr' = rev (CFlip p :: acc) ++ map fst tr /\
                           map snd tr = firstn (length tr) ds').
    { destruct (Qltb d p); [apply (IHt Hn1 ds' _ a tr' H)|apply (IHf Hn2 ds' _ a tr' H)]. }
    destruct K as [tr [H1 [H2 H3]]]. exists ((CFlip p, d) :: tr). split; [|split].
    + constructor; assumption.
    + rewrite H2. cbn [rev map fst]. rewrite <- app_assoc. reflexivity.
    + cbn [map snd length firstn]. rewrite H3. reflexivity.
  - destruct ds as [|d ds']; [discriminate H|]. destruct (unit_draw d) eqn:Eu; [|discriminate H].
    destruct (IH _ (Hn _) ds' _ a tr' H) as [tr [H1 [H2 H3]]].
    exists ((CCasc ps, d) :: tr). split; [|split].
    + constructor; assumption.
    + rewrite H2. cbn [rev map fst]. rewrite <- app_assoc. reflexivity.
    + cbn [map snd length firstn]. rewrite H3. reflexivity.
  - destruct Hn.
  - destruct c as [|c0 c']; [discriminate H|]. destruct ds as [|d ds']; [discriminate H|].
    destruct (nth_error (c0 :: c') (rank d)) as [x|] eqn:En; [|discriminate H].
    destruct (IH x (Hn x) ds' _ a tr' H) as [tr [H1 [H2 H3]]].
    exists ((CPick (c0 :: c'), d) :: tr). split; [|split].
    + econstructor; eassumption.
    + rewrite H2. cbn [rev map fst]. rewrite <- app_assoc. reflexivity.
    + cbn [map snd length firstn]. rewrite H3. reflexivity.
  - destruct (Nat.ltb (length pop) n) eqn:El; [discriminate H|]. destruct ds as [|d ds']; [discriminate H|].
    apply Nat.ltb_ge in El.
    destruct (IH _ (Hn _) ds' _ a tr' H) as [tr [H1 [H2 H3]]].
    exists ((CSample pop n, d) :: tr). split; [|split].
    + constructor; assumption.
    + rewrite H2. cbn [rev map fst]. rewrite <- app_assoc. reflexivity.
    + cbn [map snd length firstn]. rewrite H3. reflexivity.
Qed.

(* ---------------- the queue: a block of entries at tmin stays in front ---------------- *)
Section Front.
Context {E : Type}.
Variable tmax : xtime.
Variable tmin : Q.

Definition front (P : list (qent E)) (ctr : nat) : Prop :=
  Forall (fun p => qtime p = tmin /\ (qctr p < ctr)%nat) P.

Lemma front_mono : forall P c c', front P c -> (c <= c')%nat -> front P c'.
Proof. intros P c c' H Hc. eapply Forall_impl; [|exact H]. intros p [H1 H2]. split; [exact H1|lia]. Qed.

Lemma qins_front : forall (x : qent E) P l, front P (qctr x) -> tmin <= qtime x ->
  qins x (P ++ l) = P ++ qins x l.
Proof.
  intros x P l F Hx. induction F as [|p P [Hp1 Hp2] F IH]; [reflexivity|].
  cbn [app qins]. assert (B : qbefore x p = false).
  { unfold qbefore. rewrite Hp1. apply orb_false_intro.
    - apply Qltb_false. exact Hx.
    - apply andb_false_intro2. apply Nat.ltb_ge. lia. }
  rewrite B, IH. reflexivity.
Qed.

(* Q.add below a front block *)
Lemma q_add_front : forall (q : queue E) P l t e,
  q_items q = P ++ l -> front P (q_ctr q) -> tmin <= t ->
  exists l', q_items (q_add tmax q t e) = P ++ l' /\ front P (q_ctr (q_add tmax q t e)) /\
             (l' = l \/ (xlt t tmax = true /\ Permutation l' ((t, q_ctr q, e) :: l))).
Proof.
  intros q P l t e Eq F Ht. unfold q_add. destruct (xlt t tmax) eqn:V.
  - cbn [q_items q_ctr]. rewrite Eq, qins_front; [|exact F|exact Ht].
    exists (qins (t, q_ctr q, e) l). split; [reflexivity|]. split; [apply (front_mono P (q_ctr q)); [exact F|lia]|].
    right. split; [reflexivity|apply qins_perm].
  - exists l. split; [exact Eq|]. split; [exact F|left; reflexivity].
Qed.

(* the queue right after the initial Q.add's *)
Lemma init_front : forall (mk : node -> E) l P c,
  xlt tmin tmax = true -> front P c ->
  let q := fold_left (fun q u => q_add tmax q tmin (mk u)) l (mkQ P c) in
  exists P', q_items q = P ++ P' /\ map snd P' = map mk l /\ front (P ++ P') (q_ctr q).
Proof.
  intros mk l. induction l as [|u l IH]; intros P c V F q.
  - subst q. cbn [fold_left q_items q_ctr]. exists []. rewrite app_nil_r. repeat split. exact F.
  - subst q. cbn [fold_left].
    assert (Eq : qins (tmin, c, mk u) P = P ++ [(tmin, c, mk u)]).
    { rewrite <- (app_nil_r P) at 1. rewrite qins_front; [reflexivity|exact F|cbn; lra]. }
    assert (Hq : q_add tmax (mkQ P c) tmin (mk u) = mkQ (P ++ [(tmin, c, mk u)]) (S c)).
    { unfold q_add. rewrite V. cbn [q_items q_ctr]. rewrite Eq. reflexivity. }
    rewrite Hq.
    assert (F' : front (P ++ [(tmin, c, mk u)]) (S c)).
    { apply Forall_app. split; [apply (front_mono P c); [exact F|lia]|]. constructor; [|constructor].
      cbn [qtime qctr fst snd]. split; [reflexivity|lia]. }
    destruct (IH (P ++ [(tmin, c, mk u)]) (S c) V F') as [P' [E1 [E2 E3]]].
    exists ((tmin, c, mk u) :: P'). rewrite <- app_assoc in E1, E3. cbn [app] in E1, E3. split; [exact E1|]. split; [|exact E3].
    cbn [map snd]. f_equal. exact E2.
Qed.

End Front.
