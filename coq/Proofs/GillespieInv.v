(* Bookkeeping invariant of the Gillespie_SIR / Gillespie_SIS model (DESIGN A.3):
   in every reachable state the two _ListDict_ structures are exactly the
   infectious nodes and the I-S links of the status map, with the right weights. *)
From EoNV Require Import Prelude Samp Graph ListDict ListDictP Gillespie KldP.
From Coq Require Import Lqa.

Lemma mem_In : forall x l, mem x l = true <-> In x l.
Proof.
  intros x l. unfold mem. rewrite existsb_exists. split.
  - intros [y [Hy E]]. apply N.eqb_eq in E. subst y. exact Hy.
  - intro H. exists x. split; [exact H|apply N.eqb_refl].
Qed.
Lemma mem_false : forall x l, mem x l = false <-> ~ In x l.
Proof.
  intros x l. rewrite <- mem_In. destruct (mem x l); split; intro H.
  - discriminate.
  - exfalso. apply H. reflexivity.
  - intro H2. discriminate.
  - reflexivity.
Qed.

(* generic fold over a duplicate-free list with a "processed so far" specification *)
Lemma fold_agree : forall (step : node -> kld -> result kld) (flag : bool)
    (M : list node -> key -> option Q) (l : list node),
  (forall d x L, In x l -> ~ In x d -> kinv L -> weighted L = flag ->
       (forall k, oQeq (kabs L k) (M d k)) ->
       exists L', step x L = Ok L' /\ kinv L' /\ weighted L' = flag /\
                  forall k, oQeq (kabs L' k) (M (x :: d) k)) ->
  NoDup l ->
  forall d (L : kld), (forall x, In x l -> ~ In x d) -> kinv L -> weighted L = flag ->
    (forall k, oQeq (kabs L k) (M d k)) ->
    exists L' : kld, fold_left (fun acc x => rbind acc (step x)) l (Ok L) = Ok L' /\
               kinv L' /\ weighted L' = flag /\
               forall k, oQeq (kabs L' k) (M (rev l ++ d) k).
Proof.
  intros step flag M l. induction l as [|x l IH]; intros Hstep Hnd d L Hd Hinv Hw Hag.
  - exists L. cbn [fold_left rev app]. split; [reflexivity|]. split; [exact Hinv|]. split; [exact Hw|exact Hag].
  - apply NoDup_cons_iff in Hnd. destruct Hnd as [Hx Hnd'].
    destruct (Hstep d x L (or_introl eq_refl) (Hd x (or_introl eq_refl)) Hinv Hw Hag)
      as [L1 [He [Hi1 [Hw1 Ha1]]]].
    cbn [fold_left rbind]. rewrite He.
    assert (Hstep' : forall d0 x0 L0, In x0 l -> ~ In x0 d0 -> kinv L0 -> weighted L0 = flag ->
              (forall k, oQeq (kabs L0 k) (M d0 k)) ->
              exists L', step x0 L0 = Ok L' /\ kinv L' /\ weighted L' = flag /\
                         forall k, oQeq (kabs L' k) (M (x0 :: d0) k)).
    { intros d0 x0 L0 Hin. apply Hstep. right. exact Hin. }
    destruct (IH Hstep' Hnd' (x :: d) L1) as [L' [He' [Hi' [Hw' Ha']]]].
    + intros y Hy [E|Hyd]; [subst y; contradiction|]. apply (Hd y (or_intror Hy)). exact Hyd.
    + exact Hi1.
    + exact Hw1.
    + exact Ha1.
    + exists L'. split; [exact He'|]. split; [exact Hi'|]. split; [exact Hw'|].
      intro k. cbn [rev]. rewrite <- app_assoc. cbn [app]. apply Ha'.
Qed.

Section Inv.
Variable g : graph.

(* what the proofs need of a simple undirected weighted graph *)
Record wfg : Prop := {
  adj_nodup : forall u, NoDup (gadj g u);
  adj_noself : forall u, ~ In u (gadj g u);
  adj_sym : forall u v, In v (gadj g u) -> In u (gadj g v);
  ew_sym : forall u v, ew g u v == ew g v u;
  ew_nonneg : forall u v, 0 <= ew g u v;
  nw_nonneg : forall u, 0 <= nw g u
}.
Hypothesis Hg : wfg.

Definition lw (u v : node) : Q := if ewt g then ew g u v else 1.
Definition iw (u : node) : Q := if nwt g then nw g u else 1.

Lemma lw_nonneg : forall u v, 0 <= lw u v.
Proof. intros u v. unfold lw. destruct (ewt g); [apply (ew_nonneg Hg)|lra]. Qed.
Lemma iw_nonneg : forall u, 0 <= iw u.
Proof. intros u. unfold iw. destruct (nwt g); [apply (nw_nonneg Hg)|lra]. Qed.
Lemma lw_sym : forall u v, lw u v == lw v u.
Proof. intros u v. unfold lw. destruct (ewt g); [apply (ew_sym Hg)|reflexivity]. Qed.

Definition infs_spec (st : node -> N) (k : key) : option Q :=
  match k with
  | [u] => if N.eqb (st u) stI then Some (iw u) else None
  | _ => None
  end.
Definition links_spec (st : node -> N) (k : key) : option Q :=
  match k with
  | [u; v] => if N.eqb (st u) stI && N.eqb (st v) stS && mem v (gadj g u) then Some (lw u v) else None
  | _ => None
  end.

Record Inv (s : gst) : Prop := {
  i_infs : kinv (infs s);
  i_links : kinv (links s);
  i_winfs : weighted (infs s) = nwt g;
  i_wlinks : weighted (links s) = ewt g;
  i_ia : forall k, oQeq (kabs (infs s) k) (infs_spec (stat s) k);
  i_la : forall k, oQeq (kabs (links s) k) (links_spec (stat s) k)
}.

Lemma wopt_e : forall u v, wopt (ewt g) (ew g u v) = wopt (ewt g) (lw u v).
Proof. intros. unfold wopt, lw. destruct (ewt g); reflexivity. Qed.
Lemma wopt_n : forall u, wopt (nwt g) (nw g u) = wopt (nwt g) (iw u).
Proof. intros. unfold wopt, iw. destruct (nwt g); reflexivity. Qed.
Lemma lw_flag : forall u v, (if ewt g then lw u v else 1) = lw u v.
Proof. intros. unfold lw. destruct (ewt g); reflexivity. Qed.
Lemma iw_flag : forall u, (if nwt g then iw u else 1) = iw u.
Proof. intros. unfold iw. destruct (nwt g); reflexivity. Qed.

Lemma fupdN_same : forall (f : node -> N) k v, fupdN f k v k = v.
Proof. intros. unfold fupdN. rewrite N.eqb_refl. reflexivity. Qed.
Lemma fupdN_other : forall (f : node -> N) k v x, x <> k -> fupdN f k v x = f x.
Proof. intros f k v x H. unfold fupdN. destruct (N.eqb_spec x k); [contradiction|reflexivity]. Qed.

(* ------------------------------------------------------------------ *)
(* transmission u -> v : the target v was susceptible                  *)

Section Transmit.
Variable kind : model_kind.
Variable st : node -> N.
Variable v : node.
Hypothesis Hv : st v = stS.
(* the SIS code removes (x,v) for every non-susceptible neighbour: statuses are S or I there *)
Hypothesis Hsis : kind = SIS -> forall x, st x = stS \/ st x = stI.
Let st' := fupdN st v stI.

Definition tr_step (x : node) (l : kld) : result kld :=
  if N.eqb (st' x) stS then kl_update l (kpair v x) (wopt (ewt g) (ew g v x))
  else match kind with
       | SIR => if N.eqb (st' x) stI && negb (N.eqb x v) then kl_remove l (kpair x v) else Ok l
       | SIS => if negb (N.eqb x v) then kl_remove l (kpair x v) else Ok l
       end.

Definition tr_M (d : list node) (k : key) : option Q :=
  match k with
  | [a; b] =>
    if N.eqb a v then (if mem b d && N.eqb (st' b) stS then Some (lw v b) else None)
    else if N.eqb b v then (if mem a d && N.eqb (st' a) stI then None else links_spec st k)
    else links_spec st k
  | _ => None
  end.

Lemma tr_M_nil : forall k, tr_M [] k = links_spec st k.
Proof.
  intros [|a [|b [|c r]]]; cbn [tr_M links_spec]; try reflexivity.
  destruct (N.eqb_spec a v) as [E|E].
  - subst a. cbn [mem existsb andb]. rewrite Hv. cbn. reflexivity.
  - cbn [mem existsb andb]. destruct (N.eqb b v); reflexivity.
Qed.

Lemma tr_M_full : forall k, tr_M (rev (gadj g v) ++ []) k = links_spec st' k.
Proof.
  intros [|a [|b [|c r]]]; cbn [tr_M links_spec]; try reflexivity.
  rewrite app_nil_r.
  assert (Hmem : forall x, mem x (rev (gadj g v)) = mem x (gadj g v)).
  { intro x. destruct (mem x (gadj g v)) eqn:E.
    - apply mem_In. apply in_rev. rewrite rev_involutive. apply mem_In. exact E.
    - apply mem_false. intro H. apply in_rev in H. apply mem_In in H. congruence. }
  rewrite !Hmem.
  destruct (N.eqb_spec a v) as [E|E].
  - subst a. unfold st' at 2. rewrite fupdN_same. rewrite N.eqb_refl. cbn [andb].
    destruct (mem b (gadj g v)); destruct (N.eqb (st' b) stS); reflexivity.
  - destruct (N.eqb_spec b v) as [E2|E2].
    + subst b. unfold st' at 3. rewrite fupdN_same.
      replace (N.eqb stI stS) with false by reflexivity.
      rewrite andb_false_r. cbn [andb].
      unfold st'. rewrite (fupdN_other st v stI a E). rewrite Hv.
      replace (N.eqb stS stS) with true by reflexivity. rewrite andb_true_r.
      destruct (N.eqb (st a) stI) eqn:Ea; [|rewrite andb_false_r; reflexivity].
      rewrite andb_true_r. cbn [andb].
      destruct (mem a (gadj g v)) eqn:Em; [reflexivity|].
      destruct (mem v (gadj g a)) eqn:Em2; [|reflexivity].
      exfalso. apply mem_In in Em2. apply (adj_sym Hg) in Em2. apply mem_In in Em2. congruence.
    + unfold st'. rewrite (fupdN_other st v stI a E), (fupdN_other st v stI b E2). reflexivity.
Qed.

Lemma tr_step_ok : forall d x L, In x (gadj g v) -> ~ In x d -> kinv L -> weighted L = ewt g ->
  (forall k, oQeq (kabs L k) (tr_M d k)) ->
  exists L', tr_step x L = Ok L' /\ kinv L' /\ weighted L' = ewt g /\
             forall k, oQeq (kabs L' k) (tr_M (x :: d) k).
Proof.
  intros d x L Hx Hxd Hinv Hw Hag.
  assert (Hxv : x <> v). { intro E. subst x. apply (adj_noself Hg v). exact Hx. }
  assert (Hstx : st' x = st x). { unfold st'. apply fupdN_other. exact Hxv. }
  assert (Hmd : mem x d = false). { apply mem_false. exact Hxd. }
  unfold tr_step.
  destruct (N.eqb (st' x) stS) eqn:ES.
  - (* susceptible neighbour: the link (v,x) appears *)
    assert (Habs : kabs L (kpair v x) = None).
    { apply oQeq_none_l. eapply oQeq_trans; [apply Hag|]. unfold kpair. cbn [tr_M].
      rewrite N.eqb_refl, Hmd. cbn [andb]. exact I. }
    rewrite wopt_e.
    destruct (kl_update_absent L (kpair v x) (ewt g) (lw v x) Hinv Hw (lw_nonneg v x) Habs)
      as [L' [He [Hi [Hw' [Hk Ho]]]]].
    exists L'. split; [exact He|]. split; [exact Hi|]. split; [exact Hw'|].
    intro k. destruct (keqb_spec k (kpair v x)) as [E|E].
    + subst k. eapply oQeq_trans; [exact Hk|]. rewrite lw_flag. unfold kpair. cbn [tr_M].
      rewrite N.eqb_refl. cbn [mem existsb]. rewrite N.eqb_refl, ES. cbn [orb andb]. reflexivity.
    + eapply oQeq_trans; [apply Ho; exact E|]. eapply oQeq_trans; [apply Hag|]. apply oQeq_of_eq.
      destruct k as [|a [|b [|c r]]]; cbn [tr_M]; try reflexivity.
      destruct (N.eqb_spec a v) as [Ea|Ea].
      * subst a. cbn [mem existsb]. destruct (N.eqb_spec b x) as [Eb|Eb].
        -- subst b. exfalso. apply E. reflexivity.
        -- cbn [orb]. reflexivity.
      * destruct (N.eqb b v); [|reflexivity].
        cbn [mem existsb]. destruct (N.eqb_spec a x) as [Eax|Eax]; [|cbn [orb]; reflexivity].
        subst a. cbn [orb]. rewrite Hmd.
        assert (Hni : N.eqb (st' x) stI = false).
        { apply N.eqb_eq in ES. rewrite ES. reflexivity. }
        rewrite Hni. reflexivity.
  - (* non-susceptible neighbour *)
    assert (Hrem : N.eqb (st' x) stI = true ->
             exists L', kl_remove L (kpair x v) = Ok L' /\ kinv L' /\ weighted L' = ewt g /\
                        forall k, oQeq (kabs L' k) (tr_M (x :: d) k)).
    { intro EI.
      assert (Hpres : kabs L (kpair x v) <> None).
      { eapply oQeq_some_not_none. eapply oQeq_trans; [apply Hag|]. unfold kpair. cbn [tr_M].
        destruct (N.eqb_spec x v) as [E|_]; [contradiction|]. rewrite N.eqb_refl, Hmd. cbn [andb].
        cbn [links_spec]. rewrite <- Hstx, EI, Hv. cbn [andb].
        replace (N.eqb stS stS) with true by reflexivity. cbn [andb].
        assert (Hm : mem v (gadj g x) = true). { apply mem_In. apply (adj_sym Hg). exact Hx. }
        rewrite Hm. cbn [oQeq]. reflexivity. }
      destruct (kl_remove_present L (kpair x v) Hinv Hpres) as [L' [He [Hi [Hw' [Hk Ho]]]]].
      exists L'. split; [exact He|]. split; [exact Hi|]. split; [congruence|].
      intro k. destruct (keqb_spec k (kpair x v)) as [E|E].
      - subst k. rewrite Hk. unfold kpair. cbn [tr_M].
        destruct (N.eqb_spec x v) as [E|_]; [contradiction|]. rewrite N.eqb_refl.
        cbn [mem existsb]. rewrite N.eqb_refl, EI. cbn [orb andb oQeq]. exact I.
      - rewrite (Ho k E). eapply oQeq_trans; [apply Hag|]. apply oQeq_of_eq.
        destruct k as [|a [|b [|c r]]]; cbn [tr_M]; try reflexivity.
        destruct (N.eqb_spec a v) as [Ea|Ea].
        + subst a. cbn [mem existsb]. destruct (N.eqb_spec b x) as [Eb|Eb]; [|cbn [orb]; reflexivity].
          subst b. cbn [orb]. rewrite Hmd, ES. cbn [andb]. reflexivity.
        + destruct (N.eqb_spec b v) as [Eb|Eb]; [|reflexivity].
          subst b. cbn [mem existsb]. destruct (N.eqb_spec a x) as [Eax|Eax]; [|cbn [orb]; reflexivity].
          subst a. exfalso. apply E. reflexivity. }
    assert (Hkeep : N.eqb (st' x) stI = false ->
             forall k, oQeq (kabs L k) (tr_M (x :: d) k)).
    { intros EI k. eapply oQeq_trans; [apply Hag|]. apply oQeq_of_eq.
      destruct k as [|a [|b [|c r]]]; cbn [tr_M]; try reflexivity.
      destruct (N.eqb_spec a v) as [Ea|Ea].
      - subst a. cbn [mem existsb]. destruct (N.eqb_spec b x) as [Eb|Eb]; [|cbn [orb]; reflexivity].
        subst b. cbn [orb]. rewrite Hmd, ES. cbn [andb]. reflexivity.
      - destruct (N.eqb_spec b v) as [Eb|Eb]; [|reflexivity].
        cbn [mem existsb]. destruct (N.eqb_spec a x) as [Eax|Eax]; [|cbn [orb]; reflexivity].
        subst a. cbn [orb]. rewrite Hmd, EI. cbn [andb]. reflexivity. }
    destruct kind eqn:EK.
    + destruct (N.eqb (st' x) stI) eqn:EI.
      * destruct (N.eqb_spec x v) as [E|_]; [contradiction|]. cbn [negb andb]. apply Hrem. reflexivity.
      * cbn [andb]. exists L. split; [reflexivity|]. split; [exact Hinv|]. split; [exact Hw|].
        apply Hkeep. reflexivity.
    + destruct (N.eqb_spec x v) as [E|_]; [contradiction|]. cbn [negb].
      apply Hrem. rewrite Hstx. destruct (Hsis eq_refl x) as [HS|HI].
      * rewrite Hstx, HS in ES. discriminate ES.
      * rewrite HI. reflexivity.
Qed.

End Transmit.

(* ------------------------------------------------------------------ *)
(* SIR recovery of u : u was infectious                                *)

Lemma mem_rev : forall x l, mem x (rev l) = mem x l.
Proof.
  intros x l. destruct (mem x l) eqn:E.
  - apply mem_In. apply in_rev. rewrite rev_involutive. apply mem_In. exact E.
  - apply mem_false. intro H. apply in_rev in H. apply mem_In in H. congruence.
Qed.

Section Recover.
Variable st : node -> N.
Variable u : node.
Hypothesis Hu : st u = stI.
Variable snew : N.                 (* stR for SIR, stS for SIS *)
Let st' := fupdN st u snew.

Definition rec_step (x : node) (l : kld) : result kld :=
  if N.eqb (st' x) stS then kl_remove l (kpair u x) else Ok l.

Definition rec_M (d : list node) (k : key) : option Q :=
  match k with
  | [a; b] =>
    if N.eqb a u then (if mem b d && N.eqb (st' b) stS && negb (N.eqb b u) then None else links_spec st k)
    else links_spec st k
  | _ => None
  end.

Lemma rec_M_nil : forall k, rec_M [] k = links_spec st k.
Proof.
  intros [|a [|b [|c r]]]; cbn [rec_M]; try reflexivity.
  cbn [mem existsb andb]. destruct (N.eqb a u); reflexivity.
Qed.

Lemma rec_M_full_SIR : snew = stR -> forall k, rec_M (rev (gadj g u) ++ []) k = links_spec st' k.
Proof.
  intros Hs [|a [|b [|c r]]]; cbn [rec_M links_spec]; try reflexivity.
  rewrite app_nil_r, mem_rev.
  destruct (N.eqb_spec a u) as [E|E].
  - subst a. unfold st' at 2. rewrite fupdN_same, Hs.
    replace (N.eqb stR stI) with false by reflexivity. cbn [andb].
    rewrite Hu. replace (N.eqb stI stI) with true by reflexivity. cbn [andb].
    destruct (N.eqb_spec b u) as [Eb|Eb].
    + subst b. rewrite andb_false_r. rewrite Hu. reflexivity.
    + rewrite andb_true_r. unfold st'. rewrite (fupdN_other st u snew b Eb).
      destruct (mem b (gadj g u)); destruct (N.eqb (st b) stS); reflexivity.
  - unfold st'. rewrite (fupdN_other st u snew a E).
    destruct (N.eqb_spec b u) as [Eb|Eb].
    + subst b. rewrite fupdN_same, Hs, Hu.
      replace (N.eqb stR stS) with false by reflexivity.
      replace (N.eqb stI stS) with false by reflexivity. reflexivity.
    + rewrite (fupdN_other st u snew b Eb). reflexivity.
Qed.

Lemma rec_step_ok : forall d x L, In x (gadj g u) -> ~ In x d -> kinv L -> weighted L = ewt g ->
  (forall k, oQeq (kabs L k) (rec_M d k)) ->
  exists L', rec_step x L = Ok L' /\ kinv L' /\ weighted L' = ewt g /\
             forall k, oQeq (kabs L' k) (rec_M (x :: d) k).
Proof.
  intros d x L Hx Hxd Hinv Hw Hag.
  assert (Hxu : x <> u). { intro E. subst x. apply (adj_noself Hg u). exact Hx. }
  assert (Hstx : st' x = st x). { unfold st'. apply fupdN_other. exact Hxu. }
  assert (Hmd : mem x d = false). { apply mem_false. exact Hxd. }
  unfold rec_step. destruct (N.eqb (st' x) stS) eqn:ES.
  - assert (Hpres : kabs L (kpair u x) <> None).
    { eapply oQeq_some_not_none. eapply oQeq_trans; [apply Hag|]. unfold kpair. cbn [rec_M].
      rewrite N.eqb_refl, Hmd. cbn [andb]. cbn [links_spec]. rewrite Hu, <- Hstx, ES.
      assert (Hm : mem x (gadj g u) = true). { apply mem_In. exact Hx. }
      rewrite Hm. cbn. reflexivity. }
    destruct (kl_remove_present L (kpair u x) Hinv Hpres) as [L' [He [Hi [Hw' [Hk Ho]]]]].
    exists L'. split; [exact He|]. split; [exact Hi|]. split; [congruence|].
    intro k. destruct (keqb_spec k (kpair u x)) as [E|E].
    + subst k. rewrite Hk. unfold kpair. cbn [rec_M]. rewrite N.eqb_refl.
      cbn [mem existsb]. rewrite N.eqb_refl, ES. cbn [orb andb].
      destruct (N.eqb_spec x u) as [E|_]; [contradiction|]. cbn [negb oQeq]. exact I.
    + rewrite (Ho k E). eapply oQeq_trans; [apply Hag|]. apply oQeq_of_eq.
      destruct k as [|a [|b [|c r]]]; cbn [rec_M]; try reflexivity.
      destruct (N.eqb_spec a u) as [Ea|Ea]; [|reflexivity].
      subst a. cbn [mem existsb]. destruct (N.eqb_spec b x) as [Eb|Eb]; [|cbn [orb]; reflexivity].
      subst b. exfalso. apply E. reflexivity.
  - exists L. split; [reflexivity|]. split; [exact Hinv|]. split; [exact Hw|].
    intro k. eapply oQeq_trans; [apply Hag|]. apply oQeq_of_eq.
    destruct k as [|a [|b [|c r]]]; cbn [rec_M]; try reflexivity.
    destruct (N.eqb_spec a u) as [Ea|Ea]; [|reflexivity].
    cbn [mem existsb]. destruct (N.eqb_spec b x) as [Eb|Eb]; [|cbn [orb]; reflexivity].
    subst b. cbn [orb]. rewrite Hmd, ES. cbn [andb]. reflexivity.
Qed.

(* SIS recovery: links out of u to S neighbours disappear, links from I neighbours
   into u appear (the code passes edgeweight(u, nbr): symmetric weights) *)
Hypothesis Hsis : forall x, st x = stS \/ st x = stI.

Definition srec_step (x : node) (l : kld) : result kld :=
  if N.eqb x u then Ok l
  else if N.eqb (st' x) stS then kl_remove l (kpair u x)
  else kl_update l (kpair x u) (wopt (ewt g) (ew g u x)).

Definition srec_M (d : list node) (k : key) : option Q :=
  match k with
  | [a; b] =>
    if N.eqb a u then (if mem b d && N.eqb (st' b) stS && negb (N.eqb b u) then None else links_spec st k)
    else if N.eqb b u then (if mem a d && negb (N.eqb (st' a) stS) then Some (lw u a) else links_spec st k)
    else links_spec st k
  | _ => None
  end.

Lemma srec_M_nil : forall k, srec_M [] k = links_spec st k.
Proof.
  intros [|a [|b [|c r]]]; cbn [srec_M]; try reflexivity.
  cbn [mem existsb andb]. destruct (N.eqb a u); [reflexivity|]. destruct (N.eqb b u); reflexivity.
Qed.

Lemma srec_M_full : snew = stS -> forall k, oQeq (srec_M (rev (gadj g u) ++ []) k) (links_spec st' k).
Proof.
  intros Hs [|a [|b [|c r]]]; cbn [srec_M links_spec]; try exact I.
  rewrite app_nil_r, !mem_rev.
  destruct (N.eqb_spec a u) as [E|E].
  - subst a. unfold st' at 2. rewrite fupdN_same, Hs.
    replace (N.eqb stS stI) with false by reflexivity. cbn [andb].
    rewrite Hu. replace (N.eqb stI stI) with true by reflexivity. cbn [andb].
    destruct (N.eqb_spec b u) as [Eb|Eb].
    + subst b. rewrite andb_false_r. rewrite Hu. cbn. exact I.
    + rewrite andb_true_r. unfold st'. rewrite (fupdN_other st u snew b Eb).
      destruct (mem b (gadj g u)); destruct (N.eqb (st b) stS); cbn; exact I.
  - destruct (N.eqb_spec b u) as [Eb|Eb].
    + subst b. unfold st'. rewrite fupdN_same, (fupdN_other st u snew a E), Hs, Hu.
      replace (N.eqb stS stS) with true by reflexivity.
      replace (N.eqb stI stS) with false by reflexivity.
      rewrite andb_false_r. cbn [andb]. rewrite andb_true_r.
      assert (Hm : mem a (gadj g u) = mem u (gadj g a)).
      { destruct (mem u (gadj g a)) eqn:E1.
        - apply mem_In. apply (adj_sym Hg). apply mem_In. exact E1.
        - apply mem_false. intro H. apply (adj_sym Hg) in H. apply mem_In in H. congruence. }
      rewrite Hm. destruct (Hsis a) as [HS|HI]; rewrite ?HS, ?HI.
      * replace (N.eqb stS stS) with true by reflexivity.
        replace (N.eqb stS stI) with false by reflexivity. cbn [negb andb].
        rewrite andb_false_r. cbn. exact I.
      * replace (N.eqb stI stS) with false by reflexivity.
        replace (N.eqb stI stI) with true by reflexivity. cbn [negb andb].
        rewrite andb_true_r. destruct (mem u (gadj g a)); cbn; [apply lw_sym|exact I].
    + unfold st'. rewrite (fupdN_other st u snew a E), (fupdN_other st u snew b Eb). apply oQeq_refl.
Qed.

Lemma srec_step_ok : forall d x L, In x (gadj g u) -> ~ In x d -> kinv L -> weighted L = ewt g ->
  (forall k, oQeq (kabs L k) (srec_M d k)) ->
  exists L', srec_step x L = Ok L' /\ kinv L' /\ weighted L' = ewt g /\
             forall k, oQeq (kabs L' k) (srec_M (x :: d) k).
Proof.
  intros d x L Hx Hxd Hinv Hw Hag.
  assert (Hxu : x <> u). { intro E. subst x. apply (adj_noself Hg u). exact Hx. }
  assert (Hstx : st' x = st x). { unfold st'. apply fupdN_other. exact Hxu. }
  assert (Hmd : mem x d = false). { apply mem_false. exact Hxd. }
  unfold srec_step. destruct (N.eqb_spec x u) as [E|_]; [contradiction|].
  destruct (N.eqb (st' x) stS) eqn:ES.
  - assert (Hpres : kabs L (kpair u x) <> None).
    { eapply oQeq_some_not_none. eapply oQeq_trans; [apply Hag|]. unfold kpair. cbn [srec_M].
      rewrite N.eqb_refl, Hmd. cbn [andb]. cbn [links_spec]. rewrite Hu, <- Hstx, ES.
      assert (Hm : mem x (gadj g u) = true). { apply mem_In. exact Hx. }
      rewrite Hm. cbn. reflexivity. }
    destruct (kl_remove_present L (kpair u x) Hinv Hpres) as [L' [He [Hi [Hw' [Hk Ho]]]]].
    exists L'. split; [exact He|]. split; [exact Hi|]. split; [congruence|].
    intro k. destruct (keqb_spec k (kpair u x)) as [E|E].
    + subst k. rewrite Hk. unfold kpair. cbn [srec_M]. rewrite N.eqb_refl.
      cbn [mem existsb]. rewrite N.eqb_refl, ES. cbn [orb andb].
      destruct (N.eqb_spec x u) as [E|_]; [contradiction|]. cbn [negb oQeq]. exact I.
    + rewrite (Ho k E). eapply oQeq_trans; [apply Hag|]. apply oQeq_of_eq.
      destruct k as [|a [|b [|c r]]]; cbn [srec_M]; try reflexivity.
      destruct (N.eqb_spec a u) as [Ea|Ea].
      * subst a. cbn [mem existsb]. destruct (N.eqb_spec b x) as [Eb|Eb]; [|cbn [orb]; reflexivity].
        subst b. exfalso. apply E. reflexivity.
      * destruct (N.eqb_spec b u) as [Eb|Eb]; [|reflexivity].
        cbn [mem existsb]. destruct (N.eqb_spec a x) as [Eax|Eax]; [|cbn [orb]; reflexivity].
        subst a. cbn [orb]. rewrite Hmd, ES. cbn [negb andb]. reflexivity.
  - assert (Habs : kabs L (kpair x u) = None).
    { apply oQeq_none_l. eapply oQeq_trans; [apply Hag|]. unfold kpair. cbn [srec_M].
      destruct (N.eqb_spec x u) as [E|_]; [contradiction|]. rewrite N.eqb_refl, Hmd. cbn [andb].
      cbn [links_spec]. rewrite Hu. replace (N.eqb stI stS) with false by reflexivity.
      rewrite andb_false_r. cbn. exact I. }
    rewrite wopt_e.
    destruct (kl_update_absent L (kpair x u) (ewt g) (lw u x) Hinv Hw (lw_nonneg u x) Habs)
      as [L' [He [Hi [Hw' [Hk Ho]]]]].
    exists L'. split; [exact He|]. split; [exact Hi|]. split; [exact Hw'|].
    intro k. destruct (keqb_spec k (kpair x u)) as [E|E].
    + subst k. eapply oQeq_trans; [exact Hk|]. rewrite lw_flag. unfold kpair. cbn [srec_M].
      destruct (N.eqb_spec x u) as [E|_]; [contradiction|]. rewrite N.eqb_refl.
      cbn [mem existsb]. rewrite N.eqb_refl, ES. cbn [orb negb andb oQeq]. reflexivity.
    + eapply oQeq_trans; [apply Ho; exact E|]. eapply oQeq_trans; [apply Hag|]. apply oQeq_of_eq.
      destruct k as [|a [|b [|c r]]]; cbn [srec_M]; try reflexivity.
      destruct (N.eqb_spec a u) as [Ea|Ea].
      * subst a. cbn [mem existsb]. destruct (N.eqb_spec b x) as [Eb|Eb]; [|cbn [orb]; reflexivity].
        subst b. cbn [orb]. rewrite Hmd, ES. cbn [andb]. reflexivity.
      * destruct (N.eqb_spec b u) as [Eb|Eb]; [|reflexivity].
        subst b. cbn [mem existsb]. destruct (N.eqb_spec a x) as [Eax|Eax]; [|cbn [orb]; reflexivity].
        subst a. exfalso. apply E. reflexivity.
Qed.

End Recover.

End Inv.
