(* Event-driven SIS simulators: the output-level theorems (C04, C09, C10), read off
   from the lock-step logs of Proofs/EventSISFast.v (fast_SIS, every draw script)
   and Proofs/EventSISNM.v (fast_nonMarkov_SIS, every rule table). *)
From EoNV Require Import Prelude Samp Graph ListDict ListDictP Gillespie KldP GillespieInv SampP GillespieP GillespieLog.
From EoNV Require Import Investigation InvestigationP GillespieC10.
From EoNV Require Import EventSIS EventSISP EventSISP4 EventSISRows EventSISLog EventSISTrace EventSISRel EventSISFast EventSISNM.
From Coq Require Import Permutation Sorted Lqa.

(* number of infection events *)
Definition cinf (l : list ev) : nat := length (filter (fun e => N.eqb (ev_st e) stI) l).
Lemma cinf_app : forall a b, cinf (a ++ b) = (cinf a + cinf b)%nat.
Proof. intros. unfold cinf. rewrite filter_app, app_length. reflexivity. Qed.
Lemma cinf_rev : forall l, cinf (rev l) = cinf l.
Proof. intro l. unfold cinf. rewrite <- filter_rev, rev_length. reflexivity. Qed.

(* ---------------- the target half of the validity checker ---------------- *)
Section Weak.
Variable g : graph.

(* chronological; like [valid_logb] of the Gillespie component without the test that the
   source is infectious: every infection carries one sourced transmission entry with the
   same time and target, along an edge, and hits a susceptible node; every recovery hits
   an infectious node *)
Fixpoint valid_logT (st : node -> N) (evs : list ev) (txs : list tx) : bool :=
  match evs with
  | [] => match txs with [] => true | _ => false end
  | (t, x, s) :: evs' =>
    if N.eqb s stI then
      match txs with
      | (t', Some u, v) :: txs' =>
        Qeqb t t' && N.eqb v x && N.eqb (st x) stS && mem x (gadj g u) && valid_logT (fupdN st x s) evs' txs'
      | _ => false
      end
    else N.eqb s stS && N.eqb (st x) stI && valid_logT (fupdN st x s) evs' txs
  end.

Lemma valid_logT_app_rec : forall evs txs st t u,
  valid_logT st evs txs = true -> replay st evs u = stI ->
  valid_logT st (evs ++ [(t, u, stS)]) txs = true.
Proof.
  induction evs as [|[[t0 x] s] evs IH]; intros txs st t u Hv Hu.
  - cbn [app valid_logT]. destruct txs; [|discriminate Hv]. cbn [replay fold_left] in Hu.
    change (N.eqb stS stI) with false. cbv iota. rewrite Hu. reflexivity.
  - cbn [app valid_logT] in *. destruct (N.eqb s stI).
    + destruct txs as [|[[t' [u'|]] v'] txs']; try discriminate Hv.
      apply andb_true_iff in Hv. destruct Hv as [Hv1 Hv2]. rewrite Hv1. cbn [andb]. apply IH; assumption.
    + apply andb_true_iff in Hv. destruct Hv as [Hv1 Hv2]. rewrite Hv1. cbn [andb]. apply IH; assumption.
Qed.

Lemma valid_logT_app_tr : forall evs txs st t u v,
  valid_logT st evs txs = true -> replay st evs v = stS -> In v (gadj g u) ->
  valid_logT st (evs ++ [(t, v, stI)]) (txs ++ [(t, Some u, v)]) = true.
Proof.
  induction evs as [|[[t0 x] s] evs IH]; intros txs st t u v Hv Hs Ha.
  - cbn [app valid_logT]. destruct txs; [|discriminate Hv]. cbn [replay fold_left] in Hs.
    change (N.eqb stI stI) with true. cbv iota. cbn [app].
    unfold Qeqb. rewrite Qeq_bool_refl, N.eqb_refl, Hs. cbn [andb N.eqb]. rewrite andb_true_r. apply mem_In. exact Ha.
  - cbn [app valid_logT] in *. destruct (N.eqb s stI).
    + destruct txs as [|[[t' [u'|]] v'] txs']; try discriminate Hv. cbn [app].
      apply andb_true_iff in Hv. destruct Hv as [Hv1 Hv2]. rewrite Hv1. cbn [andb]. apply IH; assumption.
    + apply andb_true_iff in Hv. destruct Hv as [Hv1 Hv2]. rewrite Hv1. cbn [andb]. apply IH; assumption.
Qed.

Lemma elock_validT : forall tmax chk st0 rows0 evs txs rws st,
  elock g tmax chk st0 rows0 evs txs rws st -> valid_logT st0 (rev evs) (rev txs) = true.
Proof.
  intros tmax chk st0 rows0 evs txs rws st H.
  induction H as [|evs txs rws st t u H IH Hu|evs txs rws st t u v H IH Hu Hv Ha].
  - reflexivity.
  - cbn [rev]. apply valid_logT_app_rec; [exact IH|]. rewrite <- (elock_replay g tmax chk st0 rows0 _ _ _ _ H). exact Hu.
  - cbn [rev]. apply valid_logT_app_tr; [exact IH| |exact Ha]. rewrite <- (elock_replay g tmax chk st0 rows0 _ _ _ _ H). exact Hv.
Qed.

(* reading it, event by event: the k-th event changes a node that has the right status in
   the statuses replayed up to it; an infection has its transmission entry at the position
   given by the number of earlier infections, same time, same target, along an edge *)
Lemma valid_logT_read : forall evs txs st, valid_logT st evs txs = true ->
  forall k t x s, nth_error evs k = Some (t, x, s) ->
    (s = stI /\ replay st (firstn k evs) x = stS /\
     exists t' u, nth_error txs (cinf (firstn k evs)) = Some (t', Some u, x) /\ t == t' /\ In x (gadj g u)) \/
    (s = stS /\ replay st (firstn k evs) x = stI).
Proof.
  induction evs as [|[[t0 y] s0] evs IH]; intros txs st Hv k t x s Hk; [destruct k; discriminate Hk|].
  cbn [valid_logT] in Hv. destruct k as [|k].
  - cbn [nth_error] in Hk. injection Hk as -> -> ->. cbn [firstn replay fold_left cinf filter length].
    destruct (N.eqb_spec s stI) as [Es|Es].
    + destruct txs as [|[[t' [u'|]] v'] txs']; try discriminate Hv.
      repeat (apply andb_true_iff in Hv; destruct Hv as [Hv ?]).
      left. split; [exact Es|]. split; [apply N.eqb_eq; assumption|].
      exists t', u'. cbn [nth_error].
      match goal with H : N.eqb v' x = true |- _ => apply N.eqb_eq in H; subst v' end.
      split; [reflexivity|]. split; [apply Qeqb_true; assumption|apply mem_In; assumption].
    + repeat (apply andb_true_iff in Hv; destruct Hv as [Hv ?]). right.
      split; [apply N.eqb_eq; assumption|apply N.eqb_eq; assumption].
  - cbn [nth_error] in Hk. cbn [firstn]. unfold replay. cbn [fold_left]. fold (replay (apply_ev st (t0, y, s0)) (firstn k evs)).
    unfold cinf. cbn [filter ev_st snd]. fold (cinf (firstn k evs)). unfold apply_ev. cbn [ev_node ev_st fst snd].
    destruct (N.eqb s0 stI) eqn:Es.
    + destruct txs as [|[[t' [u'|]] v'] txs']; try discriminate Hv.
      apply andb_true_iff in Hv. destruct Hv as [_ Hv]. cbn [length nth_error].
      fold (cinf (firstn k evs)). apply (IH txs' _ Hv k t x s Hk).
    + apply andb_true_iff in Hv. destruct Hv as [_ Hv]. fold (cinf (firstn k evs)). apply (IH txs _ Hv k t x s Hk).
Qed.

(* every entry of txs is sourced and goes along an edge (none is left over) *)
Lemma valid_logT_sourced : forall evs txs st, valid_logT st evs txs = true ->
  Forall (fun x : tx => exists u, snd (fst x) = Some u /\ In (snd x) (gadj g u)) txs.
Proof.
  induction evs as [|[[t0 y] s0] evs IH]; intros txs st Hv; cbn [valid_logT] in Hv.
  - destruct txs; [constructor|discriminate Hv].
  - destruct (N.eqb s0 stI).
    + destruct txs as [|[[t' [u'|]] v'] txs']; try discriminate Hv.
      repeat (apply andb_true_iff in Hv; destruct Hv as [Hv ?]).
      match goal with H : N.eqb v' y = true |- _ => apply N.eqb_eq in H; subst v' end.
      constructor; [exists u'; split; [reflexivity|apply mem_In; assumption]|]. eapply IH. eassumption.
    + apply andb_true_iff in Hv. destruct Hv as [_ Hv]. eapply IH. exact Hv.
Qed.

End Weak.

(* with the source check: the source is infectious in the statuses replayed up to the event *)
Lemma valid_logb_read_src : forall g evs txs st, valid_logb g SIS st evs txs = true ->
  forall k t x, nth_error evs k = Some (t, x, stI) ->
    exists t' u, nth_error txs (cinf (firstn k evs)) = Some (t', Some u, x) /\
                 replay st (firstn k evs) u = stI.
Proof.
  intros g. induction evs as [|[[t0 y] s0] evs IH]; intros txs st Hv k t x Hk; [destruct k; discriminate Hk|].
  cbn [valid_logb] in Hv. destruct k as [|k].
  - cbn [nth_error] in Hk. injection Hk as -> -> ->. cbn [firstn replay fold_left cinf filter length].
    change (N.eqb stI stI) with true in Hv. cbv iota in Hv.
    destruct txs as [|[[t' [u'|]] v'] txs']; try discriminate Hv.
    repeat (apply andb_true_iff in Hv; destruct Hv as [Hv ?]).
    match goal with H : N.eqb v' x = true |- _ => apply N.eqb_eq in H; subst v' end.
    exists t', u'. split; [reflexivity|]. apply N.eqb_eq. assumption.
  - cbn [nth_error] in Hk. cbn [firstn]. unfold replay. cbn [fold_left]. fold (replay (apply_ev st (t0, y, s0)) (firstn k evs)).
    unfold cinf. cbn [filter ev_st snd]. fold (cinf (firstn k evs)). unfold apply_ev. cbn [ev_node ev_st fst snd].
    destruct (N.eqb s0 stI) eqn:Es.
    + destruct txs as [|[[t' [u'|]] v'] txs']; try discriminate Hv.
      apply andb_true_iff in Hv. destruct Hv as [_ Hv]. cbn [length nth_error].
      fold (cinf (firstn k evs)). apply (IH txs' _ Hv k t x Hk).
    + apply andb_true_iff in Hv. destruct Hv as [_ Hv]. fold (cinf (firstn k evs)). apply (IH txs _ Hv k t x Hk).
Qed.

(* ---------------- strictly before the recovery ---------------- *)
Lemma strict_ok_read : forall a txs r u b, strict_ok (a ++ (r, u, stS) :: b) txs = true ->
  forall t v, In (t, Some u, v) (skipn (cinf a) txs) -> t < r.
Proof.
  induction a as [|[[t0 v0] s0] a IH]; intros txs r u b H t v Hin.
  - cbn [app strict_ok] in H. change (N.eqb stS stI) with false in H. cbv iota in H.
    apply andb_true_iff in H. destruct H as [H _]. cbn [cinf filter length skipn] in Hin.
    rewrite forallb_forall in H. specialize (H _ Hin). cbn [fst snd] in H. rewrite N.eqb_refl in H.
    cbn [negb orb] in H. apply Qltb_true. exact H.
  - cbn [app strict_ok] in H. unfold cinf in Hin. cbn [filter ev_st snd] in Hin. destruct (N.eqb s0 stI).
    + destruct txs as [|x0 trest]; [discriminate H|]. cbn [length skipn] in Hin. apply (IH trest r u b H t v Hin).
    + apply andb_true_iff in H. destruct H as [_ H]. apply (IH txs r u b H t v Hin).
Qed.

(* chronological form: every transmission from u recorded before a recovery of u is
   strictly earlier than that recovery *)
Definition strict_chron (evs : list ev) (txs : list tx) : Prop :=
  forall pre r u post, evs = pre ++ (r, u, stS) :: post ->
    forall t v, In (t, Some u, v) (firstn (cinf pre) txs) -> t < r.

Lemma strict_ok_chron : forall evsN txsN, strict_ok evsN txsN = true -> length txsN = cinf evsN ->
  strict_chron (rev evsN) (rev txsN).
Proof.
  intros evsN txsN H Hl pre r u post E t v Hin.
  assert (EN : evsN = rev post ++ (r, u, stS) :: rev pre).
  { rewrite <- (rev_involutive evsN), E, rev_app_distr. cbn [rev]. rewrite <- app_assoc. reflexivity. }
  rewrite EN in H. apply (strict_ok_read (rev post) txsN r u (rev pre) H t v).
  rewrite firstn_rev in Hin. apply in_rev in Hin.
  replace (cinf (rev post)) with (length txsN - cinf pre)%nat; [exact Hin|].
  rewrite Hl, EN, cinf_app, !cinf_rev. unfold cinf at 2. cbn [filter ev_st snd]. change (N.eqb stS stI) with false. cbv iota.
  fold (cinf (rev pre)). rewrite cinf_rev. lia.
Qed.

(* ---------------- rows are the running counts: what that means row by row ---------------- *)
Lemma log_rows_nth : forall nodes ps (evs : list Investigation.event) st k e,
  nth_error evs k = Some e ->
  nth_error (log_rows nodes ps st evs) k =
    Some (ev_t e, map (count_status nodes (replay st (firstn (S k) evs))) ps).
Proof.
  intros nodes ps. induction evs as [|x evs IH]; intros st k e Hk; [destruct k; discriminate Hk|].
  destruct k as [|k].
  - cbn [nth_error] in Hk. injection Hk as ->. reflexivity.
  - cbn [nth_error] in Hk. cbn [log_rows nth_error]. rewrite (IH _ k e Hk). reflexivity.
Qed.

Lemma log_arrays_nth : forall nodes ps tmin st (evs : list Investigation.event) k e,
  nth_error evs k = Some e ->
  nth_error (log_arrays nodes ps tmin st evs) (S k) =
    Some (ev_t e, map (count_status nodes (replay st (firstn (S k) evs))) ps).
Proof. intros. unfold log_arrays. cbn [nth_error]. apply log_rows_nth. assumption. Qed.

(* ================================================================== *)
(* everything [finish] returns for lock-step logs *)
Section Output.
Variable g : graph.
Hypothesis Hnd : NoDup (gnodes g).
Variable tmin : Q.
Variable tmax : xtime.
Variable i0 : list node.
Hypothesis Hi0 : NoDup i0.
Hypothesis Hinc : incl i0 (gnodes g).

Record esis_output (chk : bool) (full : bool) (out : simout) (evs : list ev) (txs : list tx) : Prop := mkEO {
  (* C04 *)
  eo_traj : traj g SIS tmin tmax (so_rows out);
  eo_rows : so_rows out = log_arrays (gnodes g) [stS; stI] tmin (st_init i0 []) evs;
  eo_first : exists rs, so_rows out = (tmin, [order g - Z.of_nat (length i0); Z.of_nat (length i0)]%Z) :: rs;
  eo_events : Forall (fun e => xlt (ev_time e) tmax = true /\ In (ev_node e) (gnodes g) /\ (ev_st e = stI \/ ev_st e = stS)) evs;
  (* C09 *)
  eo_validT : valid_logT g (st_init i0 []) evs txs = true;
  eo_valid : chk = true -> valid_logb g SIS (st_init i0 []) evs txs = true;
  eo_ntx : length txs = cinf evs;
  eo_trans : full = true -> exists fd, so_full out = Some fd /\
               fd_trans fd = map (fun u => (tmin, None, u)) i0 ++ txs /\
               (* C10: histories are the projections of the log *)
               (increasing tmin evs = true ->
                  fd_hist fd = iv_hist (log_inv (gnodes g) [stS; stI] tmin (st_init i0 []) evs));
  eo_none : full = false -> so_full out = None;
  (* C10: summary of the projections = the rows *)
  eo_summary : gnodes g <> [] -> increasing tmin evs = true ->
               summary (log_inv (gnodes g) [stS; stI] tmin (st_init i0 []) evs) None = Ok (so_rows out)
}.

Lemma LL_output : forall chk evsN txsN lg st full,
  LL g tmin tmax i0 chk evsN txsN lg st ->
  esis_output chk full (finish g tmin full (length i0) lg) (rev evsN) (rev txsN).
Proof.
  intros chk evsN txsN lg st full HL.
  pose proof (out_times g tmin tmax i0 chk evsN txsN lg st HL) as [T1 T2].
  constructor.
  - apply (out_traj g Hnd tmin tmax i0 Hi0 Hinc chk evsN txsN lg st HL).
  - apply (out_rows g Hnd tmin tmax i0 Hi0 Hinc chk evsN txsN lg st HL).
  - apply (out_rows_first g Hnd tmin tmax i0 Hi0 Hinc chk evsN txsN lg st HL).
  - rewrite Forall_forall in *. intros e He. destruct (T2 e He) as [A B]. split; [apply T1; exact He|]. split; assumption.
  - destruct HL as [_ _ Hl]. apply (elock_validT g tmax chk _ _ _ _ _ _ Hl).
  - intro Hc. apply (out_valid g tmin tmax i0 chk evsN txsN lg st HL Hc).
  - destruct HL as [_ _ Hl]. destruct (elock_txs g tmax chk _ _ _ _ _ _ Hl) as [A _].
    rewrite rev_length, cinf_rev. unfold cinf. rewrite <- (map_length (fun x : tx => (fst (fst x), snd x)) txsN), A, map_length. reflexivity.
  - intro Hf. destruct (out_trans g tmin tmax i0 chk evsN txsN lg st HL full Hf) as [fd [F1 [F2 _]]].
    exists fd. split; [exact F1|]. split; [exact F2|]. intro Hinc2.
    destruct (out_hist g tmin tmax i0 Hi0 chk evsN txsN lg st HL full Hf Hinc2) as [fd' [G1 G2]].
    rewrite F1 in G1. injection G1 as <-. exact G2.
  - intro Hf. unfold finish. rewrite Hf. reflexivity.
  - intros Hne Hinc2. apply (out_summary g Hnd tmin tmax i0 Hi0 Hinc chk evsN txsN lg st HL full Hne Hinc2).
Qed.

End Output.

(* ================================================================== *)
(* fast_SIS, every draw script *)
Theorem fsis_output : forall g, NoDup (gnodes g) -> (forall u v, In v (gadj g u) -> In v (gnodes g)) ->
  forall tau gamma tmax tmin i0 full fuel ds out tr,
    xlt tmin tmax = true -> NoDup i0 -> incl i0 (gnodes g) ->
    exec (fast_SIS g tau gamma tmax (Some i0) None tmin full fuel) ds [] = (Ok out, tr) ->
    exists evs txs, esis_output g tmin tmax i0 true full out evs txs /\ strict_chron evs txs.
Proof.
  intros g Hnd Hadj tau gamma tmax tmin i0 full fuel ds out tr Hvis Hi0 Hinc H.
  destruct (fast_SIS_logs g Hnd Hadj tau gamma tmax tmin Hvis i0 Hi0 Hinc full fuel ds out tr H) as [evsN [txsN [lg [st [HL [Hst ->]]]]]].
  exists (rev evsN), (rev txsN).
  pose proof (LL_output g Hnd tmin tmax i0 Hi0 Hinc true evsN txsN lg st full HL) as HO.
  split; [exact HO|]. apply strict_ok_chron; [exact Hst|].
  pose proof (eo_ntx _ _ _ _ _ _ _ _ _ HO) as Hn. rewrite rev_length, cinf_rev in Hn. exact Hn.
Qed.

(* fast_nonMarkov_SIS, every rule table *)
Definition rules_ok (dur : node -> nat -> Q) (delays : node -> node -> nat -> list Q) : Prop :=
  (forall v k, 0 <= dur v k) /\
  (forall v w k, StronglySorted Qle (delays v w k) /\ Forall (fun d => 0 <= d) (delays v w k)).
(* the documented contract "all delays are before recovery", strict form *)
Definition rules_strict (dur : node -> nat -> Q) (delays : node -> node -> nat -> list Q) : Prop :=
  forall v w k d, In d (delays v w k) -> d < dur v k.

Theorem nmsis_output : forall g, NoDup (gnodes g) -> (forall u v, In v (gadj g u) -> In v (gnodes g)) ->
  forall dur delays tmax tmin i0 full fuel out,
    xlt tmin tmax = true -> NoDup i0 -> incl i0 (gnodes g) -> rules_ok dur delays ->
    nm_run g dur delays tmax tmin full fuel i0 = Ok out ->
    exists evs txs, esis_output g tmin tmax i0 false full out evs txs.
Proof.
  intros g Hnd Hadj dur delays tmax tmin i0 full fuel out Hvis Hi0 Hinc [Hdur Hdel] H.
  destruct (nm_run_logs g Hnd Hadj dur delays tmax tmin Hvis i0 Hi0 Hinc false Hdur Hdel
              (fun E => False_ind _ (Bool.diff_false_true E)) full fuel out H) as [evsN [txsN [lg [st [HL [_ ->]]]]]].
  exists (rev evsN), (rev txsN). apply (LL_output g Hnd tmin tmax i0 Hi0 Hinc false evsN txsN lg st full HL).
Qed.

Theorem nmsis_output_strict : forall g, NoDup (gnodes g) -> (forall u v, In v (gadj g u) -> In v (gnodes g)) ->
  forall dur delays tmax tmin i0 full fuel out,
    xlt tmin tmax = true -> NoDup i0 -> incl i0 (gnodes g) -> rules_ok dur delays -> rules_strict dur delays ->
    nm_run g dur delays tmax tmin full fuel i0 = Ok out ->
    exists evs txs, esis_output g tmin tmax i0 true full out evs txs /\ strict_chron evs txs.
Proof.
  intros g Hnd Hadj dur delays tmax tmin i0 full fuel out Hvis Hi0 Hinc [Hdur Hdel] Hs H.
  destruct (nm_run_logs g Hnd Hadj dur delays tmax tmin Hvis i0 Hi0 Hinc true Hdur Hdel (fun _ => Hs) full fuel out H)
    as [evsN [txsN [lg [st [HL [Hst ->]]]]]].
  exists (rev evsN), (rev txsN).
  pose proof (LL_output g Hnd tmin tmax i0 Hi0 Hinc true evsN txsN lg st full HL) as HO.
  split; [exact HO|]. apply strict_ok_chron; [exact (Hst eq_refl)|].
  pose proof (eo_ntx _ _ _ _ _ _ _ _ _ HO) as Hn. rewrite rev_length, cinf_rev in Hn. exact Hn.
Qed.

(* ================================================================== *)
(* the statements of Props/C04esis.v, C09esis.v, C10esis.v *)
Section Corollaries.
Variable g : graph.
Hypothesis Hnd : NoDup (gnodes g).
Hypothesis Hadj : forall u v, In v (gadj g u) -> In v (gnodes g).

Definition rows_spec (tmin : Q) (tmax : xtime) (i0 : list node) (out : simout) (evs : list ev) : Prop :=
  traj g SIS tmin tmax (so_rows out) /\
  (exists rs, so_rows out = (tmin, [order g - Z.of_nat (length i0); Z.of_nat (length i0)]%Z) :: rs) /\
  so_rows out = log_arrays (gnodes g) [stS; stI] tmin (st_init i0 []) evs /\
  Forall (fun e => xlt (ev_time e) tmax = true /\ In (ev_node e) (gnodes g) /\ (ev_st e = stI \/ ev_st e = stS)) evs.

Lemma eo_rows_spec : forall tmin tmax i0 chk full out evs txs,
  esis_output g tmin tmax i0 chk full out evs txs -> rows_spec tmin tmax i0 out evs.
Proof. intros tmin tmax i0 chk full out evs txs [A B C D _ _ _ _ _ _]. repeat split; assumption. Qed.

Theorem fsis_C04 : forall tau gamma tmax tmin i0 full fuel ds out tr,
  xlt tmin tmax = true -> NoDup i0 -> incl i0 (gnodes g) ->
  exec (fast_SIS g tau gamma tmax (Some i0) None tmin full fuel) ds [] = (Ok out, tr) ->
  exists evs, rows_spec tmin tmax i0 out evs.
Proof.
  intros tau gamma tmax tmin i0 full fuel ds out tr Hv Hi Hinc H.
  destruct (fsis_output g Hnd Hadj tau gamma tmax tmin i0 full fuel ds out tr Hv Hi Hinc H) as [evs [txs [HO _]]].
  exists evs. eapply eo_rows_spec. exact HO.
Qed.

Theorem nmsis_C04 : forall dur delays tmax tmin i0 full fuel out,
  xlt tmin tmax = true -> NoDup i0 -> incl i0 (gnodes g) -> rules_ok dur delays ->
  nm_run g dur delays tmax tmin full fuel i0 = Ok out ->
  exists evs, rows_spec tmin tmax i0 out evs.
Proof.
  intros dur delays tmax tmin i0 full fuel out Hv Hi Hinc Hr H.
  destruct (nmsis_output g Hnd Hadj dur delays tmax tmin i0 full fuel out Hv Hi Hinc Hr H) as [evs [txs HO]].
  exists evs. eapply eo_rows_spec. exact HO.
Qed.

(* C09: full data *)
Definition trans_specW (tmin : Q) (i0 : list node) (out : simout) (evs : list ev) (txs : list tx) : Prop :=
  (exists fd, so_full out = Some fd /\ fd_trans fd = map (fun u => (tmin, None, u)) i0 ++ txs) /\
  so_rows out = log_arrays (gnodes g) [stS; stI] tmin (st_init i0 []) evs /\
  length txs = cinf evs /\
  valid_logT g (st_init i0 []) evs txs = true.
Definition trans_spec (strong : bool) (tmin : Q) (i0 : list node) (out : simout) (evs : list ev) (txs : list tx) : Prop :=
  trans_specW tmin i0 out evs txs /\
  (if strong then valid_logb g SIS (st_init i0 []) evs txs = true /\ strict_chron evs txs else True).

Theorem fsis_C09 : forall tau gamma tmax tmin i0 fuel ds out tr,
  xlt tmin tmax = true -> NoDup i0 -> incl i0 (gnodes g) ->
  exec (fast_SIS g tau gamma tmax (Some i0) None tmin true fuel) ds [] = (Ok out, tr) ->
  exists evs txs, trans_spec true tmin i0 out evs txs.
Proof.
  intros tau gamma tmax tmin i0 fuel ds out tr Hv Hi Hinc H.
  destruct (fsis_output g Hnd Hadj tau gamma tmax tmin i0 true fuel ds out tr Hv Hi Hinc H) as [evs [txs [HO Hs]]].
  exists evs, txs. destruct HO as [_ B _ _ E F G T _ _]. destruct (T eq_refl) as [fd [T1 [T2 _]]].
  split; [split; [exists fd; split; assumption|]; split; [exact B|]; split; [exact G|exact E]|].
  split; [apply F; reflexivity|exact Hs].
Qed.

Theorem nmsis_C09 : forall dur delays tmax tmin i0 fuel out,
  xlt tmin tmax = true -> NoDup i0 -> incl i0 (gnodes g) -> rules_ok dur delays ->
  nm_run g dur delays tmax tmin true fuel i0 = Ok out ->
  exists evs txs, trans_spec false tmin i0 out evs txs.
Proof.
  intros dur delays tmax tmin i0 fuel out Hv Hi Hinc Hr H.
  destruct (nmsis_output g Hnd Hadj dur delays tmax tmin i0 true fuel out Hv Hi Hinc Hr H) as [evs [txs HO]].
  exists evs, txs. destruct HO as [_ B _ _ E F G T _ _]. destruct (T eq_refl) as [fd [T1 [T2 _]]].
  split; [split; [exists fd; split; assumption|]; split; [exact B|]; split; [exact G|exact E]|].
  exact I.
Qed.

Theorem nmsis_C09W : forall dur delays tmax tmin i0 fuel out,
  xlt tmin tmax = true -> NoDup i0 -> incl i0 (gnodes g) -> rules_ok dur delays ->
  nm_run g dur delays tmax tmin true fuel i0 = Ok out ->
  exists evs txs, trans_specW tmin i0 out evs txs.
Proof.
  intros dur delays tmax tmin i0 fuel out Hv Hi Hinc Hr H.
  destruct (nmsis_C09 dur delays tmax tmin i0 fuel out Hv Hi Hinc Hr H) as [evs [txs [K _]]]. exists evs, txs. exact K.
Qed.

Theorem nmsis_C09_strict : forall dur delays tmax tmin i0 fuel out,
  xlt tmin tmax = true -> NoDup i0 -> incl i0 (gnodes g) -> rules_ok dur delays -> rules_strict dur delays ->
  nm_run g dur delays tmax tmin true fuel i0 = Ok out ->
  exists evs txs, trans_spec true tmin i0 out evs txs.
Proof.
  intros dur delays tmax tmin i0 fuel out Hv Hi Hinc Hr Hs H.
  destruct (nmsis_output_strict g Hnd Hadj dur delays tmax tmin i0 true fuel out Hv Hi Hinc Hr Hs H) as [evs [txs [HO Hst]]].
  exists evs, txs. destruct HO as [_ B _ _ E F G T _ _]. destruct (T eq_refl) as [fd [T1 [T2 _]]].
  split; [split; [exists fd; split; assumption|]; split; [exact B|]; split; [exact G|exact E]|].
  split; [apply F; reflexivity|exact Hst].
Qed.

(* C10 *)
Definition summary_spec (tmin : Q) (i0 : list node) (out : simout) (evs : list ev) : Prop :=
  exists fd, so_full out = Some fd /\
    so_rows out = log_arrays (gnodes g) [stS; stI] tmin (st_init i0 []) evs /\
    (increasing tmin evs = true ->
       fd_hist fd = iv_hist (log_inv (gnodes g) [stS; stI] tmin (st_init i0 []) evs) /\
       (gnodes g <> [] ->
        summary (log_inv (gnodes g) [stS; stI] tmin (st_init i0 []) evs) None = Ok (so_rows out))).

Lemma eo_summary_spec : forall tmin tmax i0 chk out evs txs,
  esis_output g tmin tmax i0 chk true out evs txs -> summary_spec tmin i0 out evs.
Proof.
  intros tmin tmax i0 chk out evs txs [_ B _ _ _ _ _ T _ S]. destruct (T eq_refl) as [fd [T1 [_ T3]]].
  exists fd. split; [exact T1|]. split; [exact B|]. intro Hi. split; [apply T3; exact Hi|].
  intro Hne. apply S; assumption.
Qed.

Theorem fsis_C10 : forall tau gamma tmax tmin i0 fuel ds out tr,
  xlt tmin tmax = true -> NoDup i0 -> incl i0 (gnodes g) ->
  exec (fast_SIS g tau gamma tmax (Some i0) None tmin true fuel) ds [] = (Ok out, tr) ->
  exists evs, summary_spec tmin i0 out evs.
Proof.
  intros tau gamma tmax tmin i0 fuel ds out tr Hv Hi Hinc H.
  destruct (fsis_output g Hnd Hadj tau gamma tmax tmin i0 true fuel ds out tr Hv Hi Hinc H) as [evs [txs [HO _]]].
  exists evs. eapply eo_summary_spec. exact HO.
Qed.

Theorem nmsis_C10 : forall dur delays tmax tmin i0 fuel out,
  xlt tmin tmax = true -> NoDup i0 -> incl i0 (gnodes g) -> rules_ok dur delays ->
  nm_run g dur delays tmax tmin true fuel i0 = Ok out ->
  exists evs, summary_spec tmin i0 out evs.
Proof.
  intros dur delays tmax tmin i0 fuel out Hv Hi Hinc Hr H.
  destruct (nmsis_output g Hnd Hadj dur delays tmax tmin i0 true fuel out Hv Hi Hinc Hr H) as [evs [txs HO]].
  exists evs. eapply eo_summary_spec. exact HO.
Qed.

(* the same with an observable hypothesis: the returned times are strictly increasing *)
Lemma ascending_log_rows : forall nodes ps (evs : list Investigation.event) st prev,
  ascending (prev :: map fst (log_rows nodes ps st evs)) = increasing prev evs.
Proof.
  intros nodes ps. induction evs as [|e evs IH]; intros st prev; [reflexivity|].
  cbn [log_rows map fst increasing]. rewrite <- (IH (fupdN st (ev_u e) (ev_s e)) (ev_t e)). reflexivity.
Qed.

Lemma summary_spec_obs : forall tmin i0 out evs, summary_spec tmin i0 out evs ->
  ascending (map fst (so_rows out)) = true -> gnodes g <> [] ->
  exists fd, so_full out = Some fd /\
    summary (mkInv (gnodes g) (fd_hist fd) None (Some [stS; stI])) None = Ok (so_rows out).
Proof.
  intros tmin i0 out evs [fd [F1 [F2 F3]]] Ha Hne. exists fd. split; [exact F1|].
  assert (Hi : increasing tmin evs = true).
  { rewrite F2 in Ha. unfold log_arrays in Ha. cbn [map fst] in Ha. rewrite ascending_log_rows in Ha. exact Ha. }
  destruct (F3 Hi) as [K1 K2]. rewrite K1. apply K2. exact Hne.
Qed.

Theorem fsis_C10_obs : forall tau gamma tmax tmin i0 fuel ds out tr,
  xlt tmin tmax = true -> NoDup i0 -> incl i0 (gnodes g) -> gnodes g <> [] ->
  exec (fast_SIS g tau gamma tmax (Some i0) None tmin true fuel) ds [] = (Ok out, tr) ->
  ascending (map fst (so_rows out)) = true ->
  exists fd, so_full out = Some fd /\
    summary (mkInv (gnodes g) (fd_hist fd) None (Some [stS; stI])) None = Ok (so_rows out).
Proof.
  intros tau gamma tmax tmin i0 fuel ds out tr Hv Hi Hinc Hne H Ha.
  destruct (fsis_C10 tau gamma tmax tmin i0 fuel ds out tr Hv Hi Hinc H) as [evs K].
  apply (summary_spec_obs tmin i0 out evs K Ha Hne).
Qed.

Theorem nmsis_C10_obs : forall dur delays tmax tmin i0 fuel out,
  xlt tmin tmax = true -> NoDup i0 -> incl i0 (gnodes g) -> gnodes g <> [] -> rules_ok dur delays ->
  nm_run g dur delays tmax tmin true fuel i0 = Ok out ->
  ascending (map fst (so_rows out)) = true ->
  exists fd, so_full out = Some fd /\
    summary (mkInv (gnodes g) (fd_hist fd) None (Some [stS; stI])) None = Ok (so_rows out).
Proof.
  intros dur delays tmax tmin i0 fuel out Hv Hi Hinc Hne Hr H Ha.
  destruct (nmsis_C10 dur delays tmax tmin i0 fuel out Hv Hi Hinc Hr H) as [evs K].
  apply (summary_spec_obs tmin i0 out evs K Ha Hne).
Qed.

End Corollaries.
