(* C09 for Gillespie_simple_contagion in the vocabulary of the full-data object's own API: at the
   time t of a recorded transmission (t, u, v), node_status(u, t) of the returned
   Simulation_Investigation is the inducing status A and node_status(v, t) is the new status C of
   an edge (A,B)->(A,C) of J, B being v's status just before (no two events at one instant). *)
From EoNV Require Import Prelude Samp Graph ListDict ListDictP Gillespie KldP GillespieInv SampP Simple SimpleP
  SimpleExecS SimpleExec SimpleExecLog SimpleExecTop SimpleExecTx.
From EoNV Require Import Investigation InvestigationP.

Lemma state_after_ev3 : forall a st, state_after st (map ev3 a) = statuses_after st a.
Proof.
  induction a as [|e a IH]; intro st; [reflexivity|].
  unfold state_after, statuses_after in *. cbn [map fold_left]. apply IH.
Qed.

Theorem tx_entry_node_status : forall g (Hg : wfg2 g) H J rstat tmax ic tmin a e b st' t' u,
  glog g H J tmax ic tmin (a ++ e :: b) st' t' -> ge_src e = Some u ->
  increasing tmin (map ev3 (a ++ e :: b)) = true ->
  let iv := log_inv (gnodes g) rstat tmin ic (map ev3 (a ++ e :: b)) in
  let A := statuses_after ic a u in
  node_status iv u (ge_t e) = Ok A /\
  node_status iv (ge_node e) (ge_t e) = Ok (ge_new e) /\
  statuses_after ic a (ge_node e) = ge_old e /\
  In (ge_node e) (gadj g u) /\
  exists tr, In tr J /\ 0 < tr_rate tr /\ tr_from tr = [A; ge_old e] /\ snd_status (tr_to tr) = ge_new e.
Proof.
  intros g Hg H J rstat tmax ic tmin a e b st' t' u Hl Hs Hinc iv A.
  destruct (tx_entry_valid g H J tmax a ic tmin e b st' t' u Hl Hs) as [Hu [Hv [Hadj [Hold [Htr [Hnew Hoth]]]]]].
  assert (Hne : u <> ge_node e).
  { intro E. rewrite <- E in Hadj. exact (g_noself g Hg u Hu Hadj). }
  assert (El : map ev3 (a ++ e :: b) = map ev3 a ++ ev3 e :: map ev3 b) by (rewrite map_app; reflexivity).
  assert (Hst : forall x, In x (gnodes g) ->
            node_status iv x (ge_t e) = Ok (statuses_after ic (a ++ [e]) x)).
  { intros x Hx. unfold node_status, iv. rewrite (log_hist_of (gnodes g) rstat tmin ic _ x Hx). cbn [rbind].
    change (ge_t e) with (ev_t (ev3 e)).
    rewrite (status_after_event tmin ic x _ Hinc (map ev3 a) (ev3 e) (map ev3 b) El).
    f_equal. rewrite <- state_after_ev3, map_app. reflexivity. }
  split; [rewrite (Hst u Hu); f_equal; apply Hoth; exact Hne|].
  split; [rewrite (Hst _ Hv); f_equal; exact Hnew|].
  split; [exact Hold|]. split; [exact Hadj|exact Htr].
Qed.
