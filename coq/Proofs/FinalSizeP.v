(* Final size.  For a transmission table T (a function of the contact), the run to extinction
   (tmax = None) of discrete_SIR ends with R = |r0| + the number of nodes reachable from the
   initially infected nodes by walks of successful contacts avoiding r0 (the out-component of
   i0 in the percolated digraph).  Combined with the law theorem of Proofs/DiscreteLawP.v this
   gives the law of the final size of basic_discrete_SIR. *)
From EoNV Require Import Prelude Samp Graph Discrete DiscreteP DiscreteO DiscreteOP DeferredP DiscreteLawP.
From Coq Require Import Permutation Lqa.

Section Reach.
Variable g : graph.
Variable tt : node -> node -> nat -> bool.
Variables i0 r0 : list node.
Hypothesis Hnd : NoDup (gnodes g).
Hypothesis Hadj : forall u v, In u (gnodes g) -> In v (gadj g u) -> In v (gnodes g).
Hypothesis Hi0 : forall v, In v i0 -> In v (gnodes g).
Hypothesis Hdisj : forall v, In v i0 -> ~ In v r0.

Notation T := (T0 tt).
Notation SG := (Sg g T i0 r0).
Notation IG := (Ig g T i0 r0).
Notation WALK := (walk g T i0 r0).

Lemma filter_none : forall (A : Type) (f : A -> bool) l, (forall x, f x = false) -> filter f l = [].
Proof. intros A f l H. induction l as [|x l IH]; [reflexivity|]. cbn [filter]. rewrite H. exact IH. Qed.

Lemma Ig_empty_next : forall k, IG k = [] -> IG (S k) = [].
Proof.
  intros k H. unfold Ig. cbn [gen gen_next snd]. fold (IG k). rewrite H. apply filter_none. intro v. reflexivity.
Qed.

Lemma Ig_empty_later : forall K j, IG K = [] -> (K <= j)%nat -> IG j = [].
Proof.
  intros K j H Hj. induction Hj as [|j Hj IH]; [exact H|]. apply Ig_empty_next. exact IH.
Qed.

Lemma walk_in : forall v n, WALK v n -> In v (gnodes g) /\ ~ In v r0.
Proof.
  intros v n H. destruct H as [v Hv|u v n Hu [Hug [Ha [_ Hr]]]].
  - split; [apply Hi0; exact Hv|apply Hdisj; exact Hv].
  - split; [apply Hadj with u; assumption|exact Hr].
Qed.

Lemma left_Sg : forall n v, In v (gnodes g) -> ~ In v r0 -> ~ In v (SG n) ->
  exists j, (j <= n)%nat /\ In v (IG j).
Proof.
  induction n as [|n IH]; intros v Hv Hr Hs.
  - exists O. split; [lia|]. unfold Ig. cbn [gen gen0 snd]. apply canon_In. split; [exact Hv|].
    unfold Sg in Hs. cbn [gen gen0 fst] in Hs. rewrite filter_In in Hs.
    destruct (mem v i0) eqn:Ei; [apply dmem_In; exact Ei|]. exfalso. apply Hs. split; [exact Hv|].
    apply dmem_false in Hr. rewrite Hr. reflexivity.
  - destruct (mem v (SG n)) eqn:Es.
    + exists (S n). split; [lia|]. apply dmem_In in Es.
      unfold Sg in Hs. cbn [gen gen_next fst] in Hs. fold (SG n) in Hs. fold (IG n) in Hs.
      rewrite filter_In in Hs. change (filter (hit g T (IG n)) (SG n)) with (IG (S n)) in Hs.
      destruct (mem v (IG (S n))) eqn:Ei; [apply dmem_In; exact Ei|]. exfalso. apply Hs. split; [exact Es|reflexivity].
    + apply dmem_false in Es. destruct (IH v Hv Hr Es) as [j [Hj Hin]]. exists j. split; [lia|exact Hin].
Qed.

Lemma walk_level : forall v n, WALK v n -> exists j, (j <= n)%nat /\ In v (IG j).
Proof.
  intros v n H. destruct (walk_in v n H) as [Hv Hr]. apply left_Sg; [exact Hv|exact Hr|].
  intro Hs. apply (gen_inv g T i0 r0 Hadj Hi0 n) in Hs. destruct Hs as [_ [_ Hs]]. apply (Hs n); [lia|exact H].
Qed.

Lemma level_unique : forall v j j', In v (IG j) -> In v (IG j') -> j = j'.
Proof.
  intros v j j' H1 H2. apply (gen_is_bfs g T i0 r0 Hadj Hi0) in H1. apply (gen_is_bfs g T i0 r0 Hadj Hi0) in H2.
  destruct H1 as [W1 M1]. destruct H2 as [W2 M2].
  destruct (Nat.lt_trichotomy j j') as [L|[E|L]]; [|exact E|].
  - exfalso. apply (M2 j L W1).
  - exfalso. apply (M1 j' L W2).
Qed.

(* the nodes of the generations 0 .. K-1 *)
Fixpoint comp (K : nat) : list node := match K with O => [] | S k => comp k ++ IG k end.

Lemma comp_In : forall K v, In v (comp K) <-> exists j, (j < K)%nat /\ In v (IG j).
Proof.
  induction K as [|K IH]; intro v; cbn [comp].
  - split; [intros []|intros [j [Hj _]]; lia].
  - rewrite in_app_iff, IH. split.
    + intros [[j [Hj H]]|H]; [exists j; split; [lia|exact H]|exists K; split; [lia|exact H]].
    + intros [j [Hj H]]. destruct (Nat.eq_dec j K) as [E|E]; [subst j; right; exact H|].
      left. exists j. split; [lia|exact H].
Qed.

Lemma comp_NoDup : forall K, NoDup (comp K).
Proof.
  induction K as [|K IH]; cbn [comp]; [constructor|].
  apply NoDup_app_disj; [exact IH|apply Ig_NoDup; exact Hnd|].
  intros v H1 H2. apply comp_In in H1. destruct H1 as [j [Hj H1]].
  pose proof (level_unique v j K H1 H2). lia.
Qed.

Lemma comp_count : forall K, Rg g tt i0 r0 K = (lenZ r0 + lenZ (comp K))%Z.
Proof.
  induction K as [|K IH]; cbn [Rg comp].
  - unfold lenZ. cbn [length]. lia.
  - rewrite IH. unfold lenZ. rewrite app_length. lia.
Qed.

(* when the epidemic has died out at step K, generations 0..K-1 are exactly the reachable nodes *)
Lemma comp_reach : forall K, IG K = [] -> forall v, In v (comp K) <-> exists n, WALK v n.
Proof.
  intros K HK v. rewrite comp_In. split.
  - intros [j [_ H]]. exists j. apply (gen_is_bfs g T i0 r0 Hadj Hi0) in H. apply H.
  - intros [n H]. destruct (walk_level v n H) as [j [_ Hj]]. exists j. split; [|exact Hj].
    destruct (Nat.lt_ge_cases j K) as [L|L]; [exact L|].
    rewrite (Ig_empty_later K j HK L) in Hj. destruct Hj.
Qed.

Lemma final_size_reach : forall tmin K (C : list node),
  first_stop g tt i0 r0 tmin None K -> NoDup C -> (forall v, In v C <-> exists n, WALK v n) ->
  Rg g tt i0 r0 K = (lenZ r0 + lenZ C)%Z.
Proof.
  intros tmin K C [_ Hst] HC HCr.
  assert (HK : IG K = []).
  { unfold stop in Hst. apply negb_true_iff in Hst. cbn [xlt] in Hst. rewrite andb_true_r in Hst.
    destruct (IG K); [reflexivity|discriminate]. }
  rewrite comp_count. f_equal. unfold lenZ. f_equal. apply Permutation_length.
  apply NoDup_Permutation; [apply comp_NoDup|exact HC|].
  intro v. rewrite (comp_reach K HK), HCr. reflexivity.
Qed.

End Reach.

(* the last row's recovered count *)
Definition rows_final_R (rows : list row) : Z :=
  match rev rows with (_, [_; _; r]) :: _ => r | _ => 0%Z end.
Definition final_R (o : dout) : Z := rows_final_R (so_rows (o_sim o)).

Lemma final_R_l1 : forall g tt i0 r0 tmin K, rows_final_R (l1_rows g tt i0 r0 tmin K) = Rg g tt i0 r0 K.
Proof.
  intros. unfold rows_final_R, l1_rows. rewrite rev_involutive. destruct K; reflexivity.
Qed.

Section FinalLaw.
Variable g : graph.
Variable p : Q.
Variable ord : nat -> list node -> list node.
Variable i0 : list node.
Variable r0o : option (list node).
Variable tmin : Q.
Variable fuel : nat.
Hypothesis Harcs : arcs_nodupb g = true.
Hypothesis Hwf : wf_inputb g i0 (opt_list r0o) = true.
Hypothesis Hord : perm_oracle ord.
Hypothesis Hfuel : (length (gnodes g) < fuel)%nat.

(* law of the final recovered count at any horizon: that of R_K of the percolated digraph *)
Lemma dsir_final_R_law : forall tmax (P : Z -> bool) (h : list arc -> Q),
  (forall kept K, first_stop g (ttk kept) i0 (opt_list r0o) tmin tmax K ->
                  h kept == if P (Rg g (ttk kept) i0 (opt_list r0o) K) then 1 else 0) ->
  prob (fun o => P (final_R o))
       (law (basic_discrete_SIR g p ord (Some i0) r0o None tmin tmax false fuel)) ==
  expect (clamp01 p) (contacts g (gnodes g)) h.
Proof.
  intros tmax P h Hh.
  apply (dsir_rows_law g p ord i0 r0o tmin tmax fuel Harcs Hwf Hord Hfuel (fun rows => P (rows_final_R rows)) h).
  intros kept K Hst. rewrite final_R_l1. apply Hh. exact Hst.
Qed.

(* run to extinction: the final size is |r0| + the size of the out-component of i0 in the
   percolated digraph (walks of kept arcs avoiding r0) *)
Lemma dsir_final_size_law : forall (P : Z -> bool) (h : list arc -> Q),
  (forall kept C, NoDup C ->
     (forall v, In v C <-> exists n, walk g (T0 (ttk kept)) i0 (opt_list r0o) v n) ->
     h kept == if P (lenZ (opt_list r0o) + lenZ C)%Z then 1 else 0) ->
  prob (fun o => P (final_R o))
       (law (basic_discrete_SIR g p ord (Some i0) r0o None tmin None false fuel)) ==
  expect (clamp01 p) (contacts g (gnodes g)) h.
Proof.
  intros P h Hh. apply dsir_final_R_law. intros kept K Hst.
  destruct (wf_input_props g i0 _ Hwf) as [Hnd [Hadj [Hi0 [Hr0 [Hi0nd [Hr0nd Hdisj]]]]]].
  pose proof (comp_NoDup g (ttk kept) i0 (opt_list r0o) Hnd Hadj Hi0 K) as HC.
  assert (HK : Ig g (T0 (ttk kept)) i0 (opt_list r0o) K = []).
  { destruct Hst as [_ Hst]. unfold stop in Hst. apply negb_true_iff in Hst. cbn [xlt] in Hst.
    rewrite andb_true_r in Hst. destruct (Ig g (T0 (ttk kept)) i0 (opt_list r0o) K); [reflexivity|discriminate]. }
  rewrite (Hh kept (comp g (ttk kept) i0 (opt_list r0o) K) HC
             (comp_reach g (ttk kept) i0 (opt_list r0o) Hadj Hi0 Hdisj K HK)).
  rewrite <- comp_count. reflexivity.
Qed.

End FinalLaw.
