(* Gillespie_simple_contagion under EVERY draw script (the exec-level reading of C03).
   [srun t s l t' s'] : from a loop head (time t, state s) the loop performs a sequence of
   steps and is at the loop head (t', s'), having made exactly the calls l to the random
   source.  One [step]: the total rate is positive, expovariate(total rate) answered d >= 0
   with t + d < tmax, random() selected a transition whose share rate*total_weight/total
   is positive, choose_random returned an actor that is present in that transition's
   _ListDict_ with a positive weight, and [fire] (status change + incremental update)
   returned the next state without error.
   [loop_reacht] / [loop_rerr] : every result of [exec (loop ...)] is a [srun] followed by
   the stop rule and [finish]; the only failures are fuel and the full-data constructor. *)
From EoNV Require Import Prelude Samp Graph ListDict ListDictP Gillespie KldP GillespieInv SampP Simple SimpleP SimpleExecS.
From Coq Require Import Permutation Lqa.

Definition slots (s : sst) : list slot := s_sp s ++ s_in s.
Definition shares (s : sst) : list Q := map (fun sl => slot_rate sl / total_rate s) (slots s).

Lemma lifts_reacht : forall A (r : result A) l a, reacht (lifts r) l a -> r = Ok a /\ l = [].
Proof.
  intros A [x|e] l a H; cbn [lifts] in H; inversion H; subst. split; reflexivity.
Qed.
Lemma lifts_rerr : forall A (r : result A) e, rerr (lifts r) e -> r = Err e.
Proof.
  intros A [x|e0] e H; cbn [lifts] in H; inversion H; subst. reflexivity.
Qed.

Lemma shares_sum : forall s, 0 < total_rate s -> sumQ (shares s) == 1.
Proof.
  intros s H. unfold shares. rewrite (sumQ_div _ slot_rate).
  change (sumQ (map slot_rate (slots s))) with (total_rate s). field. lra.
Qed.

Section Run.
Variable g : graph.
Hypothesis Hg : wfg2 g.
Variable ic : node -> N.
Variable rstat : list N.
Variable tmin : Q.
Variable tmax : xtime.
Variable full : bool.

(* the cell selected by a valid uniform draw is a transition with a positive rate share *)
Lemma casc_slot : forall s d, 0 < total_rate s -> 0 <= d -> d < 1 ->
  exists sl, nth_error (slots s) (casc_index (shares s) d 0) = Some sl /\ 0 < slot_rate sl.
Proof.
  intros s d Ht Hd0 Hd1.
  assert (Hs : d < sumQ (shares s)) by (rewrite (shares_sum s Ht); exact Hd1).
  destruct (casc_index_pos (shares s) d 0 Hd0 Hs) as [k [Ek [Hk [p [Hp Hpos]]]]].
  rewrite Ek. cbn [Nat.add]. unfold shares in Hp. rewrite nth_error_map in Hp.
  destruct (nth_error (slots s) k) as [sl|]; [|discriminate Hp]. cbn [option_map] in Hp.
  injection Hp as Hp. exists sl. split; [reflexivity|]. subst p.
  destruct (Qlt_le_dec 0 (slot_rate sl)) as [H|H]; [exact H|exfalso].
  assert (Hq : slot_rate sl / total_rate s <= 0).
  { unfold Qdiv. rewrite <- (Qmult_0_l (/ total_rate s)). apply Qmult_le_compat_r; [exact H|].
    apply Qlt_le_weak. apply Qinv_lt_0_compat. exact Ht. }
  lra.
Qed.

(* a transition with positive rate share offers at least one candidate *)
Lemma pos_rate_cands : forall s sl, SInv g s -> In sl (slots s) -> 0 < slot_rate sl ->
  kl_cands (sl_pot sl) <> [].
Proof.
  intros s sl HI Hin Hpos Hc.
  pose proof (slot_inv_of g s sl HI Hin) as Hok.
  pose proof (total_weight_aw _ (so_inv sl Hok)) as Htw.
  pose proof (kl_cands_length (sl_pot sl)) as Hl. rewrite Hc in Hl. cbn [length] in Hl.
  destruct (items (sl_pot sl)) as [|x r]; [|discriminate Hl].
  cbn [map] in Htw. unfold slot_rate in Hpos. rewrite Htw in Hpos. unfold sumQ in Hpos. cbn [fold_right] in Hpos. lra.
Qed.

(* what one selection returns, and the calls it makes *)
Lemma select_reacht : forall s l i a, SInv g s -> 0 < total_rate s -> reacht (select s) l (i, a) ->
  exists sl l0, nth_error (slots s) i = Some sl /\ 0 < slot_rate sl /\ sabs sl a <> None /\ 0 < wgt sl a /\
    l = CCasc (shares s) :: l0 /\ choose_calls (weighted (sl_pot sl)) (kl_cands (sl_pot sl)) l0.
Proof.
  intros s l i a HI Ht H. unfold select in H.
  apply reacht_casc_inv in H. destruct H as [d [l' [El [Hd0 [Hd1 Hk]]]]].
  destruct (casc_slot s d Ht Hd0 Hd1) as [sl [Enth Hpos]].
  unfold shares, slots in Enth. rewrite Enth in Hk.
  apply reacht_choose_inv in Hk. destruct Hk as [x [q [l0 [l1 [El' [Hin [Hq [Hc Hr]]]]]]]].
  apply reacht_ret_inv in Hr. destruct Hr as [Er El1]. injection Er as Ei Ea. subst x l1 l' i.
  apply kl_cands_in in Hin. destruct Hin as [Hitems Eq].
  pose proof (nth_error_In _ _ Enth) as Hsl.
  pose proof (slot_inv_of g s sl HI Hsl) as Hok.
  exists sl, l0. split; [exact Enth|]. split; [exact Hpos|]. split.
  { unfold sabs. rewrite (aw_abs _ _ (so_inv sl Hok) Hitems). discriminate. }
  split.
  { rewrite <- (aw_is_wgt g s sl a HI Hsl Hitems). unfold aw in *.
    destruct (weighted (sl_pot sl)); [subst q; apply Hq; reflexivity|reflexivity]. }
  split; [rewrite El, app_nil_r; reflexivity|exact Hc].
Qed.

Lemma select_rerr : forall s e, SInv g s -> 0 < total_rate s -> rerr (select s) e -> False.
Proof.
  intros s e HI Ht H. unfold select in H.
  apply rerr_casc_inv in H. destruct H as [d [Hd0 [Hd1 Hk]]].
  destruct (casc_slot s d Ht Hd0 Hd1) as [sl [Enth Hpos]].
  unfold shares, slots in Enth. rewrite Enth in Hk.
  apply rerr_choose_inv in Hk. destruct Hk as [[Ec _]|[x [q [_ [_ Hr]]]]].
  - revert Ec. apply (pos_rate_cands s sl HI (nth_error_In _ _ Enth) Hpos).
  - exact (rerr_ret_inv _ _ _ Hr).
Qed.

(* one step of the loop *)
Definition step (t : Q) (s : sst) (l : list call) (t1 : Q) (s1 : sst) : Prop :=
  0 < total_rate s /\
  exists d i a sl l0,
    0 <= d /\ t1 = t + d /\ xlt t1 tmax = true /\
    nth_error (slots s) i = Some sl /\ 0 < slot_rate sl /\ sabs sl a <> None /\ 0 < wgt sl a /\
    fire g rstat full t1 s (i, a) = Ok s1 /\
    l = CExpo (total_rate s) :: CCasc (shares s) :: l0 /\
    choose_calls (weighted (sl_pot sl)) (kl_cands (sl_pot sl)) l0.

Inductive srun : Q -> sst -> list call -> Q -> sst -> Prop :=
| srun_refl : forall t s, srun t s [] t s
| srun_step : forall t s l1 t1 s1 l2 t2 s2,
    step t s l1 t1 s1 -> srun t1 s1 l2 t2 s2 -> srun t s (l1 ++ l2) t2 s2.

(* the stop rule: nothing enabled (no call at all: delay = Inf), or a last waiting time
   drawn with the total rate that carries the clock to tmax or beyond *)
Definition stop (t : Q) (s : sst) (l : list call) : Prop :=
  (~ 0 < total_rate s /\ l = []) \/
  (0 < total_rate s /\ l = [CExpo (total_rate s)] /\ exists d, 0 <= d /\ xlt (t + d) tmax = false).

Lemma loop_unfold : forall fuel t s,
  loop g ic rstat tmin tmax full fuel t s =
  if Qltb 0 (total_rate s) then
    Expo (total_rate s) (fun d =>
      if xlt (t + d) tmax then
        match fuel with
        | O => Fail OutOfFuel
        | S f => bind (jump g rstat full (t + d) s) (fun s' => loop g ic rstat tmin tmax full f (t + d) s')
        end
      else lifts (finish g ic rstat tmin full s))
  else lifts (finish g ic rstat tmin full s).
Proof. intros [|f] t s; reflexivity. Qed.

Lemma jump_reacht : forall t1 s l s1, SInv g s -> 0 < total_rate s ->
  reacht (jump g rstat full t1 s) l s1 ->
  exists i a sl l0, nth_error (slots s) i = Some sl /\ 0 < slot_rate sl /\ sabs sl a <> None /\ 0 < wgt sl a /\
    fire g rstat full t1 s (i, a) = Ok s1 /\ l = CCasc (shares s) :: l0 /\
    choose_calls (weighted (sl_pot sl)) (kl_cands (sl_pot sl)) l0.
Proof.
  intros t1 s l s1 HI Ht H. unfold jump in H.
  apply reacht_bind in H. destruct H as [[i a] [la [lb [El [Ha Hb]]]]].
  apply lifts_reacht in Hb. destruct Hb as [Ef Elb]. subst lb.
  destruct (select_reacht s la i a HI Ht Ha) as [sl [l0 [Hn [Hp [Hs [Hw [Ela Hc]]]]]]].
  exists i, a, sl, l0. rewrite El, app_nil_r. repeat split; assumption.
Qed.

Lemma jump_rerr : forall t1 s e, SInv g s -> 0 < total_rate s -> rerr (jump g rstat full t1 s) e -> False.
Proof.
  intros t1 s e HI Ht H. unfold jump in H. apply rerr_bind in H.
  destruct H as [H|[[i a] [l [Ha Hb]]]]; [exact (select_rerr s e HI Ht H)|].
  apply lifts_rerr in Hb.
  destruct (select_reacht s l i a HI Ht Ha) as [sl [l0 [Hn [_ [Hs _]]]]].
  destruct (fire_ok g Hg rstat full t1 s i a sl HI Hn Hs) as [s' [E _]].
  rewrite E in Hb. discriminate Hb.
Qed.

Lemma srun_app : forall t s l1 t1 s1 l2 t2 s2,
  srun t s l1 t1 s1 -> srun t1 s1 l2 t2 s2 -> srun t s (l1 ++ l2) t2 s2.
Proof.
  intros t s l1 t1 s1 l2 t2 s2 H. induction H as [|t s la ta sa lb tb sb Hs Hr IH]; intro H2; [exact H2|].
  rewrite <- app_assoc. eapply srun_step; [exact Hs|]. apply IH. exact H2.
Qed.

(* every returning run of the loop *)
Lemma loop_reacht : forall fuel t s l out, SInv g s ->
  reacht (loop g ic rstat tmin tmax full fuel t s) l out ->
  exists l1 l2 t' s', l = l1 ++ l2 /\ srun t s l1 t' s' /\ stop t' s' l2 /\
                      finish g ic rstat tmin full s' = Ok out.
Proof.
  induction fuel as [|f IH]; intros t s l out HI H; rewrite loop_unfold in H;
    destruct (Qltb 0 (total_rate s)) eqn:Et.
  - apply Qltb_true in Et.
    apply reacht_expo_inv in H. destruct H as [d [l' [El0 [Hr [Hd Hk]]]]]. subst l.
    destruct (xlt (t + d) tmax) eqn:Ex; [exfalso; exact (reacht_fail_inv _ _ _ _ Hk)|].
    apply lifts_reacht in Hk. destruct Hk as [Ef El]. subst l'.
    exists [], [CExpo (total_rate s)], t, s. split; [reflexivity|]. split; [constructor|].
    split; [|exact Ef]. right. split; [exact Et|]. split; [reflexivity|]. exists d. split; assumption.
  - apply Qltb_false in Et. apply lifts_reacht in H. destruct H as [Ef El]. subst l.
    exists [], [], t, s. split; [reflexivity|]. split; [constructor|]. split; [|exact Ef].
    left. split; [lra|reflexivity].
  - apply Qltb_true in Et.
    apply reacht_expo_inv in H. destruct H as [d [l' [El0 [Hr [Hd Hk]]]]]. subst l.
    destruct (xlt (t + d) tmax) eqn:Ex.
    + apply reacht_bind in Hk. destruct Hk as [s1 [la [lb [El [Ha Hb]]]]].
      destruct (jump_reacht (t + d) s la s1 HI Et Ha) as [i [a [sl [l0 [Hn [Hp [Hs [Hw [Ef [Ela Hc]]]]]]]]]].
      destruct (fire_ok g Hg rstat full (t + d) s i a sl HI Hn Hs) as [s1' [E1 [HI1 _]]].
      assert (s1' = s1) by congruence. subst s1'.
      destruct (IH (t + d) s1 lb out HI1 Hb) as [l1 [l2 [t' [s' [Elb [Hrun [Hstop Hfin]]]]]]].
      exists ((CExpo (total_rate s) :: la) ++ l1), l2, t', s'. split.
      { rewrite El, Elb. cbn [app]. rewrite <- app_assoc. reflexivity. }
      split; [|split; assumption].
      eapply srun_step; [|exact Hrun]. split; [exact Et|].
      exists d, i, a, sl, l0. rewrite Ela. repeat split; try assumption.
    + apply lifts_reacht in Hk. destruct Hk as [Ef El]. subst l'.
      exists [], [CExpo (total_rate s)], t, s. split; [reflexivity|]. split; [constructor|].
      split; [|exact Ef]. right. split; [exact Et|]. split; [reflexivity|]. exists d. split; assumption.
  - apply Qltb_false in Et. apply lifts_reacht in H. destruct H as [Ef El]. subst l.
    exists [], [], t, s. split; [reflexivity|]. split; [constructor|]. split; [|exact Ef].
    left. split; [lra|reflexivity].
Qed.

(* every failing run of the loop: fuel, or the full-data constructor at the end *)
Lemma loop_rerr : forall fuel t s e, SInv g s ->
  rerr (loop g ic rstat tmin tmax full fuel t s) e ->
  e = OutOfFuel \/ exists l1 t' s', srun t s l1 t' s' /\ finish g ic rstat tmin full s' = Err e.
Proof.
  induction fuel as [|f IH]; intros t s e HI H; rewrite loop_unfold in H;
    destruct (Qltb 0 (total_rate s)) eqn:Et.
  - apply Qltb_true in Et.
    apply rerr_expo_inv in H. destruct H as [[Hr0 _]|[d [Hr [Hd Hk]]]]; [lra|].
    destruct (xlt (t + d) tmax) eqn:Ex; [left; exact (rerr_fail_inv _ _ _ Hk)|].
    apply lifts_rerr in Hk. right. exists [], t, s. split; [constructor|exact Hk].
  - apply lifts_rerr in H. right. exists [], t, s. split; [constructor|exact H].
  - apply Qltb_true in Et.
    apply rerr_expo_inv in H. destruct H as [[Hr0 _]|[d [Hr [Hd Hk]]]]; [lra|].
    destruct (xlt (t + d) tmax) eqn:Ex.
    + apply rerr_bind in Hk. destruct Hk as [Hk|[s1 [la [Ha Hb]]]].
      { exfalso. exact (jump_rerr (t + d) s e HI Et Hk). }
      destruct (jump_reacht (t + d) s la s1 HI Et Ha) as [i [a [sl [l0 [Hn [Hp [Hs [Hw [Ef [Ela Hc]]]]]]]]]].
      destruct (fire_ok g Hg rstat full (t + d) s i a sl HI Hn Hs) as [s1' [E1 [HI1 _]]].
      assert (s1' = s1) by congruence. subst s1'.
      destruct (IH (t + d) s1 e HI1 Hb) as [E|[l1 [t' [s' [Hrun Hfin]]]]]; [left; exact E|right].
      exists ((CExpo (total_rate s) :: la) ++ l1), t', s'. split; [|exact Hfin].
      eapply srun_step; [|exact Hrun]. split; [exact Et|].
      exists d, i, a, sl, l0. rewrite Ela. repeat split; try assumption.
    + apply lifts_rerr in Hk. right. exists [], t, s. split; [constructor|exact Hk].
  - apply lifts_rerr in H. right. exists [], t, s. split; [constructor|exact H].
Qed.

(* ------------------------------------------------------------------ *)
(* what holds at every loop head of a run                                *)

Lemma step_inv : forall t s l t1 s1, SInv g s -> RInv g rstat s -> step t s l t1 s1 ->
  SInv g s1 /\ RInv g rstat s1 /\
  map sl_tr (s_sp s1) = map sl_tr (s_sp s) /\ map sl_tr (s_in s1) = map sl_tr (s_in s).
Proof.
  intros t s l t1 s1 HI HR [_ [d [i [a [sl [l0 [_ [_ [_ [Hn [_ [Hs [_ [Ef _]]]]]]]]]]]]]].
  destruct (fire_ok g Hg rstat full t1 s i a sl HI Hn Hs) as [s1' [E1 [HI1 [_ [F1 F2]]]]].
  assert (s1' = s1) by congruence. subst s1'.
  destruct (fire_counts g Hg rstat full t1 s i a sl s1 HI HR Hn Hs Ef) as [HR1 _].
  split; [exact HI1|]. split; [exact HR1|]. split; assumption.
Qed.

Lemma srun_inv : forall t s l t' s', srun t s l t' s' -> SInv g s -> RInv g rstat s ->
  SInv g s' /\ RInv g rstat s' /\
  map sl_tr (s_sp s') = map sl_tr (s_sp s) /\ map sl_tr (s_in s') = map sl_tr (s_in s).
Proof.
  intros t s l t' s' H. induction H as [|t s l1 t1 s1 l2 t2 s2 Hs Hr IH]; intros HI HR.
  - split; [exact HI|]. split; [exact HR|]. split; reflexivity.
  - destruct (step_inv _ _ _ _ _ HI HR Hs) as [HI1 [HR1 [F1 F2]]].
    destruct (IH HI1 HR1) as [HI2 [HR2 [G1 G2]]].
    split; [exact HI2|]. split; [exact HR2|]. split; congruence.
Qed.

(* the clock never goes back, and every event time is below tmax *)
Lemma srun_time : forall t s l t' s', srun t s l t' s' -> t <= t'.
Proof.
  intros t s l t' s' H. induction H as [|t s l1 t1 s1 l2 t2 s2 Hs Hr IH]; [lra|].
  destruct Hs as [_ [d [i [a [sl [l0 [Hd [Et _]]]]]]]]. subst t1. lra.
Qed.

End Run.
