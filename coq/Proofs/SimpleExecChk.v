(* The checkers of Model/GenxChk.v: what acceptance means (soundness) and that every run of
   the model of Gillespie_simple_contagion is accepted, for every draw script. *)
From EoNV Require Import Prelude Samp Graph ListDict ListDictP Gillespie KldP GillespieInv SampP Simple SimpleP
  SimpleExecS SimpleExec SimpleExecLog SimpleExecTop.
From EoNV Require Investigation InvestigationP.
From Coq Require Import Permutation Lqa.

(* ------------------------------------------------------------------ *)
(* counting                                                            *)
Lemma zlist_eqb_refl : forall a, Investigation.zlist_eqb a a = true.
Proof. induction a as [|x a IH]; [reflexivity|]. cbn [Investigation.zlist_eqb]. rewrite Z.eqb_refl, IH. reflexivity. Qed.

Lemma filter_length_le' : forall (A : Type) (f : A -> bool) l, (length (filter f l) <= length l)%nat.
Proof. intros A f l. induction l as [|a l IH]; [apply le_n|]. cbn [filter]. destruct (f a); cbn [length]; lia. Qed.

Lemma cnt_list_cons : forall a l st x,
  cnt_list (a :: l) st x = (b2z (N.eqb (st a) x) + cnt_list l st x)%Z.
Proof.
  intros a l st x. unfold cnt_list. cbn [filter]. destruct (N.eqb (st a) x); cbn [length b2z]; lia.
Qed.

Lemma sumZ_map_plus : forall (A : Type) (f h : A -> Z) l,
  sumZ (map (fun x => (f x + h x)%Z) l) = (sumZ (map f l) + sumZ (map h l))%Z.
Proof. intros A f h l. induction l as [|a l IH]; [reflexivity|]. cbn [map sumZ fold_right] in *. unfold sumZ in *. lia. Qed.

Lemma indicator_sum : forall (s : N) l, NoDup l ->
  sumZ (map (fun x => b2z (N.eqb s x)) l) = b2z (mem s l).
Proof.
  intros s l H. induction H as [|a l Ha Hn IH]; [reflexivity|].
  cbn [map]. change (sumZ (?x :: ?r)) with (x + sumZ r)%Z. rewrite IH. unfold mem. cbn [existsb].
  destruct (N.eqb_spec s a) as [E|E]; cbn [orb b2z].
  - subst a. fold (mem s l). destruct (mem s l) eqn:Em; [|reflexivity].
    exfalso. apply Ha. apply mem_In. exact Em.
  - fold (mem s l). lia.
Qed.

Lemma indicator_sum_le1 : forall (s : N) l, NoDup l -> (0 <= sumZ (map (fun x => b2z (N.eqb s x)) l) <= 1)%Z.
Proof. intros s l H. rewrite (indicator_sum s l H). destruct (mem s l); cbn [b2z]; lia. Qed.

Section Cen.
Variable g : graph.
Variable rstat : list N.

Lemma count_status_range : forall st x, (0 <= count_status g st x <= order g)%Z.
Proof.
  intros st x. unfold count_status, order. split; [lia|].
  apply Nat2Z.inj_le. apply filter_length_le'.
Qed.

Lemma census_length : forall st, length (census g rstat st) = length rstat.
Proof. intro st. unfold census. apply map_length. Qed.

Lemma census_sum_list : forall l st, NoDup rstat ->
  (0 <= sumZ (map (cnt_list l st) rstat) <= Z.of_nat (length l))%Z /\
  ((forall u, In u l -> In (st u) rstat) -> sumZ (map (cnt_list l st) rstat) = Z.of_nat (length l)).
Proof.
  intros l st Hn. induction l as [|a l [IH1 IH2]].
  - assert (E : sumZ (map (cnt_list [] st) rstat) = 0%Z).
    { clear. induction rstat as [|x r IH]; [reflexivity|]. cbn [map]. change (sumZ (?x :: ?r)) with (x + sumZ r)%Z. rewrite IH. reflexivity. }
    rewrite E. cbn [length]. split; [lia|reflexivity].
  - assert (E : sumZ (map (cnt_list (a :: l) st) rstat) =
                (sumZ (map (fun x => b2z (N.eqb (st a) x)) rstat) + sumZ (map (cnt_list l st) rstat))%Z).
    { rewrite <- sumZ_map_plus. f_equal. apply map_ext. intro x. apply cnt_list_cons. }
    rewrite E. pose proof (indicator_sum_le1 (st a) rstat Hn) as Hi. cbn [length]. split; [lia|].
    intro Hall. rewrite IH2 by (intros u Hu; apply Hall; right; exact Hu).
    rewrite (indicator_sum (st a) rstat Hn).
    assert (Hm : mem (st a) rstat = true) by (apply mem_In; apply Hall; left; reflexivity).
    rewrite Hm. cbn [b2z]. lia.
Qed.

Lemma census_sum : forall st, NoDup rstat ->
  (sumZ (census g rstat st) <= order g)%Z /\
  ((forall u, In u (gnodes g) -> In (st u) rstat) -> sumZ (census g rstat st) = order g).
Proof.
  intros st Hn. destruct (census_sum_list (gnodes g) st Hn) as [[_ H1] H2]. split; [exact H1|exact H2].
Qed.

Lemma grow_ok_census : forall st cov,
  (cov = true -> forall u, In u (gnodes g) -> In (st u) rstat) ->
  grow_okb (order g) rstat cov (census g rstat st) = true.
Proof.
  intros st cov Hc. unfold grow_okb. rewrite census_length, Nat.eqb_refl. cbn [andb].
  assert (H1 : forallb (fun x => (0 <=? x)%Z && (x <=? order g)%Z) (census g rstat st) = true).
  { apply forallb_forall. intros x Hx. unfold census in Hx. apply in_map_iff in Hx. destruct Hx as [s [E _]]. subst x.
    destruct (count_status_range st s) as [A B]. apply andb_true_iff. split; apply Z.leb_le; assumption. }
  rewrite H1. cbn [andb]. destruct (nodupb rstat) eqn:En; [|reflexivity].
  apply nodupb_NoDup in En. destruct (census_sum st En) as [S1 S2].
  destruct cov; [apply Z.eqb_eq; apply S2; apply Hc; reflexivity|apply Z.leb_le; exact S1].
Qed.
End Cen.

(* ------------------------------------------------------------------ *)
(* C04: every run passes wf_gtrajb                                     *)
Section Traj.
Variable g : graph.
Hypothesis Hg : wfg2 g.
Variables H J : list trans.
Variable rstat : list N.
Variable tmax : xtime.

Lemma legal_move_in : forall st e, ev_legal g H J st e -> In (ge_old e, ge_new e) (moves_of H J).
Proof.
  intros st e [_ [_ Hl]]. unfold moves_of. apply in_or_app. destruct (ge_src e) as [u|].
  - right. destruct Hl as [_ [_ [tr [Hin [_ [Hf Ht]]]]]]. apply in_map_iff. exists tr. split; [|exact Hin].
    rewrite Hf, Ht. reflexivity.
  - left. destruct Hl as [tr [Hin [_ [Hf Ht]]]]. apply in_map_iff. exists tr. split; [|exact Hin].
    rewrite Hf, Ht. reflexivity.
Qed.

Lemma in_combine_map : forall (A B : Type) (f : A -> B) l x y, In (x, y) (combine l (map f l)) -> y = f x.
Proof.
  intros A B f l. induction l as [|a l IH]; intros x y Hin; [destruct Hin|].
  cbn [map combine] in Hin. destruct Hin as [E|Hin]; [injection E as E1 E2; subst; reflexivity|apply IH; exact Hin].
Qed.

Lemma gmove_ok_event : forall st e, ev_legal g H J st e ->
  gmove_okb (moves_of H J) rstat (census g rstat st) (census g rstat (fupdN st (ge_node e) (ge_new e))) = true.
Proof.
  intros st e Hl. unfold gmove_okb. apply existsb_exists. exists (ge_old e, ge_new e).
  split; [exact (legal_move_in st e Hl)|]. cbn [fst snd]. destruct Hl as [Hm [Hold _]].
  apply andb_true_iff. split.
  - unfold census. rewrite <- Hold. rewrite (next_counts_track g (g_nodup g Hg) rstat st _ _ Hm). apply zlist_eqb_refl.
  - apply forallb_forall. intros [x c] Hin. cbn [fst snd]. unfold census in Hin. apply in_combine_map in Hin. subst c.
    destruct (N.eqb_spec x (ge_old e)) as [E|E]; cbn [negb orb]; [|reflexivity].
    apply Z.ltb_lt. subst x. unfold count_status.
    assert (Hf : In (ge_node e) (filter (fun u => N.eqb (st u) (ge_old e)) (gnodes g))).
    { apply filter_In. split; [exact Hm|]. rewrite Hold. apply N.eqb_refl. }
    destruct (filter _ (gnodes g)); [destruct Hf|cbn [length]; lia].
Qed.

Lemma gsteps_accept : forall cov,
  (cov = true -> (forall tr, In tr H -> In (hd_status (tr_to tr)) rstat) /\ (forall tr, In tr J -> In (snd_status (tr_to tr)) rstat)) ->
  forall st t evs st' t', glog g H J tmax st t evs st' t' ->
  (cov = true -> forall u, In u (gnodes g) -> In (st u) rstat) ->
  gsteps_okb (order g) (moves_of H J) rstat cov tmax (t, census g rstat st) (ev_rows g rstat st evs) = true.
Proof.
  intros cov Hcov st t evs st' t' Hlog. induction Hlog as [|st t e l st' t' Hl Ht Hx Hr IH]; intro Hst; [reflexivity|].
  cbn [ev_rows gsteps_okb fst snd].
  assert (Hst' : cov = true -> forall u, In u (gnodes g) -> In (fupdN st (ge_node e) (ge_new e) u) rstat).
  { intros Hc u Hu. unfold fupdN. destruct (N.eqb u (ge_node e)); [|apply Hst; assumption].
    destruct (Hcov Hc) as [C1 C2]. destruct Hl as [_ [_ Hl]]. destruct (ge_src e) as [w|].
    - destruct Hl as [_ [_ [tr [Hin [_ [_ E]]]]]]. rewrite <- E. apply C2. exact Hin.
    - destruct Hl as [tr [Hin [_ [_ E]]]]. rewrite <- E. apply C1. exact Hin. }
  rewrite (proj2 (InvestigationP.qleb_t t (ge_t e)) Ht), Hx, (gmove_ok_event st e Hl), (grow_ok_census g rstat _ cov Hst').
  cbn [andb]. apply IH. exact Hst'.
Qed.
End Traj.

(* the C04 checker accepts the rows of every run, for every draw script (cov may be claimed
   only when return_statuses really covers) *)
Theorem wf_gtrajb_accepts : forall g (Hg : wfg2 g) ic rstat tmin tmax full sortable spont induced fuel ds out tr cov,
  Forall (sp_tr_ok g) spont -> Forall (in_tr_ok g) induced ->
  (cov = true -> covered g ic rstat spont induced) ->
  exec (simple g sortable spont induced ic rstat tmin tmax full fuel) ds [] = (Ok out, tr) ->
  wf_gtrajb (order g) (moves_of spont induced) rstat cov tmin tmax (so_rows out) = true.
Proof.
  intros g Hg ic rstat tmin tmax full sortable spont induced fuel ds out tr cov Hsp Hin Hcov Hex.
  destruct (simple_exec_output g Hg ic rstat tmin tmax full sortable spont induced fuel ds out tr Hsp Hin Hex)
    as [evs [st' [t' [Hlog [Hrows _]]]]].
  rewrite Hrows. unfold wf_gtrajb, row0. cbn [fst snd].
  rewrite (proj2 (InvestigationP.qeqb_t tmin tmin) (Qeq_refl _)). cbn [andb].
  assert (Hic : cov = true -> forall u, In u (gnodes g) -> In (ic u) rstat).
  { intros Hc. destruct (Hcov Hc) as [_ [X _]]. exact X. }
  rewrite (grow_ok_census g rstat ic cov Hic). cbn [andb].
  apply (gsteps_accept g Hg spont induced rstat tmax cov) with (st' := st') (t' := t'); [|exact Hlog|exact Hic].
  intro Hc. destruct (Hcov Hc) as [_ [_ [X Y]]]. split; assumption.
Qed.

(* what acceptance by wf_gtrajb means *)
Lemma grow_okb_sound : forall n rstat cov c, grow_okb n rstat cov c = true ->
  length c = length rstat /\ Forall (fun x => (0 <= x <= n)%Z) c /\
  (NoDup rstat -> (sumZ c <= n)%Z /\ (cov = true -> sumZ c = n)).
Proof.
  intros n rstat cov c Hc. unfold grow_okb in Hc. apply andb_true_iff in Hc. destruct Hc as [Hc H3].
  apply andb_true_iff in Hc. destruct Hc as [H1 H2]. apply Nat.eqb_eq in H1. split; [exact H1|]. split.
  - apply Forall_forall. intros x Hx. rewrite forallb_forall in H2. specialize (H2 x Hx).
    apply andb_true_iff in H2. destruct H2 as [A B]. apply Z.leb_le in A. apply Z.leb_le in B. lia.
  - intro Hn. destruct (nodupb rstat) eqn:En.
    + destruct cov.
      * apply Z.eqb_eq in H3. split; [lia|intros _; exact H3].
      * apply Z.leb_le in H3. split; [exact H3|discriminate].
    + exfalso. clear - Hn En. induction rstat as [|a l IH]; [discriminate En|].
      cbn [nodupb] in En. apply NoDup_cons_iff in Hn. destruct Hn as [Ha Hn].
      apply andb_false_iff in En. destruct En as [En|En]; [|exact (IH En Hn)].
      apply negb_false_iff in En. apply mem_In in En. contradiction.
Qed.

Theorem wf_gtrajb_sound : forall n mv rstat cov tmin tmax rows,
  wf_gtrajb n mv rstat cov tmin tmax rows = true ->
  (exists r l, rows = r :: l /\ fst r == tmin) /\
  (forall r, In r rows -> length (snd r) = length rstat /\ Forall (fun x => (0 <= x <= n)%Z) (snd r) /\
                          (NoDup rstat -> (sumZ (snd r) <= n)%Z /\ (cov = true -> sumZ (snd r) = n))) /\
  (forall l1 a b l2, rows = l1 ++ a :: b :: l2 ->
     fst a <= fst b /\ xlt (fst b) tmax = true /\
     exists old new, In (old, new) mv /\ snd b = next_counts rstat (snd a) old new).
Proof.
  intros n mv rstat cov tmin tmax rows Hw. destruct rows as [|r l]; [discriminate Hw|].
  cbn [wf_gtrajb] in Hw. apply andb_true_iff in Hw. destruct Hw as [Hw Hs]. apply andb_true_iff in Hw. destruct Hw as [Ht Hr].
  split; [exists r, l; split; [reflexivity|apply InvestigationP.qeqb_t; exact Ht]|].
  clear Ht. revert r Hr Hs. induction l as [|r2 l IH]; intros r Hr Hs.
  - split.
    + intros x [E|[]]. subst x. apply (grow_okb_sound _ _ _ _ Hr).
    + intros l1 a b l2 E. destruct l1 as [|x [|y l1]]; discriminate E.
  - cbn [gsteps_okb] in Hs. repeat (apply andb_true_iff in Hs; destruct Hs as [Hs ?]).
    match goal with K : gsteps_okb _ _ _ _ _ r2 l = true, K2 : grow_okb _ _ _ (snd r2) = true |- _ =>
      destruct (IH r2 K2 K) as [IH1 IH2] end.
    split.
    + intros x [E|Hx]; [subst x; apply (grow_okb_sound _ _ _ _ Hr)|apply IH1; exact Hx].
    + intros l1 a b l2 E. destruct l1 as [|x l1]; cbn [app] in E.
      * injection E as E1 E2 E3. subst a b l2.
        split; [apply InvestigationP.qleb_t; assumption|]. split; [assumption|].
        match goal with K : gmove_okb _ _ _ _ = true |- _ => unfold gmove_okb in K; apply existsb_exists in K;
          destruct K as [[old new] [Hin K']] end.
        cbn [fst snd] in K'. apply andb_true_iff in K'. destruct K' as [K' _].
        exists old, new. split; [exact Hin|]. apply InvestigationP.zlist_eqb_eq. exact K'.
      * injection E as E1 E2. apply (IH2 l1 a b l2). exact E2.
Qed.

(* ------------------------------------------------------------------ *)
(* C09 / C10: the replay checker is exactly [glog]                     *)
Section Replay.
Variable g : graph.
Variables H J : list trans.
Variable tmax : xtime.

Lemma sp_legalb_spec : forall a b, sp_legalb H a b = true <->
  exists tr, In tr H /\ 0 < tr_rate tr /\ tr_from tr = [a] /\ hd_status (tr_to tr) = b.
Proof.
  intros a b. unfold sp_legalb. rewrite existsb_exists. split.
  - intros [tr [Hin K]]. apply andb_true_iff in K. destruct K as [K K3]. apply andb_true_iff in K. destruct K as [K1 K2].
    exists tr. split; [exact Hin|]. split; [apply Qltb_true; exact K1|]. split.
    + destruct (keqb_spec (tr_from tr) [a]); [assumption|discriminate].
    + apply N.eqb_eq. exact K3.
  - intros [tr [Hin [K1 [K2 K3]]]]. exists tr. split; [exact Hin|].
    rewrite (proj2 (Qltb_true _ _) K1), K2, keqb_refl, K3, N.eqb_refl. reflexivity.
Qed.

Lemma in_legalb_spec : forall a b c, in_legalb J a b c = true <->
  exists tr, In tr J /\ 0 < tr_rate tr /\ tr_from tr = [a; b] /\ snd_status (tr_to tr) = c.
Proof.
  intros a b c. unfold in_legalb. rewrite existsb_exists. split.
  - intros [tr [Hin K]]. apply andb_true_iff in K. destruct K as [K K3]. apply andb_true_iff in K. destruct K as [K1 K2].
    exists tr. split; [exact Hin|]. split; [apply Qltb_true; exact K1|]. split.
    + destruct (keqb_spec (tr_from tr) [a; b]); [assumption|discriminate].
    + apply N.eqb_eq. exact K3.
  - intros [tr [Hin [K1 [K2 K3]]]]. exists tr. split; [exact Hin|].
    rewrite (proj2 (Qltb_true _ _) K1), K2, keqb_refl, K3, N.eqb_refl. reflexivity.
Qed.

Lemma legal_logb_glog : forall l st t, legal_logb g H J tmax st t l = true ->
  exists st' t', glog g H J tmax st t l st' t'.
Proof.
  induction l as [|e l IH]; intros st t Hl; [exists st, t; constructor|].
  cbn [legal_logb] in Hl. repeat (apply andb_true_iff in Hl; destruct Hl as [Hl ?]).
  match goal with K : legal_logb _ _ _ _ _ _ l = true |- _ => destruct (IH _ _ K) as [st' [t' Hr]] end.
  exists st', t'. constructor; [|apply InvestigationP.qleb_t; assumption|assumption|exact Hr].
  split; [apply mem_In; assumption|]. split; [apply N.eqb_eq; assumption|].
  destruct (ge_src e) as [u|].
  - match goal with K : _ && _ && _ = true |- _ => apply andb_true_iff in K; destruct K as [K K3];
      apply andb_true_iff in K; destruct K as [K1 K2] end.
    split; [apply mem_In; exact K1|]. split; [apply mem_In; exact K2|]. apply in_legalb_spec. exact K3.
  - apply sp_legalb_spec. assumption.
Qed.

Lemma glog_legal_logb : forall st t l st' t', glog g H J tmax st t l st' t' -> legal_logb g H J tmax st t l = true.
Proof.
  intros st t l st' t' Hl. induction Hl as [|st t e l st' t' Hleg Ht Hx Hr IH]; [reflexivity|].
  cbn [legal_logb]. destruct Hleg as [Hm [Hold Hleg]].
  rewrite (proj2 (InvestigationP.qleb_t _ _) Ht), Hx, (proj2 (mem_In _ _) Hm), Hold, N.eqb_refl, IH. cbn [andb].
  rewrite andb_true_r. destruct (ge_src e) as [u|].
  - destruct Hleg as [Hu [Hv Htr]]. rewrite (proj2 (mem_In _ _) Hu), (proj2 (mem_In _ _) Hv). cbn [andb].
    apply in_legalb_spec. exact Htr.
  - apply sp_legalb_spec. exact Hleg.
Qed.
End Replay.

(* list equality checkers *)
Lemma list_eqb_Forall2 : forall (A : Type) (eqb : A -> A -> bool) (R : A -> A -> Prop),
  (forall x y, eqb x y = true -> R x y) -> forall a b, list_eqb eqb a b = true -> Forall2 R a b.
Proof.
  intros A eqb R HR. induction a as [|x a IH]; intros [|y b] Hl; cbn [list_eqb] in Hl; try discriminate Hl; [constructor|].
  apply andb_true_iff in Hl. destruct Hl as [H1 H2]. constructor; [apply HR; exact H1|apply IH; exact H2].
Qed.

Lemma list_eqb_refl : forall (A : Type) (eqb : A -> A -> bool), (forall x, eqb x x = true) -> forall a, list_eqb eqb a a = true.
Proof. intros A eqb Hr. induction a as [|x a IH]; [reflexivity|]. cbn [list_eqb]. rewrite Hr, IH. reflexivity. Qed.

Lemma qeqb_refl : forall q, Qeqb q q = true.
Proof. intro q. apply InvestigationP.qeqb_t. apply Qeq_refl. Qed.

Lemma row_eqb_refl : forall r, row_eqb r r = true.
Proof. intro r. unfold row_eqb. rewrite qeqb_refl, zlist_eqb_refl. reflexivity. Qed.
Lemma hentry_eqb_refl : forall r, hentry_eqb r r = true.
Proof. intro r. unfold hentry_eqb. rewrite qeqb_refl, N.eqb_refl. reflexivity. Qed.
Lemma nhist_eqb_refl : forall r, nhist_eqb r r = true.
Proof. intro r. unfold nhist_eqb. rewrite N.eqb_refl, (list_eqb_refl _ _ hentry_eqb_refl). reflexivity. Qed.
Lemma tx_eqb_refl : forall r, tx_eqb r r = true.
Proof.
  intros [[t s] v]. unfold tx_eqb. cbn [fst snd]. rewrite qeqb_refl, N.eqb_refl.
  destruct s as [u|]; cbn [onode_eqb]; [rewrite N.eqb_refl|]; reflexivity.
Qed.

(* equality up to == on the times *)
Definition row_eq (a b : row) : Prop := fst a == fst b /\ snd a = snd b.
Definition hist_eq (a b : history) : Prop := Forall2 (fun x y : Q * N => fst x == fst y /\ snd x = snd y) a b.
Definition nhist_eq (a b : node * history) : Prop := fst a = fst b /\ hist_eq (snd a) (snd b).
Definition tx_eq (a b : Q * option node * node) : Prop :=
  fst (fst a) == fst (fst b) /\ snd (fst a) = snd (fst b) /\ snd a = snd b.

Lemma row_eqb_sound : forall a b, row_eqb a b = true -> row_eq a b.
Proof.
  intros a b Hb. unfold row_eqb in Hb. apply andb_true_iff in Hb. destruct Hb as [H1 H2].
  split; [apply InvestigationP.qeqb_t; exact H1|apply InvestigationP.zlist_eqb_eq; exact H2].
Qed.
Lemma nhist_eqb_sound : forall a b, nhist_eqb a b = true -> nhist_eq a b.
Proof.
  intros a b Hb. unfold nhist_eqb in Hb. apply andb_true_iff in Hb. destruct Hb as [H1 H2].
  split; [apply N.eqb_eq; exact H1|]. apply (list_eqb_Forall2 _ hentry_eqb); [|exact H2].
  intros x y K. unfold hentry_eqb in K. apply andb_true_iff in K. destruct K as [K1 K2].
  split; [apply InvestigationP.qeqb_t; exact K1|apply N.eqb_eq; exact K2].
Qed.
Lemma tx_eqb_sound : forall a b, tx_eqb a b = true -> tx_eq a b.
Proof.
  intros [[t s] v] [[t' s'] v'] Hb. unfold tx_eqb in Hb. cbn [fst snd] in Hb.
  apply andb_true_iff in Hb. destruct Hb as [Hb H3]. apply andb_true_iff in Hb. destruct Hb as [H1 H2].
  unfold tx_eq. cbn [fst snd]. split; [apply InvestigationP.qeqb_t; exact H1|]. split; [|apply N.eqb_eq; exact H3].
  destruct s as [u|], s' as [u'|]; cbn [onode_eqb] in H2; try discriminate H2; [|reflexivity].
  apply N.eqb_eq in H2. subst u'. reflexivity.
Qed.

(* C09: soundness of the witness checker, and acceptance of every full-data run *)
Theorem gen_tx_okb_sound : forall g H J tmin tmax ic hist txs w,
  gen_tx_okb g H J tmin tmax ic hist txs w = true ->
  (exists st' t', glog g H J tmax ic tmin w st' t') /\
  Forall2 nhist_eq hist (hists_of g ic tmin w) /\
  Forall2 tx_eq txs (flat_map ev_tx w).
Proof.
  intros g H J tmin tmax ic hist txs w Hb. unfold gen_tx_okb in Hb.
  apply andb_true_iff in Hb. destruct Hb as [Hb H3]. apply andb_true_iff in Hb. destruct Hb as [H1 H2].
  split; [apply (legal_logb_glog g H J tmax w ic tmin H1)|]. split.
  - apply (list_eqb_Forall2 _ nhist_eqb _ nhist_eqb_sound _ _ H2).
  - apply (list_eqb_Forall2 _ tx_eqb _ tx_eqb_sound _ _ H3).
Qed.

Theorem gen_checkers_accept : forall g (Hg : wfg2 g) ic rstat tmin tmax full sortable spont induced fuel ds out tr,
  Forall (sp_tr_ok g) spont -> Forall (in_tr_ok g) induced ->
  exec (simple g sortable spont induced ic rstat tmin tmax full fuel) ds [] = (Ok out, tr) ->
  exists w,
    gen_rows_okb g rstat tmin ic (so_rows out) w = true /\
    match so_full out with
    | Some fd => full = true /\ gen_tx_okb g spont induced tmin tmax ic (fd_hist fd) (fd_trans fd) w = true
    | None => full = false /\ legal_logb g spont induced tmax ic tmin w = true
    end.
Proof.
  intros g Hg ic rstat tmin tmax full sortable spont induced fuel ds out tr Hsp Hin Hex.
  destruct (simple_exec_output g Hg ic rstat tmin tmax full sortable spont induced fuel ds out tr Hsp Hin Hex)
    as [evs [st' [t' [Hlog [Hrows Hfull]]]]].
  exists evs. split.
  - unfold gen_rows_okb. rewrite Hrows. unfold row0. apply (list_eqb_refl _ _ row_eqb_refl).
  - pose proof (glog_legal_logb g spont induced tmax ic tmin evs st' t' Hlog) as Hl.
    rewrite Hfull. destruct full.
    + split; [reflexivity|]. unfold gen_tx_okb. cbn [fd_hist fd_trans]. rewrite Hl. cbn [andb].
      unfold hists_of. rewrite (list_eqb_refl _ _ nhist_eqb_refl), (list_eqb_refl _ _ tx_eqb_refl). reflexivity.
    + split; [reflexivity|exact Hl].
Qed.
