(* C05, event-driven SIS: what Simulation_Investigation.get_statuses(time = tmin) /
   node_status(u, tmin) answer on an output that the checker [ic_sisb] accepts.
   [status_at h t] (Model/Investigation.v) = the status of the LAST entry with time <= t.
   When nothing else happened at the instant tmin -- observable on the output: no history has
   a second entry at tmin ([quiet_histb]) and no sourced transmission is dated tmin
   ([quiet_transb]) -- the answer is exactly the request: I for the initially infected nodes,
   S for every other node of the graph. *)
From EoNV Require Import Prelude Samp Graph GillespieInv EventSIS EventSISP Investigation InitChk InitChkSIS C05sTop.
From Coq Require Import Lqa.

Definition quiet_histb (tmin : Q) (h : history) : bool :=
  match h with _ :: rest => forallb (fun e : Q * N => Qltb tmin (fst e)) rest | [] => true end.
Definition quiet_transb (tmin : Q) (trans : list tx_t) : bool :=
  forallb (fun x : tx_t => match snd (fst x) with Some _ => Qltb tmin (fst (fst x)) | None => true end) trans.
Definition quiet_at_tmin (nodes : list node) (tmin : Q) (fd : fulldata) : bool :=
  quiet_transb tmin (fd_trans fd) &&
  forallb (fun u => match hlook u (fd_hist fd) with Some h => quiet_histb tmin h | None => true end) nodes.

Lemma assoc_hlook : forall (l : list (node * history)) u, assoc l u = hlook u l.
Proof. induction l as [|[k h] l IH]; intro u; [reflexivity|]. cbn [assoc hlook]. rewrite (N.eqb_sym k u), IH. reflexivity. Qed.

Lemma status_at_head : forall tmin t s rest, t == tmin -> quiet_histb tmin ((t, s) :: rest) = true ->
  status_at ((t, s) :: rest) tmin = Ok s.
Proof.
  intros tmin t s rest Ht Hq. unfold status_at. cbn [filter fst].
  assert (Qleb t tmin = true) as -> by (unfold Qleb; destruct (Qlt_le_dec tmin t) as [K|K]; [lra|reflexivity]).
  cbn [quiet_histb] in Hq.
  assert (E : filter (fun e : Q * N => Qleb (fst e) tmin) rest = []).
  { induction rest as [|e rest IH]; [reflexivity|]. cbn [forallb] in Hq. apply andb_true_iff in Hq. destruct Hq as [H1 H2].
    cbn [filter]. apply Qltb_true in H1.
    assert (Qleb (fst e) tmin = false) as -> by (unfold Qleb; destruct (Qlt_le_dec tmin (fst e)) as [K|K]; [reflexivity|lra]).
    apply IH. exact H2. }
  rewrite E. reflexivity.
Qed.

Theorem statuses_at_tmin : forall nodes i0 tmin rows fd,
  ic_sisb nodes i0 tmin rows (Some fd) = true -> quiet_at_tmin nodes tmin fd = true ->
  forall u, In u nodes ->
    node_status (mkInv nodes (fd_hist fd) (Some [(tmin, stS)]) (Some [stS; stI])) u tmin = Ok (if mem u i0 then stI else stS).
Proof.
  intros nodes i0 tmin rows fd Hic Hq u Hu.
  destruct (ic_sisb_sound nodes i0 tmin rows (Some fd) Hic) as [_ H]. destruct (H fd eq_refl) as [_ Hh].
  destruct (Hh u Hu) as [t [s [rest [El [Ht [HI HS]]]]]].
  unfold quiet_at_tmin in Hq. apply andb_true_iff in Hq. destruct Hq as [Hq1 Hq2].
  rewrite forallb_forall in Hq2. specialize (Hq2 u Hu). rewrite El in Hq2.
  unfold node_status, hist_of. cbn [iv_hist]. rewrite assoc_hlook, El. cbn [rbind].
  rewrite (status_at_head tmin t s rest Ht Hq2). f_equal.
  destruct (mem u i0) eqn:Em.
  - apply HI. apply mem_In. exact Em.
  - assert (Hn : ~ In u i0) by (intro K; apply mem_In in K; rewrite K in Em; discriminate Em).
    destruct (HS Hn) as [E|[_ [t' [src [Hin Ht']]]]]; [exact E|]. exfalso.
    unfold quiet_transb in Hq1. rewrite forallb_forall in Hq1. specialize (Hq1 _ Hin). cbn [fst snd] in Hq1.
    apply Qltb_true in Hq1. lra.
Qed.
