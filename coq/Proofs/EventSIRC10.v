(* Event-driven SIR, cross-cutting properties, part 5 (C10): the per-node histories built
   from pred_inf_time / rec_time by _transform_to_node_history_ are the per-node projections
   of the run's event log, the arrays are its running counts; by the log lemma the summary
   of the histories equals the arrays whenever event times are strictly increasing after tmin. *)
From EoNV Require Import Prelude Samp Graph EventSIR EventSIRP EventSIRInv EventSIRMain EventSIRChar EventSIRTop EventSIRPred.
From EoNV Require Import Investigation InvestigationP EventSIRLog EventSIRRows EventSIRTraj EventSIRC04 EventSIRC09.
Require Import Lqa Permutation.

Definition of_u (u : node) (e : event) : bool := N.eqb (ev_u e) u.

(* the events of one node, newest first: none; its infection; its recovery and its infection *)
Definition node_chain (u : node) (s0 s : N) (l : list event) : Prop :=
  (s = s0 /\ l = []) \/
  (s0 = stS /\ s = stI /\ exists t, l = [(t, u, stI)]) \/
  (s0 = stS /\ s = stR /\ exists t t', l = [(t', u, stR); (t, u, stI)]).

Lemma elock_chain : forall g tmax st0 row0 evs txs rws st, elock g tmax st0 row0 evs txs rws st ->
  (forall u, st0 u <> stI) -> forall u, node_chain u (st0 u) (st u) (filter (of_u u) evs).
Proof.
  intros g tmax st0 row0 evs txs rws st H H0.
  induction H as [|evs txs rws st t w H IH Hw Hwg Ht Hx|evs txs rws st t src w H IH Hw Hwg Ht Hx]; intros u.
  - left. auto.
  - cbn [filter]. unfold of_u at 1. cbn [ev_u fst snd]. unfold fupdN. rewrite (N.eqb_sym u w).
    destruct (N.eqb w u) eqn:E; [|apply IH]. apply N.eqb_eq in E. subst w.
    destruct (IH u) as [[A B]|[[A [B [t1 C]]]|[A [B C]]]].
    + exfalso. apply (H0 u). congruence.
    + right. right. split; auto. split; auto. exists t1, t. fold (of_u u). rewrite C. reflexivity.
    + rewrite Hw in B. discriminate.
  - cbn [filter]. unfold of_u at 1. cbn [ev_u fst snd]. unfold fupdN. rewrite (N.eqb_sym u w).
    destruct (N.eqb w u) eqn:E; [|apply IH]. apply N.eqb_eq in E. subst w.
    destruct (IH u) as [[A B]|[[A [B C]]|[A [B C]]]].
    + right. left. split; [congruence|]. split; auto. exists t. fold (of_u u). rewrite B. reflexivity.
    + rewrite Hw in B. discriminate.
    + rewrite Hw in B. discriminate.
Qed.

Lemma increasing_gt : forall (evs : list event) lo, increasing lo evs = true -> forall e, In e evs -> lo < ev_t e.
Proof.
  induction evs as [|e evs IH]; intros lo Hinc x Hx; [destruct Hx|].
  cbn [increasing] in Hinc. apply andb_true_iff in Hinc. destruct Hinc as [H1 H2]. apply Qltb_true in H1.
  destruct Hx as [E|Hx]; [subst x; exact H1|].
  eapply Qlt_trans; [exact H1|]. apply (IH (ev_t e) H2 x Hx).
Qed.

Lemma all_ok_map_eq : forall A B (f : A -> result B) (h : A -> B) l,
  (forall a, In a l -> f a = Ok (h a)) -> all_ok (map f l) = Ok (map h l).
Proof.
  induction l as [|a l IH]; intros H; [reflexivity|]. cbn [map all_ok].
  rewrite (H a (or_introl eq_refl)). cbn [rbind]. rewrite IH by (intros x Hx; apply H; right; exact Hx). reflexivity.
Qed.

Lemma filter_perm_init : forall tmin i0 LA u, NoDup i0 -> Permutation LA (init_events tmin i0) ->
  filter (of_u u) LA = if mem u i0 then [(tmin, u, stI)] else [].
Proof.
  intros tmin i0 LA u Hnd HP.
  assert (Hf : filter (of_u u) (init_events tmin i0) = if mem u i0 then [(tmin, u, stI)] else []).
  { clear HP. unfold init_events. induction i0 as [|y l IH]; [reflexivity|].
    inversion Hnd as [|? ? Hy Hnd']; subst. cbn [map filter]. unfold of_u at 1. cbn [ev_u fst snd].
    unfold mem. cbn [existsb]. fold (mem u l). rewrite (N.eqb_sym u y). destruct (N.eqb y u) eqn:E.
    - apply N.eqb_eq in E. subst y. cbn [orb]. rewrite IH by exact Hnd'.
      assert (Hm : mem u l = false) by (apply mem_false_notin; exact Hy). rewrite Hm. reflexivity.
    - cbn [orb]. apply IH. exact Hnd'. }
  assert (HPf : Permutation (filter (of_u u) LA) (filter (of_u u) (init_events tmin i0))).
  { clear Hf. induction HP; cbn [filter].
    - constructor.
    - destruct (of_u u x); [constructor|]; auto.
    - destruct (of_u u x), (of_u u y); try apply Permutation_refl. apply perm_swap.
    - eapply Permutation_trans; eauto. }
  rewrite Hf in HPf. destruct (mem u i0).
  - apply Permutation_sym in HPf. apply Permutation_length_1_inv in HPf. exact HPf.
  - apply Permutation_sym in HPf. apply Permutation_nil in HPf. exact HPf.
Qed.

Lemma hist_step_at : forall tmin h s, hist_step tmin h (tmin, s) = [(tmin, s)].
Proof. intros. unfold hist_step. cbn [fst]. unfold Qeqb. rewrite Qeq_bool_refl. reflexivity. Qed.
Lemma hist_step_after : forall tmin h t s, tmin < t -> hist_step tmin h (t, s) = h ++ [(t, s)].
Proof.
  intros tmin h t s H. unfold hist_step. cbn [fst].
  assert (E : Qeqb t tmin = false) by (apply qeqb_f; intro E; rewrite E in H; apply (Qlt_irrefl tmin); exact H).
  rewrite E. reflexivity.
Qed.

Section C10.
Variable tb : tiepolicy.
Variable g : graph.
Variable tmax : xtime.
Variable delay : node -> node -> xtime.
Variable dur : node -> xtime.
Variable tmin : Q.
Variables i0 r0 : list node.

Hypothesis Hdelay : forall u v d, In u (gnodes g) -> In v (gadj g u) -> delay u v = Some d -> 0 <= d.
Hypothesis Hdur : forall u d, In u (gnodes g) -> dur u = Some d -> 0 <= d.
Hypothesis Hadj : forall u, In u (gnodes g) -> NoDup (gadj g u).
Hypothesis Hdisj : forall u, In u i0 -> ~ In u r0.
Hypothesis Htmin : ltmax tmax tmin.
Hypothesis Hgn : NoDup (gnodes g).
Hypothesis Hi0g : forall u, In u i0 -> In u (gnodes g).
Hypothesis Hadjg : forall u v, In u (gnodes g) -> In v (gadj g u) -> In v (gnodes g).
Hypothesis Hr0nd : NoDup r0.
Hypothesis Hr0g : forall u, In u r0 -> In u (gnodes g).
Hypothesis Hi0nd : NoDup i0.

Notation INV := (Inv g tmax delay dur tmin i0 r0).
Notation XINV := (XI g tmax tmin i0 r0).
Notation ST00 := (st00 r0).
Notation ROW00 := (row00 g tmin r0).

Variables (sF : est) (cF : Q) (evs : list event).
Hypothesis HI : INV cF sF.
Hypothesis H2 : Inv2 tmin r0 sF.
Hypothesis HX : XINV cF evs sF.
Hypothesis Hq : qu sF = [].

Let HL := x_lock _ _ _ _ _ _ _ _ HX.

Lemma st00_not_I : forall u, ST00 u <> stI.
Proof. intros u. rewrite st00_spec. destruct (mem u r0); discriminate. Qed.

(* node_history[u], as built from pred_inf_time / rec_time / status of the final state, is
   the projection on u of the log after the |I0| initial infections *)
Lemma node_hist_project : forall LA LB, rev evs = LA ++ LB -> Permutation LA (init_events tmin i0) ->
  (forall e, In e LB -> tmin < ev_t e) ->
  forall u, node_hist tmin sF u = Ok (project tmin (esir_init i0 r0) LB u).
Proof.
  intros LA LB E HP Hafter u.
  pose proof (elock_chain g tmax ST00 ROW00 _ _ _ _ HL st00_not_I u) as Hch.
  assert (Hsplit : rev (filter (of_u u) evs) = (if mem u i0 then [(tmin, u, stI)] else []) ++ filter (of_u u) LB).
  { rewrite filter_rev, E, filter_app, (filter_perm_init tmin i0 LA u Hi0nd HP). reflexivity. }
  assert (HinLB : forall e, In e (filter (of_u u) LB) -> tmin < ev_t e).
  { intros e He. apply filter_In in He. apply Hafter. apply He. }
  unfold project. change (fun e : event => N.eqb (ev_u e) u) with (of_u u).
  destruct Hch as [[A B]|[[A [B [t C]]]|[A [B [t [t' C]]]]]].
  - (* no event *)
    rewrite B in Hsplit. cbn [rev] in Hsplit.
    destruct (mem u i0) eqn:Ei; [discriminate Hsplit|]. cbn [app] in Hsplit. rewrite <- Hsplit. cbn [map].
    unfold node_hist, esir_init. rewrite Ei. rewrite st00_spec in A. destruct (mem u r0) eqn:Er.
    + apply mem_In in Er. destruct (j_r0 _ _ _ H2 u Er) as [Hrc Hpr]. rewrite Hpr, Hrc, A. cbn.
      rewrite hist_step_at. reflexivity.
    + rewrite A. cbn. destruct (predt sF u); destruct (rect sF u); reflexivity.
  - (* infected, still infectious *)
    rewrite st00_spec in A. destruct (mem u r0) eqn:Er; [discriminate A|].
    assert (Hev : In (t, u, stI) evs).
    { assert (Hx : In (t, u, stI) (filter (of_u u) evs)) by (rewrite C; left; reflexivity). apply filter_In in Hx. apply Hx. }
    destruct (elock_ev_tx g tmax ST00 ROW00 _ _ _ _ HL t u Hev) as [sr Hsr].
    pose proof (x_pred _ _ _ _ _ _ _ _ HX t sr u Hsr) as Hp.
    rewrite C in Hsplit. cbn [rev app] in Hsplit.
    unfold node_hist, esir_init. rewrite Er, Hp, B. cbn [negb N.eqb stI stS Pos.eqb rbind].
    destruct (mem u i0) eqn:Ei; cbn [app] in Hsplit.
    + injection Hsplit as Et Ef. rewrite <- Ef, Et. cbn [map]. rewrite hist_step_at.
      destruct (rect sF u); reflexivity.
    + rewrite <- Hsplit. cbn [map ev_t ev_s fst snd].
      assert (Ht : tmin < t). { apply (HinLB (t, u, stI)). rewrite <- Hsplit. left. reflexivity. }
      rewrite (hist_step_after tmin _ t stI Ht). destruct (rect sF u); reflexivity.
  - (* infected and recovered *)
    rewrite st00_spec in A. destruct (mem u r0) eqn:Er; [discriminate A|].
    assert (Hev : In (t, u, stI) evs /\ In (t', u, stR) evs).
    { split.
      - assert (Hx : In (t, u, stI) (filter (of_u u) evs)) by (rewrite C; right; left; reflexivity). apply filter_In in Hx. apply Hx.
      - assert (Hx : In (t', u, stR) (filter (of_u u) evs)) by (rewrite C; left; reflexivity). apply filter_In in Hx. apply Hx. }
    destruct Hev as [Hev1 Hev2].
    destruct (elock_ev_tx g tmax ST00 ROW00 _ _ _ _ HL t u Hev1) as [sr Hsr].
    pose proof (x_pred _ _ _ _ _ _ _ _ HX t sr u Hsr) as Hp.
    destruct (x_rec _ _ _ _ _ _ _ _ HX t' u Hev2) as [Hrc _].
    rewrite C in Hsplit. cbn [rev app] in Hsplit.
    unfold node_hist, esir_init. rewrite Er, Hp, Hrc, B. cbn [negb N.eqb stR stS Pos.eqb rbind].
    destruct (mem u i0) eqn:Ei; cbn [app] in Hsplit.
    + injection Hsplit as Et Ef. rewrite <- Ef, Et. cbn [map ev_t ev_s fst snd]. rewrite hist_step_at.
      assert (Ht' : tmin < t'). { apply (HinLB (t', u, stR)). rewrite <- Ef. left. reflexivity. }
      rewrite (hist_step_after tmin _ t' stR Ht'). reflexivity.
    + rewrite <- Hsplit. cbn [map ev_t ev_s fst snd].
      assert (Ht : tmin < t). { apply (HinLB (t, u, stI)). rewrite <- Hsplit. left. reflexivity. }
      assert (Ht' : tmin < t'). { apply (HinLB (t', u, stR)). rewrite <- Hsplit. right. left. reflexivity. }
      rewrite (hist_step_after tmin _ t stI Ht), (hist_step_after tmin _ t' stR Ht'). reflexivity.
Qed.

End C10.

(* C10 for fast_nonMarkov_SIR with table rules, every tie policy: when the event times are
   strictly increasing after tmin (past the |I0| initial infections at tmin) *)
Theorem esir_summary_equals_arrays : forall tb g delay dur i0 r0 tmin tmax fuel,
  esir_okb2 g delay dur i0 r0 tmin tmax = true -> (esir_fuel g i0 <= fuel)%nat ->
  exists evs out cs fd,
    esir_log tb g delay dur i0 r0 tmin tmax fuel = Ok evs /\
    esir_det tb g delay dur i0 r0 tmin tmax true fuel = Ok (out, cs) /\
    esir_det tb g delay dur i0 r0 tmin tmax false fuel = Ok (mkOut (so_rows out) None, cs) /\
    so_full out = Some fd /\
    (increasing tmin (skipn (length i0) evs) = true ->
       fd_hist fd = iv_hist (log_inv (gnodes g) sir_ps tmin (esir_init i0 r0) (skipn (length i0) evs)) /\
       so_rows out = log_arrays (gnodes g) sir_ps tmin (esir_init i0 r0) (skipn (length i0) evs) /\
       (gnodes g <> [] ->
        summary (log_inv (gnodes g) sir_ps tmin (esir_init i0 r0) (skipn (length i0) evs)) None = Ok (so_rows out))).
Proof.
  intros tb g delay dur i0 r0 tmin tmax fuel Hok Hf.
  destruct (esir_final tb g delay dur i0 r0 tmin tmax fuel Hok Hf) as [sF [cF [evs [HL [HR [Hq [HI [H2 HX]]]]]]]].
  destruct (okb2_parts _ _ _ _ _ _ _ Hok) as [Hok1 [Hi [Hr Hrg]]].
  destruct (okb_parts g delay dur i0 r0 tmin tmax Hok1) as [H1 [H3 [H4 [H5 [H6 [H7 [H8 H9]]]]]]].
  destruct (fin_finish g tmax delay dur tmin i0 r0 sF cF HI H2 true) as [hs [Hfin Hhs]].
  destruct (fin_finish g tmax delay dur tmin i0 r0 sF cF HI H2 false) as [hs' [Hfin' _]].
  exists (rev evs). eexists. eexists. eexists.
  split; [apply (esir_log_of _ _ _ _ _ _ _ _ _ _ _ HL)|].
  split; [unfold esir_det; rewrite HR; cbn [rbind]; exact Hfin|].
  split; [unfold esir_det; rewrite HR; cbn [rbind]; exact Hfin'|].
  cbn [so_full so_rows fd_hist]. split; [reflexivity|]. intros Hinc.
  destruct (start_strict g tmax delay dur tmin i0 r0 H9 H1 Hr Hrg Hi sF cF evs HI HX Hq Hinc) as [LA [LB [E HP]]].
  destruct (start_rows g tmax tmin i0 r0 H8 H1 Hr Hrg sF cF evs HX LA LB E HP) as [Hlen [Hrows _]].
  rewrite E, <- Hlen, skipn_len_app in *.
  pose proof (increasing_gt LB tmin Hinc) as Hafter.
  split; [|split; [exact Hrows|]].
  - specialize (Hhs eq_refl).
    rewrite (all_ok_map_eq _ _ _ (fun u => (u, project tmin (esir_init i0 r0) LB u))) in Hhs.
    + injection Hhs as Hhs. rewrite <- Hhs. reflexivity.
    + intros u _. rewrite (node_hist_project g tmax tmin i0 r0 Hi sF cF evs H2 HX LA LB E HP Hafter u). reflexivity.
  - intros Hne. rewrite Hrows. apply log_lemma. unfold log_okb. rewrite Hinc. cbn [andb].
    destruct (elock_tx g tmax (st00 r0) (row00 g tmin r0) _ _ _ _ (x_lock _ _ _ _ _ _ _ _ HX)) as [_ [Hst Hnodes]].
    apply andb_true_iff. split; [apply andb_true_iff; split|].
    + apply forallb_forall. intros e He.
      assert (Hev : In e evs). { apply in_rev. rewrite E. apply in_or_app. right. exact He. }
      apply andb_true_iff. split; [apply mem_In; apply (Hnodes e Hev)|].
      destruct (Hst e Hev) as [Hs|Hs]; rewrite Hs; reflexivity.
    + apply forallb_forall. intros u _. unfold esir_init. destruct (mem u r0); [reflexivity|]. destruct (mem u i0); reflexivity.
    + destruct (gnodes g); [contradiction Hne; reflexivity|reflexivity].
Qed.
