(* C14, proof side, degree-based ODE models: every quantity the *_from_graph wrappers of
   Model/Wrappers.v (and the builders of Model/IC.v) read off the graph is invariant under a
   graph isomorphism phi combined with ANY order of G.nodes() and of every adjacency list.

   g' is an isomorphic copy of g: its node list is a permutation of the renamed node list of g
   (node insertion order), the adjacency list of phi u is a permutation of the renamed adjacency
   list of u (edge insertion order), phi is injective.  Both are simple undirected graphs.
   The request (initial_infecteds, initial_recovereds, rho) is renamed along phi. *)
From EoNV Require Import Prelude Graph Aux Vec IC Wrappers VecP AuxP ICP ICHand ICEquiv Rhs2D Rhs2DP C14xDef C14xRhs C14xOut.
From Coq Require Import Permutation Lqa Setoid Morphisms.

Definition map_req (phi : node -> node) (rq : icreq) : icreq :=
  mkReq (option_map (map phi) (rq_I rq)) (option_map (map phi) (rq_R rq)) (rq_rho rq).

Section Iso.
Variables (g g' : graph) (phi : node -> node).
Hypothesis WG : wf_ugraph g = true.
Hypothesis WG' : wf_ugraph g' = true.
Hypothesis Hinj : forall u v, phi u = phi v -> u = v.
Hypothesis Hnodes : Permutation (gnodes g') (map phi (gnodes g)).
Hypothesis Hadj : forall u, In u (gnodes g) -> Permutation (gadj g' (phi u)) (map phi (gadj g u)).

Lemma iso_deg u : In u (gnodes g) -> deg g' (phi u) = deg g u.
Proof. intros Hu. unfold deg. rewrite (Permutation_length (Hadj u Hu)), map_length. reflexivity. Qed.

(* ---------- membership and statuses ---------- *)
Lemma mem_phi u l : mem (phi u) (map phi l) = mem u l.
Proof.
  induction l as [|x l IH]; [reflexivity|]. cbn [map]. rewrite !ICP.mem_cons, IH. f_equal.
  destruct (N.eqb_spec u x) as [E|E]; [subst; apply N.eqb_refl|]. apply N.eqb_neq. intro C. apply E, Hinj, C.
Qed.
Lemma mem_nodes u : mem (phi u) (gnodes g') = mem u (gnodes g).
Proof. rewrite (mem_perm _ _ _ Hnodes). apply mem_phi. Qed.
Lemma existsb_map {A B} (f : A -> B) p l : existsb p (map f l) = existsb (fun x => p (f x)) l.
Proof. induction l as [|x l IH]; [reflexivity|]. cbn [map existsb]. rewrite IH. reflexivity. Qed.
Lemma forallb_map {A B} (f : A -> B) p l : forallb p (map f l) = forallb (fun x => p (f x)) l.
Proof. induction l as [|x l IH]; [reflexivity|]. cbn [map forallb]. rewrite IH. reflexivity. Qed.
Lemma existsb_ext_all {A} (p q : A -> bool) l : (forall x, p x = q x) -> existsb p l = existsb q l.
Proof. intros H. induction l as [|x l IH]; [reflexivity|]. cbn [existsb]. rewrite H, IH. reflexivity. Qed.
Lemma forallb_ext_all {A} (p q : A -> bool) l : (forall x, p x = q x) -> forallb p l = forallb q l.
Proof. intros H. induction l as [|x l IH]; [reflexivity|]. cbn [forallb]. rewrite H, IH. reflexivity. Qed.

Lemma set_status_phi st st' l s : (forall u, st' (phi u) = st u) -> forall u, set_status st' (map phi l) s (phi u) = set_status st l s u.
Proof. intros H u. rewrite !set_status_spec, mem_phi, H. reflexivity. Qed.

(* _initialize_node_status_: same error, or statuses transported along phi *)
Theorem iso_initialize_node_status I0 R0 :
  match initialize_node_status g' (map phi I0) (option_map (map phi) R0), initialize_node_status g I0 R0 with
  | Ok st', Ok st => forall u, st' (phi u) = st u
  | Err e', Err e => e' = e
  | _, _ => False
  end.
Proof.
  unfold initialize_node_status.
  set (R := match R0 with None => [] | Some r => r end).
  assert (ER : match option_map (map phi) R0 with None => [] | Some r => r end = map phi R) by (destruct R0; reflexivity).
  rewrite ER. rewrite existsb_map, (existsb_ext_all _ (fun u => mem u R)) by (intros; apply mem_phi).
  destruct (existsb (fun u => mem u R) I0); [reflexivity|].
  rewrite forallb_map, (forallb_ext_all _ (fun u => mem u (gnodes g))) by (intros; apply mem_nodes).
  destruct (forallb (fun u => mem u (gnodes g)) I0); cbn [negb]; [|reflexivity].
  rewrite forallb_map, (forallb_ext_all (fun x => mem (phi x) (gnodes g')) (fun u => mem u (gnodes g))) by (intros; apply mem_nodes).
  destruct (forallb (fun u => mem u (gnodes g)) R); cbn [negb]; [|reflexivity].
  intros u. apply set_status_phi. intros v. apply set_status_phi. reflexivity.
Qed.

(* ---------- sums over nodes, neighbours, edges ---------- *)
Lemma node_sum_iso (F F' : node -> Q) : (forall u, In u (gnodes g) -> F' (phi u) == F u) ->
  sumQ (map F' (gnodes g')) == sumQ (map F (gnodes g)).
Proof. intros H. apply (sum_relabel phi F F' _ _ Hnodes H). Qed.
Lemma nbr_sum_iso (F F' : node -> Q) u : In u (gnodes g) -> (forall v, In v (gadj g u) -> F' (phi v) == F v) ->
  sumQ (map F' (gadj g' (phi u))) == sumQ (map F (gadj g u)).
Proof. intros Hu H. apply (sum_relabel phi F F' _ _ (Hadj u Hu) H). Qed.

(* a symmetric contribution summed over G.edges() (each edge once, in whichever orientation and order networkx yields it) *)
Lemma esum_half gg F : wf_ugraph gg = true -> (forall u v, F u v == F v u) ->
  esum gg F == sumQ (map (fun u => sumQ (map (fun v => F u v * (1 # 2)) (gadj gg u))) (gnodes gg)).
Proof.
  intros W S. rewrite <- (handshake gg (fun u v => F u v * (1 # 2)) W). apply esum_ext. intros u v. rewrite (S v u). field.
Qed.
Theorem esum_iso F F' : (forall u v, F u v == F v u) -> (forall u v, F' u v == F' v u) ->
  (forall u v, F' (phi u) (phi v) == F u v) -> esum g' F' == esum g F.
Proof.
  intros S S' T. rewrite (esum_half g' F' WG' S'), (esum_half g F WG S).
  apply node_sum_iso. intros u Hu. apply nbr_sum_iso; [exact Hu|]. intros v _. rewrite (T u v). reflexivity.
Qed.

(* _count_edge_types_ *)
Theorem iso_count_edge_types st st' : (forall u, st' (phi u) = st u) ->
  let c' := count_edge_types_st g' st' in let c := count_edge_types_st g st in
  fst (fst c') == fst (fst c) /\ snd (fst c') == snd (fst c) /\ snd c' == snd c.
Proof.
  intros H. cbv zeta. unfold count_edge_types_st. cbn [fst snd].
  assert (HS : forall u, isS st' (phi u) = isS st u) by (intros u; unfold isS; rewrite H; reflexivity).
  assert (HI : forall u, isI st' (phi u) = isI st u) by (intros u; unfold isI; rewrite H; reflexivity).
  repeat split; apply esum_iso; intros u v; rewrite ?HS, ?HI; try reflexivity.
  - rewrite (andb_comm (isS st u)). reflexivity.
  - rewrite (andb_comm (isS st' u)). reflexivity.
  - rewrite (orb_comm (isS st u && isI st v)), (andb_comm (isI st u)), (andb_comm (isS st u)). reflexivity.
  - rewrite (orb_comm (isS st' u && isI st' v)), (andb_comm (isI st' u)), (andb_comm (isS st' u)). reflexivity.
  - rewrite (andb_comm (isI st u)). reflexivity.
  - rewrite (andb_comm (isI st' u)). reflexivity.
Qed.

(* ---------- the degree distribution ---------- *)
Lemma iso_degseq : Permutation (degseq g') (degseq g).
Proof. apply (degseq_relabel g g' phi Hnodes). intros u Hu. apply iso_deg, Hu. Qed.
Lemma count_perm k ds ds' : Permutation ds ds' -> count k ds = count k ds'.
Proof. intros H. unfold count. apply (proj1 (Permutation_count_occ Nat.eq_dec ds ds') H). Qed.
Theorem iso_Pk k : Pk (degseq g') k = Pk (degseq g) k.
Proof. unfold Pk. rewrite (count_perm k _ _ iso_degseq), (Permutation_length iso_degseq). reflexivity. Qed.
Lemma iso_Pk_keys : Permutation (Pk_keys (degseq g')) (Pk_keys (degseq g)).
Proof.
  unfold Pk_keys. apply NoDup_Permutation; try apply NoDup_nodup.
  intros x. rewrite !nodup_In. split; apply Permutation_in; [exact iso_degseq|symmetry; exact iso_degseq].
Qed.
Theorem iso_sumPk f f' : (forall k, f' k == f k) -> sumPk g' f' == sumPk g f.
Proof.
  intros H. unfold sumPk. rewrite (sum_map_perm f' _ _ iso_Pk_keys). apply sum_map_ext. intros k _. apply H.
Qed.
Theorem iso_mean_degree : mean_degree g' == mean_degree g.
Proof.
  unfold mean_degree. cbv zeta. rewrite (sum_map_perm _ _ _ iso_Pk_keys). apply sum_map_ext. intros k _. rewrite iso_Pk. reflexivity.
Qed.
Theorem iso_gmaxdeg : gmaxdeg g' = gmaxdeg g.
Proof. apply (gmaxdeg_relabel g g' phi Hnodes). intros u Hu. apply iso_deg, Hu. Qed.
Theorem iso_classes : classes g' = classes g.
Proof. unfold classes. rewrite iso_gmaxdeg. reflexivity. Qed.
Lemma existsb_perm {A} (p : A -> bool) l l' : Permutation l l' -> existsb p l = existsb p l'.
Proof.
  induction 1 as [|x l l' H IH|x y l|l l' l'' H1 IH1 H2 IH2]; cbn [existsb]; try congruence.
  destruct (p x), (p y); reflexivity.
Qed.
Theorem iso_Ks : Ks_of g' = Ks_of g.
Proof.
  unfold Ks_of. rewrite iso_classes. apply filter_ext. intros k. apply existsb_perm, iso_degseq.
Qed.
Theorem iso_gN : gN g' = gN g.
Proof. apply (C14_ic_order_equivariant g g' phi Hnodes). Qed.
Theorem iso_Nk : Nk_of g' = Nk_of g.
Proof. apply (C14_ic_Nk_equivariant g g' phi Hnodes). intros u Hu. apply iso_deg, Hu. Qed.
Theorem iso_byclass p p' : (forall u, p' (phi u) = p u) -> byclass g' p' = byclass g p.
Proof. intros H. apply (C14_ic_byclass_equivariant g g' phi Hnodes); [intros u Hu; apply iso_deg, Hu|intros u _; apply H]. Qed.
Theorem iso_cnt p p' : (forall u, In u (gnodes g) -> p' (phi u) = p u) -> cnt p' (gnodes g') = cnt p (gnodes g).
Proof. intros H. rewrite (cnt_perm _ _ _ Hnodes), cnt_map. apply cnt_ext. exact H. Qed.

(* the k x k pair-count matrices of _get_NkNl_and_IC_as_arrays_ *)
Theorem iso_kmat Ks f f' : (forall u v, f' (phi u) (phi v) == f u v) ->
  Forall2 (Forall2 Qeq) (kmat g' Ks f') (kmat g Ks f).
Proof.
  intros H. unfold kmat.
  assert (A : forall (l : list nat) (h h' : nat -> vec), (forall k, veq (h' k) (h k)) -> Forall2 (Forall2 Qeq) (map h' l) (map h l))
    by (intros l h h' E; induction l; cbn [map]; constructor; auto).
  assert (B : forall (l : list nat) (h h' : nat -> Q), (forall k, h' k == h k) -> veq (map h' l) (map h l))
    by (intros l h h' E; induction l; cbn [map]; constructor; auto).
  apply A. intros k. apply B. intros l.
  assert (Dg : forall u, In u (gnodes g) -> deg g' (phi u) = deg g u) by (intros; apply iso_deg; assumption).
  rewrite (esum_half g' _ WG') by (intros u v; ring). rewrite (esum_half g _ WG) by (intros u v; ring).
  apply node_sum_iso. intros u Hu. apply nbr_sum_iso; [exact Hu|]. intros v Hv.
  destruct (wf_ugraph_facts g WG) as (_ & PER & _).
  assert (Hvn : In v (gnodes g)).
  { apply ICP.mem_In. destruct (PER u (proj2 (ICP.mem_In u _) Hu)) as (_ & SUB & _). apply (forallb_mem _ _ v SUB). apply ICP.mem_In, Hv. }
  cbv beta. rewrite (Dg u Hu), (Dg v Hvn).
  destruct (Nat.eqb (deg g u) k && Nat.eqb (deg g v) l), (Nat.eqb (deg g v) k && Nat.eqb (deg g u) l);
    rewrite ?(H u v), ?(H v u); reflexivity.
Qed.

(* effective degree: numbers of neighbours in a transported class *)
Theorem iso_nbr_count p p' u : (forall v, p' (phi v) = p v) -> In u (gnodes g) -> nbr_count g' p' (phi u) = nbr_count g p u.
Proof.
  intros H Hu. unfold nbr_count. rewrite (filter_length_perm p' _ _ (Hadj u Hu)).
  generalize (gadj g u). intros l. induction l as [|x l IH]; [reflexivity|]. cbn [map filter]. rewrite H.
  destruct (p x); cbn [length]; rewrite IH; reflexivity.
Qed.
Theorem iso_sqmat f : sqmat g' f = sqmat g f.
Proof. unfold sqmat. rewrite iso_classes. reflexivity. Qed.
Theorem iso_ed_rho_entry c rho s i : ed_rho_entry g' c rho s i = ed_rho_entry g c rho s i.
Proof. unfold ed_rho_entry. rewrite iso_gmaxdeg, iso_Nk. reflexivity. Qed.
Theorem iso_rho_or_default rho : rho_or_default g' rho = rho_or_default g rho.
Proof. unfold rho_or_default. rewrite iso_gN. reflexivity. Qed.
Lemma iso_nodes_nil : match gnodes g', gnodes g with [], [] => True | _ :: _, _ :: _ => True | _, _ => False end.
Proof.
  pose proof (Permutation_length Hnodes) as L. rewrite map_length in L.
  destruct (gnodes g'), (gnodes g); cbn in L; try discriminate; exact I.
Qed.

(* ====================================================================== *)
(* whole outputs, for EVERY solver: the wrappers whose solver arguments are  *)
(* counts (Leibniz-equal rationals)                                        *)
(* ====================================================================== *)
Lemma isSome_map {A B} (f : A -> B) o : isSome (option_map f o) = isSome o.
Proof. destruct o; reflexivity. Qed.
Lemma len_map (l : list node) : len (map phi l) = len l.
Proof. unfold len. rewrite map_length. reflexivity. Qed.
Lemma sqmat_ext f f' : (forall s i, f' s i = f s i) -> sqmat g' f' = sqmat g f.
Proof. intros H. unfold sqmat. rewrite iso_classes. apply map_ext. intros s. apply map_ext. intros i. apply H. Qed.

Lemma nodes_match {A} (x y : A) :
  match gnodes g' with [] => x | _ :: _ => y end = match gnodes g with [] => x | _ :: _ => y end.
Proof. pose proof iso_nodes_nil as H. destruct (gnodes g'), (gnodes g); try contradiction; reflexivity. Qed.

Lemma match_nil_cong {A B} (l : list A) (x y y' : B) :
  y = y' -> match l with [] => x | _ :: _ => y end = match l with [] => x | _ :: _ => y' end.
Proof. intros ->. reflexivity. Qed.

Ltac init_cases I0 R0 st' st Hst :=
  let HI := fresh "HI" in
  pose proof (iso_initialize_node_status I0 R0) as HI; cbn [option_map] in HI |- *;
  destruct (initialize_node_status g' (map phi I0) _) as [st'|?], (initialize_node_status g I0 _) as [st|?];
  try contradiction; [rename HI into Hst|subst; reflexivity].

Theorem iso_get_Nk_and_IC rq sir : get_Nk_and_IC g' (map_req phi rq) sir = get_Nk_and_IC g rq sir.
Proof.
  unfold get_Nk_and_IC, map_req. cbn [rq_I rq_R rq_rho]. rewrite !isSome_map.
  destruct (isSome (rq_rho rq) && isSome (rq_I rq)); [reflexivity|].
  destruct (isSome (rq_rho rq) && isSome (rq_R rq)); [reflexivity|].
  destruct (negb sir && isSome (rq_R rq)); [reflexivity|].
  rewrite nodes_match. apply match_nil_cong.
  rewrite iso_Nk, iso_rho_or_default.
  destruct (rq_I rq) as [I0|]; cbn [option_map]; [|reflexivity].
  init_cases I0 (rq_R rq) st' st Hst. cbn [rbind].
  assert (HS : forall u, isS st' (phi u) = isS st u) by (intros u; unfold isS; rewrite Hst; reflexivity).
  assert (HI2 : forall u, isI st' (phi u) = isI st u) by (intros u; unfold isI; rewrite Hst; reflexivity).
  rewrite (iso_byclass (isS st) (isS st') HS), (iso_byclass (isI st) (isI st') HI2).
  rewrite (iso_byclass (fun u => negb (isS st u) && negb (isI st u)) (fun u => negb (isS st' u) && negb (isI st' u)))
    by (intros u; rewrite HS, HI2; reflexivity).
  reflexivity.
Qed.

Theorem iso_SIS_homogeneous_meanfield rq sv :
  SIS_homogeneous_meanfield_from_graph g' (map_req phi rq) sv = SIS_homogeneous_meanfield_from_graph g rq sv.
Proof.
  unfold SIS_homogeneous_meanfield_from_graph, map_req. cbn [rq_I rq_R rq_rho]. rewrite !isSome_map, iso_gN.
  destruct (rq_I rq); cbn [option_map]; rewrite ?len_map; reflexivity.
Qed.
Theorem iso_SIR_homogeneous_meanfield rq sv :
  SIR_homogeneous_meanfield_from_graph g' (map_req phi rq) sv = SIR_homogeneous_meanfield_from_graph g rq sv.
Proof.
  unfold SIR_homogeneous_meanfield_from_graph, map_req. cbn [rq_I rq_R rq_rho]. rewrite !isSome_map, iso_gN.
  destruct (rq_I rq), (rq_R rq); cbn [option_map]; rewrite ?len_map; reflexivity.
Qed.
Theorem iso_SIS_heterogeneous_meanfield rq full sv :
  SIS_heterogeneous_meanfield_from_graph g' (map_req phi rq) full sv = SIS_heterogeneous_meanfield_from_graph g rq full sv.
Proof.
  unfold SIS_heterogeneous_meanfield_from_graph. cbn [map_req rq_I rq_R rq_rho]. rewrite !isSome_map.
  change (mkReq (option_map (map phi) (rq_I rq)) None (rq_rho rq)) with (map_req phi (mkReq (rq_I rq) None (rq_rho rq))).
  rewrite iso_get_Nk_and_IC. reflexivity.
Qed.
Theorem iso_SIR_heterogeneous_meanfield rq full sv :
  SIR_heterogeneous_meanfield_from_graph g' (map_req phi rq) full sv = SIR_heterogeneous_meanfield_from_graph g rq full sv.
Proof. unfold SIR_heterogeneous_meanfield_from_graph. rewrite iso_get_Nk_and_IC. reflexivity. Qed.

Theorem iso_SIS_effective_degree rq full sv :
  SIS_effective_degree_from_graph g' (map_req phi rq) full sv = SIS_effective_degree_from_graph g rq full sv.
Proof.
  unfold SIS_effective_degree_from_graph, map_req. cbn [rq_I rq_R rq_rho]. rewrite !isSome_map.
  destruct (isSome (rq_rho rq) && isSome (rq_I rq)); [reflexivity|].
  rewrite nodes_match. apply match_nil_cong.
  destruct (rq_I rq) as [I0|]; cbn [option_map].
  - init_cases I0 (@None (list node)) st' st Hst. cbn [rbind].
    assert (HS : forall u, isS st' (phi u) = isS st u) by (intros u; unfold isS; rewrite Hst; reflexivity).
    f_equal. f_equal; apply sqmat_ext; intros s i; apply iso_cnt; intros u Hu;
      rewrite HS, (iso_nbr_count (isS st) (isS st') u HS Hu), (iso_deg u Hu); reflexivity.
  - rewrite iso_rho_or_default. f_equal. f_equal; apply sqmat_ext; intros s i; apply iso_ed_rho_entry.
Qed.
Theorem iso_SIR_effective_degree rq full sv :
  SIR_effective_degree_from_graph g' (map_req phi rq) full sv = SIR_effective_degree_from_graph g rq full sv.
Proof.
  unfold SIR_effective_degree_from_graph, map_req. cbn [rq_I rq_R rq_rho]. rewrite !isSome_map.
  destruct (isSome (rq_rho rq) && isSome (rq_I rq)); [reflexivity|].
  destruct (isSome (rq_rho rq) && isSome (rq_R rq)); [reflexivity|].
  rewrite nodes_match. apply match_nil_cong.
  destruct (rq_I rq) as [I0|]; cbn [option_map].
  - init_cases I0 (rq_R rq) st' st Hst. cbn [rbind].
    assert (HS : forall u, isS st' (phi u) = isS st u) by (intros u; unfold isS; rewrite Hst; reflexivity).
    assert (HI2 : forall u, isI st' (phi u) = isI st u) by (intros u; unfold isI; rewrite Hst; reflexivity).
    f_equal. f_equal.
    + apply sqmat_ext; intros s i; apply iso_cnt; intros u Hu.
      rewrite HS, (iso_nbr_count (isS st) (isS st') u HS Hu), (iso_nbr_count (isI st) (isI st') u HI2 Hu). reflexivity.
    + apply iso_cnt. intros u _. apply HI2.
    + apply iso_cnt. intros u _. rewrite HS, HI2. reflexivity.
  - rewrite iso_rho_or_default, iso_Nk. f_equal. f_equal. apply sqmat_ext; intros s i; apply iso_ed_rho_entry.
Qed.

(* ====================================================================== *)
(* whole outputs up to equality of rationals, for every solver that is a   *)
(* function of the numbers it is given: the wrappers whose solver arguments *)
(* are sums over G.edges() / over the degree distribution                  *)
(* ====================================================================== *)
Ltac init_cases2 I0 R0 st' st Hst :=
  let HI := fresh "HI" in
  pose proof (iso_initialize_node_status I0 R0) as HI; cbn [option_map] in HI |- *;
  destruct (initialize_node_status g' (map phi I0) _) as [st'|?], (initialize_node_status g I0 _) as [st|?];
  try contradiction; [rename HI into Hst|subst; cbn [rbind req]; reflexivity].

Definition same_st (st : status) (u v : node) : bool := N.eqb (st u) (st v).
Lemma same_st_sym st u v : same_st st u v = same_st st v u.
Proof. unfold same_st. apply N.eqb_sym. Qed.
Lemma same_isS (st : status) u v : (N.eqb (st u) (st v) && isS st u)%bool = (N.eqb (st v) (st u) && isS st v)%bool.
Proof.
  unfold isS. destruct (N.eqb_spec (st u) (st v)) as [E|E].
  - rewrite E, N.eqb_refl. reflexivity.
  - replace (N.eqb (st v) (st u)) with false by (symmetry; apply N.eqb_neq; congruence). reflexivity.
Qed.

Section WithSolver.
Variable sv : solver.
Hypothesis SV : solver_proper sv.

Theorem iso_SIS_homogeneous_pairwise rq full :
  req oeq (SIS_homogeneous_pairwise_from_graph g' (map_req phi rq) full sv) (SIS_homogeneous_pairwise_from_graph g rq full sv).
Proof.
  unfold SIS_homogeneous_pairwise_from_graph, map_req. cbn [rq_I rq_R rq_rho]. rewrite !isSome_map. cbv zeta.
  destruct (isSome (rq_rho rq) && isSome (rq_I rq)); [reflexivity|]. rewrite iso_gN, iso_rho_or_default.
  destruct (rq_I rq) as [I0|]; cbn [option_map].
  - init_cases2 I0 (@None (list node)) st' st Hst. cbn [rbind]. rewrite len_map.
    assert (HS : forall u, isS st' (phi u) = isS st u) by (intros u; unfold isS; rewrite Hst; reflexivity).
    apply SIS_homogeneous_pairwise_proper; try exact SV; try reflexivity; try apply iso_mean_degree.
    + apply (esum_iso (fun u v => if N.eqb (st u) (st v) then 0 else 1) (fun u v => if N.eqb (st' u) (st' v) then 0 else 1)).
      * intros u v. rewrite (N.eqb_sym (st u)). reflexivity.
      * intros u v. rewrite (N.eqb_sym (st' u)). reflexivity.
      * intros u v. rewrite !Hst. reflexivity.
    + apply (esum_iso (fun u v => if N.eqb (st u) (st v) && isS st u then 2 else 0) (fun u v => if N.eqb (st' u) (st' v) && isS st' u then 2 else 0)).
      * intros u v. rewrite (same_isS st u v). reflexivity.
      * intros u v. rewrite (same_isS st' u v). reflexivity.
      * intros u v. rewrite !Hst, HS. reflexivity.
  - pose proof iso_mean_degree as Hn.
    apply SIS_homogeneous_pairwise_proper; try exact SV; peq.
Qed.

Theorem iso_SIR_homogeneous_pairwise rq full :
  req oeq (SIR_homogeneous_pairwise_from_graph g' (map_req phi rq) full sv) (SIR_homogeneous_pairwise_from_graph g rq full sv).
Proof.
  unfold SIR_homogeneous_pairwise_from_graph, map_req. cbn [rq_I rq_R rq_rho]. rewrite !isSome_map. cbv zeta.
  destruct (isSome (rq_rho rq) && isSome (rq_I rq)); [reflexivity|].
  destruct (isSome (rq_rho rq) && isSome (rq_R rq)); [reflexivity|]. rewrite iso_gN, iso_rho_or_default.
  pose proof iso_mean_degree as Hn.
  destruct (rq_I rq) as [I0|]; cbn [option_map].
  - set (R0l := match rq_R rq with None => [] | Some r => r end).
    assert (ER : match option_map (map phi) (rq_R rq) with None => [] | Some r => r end = map phi R0l) by (destruct (rq_R rq); reflexivity).
    rewrite ER. init_cases2 I0 (Some R0l) st' st Hst. cbn [rbind]. rewrite !len_map.
    destruct (iso_count_edge_types st st' Hst) as [C1 [C2 C3]].
    destruct (count_edge_types_st g' st') as [[a' b'] c'], (count_edge_types_st g st) as [[a b] c]. cbn [fst snd] in *.
    apply SIR_homogeneous_pairwise_proper; try exact SV; peq.
  - apply SIR_homogeneous_pairwise_proper; try exact SV; peq.
Qed.

(* _get_NkNl_and_IC_as_arrays_ *)
Definition nknl_eq (a b : nknl) : Prop :=
  kk_Ks a = kk_Ks b /\ meq (kk_NkNl a) (kk_NkNl b) /\ meq (kk_SkSl a) (kk_SkSl b) /\ meq (kk_SkIl a) (kk_SkIl b) /\ meq (kk_IkIl a) (kk_IkIl b).
Theorem iso_get_NkNl_and_IC rq : req nknl_eq (get_NkNl_and_IC g' (map_req phi rq)) (get_NkNl_and_IC g rq).
Proof.
  unfold get_NkNl_and_IC, map_req. cbn [rq_I rq_R rq_rho]. rewrite !isSome_map. cbv zeta.
  destruct (isSome (rq_rho rq) && isSome (rq_I rq)); [reflexivity|].
  destruct (isSome (rq_rho rq) && isSome (rq_R rq)); [reflexivity|]. rewrite iso_Ks, iso_rho_or_default.
  assert (K1 : meq (kmat g' (Ks_of g) (fun _ _ => 1)) (kmat g (Ks_of g) (fun _ _ => 1))) by (apply iso_kmat; reflexivity).
  destruct (rq_I rq) as [I0|]; cbn [option_map].
  - init_cases2 I0 (rq_R rq) st' st Hst. cbn [rbind req]. unfold nknl_eq. cbn [kk_Ks kk_NkNl kk_SkSl kk_SkIl kk_IkIl].
    assert (HS : forall u, isS st' (phi u) = isS st u) by (intros u; unfold isS; rewrite Hst; reflexivity).
    assert (HI2 : forall u, isI st' (phi u) = isI st u) by (intros u; unfold isI; rewrite Hst; reflexivity).
    repeat split; try exact K1; apply iso_kmat; intros u v; rewrite ?HS, ?HI2; reflexivity.
  - cbn [req]. unfold nknl_eq. cbn [kk_Ks kk_NkNl kk_SkSl kk_SkIl kk_IkIl].
    repeat split; try exact K1; apply mc_scale; try reflexivity; exact K1.
Qed.

Theorem iso_SIS_heterogeneous_pairwise rq full :
  req oeq (SIS_heterogeneous_pairwise_from_graph g' (map_req phi rq) full sv) (SIS_heterogeneous_pairwise_from_graph g rq full sv).
Proof.
  unfold SIS_heterogeneous_pairwise_from_graph. cbv zeta. cbn [map_req rq_I rq_R rq_rho].
  change (mkReq (option_map (map phi) (rq_I rq)) None (rq_rho rq)) with (map_req phi (mkReq (rq_I rq) None (rq_rho rq))).
  rewrite iso_get_Nk_and_IC. destruct (get_Nk_and_IC g _ false) as [ic|e]; [|reflexivity]. cbn [rbind].
  pose proof (iso_get_NkNl_and_IC (mkReq (rq_I rq) None (rq_rho rq))) as HK.
  destruct (get_NkNl_and_IC g' _) as [kk'|?], (get_NkNl_and_IC g _) as [kk|?]; cbn [req] in HK; try contradiction;
    [|subst; reflexivity]. cbn [rbind]. destruct HK as (E & H1 & H2 & H3 & H4). rewrite E.
  apply SIS_heterogeneous_pairwise_proper; try exact SV; try assumption; reflexivity.
Qed.
Theorem iso_SIR_heterogeneous_pairwise rq full :
  req oeq (SIR_heterogeneous_pairwise_from_graph g' (map_req phi rq) full sv) (SIR_heterogeneous_pairwise_from_graph g rq full sv).
Proof.
  unfold SIR_heterogeneous_pairwise_from_graph. cbv zeta.
  rewrite iso_get_Nk_and_IC. destruct (get_Nk_and_IC g _ true) as [ic|e]; [|reflexivity]. cbn [rbind].
  pose proof (iso_get_NkNl_and_IC rq) as HK.
  destruct (get_NkNl_and_IC g' _) as [kk'|?], (get_NkNl_and_IC g _) as [kk|?]; cbn [req] in HK; try contradiction;
    [|subst; reflexivity]. cbn [rbind]. destruct HK as (E & H1 & H2 & H3 & H4). rewrite E.
  apply SIR_heterogeneous_pairwise_proper; try exact SV; try assumption; reflexivity.
Qed.

(* _count_edge_types_ as the wrappers call it *)
Lemma iso_count_edge_types_res I0 R0 :
  req (fun c' c => fst (fst c') == fst (fst c) /\ snd (fst c') == snd (fst c) /\ snd c' == snd c)
      (count_edge_types g' (map phi I0) (option_map (map phi) R0)) (count_edge_types g I0 R0).
Proof.
  unfold count_edge_types. init_cases2 I0 R0 st' st Hst. cbn [rbind req]. apply iso_count_edge_types, Hst.
Qed.
Lemma rho_sel_iso rq :
  match rq_rho rq, option_map (map phi) (rq_I rq) with None, None => Some (1 / gN g') | r, _ => r end =
  match rq_rho rq, rq_I rq with None, None => Some (1 / gN g) | r, _ => r end.
Proof. rewrite iso_gN. destruct (rq_rho rq), (rq_I rq); reflexivity. Qed.

Theorem iso_SIS_compact_pairwise rq full :
  req oeq (SIS_compact_pairwise_from_graph g' (map_req phi rq) full sv) (SIS_compact_pairwise_from_graph g rq full sv).
Proof.
  unfold SIS_compact_pairwise_from_graph. cbv zeta. cbn [map_req rq_I rq_R rq_rho]. rewrite !isSome_map.
  destruct (isSome (rq_rho rq) && isSome (rq_I rq)); [reflexivity|]. rewrite rho_sel_iso.
  set (rho := match rq_rho rq, rq_I rq with None, None => Some (1 / gN g) | r, _ => r end).
  change (mkReq (option_map (map phi) (rq_I rq)) None rho) with (map_req phi (mkReq (rq_I rq) None rho)).
  rewrite iso_get_Nk_and_IC. destruct (get_Nk_and_IC g _ false) as [ic|e]; [|reflexivity]. cbn [rbind].
  destruct (rq_I rq) as [I0|]; cbn [option_map].
  - pose proof (iso_count_edge_types_res I0 None) as HC. cbn [option_map] in HC.
    destruct (count_edge_types g' _ _) as [[[a' b'] c']|?], (count_edge_types g _ _) as [[[a b] c]|?]; cbn [req] in HC; try contradiction;
      [|subst; reflexivity]. cbn [rbind req fst snd] in *. destruct HC as (C1 & C2 & C3).
    apply SIS_compact_pairwise_proper; try exact SV; try assumption; reflexivity.
  - destruct rho as [r|]; [|reflexivity]. cbn [req]. rewrite iso_classes. apply oeq_refl.
Qed.
Theorem iso_SIR_compact_pairwise rq full :
  req oeq (SIR_compact_pairwise_from_graph g' (map_req phi rq) full sv) (SIR_compact_pairwise_from_graph g rq full sv).
Proof.
  unfold SIR_compact_pairwise_from_graph. cbv zeta. cbn [map_req rq_I rq_R rq_rho]. rewrite !isSome_map.
  destruct (isSome (rq_rho rq) && isSome (rq_I rq)); [reflexivity|]. rewrite rho_sel_iso.
  set (rho := match rq_rho rq, rq_I rq with None, None => Some (1 / gN g) | r, _ => r end).
  change (mkReq (option_map (map phi) (rq_I rq)) (option_map (map phi) (rq_R rq)) rho) with (map_req phi (mkReq (rq_I rq) (rq_R rq) rho)).
  rewrite iso_get_Nk_and_IC. destruct (get_Nk_and_IC g _ true) as [ic|e]; [|reflexivity]. cbn [rbind].
  destruct (rq_I rq) as [I0|]; cbn [option_map].
  - pose proof (iso_count_edge_types_res I0 (rq_R rq)) as HC.
    destruct (count_edge_types g' _ _) as [[[a' b'] c']|?], (count_edge_types g _ _) as [[[a b] c]|?]; cbn [req] in HC; try contradiction;
      [|subst; reflexivity]. cbn [rbind req fst snd] in *. destruct HC as (C1 & C2 & C3).
    apply SIR_compact_pairwise_proper; try exact SV; try assumption; reflexivity.
  - destruct rho as [r|]; [|reflexivity]. cbn [req]. apply oeq_refl.
Qed.

Theorem iso_SIS_super_compact_pairwise rq full :
  req oeq (SIS_super_compact_pairwise_from_graph g' (map_req phi rq) full sv) (SIS_super_compact_pairwise_from_graph g rq full sv).
Proof.
  unfold SIS_super_compact_pairwise_from_graph. cbv zeta. cbn [map_req rq_I rq_R rq_rho]. rewrite !isSome_map.
  destruct (isSome (rq_rho rq) && isSome (rq_I rq)); [reflexivity|].
  change (mkReq (option_map (map phi) (rq_I rq)) None (rq_rho rq)) with (map_req phi (mkReq (rq_I rq) None (rq_rho rq))).
  rewrite iso_get_Nk_and_IC. destruct (get_Nk_and_IC g _ false) as [ic|e]; [|reflexivity]. cbn [rbind].
  destruct (rq_I rq) as [I0|]; cbn [option_map].
  - pose proof (iso_count_edge_types_res I0 None) as HC. cbn [option_map] in HC.
    destruct (count_edge_types g' _ _) as [[[a' b'] c']|?], (count_edge_types g _ _) as [[[a b] c]|?]; cbn [req] in HC; try contradiction;
      [|subst; reflexivity]. cbn [rbind req fst snd] in *. destruct HC as (C1 & C2 & C3).
    apply SIS_super_compact_pairwise_proper; try exact SV; try assumption; reflexivity.
  - cbn [req]. rewrite iso_rho_or_default. apply oeq_refl.
Qed.

Lemma psihat_Sk_iso (Sk : vec) (N : Q) a b : a == b ->
  sumPk g' (fun k => vnth k Sk * qpow a (Z.of_nat k)) / N == sumPk g (fun k => vnth k Sk * qpow b (Z.of_nat k)) / N.
Proof. intros H. apply qc_div; [|reflexivity]. apply iso_sumPk. intros k. rewrite (qc_pow a b _ H). reflexivity. Qed.
Lemma psihat_Pk_iso c a b : a == b ->
  c * sumPk g' (fun k => Pk (degseq g') k * qpow a (Z.of_nat k)) == c * sumPk g (fun k => Pk (degseq g) k * qpow b (Z.of_nat k)).
Proof. intros H. apply qc_mult; [reflexivity|]. apply iso_sumPk. intros k. rewrite iso_Pk, (qc_pow a b _ H). reflexivity. Qed.

Theorem iso_SIR_super_compact_pairwise rq full :
  req oeq (SIR_super_compact_pairwise_from_graph g' (map_req phi rq) full sv) (SIR_super_compact_pairwise_from_graph g rq full sv).
Proof.
  unfold SIR_super_compact_pairwise_from_graph. cbv zeta. cbn [map_req rq_I rq_R rq_rho]. rewrite !isSome_map.
  destruct (isSome (rq_rho rq) && isSome (rq_I rq)); [reflexivity|]. rewrite rho_sel_iso.
  set (rho := match rq_rho rq, rq_I rq with None, None => Some (1 / gN g) | r, _ => r end).
  change (mkReq (option_map (map phi) (rq_I rq)) (option_map (map phi) (rq_R rq)) rho) with (map_req phi (mkReq (rq_I rq) (rq_R rq) rho)).
  rewrite iso_get_Nk_and_IC. destruct (get_Nk_and_IC g _ true) as [ic|e]; [|reflexivity]. cbn [rbind]. rewrite iso_gN.
  destruct (rq_I rq) as [I0|]; cbn [option_map].
  - pose proof (iso_count_edge_types_res I0 (rq_R rq)) as HC.
    destruct (count_edge_types g' _ _) as [[[a' b'] c']|?], (count_edge_types g _ _) as [[[a b] c]|?]; cbn [req] in HC; try contradiction;
      [|subst; reflexivity]. cbn [rbind req fst snd] in *. destruct HC as (C1 & C2 & C3).
    apply SIR_super_compact_pairwise_proper; try exact SV; try assumption; try reflexivity.
    intros x y Hxy. apply psihat_Sk_iso, Hxy.
  - destruct rho as [r|]; [|reflexivity]. cbn [req].
    apply SIR_super_compact_pairwise_proper; try exact SV; try reflexivity.
    intros x y Hxy. apply psihat_Pk_iso, Hxy.
Qed.

Theorem iso_SIR_compact_effective_degree rq full :
  req oeq (SIR_compact_effective_degree_from_graph g' (map_req phi rq) full sv) (SIR_compact_effective_degree_from_graph g rq full sv).
Proof.
  unfold SIR_compact_effective_degree_from_graph, map_req. cbn [rq_I rq_R rq_rho]. rewrite !isSome_map. cbv zeta.
  destruct (isSome (rq_rho rq) && isSome (rq_I rq)); [reflexivity|].
  destruct (isSome (rq_rho rq) && isSome (rq_R rq)); [reflexivity|].
  rewrite nodes_match.
  assert (MC : forall (l : list node) (x y y' : result output), req oeq y y' ->
            req oeq (match l with [] => x | _ :: _ => y end) (match l with [] => x | _ :: _ => y' end))
    by (intros l x y y' H; destruct l; [apply req_refl, oeq_refl|exact H]).
  apply MC.
  destruct (rq_I rq) as [I0|]; cbn [option_map].
  - init_cases2 I0 (rq_R rq) st' st Hst. cbn [rbind req].
    assert (HS : forall u, isS st' (phi u) = isS st u) by (intros u; unfold isS; rewrite Hst; reflexivity).
    assert (HI2 : forall u, isI st' (phi u) = isI st u) by (intros u; unfold isI; rewrite Hst; reflexivity).
    assert (HR : forall u, isR st' (phi u) = isR st u) by (intros u; unfold isR; rewrite Hst; reflexivity).
    apply SIR_compact_effective_degree_proper; try exact SV.
    + rewrite iso_classes.
      assert (EQ : map (fun kap => cnt (fun u => isS st' u && Nat.eqb (nbr_count g' (fun v => negb (isR st' v)) u) kap) (gnodes g')) (classes g) =
                   map (fun kap => cnt (fun u => isS st u && Nat.eqb (nbr_count g (fun v => negb (isR st v)) u) kap) (gnodes g)) (classes g)).
      { apply map_ext. intros kap. apply iso_cnt. intros u Hu. rewrite HS.
        rewrite (iso_nbr_count (fun v => negb (isR st v)) (fun v => negb (isR st' v)) u) by (try exact Hu; intros v; rewrite HR; reflexivity). reflexivity. }
      rewrite EQ. reflexivity.
    + rewrite (iso_cnt (isI st) (isI st')) by (intros u _; apply HI2). reflexivity.
    + rewrite (iso_cnt (fun u => negb (isS st u) && negb (isI st u)) (fun u => negb (isS st' u) && negb (isI st' u))) by (intros u _; rewrite HS, HI2; reflexivity).
      reflexivity.
    + apply node_sum_iso. intros u Hu. rewrite HS, (iso_nbr_count (isI st) (isI st') u HI2 Hu). reflexivity.
  - cbn [req]. rewrite iso_rho_or_default, iso_Nk, iso_classes. apply oeq_refl.
Qed.

Theorem iso_EBCM rq full :
  req oeq (EBCM_from_graph g' (map_req phi rq) full sv) (EBCM_from_graph g rq full sv).
Proof.
  unfold EBCM_from_graph, map_req. cbn [rq_I rq_R rq_rho]. rewrite !isSome_map. cbv zeta.
  destruct (isSome (rq_rho rq) && isSome (rq_I rq)); [reflexivity|].
  destruct (isSome (rq_rho rq) && isSome (rq_R rq)); [reflexivity|]. rewrite iso_gN.
  destruct (rq_I rq) as [I0|]; cbn [option_map].
  - init_cases2 I0 (rq_R rq) st' st Hst. cbn [rbind]. rewrite nodes_match.
    assert (MC : forall (l : list node) (x y y' : result output), req oeq y y' ->
              req oeq (match l with [] => x | _ :: _ => y end) (match l with [] => x | _ :: _ => y' end))
      by (intros l x y y' H; destruct l; [apply req_refl, oeq_refl|exact H]).
    apply MC.
    assert (HS : forall u, isS st' (phi u) = isS st u) by (intros u; unfold isS; rewrite Hst; reflexivity).
    assert (HR : forall u, isR st' (phi u) = isR st u) by (intros u; unfold isR; rewrite Hst; reflexivity).
    assert (SX : sumQ (map (fun u => if isS st' u then Qnat (deg g' u) else 0) (gnodes g')) ==
                 sumQ (map (fun u => if isS st u then Qnat (deg g u) else 0) (gnodes g)))
      by (apply node_sum_iso; intros u Hu; rewrite HS, (iso_deg u Hu); reflexivity).
    rewrite (Qeqb_comp _ _ 0 0 SX (Qeq_refl 0)). destruct (Qeqb _ 0); [reflexivity|]. cbn [req].
    apply EBCM_proper; try exact SV; try reflexivity.
    + intros a b Hab. apply iso_sumPk. intros k. rewrite iso_Pk, iso_Nk, (qc_pow a b _ Hab).
      rewrite (iso_cnt (fun u => isS st u && Nat.eqb (deg g u) k) (fun u => isS st' u && Nat.eqb (deg g' u) k))
        by (intros u Hu; rewrite HS, (iso_deg u Hu); reflexivity). reflexivity.
    + rewrite (iso_cnt (isR st) (isR st')) by (intros u _; apply HR). reflexivity.
  - cbn [req]. rewrite iso_rho_or_default. apply EBCM_proper; try exact SV; try reflexivity.
    intros a b Hab. apply psihat_Pk_iso, Hab.
Qed.

(* every wrapper modelled in Model/Wrappers.v *)
Theorem iso_run_entry e rq full : req oeq (run_entry e g' (map_req phi rq) full sv) (run_entry e g rq full sv).
Proof.
  destruct e; cbn [run_entry].
  - rewrite iso_SIS_homogeneous_meanfield. apply req_refl, oeq_refl.
  - rewrite iso_SIR_homogeneous_meanfield. apply req_refl, oeq_refl.
  - apply iso_SIS_homogeneous_pairwise.
  - apply iso_SIR_homogeneous_pairwise.
  - rewrite iso_SIS_heterogeneous_meanfield. apply req_refl, oeq_refl.
  - rewrite iso_SIR_heterogeneous_meanfield. apply req_refl, oeq_refl.
  - apply iso_SIS_heterogeneous_pairwise.
  - apply iso_SIR_heterogeneous_pairwise.
  - apply iso_SIS_compact_pairwise.
  - apply iso_SIR_compact_pairwise.
  - apply iso_SIS_super_compact_pairwise.
  - apply iso_SIR_super_compact_pairwise.
  - rewrite iso_SIS_effective_degree. apply req_refl, oeq_refl.
  - rewrite iso_SIR_effective_degree. apply req_refl, oeq_refl.
  - apply iso_SIS_compact_pairwise.
  - apply iso_SIR_compact_effective_degree.
  - apply iso_EBCM.
Qed.
End WithSolver.

(* row 0 (what Extract/XIC.v extracts and the `ic` correspondence compares with the code) *)
Definition val_eq (a b : val) : Prop :=
  match a, b with VS x, VS y => x == y | VV x, VV y => veq x y | VM x, VM y => meq x y | _, _ => False end.
Definition row0_eq (a b : list (sname * val)) : Prop := Forall2 (fun x y => fst x = fst y /\ val_eq (snd x) (snd y)) a b.
Lemma row0_oeq o o' : oeq o o' -> row0_eq (row0 o) (row0 o').
Proof.
  intros H. unfold row0, row0_eq. induction H as [|[n1 s1] [n2 s2] o o' [E S] H IH]; cbn [map]; constructor; [|exact IH].
  cbn [fst snd] in *. split; [exact E|]. destruct s1, s2; cbn in S |- *; try contradiction; apply S.
Qed.
Theorem iso_row0_entry e rq full : req row0_eq (row0_entry e g' (map_req phi rq) full) (row0_entry e g rq full).
Proof.
  unfold row0_entry. pose proof (iso_run_entry const_solver const_solver_proper e rq full) as H.
  destruct (run_entry e g' _ full const_solver), (run_entry e g rq full const_solver); cbn [req rbind] in *; try contradiction;
    [apply row0_oeq, H|exact H].
Qed.
(* the wrappers whose solver arguments are counts: identical outputs for EVERY solver (no assumption on it) *)
Theorem iso_run_entry_eq e rq full sv : In e [eSISm; eSIRm; eSIShm; eSIRhm; eSISed; eSIRed] ->
  run_entry e g' (map_req phi rq) full sv = run_entry e g rq full sv.
Proof.
  intros [<-|[<-|[<-|[<-|[<-|[<-|[]]]]]]]; cbn [run_entry].
  - apply iso_SIS_homogeneous_meanfield.
  - apply iso_SIR_homogeneous_meanfield.
  - apply iso_SIS_heterogeneous_meanfield.
  - apply iso_SIR_heterogeneous_meanfield.
  - apply iso_SIS_effective_degree.
  - apply iso_SIR_effective_degree.
Qed.
End Iso.

(* ====================================================================== *)
(* degree-distribution helpers (get_Pk, get_PGF / PGFPrime / PGFDPrime,    *)
(* estimate_R0, get_Pnk: Model/Aux.v): functions of the degree sequence in *)
(* node order and of the neighbour-degree lists in adjacency order         *)
(* ====================================================================== *)
Section DegreeHelpers.
Lemma ks_perm ds ds' : Permutation ds ds' -> ks ds = ks ds'.
Proof. intros H. unfold ks. rewrite (maxdeg_perm _ _ H). reflexivity. Qed.
Lemma Pk_perm ds ds' k : Permutation ds ds' -> Pk ds k = Pk ds' k.
Proof. intros H. unfold Pk, count. rewrite (proj1 (Permutation_count_occ Nat.eq_dec ds ds') H k), (Permutation_length H). reflexivity. Qed.
Theorem psi_perm ds ds' x : Permutation ds ds' -> psi ds x = psi ds' x /\ psiP ds x = psiP ds' x /\ psiDP ds x = psiDP ds' x.
Proof.
  intros H. unfold psi, psiP, psiDP. rewrite (ks_perm _ _ H).
  repeat split; f_equal; apply map_ext; intros k; rewrite (Pk_perm _ _ k H); reflexivity.
Qed.
Theorem estimate_R0_perm ds ds' T : Permutation ds ds' -> estimate_R0 ds T = estimate_R0 ds' T.
Proof.
  intros H. unfold estimate_R0. destruct (psi_perm ds ds' 1 H) as (_ & -> & ->). reflexivity.
Qed.

(* get_Pnk: the list may be given in any node order, every neighbour-degree list in any order *)
Definition nd_equiv (nd' nd : list (nat * list nat)) : Prop :=
  exists nd'', Permutation nd' nd'' /\ Forall2 (fun a b => fst a = fst b /\ Permutation (snd a) (snd b)) nd'' nd.
Lemma nd_F2_fst (a b : list (nat * list nat)) :
  Forall2 (fun x y => fst x = fst y /\ Permutation (snd x) (snd y)) a b -> map fst a = map fst b.
Proof. induction 1 as [|x y l l' [E _] F IH]; [reflexivity|cbn [map]; rewrite E, IH; reflexivity]. Qed.
Lemma nd_F2_sum (c k1 k2 : nat) (a b : list (nat * list nat)) :
  Forall2 (fun x y => fst x = fst y /\ Permutation (snd x) (snd y)) a b ->
  sumQ (map (fun dn => if Nat.eqb (fst dn) k1 then Qnat (count k2 (snd dn)) * (1 / (Qnat k1 * Qnat c)) else 0) a) ==
  sumQ (map (fun dn => if Nat.eqb (fst dn) k1 then Qnat (count k2 (snd dn)) * (1 / (Qnat k1 * Qnat c)) else 0) b).
Proof.
  induction 1 as [|x y l l' [E Pa] F IH]; [reflexivity|]. cbn [map]. rewrite !Rhs2DP.sumQ_cons, IH, E.
  unfold count. rewrite (proj1 (Permutation_count_occ Nat.eq_dec _ _) Pa k2). reflexivity.
Qed.
Theorem Pnk_invariant nd' nd k1 k2 : nd_equiv nd' nd -> Pnk nd' k1 k2 == Pnk nd k1 k2.
Proof.
  intros (nd'' & P & F). unfold Pnk. cbv zeta.
  assert (E1 : count k1 (map fst nd') = count k1 (map fst nd'')).
  { unfold count. apply (proj1 (Permutation_count_occ Nat.eq_dec _ _)). apply Permutation_map, P. }
  rewrite E1, (nd_F2_fst _ _ F). rewrite (sum_map_perm _ _ _ P). apply nd_F2_sum, F.
Qed.
End DegreeHelpers.

(* the list get_Pnk reads off a graph *)
Definition nd_of (gg : graph) : list (nat * list nat) := map (fun u => (deg gg u, map (deg gg) (gadj gg u))) (gnodes gg).

Section IsoHelpers.
Variables (g g' : graph) (phi : node -> node).
Hypothesis WG : wf_ugraph g = true.
Hypothesis Hnodes : Permutation (gnodes g') (map phi (gnodes g)).
Hypothesis Hadj : forall u, In u (gnodes g) -> Permutation (gadj g' (phi u)) (map phi (gadj g u)).
Theorem iso_nd_of : nd_equiv (nd_of g') (nd_of g).
Proof.
  unfold nd_equiv, nd_of.
  exists (map (fun u => (deg g' (phi u), map (deg g') (gadj g' (phi u)))) (gnodes g)). split.
  - rewrite <- (map_map phi (fun u' => (deg g' u', map (deg g') (gadj g' u')))). apply Permutation_map, Hnodes.
  - destruct (wf_ugraph_facts g WG) as (_ & PER & _).
    assert (CL : forall u v, In u (gnodes g) -> In v (gadj g u) -> In v (gnodes g)).
    { intros u v Hu Hv. apply ICP.mem_In. destruct (PER u (proj2 (ICP.mem_In u _) Hu)) as (_ & SUB & _).
      apply (forallb_mem _ _ v SUB). apply ICP.mem_In, Hv. }
    assert (A : forall l, incl l (gnodes g) ->
      Forall2 (fun a b : nat * list nat => fst a = fst b /\ Permutation (snd a) (snd b))
              (map (fun u => (deg g' (phi u), map (deg g') (gadj g' (phi u)))) l)
              (map (fun u => (deg g u, map (deg g) (gadj g u))) l)).
    { induction l as [|u l IH]; intros Hl; cbn [map]; constructor.
      - assert (Hu : In u (gnodes g)) by (apply Hl; left; reflexivity). cbn [fst snd]. split; [apply (iso_deg g g' phi Hadj u Hu)|].
        etransitivity; [apply Permutation_map, (Hadj u Hu)|]. rewrite map_map.
        rewrite (map_ext_in (fun v => deg g' (phi v)) (deg g) (gadj g u)); [apply Permutation_refl|].
        intros v Hv. apply (iso_deg g g' phi Hadj v (CL u v Hu Hv)).
      - apply IH. intros x Hx. apply Hl. right. exact Hx. }
    apply A. intros x Hx. exact Hx.
Qed.
(* get_Pnk(G), get_Pk(G), the PGFs and estimate_R0(G) are the same for the copy *)
Theorem iso_Pnk k1 k2 : Pnk (nd_of g') k1 k2 == Pnk (nd_of g) k1 k2.
Proof. apply Pnk_invariant, iso_nd_of. Qed.
Theorem iso_estimate_R0 T : estimate_R0 (degseq g') T = estimate_R0 (degseq g) T.
Proof. apply estimate_R0_perm, (iso_degseq g g' phi Hnodes Hadj). Qed.
Theorem iso_psi x : psi (degseq g') x = psi (degseq g) x /\ psiP (degseq g') x = psiP (degseq g) x /\ psiDP (degseq g') x = psiDP (degseq g) x.
Proof. apply psi_perm, (iso_degseq g g' phi Hnodes Hadj). Qed.
End IsoHelpers.
