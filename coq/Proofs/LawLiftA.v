(* Law lift, pathwise half (C01 / C11): with no horizon (tmax = inf) the set of
   nodes that fast_nonMarkov_SIR (hence fast_SIR, for the delays and durations it
   drew) ever infects is the OUT-COMPONENT of the initially infected nodes in the
   directed percolation graph that keeps u -> v iff delay(u,v) <= duration(u),
   initially recovered nodes removed — literally the list that
   get_infected_nodes computes from the same rules ([get_infected_det], the
   model of nonMarkov_directed_percolate_network_with_timing + _out_component_).

   One side condition, and it is real: an edge with delay = inf AND duration = inf
   is kept by the builder (Python: inf <= inf) but never transmits in the
   simulation; [no_inf_tie] excludes it.  (With Markovian rules that is tau = 0
   together with gamma = 0; reproduced on the code: get_infected_nodes(path(3), 0, 0,
   [0]) = [0,1,2] while fast_SIR(path(3), 0, 0, [0]) infects nobody.) *)
From EoNV Require Import Prelude Samp Graph EventSIR EventSIRP EventSIRInv EventSIRMain EventSIRChar EventSIRTop EventSIRReach.
Require Import Lqa.

Definition no_inf_tie (g : graph) (delay : node -> node -> xtime) (dur : node -> xtime) : bool :=
  forallb (fun u => forallb (fun v => match delay u v, dur u with None, None => false | _, _ => true end) (gadj g u)) (gnodes g).

Section A.
Variable g : graph.
Variable delay : node -> node -> xtime.
Variable dur : node -> xtime.
Variables i0 r0 : list node.
Hypothesis Htie : no_inf_tie g delay dur = true.

Lemma hpath_preach : forall v c, hpath g delay dur i0 r0 v c -> preach (perc_build g delay dur) r0 i0 v.
Proof.
  intros v c H. induction H as [v Hv|u v c d Hu IH He].
  - apply pr0. exact Hv.
  - apply (prS _ _ _ u v IH). apply psucc_perc. destruct He as [H1 [H2 [H3 [H4 H5]]]].
    split; [exact H1|]. split; [exact H2|]. split; [rewrite H4; exact H5|exact H3].
Qed.

Lemma preach_hpath : forall v, preach (perc_build g delay dur) r0 i0 v -> exists c, hpath g delay dur i0 r0 v c.
Proof.
  intros v H. induction H as [v Hv|u v Hu [c IH] Hs].
  - exists 0. apply hp0. exact Hv.
  - apply psucc_perc in Hs. destruct Hs as [H1 [H2 [H3 H4]]].
    destruct (delay u v) as [d|] eqn:Ed.
    + exists (c + d). apply (hpS _ _ _ _ _ u v c d IH). repeat split; assumption.
    + exfalso. unfold no_inf_tie in Htie. rewrite forallb_forall in Htie. specialize (Htie u H1).
      rewrite forallb_forall in Htie. specialize (Htie v H2). rewrite Ed in Htie.
      destruct (dur u); [discriminate H3|discriminate Htie].
Qed.

Theorem esir_final_out_component : forall tb tmin fuel,
  esir_okb g delay dur i0 r0 tmin None = true -> (esir_fuel g i0 <= fuel)%nat ->
  exists sF, esir_run tb g delay dur i0 r0 tmin None fuel = Ok sF /\
    (forall v, ~ In v r0 -> (stat sF v <> stS <-> In v (get_infected_det g delay dur i0 r0))) /\
    (forall v, In v r0 -> stat sF v = stR) /\
    (* everybody who was infected has recovered or has an infinite duration: the
       final size is the size of the out-component *)
    (forall v, In v (get_infected_det g delay dur i0 r0) -> ~ In v r0 ->
       stat sF v = stR \/ (stat sF v = stI /\ dur v = None)).
Proof.
  intros tb tmin fuel Hok Hf.
  destruct (esir_first_passage tb g delay dur i0 r0 tmin None fuel Hok Hf) as [sF [Hrun [_ Hspec]]].
  destruct (okb_parts g delay dur i0 r0 tmin None Hok) as [H1 [H2 [H3 [H4 [H5 [H6 [H7 H8]]]]]]].
  destruct Hspec as [S1 [S2 [S3 [S4 [S5 [S6 [S7 S8]]]]]]].
  assert (Hchar : forall v, ~ In v r0 -> (stat sF v <> stS <-> In v (get_infected_det g delay dur i0 r0))).
  { intros v Hv. rewrite (S1 v Hv). rewrite (get_infected_spec g delay dur i0 r0 H1 H3 H6 v). split.
    - intros [c [Hp _]]. apply (hpath_preach v c Hp).
    - intro Hp. destruct (preach_hpath v Hp) as [c Hc]. exists c. split; [exact Hc|reflexivity]. }
  exists sF. split; [exact Hrun|]. split; [exact Hchar|]. split; [intros v Hv; apply (S2 v Hv)|].
  intros v Hin Hv. apply (Hchar v Hv) in Hin. destruct (S3 v Hin Hv) as [t [s Hl]].
  destruct (S7 t s v Hl) as [_ [HIR HR]]. destruct HIR as [HI|HR']; [|left; exact HR'].
  destruct (dur v) as [d|] eqn:Ed; [|right; split; [exact HI|reflexivity]].
  left. apply HR. exists (t + d). split; reflexivity.
Qed.
End A.
