(* C07 lemmas.  Theorems over the GENERATED right-hand sides (Gen/Rhs.v): they are re-proved
   against what EoN/analytic.py says now on every run of the checks C07/C08.
   Conventions: state vectors are written as explicit lists in the layout the
   code unpacks (e.g. Sk ++ [SS; SI; R]); `veq` is pointwise Qeq. *)
From EoNV Require Import Prelude Vec VecP Aux Rhs.
From Coq Require Import Qpower Lqa Setoid Morphisms.

Ltac q0 := unfold Qdiv; ring.
Ltac rhs_unfold f := unfold f; cbn [vnth nth].

(* ====================================================================== *)
(* C07  regular graphs: the big system restricted to a single degree class *)
(*      k is the small system with n = k  (Phi o rhs_big = rhs_small o Phi) *)
(* ====================================================================== *)
Section Lumping.
Variables (t tau g : Q).

Ltac nth_rw := repeat first
  [ rewrite nth_vsub by veclen | rewrite nth_vadd by veclen | rewrite nth_vmul by veclen
  | rewrite nth_smul by veclen | rewrite nth_vmuls by veclen | rewrite nth_vdivs by veclen
  | rewrite nth_vsubs by veclen | rewrite nth_arange by veclen ].

(* heterogeneous mean-field SIS, state (zeros k ++ [s]) ++ (zeros k ++ [i]), kcount = k+1 *)
Lemma lump_SIS_heterogeneous_meanfield_regular k s i :
  ~ Qnat k == 0 -> ~ s + i == 0 ->
  let small := dSIS_homogeneous_meanfield [s; i] t (Qnat k / (s + i)) tau g in
  veq (dSIS_heterogeneous_meanfield (unitv k s ++ unitv k i) t (S k) tau g)
      (unitv k (vnth 0 small) ++ unitv k (vnth 1 small)).
Proof.
  intros Hk Hn. cbv zeta. unfold dSIS_heterogeneous_meanfield.
  assert (E1 : slice_to (S k) (unitv k s ++ unitv k i) = unitv k s)
    by (rewrite <- (unitv_length k s) at 1; apply slice_to_app).
  assert (E2 : slice_from (S k) (unitv k s ++ unitv k i) = unitv k i)
    by (rewrite <- (unitv_length k s) at 1; apply slice_from_app).
  rewrite E1, E2. clear E1 E2.
  rhs_unfold dSIS_homogeneous_meanfield.
  assert (Hd1 : dot (arange (S k)) (unitv k i) == Qnat k * i) by (rewrite dot_unitv by veclen; rewrite nth_arange by lia; reflexivity).
  assert (Hd2 : dot (arange (S k)) (vadd (unitv k i) (unitv k s)) == Qnat k * (i + s)).
  { rewrite dot_vadd_r by veclen. rewrite !dot_unitv by veclen. rewrite nth_arange by lia. ring. }
  apply veq_app; apply veq_unitv; try (veclen; fail).
  - intros j Hj. nth_rw. rewrite !nth_unitv_lt by lia. ring.
  - nth_rw. rewrite !nth_unitv_k. rewrite Hd1, Hd2. field. repeat split; auto; try (intro H; apply Hn; lra).
  - intros j Hj. nth_rw. rewrite !nth_unitv_lt by lia. ring.
  - nth_rw. rewrite !nth_unitv_k. rewrite Hd1, Hd2. field. repeat split; auto; try (intro H; apply Hn; lra).
Qed.

(* compact pairwise SIS, state (zeros k ++ [s]) ++ [SI; SS], Nk = zeros k ++ [N], twoM = N k *)
Lemma lump_SIS_compact_pairwise_regular k s SI SS N :
  ~ Qnat k == 0 -> ~ s == 0 ->
  let small := dSIS_homogeneous_pairwise [s; SI; SS] t N (Qnat k) tau g in
  veq (dSIS_compact_pairwise (unitv k s ++ [SI; SS]) t (unitv k N) (N * Qnat k) tau g)
      (unitv k (vnth 0 small) ++ [vnth 1 small; vnth 2 small]).
Proof.
  intros Hk Hs. cbv zeta. unfold dSIS_compact_pairwise.
  rewrite !drop_last_app, !take_last_app by reflexivity. cbn [vnth nth]. rewrite unitv_length.
  rhs_unfold dSIS_homogeneous_pairwise.
  assert (Hd1 : dot (arange (S k)) (unitv k s) == Qnat k * s) by (rewrite dot_unitv by veclen; rewrite nth_arange by lia; reflexivity).
  assert (Hd2 : dot (vmul (arange (S k)) (vsubs (arange (S k)) 1)) (unitv k s) == Qnat k * (Qnat k - 1) * s).
  { rewrite dot_unitv by veclen. nth_rw. reflexivity. }
  apply veq_app.
  - apply veq_unitv; try (veclen; fail).
    + intros j Hj. nth_rw. rewrite !nth_unitv_lt by lia. q0.
    + nth_rw. rewrite !nth_unitv_k. rewrite Hd1. field. split; auto.
  - repeat constructor; rewrite ?qpow2, Hd1, Hd2; field; auto.
Qed.

(* compact pairwise SIR, state (zeros k ++ [s]) ++ [SS; SI; R]; the small system has state
   (s, I, SI, SS) with I = N - s - R: Phi (Sk, SS, SI, R) = (S_k, N - S_k - R, SI, SS) *)
Lemma lump_SIR_compact_pairwise_regular k s SS SI R N :
  ~ Qnat k == 0 -> ~ s == 0 ->
  let small := dSIR_homogeneous_pairwise [s; N - s - R; SI; SS] t (Qnat k) tau g in
  let big := dSIR_compact_pairwise (unitv k s ++ [SS; SI; R]) t N tau g in
  veq big (unitv k (vnth 0 small) ++ [vnth 3 small; vnth 2 small; g * (N - s - R)]) /\
  vnth 1 small == - vnth 0 small - g * (N - s - R).
Proof.
  intros Hk Hs. cbv zeta. unfold dSIR_compact_pairwise.
  rewrite !drop_last_app, !take_last_app by reflexivity. cbn [vnth nth]. rewrite unitv_length.
  rhs_unfold dSIR_homogeneous_pairwise.
  assert (Hd1 : dot (arange (S k)) (unitv k s) == Qnat k * s) by (rewrite dot_unitv by veclen; rewrite nth_arange by lia; reflexivity).
  assert (Hd2 : dot (vmul (arange (S k)) (vsubs (arange (S k)) 1)) (unitv k s) == Qnat k * (Qnat k - 1) * s).
  { rewrite dot_unitv by veclen. nth_rw. reflexivity. }
  split; [|ring].
  apply veq_app.
  - apply veq_unitv; try (veclen; fail).
    + intros j Hj. nth_rw. rewrite !nth_unitv_lt by lia. q0.
    + nth_rw. rewrite !nth_unitv_k. rewrite Hd1. field. split; auto.
  - repeat constructor; rewrite ?qpow2, ?vsum_unitv, ?Hd1, ?Hd2; try (field; auto); ring.
Qed.
End Lumping.

(* heterogeneous mean-field SIR is written in (theta, Rk) coordinates: S_k = S0_k theta^k *)
Section L7.
Variables (t tau g : Q).
Lemma lump_SIR_heterogeneous_meanfield_regular_partial k theta r s0 N :
  ~ Qnat k == 0 -> ~ N == 0 -> ~ theta == 0 ->
  let S := s0 * qpow theta (Z.of_nat k) in
  let I := N - S - r in
  let small := dSIR_homogeneous_meanfield [S; I] t (Qnat k / N) tau g in
  let big := dSIR_heterogeneous_meanfield ([theta] ++ unitv k r) t (unitv k s0) (unitv k N) tau g in
  Qnat k * s0 * qpow theta (Z.of_nat k - 1) * vnth 0 big == vnth 0 small /\
  veq (slice_from 1 big) (unitv k (g * I)) /\
  vnth 1 small == - vnth 0 small - g * I.
Proof.
  intros Hk HN Hth. cbv zeta.
  unfold dSIR_heterogeneous_meanfield. cbn [app slice_from skipn vnth nth]. rewrite unitv_length.
  unfold dSIR_homogeneous_meanfield. cbn [vnth nth].
  set (Sk := vmul (unitv k s0) (spow_arange theta (S k))).
  set (Ik := vsub (vsub (unitv k N) Sk) (unitv k r)).
  assert (HS : veq Sk (unitv k (s0 * qpow theta (Z.of_nat k)))).
  { subst Sk. apply veq_unitv; [veclen| |].
    - intros i Hi. rewrite nth_vmul by veclen. rewrite nth_unitv_lt by lia. ring.
    - rewrite nth_vmul, nth_spow_arange by veclen. rewrite nth_unitv_k. reflexivity. }
  assert (HI : veq Ik (unitv k (N - s0 * qpow theta (Z.of_nat k) - r))).
  { subst Ik. apply veq_unitv; [subst Sk; veclen| |].
    - intros i Hi. rewrite !nth_vsub by (subst Sk; veclen). rewrite (veq_nth_all _ _ HS). rewrite !nth_unitv_lt by lia. ring.
    - rewrite !nth_vsub by (subst Sk; veclen). rewrite (veq_nth_all _ _ HS). rewrite !nth_unitv_k. ring. }
  assert (Hd1 : dot (arange (S k)) Ik == Qnat k * (N - s0 * qpow theta (Z.of_nat k) - r)).
  { rewrite (dot_veq_r _ _ _ HI). rewrite dot_unitv by veclen. rewrite nth_arange by lia. reflexivity. }
  assert (Hd2 : dot (arange (S k)) (unitv k N) == Qnat k * N).
  { rewrite dot_unitv by veclen. rewrite nth_arange by lia. reflexivity. }
  split; [|split].
  - rewrite Hd1, Hd2. rewrite <- (qpow_pred theta k Hth). field. split; auto.
  - etransitivity; [apply smul_veq; exact HI|]. apply smul_unitv.
  - ring.
Qed.
End L7.

(* ====================================================================== *)
(* C07  EBCM -> super-compact pairwise under the change of variables        *)
(*      SS = N psihat'(theta) phi_S,  SI = N psihat'(theta) phi_I           *)
(* ====================================================================== *)
Section EbcmToSuperCompact.
Variables (t N tau g phiS0 phiR0 : Q) (ps psP psDP : Q -> Q) (theta R : Q).
Let a := psP theta.      (* psihat'(theta) *)
Let b := psDP theta.     (* psihat''(theta) *)
Let c := psP 1.
Let phiS := phiS0 * a / c.
Let phiR := phiR0 + g * (1 - theta) / tau.     (* phi_R' = gamma phi_I, theta' = -tau phi_I *)
Let phiI := theta - phiS - phiR.
Let SS := N * a * phiS.
Let SI := N * a * phiI.
Let dth := vnth 0 (dEBCM [theta; R] t N tau g ps psP phiS0 phiR0).
Let dR := vnth 1 (dEBCM [theta; R] t N tau g ps psP phiS0 phiR0).
Let sc := dSIR_super_compact_pairwise [theta; SS; SI; R] t tau g ps psP psDP N.

(* with d/dt psihat'(theta) = psihat''(theta) theta' (chain rule, cited), the images of the EBCM
   field under (theta, R) |-> (theta, SS, SI, R) are the four components of the super-compact field *)
Lemma ebcm_to_super_compact_partial :
  ~ tau == 0 -> ~ N == 0 -> ~ a == 0 -> ~ c == 0 ->
  dth == - tau * phiI /\
  vnth 0 sc == dth /\
  vnth 1 sc == N * (b * dth) * phiS + N * a * (phiS0 * (b * dth) / c) /\
  vnth 2 sc == N * (b * dth) * phiI + N * a * (dth - phiS0 * (b * dth) / c - (- g * dth / tau)) /\
  vnth 3 sc == dR.
Proof.
  intros Ht HN Ha Hc.
  unfold sc, dth, dR, SS, SI, phiI, phiR, phiS. rhs_unfold dSIR_super_compact_pairwise. rhs_unfold dEBCM.
  fold a b c. rewrite !qpow2.
  repeat split; field; auto.
Qed.
End EbcmToSuperCompact.

(* ====================================================================== *)
(* C07  compact pairwise  vs  super-compact pairwise                        *)
(* ====================================================================== *)
Section CompactToSuperCompact.
Variables (t N tau g : Q) (ps psP psDP : Q -> Q).

(* When the degree classes have the EBCM form S_k = N c_k theta^k, the three moment identities
   H1-H3 hold (psihat, psihat', psihat'' are the polynomial sum c_k x^k and its derivatives).
   Under them the (SS, SI, R) components of the two systems coincide, and
   dS_k = k S_k theta'/theta, which is the chain rule for S_k = N c_k theta^k (cited). *)
Lemma compact_to_super_compact_partial Sk SS SI R theta :
  ~ N == 0 -> ~ theta == 0 -> ~ psP theta == 0 ->
  dot (arange (length Sk)) Sk == N * theta * psP theta ->
  dot (vmul (arange (length Sk)) (vsubs (arange (length Sk)) 1)) Sk == N * (theta * theta) * psDP theta ->
  vsum Sk == N * ps theta ->
  let cp := dSIR_compact_pairwise (Sk ++ [SS; SI; R]) t N tau g in
  let sc := dSIR_super_compact_pairwise [theta; SS; SI; R] t tau g ps psP psDP N in
  veq (take_last 3 cp) [vnth 1 sc; vnth 2 sc; vnth 3 sc] /\
  (forall k, (k < length Sk)%nat ->
     nth k (drop_last 3 cp) 0 == Qnat k * nth k Sk 0 * vnth 0 sc / theta).
Proof.
  intros HN Hth Ha H1 H2 H3. cbv zeta. unfold dSIR_compact_pairwise.
  rewrite !drop_last_app, !take_last_app by reflexivity. cbn [vnth nth].
  rhs_unfold dSIR_super_compact_pairwise. split.
  - repeat constructor; rewrite ?qpow2, ?H1, ?H2, ?H3; field; auto.
  - intros k Hk.
    rewrite nth_vdivs, nth_vmuls, nth_vmul, nth_smul, nth_arange by veclen.
    rewrite H1. field. auto.
Qed.
End CompactToSuperCompact.
