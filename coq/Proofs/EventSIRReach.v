(* The out-component computed by Model/EventSIR.v [out_component] (the model of
   _out_component_ = source nodes + nx.descendants, after H.remove_node of the
   initially recovered nodes) is exactly reachability in H minus the removed nodes. *)
From EoNV Require Import Prelude Samp Graph EventSIR EventSIRP.

Section Reach.
Variable h : pgraph.
Variable removed : list node.

Definition addn (acc : list node) (v : node) : list node := if mem v acc then acc else acc ++ [v].
Definition round (seen : list node) : list node :=
  fold_left (fun acc u => fold_left addn (psucc h removed u) acc) seen seen.

Lemma reach_unfold : forall f seen, reach h removed (S f) seen = reach h removed f (round seen).
Proof. reflexivity. Qed.

Lemma addn_In : forall acc v x, In x (addn acc v) <-> In x acc \/ x = v.
Proof.
  intros acc v x. unfold addn. destruct (mem v acc) eqn:E.
  - apply mem_In in E. split; auto. intros [H| ->]; auto.
  - rewrite in_app_iff. simpl. intuition.
Qed.
Lemma addn_prefix : forall acc v, exists ex, addn acc v = acc ++ ex.
Proof.
  intros acc v. unfold addn. destruct (mem v acc); [exists []; rewrite app_nil_r; auto|exists [v]; auto].
Qed.
Lemma nodup_snoc : forall (l : list node) v, NoDup l -> ~ In v l -> NoDup (l ++ [v]).
Proof.
  induction l as [|a l IH]; intros v H Hn; simpl; [constructor; [intros []|constructor]|].
  inversion H; subst. constructor.
  - intros Hin. apply in_app_or in Hin. destruct Hin as [Hin|[->|[]]]; [contradiction|]. apply Hn. left. auto.
  - apply IH; auto. intros Hin. apply Hn. right. auto.
Qed.
Lemma addn_nodup : forall acc v, NoDup acc -> NoDup (addn acc v).
Proof.
  intros acc v H. unfold addn. destruct (mem v acc) eqn:E; auto.
  apply nodup_snoc; auto. intros Hin. apply mem_In in Hin. congruence.
Qed.

Lemma fadd_In : forall l acc x, In x (fold_left addn l acc) <-> In x acc \/ In x l.
Proof.
  induction l as [|a l IH]; intros acc x; simpl; [tauto|].
  rewrite IH, addn_In. intuition.
Qed.
Lemma fadd_prefix : forall l acc, exists ex, fold_left addn l acc = acc ++ ex.
Proof.
  induction l as [|a l IH]; intros acc; simpl; [exists []; rewrite app_nil_r; auto|].
  destruct (addn_prefix acc a) as [e1 E1]. destruct (IH (addn acc a)) as [e2 E2].
  exists (e1 ++ e2). rewrite E2, E1, app_assoc. reflexivity.
Qed.
Lemma fadd_nodup : forall l acc, NoDup acc -> NoDup (fold_left addn l acc).
Proof. induction l as [|a l IH]; intros acc H; simpl; auto. apply IH. apply addn_nodup. auto. Qed.

Definition rfold (l acc : list node) : list node :=
  fold_left (fun acc u => fold_left addn (psucc h removed u) acc) l acc.

Lemma rfold_In : forall l acc x,
  In x (rfold l acc) <-> In x acc \/ exists u, In u l /\ In x (psucc h removed u).
Proof.
  induction l as [|a l IH]; intros acc x; unfold rfold; simpl.
  - split; auto. intros [H|[u [[] _]]]; auto.
  - fold (rfold l (fold_left addn (psucc h removed a) acc)). rewrite IH, fadd_In. split.
    + intros [[H|H]|[u [Hu Hx]]]; auto.
      * right. exists a. auto.
      * right. exists u. auto.
    + intros [H|[u [[->|Hu] Hx]]]; auto. right. exists u. auto.
Qed.
Lemma rfold_prefix : forall l acc, exists ex, rfold l acc = acc ++ ex.
Proof.
  induction l as [|a l IH]; intros acc; unfold rfold; simpl; [exists []; rewrite app_nil_r; auto|].
  fold (rfold l (fold_left addn (psucc h removed a) acc)).
  destruct (fadd_prefix (psucc h removed a) acc) as [e1 E1].
  destruct (IH (fold_left addn (psucc h removed a) acc)) as [e2 E2].
  exists (e1 ++ e2). rewrite E2, E1, app_assoc. reflexivity.
Qed.
Lemma rfold_nodup : forall l acc, NoDup acc -> NoDup (rfold l acc).
Proof.
  induction l as [|a l IH]; intros acc H; unfold rfold; simpl; auto.
  apply IH. apply fadd_nodup. auto.
Qed.

Lemma round_In : forall seen x,
  In x (round seen) <-> In x seen \/ exists u, In u seen /\ In x (psucc h removed u).
Proof. intros. apply rfold_In. Qed.

(* reachability from the seeds through psucc *)
Variable src : list node.
Inductive preach : node -> Prop :=
| pr0 : forall v, In v src -> preach v
| prS : forall u v, preach u -> In v (psucc h removed u) -> preach v.

Lemma reach_sound : forall f seen,
  (forall y, In y seen -> preach y) -> forall x, In x (reach h removed f seen) -> preach x.
Proof.
  induction f as [|f IH]; intros seen Hs x Hx; [simpl in Hx; auto|].
  rewrite reach_unfold in Hx. apply (IH (round seen)); auto.
  intros y Hy. apply round_In in Hy. destruct Hy as [Hy|[u [Hu Hy]]]; auto.
  eapply prS; eauto.
Qed.

Definition stable (seen : list node) : Prop :=
  forall u v, In u seen -> In v (psucc h removed u) -> In v seen.

Lemma reach_mono : forall f seen x, In x seen -> In x (reach h removed f seen).
Proof.
  induction f as [|f IH]; intros seen x Hx; [exact Hx|]. rewrite reach_unfold. apply IH.
  apply round_In. auto.
Qed.

(* the universe: every node that can ever be seen *)
Variable nodes : list node.
Hypothesis Hsucc : forall u v, In v (psucc h removed u) -> In v nodes.

Lemma reach_fix : forall seen, round seen = seen -> forall k, reach h removed k seen = seen.
Proof.
  intros seen E k. induction k as [|k IHk]; [reflexivity|]. rewrite reach_unfold, E. exact IHk.
Qed.

Lemma reach_stable : forall f seen,
  NoDup seen -> incl seen nodes -> (length nodes <= f + length seen)%nat ->
  stable (reach h removed f seen).
Proof.
  induction f as [|f IH]; intros seen Hnd Hincl Hlen.
  - simpl. intros u v Hu Hv. apply Hsucc in Hv.
    simpl in Hlen. apply (@NoDup_length_incl node seen nodes Hnd); auto.
  - rewrite reach_unfold.
    destruct (rfold_prefix seen seen) as [ex E0].
    assert (E : round seen = seen ++ ex) by exact E0. clear E0.
    destruct ex as [|e0 ex].
    + rewrite app_nil_r in E.
      assert (Hst : stable seen).
      { intros u v Hu Hv. rewrite <- E. apply round_In. right. exists u. auto. }
      rewrite E. rewrite (reach_fix seen E f). exact Hst.
    + apply IH.
      * apply rfold_nodup. auto.
      * intros x Hx. apply round_In in Hx. destruct Hx as [Hx|[u [_ Hx]]]; auto. eapply Hsucc; eauto.
      * rewrite E, app_length. simpl. lia.
Qed.

(* every reachable node is in a stable set that contains the seeds *)
Lemma stable_complete : forall S, stable S -> (forall v, In v src -> In v S) ->
  forall v, preach v -> In v S.
Proof.
  intros S Hst Hsrc v Hp. induction Hp as [v Hv|u v Hp IH Hv]; auto. eapply Hst; eauto.
Qed.
End Reach.

(* arcs of the built graph minus the removed nodes *)
Lemma psucc_perc : forall g delay dur removed u v,
  In v (psucc (perc_build g delay dur) removed u) <->
  In u (gnodes g) /\ In v (gadj g u) /\ xleb (delay u v) (dur u) = true /\ ~ In v removed.
Proof.
  intros g delay dur removed u v. unfold psucc, perc_build. rewrite in_concat. split.
  - intros [l [Hl Hv]]. apply in_map_iff in Hl. destruct Hl as [p [<- Hp]].
    apply in_map_iff in Hp. destruct Hp as [u' [<- Hu']]. simpl in Hv.
    destruct (N.eqb u' u) eqn:E; [|destruct Hv]. apply N.eqb_eq in E. subst u'.
    apply filter_In in Hv. destruct Hv as [Hv Hr]. apply in_map_iff in Hv.
    destruct Hv as [[w d] [Hw Hin]]. simpl in Hw. subst w.
    apply filter_In in Hin. destruct Hin as [Hin Hle]. apply in_map_iff in Hin.
    destruct Hin as [w [Ew Hw]]. inversion Ew; subst. simpl in Hle.
    split; auto. split; auto. split; auto.
    intros Hrm. apply mem_In in Hrm. rewrite Hrm in Hr. discriminate.
  - intros [Hu [Hv [Hle Hr]]].
    exists (filter (fun v0 => negb (mem v0 removed)) (map fst (pout (perc_node g delay dur u)))). split.
    + apply in_map_iff. exists (perc_node g delay dur u). split.
      * simpl. rewrite N.eqb_refl. reflexivity.
      * apply in_map_iff. exists u. auto.
    + apply filter_In. split.
      * apply in_map_iff. exists (v, delay u v). split; auto. simpl.
        apply filter_In. split; auto. apply in_map_iff. exists v. auto.
      * destruct (mem v removed) eqn:E; auto. apply mem_In in E. contradiction.
Qed.

(* get_infected_nodes (tables): the returned set is exactly the out-component of the
   initially infected nodes in the built graph minus the initially recovered nodes *)
Theorem get_infected_spec : forall g delay dur i0 r0,
  NoDup (gnodes g) ->
  (forall u v, In u (gnodes g) -> In v (gadj g u) -> In v (gnodes g)) ->
  (forall u, In u i0 -> In u (gnodes g)) ->
  forall v, In v (get_infected_det g delay dur i0 r0) <-> preach (perc_build g delay dur) r0 i0 v.
Proof.
  intros g delay dur i0 r0 Hn Hadj Hi0 v.
  unfold get_infected_det, out_component.
  set (h := perc_build g delay dur).
  change (fold_left (fun acc v0 => if mem v0 acc then acc else acc ++ [v0]) i0 []) with (fold_left addn i0 []).
  set (seed := fold_left addn i0 []).
  assert (Hseed : forall x, In x seed <-> In x i0).
  { intros x. unfold seed. rewrite fadd_In. simpl. tauto. }
  assert (Hlen : length h = length (gnodes g)).
  { unfold h, perc_build. apply map_length. }
  assert (Hsucc : forall u w, In w (psucc h r0 u) -> In w (gnodes g)).
  { intros u w Hw. apply psucc_perc in Hw. destruct Hw as [Hu [Hw _]]. eapply Hadj; eauto. }
  split.
  - apply reach_sound. intros y Hy. apply pr0. apply Hseed. exact Hy.
  - intros Hp. apply (stable_complete h r0 i0 (reach h r0 (length h) seed)); auto.
    + apply (reach_stable h r0 (gnodes g) Hsucc).
      * unfold seed. apply fadd_nodup. constructor.
      * intros x Hx. apply Hi0. apply Hseed. exact Hx.
      * rewrite Hlen. lia.
    + intros x Hx. apply reach_mono. apply Hseed. exact Hx.
Qed.
