(* C07: preferential-mixing EBCM with the uncorrelated mixing matrix P(k'|k) = k' P(k') / <k> is EBCM.
   Continuous time: on the invariant subspace {theta_k = theta, phiR_k = gamma (1-theta)/tau} the right-hand side
   _dEBCM_pref_mix_ (model: Pgf.dEBCM_pref_mix) is the push-forward of the GENERATED _dEBCM_ under the affine
   embedding Phi_pm.  Discrete time: EBCM_pref_mix_discrete (model: Pgf.pmd_step) and the GENERATED
   EBCM_discrete_step run in lock-step, for every number of steps (an exact recurrence, nothing cited). *)
From EoNV Require Import Prelude Vec VecP Aux AuxP ICP Pgf C07xPoly Rhs.
From Coq Require Import Qpower Lqa Setoid Morphisms.

(* ---------- dict helpers ---------- *)
Lemma kidx_lt k keys : In k keys -> (kidx k keys < length keys)%nat.
Proof.
  induction keys as [|k' t IH]; cbn [In kidx length]; [tauto|]. intros H.
  destruct (Nat.eqb k k') eqn:E; [lia|]. apply Nat.eqb_neq in E. destruct H as [H|H]; [congruence|]. specialize (IH H). lia.
Qed.
Lemma nth_pairs {A} (l : list A) (a b : Q) i : (i < length l)%nat ->
  nth (2 * i) (concat (map (fun _ => [a; b]) l)) 0 = a /\ nth (1 + 2 * i) (concat (map (fun _ => [a; b]) l)) 0 = b.
Proof.
  revert i. induction l as [|x l IH]; intros i Hi; cbn [length] in Hi; [lia|].
  cbn [map concat app]. destruct i as [|i]; [split; reflexivity|].
  replace (2 * S i)%nat with (S (S (2 * i))) by lia. replace (1 + S (S (2 * i)))%nat with (S (S (1 + 2 * i))) by lia.
  cbn [nth]. apply IH. lia.
Qed.
Lemma prow_const k (row : pkdict) (l : pkdict) : In k (map fst l) ->
  prow k (map (fun kp => (fst kp, row)) l) = row.
Proof.
  induction l as [|[k' p] l IH]; cbn [map fst In prow]; [tauto|]. intros H.
  destruct (Nat.eqb k k') eqn:E; [reflexivity|]. apply Nat.eqb_neq in E. destruct H as [H|H]; [congruence|]. exact (IH H).
Qed.
Lemma dsum_ext (d : pkdict) f h : (forall k p, In (k, p) d -> f k p == h k p) -> dsum d f == dsum d h.
Proof.
  intros H. unfold dsum. apply ICP.sumQ_map_ext. intros [k p] Hin. cbn [fst snd]. apply H. exact Hin.
Qed.
Lemma dsum_scal (d : pkdict) a f : dsum d (fun k p => a * f k p) == a * dsum d f.
Proof. unfold dsum. apply (ICP.sumQ_map_scal a (fun kp => f (fst kp) (snd kp))). Qed.
Lemma dsum_map (d : pkdict) (w : nat -> Q -> Q) f :
  dsum (map (fun kq => (fst kq, w (fst kq) (snd kq))) d) f == dsum d (fun k p => f k (w k p)).
Proof. unfold dsum. rewrite map_map. reflexivity. Qed.
Lemma in_keys (d : pkdict) k p : In (k, p) d -> In k (map fst d).
Proof. intros H. apply (in_map fst) in H. exact H. Qed.
Lemma plookup_map (f : nat -> Q) k keys : In k keys -> plookup k (map (fun j => (j, f j)) keys) = f k.
Proof.
  induction keys as [|k' t IH]; cbn [In map plookup]; [tauto|]. intros H.
  destruct (Nat.eqb k k') eqn:E; [apply Nat.eqb_eq in E; subst; reflexivity|].
  apply Nat.eqb_neq in E. destruct H as [H|H]; [congruence|]. exact (IH H).
Qed.
Lemma pw1 z : qpow 1 z == 1. Proof. unfold qpow. apply Qpower_1. Qed.
Lemma pk_psiP_1 d : pk_psiP d 1 == pk_mean d.
Proof. unfold pk_psiP, pk_mean. apply dsum_ext. intros k p _. rewrite pw1. ring. Qed.
Lemma concat_veq {A} (F G : A -> vec) l : (forall x, In x l -> veq (F x) (G x)) -> veq (concat (map F l)) (concat (map G l)).
Proof.
  induction l as [|x l IH]; intros H; cbn [map concat]; [constructor|].
  apply veq_app; [apply H; left; reflexivity|]. apply IH. intros y Hy. apply H. right. exact Hy.
Qed.
Global Instance qpow_comp : Proper (Qeq ==> eq ==> Qeq) qpow.
Proof. intros x y E z z' <-. unfold qpow. rewrite E. reflexivity. Qed.

(* ====================================================================== *)
(*  continuous time                                                        *)
(* ====================================================================== *)
Section PrefMixCts.
Variables (Pk : pkdict) (rho tau g N t : Q).
Let psh := fun x => (1 - rho) * pk_psi Pk x.
Let pshP := fun x => (1 - rho) * pk_psiP Pk x.

Lemma theta_on_subspace theta R k : In k (map fst Pk) ->
  vnth (1 + 2 * kidx k (map fst Pk)) (Phi_pm Pk N tau g theta R) = theta /\
  vnth (2 + 2 * kidx k (map fst Pk)) (Phi_pm Pk N tau g theta R) = g / tau * (1 - theta).
Proof.
  intros Hk. pose proof (kidx_lt k _ Hk) as Hl. rewrite map_length in Hl.
  unfold Phi_pm, vnth. cbn [plus nth].
  destruct (nth_pairs Pk theta (g / tau * (1 - theta)) _ Hl) as [H1 H2]. split; [exact H1|exact H2].
Qed.

Lemma prefmix_uncorrelated_cts theta R :
  ~ tau == 0 -> ~ N == 0 -> ~ 1 - rho == 0 -> ~ pk_mean Pk == 0 ->
  let e := dEBCM [theta; R] t N tau g psh pshP (1 - rho) 0 in
  veq (dEBCM_pref_mix (Phi_pm Pk N tau g theta R) t rho tau g Pk (uncorrelated Pk))
      (DPhi_pm Pk N tau g (vnth 0 e) (vnth 1 e)).
Proof.
  intros Ht HN Hr Hm. cbv zeta. unfold dEBCM_pref_mix, DPhi_pm, dEBCM. cbn [vnth nth].
  set (X := Phi_pm Pk N tau g theta R).
  assert (HS : dsum Pk (fun k p => p * qpow (vnth (1 + 2 * kidx k (map fst Pk)) X) (Z.of_nat k)) == pk_psi Pk theta).
  { unfold pk_psi. apply dsum_ext. intros k p Hin. unfold X.
    rewrite (proj1 (theta_on_subspace theta R k (in_keys _ _ _ Hin))). reflexivity. }
  assert (HphiS : forall k1, In k1 (map fst Pk) ->
            dsum (prow k1 (uncorrelated Pk)) (fun k2 p => p * qpow (vnth (1 + 2 * kidx k2 (map fst Pk)) X) (Z.of_nat k2 - 1))
            == pk_psiP Pk theta / pk_mean Pk).
  { intros k1 Hk1. unfold uncorrelated. rewrite (prow_const k1 _ Pk Hk1).
    rewrite (dsum_map Pk (fun k p => Qnat k * p / pk_mean Pk)).
    unfold pk_psiP. unfold Qdiv at 2. rewrite Qmult_comm, <- dsum_scal. apply dsum_ext. intros k p Hin. unfold X.
    rewrite (proj1 (theta_on_subspace theta R k (in_keys _ _ _ Hin))).
    generalize (qpow theta (Z.of_nat k - 1)); intro w. cbv beta. field. exact Hm. }
  constructor.
  - change (vnth 0 X) with (R / N). rewrite HS. unfold psh. field. exact HN.
  - rewrite map_map. apply concat_veq. intros [k p] Hin. cbn [fst].
    pose proof (in_keys _ _ _ Hin) as Hk. specialize (HphiS k Hk). subst X.
    rewrite (proj1 (theta_on_subspace theta R k Hk)), (proj2 (theta_on_subspace theta R k Hk)).
    (constructor; [|constructor; [|constructor]]); rewrite HphiS; unfold pshP; rewrite pk_psiP_1; field; repeat split; assumption.
Qed.
End PrefMixCts.

(* initial point and returned series: EBCM_pref_mix starts at Phi_pm(1, 0) and returns, on the subspace, EBCM's S = N psihat(theta), R *)
Lemma pm_IC_on_subspace Pk N tau g : veq (pm_IC Pk) (Phi_pm Pk N tau g 1 0).
Proof.
  unfold pm_IC, Phi_pm. constructor; [unfold Qdiv; ring|].
  apply concat_veq. intros kp _. constructor; [reflexivity|]. constructor; [ring|constructor].
Qed.
Lemma pm_outputs_agree Pk N rho tau g theta R : ~ N == 0 ->
  pm_out_S Pk N rho (Phi_pm Pk N tau g theta R) == N * ((1 - rho) * pk_psi Pk theta) /\
  pm_out_R N (Phi_pm Pk N tau g theta R) == R.
Proof.
  intros HN. split.
  - unfold pm_out_S, pk_psi. apply Qmult_comp; [reflexivity|]. apply Qmult_comp; [reflexivity|].
    apply dsum_ext. intros k p Hin.
    rewrite (proj1 (theta_on_subspace Pk tau g N theta R k (in_keys _ _ _ Hin))). reflexivity.
  - unfold pm_out_R, Phi_pm. cbn [vnth nth]. field. exact HN.
Qed.

(* DPhi_pm is the formal derivative of the (affine) polynomial map behind Phi_pm *)
Lemma Phi_pm_poly Pk N tau g theta R :
  veq (Phi_pm Pk N tau g theta R) ((R / N) :: pm_eval (pm_p Pk tau g) theta) /\
  forall dth dR, veq (DPhi_pm Pk N tau g dth dR) ((dR / N) :: pm_push (pm_p Pk tau g) theta dth).
Proof.
  split; [|intros dth dR]; unfold Phi_pm, DPhi_pm, pm_p; (constructor; [reflexivity|]);
    induction Pk as [|x l IH]; cbn [map concat app pm_eval pm_push]; try constructor.
  - rewrite peval_pX. reflexivity.
  - constructor; [rewrite peval_lin; unfold Qdiv; ring|exact IH].
  - rewrite D_pX. ring.
  - constructor; [rewrite D_lin; unfold Qdiv; ring|exact IH].
Qed.

(* ====================================================================== *)
(*  discrete time                                                          *)
(* ====================================================================== *)
Section PrefMixDiscrete.
Variables (Pk : pkdict) (rho p N : Q).
Hypothesis Hp : ~ p == 0.
Hypothesis Hr : ~ 1 - rho == 0.
Hypothesis Hm : ~ pk_mean Pk == 0.
Hypothesis Hone : dsum Pk (fun _ q => q) == 1.
Let keys := map fst Pk.
Let psh := fun x => (1 - rho) * pk_psi Pk x.
Let pshP := fun x => (1 - rho) * pk_psiP Pk x.
Let phiS := fun th => (1 - rho) * (pk_psiP Pk th / pk_mean Pk).

(* lock-step relation between the pref-mix state and the EBCM_discrete state (theta, R, S, I) *)
Definition pmd_rel (st : pmd_state) (e : Q * Q * Q * Q) : Prop :=
  let '(th, Rr, Ss, Ii) := e in
  (forall k, In k keys -> plookup k (pd_theta st) == th) /\
  pd_R st == Rr /\ pd_S st == Ss /\ pd_I st == Ii /\
  (forall k, In k keys -> plookup k (pd_phiR st) == (1 - p) * (1 - th) / p) /\
  (forall k, In k keys -> plookup k (pd_phiI st) == th - phiS th - (1 - p) * (1 - th) / p).

Lemma pk_psi_1 : pk_psi Pk 1 == 1.
Proof. unfold pk_psi. rewrite <- Hone. apply dsum_ext. intros k q _. rewrite pw1. ring. Qed.

Lemma pmd_rel_init : pmd_rel (pmd_init N rho Pk) (EBCM_discrete_init 0 N psh p 0 (1 - rho) pshP).
Proof.
  unfold pmd_rel, pmd_init, EBCM_discrete_init. cbn [pd_theta pd_R pd_S pd_I pd_phiR pd_phiI]. fold keys.
  unfold psh. rewrite pk_psi_1.
  split; [intros k Hk; rewrite (plookup_map (fun _ => 1) k keys Hk); reflexivity|].
  split; [reflexivity|]. split; [ring|]. split; [ring|].
  split; intros k Hk.
  - rewrite (plookup_map (fun _ => 0) k keys Hk). field. exact Hp.
  - rewrite (plookup_map (fun _ => rho) k keys Hk). unfold phiS. rewrite pk_psiP_1. field. split; assumption.
Qed.

Lemma pmd_rel_step st e : pmd_rel st e ->
  pmd_rel (pmd_step N rho p Pk (uncorrelated Pk) st) (EBCM_discrete_step 0 N psh p 0 (1 - rho) pshP e).
Proof.
  destruct e as [[[th Rr] Ss] Ii]. intros (Hth & HR & HS & HI & HphiR & HphiI).
  unfold pmd_step, EBCM_discrete_step. fold keys. cbv zeta.
  set (newth := (1 - p) + p * (0 + (1 - rho) * pshP th / pshP 1)).
  set (nt := map (fun k => (k, plookup k (pd_theta st) - p * plookup k (pd_phiI st))) keys).
  assert (Hnt : forall k, In k keys -> plookup k nt == newth).
  { intros k Hk. unfold nt. rewrite (plookup_map (fun k => plookup k (pd_theta st) - p * plookup k (pd_phiI st)) k keys Hk).
    rewrite (Hth k Hk), (HphiI k Hk). unfold newth, phiS, pshP. rewrite pk_psiP_1. field. repeat split; assumption. }
  assert (HnS : dsum Pk (fun k pk => pk * qpow (plookup k nt) (Z.of_nat k)) == pk_psi Pk newth).
  { unfold pk_psi. apply dsum_ext. intros k q Hin. rewrite (Hnt k (in_keys _ _ _ Hin)). reflexivity. }
  assert (HnphiS : forall k1, In k1 keys ->
     (1 - rho) * dsum (prow k1 (uncorrelated Pk)) (fun k2 q => q * qpow (plookup k2 nt) (Z.of_nat k2 - 1)) == phiS newth).
  { intros k1 Hk1. unfold uncorrelated. rewrite (prow_const k1 _ Pk Hk1).
    rewrite (dsum_map Pk (fun k q => Qnat k * q / pk_mean Pk)). unfold phiS. apply Qmult_comp; [reflexivity|].
    unfold pk_psiP. unfold Qdiv at 2. rewrite Qmult_comm, <- dsum_scal. apply dsum_ext. intros k q Hin.
    rewrite (Hnt k (in_keys _ _ _ Hin)). generalize (qpow newth (Z.of_nat k - 1)); intro w. cbv beta. field. exact Hm. }
  unfold pmd_rel. cbn [pd_theta pd_R pd_S pd_I pd_phiR pd_phiI]. fold nt.
  split; [exact Hnt|]. split; [rewrite HR, HI; reflexivity|].
  split; [rewrite HnS; unfold psh; fold newth; ring|].
  split; [rewrite HnS, HR, HI; unfold psh; fold newth; ring|].
  assert (HnphiR : forall k, In k keys ->
     plookup k (map (fun k => (k, plookup k (pd_phiR st) + (1 - p) * plookup k (pd_phiI st))) keys) == (1 - p) * (1 - newth) / p).
  { intros k Hk. rewrite (plookup_map (fun k => plookup k (pd_phiR st) + (1 - p) * plookup k (pd_phiI st)) k keys Hk).
    rewrite (HphiR k Hk), (HphiI k Hk). unfold newth, phiS, pshP. rewrite pk_psiP_1. field. repeat split; assumption. }
  split; [exact HnphiR|].
  intros k Hk.
  set (phiSd := map (fun k1 => (k1, (1 - rho) * dsum (prow k1 (uncorrelated Pk)) (fun k2 q => q * qpow (plookup k2 nt) (Z.of_nat k2 - 1)))) keys).
  set (phiRd := map (fun k => (k, plookup k (pd_phiR st) + (1 - p) * plookup k (pd_phiI st))) keys) in *.
  rewrite (plookup_map (fun k => plookup k nt - plookup k phiSd - plookup k phiRd) k keys Hk).
  rewrite (Hnt k Hk), (HnphiR k Hk). unfold phiSd.
  rewrite (plookup_map (fun k1 => (1 - rho) * dsum (prow k1 (uncorrelated Pk)) (fun k2 q => q * qpow (plookup k2 nt) (Z.of_nat k2 - 1))) k keys Hk).
  rewrite (HnphiS k Hk). reflexivity.
Qed.

Lemma prefmix_uncorrelated_discrete n :
  pmd_rel (pmd_loop N rho p Pk (uncorrelated Pk) n) (EBCM_discrete_loop 0 N psh p 0 (1 - rho) pshP n).
Proof.
  unfold pmd_loop, EBCM_discrete_loop. induction n as [|n IH]; cbn [iter]; [apply pmd_rel_init|apply pmd_rel_step; exact IH].
Qed.
End PrefMixDiscrete.

(* ---------- psi, psi' of a dict are the polynomial pk_coeffs and its formal derivative ---------- *)
Lemma sum_seq_pick (f : nat -> Q) k n : (k < n)%nat ->
  sumQ (map (fun j => if Nat.eqb j k then f j else 0) (seq 0 n)) == f k.
Proof.
  intros Hk. rewrite (ICP.sumQ_map_ext _ (fun j => if Nat.eq_dec k j then f j else 0)).
  - apply sum_pick; [apply seq_NoDup|apply in_seq; lia].
  - intros j _. destruct (Nat.eq_dec k j) as [E|NE]; [subst; rewrite Nat.eqb_refl; reflexivity|].
    rewrite (proj2 (Nat.eqb_neq j k)) by congruence. reflexivity.
Qed.
Lemma plookup_notin k d : ~ In k (map fst d) -> plookup k d = 0.
Proof.
  induction d as [|[k' q] d IH]; cbn [map fst In plookup]; [reflexivity|]. intros H.
  destruct (Nat.eqb k k') eqn:E; [apply Nat.eqb_eq in E; subst; tauto|]. apply IH. tauto.
Qed.
Lemma dsum_dense (d : pkdict) (f : nat -> Q) n : NoDup (map fst d) -> (forall k, In k (map fst d) -> (k < n)%nat) ->
  sumQ (map (fun j => plookup j d * f j) (seq 0 n)) == dsum d (fun k q => q * f k).
Proof.
  induction d as [|[k q] d IH]; intros ND Hb.
  - unfold dsum. cbn [map plookup]. apply ICP.sumQ_map_zero. intros; ring.
  - cbn [map fst] in ND, Hb. inversion ND as [|? ? Hnotin ND']; subst.
    unfold dsum. cbn [map fst snd]. rewrite ICP.sumQ_cons. fold (dsum d (fun k q => q * f k)).
    rewrite <- IH by (try exact ND'; intros j Hj; apply Hb; right; exact Hj).
    rewrite <- (sum_seq_pick (fun j => q * f j) k n) by (apply Hb; left; reflexivity).
    rewrite <- ICP.sumQ_map_add. apply ICP.sumQ_map_ext. intros j _. cbn [plookup].
    destruct (Nat.eqb j k) eqn:E; [|ring]. apply Nat.eqb_eq in E. subst j. rewrite (plookup_notin k d Hnotin). ring.
Qed.
Lemma pk_maxkey_ge d k : In k (map fst d) -> (k <= pk_maxkey d)%nat.
Proof. unfold pk_maxkey. intros H. apply maxdeg_ge. exact H. Qed.
Lemma pk_psi_poly d x : NoDup (map fst d) -> pk_psi d x == peval (pk_coeffs d) x.
Proof.
  intros ND. unfold pk_psi, pk_coeffs.
  rewrite <- (dsum_dense d (fun k => qpow x (Z.of_nat k)) (S (pk_maxkey d)) ND) by (intros k Hk; pose proof (pk_maxkey_ge d k Hk); lia).
  pose proof (psi_gen (fun k => plookup k d) x (S (pk_maxkey d)) 0) as H. rewrite H. change (Z.of_nat 0) with 0%Z. rewrite Qpow_0. ring.
Qed.
Lemma pk_psiP_poly d x : NoDup (map fst d) -> ~ x == 0 -> pk_psiP d x == D (pk_coeffs d) x.
Proof.
  intros ND Hx. unfold pk_psiP, pk_coeffs.
  rewrite (dsum_ext d _ (fun k q => q * (Qnat k * qpow x (Z.of_nat k - 1)))) by (intros; ring).
  rewrite <- (dsum_dense d (fun k => Qnat k * qpow x (Z.of_nat k - 1)) (S (pk_maxkey d)) ND) by (intros k Hk; pose proof (pk_maxkey_ge d k Hk); lia).
  pose proof (psiP_gen (fun k => plookup k d) x Hx (S (pk_maxkey d)) 0) as H. unfold qpow. fold (Qpow x).
  cbn [seq map pderiv]. cbn [seq map] in H. rewrite ICP.sumQ_cons in *.
  pose proof (psiP_gen (fun k => plookup k d) x Hx (pk_maxkey d) 1) as H1.
  unfold Qpow in *. rewrite H1. change (Z.of_nat 1 - 1)%Z with 0%Z. change (Qnat 0) with 0. cbn [Qpower]. ring.
Qed.

Lemma dict_pgf_is_polynomial d x : NoDup (map fst d) ->
  pk_psi d x == peval (pk_coeffs d) x /\ (~ x == 0 -> pk_psiP d x == D (pk_coeffs d) x).
Proof. intros ND. split; [apply pk_psi_poly; exact ND|apply pk_psiP_poly; exact ND]. Qed.

(* example used by Props/C07x.v *)
Definition ex_Pk : pkdict := [(1%nat, 1 # 2); (3%nat, 1 # 2)].

Lemma prefmix_initial_point_and_outputs Pk N rho tau g theta R :
  veq (pm_IC Pk) (Phi_pm Pk N tau g 1 0) /\
  (~ N == 0 -> pm_out_S Pk N rho (Phi_pm Pk N tau g theta R) == N * ((1 - rho) * pk_psi Pk theta) /\
               pm_out_R N (Phi_pm Pk N tau g theta R) == R).
Proof. split; [apply pm_IC_on_subspace|apply pm_outputs_agree]. Qed.

(* the returned series of the two discrete models coincide, written out *)
Lemma prefmix_discrete_outputs (Pk : pkdict) rho p N :
  ~ p == 0 -> ~ 1 - rho == 0 -> ~ pk_mean Pk == 0 -> dsum Pk (fun _ q => q) == 1 -> forall n,
  let st := pmd_loop N rho p Pk (uncorrelated Pk) n in
  let e := EBCM_discrete_loop 0 N (fun x => (1 - rho) * pk_psi Pk x) p 0 (1 - rho) (fun x => (1 - rho) * pk_psiP Pk x) n in
  pd_R st == snd (fst (fst e)) /\ pd_S st == snd (fst e) /\ pd_I st == snd e /\
  forall k, In k (map fst Pk) -> plookup k (pd_theta st) == fst (fst (fst e)).
Proof.
  intros Hp Hr Hm Hone n. cbv zeta.
  pose proof (prefmix_uncorrelated_discrete Pk rho p N Hp Hr Hm Hone n) as H. unfold pmd_rel in H.
  destruct (EBCM_discrete_loop 0 N (fun x => (1 - rho) * pk_psi Pk x) p 0 (1 - rho) (fun x => (1 - rho) * pk_psiP Pk x) n) as [[[th R0] S0] I0].
  cbn [fst snd]. destruct H as (Hth & HR & HS & HI & _). repeat split; assumption.
Qed.
