(* C07, SIR hierarchy under a uniformly random initial infection: the generated right-hand sides
   (Gen/Rhs.v) of EBCM, SIR super-compact pairwise and SIR compact pairwise correspond under the
   polynomial changes of variables of Model/Pgf.v:
       rhs_big (Phi x) = DPhi(x) . rhs_small x
   with DPhi the FORMAL derivative of the polynomial map Phi (pm_push).  No chain rule is assumed:
   the statement is the algebraic identity between the two vector fields on the invariant manifold
   (image of Phi); invariance is part of it (rhs_big at a point of the manifold is tangent to it). *)
From EoNV Require Import Prelude Vec VecP Aux AuxP Pgf C07xPoly Rhs.
From Coq Require Import Qpower Lqa Setoid Morphisms.

Local Notation pw x k := (qpow x (Z.of_nat k)).

Lemma pw_S x k : pw x (S k) == x * pw x k.
Proof. unfold qpow. fold (Qpow x (Z.of_nat (S k))). rewrite Qpow_nat_S. reflexivity. Qed.
Lemma pw_0 x : pw x 0 == 1. Proof. unfold qpow. cbn. reflexivity. Qed.
Lemma pw_add x a b : pw x (a + b) == pw x a * pw x b.
Proof. induction a as [|a IH]; cbn [plus]; [rewrite pw_0; ring|]. rewrite !pw_S, IH. ring. Qed.

(* ---------- the degree classes S_k = N c_k theta^k ---------- *)
Section Classes.
Variable N : Q.

Lemma Sk_from_length cs : forall k, length (Sk_from N cs k) = length cs.
Proof. induction cs as [|a cs IH]; intros k; cbn [Sk_from length]; auto. Qed.

Lemma nth_Sk_eval cs : forall k i x, (i < length cs)%nat ->
  nth i (pm_eval (Sk_from N cs k) x) 0 == N * nth i cs 0 * pw x (k + i).
Proof.
  induction cs as [|a cs IH]; intros k i x Hi; cbn [length] in Hi; [lia|].
  destruct i as [|i]; cbn [Sk_from pm_eval map nth].
  - rewrite peval_pmono, Nat.add_0_r. reflexivity.
  - fold (pm_eval (Sk_from N cs (S k)) x). rewrite IH by lia. replace (S k + i)%nat with (k + S i)%nat by lia. reflexivity.
Qed.
Lemma nth_Sk_push cs : forall k i x dx, (i < length cs)%nat ->
  nth i (pm_push (Sk_from N cs k) x dx) 0 == D (pmono (N * nth i cs 0) (k + i)) x * dx.
Proof.
  induction cs as [|a cs IH]; intros k i x dx Hi; cbn [length] in Hi; [lia|].
  destruct i as [|i]; cbn [Sk_from pm_push map nth].
  - rewrite Nat.add_0_r. reflexivity.
  - fold (pm_push (Sk_from N cs (S k)) x dx). rewrite IH by lia. replace (S k + i)%nat with (k + S i)%nat by lia. reflexivity.
Qed.

(* sum_k S_k = N theta^k0 psihat(theta) *)
Lemma vsum_Sk cs : forall k x, vsum (pm_eval (Sk_from N cs k) x) == N * pw x k * peval cs x.
Proof.
  induction cs as [|a cs IH]; intros k x; cbn [Sk_from pm_eval map peval].
  - rewrite vsum_nil. ring.
  - fold (pm_eval (Sk_from N cs (S k)) x). rewrite vsum_cons, IH, peval_pmono, pw_S. ring.
Qed.
(* sum_k k S_k = N theta^k0 * sum_j (k0+j) c_j theta^j *)
Lemma dot_k_Sk cs : forall k x,
  dot (map Qnat (seq k (length cs))) (pm_eval (Sk_from N cs k) x) == N * pw x k * peval (pderiv_from cs k) x.
Proof.
  induction cs as [|a cs IH]; intros k x; cbn [Sk_from pm_eval map peval length seq pderiv_from].
  - unfold dot. cbn. ring.
  - fold (pm_eval (Sk_from N cs (S k)) x). unfold dot in *. cbn [vmul zipWith]. fold (vmul (map Qnat (seq (S k) (length cs))) (pm_eval (Sk_from N cs (S k)) x)).
    rewrite vsum_cons, IH, peval_pmono, pw_S. ring.
Qed.
(* sum_k k (k-1) S_k *)
Fixpoint pdd_from (cs : list Q) (k : nat) : list Q :=
  match cs with [] => [] | a :: cs' => (Qnat k * (Qnat k - 1) * a) :: pdd_from cs' (S k) end.
Lemma dot_kk_Sk cs : forall k x,
  dot (vmul (map Qnat (seq k (length cs))) (vsubs (map Qnat (seq k (length cs))) 1)) (pm_eval (Sk_from N cs k) x)
  == N * pw x k * peval (pdd_from cs k) x.
Proof.
  induction cs as [|a cs IH]; intros k x; cbn [Sk_from pm_eval map peval length seq pdd_from].
  - unfold dot. cbn. ring.
  - fold (pm_eval (Sk_from N cs (S k)) x). unfold dot in *. cbn [vsubs map vmul zipWith].
    fold (vsubs (map Qnat (seq (S k) (length cs))) 1).
    fold (vmul (map Qnat (seq (S k) (length cs))) (vsubs (map Qnat (seq (S k) (length cs))) 1)).
    fold (vmul (vmul (map Qnat (seq (S k) (length cs))) (vsubs (map Qnat (seq (S k) (length cs))) 1)) (pm_eval (Sk_from N cs (S k)) x)).
    rewrite vsum_cons, IH, peval_pmono, pw_S. ring.
Qed.
End Classes.

(* sum_j (k+j)(k+j-1) c_j x^j against the second formal derivative *)
Lemma pdd_from_SS cs : forall k x,
  peval (pdd_from cs (S (S k))) x == peval (pderiv_from (pderiv_from cs (S (S k))) (S k)) x.
Proof.
  induction cs as [|a cs IH]; intros k x; cbn [pdd_from pderiv_from peval]; [reflexivity|].
  rewrite IH. rewrite (Qnat_S (S k)). ring.
Qed.
Lemma pdd_from_0 cs x : peval (pdd_from cs 0) x == x * x * D (pderiv cs) x.
Proof.
  destruct cs as [|a [|b cs]]; cbn [pdd_from pderiv pderiv_from peval]; try (rewrite ?Qnat_0; ring).
  rewrite pdd_from_SS. rewrite Qnat_0. change (Qnat 1) with 1. ring.
Qed.

(* ====================================================================== *)
(*  super-compact pairwise (theta, SS, SI, R)  ->  compact pairwise        *)
(* ====================================================================== *)
Section SuperCompactToCompact.
Variables (c : list Q) (t N tau g : Q) (ps psP psDP : Q -> Q).

Lemma moments_on_manifold theta :
  let Sk := pm_eval (Sk_p c N) theta in
  length Sk = length c /\
  vsum Sk == N * peval c theta /\
  dot (arange (length Sk)) Sk == N * (theta * D c theta) /\
  dot (vmul (arange (length Sk)) (vsubs (arange (length Sk)) 1)) Sk == N * (theta * theta * D (pderiv c) theta).
Proof.
  cbv zeta. unfold Sk_p. rewrite pm_eval_length, Sk_from_length. split; [reflexivity|]. unfold arange. split; [|split].
  - rewrite vsum_Sk, pw_0. ring.
  - rewrite dot_k_Sk, pw_0, pderiv_from_0. ring.
  - rewrite dot_kk_Sk, pw_0, pdd_from_0. ring.
Qed.

Lemma super_compact_to_compact theta SS SI R :
  ps theta == peval c theta -> psP theta == D c theta -> psDP theta == D (pderiv c) theta ->
  ~ N == 0 -> ~ theta == 0 -> ~ D c theta == 0 ->
  let sc := dSIR_super_compact_pairwise [theta; SS; SI; R] t tau g ps psP psDP N in
  veq (dSIR_compact_pairwise (Psi_cp c N theta SS SI R) t N tau g)
      (DPsi_cp c N theta (vnth 0 sc) (vnth 1 sc) (vnth 2 sc) (vnth 3 sc)).
Proof.
  intros E0 E1 E2 HN Hth Ha. cbv zeta.
  destruct (moments_on_manifold theta) as (HL & H0 & H1 & H2). cbv zeta in HL, H0, H1, H2.
  unfold Psi_cp, DPsi_cp, dSIR_compact_pairwise.
  rewrite !drop_last_app, !take_last_app by reflexivity. cbn [vnth nth].
  set (Sk := pm_eval (Sk_p c N) theta) in *.
  unfold dSIR_super_compact_pairwise. cbn [vnth nth].
  apply veq_app.
  - apply veq_of_nth.
    + unfold Sk, Sk_p. autorewrite with veclen. rewrite pm_eval_length, pm_push_length. lia.
    + intros i Hi. assert (Hi' : (i < length c)%nat).
      { revert Hi. unfold Sk, Sk_p. autorewrite with veclen. rewrite pm_eval_length, Sk_from_length. lia. }
      assert (HiS : (i < length Sk)%nat) by (rewrite HL; exact Hi').
      rewrite nth_vdivs, nth_vmuls, nth_vmul, nth_smul, nth_arange by veclen.
      unfold Sk_p. rewrite nth_Sk_push by exact Hi'. rewrite H1.
      unfold Sk, Sk_p. rewrite nth_Sk_eval by exact Hi'. cbn [plus].
      pose proof (D_pmono_x (N * nth i c 0) i theta) as Hm.
      set (d := D (pmono (N * nth i c 0) i) theta) in *.
      setoid_replace d with (Qnat i * (N * nth i c 0 * pw theta i) / theta) by (rewrite <- Hm; field; exact Hth).
      rewrite E1. field. repeat split; assumption.
  - repeat constructor; rewrite ?qpow2, ?H0, ?H1, ?H2, ?E0, ?E1, ?E2; field; repeat split; assumption.
Qed.
End SuperCompactToCompact.

(* ====================================================================== *)
(*  EBCM (theta, R)  ->  super-compact pairwise                            *)
(* ====================================================================== *)
Section EbcmToSuperCompact.
Variables (c : list Q) (t N tau g phiS0 phiR0 : Q) (ps psP psDP : Q -> Q).
Local Notation a x := (D c x).
Local Notation b x := (D (pderiv c) x).

Lemma SS_val x : peval (SS_p c N phiS0) x == N * a x * (phiS0 * a x / a 1).
Proof. unfold SS_p, phiS_p, hP1, hP. rewrite peval_pscale, peval_pmul, peval_pscale. unfold Qdiv. ring. Qed.
Lemma SS_der x : D (SS_p c N phiS0) x == N * (b x * (phiS0 * a x / a 1) + a x * (phiS0 * b x / a 1)).
Proof. unfold SS_p, phiS_p, hP1, hP. rewrite D_pscale, D_pmul, peval_pscale, D_pscale. unfold Qdiv. ring. Qed.
Lemma phiI_val x : peval (phiI_p c tau g phiS0 phiR0) x == x - phiS0 * a x / a 1 - (phiR0 + g / tau * (1 - x)).
Proof. unfold phiI_p, phiS_p, phiR_p, hP1, hP. rewrite !peval_psub, peval_pX, peval_pscale, peval_lin. unfold Qdiv. ring. Qed.
Lemma phiI_der x : D (phiI_p c tau g phiS0 phiR0) x == 1 - phiS0 * b x / a 1 + g / tau.
Proof. unfold phiI_p, phiS_p, phiR_p, hP1, hP. rewrite !D_psub, D_pX, D_pscale, D_lin. unfold Qdiv. ring. Qed.
Lemma SI_val x : peval (SI_p c N tau g phiS0 phiR0) x == N * a x * (x - phiS0 * a x / a 1 - (phiR0 + g / tau * (1 - x))).
Proof. unfold SI_p. rewrite peval_pscale, peval_pmul, phiI_val. unfold hP. ring. Qed.
Lemma SI_der x : D (SI_p c N tau g phiS0 phiR0) x ==
  N * (b x * (x - phiS0 * a x / a 1 - (phiR0 + g / tau * (1 - x))) + a x * (1 - phiS0 * b x / a 1 + g / tau)).
Proof. unfold SI_p. rewrite D_pscale, D_pmul, phiI_val, phiI_der. unfold hP. ring. Qed.

Lemma ebcm_to_super_compact theta R :
  ps theta == peval c theta -> psP theta == a theta -> psP 1 == a 1 -> psDP theta == b theta ->
  ~ tau == 0 -> ~ N == 0 -> ~ a theta == 0 -> ~ a 1 == 0 ->
  let e := dEBCM [theta; R] t N tau g ps psP phiS0 phiR0 in
  veq (dSIR_super_compact_pairwise (Phi_sc c N tau g phiS0 phiR0 theta R) t tau g ps psP psDP N)
      (DPhi_sc c N tau g phiS0 phiR0 theta (vnth 0 e) (vnth 1 e)).
Proof.
  intros E0 E1 E11 E2 Ht HN Ha Hc. cbv zeta.
  unfold Phi_sc, DPhi_sc, sc_p. cbn [pm_eval pm_push map app].
  unfold dSIR_super_compact_pairwise, dEBCM. cbn [vnth nth].
  repeat constructor; rewrite ?SS_val, ?SI_val, ?SS_der, ?SI_der, ?E0, ?E1, ?E11, ?E2, ?qpow2;
    field; repeat split; assumption.
Qed.

(* EBCM -> compact pairwise is the composite *)
Lemma Phi_cp_factor theta R :
  Phi_cp c N tau g phiS0 phiR0 theta R =
  Psi_cp c N theta (peval (SS_p c N phiS0) theta) (peval (SI_p c N tau g phiS0 phiR0) theta) R.
Proof. unfold Phi_cp, Psi_cp, cp_p. rewrite pm_eval_app. cbn [pm_eval map]. rewrite <- app_assoc. reflexivity. Qed.
Lemma DPhi_cp_factor theta dth dR :
  DPhi_cp c N tau g phiS0 phiR0 theta dth dR =
  DPsi_cp c N theta dth (D (SS_p c N phiS0) theta * dth) (D (SI_p c N tau g phiS0 phiR0) theta * dth) dR.
Proof. unfold DPhi_cp, DPsi_cp, cp_p. rewrite pm_push_app. cbn [pm_push map]. rewrite <- app_assoc. reflexivity. Qed.

Lemma pm_push_Qeq F x d d' : d == d' -> veq (pm_push F x d) (pm_push F x d').
Proof. intros E. induction F; cbn [pm_push map]; constructor; [rewrite E; reflexivity|assumption]. Qed.

Lemma ebcm_to_compact theta R :
  ps theta == peval c theta -> psP theta == a theta -> psP 1 == a 1 ->
  ~ tau == 0 -> ~ N == 0 -> ~ theta == 0 -> ~ a theta == 0 -> ~ a 1 == 0 ->
  let e := dEBCM [theta; R] t N tau g ps psP phiS0 phiR0 in
  veq (dSIR_compact_pairwise (Phi_cp c N tau g phiS0 phiR0 theta R) t N tau g)
      (DPhi_cp c N tau g phiS0 phiR0 theta (vnth 0 e) (vnth 1 e)).
Proof.
  intros E0 E1 E11 Ht HN Hth Ha Hc. cbv zeta.
  rewrite Phi_cp_factor, DPhi_cp_factor.
  pose proof (super_compact_to_compact c t N tau g ps psP (fun x => b x) theta
                (peval (SS_p c N phiS0) theta) (peval (SI_p c N tau g phiS0 phiR0) theta) R
                E0 E1 (Qeq_refl _) HN Hth Ha) as H1. cbv zeta in H1.
  etransitivity; [exact H1|].
  clear H1.
  (* the super-compact field at Phi_sc, with psDP := the formal second derivative *)
  assert (H3 : veq (dSIR_super_compact_pairwise [theta; peval (SS_p c N phiS0) theta; peval (SI_p c N tau g phiS0 phiR0) theta; R] t tau g ps psP (fun x => b x) N)
                   [vnth 0 (dEBCM [theta; R] t N tau g ps psP phiS0 phiR0);
                    D (SS_p c N phiS0) theta * vnth 0 (dEBCM [theta; R] t N tau g ps psP phiS0 phiR0);
                    D (SI_p c N tau g phiS0 phiR0) theta * vnth 0 (dEBCM [theta; R] t N tau g ps psP phiS0 phiR0);
                    vnth 1 (dEBCM [theta; R] t N tau g ps psP phiS0 phiR0)]).
  { unfold dSIR_super_compact_pairwise, dEBCM. cbn [vnth nth].
    repeat constructor; rewrite ?SS_val, ?SI_val, ?SS_der, ?SI_der, ?E0, ?E1, ?E11, ?qpow2;
      field; repeat split; assumption. }
  set (sc := dSIR_super_compact_pairwise _ t tau g ps psP (fun x => b x) N) in *.
  pose proof (veq_nth_all _ _ H3) as Hn.
  unfold DPsi_cp. apply veq_app.
  - apply pm_push_Qeq. exact (Hn 0%nat).
  - unfold vnth. constructor; [exact (Hn 1%nat)|]. constructor; [exact (Hn 2%nat)|]. constructor; [exact (Hn 3%nat)|constructor].
Qed.
End EbcmToSuperCompact.

(* the outputs agree on the manifold: S = sum_k S_k = N psihat(theta) *)
Lemma outputs_agree c N tau g phiS0 phiR0 theta R :
  vsum (drop_last 3 (Phi_cp c N tau g phiS0 phiR0 theta R)) == N * peval c theta /\
  vnth 2 (take_last 3 (Phi_cp c N tau g phiS0 phiR0 theta R)) == R /\
  vnth 0 (Phi_sc c N tau g phiS0 phiR0 theta R) == theta /\ vnth 3 (Phi_sc c N tau g phiS0 phiR0 theta R) == R.
Proof.
  rewrite Phi_cp_factor. unfold Psi_cp. rewrite drop_last_app, take_last_app by reflexivity.
  destruct (moments_on_manifold c N theta) as (_ & H0 & _). cbv zeta in H0.
  split; [exact H0|]. split; [reflexivity|]. unfold Phi_sc, sc_p. cbn [pm_eval map app vnth nth].
  split; reflexivity.
Qed.
