(* C18, event-driven SIR: iteration order of the containers the code walks through.
   `for node in initial_recovereds:` (sim:2329) only assigns status / rec_time and counts:
   the run does not depend on the order in which the caller's container yields its nodes
   ([esir_r0_order_indep]: same trace, same result, for every provider, script, tie policy).
   `for u in initial_infecteds:` (sim:2353) assigns heap counters, so the order decides which
   initial node is processed first and therefore which node receives which draws: an ORDERED
   input of the run ([esir_i0_order_matters], a witness).
   The proof goes through an extensional equality of simulation states (the dictionaries
   status / rec_time / pred_inf_time are total functions in the model). *)
From EoNV Require Import Prelude Samp Graph EventSIR EventSIRConst FlagIndep C18xSim C18xEsir.
From Coq Require Import Permutation.

Definition esteq (s1 s2 : est) : Prop :=
  (forall u, stat s1 u = stat s2 u) /\ (forall u, rect s1 u = rect s2 u) /\
  (forall u, predt s1 u = predt s2 u) /\
  qu s1 = qu s2 /\ ctr s1 = ctr s2 /\ rows s1 = rows s2 /\ tlog s1 = tlog s2 /\ olog s1 = olog s2.

Lemma fupdN_ext : forall V (f h : node -> V) k v, (forall u, f u = h u) -> forall u, fupdN f k v u = fupdN h k v u.
Proof. intros V f h k v H u. unfold fupdN. destruct (N.eqb u k); [reflexivity|apply H]. Qed.

Lemma sus_nbrs_ext : forall g st1 st2 u, (forall v, st1 v = st2 v) -> sus_nbrs g st1 u = sus_nbrs g st2 u.
Proof. intros g st1 st2 u H. unfold sus_nbrs. apply filter_ext. intro v. rewrite H. reflexivity. Qed.

Section Ext.
Variable tb : tiepolicy.
Variable g : graph.
Variable tmax : xtime.

Lemma sched_one_ext : forall time rt tgt q c p1 p2 vd, (forall u, p1 u = p2 u) ->
  fst (sched_one tb tmax time rt tgt (q, c, p1) vd) = fst (sched_one tb tmax time rt tgt (q, c, p2) vd) /\
  forall u, snd (sched_one tb tmax time rt tgt (q, c, p1) vd) u = snd (sched_one tb tmax time rt tgt (q, c, p2) vd) u.
Proof.
  intros time rt tgt q c p1 p2 [v d] H. unfold sched_one, pget. rewrite (H v).
  destruct (xleb (xadd time d) rt); [|split; [reflexivity|exact H]].
  destruct (xltb _ _ && xleb _ tmax); cbn [fst snd]; (split; [reflexivity|apply fupdN_ext; exact H]).
Qed.

Lemma fold_sched_ext : forall time rt tgt td q c p1 p2, (forall u, p1 u = p2 u) ->
  fst (fold_left (sched_one tb tmax time rt tgt) td (q, c, p1)) = fst (fold_left (sched_one tb tmax time rt tgt) td (q, c, p2)) /\
  forall u, snd (fold_left (sched_one tb tmax time rt tgt) td (q, c, p1)) u =
            snd (fold_left (sched_one tb tmax time rt tgt) td (q, c, p2)) u.
Proof.
  intros time rt tgt. induction td as [|vd td IH]; intros q c p1 p2 H; cbn [fold_left]; [split; [reflexivity|exact H]|].
  destruct (sched_one_ext time rt tgt q c p1 p2 vd H) as [Ha Hb].
  destruct (sched_one tb tmax time rt tgt (q, c, p1) vd) as [[q1 c1] p1'].
  destruct (sched_one tb tmax time rt tgt (q, c, p2) vd) as [[q2 c2] p2'].
  cbn [fst snd] in Ha, Hb. injection Ha as -> ->. apply IH. exact Hb.
Qed.

Lemma apply_inf_esteq : forall time src tgt td rd calls s1 s2, esteq s1 s2 ->
  esteq (apply_inf tb tmax time src tgt td rd calls s1) (apply_inf tb tmax time src tgt td rd calls s2).
Proof.
  intros time src tgt td rd calls s1 s2 [H1 [H2 [H3 [H4 [H5 [H6 [H7 H8]]]]]]]. unfold apply_inf.
  rewrite H4, H5, H6, H7, H8.
  set (qc1 := if xleb (xadd time rd) tmax then _ else _).
  destruct (fold_sched_ext time (xadd time rd) tgt td (fst qc1) (snd qc1) (predt s1) (predt s2) H3) as [Ha Hb].
  destruct (fold_left _ td (fst qc1, snd qc1, predt s1)) as [[q1 c1] p1'].
  destruct (fold_left _ td (fst qc1, snd qc1, predt s2)) as [[q2 c2] p2'].
  cbn [fst snd] in Ha, Hb. injection Ha as -> ->.
  unfold esteq. cbn [stat rect predt qu ctr rows tlog olog].
  repeat split; try reflexivity; try assumption; intro u; apply fupdN_ext; assumption.
Qed.

Lemma apply_rec_esteq : forall time u s1 s2, esteq s1 s2 -> esteq (apply_rec time u s1) (apply_rec time u s2).
Proof.
  intros time u s1 s2 [H1 [H2 [H3 [H4 [H5 [H6 [H7 H8]]]]]]]. unfold apply_rec, esteq.
  cbn [stat rect predt qu ctr rows tlog olog]. rewrite H4, H5, H6, H7, H8.
  repeat split; try reflexivity; try assumption. intro v. apply fupdN_ext. assumption.
Qed.

Lemma set_qu_esteq : forall q s1 s2, esteq s1 s2 -> esteq (set_qu s1 q) (set_qu s2 q).
Proof.
  intros q s1 s2 [H1 [H2 [H3 [H4 [H5 [H6 [H7 H8]]]]]]]. unfold set_qu, esteq.
  cbn [stat rect predt qu ctr rows tlog olog]. repeat split; assumption.
Qed.

Lemma node_hist_esteq : forall tmin s1 s2 u, esteq s1 s2 -> node_hist tmin s1 u = node_hist tmin s2 u.
Proof.
  intros tmin s1 s2 u [H1 [H2 [H3 _]]]. unfold node_hist. rewrite (H1 u), (H2 u), (H3 u). reflexivity.
Qed.

Lemma finish_esteq : forall tmin full n0 s1 s2, esteq s1 s2 -> finish g tmin full n0 s1 = finish g tmin full n0 s2.
Proof.
  intros tmin full n0 s1 s2 Hs. pose proof Hs as [H1 [H2 [H3 [H4 [H5 [H6 [H7 H8]]]]]]]. unfold finish.
  rewrite H6, H7, H8. destruct full; [|reflexivity].
  replace (map (fun u => rbind (node_hist tmin s1 u) (fun h => Ok (u, h))) (gnodes g))
     with (map (fun u => rbind (node_hist tmin s2 u) (fun h => Ok (u, h))) (gnodes g)); [reflexivity|].
  apply map_ext. intro u. rewrite (node_hist_esteq tmin s1 s2 u Hs). reflexivity.
Qed.

Lemma gloop_esteq : forall tmin prov full n0 fuel s1 s2, esteq s1 s2 ->
  simrelx eq (gloop tb g tmin tmax prov full n0 fuel s1) (gloop tb g tmin tmax prov full n0 fuel s2).
Proof.
  intros tmin prov full n0. induction fuel as [|f IH]; intros s1 s2 Hs; pose proof Hs as [H1 [H2 [H3 [H4 _]]]];
    cbn [gloop]; rewrite H4; destruct (qu s2) as [|e q'].
  - eapply sx_leaf; [apply lift_leaf|apply lift_leaf|apply finish_esteq; exact Hs].
  - eapply sx_leaf; reflexivity.
  - eapply sx_leaf; [apply lift_leaf|apply lift_leaf|apply finish_esteq; exact Hs].
  - pose proof (set_qu_esteq q' s1 s2 Hs) as Hq.
    destruct (qe e) as [src tgt|u]; [|apply IH; apply apply_rec_esteq; exact Hq].
    cbn [set_qu stat]. rewrite (H1 tgt).
    destruct (N.eqb (stat s2 tgt) stS); [|apply IH; exact Hq].
    rewrite (sus_nbrs_ext g (fupdN (stat s1) tgt stI) (fupdN (stat s2) tgt stI) tgt (fupdN_ext _ _ _ tgt stI H1)).
    apply simrelx_bind_same; [intro; reflexivity|]. intro a. apply IH. apply apply_inf_esteq. exact Hq.
Qed.

End Ext.

Lemma bgloop_esteq : forall g tmax tmin prov full n0 fuel s1 s2, esteq s1 s2 ->
  bsimrelx eq (bgloop g tmin tmax prov full n0 fuel s1) (bgloop g tmin tmax prov full n0 fuel s2).
Proof.
  intros g tmax tmin prov full n0. induction fuel as [|f IH]; intros s1 s2 Hs; pose proof Hs as [H1 [H2 [H3 [H4 _]]]];
    cbn [bgloop]; rewrite H4; destruct (qu s2) as [|e q'].
  - eapply bx_leaf; [apply blift_leaf|apply blift_leaf|apply finish_esteq; exact Hs].
  - eapply bx_leaf; reflexivity.
  - eapply bx_leaf; [apply blift_leaf|apply blift_leaf|apply finish_esteq; exact Hs].
  - pose proof (set_qu_esteq q' s1 s2 Hs) as Hq.
    destruct (qe e) as [src tgt|u]; [|apply IH; apply apply_rec_esteq; exact Hq].
    cbn [set_qu stat]. rewrite (H1 tgt).
    destruct (N.eqb (stat s2 tgt) stS); [|apply IH; exact Hq].
    rewrite (sus_nbrs_ext g (fupdN (stat s1) tgt stI) (fupdN (stat s2) tgt stI) tgt (fupdN_ext _ _ _ tgt stI H1)).
    apply bsimrelx_bind_same; [intro; reflexivity|]. intro a. apply IH. apply apply_inf_esteq. exact Hq.
Qed.

(* ---------------- the initial state ---------------- *)
Lemma set_all_spec : forall V (l : list node) (f : node -> V) x u,
  set_all f l x u = if mem u l then x else f u.
Proof.
  intros V. induction l as [|k l IH]; intros f x u; unfold set_all; cbn [fold_left mem existsb]; [reflexivity|].
  fold (set_all (fupdN f k x) l x). rewrite IH. unfold fupdN, mem.
  destruct (existsb (N.eqb u) l); [rewrite orb_true_r; reflexivity|]. rewrite orb_false_r. reflexivity.
Qed.

Lemma mem_perm : forall l l' u, Permutation l l' -> mem u l = mem u l'.
Proof.
  intros l l' u H. unfold mem. destruct (existsb (N.eqb u) l) eqn:E; symmetry.
  - apply existsb_exists in E. destruct E as [x [Hin Hx]]. apply existsb_exists. exists x. split; [eapply Permutation_in; eassumption|exact Hx].
  - destruct (existsb (N.eqb u) l') eqn:E'; [|reflexivity]. apply existsb_exists in E'. destruct E' as [x [Hin Hx]].
    assert (existsb (N.eqb u) l = true) by (apply existsb_exists; exists x; split; [eapply Permutation_in; [apply Permutation_sym|]; eassumption|exact Hx]).
    congruence.
Qed.

Lemma init_inf_esteq : forall tb tmin tmax s1 s2 u, esteq s1 s2 -> esteq (init_inf tb tmin tmax s1 u) (init_inf tb tmin tmax s2 u).
Proof.
  intros tb tmin tmax s1 s2 u [H1 [H2 [H3 [H4 [H5 [H6 [H7 H8]]]]]]]. unfold init_inf, esteq.
  cbn [stat rect predt qu ctr rows tlog olog]. rewrite H4, H5.
  repeat split; try reflexivity; try assumption. intro v. apply fupdN_ext. assumption.
Qed.

Lemma init_state_perm : forall tb g tmin tmax i0 r0 r0', Permutation r0 r0' ->
  esteq (init_state tb g tmin tmax i0 r0) (init_state tb g tmin tmax i0 r0').
Proof.
  intros tb g tmin tmax i0 r0 r0' Hp. unfold init_state.
  rewrite (Permutation_length Hp).
  match goal with |- esteq (fold_left _ _ ?a) (fold_left _ _ ?b) => assert (H0 : esteq a b) end.
  { unfold esteq. cbn [stat rect predt qu ctr rows tlog olog].
    repeat split; try reflexivity; intro u; rewrite !set_all_spec, (mem_perm r0 r0' u Hp); reflexivity. }
  revert H0. generalize (mkE (set_all (fun _ => stS) r0 stR) (set_all (fun _ => None) r0 (Some (Some tmin))) (fun _ => None) [] 0
                             [(tmin, [order g - Z.of_nat (length r0'); 0; Z.of_nat (length r0')]%Z)] [] []).
  generalize (mkE (set_all (fun _ => stS) r0' stR) (set_all (fun _ => None) r0' (Some (Some tmin))) (fun _ => None) [] 0
                             [(tmin, [order g - Z.of_nat (length r0'); 0; Z.of_nat (length r0')]%Z)] [] []).
  induction i0 as [|u l IH]; intros b a H0; cbn [fold_left]; [exact H0|].
  apply IH. apply init_inf_esteq. exact H0.
Qed.

Lemma sample_pop_perm : forall g r0 r0', Permutation r0 r0' -> sample_pop g (Some r0) = sample_pop g (Some r0').
Proof. intros g r0 r0' Hp. unfold sample_pop. apply filter_ext. intro u. rewrite (mem_perm r0 r0' u Hp). reflexivity. Qed.

(* `for node in initial_recovereds:`: any order of the caller's container (duplicates as
   given) gives the same calls to the random source and the same result, on every script *)
Theorem esir_r0_order_indep : forall tb g prov i0 r0 r0' rho tmin tmax full fuel ds,
  Permutation r0 r0' ->
  exec (fast_nonmarkov tb g prov i0 (Some r0) rho tmin tmax full fuel) ds [] =
  exec (fast_nonmarkov tb g prov i0 (Some r0') rho tmin tmax full fuel) ds [].
Proof.
  intros tb g prov i0 r0 r0' rho tmin tmax full fuel ds Hp. apply simrelx_eq_exec. unfold fast_nonmarkov.
  assert (HF : forall e, simrelx eq (Fail e) (Fail e : samp esir_out)) by (intro e; eapply sx_leaf; reflexivity).
  destruct rho as [r|]; destruct i0 as [l|]; try apply HF.
  - apply gloop_esteq. apply init_state_perm. exact Hp.
  - cbn [Z.ltb Z.compare]. rewrite (sample_pop_perm g r0 r0' Hp). constructor. intro ks. apply gloop_esteq. apply init_state_perm. exact Hp.
Qed.

Theorem fast_sir_const_r0_order_indep : forall g tau gamma i0 r0 r0' rho tmin tmax full fuel ds,
  Permutation r0 r0' ->
  bexec (fast_sir_const g tau gamma i0 (Some r0) rho tmin tmax full fuel) ds [] =
  bexec (fast_sir_const g tau gamma i0 (Some r0') rho tmin tmax full fuel) ds [].
Proof.
  intros g tau gamma i0 r0 r0' rho tmin tmax full fuel ds Hp. apply bsimrelx_eq_bexec. unfold fast_sir_const.
  assert (HF : forall e, bsimrelx eq (BFail e) (BFail e : bsamp esir_out)) by (intro e; eapply bx_leaf; reflexivity).
  destruct rho as [r|]; destruct i0 as [l|]; try apply HF.
  - apply bgloop_esteq. apply init_state_perm. exact Hp.
  - cbn [Z.ltb Z.compare]. rewrite (sample_pop_perm g r0 r0' Hp). constructor. intro ks. apply bgloop_esteq. apply init_state_perm. exact Hp.
Qed.
