(* C08, tree clause: the statements of Proofs/C08tF.v for every tree (no acceptance hypothesis left). *)
From EoNV Require Import Prelude Vec VecP Graph Rhs2D Rhs2DP Rhs2 Rhs2GenP Master C08tG C08tS C08tT C08tR C08tA C08tO C08tC C08tF
  C08tTreeA C08tTreeB.
From Coq Require Import Lia List Arith Bool.
Import ListNotations.

Lemma tree_exact_every_tree G nodelist idx ord tr rc :
  pb_wfb G nodelist idx = true -> noloopb G nodelist = true -> tree_orderb G nodelist ord = true ->
  forall p t, nonneg nodelist p -> inMs nodelist (branch_cuts G nodelist) p ->
  veq (g_dSIR_pair_based (marginals G nodelist p) t G nodelist idx tr rc)
      (marginals G nodelist (master_rhs G nodelist idx tr rc p)).
Proof.
  intros W NL T. apply tree_exact_on_M. apply (forest_tree_okb G nodelist idx ord W NL). apply tree_forest_order. exact T.
Qed.
Lemma tree_exact_simple_graph G ord tr rc : wf_graphb G = true -> tree_orderb G (gnodes G) ord = true ->
  let nodelist := gnodes G in let idx := pos_in (gnodes G) in
  forall p t, nonneg nodelist p -> inMs nodelist (branch_cuts G nodelist) p ->
  veq (g_dSIR_pair_based (marginals G nodelist p) t G nodelist idx tr rc)
      (marginals G nodelist (master_rhs G nodelist idx tr rc p)).
Proof. intros W T. cbv zeta. destruct (wf_pb_wfb G W) as [A B]. apply (tree_exact_every_tree G _ _ ord tr rc A B T). Qed.
Lemma tree_pure_ic_simple_graph G ord tr rc : wf_graphb G = true -> tree_orderb G (gnodes G) ord = true ->
  let nodelist := gnodes G in let idx := pos_in (gnodes G) in
  forall s0, length s0 = nN nodelist ->
  let cuts := branch_cuts G nodelist in
  let master := master_rhs G nodelist idx tr rc in
  (nonneg nodelist (delta s0) /\ inMs nodelist cuts (delta s0)) /\
  (forall p, inMs nodelist cuts p -> forall c, In c cuts -> forall s1 s2,
     In s1 (slice nodelist (fst c)) -> In s2 (slice nodelist (fst c)) -> dminor nodelist (snd c) p (master p) s1 s2 == 0) /\
  (forall p t, nonneg nodelist p -> inMs nodelist cuts p ->
     veq (g_dSIR_pair_based (marginals G nodelist p) t G nodelist idx tr rc) (marginals G nodelist (master p))).
Proof.
  intros W T. cbv zeta. apply tree_pure_ic. apply (forest_accepted G ord W). apply tree_forest_order. exact T.
Qed.
