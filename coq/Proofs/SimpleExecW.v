(* Gillespie_simple_contagion: the weight tables never change during a run.  Every event leaves
   each slot's transition and get_weight dictionary in place ([same_frame]); hence at every loop
   head of every run the weight the bookkeeping uses for an actor ([wgt]) is the weight the
   SPECIFICATION gives it ([spec_weight]: 1, the weight_label attribute, or the rate_function's
   value), and the one-step law of Props/C03.v reads rate * spec_weight / total. *)
From EoNV Require Import Prelude Samp Graph ListDict ListDictP Gillespie KldP GillespieInv SampP Simple SimpleP
  SimpleExecS SimpleExec SimpleExecLog SimpleExecTop.
From Coq Require Import Permutation Lqa.

Section W.
Variable g : graph.
Hypothesis Hg : wfg2 g.

Lemma update_frames : forall s m new, SInv g s -> In m (gnodes g) ->
  forall sp' in',
  rmap (upd_spont m (s_stat s m) new) (s_sp s) = Ok sp' ->
  rmap (upd_induced g (fupdN (s_stat s) m new) m (s_stat s m) new) (s_in s) = Ok in' ->
  Forall2 same_frame (s_sp s) sp' /\ Forall2 same_frame (s_in s) in'.
Proof.
  intros s m new HI Hm sp' in' Esp Ein. split.
  - destruct (rmap_Forall2 (upd_spont m (s_stat s m) new) (sp_slot_ok g (s_stat s)) same_frame (s_sp s)) as [l' [E F]].
    + intros sl [Hok [Hfull Hag]].
      destruct (upd_spont_ok g (s_stat s) m new Hm sl Hok Hfull Hag) as [sl' [E [_ [Hf _]]]]. exists sl'. split; assumption.
    + apply (si_sp g s HI).
    + rewrite E in Esp. injection Esp as Esp. subst l'. exact F.
  - destruct (rmap_Forall2 (upd_induced g (fupdN (s_stat s) m new) m (s_stat s m) new) (in_slot_ok g (s_stat s)) same_frame (s_in s)) as [l' [E F]].
    + intros sl [Hok [Hfull Hag]].
      destruct (upd_induced_ok g Hg (s_stat s) m new Hm sl Hok Hfull Hag) as [sl' [E [_ [Hf _]]]]. exists sl'. split; assumption.
    + apply (si_in g s HI).
    + rewrite E in Ein. injection Ein as Ein. subst l'. exact F.
Qed.

Lemma apply_spont_frames : forall rstat full t tr s s' m,
  SInv g s -> In m (gnodes g) -> hd_status (tr_from tr) = s_stat s m ->
  apply_event g rstat full t true tr [m] s = Ok s' ->
  Forall2 same_frame (s_sp s) (s_sp s') /\ Forall2 same_frame (s_in s) (s_in s').
Proof.
  intros rstat full t tr s s' m HI Hm Eo H. unfold apply_event in H.
  cbn [keynode rbind] in H. rewrite Eo in H.
  destruct (rmap (upd_spont m (s_stat s m) (hd_status (tr_to tr))) (s_sp s)) as [sp'|e] eqn:Esp; [|discriminate H].
  cbn [rbind] in H.
  destruct (rmap (upd_induced g (fupdN (s_stat s) m (hd_status (tr_to tr))) m (s_stat s m) (hd_status (tr_to tr))) (s_in s)) as [in'|e] eqn:Ein; [|discriminate H].
  cbn [rbind] in H. injection H as H. subst s'. cbn [s_sp s_in].
  exact (update_frames s m _ HI Hm sp' in' Esp Ein).
Qed.

Lemma apply_induced_frames : forall rstat full t tr s s' u m,
  SInv g s -> In m (gnodes g) -> snd_status (tr_from tr) = s_stat s m ->
  apply_event g rstat full t false tr [u; m] s = Ok s' ->
  Forall2 same_frame (s_sp s) (s_sp s') /\ Forall2 same_frame (s_in s) (s_in s').
Proof.
  intros rstat full t tr s s' u m HI Hm Eo H. unfold apply_event in H.
  cbn [keypair rbind fst snd] in H. rewrite Eo in H.
  destruct (rmap (upd_spont m (s_stat s m) (snd_status (tr_to tr))) (s_sp s)) as [sp'|e] eqn:Esp; [|discriminate H].
  cbn [rbind] in H.
  destruct (rmap (upd_induced g (fupdN (s_stat s) m (snd_status (tr_to tr))) m (s_stat s m) (snd_status (tr_to tr))) (s_in s)) as [in'|e] eqn:Ein; [|discriminate H].
  cbn [rbind] in H. injection H as H. subst s'. cbn [s_sp s_in].
  exact (update_frames s m _ HI Hm sp' in' Esp Ein).
Qed.

Lemma step_frames : forall rstat tmax full t s l t1 s1, SInv g s -> step g rstat tmax full t s l t1 s1 ->
  Forall2 same_frame (s_sp s) (s_sp s1) /\ Forall2 same_frame (s_in s) (s_in s1).
Proof.
  intros rstat tmax full t s l t1 s1 HI [_ [d [i [a [sl [l0 [_ [_ [_ [Hn [_ [Hs [_ [Ef _]]]]]]]]]]]]]].
  unfold fire in Ef. cbn [fst snd] in Ef. unfold slots in Hn. rewrite Hn in Ef. revert Ef.
  destruct (Nat.ltb_spec i (length (s_sp s))) as [Hi|Hi]; intro Ef.
  - pose proof (nth_error_app_l _ _ _ _ Hi Hn) as Hin.
    pose proof (si_sp g s HI) as HF. rewrite Forall_forall in HF. destruct (HF sl Hin) as [_ [_ Hag]].
    destruct (sp_spec_some g (s_stat s) sl a (oQeq_not_none _ _ (Hag a) Hs)) as [u [Ea [Hu Hfrom]]].
    subst a. apply (apply_spont_frames rstat full t1 (sl_tr sl) s s1 u HI Hu); [|exact Ef].
    rewrite Hfrom. reflexivity.
  - pose proof (nth_error_app_r _ _ _ _ Hi Hn) as Hin.
    pose proof (si_in g s HI) as HF. rewrite Forall_forall in HF. destruct (HF sl Hin) as [_ [_ Hag]].
    destruct (in_spec_some g (s_stat s) sl a (oQeq_not_none _ _ (Hag a) Hs)) as [u [v [Ea [Hu [Hv Hfrom]]]]].
    assert (Hvn : In v (gnodes g)) by (apply (g_adj_in g Hg u v Hu Hv)).
    subst a. apply (apply_induced_frames rstat full t1 (sl_tr sl) s s1 u v HI Hvn); [|exact Ef].
    rewrite Hfrom. reflexivity.
Qed.

Lemma srun_frames : forall rstat tmax full t s l t' s', srun g rstat tmax full t s l t' s' -> SInv g s -> RInv g rstat s ->
  Forall2 same_frame (s_sp s) (s_sp s') /\ Forall2 same_frame (s_in s) (s_in s').
Proof.
  intros rstat tmax full t s l t' s' H. induction H as [t s|t s l1 t1 s1 l2 t2 s2 Hs Hr IH]; intros HI HR.
  - split; apply Forall2_same_frame_refl.
  - destruct (step_frames rstat tmax full t s l1 t1 s1 HI Hs) as [F1 F2].
    destruct (step_inv g Hg rstat tmax full t s l1 t1 s1 HI HR Hs) as [HI1 [HR1 _]].
    destruct (IH HI1 HR1) as [G1 G2].
    split; eapply Forall2_same_frame_trans; eassumption.
Qed.

Lemma frames_wgt : forall l l', Forall2 same_frame l l' ->
  forall sl', In sl' l' -> exists sl, In sl l /\ sl_tr sl' = sl_tr sl /\ forall k, wgt sl' k = wgt sl k.
Proof.
  intros l l' F. induction F as [|x y l l' Hxy _ IH]; intros sl' Hin; [destruct Hin|].
  destruct Hin as [E|Hin].
  - subst sl'. exists x. split; [left; reflexivity|]. split; [exact (proj1 Hxy)|]. intro k. apply (same_frame_wgt _ _ k Hxy).
  - destruct (IH sl' Hin) as [sl [H1 H2]]. exists sl. split; [right; exact H1|exact H2].
Qed.

(* every loop head of every run: the weights in use are the specification's *)
Theorem simple_exec_weights : forall ic rstat tmin tmax full sortable spont induced fuel ds out tr,
  Forall (sp_tr_ok g) spont -> Forall (in_tr_ok g) induced ->
  exec (simple g sortable spont induced ic rstat tmin tmax full fuel) ds [] = (Ok out, tr) ->
  exists sp inn l1 l2 t' s',
    tr = l1 ++ l2 /\ srun g rstat tmax full tmin (start g ic rstat tmin sp inn) l1 t' s' /\
    finish g ic rstat tmin full s' = Ok out /\
    forall l t s, srun g rstat tmax full tmin (start g ic rstat tmin sp inn) l t s ->
      (forall sl u, In sl (s_sp s) -> In u (gnodes g) -> wgt sl [u] = spec_weight g false (sl_tr sl) [u]) /\
      (forall sl u v, In sl (s_in s) -> In u (gnodes g) -> In v (gadj g u) -> wgt sl [u; v] = spec_weight g true (sl_tr sl) [u; v]).
Proof.
  intros ic rstat tmin tmax full sortable spont induced fuel ds out tr Hsp Hin H.
  destruct (simple_setup_inv g Hg sortable spont induced ic rstat tmin tmax full fuel Hsp Hin)
    as [sp [inn [Eq [HI [HR [E1 [E2 [W1 W2]]]]]]]].
  rewrite Eq in H. apply exec_reacht in H. destruct H as [l [Et Hr]]. cbn [rev app] in Et. subst l.
  destruct (loop_reacht g Hg ic rstat tmin tmax full fuel tmin _ tr out HI Hr) as [l1 [l2 [t' [s' [El [Hrun [_ Hfin]]]]]]].
  exists sp, inn, l1, l2, t', s'. split; [exact El|]. split; [exact Hrun|]. split; [exact Hfin|].
  intros l t s Hs. destruct (srun_frames rstat tmax full tmin _ l t s Hs HI HR) as [F1 F2].
  cbn [start s_sp s_in] in F1, F2. split.
  - intros sl u Hsl Hu. destruct (frames_wgt _ _ F1 sl Hsl) as [sl0 [H0 [Etr Ew]]].
    rewrite Ew, Etr. apply W1; assumption.
  - intros sl u v Hsl Hu Hv. destruct (frames_wgt _ _ F2 sl Hsl) as [sl0 [H0 [Etr Ew]]].
    rewrite Ew, Etr. apply W2; assumption.
Qed.

(* the one-step law at every loop head of every run, in the specification's own terms: the
   selection is a probability distribution over the enabled (transition, actor) pairs, each
   listed once, with mass rate * (the specification's weight of the actor) / total rate *)
Theorem simple_exec_law : forall ic rstat tmin tmax full sortable spont induced fuel ds out tr,
  Forall (sp_tr_ok g) spont -> Forall (in_tr_ok g) induced ->
  exec (simple g sortable spont induced ic rstat tmin tmax full fuel) ds [] = (Ok out, tr) ->
  exists sp inn l1 l2 t' s',
    tr = l1 ++ l2 /\ srun g rstat tmax full tmin (start g ic rstat tmin sp inn) l1 t' s' /\
    finish g ic rstat tmin full s' = Ok out /\
    forall l t s, srun g rstat tmax full tmin (start g ic rstat tmin sp inn) l t s -> 0 < total_rate s ->
      SInv g s /\ mass (law (select s)) == 1 /\ NoDup (map fst (law (select s))) /\
      forall i a q, In ((i, a), q) (law (select s)) ->
        exists sl, nth_error (slots s) i = Some sl /\ sabs sl a <> None /\
          q == tr_rate (sl_tr sl) * spec_weight g (negb (Nat.ltb i (length (s_sp s)))) (sl_tr sl) a / total_rate s.
Proof.
  intros ic rstat tmin tmax full sortable spont induced fuel ds out tr Hsp Hin H.
  destruct (simple_setup_inv g Hg sortable spont induced ic rstat tmin tmax full fuel Hsp Hin)
    as [sp [inn [Eq [HI [HR [E1 [E2 [W1 W2]]]]]]]].
  rewrite Eq in H. apply exec_reacht in H. destruct H as [l [Et Hr]]. cbn [rev app] in Et. subst l.
  destruct (loop_reacht g Hg ic rstat tmin tmax full fuel tmin _ tr out HI Hr) as [l1 [l2 [t' [s' [El [Hrun [_ Hfin]]]]]]].
  exists sp, inn, l1, l2, t', s'. split; [exact El|]. split; [exact Hrun|]. split; [exact Hfin|].
  intros l t s Hs Hpos.
  destruct (srun_inv g Hg rstat tmax full tmin _ l t s Hs HI HR) as [HIs _].
  destruct (srun_frames rstat tmax full tmin _ l t s Hs HI HR) as [F1 F2]. cbn [start s_sp s_in] in F1, F2.
  split; [exact HIs|]. split; [apply (select_mass_one g s HIs Hpos)|]. split; [apply (select_law_nodup g s HIs)|].
  intros i a q Hin'.
  destruct (select_law_sound g s i a q HIs Hpos Hin') as [sl [Hn [Ha Hq]]].
  exists sl. split; [exact Hn|]. split; [exact Ha|]. rewrite Hq.
  assert (Ew : wgt sl a = spec_weight g (negb (Nat.ltb i (length (s_sp s)))) (sl_tr sl) a); [|rewrite Ew; reflexivity].
  unfold slots in Hn. destruct (Nat.ltb_spec i (length (s_sp s))) as [Hi|Hi]; cbn [negb].
  - pose proof (nth_error_app_l _ _ _ _ Hi Hn) as Hsl.
    pose proof (si_sp g s HIs) as HF. rewrite Forall_forall in HF. destruct (HF sl Hsl) as [_ [_ Hag]].
    destruct (sp_spec_some g (s_stat s) sl a (oQeq_not_none _ _ (Hag a) Ha)) as [u [Ea [Hu _]]]. subst a.
    destruct (frames_wgt _ _ F1 sl Hsl) as [sl0 [H0 [Etr Ew]]]. rewrite Ew, Etr. apply W1; assumption.
  - pose proof (nth_error_app_r _ _ _ _ Hi Hn) as Hsl.
    pose proof (si_in g s HIs) as HF. rewrite Forall_forall in HF. destruct (HF sl Hsl) as [_ [_ Hag]].
    destruct (in_spec_some g (s_stat s) sl a (oQeq_not_none _ _ (Hag a) Ha)) as [u [v [Ea [Hu [Hv _]]]]]. subst a.
    destruct (frames_wgt _ _ F2 sl Hsl) as [sl0 [H0 [Etr Ew]]]. rewrite Ew, Etr. apply W2; assumption.
Qed.

End W.
