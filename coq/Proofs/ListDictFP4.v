(* _ListDict_ under rounded arithmetic, part 4: the tracked maximum stays an upper
   bound of every stored weight (so accept thresholds are probabilities) for a
   rounding that is idempotent (rounded values are representable) and monotone.
   These two properties hold for IEEE-754 round-to-nearest; they are hypotheses
   here (not proved for rnd53, see Props/C16f.v). *)
From EoNV Require Import Prelude Samp ListDict ListDictP ListDictF ListDictFP ListDictFP2.
From Coq Require Import Qabs Lqa Permutation.

Section FP4.
Variable K : Type.
Variable Keqb : K -> K -> bool.
Hypothesis Keqb_spec : forall a b, reflect (a = b) (Keqb a b).
Variable rnd : Q -> Q.
Variable eps : Q.
Hypothesis eps_nonneg : 0 <= eps.
Hypothesis eps_le1 : eps <= 1.
Hypothesis rnd_err : forall x, Qabs (rnd x - x) <= eps * Qabs x.
Hypothesis rnd_proper : forall x y, x == y -> rnd x == rnd y.
Hypothesis rnd_idem : forall x, rnd (rnd x) == rnd x.

Notation ld := (ld K).
Notation op := (op K).
Notation wread := (wread K).
Notation fupd := (fupd K Keqb).
Notation rep := (rep rnd).
Notation ldf_step := (ldf_step K Keqb rnd).
Notation ldf_run := (ldf_run K Keqb rnd).

Definition minv (s : ld) : Prop := forall k w, wt s k = Some w -> rep w /\ w <= maxw s.

Lemma rep_zero : rep 0.
Proof. apply (rnd_zero rnd eps rnd_err). Qed.

Lemma rep_wread : forall s k, minv s -> rep (wread s k).
Proof.
  intros s k Hm. unfold ListDict.wread. destruct (wt s k) as [w|] eqn:E.
  - apply (Hm k w E).
  - apply rep_zero.
Qed.

Lemma upd_minv : forall s k d s', weighted s = true -> minv s -> 0 <= d ->
  ldf_update K Keqb rnd s k (Some d) = Ok s' -> minv s'.
Proof.
  intros s k d s' Hw Hm Hd He. unfold ListDictF.ldf_update in He. rewrite Hw in He.
  cbv zeta in He. cbn [negb] in He.
  set (w0 := wread s k) in *. set (w1 := fadd rnd w0 d) in *.
  assert (Hr1 : rep w1) by (unfold w1, fadd; apply rnd_idem).
  assert (G : forall mw mc its p t, maxw s <= mw -> w1 <= mw ->
            minv (mkLD true its p (fupd (wt s) k (Some w1)) mw mc t)).
  { intros mw mc its p t H1 H2 x w. cbn [wt maxw]. unfold ListDict.fupd.
    destruct (Keqb x k).
    - intro H. injection H as H. subst w. split; assumption.
    - intro H. destruct (Hm x w H) as [Ha Hb]. split; [exact Ha|lra]. }
  destruct (Qltb 0 d || negb (Qeqb w0 (maxw s))) eqn:E.
  - destruct (Qltb (maxw s) w1) eqn:E1.
    + apply Qltb_true in E1.
      destruct (contains K s k); injection He as He; subst s'; apply G; lra.
    + apply Qltb_false in E1.
      destruct (Qeqb w1 (maxw s)); destruct (contains K s k); injection He as He; subst s';
        apply G; lra.
  - apply orb_false_iff in E. destruct E as [E1 E2]. apply Qltb_false in E1.
    apply negb_false_iff in E2. apply Qeqb_true in E2.
    assert (Ew : w1 == w0).
    { unfold w1, fadd. rewrite (rnd_proper (w0 + d) w0) by lra. apply rep_wread. exact Hm. }
    destruct (contains K s k); injection He as He; subst s'; apply G; lra.
Qed.

Lemma rem_minv : forall s k s', ldf_inv K s -> weighted s = true -> minv s ->
  ldf_remove K Keqb rnd s k = Ok s' -> minv s'.
Proof.
  intros s k s' Hinv Hw Hm He. rewrite ldf_remove_eq in He.
  destruct (pos s k) as [p|] eqn:Hp; [|discriminate He].
  destruct (rev (items s)) as [|last rest_rev] eqn:Hr; [discriminate He|].
  destruct (rm_lp K Keqb (struct_of K s) k p last rest_rev) as [its1 pos1] eqn:Hlp.
  destruct (rm_lp_spec K Keqb Keqb_spec (struct_of K s) k p last rest_rev its1 pos1
              (struct_inv K s Hinv) Hp Hr Hlp) as [Hperm _].
  cbn [struct_of items] in Hperm.
  unfold frm_tail in He. rewrite Hw in He.
  destruct (wt s k) as [w|] eqn:Hwk; [|discriminate He]. cbv zeta in He.
  assert (Hold : forall m, maxw s <= m -> forall x v, fupd (wt s) k None x = Some v -> rep v /\ v <= m).
  { intros m Hmm x v. unfold ListDict.fupd. destruct (Keqb x k); [intro H; discriminate H|].
    intro H. destruct (Hm x v H) as [Ha Hb]. split; [exact Ha|lra]. }
  destruct (Qeqb w (maxw s)).
  - destruct ((maxc s - 1 =? 0)%Z && negb (Nat.eqb (length its1) 0)).
    + unfold recompute_max in He. cbv zeta in He. injection He as He. subst s'.
      intros x v. cbn [wt maxw]. intro Hv. split.
      * revert Hv. unfold ListDict.fupd. destruct (Keqb x k); [intro H; discriminate H|].
        intro H. apply (Hm x v H).
      * assert (Hx : In x its1).
        { revert Hv. unfold ListDict.fupd. destruct (Keqb_spec x k) as [E|E]; intro Hv; [discriminate Hv|].
          assert (Hin : In x (items s)) by (apply (finv_dom K s Hinv Hw x); congruence).
          apply (Permutation_in x (Permutation_sym Hperm)) in Hin.
          destruct Hin as [Hin|Hin]; [exfalso; apply E; symmetry; exact Hin|exact Hin]. }
        apply list_max_ub. apply in_map_iff. exists x. split; [|exact Hx]. rewrite Hv. reflexivity.
    + injection He as He. subst s'. intros x v. cbn [wt maxw]. apply Hold. lra.
  - injection He as He. subst s'. intros x v. cbn [wt maxw]. apply Hold. lra.
Qed.

Let step_spec := ldf_step_spec K Keqb Keqb_spec rnd eps eps_nonneg eps_le1 rnd_err.
Let rem_spec := ldf_remove_spec K Keqb Keqb_spec rnd.

Lemma step_minv : forall s o s', ldf_inv K s -> weighted s = true -> op_ok K true o ->
  minv s -> ldf_step s o = Ok s' -> minv s'.
Proof.
  intros s o s' Hinv Hw Hok Hm He. destruct o as [k q|k d|k|k]; cbn [op_ok] in Hok;
    cbn [ListDictF.ldf_step] in He.
  - destruct Hok as [_ Hq]. unfold ListDictF.ldf_insert in He.
    destruct (contains K s k) eqn:Hc.
    + destruct (rem_spec s k Hinv Hw) as [[_ E]|[_ [s1 [E [Hi1 [Hw1 _]]]]]];
        rewrite E in He; cbn [rbind] in He; [discriminate He|].
      pose proof (rem_minv s k s1 Hinv Hw Hm E) as Hm1.
      destruct (Qeqb q 0); [injection He as He; subst s'; exact Hm1|].
      apply (upd_minv s1 k q s' Hw1 Hm1 Hq He).
    + cbn [rbind] in He. destruct (Qeqb q 0); [injection He as He; subst s'; exact Hm|].
      apply (upd_minv s k q s' Hw Hm Hq He).
  - destruct Hok as [_ Hd]. apply (upd_minv s k d s' Hw Hm Hd He).
  - apply (rem_minv s k s' Hinv Hw Hm He).
  - discriminate Hok.
Qed.

Theorem ldf_max_weight_bounds : forall ops s,
  Forall (op_ok K true) ops -> ldf_run (ld_empty true) ops = Ok s ->
  forall k, wread s k <= maxw s \/ wt s k = None.
Proof.
  intros ops s Hok He.
  assert (G : forall l s0 s1, ldf_inv K s0 -> weighted s0 = true -> minv s0 ->
            Forall (op_ok K true) l -> ldf_run s0 l = Ok s1 -> minv s1).
  { clear Hok He. intros l. induction l as [|o l IH]; intros s0 s1 Hinv Hw Hm Hok He.
    - cbn [ListDictF.ldf_run] in He. injection He as He. subst s1. exact Hm.
    - cbn [ListDictF.ldf_run] in He. inversion Hok as [|o' ops' Ho Hops]; subst o' ops'.
      destruct (step_spec s0 o Hinv Hw Ho) as [[k [_ [_ E]]]|[s2 [E [Hi2 [Hw2 _]]]]];
        rewrite E in He; cbn [rbind] in He; [discriminate He|].
      apply (IH s2 s1 Hi2 Hw2 (step_minv s0 o s2 Hinv Hw Ho Hm E) Hops He). }
  assert (Hm : minv s).
  { apply (G ops (ld_empty true) s (ldf_empty_inv K true) eq_refl); [|exact Hok|exact He].
    intros k w H. discriminate H. }
  intro k. unfold ListDict.wread. destruct (wt s k) as [w|] eqn:E; [left|right; reflexivity].
  apply (Hm k w E).
Qed.

(* with a monotone rounding that leaves 1 alone the accept threshold is a probability *)
Hypothesis rnd_mono : forall x y, x <= y -> rnd x <= rnd y.
Hypothesis rep_one : rnd 1 == 1.

Theorem ldf_threshold_le1 : forall ops s k,
  Forall (op_ok K true) ops -> ldf_run (ld_empty true) ops = Ok s -> 0 < maxw s ->
  0 <= ldf_threshold K rnd s k /\ ldf_threshold K rnd s k <= 1.
Proof.
  intros ops s k Hok He HM.
  destruct (ldf_run_inv K Keqb Keqb_spec rnd eps eps_nonneg eps_le1 rnd_err ops (ld_empty true) s
              (ldf_empty_inv K true) eq_refl (fun _ => eq_refl) Hok He) as [Hinv [Hw _]].
  pose proof (fwread_nonneg K s k Hinv Hw) as Hw0.
  assert (Hle : wread s k <= maxw s).
  { destruct (ldf_max_weight_bounds ops s Hok He k) as [H|H]; [exact H|].
    unfold ListDict.wread. rewrite H. lra. }
  assert (Hq0 : 0 <= wread s k / maxw s).
  { unfold Qdiv. apply Qmult_le_0_compat; [exact Hw0|]. apply Qlt_le_weak, Qinv_lt_0_compat, HM. }
  assert (Hq1 : wread s k / maxw s <= 1).
  { apply Qle_shift_div_r; [exact HM|]. lra. }
  unfold ldf_threshold, fdiv. split.
  - apply (rnd_nonneg rnd eps eps_le1 rnd_err). exact Hq0.
  - rewrite <- rep_one. apply rnd_mono. exact Hq1.
Qed.

End FP4.
