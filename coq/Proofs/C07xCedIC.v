(* C07: SIR_compact_effective_degree_from_graph on the rho path starts at the manifold point Phi_ced(theta = 1, R = 0)
   (phiS0 = 1 - rho, phiR0 = 0): at theta = 1 nobody is recovered, v = phi_R = 0, u = 1, and the binomial mixture
   S_kappa = N sum_k c_k C(k,kappa) u^kappa v^(k-kappa) collapses to N c_kappa = (1-rho) N_kappa. *)
From EoNV Require Import Prelude Graph Vec VecP Aux AuxP IC Wrappers ICP ICEbcm Pgf C07xPoly C07xHier C07xIC C07xCed Rhs.
From Coq Require Import Qpower Lqa Setoid Morphisms.

Local Notation pw x k := (qpow x (Z.of_nat k)).

Lemma binomial_nn n : binomial n n = 1%nat.
Proof. induction n as [|n IH]; [reflexivity|]. cbn [binomial]. rewrite IH, (binomial_gt n (S n)) by lia. reflexivity. Qed.
Lemma pw_zero_S v m : v == 0 -> pw v (S m) == 0.
Proof. intros E. rewrite pw_S, E. ring. Qed.
Lemma Tk_at_1 u v j i : u == 1 -> v == 0 -> Tk u v j i == if Nat.eqb j i then 1 else 0.
Proof.
  intros Eu Ev. unfold Tk. destruct (Nat.eqb j i) eqn:E.
  - apply Nat.eqb_eq in E. subst j. rewrite binomial_nn, Nat.sub_diag, pw_0, (pw_comp u 1 i Eu), pw_1. change (Qnat 1) with 1. ring.
  - apply Nat.eqb_neq in E. destruct (Nat.ltb j i) eqn:L.
    + apply Nat.ltb_lt in L. rewrite (binomial_gt j i L). change (Qnat 0) with 0. ring.
    + apply Nat.ltb_ge in L. replace (j - i)%nat with (S (j - S i)) by lia. rewrite (pw_zero_S v _ Ev). ring.
Qed.
Lemma csum_pick i cs : forall k,
  csum (fun j => if Nat.eqb j i then 1 else 0) cs k == if Nat.leb k i then nth (i - k) cs 0 else 0.
Proof.
  induction cs as [|a cs IH]; intros k; cbn [csum].
  - destruct (Nat.leb k i); [destruct (i - k)%nat; reflexivity|reflexivity].
  - rewrite IH. destruct (Nat.eqb k i) eqn:E.
    + apply Nat.eqb_eq in E. subst k. rewrite Nat.leb_refl, Nat.sub_diag. rewrite (proj2 (Nat.leb_gt (S i) i)) by lia. cbn [nth]. ring.
    + apply Nat.eqb_neq in E. destruct (Nat.leb k i) eqn:L.
      * apply Nat.leb_le in L. rewrite (proj2 (Nat.leb_le (S k) i)) by lia. replace (i - k)%nat with (S (i - S k)) by lia. cbn [nth]. ring.
      * apply Nat.leb_gt in L. rewrite (proj2 (Nat.leb_gt (S k) i)) by lia. ring.
Qed.

(* at theta = 1 with phiR0 = 0 the S_kappa block equals the S_k block *)
Lemma Skappa_at_1 c N tau gam : veq (pm_eval (Skappa_p c N tau gam 0) 1) (pm_eval (Sk_p c N) 1).
Proof.
  apply veq_of_nth.
  - unfold Skappa_p, Sk_p. rewrite !pm_eval_length, map_length, seq_length, Sk_from_length. reflexivity.
  - intros i Hi. unfold Skappa_p in Hi. rewrite pm_eval_length, map_length, seq_length in Hi.
    unfold Sk_p. rewrite nth_Sk_eval by exact Hi. cbn [plus]. rewrite pw_1.
    unfold Skappa_p, pm_eval. rewrite map_map.
    rewrite (nth_map_seq (fun x => peval (ced_sum N tau gam 0 x c 0) 1) (length c) i Hi).
    rewrite ced_val.
    destruct (uv_vals tau gam 0 1) as (Hv & Huv & _).
    assert (Ev : peval (phiR_p tau gam 0) 1 == 0) by (rewrite Hv; unfold Qdiv; ring).
    assert (Eu : peval (u_p tau gam 0) 1 == 1) by lra.
    rewrite (csum_ext _ (fun j => if Nat.eqb j i then 1 else 0)) by (intros j _; cbn [plus]; apply Tk_at_1; assumption).
    rewrite csum_pick. cbn [Nat.leb]. rewrite Nat.sub_0_r. ring.
Qed.

Section CedRho.
Variables (g : graph) (rho_opt : option Q).
Let r := rho_or_default g rho_opt.
Let rq := mkReq None None rho_opt.
Let N := gN g.
Let c := fg_coeffs g r.

Lemma vmuls_smul a x : vmuls a x = map (fun y => y * x) a. Proof. reflexivity. Qed.

(* SIR_compact_effective_degree_from_graph: started at Phi_ced(1, 0); its N (sum Skappa0 + I0 + R0) is G.order() *)
Lemma ced_fg_rho tau gam : wf_ugraph g = true -> ~ D c 1 == 0 ->
  exists Skappa0 I0 R0 SI0, (forall full sv,
    SIR_compact_effective_degree_from_graph g rq full sv = Ok (SIR_compact_effective_degree Skappa0 I0 R0 SI0 full sv)) /\
    veq (Skappa0 ++ [R0; SI0]) (Phi_ced c N tau gam (fg_phiS0 r) fg_phiR0 1 0) /\
    vsum Skappa0 + I0 + R0 == N.
Proof.
  intros WG Hc. destruct (wf_ugraph_nodes g WG) as [_ NE].
  exists (vmuls (Nk_of g) (1 - r)), (r * vsum (Nk_of g)), 0,
         (vsum (map (fun k => Qnat k * vnth k (vmuls (Nk_of g) (1 - r)) * r) (classes g))).
  split; [|split].
  - intros full sv. unfold SIR_compact_effective_degree_from_graph, rq. cbn [rq_rho rq_I rq_R isSome andb]. rewrite !andb_false_r.
    destruct (gnodes g) as [|x l] eqn:EG; [congruence|]. reflexivity.
  - unfold Phi_ced. apply veq_app.
    + unfold fg_phiR0. etransitivity; [|apply veq_sym, Skappa_at_1]. etransitivity; [|apply (Sk0_on_manifold g r WG)].
      apply veq_of_nth; [rewrite vmuls_length, smul_length; reflexivity|].
      intros i Hi. rewrite vmuls_length in Hi. rewrite nth_vmuls, nth_smul by exact Hi. ring.
    + constructor; [reflexivity|]. constructor; [|constructor].
      pose proof (SX0_on_manifold g r WG) as HX. fold c N in HX.
      rewrite SI_val. unfold fg_phiS0, fg_phiR0.
      setoid_replace ((1 - r) * D c 1 / D c 1) with (1 - r) by (field; exact Hc).
      setoid_replace (N * D c 1 * (1 - (1 - r) - (0 + gam / tau * (1 - 1)))) with (r * (N * D c 1)) by (unfold Qdiv; ring).
      rewrite <- HX. unfold dot, ksv, classes, arange.
      replace (length (Nk_of g)) with (S (gmaxdeg g)) by (unfold Nk_of; rewrite byclass_length; reflexivity).
      assert (HL : length (smul (1 - r) (Nk_of g)) = S (gmaxdeg g)) by (rewrite smul_length; unfold Nk_of; rewrite byclass_length; reflexivity).
      set (Sk := smul (1 - r) (Nk_of g)) in *.
      assert (Hmap : veq (vmul Sk (map Qnat (seq 0 (S (gmaxdeg g))))) (map (fun k => nth k Sk 0 * Qnat k) (seq 0 (S (gmaxdeg g))))).
      { apply veq_of_nth; [rewrite vmul_length, !map_length, seq_length, HL; lia|].
        intros i Hi. rewrite vmul_length, map_length, seq_length, HL in Hi.
        rewrite nth_vmul by (rewrite ?map_length, ?seq_length, ?HL; lia).
        rewrite (nth_map_seq Qnat _ i) by lia. rewrite (nth_map_seq (fun k => nth k Sk 0 * Qnat k) _ i) by lia. reflexivity. }
      rewrite (vsum_veq _ _ Hmap). unfold vsum. rewrite <- (ICP.sumQ_map_scal r).
      apply ICP.sumQ_map_ext. intros k Hk. apply in_seq in Hk. unfold vnth, Sk.
      rewrite nth_vmuls, nth_smul by (unfold Nk_of; rewrite byclass_length; lia). ring.
  - rewrite vsum_vmuls, (Nk_sum g). unfold N. ring.
Qed.
End CedRho.
