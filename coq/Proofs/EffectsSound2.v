(* C19 — soundness of the effect checker of Model/Effects.v, part 2: preservation of
   the abstraction invariant by statements (induction on the execution; SLoop by the
   checked post-fixpoint, SCall by the depth fuel of the inlined callee) and the
   theorem [safe_sound]. *)
From Coq Require Import List NArith PArith Bool String Lia Arith FSets.FSetPositive SetoidList.
Require Import EoNV.Model.Effects EoNV.Proofs.EffectsP EoNV.Proofs.EffectsSound.
Import ListNotations.

(* ------------------------------------------------- unfolding equations of chk *)
Lemma chk_0 : forall p H s E, chk p H 0 s E = None.
Proof. reflexivity. Qed.
Lemma chk_skip : forall p H d E, chk p H (S d) SSkip E = Some (E, []).
Proof. reflexivity. Qed.
Lemma chk_assign : forall p H d x e E,
  chk p H (S d) (SAssign x e) E =
  match eval_expr H E e with Some v => Some (aset E x v, []) | None => None end.
Proof. reflexivity. Qed.
Lemma chk_write : forall p H d ln x f ys E,
  chk p H (S d) (SWrite ln x f ys) E =
  if store_ok H f (alook E x) (alooks E ys)
  then Some (E, map (fun q => (ln, q)) (taint H (alook E x))) else None.
Proof. reflexivity. Qed.
Lemma chk_seq : forall p H d a b E,
  chk p H (S d) (SSeq a b) E =
  match chk p H (S d) a E with
  | Some (E1, v1) =>
    match chk p H (S d) b E1 with Some (E2, v2) => Some (E2, v1 ++ v2) | None => None end
  | None => None
  end.
Proof. reflexivity. Qed.
Lemma chk_if : forall p H d a b E,
  chk p H (S d) (SIf a b) E =
  match chk p H (S d) a E, chk p H (S d) b E with
  | Some (E1, v1), Some (E2, v2) => Some (aenv_join E1 E2, v1 ++ v2)
  | _, _ => None
  end.
Proof. reflexivity. Qed.
Lemma chk_loop : forall p H d b E,
  chk p H (S d) (SLoop b) E =
  match loop_inv (chk p H (S d) b) LOOPFUEL E with
  | Some (Ei, v) => if aenv_leq E Ei then Some (Ei, v) else None
  | None => None
  end.
Proof. reflexivity. Qed.
Lemma chk_call : forall p H d x f args E,
  chk p H (S d) (SCall x f args) E =
  match find_fun p f with
  | Some fd =>
    match bind_params (fn_params fd) (map (alook E) args) with
    | Some E0 =>
      match chk p H d (fn_body fd) E0 with
      | Some (E1, v) => Some (aset E x (alook E1 ret_var), v)
      | None => None
      end
    | None => None
    end
  | None => None
  end.
Proof. reflexivity. Qed.

(* what an accepted loop guarantees: the body was checked AT the invariant Ei, its
   result is below Ei, and its violations are the reported ones *)
Lemma loop_inv_spec : forall f k E Ei v,
  loop_inv f k E = Some (Ei, v) -> exists E1, f Ei = Some (E1, v) /\ aenv_leq E1 Ei = true.
Proof.
  intros f k. induction k as [|k IH]; intros E Ei v Hl; cbn [loop_inv] in Hl.
  - destruct (f E) as [[E1 v1]|] eqn:Hf; [|discriminate Hl].
    destruct (aenv_leq E1 E) eqn:Hle; [|discriminate Hl].
    injection Hl as <- <-. exists E1. split; assumption.
  - destruct (f E) as [[E1 v1]|] eqn:Hf; [|discriminate Hl].
    destruct (aenv_leq E1 E) eqn:Hle.
    + injection Hl as <- <-. exists E1. split; assumption.
    + exact (IH _ _ _ Hl).
Qed.

Lemma loop_inv_at_fix : forall f k Ei E1 v,
  f Ei = Some (E1, v) -> aenv_leq E1 Ei = true -> loop_inv f k Ei = Some (Ei, v).
Proof.
  intros f k Ei E1 v Hf Hle. destruct k; cbn [loop_inv]; rewrite Hf, Hle; reflexivity.
Qed.

(* ------------------------------------------------------------ the invariant *)
Record Inv (n0 : loc) (R : region) (b0 : loc -> loc) (H : aheap) (st : state) (E : aenv) : Prop := mkInv {
  Inv_env : inv_env n0 R (st_heap st) (st_env st) E;
  Inv_heap : inv_heap n0 R H (st_heap st);
  Inv_bt : inv_bt n0 R b0 H (st_heap st);
  Inv_base : inv_base n0 b0 (st_heap st);
  Inv_next : (n0 <= next (st_heap st))%nat }.

(* every logged location that existed before the call is the buffer of an object in
   the region of a parameter q for which V has an entry (source line, q) *)
Definition log_ok (n0 : loc) (R : region) (b0 : loc -> loc) (V : viol) (st : state) : Prop :=
  forall m, In m (st_log st) -> (m < n0)%nat ->
  exists ln q l, In (ln, q) V /\ R q l /\ m = b0 l.

Lemma Inv_aleq : forall n0 R b0 H st E F, aleq E F -> Inv n0 R b0 H st E -> Inv n0 R b0 H st F.
Proof.
  intros n0 R b0 H st E F Hl [He Hh Hb Hbs Hn]. constructor; try assumption.
  exact (inv_env_aleq n0 R _ _ E F Hl He).
Qed.

(* binding of the parameters of an inlined callee *)
Lemma bind_sound : forall n0 R h e E ps args ls e0 E0,
  inv_env n0 R h e E ->
  Forall2 (fun a l => e a = Some l) args ls ->
  bind_locs ps ls = Some e0 -> bind_params ps (map (alook E) args) = Some E0 ->
  inv_env n0 R h e0 E0.
Proof.
  intros n0 R h e E ps. induction ps as [|[x nm] ps IH]; intros args ls e0 E0 He Hf Hl Hp.
  - destruct ls; [|discriminate Hl]. cbn [bind_locs] in Hl. injection Hl as <-.
    intros z m Hz. discriminate Hz.
  - destruct Hf as [|a l args ls Hal Hf]; [discriminate Hl|].
    cbn [bind_locs] in Hl. cbn [map bind_params] in Hp.
    destruct (bind_locs ps ls) as [e1|] eqn:Hl1; [|discriminate Hl].
    destruct (bind_params ps (map (alook E) args)) as [E1|] eqn:Hp1; [|discriminate Hp].
    injection Hl as <-. injection Hp as <-.
    destruct (He a l Hal) as [Hlt [b [Hb Hg]]].
    apply (inv_env_upd n0 R h e1 E1 x l (alook E a) b); try assumption.
    exact (IH args ls e1 E1 He Hf Hl1 Hp1).
Qed.

(* --------------------------------------------------------------- statements *)
(* x[..] = ys: the target may be an object created during the call (the stored
   references are recorded under its site) or one that existed before (they are
   recorded in [po H]) *)
Lemma write_sound : forall n0 R b0 H h h' e E x f ys l,
  inv_env n0 R h e E -> inv_heap n0 R H h -> inv_bt n0 R b0 H h -> inv_base n0 b0 h ->
  e x = Some l -> site_of h l <> LEAF_SITE -> write_rel h h' e l f ys ->
  store_ok H f (alook E x) (alooks E ys) = true ->
  ext h h' /\ inv_heap n0 R H h' /\ inv_bt n0 R b0 H h' /\ inv_base n0 b0 h' /\ next h' = next h.
Proof.
  intros n0 R b0 H h h' e E x f ys l He Hh Hbt Hb0 Hx Hnl [Hnext [Hsites [Hbases [Hkeep Hnew]]]] Hst.
  assert (Hext : ext h h').
  { split; [lia|]. intros m _. apply Hsites. }
  assert (Hgam : forall a k, gamma n0 R h a k -> gamma n0 R h' a k).
  { intros a k Hg. destruct a as [p|p|]; cbn [gamma] in *; [exact Hg| |exact Hg].
    rewrite Hsites. exact Hg. }
  assert (Hdes : forall S k, descr n0 R h S k -> descr n0 R h' S k).
  { intros S k [[a [Ha Hg]]|Hg]; [left; exists a; split; [exact Ha|exact (Hgam a k Hg)]|right; exact (Hgam _ k Hg)]. }
  assert (Hold : forall m g k, kids h m g k ->
    ((m < next h')%nat /\ (k < next h')%nat) /\
    ((m < n0)%nat -> ((k < n0)%nat /\ forall q, R q m -> R q k) \/
                     descr n0 R h' (fm_look (po H) g) k) /\
    ((n0 <= m)%nat -> descr n0 R h' (hp_look (hp H) (site_of h' m) g) k)).
  { intros m g k Hk. rewrite Hnext, Hsites. destruct (Hh m g k Hk) as [Hlt [Ho Hn]].
    split; [exact Hlt|]. split.
    - intros Hm. destruct (Ho Hm) as [Hcl|Hd]; [left; exact Hcl|right; exact (Hdes _ k Hd)].
    - intros Hge. exact (Hdes _ k (Hn Hge)). }
  split; [exact Hext|]. split; [|split; [|split; [|exact Hnext]]].
  - intros m g k Hk. destruct (Nat.eq_dec m l) as [->|Hml].
    + destruct (Hnew g k Hk) as [Hk0|[-> [y [Hy Hey]]]]; [exact (Hold l g k Hk0)|].
      destruct (He x l Hx) as [Hl [a [Ha Hg]]]. destruct (He y k Hey) as [Hkn [c [Hc Hgc]]].
      unfold store_ok in Hst. cbn zeta in Hst.
      pose proof (forallb_aelems _ _ a Hst Ha) as Hsub. cbn beta in Hsub.
      pose proof (alooks_in E ys y c Hy Hc) as Hcv.
      rewrite Hnext. split; [lia|].
      destruct a as [q|q|]; cbn [gamma] in Hg; [| |destruct Hg].
      * destruct Hg as [Hlo _]. split; [|intros Hge; lia]. intros _. right.
        exact (descr_noleaf n0 R h' _ _ c k Hcv (Hgam c k Hgc) Hsub).
      * destruct Hg as [Hge Hs]. split; [intros Hlt; lia|]. intros _.
        rewrite Hsites, Hs. rewrite Hs in Hnl. apply N.eqb_neq in Hnl. rewrite Hnl in Hsub.
        exact (descr_noleaf n0 R h' _ _ c k Hcv (Hgam c k Hgc) Hsub).
    + apply Hkeep in Hk; [|exact Hml]. exact (Hold m g k Hk).
  - intros m Hge Hm Hb. rewrite Hsites. rewrite Hbases in Hb. rewrite Hbases. rewrite Hnext in Hm. exact (Hbt m Hge Hm Hb).
  - intros m Hm. rewrite Hbases. exact (Hb0 m Hm).
Qed.

Lemma log_ok_incl : forall n0 R b0 V W st, incl V W -> log_ok n0 R b0 V st -> log_ok n0 R b0 W st.
Proof.
  intros n0 R b0 V W st Hi Hl m Hm Hlt. destruct (Hl m Hm Hlt) as [ln [q [l [Hin Hr]]]].
  exists ln, q, l. split; [exact (Hi _ Hin)|exact Hr].
Qed.

(* The main induction.  V is any superset of the violations the checker reports for
   the statement (the report of the enclosing function). *)
Theorem exec_sound : forall p H n0 R b0 s st o st',
  exec p s st o st' ->
  forall d E E' v V, chk p H d s E = Some (E', v) -> incl v V ->
  Inv n0 R b0 H st E -> log_ok n0 R b0 V st ->
  log_ok n0 R b0 V st' /\ (o = Normal -> Inv n0 R b0 H st' E' /\ ext (st_heap st) (st_heap st')).
Proof.
  intros p H n0 R b0 s st o st' Hex.
  induction Hex as
    [s st
    |st
    |x e st h' l Hev
    |ln x f ys st l h' Hx Hnl Hw
    |a b st st1 o st2 Ha IHa Hb IHb
    |a b st st1 Ha IHa
    |a b st o st1 Ha IHa
    |a b st o st1 Hb IHb
    |b st
    |b st st1 o st2 Hb IHb Hl IHl
    |b st st1 Hb IHb
    |x f args st fd ls e0 st1 Hfind Hargs Hbind Hbody IHbody
    |x f args st fd ls e0 st1 Hfind Hargs Hbind Hbody IHbody];
    intros d E E' v V Hc HV Hinv Hlog; (destruct d as [|d]; [rewrite chk_0 in Hc; discriminate Hc|]).
  - (* abort *) split; [exact Hlog|discriminate].
  - (* skip *) rewrite chk_skip in Hc. injection Hc as <- <-. split; [exact Hlog|]. intros _. split; [exact Hinv|apply ext_refl].
  - (* assign *)
    rewrite chk_assign in Hc. destruct (eval_expr H E e) as [w|] eqn:Hv; [|discriminate Hc]. injection Hc as <- <-.
    destruct Hinv as [He Hh Hbt Hb0 Hn].
    destruct (eval_sound n0 R b0 H _ _ E e h' l Hev w Hv He Hh Hbt Hb0 Hn) as [Hext [Hh' [Hbt' [Hb0' [Hl [a [Ha Hg]]]]]]].
    split; [exact Hlog|]. intros _. split; [|exact Hext].
    constructor; cbn [st_env st_heap]; try assumption.
    + apply (inv_env_upd n0 R h' _ E x l w a); try assumption. exact (inv_env_ext n0 R _ h' _ E Hext He).
    + destruct Hext. lia.
  - (* write *)
    rewrite chk_write in Hc.
    destruct (store_ok H f (alook E x) (alooks E ys)) eqn:Hst; [|discriminate Hc].
    injection Hc as <- <-.
    destruct Hinv as [He Hh Hbt Hb0 Hn].
    destruct (write_sound n0 R b0 H _ h' _ E x f ys l He Hh Hbt Hb0 Hx Hnl Hw Hst) as [Hext [Hh' [Hbt' [Hb0' Hnx]]]].
    split.
    + intros m Hm Hlt. cbn [st_log] in Hm. destruct Hm as [<-|Hm]; [|exact (Hlog m Hm Hlt)].
      destruct (write_attr n0 R b0 H _ _ E x l He Hbt Hb0 Hx Hlt) as [q [l' [Hq [Hr Hbl]]]].
      exists ln, q, l'. split; [|split; assumption].
      apply HV. apply in_map_iff. exists q. split; [reflexivity|exact Hq].
    + intros _. split; [|exact Hext]. constructor; cbn [st_env st_heap]; try assumption.
      * exact (inv_env_ext n0 R _ h' _ E Hext He).
      * rewrite Hnx. exact Hn.
  - (* seq *)
    rewrite chk_seq in Hc.
    destruct (chk p H (S d) a E) as [[E1 v1]|] eqn:Hca; [|discriminate Hc].
    destruct (chk p H (S d) b E1) as [[E2 v2]|] eqn:Hcb; [|discriminate Hc].
    injection Hc as <- <-. apply incl_app_inv in HV. destruct HV as [HV1 HV2].
    destruct (IHa _ _ _ _ _ Hca HV1 Hinv Hlog) as [Hlog1 Hn1]. destruct (Hn1 eq_refl) as [Hinv1 Hext1].
    destruct (IHb _ _ _ _ _ Hcb HV2 Hinv1 Hlog1) as [Hlog2 Hn2]. split; [exact Hlog2|].
    intros Ho. destruct (Hn2 Ho) as [Hinv2 Hext2]. split; [exact Hinv2|exact (ext_trans _ _ _ Hext1 Hext2)].
  - (* seq, first part aborts *)
    rewrite chk_seq in Hc.
    destruct (chk p H (S d) a E) as [[E1 v1]|] eqn:Hca; [|discriminate Hc].
    destruct (chk p H (S d) b E1) as [[E2 v2]|] eqn:Hcb; [|discriminate Hc].
    injection Hc as <- <-. apply incl_app_inv in HV. destruct HV as [HV1 HV2].
    destruct (IHa _ _ _ _ _ Hca HV1 Hinv Hlog) as [Hlog1 _]. split; [exact Hlog1|discriminate].
  - (* if, left *)
    rewrite chk_if in Hc.
    destruct (chk p H (S d) a E) as [[E1 v1]|] eqn:Hca; [|discriminate Hc].
    destruct (chk p H (S d) b E) as [[E2 v2]|] eqn:Hcb; [|discriminate Hc].
    injection Hc as <- <-. apply incl_app_inv in HV. destruct HV as [HV1 HV2].
    destruct (IHa _ _ _ _ _ Hca HV1 Hinv Hlog) as [Hlog1 Hn1]. split; [exact Hlog1|].
    intros Ho. destruct (Hn1 Ho) as [Hinv1 Hext1]. split; [|exact Hext1].
    exact (Inv_aleq n0 R b0 H _ E1 _ (aenv_join_l E1 E2) Hinv1).
  - (* if, right *)
    rewrite chk_if in Hc.
    destruct (chk p H (S d) a E) as [[E1 v1]|] eqn:Hca; [|discriminate Hc].
    destruct (chk p H (S d) b E) as [[E2 v2]|] eqn:Hcb; [|discriminate Hc].
    injection Hc as <- <-. apply incl_app_inv in HV. destruct HV as [HV1 HV2].
    destruct (IHb _ _ _ _ _ Hcb HV2 Hinv Hlog) as [Hlog1 Hn1]. split; [exact Hlog1|].
    intros Ho. destruct (Hn1 Ho) as [Hinv1 Hext1]. split; [|exact Hext1].
    exact (Inv_aleq n0 R b0 H _ E2 _ (aenv_join_r E1 E2) Hinv1).
  - (* loop, zero iterations *)
    rewrite chk_loop in Hc.
    destruct (loop_inv (chk p H (S d) b) LOOPFUEL E) as [[Ei w]|] eqn:Hli; [|discriminate Hc].
    destruct (aenv_leq E Ei) eqn:Hle; [|discriminate Hc]. injection Hc as <- <-.
    split; [exact Hlog|]. intros _. split; [|apply ext_refl].
    exact (Inv_aleq n0 R b0 H _ E Ei (aenv_leq_aleq _ _ Hle) Hinv).
  - (* loop, one more iteration *)
    rewrite chk_loop in Hc.
    destruct (loop_inv (chk p H (S d) b) LOOPFUEL E) as [[Ei w]|] eqn:Hli; [|discriminate Hc].
    destruct (aenv_leq E Ei) eqn:Hle; [|discriminate Hc]. injection Hc as <- <-.
    destruct (loop_inv_spec _ _ _ _ _ Hli) as [E1 [Hcb Hle1]].
    pose proof (Inv_aleq n0 R b0 H _ E Ei (aenv_leq_aleq _ _ Hle) Hinv) as Hinvi.
    destruct (IHb _ _ _ _ _ Hcb HV Hinvi Hlog) as [Hlog1 Hn1]. destruct (Hn1 eq_refl) as [Hinv1 Hext1].
    pose proof (Inv_aleq n0 R b0 H _ E1 Ei (aenv_leq_aleq _ _ Hle1) Hinv1) as Hinv1i.
    assert (Hcl : chk p H (S d) (SLoop b) Ei = Some (Ei, w)).
    { rewrite chk_loop, (loop_inv_at_fix _ LOOPFUEL Ei E1 w Hcb Hle1), aenv_leq_refl. reflexivity. }
    destruct (IHl _ _ _ _ _ Hcl HV Hinv1i Hlog1) as [Hlog2 Hn2]. split; [exact Hlog2|].
    intros Ho. destruct (Hn2 Ho) as [Hinv2 Hext2]. split; [exact Hinv2|exact (ext_trans _ _ _ Hext1 Hext2)].
  - (* loop, the body aborts *)
    rewrite chk_loop in Hc.
    destruct (loop_inv (chk p H (S d) b) LOOPFUEL E) as [[Ei w]|] eqn:Hli; [|discriminate Hc].
    destruct (aenv_leq E Ei) eqn:Hle; [|discriminate Hc]. injection Hc as <- <-.
    destruct (loop_inv_spec _ _ _ _ _ Hli) as [E1 [Hcb Hle1]].
    pose proof (Inv_aleq n0 R b0 H _ E Ei (aenv_leq_aleq _ _ Hle) Hinv) as Hinvi.
    destruct (IHb _ _ _ _ _ Hcb HV Hinvi Hlog) as [Hlog1 _]. split; [exact Hlog1|discriminate].
  - (* call *)
    rewrite chk_call, Hfind in Hc.
    destruct (bind_params (fn_params fd) (map (alook E) args)) as [E0|] eqn:Hbp; [|discriminate Hc].
    destruct (chk p H d (fn_body fd) E0) as [[E1 w]|] eqn:Hcb; [|discriminate Hc].
    injection Hc as <- <-.
    destruct Hinv as [He Hh Hbt Hb0 Hn].
    assert (Hinv0 : Inv n0 R b0 H (mkst e0 (st_heap st) (st_log st)) E0).
    { constructor; cbn [st_env st_heap]; try assumption.
      exact (bind_sound n0 R _ _ E _ args ls e0 E0 He Hargs Hbind Hbp). }
    destruct (IHbody _ _ _ _ _ Hcb HV Hinv0 Hlog) as [Hlog1 Hn1]. split; [exact Hlog1|].
    intros _. destruct (Hn1 eq_refl) as [[He1 Hh1 Hbt1 Hb01 Hnx1] Hext1]. cbn [st_heap] in Hext1.
    split; [|exact Hext1]. constructor; cbn [st_env st_heap]; try assumption.
    pose proof (inv_env_ext n0 R _ _ _ E Hext1 He) as He'.
    destruct (st_env st1 ret_var) as [lr|] eqn:Hret.
    + destruct (He1 ret_var lr Hret) as [Hlr [a [Ha Hg]]].
      exact (inv_env_upd n0 R _ _ E x lr _ a He' Hlr Ha Hg).
    + intros z m Hz. unfold upd in Hz. rewrite alook_aset, (N.eqb_sym x z).
      destruct (z =? x); [discriminate Hz|exact (He' z m Hz)].
  - (* call, the callee aborts *)
    rewrite chk_call, Hfind in Hc.
    destruct (bind_params (fn_params fd) (map (alook E) args)) as [E0|] eqn:Hbp; [|discriminate Hc].
    destruct (chk p H d (fn_body fd) E0) as [[E1 w]|] eqn:Hcb; [|discriminate Hc].
    injection Hc as <- <-.
    destruct Hinv as [He Hh Hbt Hb0 Hn].
    assert (Hinv0 : Inv n0 R b0 H (mkst e0 (st_heap st) (st_log st)) E0).
    { constructor; cbn [st_env st_heap]; try assumption.
      exact (bind_sound n0 R _ _ E _ args ls e0 E0 He Hargs Hbind Hbp). }
    destruct (IHbody _ _ _ _ _ Hcb HV Hinv0 Hlog) as [Hlog1 _]. split; [exact Hlog1|discriminate].
Qed.

(* ------------------------------------------------------------ initial states *)
(* the region of parameter q: what was reachable from the object bound to q when the
   call started *)
Definition region_of (st : state) : region :=
  fun q l => exists l0, st_env st q = Some l0 /\ reach (st_heap st) l0 l.

Lemma alook_entry_env : forall (ps : list (var * string)) x nm,
  In (x, nm) ps ->
  alook (fold_right (fun (xn : var * string) E => aset E (fst xn) (asingle (AParam (fst xn)))) [] ps) x = asingle (AParam x).
Proof.
  induction ps as [|[y ny] ps IH]; intros x nm Hin; [destruct Hin|].
  cbn [fold_right fst]. rewrite alook_aset. destruct (N.eqb_spec y x) as [->|Hne]; [reflexivity|].
  destruct Hin as [Heq|Hin]; [injection Heq as -> _; contradiction|]. exact (IH x nm Hin).
Qed.

Lemma initial_Inv : forall H fd n0 st V, initial fd n0 st ->
  Inv n0 (region_of st) (base (st_heap st)) H st (entry_env fd) /\
  log_ok n0 (region_of st) (base (st_heap st)) V st.
Proof.
  intros H fd n0 st V [Hnext [Hlog [Henv [Hkids Hbase]]]]. split.
  - constructor.
    + intros x l Hx. destruct (Henv x l Hx) as [Hlt [nm Hin]]. split; [lia|].
      exists (AParam x). unfold entry_env. rewrite (alook_entry_env _ x nm Hin).
      split; [apply asingle_in|]. cbn [gamma AParam]. split; [exact Hlt|].
      rewrite N.pos_pred_succ. exists l. split; [exact Hx|apply reach_refl].
    + intros l g k Hk. destruct (Hkids l g k Hk) as [Hl Hkn]. split; [lia|]. split; [|lia].
      intros _. left. split; [exact Hkn|]. intros q [l0 [Hq Hr]]. exists l0. split; [exact Hq|].
      exact (reach_step _ l0 l g k Hr Hk).
    + intros l Hge Hlt. lia.
    + intros l _. reflexivity.
    + lia.
  - intros m Hm. rewrite Hlog in Hm. destruct Hm.
Qed.

(* ------------------------------------------------------------- the theorems *)
(* ATTRIBUTION.  If the analysis of fd ends with the report v then, in every execution
   of fd's body (and every prefix: [ex_abort]) from any initial state, every logged
   write to storage that existed before the call hits the buffer of an object that was
   reachable, when the call started, from a parameter q that the report names
   (with some source line). *)
Theorem analyse_sound : forall p fd n0 st o st' v,
  analyse p fd = Some v -> initial fd n0 st -> exec p (fn_body fd) st o st' ->
  forall m, In m (st_log st') -> (m < n0)%nat ->
  exists ln q l0 l, In (ln, q) v /\ st_env st q = Some l0 /\ reach (st_heap st) l0 l /\
                    m = base (st_heap st) l.
Proof.
  intros p fd n0 st o st' v Han Hinit Hex m Hm Hlt.
  unfold analyse in Han.
  set (H := infer_fix p DEPTH (fn_body fd) (entry_env fd) HEAPFUEL (mkheap [] [] [])) in Han.
  destruct (chk p H DEPTH (fn_body fd) (entry_env fd)) as [[E' w]|] eqn:Hc; [|discriminate Han].
  injection Han as ->.
  destruct (initial_Inv H fd n0 st v Hinit) as [Hinv Hlog].
  destruct (exec_sound p H n0 _ _ _ _ _ _ Hex DEPTH _ _ _ v Hc (incl_refl v) Hinv Hlog) as [Hlog' _].
  destruct (Hlog' m Hm Hlt) as [ln [q [l [Hin [[l0 [Hq Hr]] Hb]]]]].
  exists ln, q, l0, l. repeat split; assumption.
Qed.

(* SAFETY.  If the checker accepts fd (empty report) then, in every execution of fd's
   body (and in every prefix of one) from any initial state, every logged write is to
   storage created during the call. *)
Theorem safe_sound : forall p fd n0 st o st',
  safe p fd = true -> initial fd n0 st -> exec p (fn_body fd) st o st' ->
  forall l, In l (st_log st') -> (n0 <= l)%nat.
Proof.
  intros p fd n0 st o st' Hsafe Hinit Hex l Hl.
  unfold safe in Hsafe. destruct (analyse p fd) as [[|? ?]|] eqn:Han; try discriminate Hsafe.
  destruct (Nat.lt_ge_cases l n0) as [Hlt|Hge]; [|exact Hge].
  destruct (analyse_sound p fd n0 st o st' [] Han Hinit Hex l Hl Hlt) as [ln [q [l0 [l' [Hin _]]]]].
  destruct Hin.
Qed.

(* The fuel.  The checker never answers "safe" because it ran out of depth fuel: a
   check at depth 0 fails, and an accepted call has checked the callee's body with
   the remaining fuel, so acceptance of an entry point means that every chain of
   inlined calls ended before the fuel did.  (A recursive function is rejected: see
   the Example in Props/C19.v.) *)
Lemma chk_call_inv : forall p H d x f args E r,
  chk p H (S d) (SCall x f args) E = Some r ->
  exists fd E0 E1 v, find_fun p f = Some fd /\
    bind_params (fn_params fd) (map (alook E) args) = Some E0 /\
    chk p H d (fn_body fd) E0 = Some (E1, v) /\ r = (aset E x (alook E1 ret_var), v).
Proof.
  intros p H d x f args E r Hc. rewrite chk_call in Hc.
  destruct (find_fun p f) as [fd|]; [|discriminate Hc].
  destruct (bind_params (fn_params fd) (map (alook E) args)) as [E0|] eqn:Hbp; [|discriminate Hc].
  destruct (chk p H d (fn_body fd) E0) as [[E1 v]|] eqn:Hcb; [|discriminate Hc].
  injection Hc as <-. exists fd, E0, E1, v. repeat split; assumption.
Qed.

Lemma out_of_fuel_unsafe : forall p fd H,
  chk p H 0 (fn_body fd) (entry_env fd) = None.
Proof. intros. apply chk_0. Qed.

(* --------------------------------------- from the generated obligation to [safe] *)
Lemma dedup_nil : forall l, dedup l = [] -> l = [].
Proof.
  induction l as [|a l IH]; intros Hd; [reflexivity|]. cbn [dedup] in Hd.
  destruct (nmem a l) eqn:Hm; [|discriminate Hd].
  rewrite (IH Hd) in Hm. discriminate Hm.
Qed.

(* an entry point for which no defect is on record passes the generated obligation
   only if the checker accepts it *)
Lemma ok_entry_safe : forall p fd,
  accepted_params accepted_unsafe (fn_name fd) = [] -> ok_entry p fd = true -> safe p fd = true.
Proof.
  intros p fd Hacc Hok. unfold ok_entry, mutated_params in Hok. unfold safe.
  destruct (analyse p fd) as [v|]; [|discriminate Hok]. rewrite Hacc in Hok.
  destruct v as [|[ln q] v]; [reflexivity|]. exfalso.
  destruct (dedup (map snd ((ln, q) :: v))) as [|q' l'] eqn:Hd.
  - apply dedup_nil in Hd. discriminate Hd.
  - cbn in Hok. discriminate Hok.
Qed.

Theorem entry_points_sound : forall p fd n0 st o st',
  forallb (ok_entry p) (entry_points p) = true ->
  In fd (entry_points p) -> accepted_params accepted_unsafe (fn_name fd) = [] ->
  initial fd n0 st -> exec p (fn_body fd) st o st' ->
  forall l, In l (st_log st') -> (n0 <= l)%nat.
Proof.
  intros p fd n0 st o st' Hall Hin Hacc. apply safe_sound. apply ok_entry_safe; [exact Hacc|].
  rewrite forallb_forall in Hall. exact (Hall fd Hin).
Qed.

(* ------------------- the generated obligation, with the parameters on record *)
Lemma dedup_In : forall l q, In q l -> In q (dedup l).
Proof.
  induction l as [|a l IH]; intros q Hq; [destruct Hq|]. cbn [dedup].
  destruct (nmem a l) eqn:Hm.
  - destruct Hq as [<-|Hq]; [apply IH; apply nmem_In; exact Hm|exact (IH q Hq)].
  - destruct Hq as [<-|Hq]; [left; reflexivity|right; exact (IH q Hq)].
Qed.

Lemma smem_In : forall a l, smem a l = true -> In a l.
Proof.
  intros a l Hs. unfold smem in Hs. apply existsb_exists in Hs. destruct Hs as [b [Hb He]].
  apply String.eqb_eq in He. subst b. exact Hb.
Qed.

(* what [ok_entry] means: every write to pre-existing storage, in every execution,
   hits the buffer of an object that was reachable at entry from a parameter whose
   name is on record for this function in [accepted_unsafe] *)
Theorem ok_entry_sound : forall p fd n0 st o st',
  ok_entry p fd = true -> initial fd n0 st -> exec p (fn_body fd) st o st' ->
  forall m, In m (st_log st') -> (m < n0)%nat ->
  exists q l0 l, In (pname (fn_params fd) q) (accepted_params accepted_unsafe (fn_name fd)) /\
                 st_env st q = Some l0 /\ reach (st_heap st) l0 l /\ m = base (st_heap st) l.
Proof.
  intros p fd n0 st o st' Hok Hinit Hex m Hm Hlt.
  unfold ok_entry, mutated_params in Hok.
  destruct (analyse p fd) as [v|] eqn:Han; [|discriminate Hok].
  destruct (analyse_sound p fd n0 st o st' v Han Hinit Hex m Hm Hlt) as [ln [q [l0 [l [Hin [Hq [Hr Hb]]]]]]].
  exists q, l0, l. split; [|repeat split; assumption].
  rewrite forallb_forall in Hok. apply smem_In. apply Hok.
  apply in_map. apply dedup_In. apply (in_map snd) in Hin. exact Hin.
Qed.

Theorem entry_points_sound_attr : forall p fd n0 st o st',
  forallb (ok_entry p) (entry_points p) = true -> In fd (entry_points p) ->
  initial fd n0 st -> exec p (fn_body fd) st o st' ->
  forall m, In m (st_log st') -> (m < n0)%nat ->
  exists q l0 l, In (pname (fn_params fd) q) (accepted_params accepted_unsafe (fn_name fd)) /\
                 st_env st q = Some l0 /\ reach (st_heap st) l0 l /\ m = base (st_heap st) l.
Proof.
  intros p fd n0 st o st' Hall Hin. apply ok_entry_sound.
  rewrite forallb_forall in Hall. exact (Hall fd Hin).
Qed.

(* ------------------------------------------------ the diagnostic [dead_uses] *)
(* what a hit of [dead_uses] means: under the invariant a variable whose abstract value
   is empty is unbound, so a statement that reads it has no execution *)
Lemma empty_value_unbound : forall n0 R h e E x,
  inv_env n0 R h e E -> aisempty (alook E x) = true -> e x = None.
Proof.
  intros n0 R h e E x He Hemp. destruct (e x) as [l|] eqn:Hx; [|reflexivity].
  destruct (He x l Hx) as [_ [a [Ha _]]]. apply PS.is_empty_2 in Hemp. exfalso. exact (Hemp a Ha).
Qed.
