(* Full-data runs of the discrete-time simulators, horizons of whole steps: the [drun] of
   Proofs/DiscreteRun.v with its sequence of status maps made explicit ([drunF]: sq j = the
   statuses after j steps), and what the node histories and the transmissions are in terms
   of that sequence.  Used by C09 (DiscreteC09.v) and C10 (DiscreteC10.v). *)
From EoNV Require Import Prelude Samp Graph Discrete DiscreteP SampP DiscreteChk DiscreteRun DiscreteRunS DiscreteTop DiscreteC04 DiscreteC05.
From EoNV Require Gillespie GillespieP InvestigationP.
From Coq Require Import Permutation Lqa.

Lemma tq_lt : forall tmin j k, (j < k)%nat -> tq tmin j < tq tmin k.
Proof.
  intros tmin j k H. rewrite !tq_spec. apply (proj2 (Qplus_lt_r _ _ _)). rewrite <- Zlt_Qlt. lia.
Qed.
Lemma tq_le : forall tmin j k, (j <= k)%nat -> tq tmin j <= tq tmin k.
Proof.
  intros tmin j k H. rewrite !tq_spec. apply (proj2 (Qplus_le_r _ _ _)). rewrite <- Zle_Qle. lia.
Qed.
Lemma tq_inj : forall tmin j k, tq tmin j == tq tmin k -> j = k.
Proof.
  intros tmin j k H. destruct (Nat.lt_trichotomy j k) as [L|[E|L]]; [|exact E|].
  - pose proof (tq_lt tmin j k L). lra.
  - pose proof (tq_lt tmin k j L). lra.
Qed.

Section F.
Variable g : graph.
Variable kind : Gillespie.model_kind.
Variable os : bool.
Variable tmin : Q.
Variable tmax : xtime.
Variable st0 : node -> N.
Variable tl0 : list tx.

Definition hstepT (t : Q) (st st' : node -> N) (hnew : list hev) : Prop :=
  forall u, In u (gnodes g) -> node_events u (rev hnew) = if N.eqb (st u) (st' u) then [] else [(t + 1, st' u)].

Definition tstepT (t : Q) (st st' : node -> N) (tnew : list tx) : Prop :=
  NoDup (map tx_v tnew) /\
  (forall e, In e tnew -> tx_t e = t /\ In (tx_v e) (gnodes g) /\ st (tx_v e) = stS /\ st' (tx_v e) = stI /\
     exists u, tx_s e = Some u /\ In u (gnodes g) /\ st u = stI /\ In (tx_v e) (gadj g u)) /\
  (forall v, In v (gnodes g) -> st v = stS -> st' v = stI -> In v (map tx_v tnew)).

Inductive drunF : (nat -> node -> N) -> nat -> Q -> list row -> list hev -> list tx -> Prop :=
| drunF0 : forall sq, (forall v, In v (gnodes g) -> sq O v = st0 v) -> GillespieP.stat_ok kind (sq O) ->
    drunF sq O tmin [(tmin, GillespieP.census g kind (sq O))] [] tl0
| drunFS : forall sq sq' k t rows hl tl hnew tnew,
    drunF sq k t rows hl tl -> (forall j v, (j <= k)%nat -> sq' j v = sq j v) ->
    xlt t tmax = true -> has_inf g (sq k) -> GillespieP.stat_ok kind (sq' (S k)) ->
    dstep g kind os (sq k) (sq' (S k)) -> hstepT t (sq k) (sq' (S k)) hnew -> tstepT t (sq k) (sq' (S k)) tnew ->
    drunF sq' (S k) (t + 1) ((t + 1, GillespieP.census g kind (sq' (S k))) :: rows) (hnew ++ hl) (tnew ++ tl).

Lemma has_inf_ext : forall st st', (forall v, st' v = st v) -> has_inf g st -> has_inf g st'.
Proof. intros st st' E [u [Hu Hi]]. exists u. split; [exact Hu|rewrite E; exact Hi]. Qed.

Lemma stat_ok_ext : forall st st', (forall v, st' v = st v) -> GillespieP.stat_ok kind st -> GillespieP.stat_ok kind st'.
Proof. intros st st' E H. unfold GillespieP.stat_ok in *. destruct kind; intro x; rewrite E; apply H. Qed.

Lemma dstep_ext : forall a a' b b', (forall v, a' v = a v) -> (forall v, b' v = b v) -> dstep g kind os a b -> dstep g kind os a' b'.
Proof.
  intros a a' b b' Ea Eb H v Hv. specialize (H v Hv). unfold infected_by_neighbour in *. destruct kind; rewrite !Ea, !Eb.
  - destruct H as [[K1 [K2|[K2 [u K3]]]]|[K|K]]; [left; split; [exact K1|left; exact K2]| |right; left; exact K|right; right; exact K].
    left. split; [exact K1|]. right. split; [exact K2|]. exists u. rewrite Ea. exact K3.
  - destruct H as [[K1 [K2|[K2 [u K3]]]]|K]; [left; split; [exact K1|left; exact K2]| |right; exact K].
    left. split; [exact K1|]. right. split; [exact K2|]. exists u. rewrite Ea. exact K3.
Qed.

Hypothesis Hw : whole_steps tmin tmax.

(* the run of Proofs/DiscreteRun.v with full data, as a sequence *)
Lemma drun_F : forall K t st rows hl tl, drun g kind os tmin tmax true st0 tl0 K t st rows hl tl ->
  exists sq, drunF sq K t rows hl tl /\ forall v, sq K v = st v.
Proof.
  intros K t st rows hl tl H.
  induction H as [st Hst Hok|k t st rows hl tl st' hnew tnew H IH Hlt Hinf Hok Hstep Hh Ht].
  - exists (fun _ => st). split; [|reflexivity]. apply (drunF0 (fun _ => st)); assumption.
  - destruct IH as [sq [HF Esq]].
    set (sq' := fun j v => if Nat.leb j k then sq j v else st' v).
    assert (E1 : forall j v, (j <= k)%nat -> sq' j v = sq j v).
    { intros j v Hj. unfold sq'. apply Nat.leb_le in Hj. rewrite Hj. reflexivity. }
    assert (E2 : forall v, sq' (S k) v = st' v).
    { intro v. unfold sq'. assert (L : Nat.leb (S k) k = false) by (apply Nat.leb_gt; lia). rewrite L. reflexivity. }
    exists sq'. split; [|exact E2].
    pose proof (drun_time _ _ _ _ _ _ _ _ _ _ _ _ _ _ H) as Et.
    pose proof (whole_steps_next tmin tmax t k Hw Et Hlt) as Hle.
    rewrite (census_ext g kind st' (sq' (S k))) by (intros v _; symmetry; apply E2).
    apply (drunFS sq sq' k t rows hl tl hnew tnew HF E1 Hlt).
    + apply (has_inf_ext st); assumption.
    + apply (stat_ok_ext st'); assumption.
    + apply (dstep_ext st (sq k) st' (sq' (S k))); assumption.
    + intros u Hu. rewrite Esq, E2. apply (Hh eq_refl Hle u Hu).
    + destruct (Ht eq_refl) as [T1 [T2 T3]]. split; [exact T1|]. split.
      * intros e He. destruct (T2 e He) as [A [B [C [D [u [E [F [G I]]]]]]]]. split; [exact A|]. split; [exact B|].
        split; [rewrite Esq; exact C|]. split; [rewrite E2; exact D|]. exists u. rewrite Esq. repeat split; assumption.
      * intros v Hv A B. rewrite Esq in A. rewrite E2 in B. apply T3; assumption.
Qed.

(* ---------------- consequences ---------------- *)
Lemma drunF_time : forall sq K t rows hl tl, drunF sq K t rows hl tl -> t = tq tmin K.
Proof. intros sq K t rows hl tl H. induction H as [|sq sq' k t rows hl tl hnew tnew H IH]; [reflexivity|]. rewrite IH. reflexivity. Qed.

Lemma drunF_stat_ok : forall sq K t rows hl tl, drunF sq K t rows hl tl -> forall j, (j <= K)%nat -> GillespieP.stat_ok kind (sq j).
Proof.
  intros sq K t rows hl tl H. induction H as [sq H0 Hok|sq sq' k t rows hl tl hnew tnew H IH Hag Hlt Hinf Hok Hstep Hh Ht]; intros j Hj.
  - assert (j = O) by lia. subst j. exact Hok.
  - destruct (Nat.eq_dec j (S k)) as [E|E]; [subst j; exact Hok|].
    apply (stat_ok_ext (sq j)); [intro v; apply Hag; lia|apply IH; lia].
Qed.

Lemma drunF_steps : forall sq K t rows hl tl, drunF sq K t rows hl tl ->
  forall j, (j < K)%nat -> dstep g kind os (sq j) (sq (S j)) /\ has_inf g (sq j) /\ xlt (tq tmin j) tmax = true.
Proof.
  intros sq K t rows hl tl H. induction H as [sq H0 Hok|sq sq' k t rows hl tl hnew tnew H IH Hag Hlt Hinf Hok Hstep Hh Ht]; intros j Hj; [lia|].
  destruct (Nat.eq_dec j k) as [E|E].
  - subst j. split; [|split].
    + apply (dstep_ext (sq k) (sq' k) (sq' (S k)) (sq' (S k))); [intro v; apply Hag; lia|reflexivity|exact Hstep].
    + apply (has_inf_ext (sq k)); [intro v; apply Hag; lia|exact Hinf].
    + rewrite <- (drunF_time _ _ _ _ _ _ H). exact Hlt.
  - destruct (IH j) as [A [B C]]; [lia|]. split; [|split; [|exact C]].
    + apply (dstep_ext (sq j) (sq' j) (sq (S j)) (sq' (S j))); [intro v; apply Hag; lia|intro v; apply Hag; lia|exact A].
    + apply (has_inf_ext (sq j)); [intro v; apply Hag; lia|exact B].
Qed.

Lemma drunF_rows : forall sq K t rows hl tl, drunF sq K t rows hl tl ->
  rev rows = map (fun j => (tq tmin j, GillespieP.census g kind (sq j))) (seq 0 (S K)).
Proof.
  intros sq K t rows hl tl H. induction H as [sq H0 Hok|sq sq' k t rows hl tl hnew tnew H IH Hag Hlt Hinf Hok Hstep Hh Ht]; [reflexivity|].
  cbn [rev]. rewrite IH. rewrite (seq_S (S k) 0), map_app. cbn [map plus]. rewrite (drunF_time _ _ _ _ _ _ H).
  f_equal. apply map_ext_in. intros j Hj. apply in_seq in Hj. f_equal. apply census_ext. intros v _. symmetry. apply Hag. lia.
Qed.

(* the status of a node according to its history *)
Lemma hstatus_app : forall a b q cur, hstatus (a ++ b) q cur = hstatus b q (hstatus a q cur).
Proof.
  induction a as [|[t s] a IH]; intros b q cur; [reflexivity|]. cbn [app hstatus]. destruct (Qleb t q); apply IH.
Qed.

Definition hist_of_log (hl : list hev) (u : node) : history := (tmin, st0 u) :: node_events u (rev hl).

(* every entry after the first records a change: at time tq (j+1) the status sq (j+1) u <> sq j u *)
Lemma drunF_events : forall sq K t rows hl tl, drunF sq K t rows hl tl -> forall u, In u (gnodes g) ->
  forall e, In e (node_events u (rev hl)) <->
    exists j, (j < K)%nat /\ e = (tq tmin (S j), sq (S j) u) /\ sq j u <> sq (S j) u.
Proof.
  intros sq K t rows hl tl H u Hu. induction H as [sq H0 Hok|sq sq' k t rows hl tl hnew tnew H IH Hag Hlt Hinf Hok Hstep Hh Ht]; intro e.
  - cbn. split; [intros []|intros [j [Hj _]]; lia].
  - rewrite rev_app_distr, node_events_app, in_app_iff, IH, (Hh u Hu). rewrite (drunF_time _ _ _ _ _ _ H). split.
    + intros [[j [Hj [Ee Hne]]]|Hin].
      * exists j. split; [lia|]. rewrite !Hag by lia. split; assumption.
      * destruct (N.eqb_spec (sq k u) (sq' (S k) u)) as [E|E]; [destruct Hin|]. destruct Hin as [Hin|[]].
        exists k. split; [lia|]. rewrite (Hag k u) by lia. split; [symmetry; exact Hin|exact E].
    + intros [j [Hj [Ee Hne]]]. destruct (Nat.eq_dec j k) as [E|E].
      * subst j. right. rewrite (Hag k u) in Hne by lia. destruct (N.eqb_spec (sq k u) (sq' (S k) u)) as [E|E]; [contradiction|].
        left. symmetry. exact Ee.
      * left. exists j. split; [lia|]. rewrite (Hag (S j) u) in Ee by lia. rewrite (Hag (S j) u), (Hag j u) in Hne by lia. split; assumption.
Qed.

(* ... and the status read off the history at any time in [tq j, tq (j+1)) is sq j u *)
Lemma drunF_status : forall sq K t rows hl tl, drunF sq K t rows hl tl -> forall u, In u (gnodes g) ->
  forall j q, (j <= K)%nat -> tq tmin j <= q -> ((j < K)%nat -> q < tq tmin (S j)) ->
  hstatus (hist_of_log hl u) q None = Some (sq j u).
Proof.
  intros sq K t rows hl tl H u Hu. unfold hist_of_log.
  induction H as [sq H0 Hok|sq sq' k t rows hl tl hnew tnew H IH Hag Hlt Hinf Hok Hstep Hh Ht]; intros j q Hj Hq1 Hq2.
  - assert (j = O) by lia. subst j. cbn [rev node_events filter map hstatus tq] in *.
    rewrite (proj2 (InvestigationP.qleb_t tmin q) Hq1). rewrite (H0 u Hu). reflexivity.
  - rewrite rev_app_distr, node_events_app.
    change ((tmin, st0 u) :: node_events u (rev hl) ++ node_events u (rev hnew)) with (((tmin, st0 u) :: node_events u (rev hl)) ++ node_events u (rev hnew)).
    rewrite hstatus_app, (Hh u Hu). pose proof (drunF_time _ _ _ _ _ _ H) as Et.
    destruct (Nat.eq_dec j (S k)) as [E|E].
    + subst j. assert (Hq0 : tq tmin k <= q) by (apply Qle_trans with (tq tmin (S k)); [apply tq_le; lia|exact Hq1]).
      rewrite (IH k q (le_n k) Hq0) by (intro L; lia).
      destruct (N.eqb_spec (sq k u) (sq' (S k) u)) as [E|E]; [cbn [hstatus]; rewrite E; reflexivity|].
      cbn [hstatus]. rewrite Et. change (tq tmin k + 1) with (tq tmin (S k)).
      rewrite (proj2 (InvestigationP.qleb_t _ q) Hq1). reflexivity.
    + assert (Hjk : (j <= k)%nat) by lia. assert (Hlt2 : q < tq tmin (S k)).
      { destruct (Nat.eq_dec j k) as [E2|E2]; [subst j; apply Hq2; lia|].
        apply Qlt_le_trans with (tq tmin (S j)); [apply Hq2; lia|apply tq_le; lia]. }
      rewrite (IH j q Hjk Hq1) by (intro L; apply Hq2; lia). rewrite (Hag j u Hjk).
      destruct (N.eqb (sq k u) (sq' (S k) u)); [reflexivity|]. cbn [hstatus]. rewrite Et. change (tq tmin k + 1) with (tq tmin (S k)).
      rewrite (proj2 (InvestigationP.qleb_f _ q) Hlt2). reflexivity.
Qed.

(* ---------------- the transmissions ---------------- *)
(* tl = the entries of the steps (newest first) followed by tl0; the entries of step j are dated
   tq j, go from a node infectious in sq j along an edge to a node that is S in sq j and I in
   sq (j+1); every such node has exactly one entry at that date *)
Definition sourced (e : tx) : bool := match tx_s e with Some _ => true | None => false end.

Lemma drunF_tx : forall sq K t rows hl tl, drunF sq K t rows hl tl ->
  exists pre, tl = pre ++ tl0 /\
    (forall e, In e pre -> exists j u, (j < K)%nat /\ tx_t e = tq tmin j /\ tx_s e = Some u /\ In u (gnodes g) /\ sq j u = stI /\
        In (tx_v e) (gadj g u) /\ In (tx_v e) (gnodes g) /\ sq j (tx_v e) = stS /\ sq (S j) (tx_v e) = stI) /\
    (forall j v, (j < K)%nat -> In v (gnodes g) -> sq j v = stS -> sq (S j) v = stI ->
        length (filter (fun e => Qeqb (tx_t e) (tq tmin j) && N.eqb (tx_v e) v) pre) = 1%nat).
Proof.
  intros sq K t rows hl tl H. induction H as [sq H0 Hok|sq sq' k t rows hl tl hnew tnew H IH Hag Hlt Hinf Hok Hstep Hh Ht].
  - exists []. split; [reflexivity|]. split; [intros e []|intros j v Hj; lia].
  - destruct IH as [pre [E [P1 P2]]]. destruct Ht as [T1 [T2 T3]]. pose proof (drunF_time _ _ _ _ _ _ H) as Et.
    exists (tnew ++ pre). split; [rewrite E, app_assoc; reflexivity|]. split.
    + intros e He. apply in_app_or in He. destruct He as [He|He].
      * destruct (T2 e He) as [A [B [C [D [u [F [G [I J]]]]]]]]. exists k, u. split; [lia|]. rewrite (Hag k) by lia. rewrite (Hag k) by lia.
        rewrite <- Et. repeat split; assumption.
      * destruct (P1 e He) as [j [u [Hj [A [B [C [D [F [G [I J]]]]]]]]]]. exists j, u. split; [lia|]. rewrite !Hag by lia. repeat split; assumption.
    + intros j v Hj Hv A B. rewrite filter_app, app_length. destruct (Nat.eq_dec j k) as [Ej|Ej].
      * subst j. rewrite (Hag k v) in A by lia.
        assert (Z0 : filter (fun e => Qeqb (tx_t e) (tq tmin k) && N.eqb (tx_v e) v) pre = []).
        { apply InvestigationP.filter_none. intros e He. destruct (P1 e He) as [j [u [Hj2 [A2 _]]]]. rewrite A2.
          assert (Qeqb (tq tmin j) (tq tmin k) = false) as Z.
          { apply InvestigationP.qeqb_f. intro Q. apply tq_inj in Q. lia. }
          rewrite Z. reflexivity. }
        rewrite Z0, Nat.add_0_r.
        assert (Hin : In v (map tx_v tnew)) by (apply T3; assumption).
        assert (Ef : filter (fun e => Qeqb (tx_t e) (tq tmin k) && N.eqb (tx_v e) v) tnew = filter (fun e => N.eqb (tx_v e) v) tnew).
        { apply filter_ext_in. intros e He. destruct (T2 e He) as [A2 _]. rewrite A2, Et.
          assert (Qeqb (tq tmin k) (tq tmin k) = true) as Z by (apply Qeq_bool_iff; reflexivity). rewrite Z. reflexivity. }
        rewrite Ef. clear - T1 Hin. induction tnew as [|e l IHl]; [destruct Hin|].
        cbn [map] in T1. apply NoDup_cons_iff in T1. destruct T1 as [Hx T1]. cbn [filter]. destruct (N.eqb_spec (tx_v e) v) as [Ev|Ev].
        -- cbn [length]. f_equal. rewrite InvestigationP.filter_none; [reflexivity|].
           intros x Hx2. apply N.eqb_neq. intro Ex. apply Hx. rewrite Ev, <- Ex. apply in_map. exact Hx2.
        -- destruct Hin as [Hin|Hin]; [contradiction|]. apply IHl; assumption.
      * rewrite !Hag in A, B by lia. rewrite (P2 j v) by (try lia; assumption).
        rewrite InvestigationP.filter_none; [reflexivity|]. intros e He. destruct (T2 e He) as [A2 _]. rewrite A2, Et.
        assert (Qeqb (tq tmin k) (tq tmin j) = false) as Z.
        { apply InvestigationP.qeqb_f. intro Q. apply tq_inj in Q. lia. }
        rewrite Z. reflexivity.
Qed.

End F.
