(* return_full_data = True: percolation_based_discrete_SIR and basic_discrete_SIR have the same
   joint law of (rows, node histories) on an undirected simple graph.
   With a table rule the only randomness left in discrete_SIR is random.choice (which infector
   is named in the transmission list).  [core]: the state without the transmission list and
   the random.choice log.  Whatever random.choice returns, a step maps equal cores to equal
   cores (step_core), so every reachable result of the run has the rows and the node histories
   of the deterministic run (run_proj); the program is simple and has no reachable failure, so
   an event on (rows, histories) has probability 0 or 1 (Proofs/LosslessP.v), the one given by
   the BFS generations.  Then as in Proofs/PercLawP.v. *)
From EoNV Require Import Prelude Samp Graph Discrete DiscreteP SampP DiscreteRun DiscreteSafe DiscreteO DiscreteOP
  DeferredP DeferredKP DiscreteLawP DiscreteLawUP PercLawP LosslessP.
From Coq Require Import Permutation Lqa.

Definition core (s : dst) : dst :=
  mkD (d_sus s) (d_infs s) (d_age s) (d_nS s) (d_totR s) (d_rows s) (d_hlog s) []
      (mkL (l_q (d_logs s)) [] (l_r (d_logs s))).

(* what the events of this file may look at: the rows and the node histories *)
Definition proj (o : dout) : list row * option (list (node * history)) :=
  (so_rows (o_sim o), option_map fd_hist (so_full (o_sim o))).

Section Core.
Variable g : graph.
Variable tb : node -> node -> bool.
Variable R : rules.
Variable pick : nat -> node -> nat.
Variable ord : nat -> list node -> list node.
Variable tmin : Q.
Variable tmax : xtime.
Variable full : bool.
Variables i0 r0 : list node.
Hypothesis HRt : forall u v a, r_test R u v a = Ret (tb u v).

Definition ttb (u v : node) (_ : nat) : bool := tb u v.
Notation Rdet := (det_rules ttb pick).

Lemma step_det_ret : forall k t s, exists s', step g Rdet None ord tmax full k t s = Ret s'.
Proof.
  intros k t s. unfold step. rewrite cloop_det. cbn [bind].
  set (c := cfold ttb full k (d_age s) (contacts g (ord k (d_infs s))) (mkC (d_sus s) [] [] (d_nS s) (l_q (d_logs s)))).
  assert (Hc : cinv c).
  { apply cfold_inv. split; [constructor|]. split; [intros v []|constructor]. }
  destruct Hc as [_ [_ Hcf]].
  assert (Hp : exists tp, (if full then picks Rdet k t (c_inf c) (d_tlog s) (l_p (d_logs s))
                           else Ret (d_tlog s, l_p (d_logs s))) = Ret tp).
  { destruct full; [apply picks_det; exact Hcf|eexists; reflexivity]. }
  destruct Hp as [tp Hp]. rewrite Hp. cbn [bind]. eexists. reflexivity.
Qed.

Lemma step_core : forall k t s1 s2 s1' s2', core s1 = core s2 ->
  reach (step g R None ord tmax full k t s1) s1' ->
  step g Rdet None ord tmax full k t s2 = Ret s2' ->
  core s1' = core s2'.
Proof.
  intros k t s1 s2 s1' s2' Hc H1 H2.
  assert (E1 : d_sus s1 = d_sus s2) by exact (f_equal d_sus Hc).
  assert (E2 : d_infs s1 = d_infs s2) by exact (f_equal d_infs Hc).
  assert (E3 : d_age s1 = d_age s2) by exact (f_equal d_age Hc).
  assert (E4 : d_nS s1 = d_nS s2) by exact (f_equal d_nS Hc).
  assert (E5 : d_totR s1 = d_totR s2) by exact (f_equal d_totR Hc).
  assert (E6 : d_rows s1 = d_rows s2) by exact (f_equal d_rows Hc).
  assert (E7 : d_hlog s1 = d_hlog s2) by exact (f_equal d_hlog Hc).
  assert (E8 : l_q (d_logs s1) = l_q (d_logs s2)) by exact (f_equal (fun s => l_q (d_logs s)) Hc).
  assert (E9 : l_r (d_logs s1) = l_r (d_logs s2)) by exact (f_equal (fun s => l_r (d_logs s)) Hc).
  unfold step in H1, H2.
  rewrite <- (eager_cloop full tb R k (d_age s1) _ _ HRt) in H1.
  rewrite E1, E2, E4, E8 in H1.
  rewrite (eager_cloop full tb Rdet k (d_age s2) _ _ (fun _ _ _ => eq_refl)) in H1.
  rewrite cloop_det in H1, H2. cbn [bind] in H1, H2.
  set (c := cfold ttb full k (d_age s2) (contacts g (ord k (d_infs s2))) (mkC (d_sus s2) [] [] (d_nS s2) (l_q (d_logs s2)))) in *.
  apply reach_bind in H1. destruct H1 as [tp1 [_ H1]]. apply reach_ret_inv in H1. subst s1'.
  assert (Hcv : cinv c).
  { apply cfold_inv. split; [constructor|]. split; [intros v []|constructor]. }
  destruct Hcv as [_ [_ Hcf]].
  assert (Hp : exists tp, (if full then picks Rdet k t (c_inf c) (d_tlog s2) (l_p (d_logs s2))
                           else Ret (d_tlog s2, l_p (d_logs s2))) = Ret tp).
  { destruct full; [apply picks_det; exact Hcf|eexists; reflexivity]. }
  destruct Hp as [tp2 Hp]. rewrite Hp in H2. cbn [bind] in H2. injection H2 as H2. subst s2'.
  unfold core. cbn [d_sus d_infs d_age d_nS d_totR d_rows d_hlog d_logs l_q l_r].
  rewrite E3, E5, E6, E7, E9. reflexivity.
Qed.

Lemma finish_proj : forall s1 s2, core s1 = core s2 ->
  proj (finish g tmin full i0 r0 s1) = proj (finish g tmin full i0 r0 s2).
Proof.
  intros s1 s2 Hc.
  assert (E6 : d_rows s1 = d_rows s2) by exact (f_equal d_rows Hc).
  assert (E7 : d_hlog s1 = d_hlog s2) by exact (f_equal d_hlog Hc).
  unfold proj, finish. cbn [o_sim so_rows so_full]. rewrite E6.
  destruct full; cbn [option_map fd_hist]; [rewrite E7|]; reflexivity.
Qed.

(* every reachable result of the run has the rows and node histories of the deterministic run *)
Lemma run_proj : forall fuel k t s1 s2 out1 out2, core s1 = core s2 ->
  reach (dloop g R None ord tmin tmax full i0 r0 fuel k t s1) out1 ->
  dloop g Rdet None ord tmin tmax full i0 r0 fuel k t s2 = Ret out2 ->
  proj out1 = proj out2.
Proof.
  induction fuel as [|f IH]; intros k t s1 s2 out1 out2 Hc H1 H2;
    pose proof (f_equal d_infs Hc) as E2; cbn [core d_infs] in E2;
    cbn [dloop] in H1, H2; rewrite E2 in H1;
    destruct (nonempty (d_infs s2) && xlt t tmax).
  - discriminate H2.
  - apply reach_ret_inv in H1. injection H2 as H2. subst out1 out2. apply finish_proj. exact Hc.
  - apply reach_bind in H1. destruct H1 as [s1' [Hs1 H1]].
    destruct (step_det_ret k t s2) as [s2' Hs2]. rewrite Hs2 in H2. cbn [bind] in H2.
    apply (IH (S k) (t + 1) s1' s2' out1 out2); [|exact H1|exact H2].
    apply (step_core k t s1 s2 s1' s2' Hc Hs1 Hs2).
  - apply reach_ret_inv in H1. injection H2 as H2. subst out1 out2. apply finish_proj. exact Hc.
Qed.

(* rules: the test reads the table, random.choice is the code's *)
Hypothesis HRp : forall k v c, r_pick R k v c = r_pick (simple_rules 0) k v c.

Lemma table_simple : rules_simple R.
Proof.
  split.
  - intros u v a. rewrite HRt. exact I.
  - intros k v c. rewrite HRp. apply (proj2 (simple_rules_simple 0)).
Qed.

Lemma table_safe : rules_safe R.
Proof.
  split.
  - intros u v a e H. rewrite HRt in H. exact (reach_err_ret _ _ _ H).
  - intros k v c e Hc H. rewrite HRp in H. exact (proj2 (simple_rules_safe 0) k v c e Hc H).
Qed.

Lemma table_pick_sound : pick_sound R.
Proof. intros k v c s H. rewrite HRp in H. exact (simple_pick_sound 0 k v c s H). Qed.

Hypothesis Hnd : NoDup (gnodes g).
Hypothesis Hadj : forall u v, In u (gnodes g) -> In v (gadj g u) -> In v (gnodes g).
Hypothesis Hi0 : forall v, In v i0 -> In v (gnodes g).
Hypothesis Hr0 : forall v, In v r0 -> In v (gnodes g).
Hypothesis Hi0nd : NoDup i0.
Hypothesis Hr0nd : NoDup r0.
Hypothesis Hdisj : forall v, In v i0 -> ~ In v r0.
Hypothesis Hord : forall k l, Permutation (ord k l) l.

Definition target (K : nat) : list row * option (list (node * history)) :=
  (l1_rows g ttb i0 r0 tmin K, if full then Some (l1_hist g ttb full i0 r0 tmin tmax K) else None).

(* the run: a simple program without reachable failure all of whose results project on the
   generation rows / histories stopped at the first stop *)
Lemma table_run_facts : forall fuel, (length (gnodes g) < fuel)%nat ->
  let M := dloop g R None ord tmin tmax full i0 r0 fuel O tmin (init_state g tmin full i0 r0) in
  simple M /\ (forall e, ~ reach_err M e) /\
  exists K, first_stop g ttb i0 r0 tmin tmax K /\ forall o, reach M o -> proj o = target K.
Proof.
  intros fuel Hf M. split; [apply dloop_simple; exact table_simple|]. split.
  - intros e H.
    destruct (init_LInv g None tmin tmax full i0 r0 Hnd Hi0 Hr0 Hi0nd Hr0nd Hdisj) as [Hs _].
    apply (dloop_fuel R table_safe g ord tmin tmax full i0 r0 Hnd Hadj Hord (fun _ => table_pick_sound)
             fuel O tmin _ e Hs); [|exact H].
    intros _. cbn [init_state d_nS]. unfold order, lenZ. lia.
  - destruct (dsir_from_l1 g ttb pick full i0 r0 tmin tmax Hnd Hadj Hi0 Hr0 Hi0nd Hr0nd Hdisj ord Hord fuel Hf)
      as [K [out [Hst [Hrun [Hrows Hh]]]]].
    exists K. split; [exact Hst|]. intros o Ho.
    rewrite (run_proj fuel O tmin _ _ o out eq_refl Ho Hrun).
    unfold proj, target. rewrite Hrows. destruct full.
    + destruct Hh as [tr Hh]. rewrite Hh. reflexivity.
    + rewrite Hh. reflexivity.
Qed.

End Core.

(* events transfer between two (graph, table) pairs with the same hits *)
Lemma events_tr : forall g h tt th i0 r0 tmin tmax fl,
  gnodes h = gnodes g ->
  (forall I v, (forall u, In u I -> In u (gnodes g)) -> hit h (T0 th) I v = hit g (T0 tt) I v) ->
  forall K v, events_to h th fl i0 r0 tmin tmax K v = events_to g tt fl i0 r0 tmin tmax K v.
Proof.
  intros g h tt th i0 r0 tmin tmax fl Hn Hhit. induction K as [|K IH]; intro v; [reflexivity|].
  cbn [events_to]. rewrite IH, !(Ig_tr g h tt th i0 r0 Hn Hhit). reflexivity.
Qed.

Section PercFull.
Variable g : graph.
Variables i0 : list node.
Variable r0o : option (list node).
Variable tmin : Q.
Variable tmax : xtime.
Variable full : bool.
Hypothesis Hundir : gdirected g = false.
Hypothesis Hnd : NoDup (gnodes g).
Hypothesis Hadjnd : forall u, In u (gnodes g) -> NoDup (gadj g u).
Hypothesis Hadj : forall u v, In u (gnodes g) -> In v (gadj g u) -> In v (gnodes g).
Hypothesis Hsym : forall u v, In u (gnodes g) -> In v (gadj g u) -> In u (gadj g v).
Let r0 := opt_list r0o.
Hypothesis Hi0 : forall v, In v i0 -> In v (gnodes g).
Hypothesis Hr0 : forall v, In v r0 -> In v (gnodes g).
Hypothesis Hi0nd : NoDup i0.
Hypothesis Hr0nd : NoDup r0.
Hypothesis Hdisj : forall v, In v i0 -> ~ In v r0.

Lemma kept_proj : forall kept, incl kept (gedges g) ->
  forall p ord1 ord2 fuel1 fuel2 ql (F : list row * option (list (node * history)) -> bool),
  perm_oracle ord1 -> perm_oracle ord2 ->
  (length (gnodes g) < fuel1)%nat -> (length (gnodes g) < fuel2)%nat ->
  prob (fun o => F (proj o))
    (law (discrete_SIR g (table_rules (tblk (ukey g) kept)) None ord1 (Some i0) r0o None tmin tmax full fuel1)) ==
  prob (fun o => F (proj o))
    (law (bind (discrete_SIR (Hp g kept) (has_edge_rules (Hp g kept) (simple_rules p)) None ord2 (Some i0) r0o None tmin tmax full fuel2)
               (fun o => Ret (add_qlog ql o)))).
Proof.
  intros kept Hk p ord1 ord2 fuel1 fuel2 ql F H1 H2 Hf1 Hf2.
  unfold discrete_SIR. cbn [with_initial]. fold r0.
  destruct (table_run_facts g (tblk (ukey g) kept) (table_rules (tblk (ukey g) kept)) (fun _ _ => O) ord1 tmin tmax full i0 r0
              (fun _ _ _ => eq_refl) (fun _ _ _ => eq_refl) Hnd Hadj Hi0 Hr0 Hi0nd Hr0nd Hdisj H1 fuel1 Hf1)
    as [S1 [N1 [K1 [St1 L1]]]].
  destruct (table_run_facts (Hp g kept) (edge_exists (Hp g kept)) (has_edge_rules (Hp g kept) (simple_rules p)) (fun _ _ => O)
              ord2 tmin tmax full i0 r0
              (fun _ _ _ => eq_refl) (fun _ _ _ => eq_refl) Hnd (Hp_adj_sub g Hundir Hadj kept Hk) Hi0 Hr0 Hi0nd Hr0nd Hdisj H2 fuel2 Hf2)
    as [S2 [N2 [K2 [St2 L2]]]].
  change (ttb (tblk (ukey g) kept)) with (tts g kept) in *.
  change (ttb (edge_exists (Hp g kept))) with (ttHp g kept) in *.
  pose proof (hit_Hp g Hundir Hsym kept Hk) as Hhit.
  assert (E : K1 = K2).
  { apply (first_stop_unique g (tts g kept) i0 r0 tmin tmax); [exact St1|].
    apply (first_stop_tr g (Hp g kept) (tts g kept) (ttHp g kept) i0 r0 tmin tmax eq_refl Hhit). exact St2. }
  subst K2.
  assert (ET : target (Hp g kept) (edge_exists (Hp g kept)) tmin tmax full i0 r0 K1 =
               target g (tblk (ukey g) kept) tmin tmax full i0 r0 K1).
  { unfold target. change (ttb (tblk (ukey g) kept)) with (tts g kept).
    change (ttb (edge_exists (Hp g kept))) with (ttHp g kept).
    unfold l1_rows. rewrite (rows_tr g (Hp g kept) (tts g kept) (ttHp g kept) i0 r0 tmin eq_refl Hhit).
    destruct full; [|reflexivity]. f_equal. f_equal. unfold l1_hist.
    change (gnodes (Hp g kept)) with (gnodes g). apply map_ext. intro u.
    rewrite (events_tr g (Hp g kept) (tts g kept) (ttHp g kept) i0 r0 tmin tmax true eq_refl Hhit). reflexivity. }
  set (b := F (target g (tblk (ukey g) kept) tmin tmax full i0 r0 K1)).
  rewrite (prob_leaf_const dout (fun o => F (proj o)) b _ S1 N1).
  2:{ intros o Ho. rewrite (L1 o Ho). reflexivity. }
  rewrite (prob_leaf_const dout (fun o => F (proj o)) b).
  - reflexivity.
  - apply simple_bind; [exact S2|]. intro o. exact I.
  - intros e H. apply reach_err_bind in H. destruct H as [H|[o [_ H]]]; [exact (N2 e H)|exact (reach_err_ret _ _ _ H)].
  - intros o H. apply reach_bind in H. destruct H as [o2 [Ho2 H]]. apply reach_ret_inv in H. subst o.
    change (proj (add_qlog ql o2)) with (proj o2). rewrite (L2 o2 Ho2), ET. reflexivity.
Qed.

Theorem perc_basic_hist_law_sec : forall p ord1 ord2 fuel1 fuel2 (F : list row * option (list (node * history)) -> bool),
  perm_oracle ord1 -> perm_oracle ord2 ->
  (length (gnodes g) < fuel1)%nat -> (length (gnodes g) < fuel2)%nat ->
  prob (fun o => F (proj o))
       (law (basic_discrete_SIR g p ord1 (Some i0) r0o None tmin tmax full fuel1)) ==
  prob (fun o => F (proj o))
       (law (percolation_based_discrete_SIR g p ord2 (Some i0) r0o None tmin tmax full fuel2)).
Proof.
  intros p ord1 ord2 fuel1 fuel2 F H1 H2 Hf1 Hf2.
  rewrite (dsir_law_expect_k g ord1 tmin tmax full (ukey g) (gedges g) Hnd Hadjnd H1 (ukey_cases g)
             (ukey_in g Hundir Hsym) p i0 r0o fuel1 _ (gedges_NoDup g Hundir Hnd Hadjnd)).
  unfold percolation_based_discrete_SIR, percolation_based_discrete_SIR_R, percolate_network_R.
  rewrite (law_seqv _ _ _ (seqv_bind_assoc _ _ _ _ _ _)).
  rewrite perc_expect. apply expect_ext_in. intros kept Hk. cbn [bind fst snd app].
  apply kept_proj; assumption.
Qed.

End PercFull.

Theorem perc_basic_hist_law : forall g p ord1 ord2 i0 r0o tmin tmax full fuel1 fuel2
    (F : list row * option (list (node * history)) -> bool),
  wf_inputb g i0 (opt_list r0o) = true -> arcs_nodupb g = true -> sym_graphb g = true ->
  perm_oracle ord1 -> perm_oracle ord2 ->
  (length (gnodes g) < fuel1)%nat -> (length (gnodes g) < fuel2)%nat ->
  prob (fun o => F (proj o))
       (law (basic_discrete_SIR g p ord1 (Some i0) r0o None tmin tmax full fuel1)) ==
  prob (fun o => F (proj o))
       (law (percolation_based_discrete_SIR g p ord2 (Some i0) r0o None tmin tmax full fuel2)).
Proof.
  intros g p ord1 ord2 i0 r0o tmin tmax full fuel1 fuel2 F Hwf Harcs Hsg H1 H2 Hf1 Hf2.
  destruct (wf_input_props g i0 _ Hwf) as [Hnd [Hadj [Hi0 [Hr0 [Hi0nd [Hr0nd Hdisj]]]]]].
  destruct (arcs_nodup_props g Harcs) as [_ Hadjnd].
  unfold sym_graphb in Hsg. apply andb_true_iff in Hsg. destruct Hsg as [Hd Hs].
  apply negb_true_iff in Hd.
  assert (Hsym : forall u v, In u (gnodes g) -> In v (gadj g u) -> In u (gadj g v)).
  { intros u v Hu Hv. rewrite forallb_forall in Hs. specialize (Hs u Hu). cbv beta in Hs.
    rewrite forallb_forall in Hs. apply dmem_In. apply Hs. exact Hv. }
  exact (perc_basic_hist_law_sec g i0 r0o tmin tmax full Hd Hnd Hadjnd Hadj Hsym Hi0 Hr0 Hi0nd Hr0nd Hdisj
           p ord1 ord2 fuel1 fuel2 F H1 H2 Hf1 Hf2).
Qed.
