(* Independence of the discrete-time simulators from Python's set iteration order, part 2:
   whole runs of discrete_SIR (with or without a recovery test) and of basic_discrete_SIS under
   table rules, for two permutation oracles and the same return mode.  By simulation: the two
   runs go through states with the same susceptible map, infected set, ages, counters and rows;
   the history logs have the same per-node projections; the transmission logs are permutations
   of one another (the entries appended within one step come in a different order, the chosen
   infector is the same because random.choice indexes the SORTED candidate list).  Both loops test
   the same guard, so for every fuel both run out of fuel or both return. *)
From EoNV Require Import Prelude Samp Graph Discrete DiscreteP DiscreteRun DiscreteOrd.
From Coq Require Import Permutation Lia.

Definition trans_perm (full : bool) (a b : option fulldata) : Prop :=
  if full then exists f1 f2, a = Some f1 /\ b = Some f2 /\ fd_hist f1 = fd_hist f2 /\
                             Permutation (fd_trans f1) (fd_trans f2)
  else a = None /\ b = None.

(* both run out of fuel, or both return: same rows, same node histories, transmissions equal as
   multisets *)
Definition same_out (full : bool) (m1 m2 : samp dout) : Prop :=
  (m1 = Fail OutOfFuel /\ m2 = Fail OutOfFuel) \/
  exists o1 o2, m1 = Ret o1 /\ m2 = Ret o2 /\
    so_rows (o_sim o1) = so_rows (o_sim o2) /\
    option_map fd_hist (so_full (o_sim o1)) = option_map fd_hist (so_full (o_sim o2)) /\
    trans_perm full (so_full (o_sim o1)) (so_full (o_sim o2)).

(* the history appends of one step *)
Lemma hblock_rel : forall (next : Q) (stA stB : N) newc us us' h h', Permutation us us' ->
  (forall u, node_events u (rev h) = node_events u (rev h')) ->
  forall u, node_events u (rev (rev (map (fun v => (next, v, stA)) newc) ++ rev (map (fun x => (next, x, stB)) us) ++ h)) =
            node_events u (rev (rev (map (fun v => (next, v, stA)) newc) ++ rev (map (fun x => (next, x, stB)) us') ++ h')).
Proof.
  intros next stA stB newc us us' h h' P H u.
  rewrite !rev_app_distr, !rev_involutive, !node_events_app.
  rewrite H, (node_events_perm u next stB us us' P). reflexivity.
Qed.

Lemma hblock_rel0 : forall (next : Q) (stA : N) newc (h h' : list (Q * node * N)),
  (forall u, node_events u (rev h) = node_events u (rev h')) ->
  forall u, node_events u (rev (rev (map (fun v => (next, v, stA)) newc) ++ [] ++ h)) =
            node_events u (rev (rev (map (fun v => (next, v, stA)) newc) ++ [] ++ h')).
Proof.
  intros next stA newc h h' H u. cbn [app].
  rewrite !rev_app_distr, !rev_involutive, !node_events_app, H. reflexivity.
Qed.

Lemma build_hist_rel : forall g tmin i0 r0 h h',
  (forall u, node_events u (rev h) = node_events u (rev h')) ->
  build_hist g tmin i0 r0 h = build_hist g tmin i0 r0 h'.
Proof. intros g tmin i0 r0 h h' H. unfold build_hist. apply map_ext. intro u. rewrite H. reflexivity. Qed.

(* ------------------------------------------------------------------ *)
(* discrete_SIR                                                         *)
Section SIR.
Variable g : graph.
Variable tt : node -> node -> nat -> bool.
Variable pick : nat -> node -> nat.
Variable trec : option (node -> nat -> bool).
Variables ord1 ord2 : nat -> list node -> list node.
Hypothesis H1 : perm_oracle ord1.
Hypothesis H2 : perm_oracle ord2.
Variable tmin : Q.
Variable tmax : xtime.
Variable full : bool.
Variables i0 r0 : list node.

Definition osim (s1 s2 : dst) : Prop :=
  (forall v, d_sus s1 v = d_sus s2 v) /\ d_infs s1 = d_infs s2 /\ (forall u, d_age s1 u = d_age s2 u) /\
  d_nS s1 = d_nS s2 /\ d_totR s1 = d_totR s2 /\ d_rows s1 = d_rows s2 /\
  (forall u, node_events u (rev (d_hlog s1)) = node_events u (rev (d_hlog s2))) /\
  Permutation (d_tlog s1) (d_tlog s2).

Lemma step_ord : forall k t s1 s2, osim s1 s2 ->
  exists s1' s2', step g (det_rules tt pick) trec ord1 tmax full k t s1 = Ret s1' /\
                  step g (det_rules tt pick) trec ord2 tmax full k t s2 = Ret s2' /\ osim s1' s2'.
Proof.
  intros k t s1 s2 [Hs [Hi [Ha [HS [HR [Hrows [Hh Ht]]]]]]]. unfold step. rewrite !cloop_det. cbn [bind].
  rewrite <- HS.
  set (us1 := ord1 k (d_infs s1)). set (us2 := ord2 k (d_infs s2)).
  assert (Pus : Permutation us1 us2).
  { unfold us1, us2. rewrite <- Hi. eapply Permutation_trans; [apply H1|apply Permutation_sym, H2]. }
  pose proof (cfold_ord tt full k (d_age s1) (d_age s2) (contacts g us1) (contacts g us2) (d_sus s1) (d_sus s2)
                (d_nS s1) (l_q (d_logs s1)) (l_q (d_logs s2)) (perm_contacts g _ _ Pus) Ha Hs) as C.
  cbv zeta in C.
  set (c1 := cfold tt full k (d_age s1) (contacts g us1) (mkC (d_sus s1) [] [] (d_nS s1) (l_q (d_logs s1)))) in *.
  set (c2 := cfold tt full k (d_age s2) (contacts g us2) (mkC (d_sus s2) [] [] (d_nS s1) (l_q (d_logs s2)))) in *.
  destruct C as [Cs [Cm [Cp [CS [Cn1 [Cn2 [Ck [Cf1 [Cf2 Cc]]]]]]]]].
  assert (Hp : exists tp1 tp2,
            (if full then picks (det_rules tt pick) k t (c_inf c1) (d_tlog s1) (l_p (d_logs s1))
             else Ret (d_tlog s1, l_p (d_logs s1))) = Ret tp1 /\
            (if full then picks (det_rules tt pick) k t (c_inf c2) (d_tlog s2) (l_p (d_logs s2))
             else Ret (d_tlog s2, l_p (d_logs s2))) = Ret tp2 /\
            Permutation (fst tp1) (fst tp2)).
  { destruct full.
    - rewrite !picks_det_val by assumption. eexists. eexists. split; [reflexivity|]. split; [reflexivity|].
      cbn [fst]. apply Permutation_app; [|exact Ht]. rewrite <- !Permutation_rev.
      apply tx_perm; try assumption. apply Cc. reflexivity.
    - eexists. eexists. split; [reflexivity|]. split; [reflexivity|]. exact Ht. }
  destruct Hp as [tp1 [tp2 [Ep1 [Ep2 Ptp]]]]. rewrite Ep1, Ep2. cbn [bind].
  assert (Ec : canon g (c_new c1) = canon g (c_new c2)) by (apply canon_ext; intros v _; apply Cm).
  rewrite Ec.
  set (h1a := if full && le_x (t + 1) tmax then _ else d_hlog s1).
  set (h1b := if full && le_x (t + 1) tmax then _ else d_hlog s2).
  assert (Hh1 : forall u, node_events u (rev h1a) = node_events u (rev h1b)).
  { unfold h1a, h1b. destruct (full && le_x (t + 1) tmax); [|exact Hh].
    destruct trec; [apply hblock_rel0; exact Hh|apply hblock_rel; assumption]. }
  clearbody h1a h1b.
  destruct trec as [f|].
  - repeat match goal with
           | |- context [rec_loop ?fu ?ff ?kk ?nx ?ag ?us (?a, ?b, ?h, ?r)] =>
             let rl := fresh "rl" in let E := fresh "E" in
             destruct (rec_loop_spec ff fu kk nx ag us a b h r) as [rl E]; rewrite E; clear E
           end.
    eexists. eexists. split; [reflexivity|]. split; [reflexivity|].
    assert (Pk : Permutation (filter (fun u => negb (f u (d_age s1 u))) us1) (filter (fun u => negb (f u (d_age s2 u))) us2)).
    { rewrite (filter_ext _ (fun u => negb (f u (d_age s2 u)))) by (intro; rewrite Ha; reflexivity).
      apply perm_filter. exact Pus. }
    assert (Pr : Permutation (filter (fun u => f u (d_age s1 u)) us1) (filter (fun u => f u (d_age s2 u)) us2)).
    { rewrite (filter_ext _ (fun u => f u (d_age s2 u))) by (intro; rewrite Ha; reflexivity).
      apply perm_filter. exact Pus. }
    assert (Ei : canon g (c_new c1 ++ rev (filter (fun u => negb (f u (d_age s1 u))) us1) ++ []) =
                 canon g (c_new c2 ++ rev (filter (fun u => negb (f u (d_age s2 u))) us2) ++ [])).
    { apply canon_ext. intros v _. rewrite !app_nil_r, !mem_app, Cm. f_equal.
      apply mem_perm. rewrite <- !Permutation_rev. exact Pk. }
    unfold osim. cbn [d_sus d_infs d_age d_nS d_totR d_rows d_hlog d_tlog].
    rewrite Ei, CS, HR, Hrows, (lenZ_perm _ _ _ Pr).
    split; [exact Cs|]. split; [reflexivity|].
    split. { intro x. rewrite (mem_perm _ _ x Pus), Ha. reflexivity. }
    split; [reflexivity|]. split; [reflexivity|]. split; [reflexivity|].
    split; [|exact Ptp].
    destruct full; [|cbn [app]; exact Hh1].
    intro u. apply node_events_rev_block; [exact Pr|apply Hh1].
  - eexists. eexists. split; [reflexivity|]. split; [reflexivity|].
    unfold osim. cbn [d_sus d_infs d_age d_nS d_totR d_rows d_hlog d_tlog].
    rewrite CS, HR, Hi, Hrows.
    split; [exact Cs|]. split; [reflexivity|]. split; [exact Ha|].
    split; [reflexivity|]. split; [reflexivity|]. split; [reflexivity|]. split; [exact Hh1|exact Ptp].
Qed.

Lemma dloop_ord : forall fuel k t s1 s2, osim s1 s2 ->
  same_out full (dloop g (det_rules tt pick) trec ord1 tmin tmax full i0 r0 fuel k t s1)
                (dloop g (det_rules tt pick) trec ord2 tmin tmax full i0 r0 fuel k t s2).
Proof.
  assert (Fin : forall s1 s2, osim s1 s2 ->
            same_out full (Ret (finish g tmin full i0 r0 s1)) (Ret (finish g tmin full i0 r0 s2))).
  { intros s1 s2 [_ [_ [_ [_ [_ [Hrows [Hh Ht]]]]]]]. right. eexists. eexists.
    split; [reflexivity|]. split; [reflexivity|]. unfold finish, trans_perm. cbn [o_sim so_rows so_full].
    rewrite Hrows, (build_hist_rel g tmin i0 r0 _ _ Hh). split; [reflexivity|].
    destruct full; cbn [option_map fd_hist]; [|repeat split].
    split; [reflexivity|]. eexists. eexists. split; [reflexivity|]. split; [reflexivity|].
    cbn [fd_hist fd_trans]. split; [reflexivity|]. rewrite <- !Permutation_rev. exact Ht. }
  induction fuel as [|f IH]; intros k t s1 s2 Hsim; cbn [dloop]; pose proof Hsim as [_ [Hi _]]; rewrite <- Hi;
    (destruct (nonempty (d_infs s1) && xlt t tmax); [|apply Fin; exact Hsim]).
  - left. split; reflexivity.
  - destruct (step_ord k t s1 s2 Hsim) as [s1' [s2' [E1 [E2 Hsim']]]]. rewrite E1, E2. cbn [bind]. apply IH. exact Hsim'.
Qed.

End SIR.

Theorem dsir_ord_indep : forall g tt pick trec ord1 ord2 i0 r0o tmin tmax full fuel,
  perm_oracle ord1 -> perm_oracle ord2 ->
  same_out full (discrete_SIR g (det_rules tt pick) trec ord1 (Some i0) r0o None tmin tmax full fuel)
                (discrete_SIR g (det_rules tt pick) trec ord2 (Some i0) r0o None tmin tmax full fuel).
Proof.
  intros g tt pick trec ord1 ord2 i0 r0o tmin tmax full fuel H1 H2. unfold discrete_SIR. cbn [with_initial].
  apply dloop_ord; try assumption. unfold osim. repeat split. apply Permutation_refl.
Qed.

(* ------------------------------------------------------------------ *)
(* basic_discrete_SIS                                                   *)
Definition sres := (list node * list (node * list node) * list qentry)%type.
Definition p_new (r : sres) : list node := fst (fst r).
Definition p_inf (r : sres) : list (node * list node) := snd (fst r).

Section SFold.
Variable tt : node -> node -> nat -> bool.

Fixpoint sfold (k : nat) (infs : list node) (cs : list (node * node))
    (new : list node) (inf : list (node * list node)) (q : list qentry) : sres :=
  match cs with
  | [] => (new, inf, q)
  | (u, v) :: cs' =>
    if negb (mem v infs) then
      if tt u v k then
        if negb (mem v new) then sfold k infs cs' (v :: new) (inf ++ [(v, [u])]) ((k, u, v) :: q)
        else sfold k infs cs' new (inf_append inf v u) ((k, u, v) :: q)
      else sfold k infs cs' new inf ((k, u, v) :: q)
    else sfold k infs cs' new inf q
  end.

Lemma sis_cloop_fold : forall pick k infs cs new inf q,
  sis_cloop (det_rules tt pick) k infs cs new inf q = Ret (sfold k infs cs new inf q).
Proof.
  intros pick k infs cs. induction cs as [|[u v] cs IH]; intros new inf q; [reflexivity|].
  cbn [sis_cloop sfold]. destruct (negb (mem v infs)); [|apply IH].
  cbn [det_rules r_test bind]. destruct (tt u v k); [|apply IH]. destruct (negb (mem v new)); apply IH.
Qed.

Definition sinv (new : list node) (inf : list (node * list node)) : Prop :=
  NoDup new /\ map fst inf = rev new /\ Forall (fun e => snd e <> []) inf.

Lemma sinv_add : forall new inf u v, sinv new inf -> mem v new = false -> sinv (v :: new) (inf ++ [(v, [u])]).
Proof.
  intros new inf u v [Hn [Hk Hf]] Hm. split; [|split].
  - constructor; [apply dmem_false; exact Hm|exact Hn].
  - rewrite map_app, Hk. reflexivity.
  - apply Forall_app. split; [exact Hf|]. constructor; [|constructor]. cbn. discriminate.
Qed.

Lemma sinv_append : forall new inf u v, sinv new inf -> sinv new (inf_append inf v u).
Proof.
  intros new inf u v [Hn [Hk Hf]]. split; [exact Hn|]. split; [rewrite inf_append_keys; exact Hk|].
  unfold inf_append. apply Forall_forall. intros e He. apply in_map_iff in He.
  destruct He as [e0 [E He0]]. rewrite Forall_forall in Hf. specialize (Hf e0 He0).
  destruct (N.eqb (fst e0) v); subst e; cbn [snd]; [|exact Hf].
  intro H. apply app_eq_nil in H. destruct H as [_ H]. discriminate.
Qed.

Lemma sfold_inv : forall k infs cs new inf q, sinv new inf ->
  sinv (p_new (sfold k infs cs new inf q)) (p_inf (sfold k infs cs new inf q)).
Proof.
  intros k infs cs. induction cs as [|[u v] cs IH]; intros new inf q Hi; [exact Hi|].
  cbn [sfold]. destruct (negb (mem v infs)); [|apply IH; exact Hi].
  destruct (tt u v k); [|apply IH; exact Hi].
  destruct (mem v new) eqn:Em; cbn [negb]; apply IH; [apply sinv_append; exact Hi|apply sinv_add; assumption].
Qed.

Lemma sfold_new : forall k infs cs new inf q w,
  mem w (p_new (sfold k infs cs new inf q)) =
  mem w new || (negb (mem w infs) && existsb (sel tt (fun _ => k) w) cs).
Proof.
  intros k infs cs. induction cs as [|[u v] cs IH]; intros new inf q w.
  - cbn. rewrite andb_false_r, orb_false_r. reflexivity.
  - cbn [sfold existsb]. unfold sel at 1. cbn [fst snd].
    destruct (mem v infs) eqn:Ei; cbn [negb].
    + rewrite IH. destruct (N.eqb_spec v w) as [E|E]; [subst w; rewrite Ei|]; reflexivity.
    + destruct (tt u v k) eqn:Et.
      * destruct (mem v new) eqn:Em; cbn [negb]; rewrite IH.
        -- destruct (N.eqb_spec v w) as [E|E]; [subst w; rewrite Em|]; reflexivity.
        -- rewrite mem_cons, (N.eqb_sym w v). destruct (N.eqb_spec v w) as [E|E]; [subst w; rewrite Ei|]; cbn [andb orb negb].
           ++ rewrite orb_true_r. reflexivity.
           ++ reflexivity.
      * rewrite IH, andb_false_r. reflexivity.
Qed.

Lemma sfold_cand : forall k infs cs new inf q w, sinv new inf ->
  cand (p_inf (sfold k infs cs new inf q)) w =
  cand inf w ++ (if negb (mem w infs) then map fst (filter (sel tt (fun _ => k) w) cs) else []).
Proof.
  intros k infs cs. induction cs as [|[u v] cs IH]; intros new inf q w Hi.
  - cbn [sfold p_inf fst snd filter map]. destruct (negb (mem w infs)); rewrite app_nil_r; reflexivity.
  - cbn [sfold filter]. unfold sel at 1. cbn [fst snd].
    destruct (mem v infs) eqn:Ei; cbn [negb].
    + rewrite IH by exact Hi. destruct (N.eqb_spec v w) as [E|E]; [|reflexivity].
      subst w. rewrite Ei. reflexivity.
    + destruct (tt u v k) eqn:Et.
      * destruct (mem v new) eqn:Em; cbn [negb].
        -- rewrite IH by (apply sinv_append; exact Hi). destruct Hi as [Hn [Hk Hf]].
           rewrite cand_inf_append.
           ++ destruct (N.eqb_spec v w) as [E|E]; cbn [andb].
              ** subst w. rewrite Ei. cbn [negb map fst]. rewrite <- app_assoc. reflexivity.
              ** rewrite app_nil_r. reflexivity.
           ++ rewrite Hk. apply NoDup_rev. exact Hn.
           ++ rewrite Hk. apply -> in_rev. apply dmem_In. exact Em.
        -- rewrite IH by (apply sinv_add; assumption). rewrite cand_app. cbn [cand flat_map fst snd]. rewrite app_nil_r.
           destruct (N.eqb_spec v w) as [E|E]; cbn [andb].
           ++ subst w. rewrite Ei. cbn [negb map fst]. rewrite <- app_assoc. reflexivity.
           ++ rewrite app_nil_r. reflexivity.
      * rewrite andb_false_r. apply IH. exact Hi.
Qed.

(* one pass of the SIS double loop over permuted contact lists *)
Lemma sfold_ord : forall k infs cs cs' q q', Permutation cs cs' ->
  let r := sfold k infs cs [] [] q in
  let r' := sfold k infs cs' [] [] q' in
  (forall v, mem v (p_new r) = mem v (p_new r')) /\
  NoDup (map fst (p_inf r)) /\ NoDup (map fst (p_inf r')) /\
  Permutation (map fst (p_inf r)) (map fst (p_inf r')) /\
  Forall (fun e => snd e <> []) (p_inf r) /\ Forall (fun e => snd e <> []) (p_inf r') /\
  (forall w, Permutation (cand (p_inf r) w) (cand (p_inf r') w)).
Proof.
  intros k infs cs cs' q q' P r r'.
  assert (I0 : sinv [] []) by (split; [constructor|split; [reflexivity|constructor]]).
  pose proof (sfold_inv k infs cs [] [] q I0) as [Hn [Hk Hf]]. fold r in Hn, Hk, Hf.
  pose proof (sfold_inv k infs cs' [] [] q' I0) as [Hn' [Hk' Hf']]. fold r' in Hn', Hk', Hf'.
  assert (Hm : forall v, mem v (p_new r) = mem v (p_new r')).
  { intro v. unfold r, r'. rewrite !sfold_new. rewrite (existsb_perm _ _ cs cs' P). reflexivity. }
  split; [exact Hm|].
  split; [rewrite Hk; apply NoDup_rev; exact Hn|]. split; [rewrite Hk'; apply NoDup_rev; exact Hn'|].
  split. { rewrite Hk, Hk', <- !Permutation_rev. apply NoDup_Permutation; [exact Hn|exact Hn'|].
           intro v. rewrite <- !dmem_In, Hm. tauto. }
  split; [exact Hf|]. split; [exact Hf'|].
  intro w. unfold r, r'. rewrite !sfold_cand by exact I0. cbn [cand flat_map app].
  destruct (negb (mem w infs)); [|constructor]. apply Permutation_map. apply perm_filter. exact P.
Qed.

End SFold.

Section SIS.
Variable g : graph.
Variable tt : node -> node -> nat -> bool.
Variable pick : nat -> node -> nat.
Variables ord1 ord2 : nat -> list node -> list node.
Hypothesis H1 : perm_oracle ord1.
Hypothesis H2 : perm_oracle ord2.
Variable tmin : Q.
Variable tmax : xtime.
Variable full : bool.
Variable i0 : list node.

Definition ssim (s1 s2 : sst) : Prop :=
  s_infs s1 = s_infs s2 /\ s_rows s1 = s_rows s2 /\
  (forall u, node_events u (rev (s_hlog s1)) = node_events u (rev (s_hlog s2))) /\
  Permutation (s_tlog s1) (s_tlog s2).

Lemma sis_step_ord : forall k t s1 s2, ssim s1 s2 ->
  exists s1' s2', sis_step g (det_rules tt pick) ord1 tmax full k t s1 = Ret s1' /\
                  sis_step g (det_rules tt pick) ord2 tmax full k t s2 = Ret s2' /\ ssim s1' s2'.
Proof.
  intros k t s1 s2 [Hi [Hrows [Hh Ht]]]. unfold sis_step. rewrite !sis_cloop_fold. cbn [bind].
  set (us1 := ord1 k (s_infs s1)). set (us2 := ord2 k (s_infs s2)).
  assert (Pus : Permutation us1 us2).
  { unfold us1, us2. rewrite <- Hi. eapply Permutation_trans; [apply H1|apply Permutation_sym, H2]. }
  rewrite <- Hi.
  pose proof (sfold_ord tt k (s_infs s1) (contacts g us1) (contacts g us2) (l_q (s_logs s1)) (l_q (s_logs s2))
                (perm_contacts g _ _ Pus)) as C.
  cbv zeta in C.
  destruct (sfold tt k (s_infs s1) (contacts g us1) [] [] (l_q (s_logs s1))) as [[new1 inf1] q1].
  destruct (sfold tt k (s_infs s1) (contacts g us2) [] [] (l_q (s_logs s2))) as [[new2 inf2] q2].
  unfold p_new, p_inf in C. cbn [fst snd] in C.
  destruct C as [Cm [Cn1 [Cn2 [Ck [Cf1 [Cf2 Cc]]]]]].
  assert (Hp : exists tp1 tp2,
            (if full then picks (det_rules tt pick) k t inf1 (s_tlog s1) (l_p (s_logs s1))
             else Ret (s_tlog s1, l_p (s_logs s1))) = Ret tp1 /\
            (if full then picks (det_rules tt pick) k t inf2 (s_tlog s2) (l_p (s_logs s2))
             else Ret (s_tlog s2, l_p (s_logs s2))) = Ret tp2 /\
            Permutation (fst tp1) (fst tp2)).
  { destruct full.
    - rewrite !picks_det_val by assumption. eexists. eexists. split; [reflexivity|]. split; [reflexivity|].
      cbn [fst]. apply Permutation_app; [|exact Ht]. rewrite <- !Permutation_rev.
      apply tx_perm; assumption.
    - eexists. eexists. split; [reflexivity|]. split; [reflexivity|]. exact Ht. }
  destruct Hp as [tp1 [tp2 [Ep1 [Ep2 Ptp]]]]. rewrite Ep1, Ep2. cbn [bind].
  assert (Ec : canon g new1 = canon g new2) by (apply canon_ext; intros v _; apply Cm).
  rewrite Ec.
  eexists. eexists. split; [reflexivity|]. split; [reflexivity|].
  unfold ssim. cbn [s_infs s_rows s_hlog s_tlog]. rewrite Hrows.
  split; [reflexivity|]. split; [reflexivity|]. split; [|exact Ptp].
  destruct (full && le_x (t + 1) tmax); [|exact Hh]. apply hblock_rel; assumption.
Qed.

Lemma sis_loop_ord : forall fuel k t s1 s2, ssim s1 s2 ->
  same_out full (sis_loop g (det_rules tt pick) ord1 tmin tmax full i0 fuel k t s1)
                (sis_loop g (det_rules tt pick) ord2 tmin tmax full i0 fuel k t s2).
Proof.
  assert (Fin : forall s1 s2, ssim s1 s2 ->
            same_out full (Ret (sis_finish g tmin full i0 s1)) (Ret (sis_finish g tmin full i0 s2))).
  { intros s1 s2 [_ [Hrows [Hh Ht]]]. right. eexists. eexists.
    split; [reflexivity|]. split; [reflexivity|]. unfold sis_finish, trans_perm. cbn [o_sim so_rows so_full].
    rewrite Hrows, (build_hist_rel g tmin i0 [] _ _ Hh). split; [reflexivity|].
    destruct full; cbn [option_map fd_hist]; [|repeat split].
    split; [reflexivity|]. eexists. eexists. split; [reflexivity|]. split; [reflexivity|].
    cbn [fd_hist fd_trans]. split; [reflexivity|]. rewrite <- !Permutation_rev. exact Ht. }
  induction fuel as [|f IH]; intros k t s1 s2 Hsim; cbn [sis_loop]; pose proof Hsim as [Hi _]; rewrite <- Hi;
    (destruct (nonempty (s_infs s1) && xlt t tmax); [|apply Fin; exact Hsim]).
  - left. split; reflexivity.
  - destruct (sis_step_ord k t s1 s2 Hsim) as [s1' [s2' [E1 [E2 Hsim']]]]. rewrite E1, E2. cbn [bind]. apply IH. exact Hsim'.
Qed.

End SIS.

Theorem dsis_ord_indep : forall g tt pick ord1 ord2 i0 tmin tmax full fuel,
  perm_oracle ord1 -> perm_oracle ord2 ->
  same_out full (basic_discrete_SIS_R g (det_rules tt pick) ord1 (Some i0) None tmin tmax full fuel)
                (basic_discrete_SIS_R g (det_rules tt pick) ord2 (Some i0) None tmin tmax full fuel).
Proof.
  intros g tt pick ord1 ord2 i0 tmin tmax full fuel H1 H2. unfold basic_discrete_SIS_R. cbn [with_initial].
  apply sis_loop_ord; try assumption. unfold ssim. repeat split. apply Permutation_refl.
Qed.
