(* fast_SIS with ANY way of giving the initial condition: explicit nodes, or
   random.sample(list(G), 1) / random.sample(list(G), int(round(N*rho))).  The sampled
   list is duplicate-free, inside the graph and has the requested length, so the
   output theorems of Proofs/EventSISOut.v apply to it. *)
From EoNV Require Import Prelude Samp Graph ListDict ListDictP Gillespie KldP GillespieInv SampP GillespieP GillespieLog.
From EoNV Require Import Investigation InvestigationP GillespieC10.
From EoNV Require Import EventSIS EventSISP EventSISP4 EventSISRows EventSISLog EventSISTrace EventSISRel EventSISFast EventSISNM EventSISOut.
From Coq Require Import Permutation Sorted Lqa.

Lemma concat_knode : forall l, concat (map knode l) = l.
Proof. induction l as [|x l IH]; [reflexivity|]. cbn [map concat knode app]. rewrite IH. reflexivity. Qed.

Lemma incl_firstn : forall (A : Type) n (l : list A), incl (firstn n l) l.
Proof. intros A n l x H. rewrite <- (firstn_skipn n l). apply in_or_app. left. exact H. Qed.
Lemma nodup_firstn : forall (A : Type) n (l : list A), NoDup l -> NoDup (firstn n l).
Proof.
  intros A n. induction n as [|n IH]; intros l H; [constructor|]. destruct l as [|x l]; [constructor|].
  cbn [firstn]. inversion H as [|? ? Hx Hl]; subst. constructor; [|apply IH; exact Hl].
  intro K. apply Hx. apply (incl_firstn A n l). exact K.
Qed.

Lemma rotate_perm : forall (A : Type) n (l : list A), Permutation (rotate n l) l.
Proof. intros A n l. unfold rotate. rewrite <- (firstn_skipn n l) at 3. apply Permutation_app_comm. Qed.

Lemma rotate_map : forall (A B : Type) (f : A -> B) n l, rotate n (map f l) = map f (rotate n l).
Proof. intros A B f n l. unfold rotate. rewrite skipn_map, firstn_map, map_app. reflexivity. Qed.

Definition sample_of (g : graph) (n : nat) (d : Q) : list node := firstn n (rotate (rank d) (gnodes g)).

Lemma sample_of_ok : forall g n d, NoDup (gnodes g) -> (n <= length (gnodes g))%nat ->
  NoDup (sample_of g n d) /\ incl (sample_of g n d) (gnodes g) /\ length (sample_of g n d) = n.
Proof.
  intros g n d Hnd Hn. unfold sample_of. split; [|split].
  - apply nodup_firstn. eapply Permutation_NoDup; [apply Permutation_sym; apply rotate_perm|exact Hnd].
  - intros x Hx. apply incl_firstn in Hx. apply (Permutation_in _ (rotate_perm _ _ _) Hx).
  - apply firstn_length_le. rewrite (Permutation_length (rotate_perm _ _ _)). exact Hn.
Qed.

Definition requested (g : graph) (rho : option Q) : Z :=
  match rho with None => 1%Z | Some r => round_half_even (Qnat (length (gnodes g)) * r) end.

Section Init.
Variable g : graph.
Hypothesis Hnd : NoDup (gnodes g).
Hypothesis Hadj : forall u v, In v (gadj g u) -> In v (gnodes g).
Variables tau gamma : Q.
Variable tmax : xtime.
Variable tmin : Q.
Hypothesis Hvis : xlt tmin tmax = true.

(* the event loop started from any accumulated trace *)
Lemma m_loop_exec_logs : forall i0 full fuel ds acc out tr, NoDup i0 -> incl i0 (gnodes g) ->
  exec (m_loop g tau gamma tmax tmin full (length i0) fuel (m_init g tmax tmin i0)) ds acc = (Ok out, tr) ->
  exists evs txs lg st, LL g tmin tmax i0 true evs txs lg st /\ strict_ok evs txs = true /\
                        out = finish g tmin full (length i0) lg.
Proof.
  intros i0 full fuel ds acc out tr Hi0 Hinc H.
  assert (Hn : nochoose (m_loop g tau gamma tmax tmin full (length i0) fuel (m_init g tmax tmin i0))).
  { pose proof (m_loop_inv g tau gamma tmax tmin full (length i0) fuel _ (m_init_inv g tmax tmin i0)) as K.
    apply allSC_split in K. destruct K as [_ K]. eapply allC_nochoose. exact K. }
  destruct (exec_reachT _ _ Hn ds acc out tr H) as [tr0 [H1 _]].
  apply m_loop_reachT in H1. destruct H1 as [s' [cs [K1 [K2 [K3 _]]]]].
  pose proof (ml_rel_FI g Hnd Hadj tau gamma tmax tmin i0 Hi0 Hinc _ _ _ K1 (ex_intro _ tmin (FInv_init g tmax tmin Hvis i0))) as Hf.
  destruct (FI_final g tmax tmin i0 s' Hf K2) as [evs [txs [HL Hst]]].
  exists evs, txs, (ms_log s'), (ms_stat s'). split; [exact HL|]. split; [exact Hst|exact K3].
Qed.

Theorem fsis_output_any_init : forall i0o rho full fuel ds out tr,
  (forall l, i0o = Some l -> NoDup l /\ incl l (gnodes g)) ->
  exec (fast_SIS g tau gamma tmax i0o rho tmin full fuel) ds [] = (Ok out, tr) ->
  exists i0, NoDup i0 /\ incl i0 (gnodes g) /\
    match i0o with
    | Some l => i0 = l
    | None => Z.of_nat (length i0) = requested g rho /\ (0 <= requested g rho <= order g)%Z
    end /\
    exists evs txs, esis_output g tmin tmax i0 true full out evs txs /\ strict_chron evs txs.
Proof.
  intros i0o rho full fuel ds out tr Hi H. unfold fast_SIS, with_initial in H.
  assert (Hfin : forall i0 ds' acc, NoDup i0 -> incl i0 (gnodes g) ->
            exec (m_loop g tau gamma tmax tmin full (length i0) fuel (m_init g tmax tmin i0)) ds' acc = (Ok out, tr) ->
            exists evs txs, esis_output g tmin tmax i0 true full out evs txs /\ strict_chron evs txs).
  { intros i0 ds' acc Hn Hc He.
    destruct (m_loop_exec_logs i0 full fuel ds' acc out tr Hn Hc He) as [evsN [txsN [lg [st [HL [Hst ->]]]]]].
    exists (rev evsN), (rev txsN).
    pose proof (LL_output g Hnd tmin tmax i0 Hn Hc true evsN txsN lg st full HL) as HO.
    split; [exact HO|]. apply strict_ok_chron; [exact Hst|].
    pose proof (eo_ntx _ _ _ _ _ _ _ _ _ HO) as Hl. rewrite rev_length, cinf_rev in Hl. exact Hl. }
  destruct i0o as [l|].
  - destruct rho as [r|]; [cbn [exec] in H; discriminate H|].
    destruct (Hi l eq_refl) as [Hn Hc]. exists l. split; [exact Hn|]. split; [exact Hc|]. split; [reflexivity|].
    apply (Hfin l ds [] Hn Hc H).
  - assert (K : forall n : Z,
        exec (if (n <? 0)%Z then Fail ValueErr
              else Sample (map knode (gnodes g)) (Z.to_nat n)
                     (fun ks => m_loop g tau gamma tmax tmin full (length (concat ks)) fuel (m_init g tmax tmin (concat ks)))) ds [] = (Ok out, tr) ->
        exists i0, NoDup i0 /\ incl i0 (gnodes g) /\ (Z.of_nat (length i0) = n /\ (0 <= n <= order g)%Z) /\
          exists evs txs, esis_output g tmin tmax i0 true full out evs txs /\ strict_chron evs txs).
    { intros n Hn. destruct (Z.ltb_spec n 0) as [Hneg|Hpos]; [cbn [exec] in Hn; discriminate Hn|].
      cbn [exec] in Hn. rewrite map_length in Hn.
      destruct (Nat.ltb_spec (length (gnodes g)) (Z.to_nat n)) as [Hbig|Hle]; [discriminate Hn|].
      destruct ds as [|d ds']; [discriminate Hn|].
      rewrite rotate_map, firstn_map, concat_knode in Hn. fold (sample_of g (Z.to_nat n) d) in Hn.
      destruct (sample_of_ok g (Z.to_nat n) d Hnd Hle) as [Hn1 [Hc Hl]].
      exists (sample_of g (Z.to_nat n) d). split; [exact Hn1|]. split; [exact Hc|]. split.
      - rewrite Hl. unfold order. split; [apply Z2Nat.id; exact Hpos|]. split; [exact Hpos|]. lia.
      - apply (Hfin _ ds' _ Hn1 Hc Hn). }
    destruct rho as [r|]; apply K in H; exact H.
Qed.

Theorem fsis_C04_any_init : forall i0o rho full fuel ds out tr,
  (forall l, i0o = Some l -> NoDup l /\ incl l (gnodes g)) ->
  exec (fast_SIS g tau gamma tmax i0o rho tmin full fuel) ds [] = (Ok out, tr) ->
  exists i0, NoDup i0 /\ incl i0 (gnodes g) /\
    match i0o with
    | Some l => i0 = l
    | None => Z.of_nat (length i0) = requested g rho /\ (0 <= requested g rho <= order g)%Z
    end /\
    exists evs, rows_spec g tmin tmax i0 out evs.
Proof.
  intros i0o rho full fuel ds out tr Hi H.
  destruct (fsis_output_any_init i0o rho full fuel ds out tr Hi H) as [i0 [A [B [C [evs [txs [HO _]]]]]]].
  exists i0. split; [exact A|]. split; [exact B|]. split; [exact C|]. exists evs. eapply eo_rows_spec. exact HO.
Qed.

End Init.

(* the sampler program of fast_nonMarkov_SIS with explicit initial nodes makes no call to
   the random source: it is [nm_run] *)
Lemma nmsis_sampler_is_nm_run : forall g dur delays tmax i0 tmin full fuel ds out tr,
  exec (fast_nonMarkov_SIS g dur delays tmax (Some i0) None tmin full fuel) ds [] = (Ok out, tr) ->
  nm_run g dur delays tmax tmin full fuel i0 = Ok out /\ tr = [].
Proof.
  intros g dur delays tmax i0 tmin full fuel ds out tr H. unfold fast_nonMarkov_SIS, with_initial in H.
  destruct (nm_run g dur delays tmax tmin full fuel i0) as [o|e]; cbn [exec] in H; [|discriminate H].
  injection H as <- <-. split; reflexivity.
Qed.
