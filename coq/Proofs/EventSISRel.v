(* fast_SIS as a relation.  The model (Model/EventSIS.v) is written in
   continuation-passing style over the sampler monad; here every piece is
   characterised as a relation "state before, state after, the expovariate calls
   made in between (annotated: which clock, started when, value returned)", and
   every path of valid draws through [m_loop] ([reachT]) is shown to be a chain
   of such steps ([m_loop_reachT]).  The annotations [clk] are ghosts: the calls
   they stand for are exactly the calls of the trace ([clk_call]). *)
From EoNV Require Import Prelude Samp Graph ListDictP SampP EventSIS EventSISP EventSISP4 EventSISTrace.
From Coq Require Import Lqa.

(* one call of random.expovariate, annotated *)
Inductive clk :=
| KRec (v : node) (start d : Q)                       (* duration of v's infection that starts at [start] *)
| KAtt (u v : node) (k : nat) (start d : Q) (redraw : bool).
    (* next attempt of the pair (u,v) during u's k-th infectious period, counted from [start];
       redraw = true: the single redraw from rec_time[v] *)

(* how often u has been infected so far (the ordinal of its current infectious period) *)
Definition inf_count (elog : list (Q * node * N)) (u : node) : nat :=
  length (filter (fun e => N.eqb (snd (fst e)) u && N.eqb (snd e) stI) elog).

Section Rel.
Variable g : graph.
Variables tau gamma : Q.
Variable tmax : xtime.

Definition clk_call (c : clk) : call * Q :=
  match c with
  | KRec v _ d => (CExpo (rec_rate g gamma v), d)
  | KAtt u v _ _ d _ => (CExpo (trans_rate g tau u v), d)
  end.

(* Q.add of the next attempt of (src,tgt) at t, if t < rec_time[src] and t < tmax *)
Definition fin_state (src tgt : node) (s : mst) (t : Q) : mst :=
  if xtlt (Some t) (ms_rec s src) && xlt t tmax
  then set_q s (q_add tmax (ms_q s) t (MTrans (Some src) tgt)) else s.

Definition per (s : mst) (u : node) : nat := inf_count (l_elog (ms_log s)) u.

(* _find_next_trans_SIS_Markov *)
Inductive fn_rel (time : Q) (src tgt : node) (s : mst) : mst -> list clk -> Prop :=
| fn_skip : xtlt (ms_rec s tgt) (ms_rec s src) = false -> fn_rel time src tgt s s []
| fn_zero : xtlt (ms_rec s tgt) (ms_rec s src) = true -> trans_rate g tau src tgt == 0 ->
    fn_rel time src tgt s s []
| fn_one : forall d, xtlt (ms_rec s tgt) (ms_rec s src) = true -> 0 < trans_rate g tau src tgt -> 0 <= d ->
    xtlt (Some (tadd time d)) (ms_rec s tgt) = false ->
    fn_rel time src tgt s (fin_state src tgt s (tadd time d)) [KAtt src tgt (per s src) time d false]
| fn_two : forall d r d2, xtlt (ms_rec s tgt) (ms_rec s src) = true -> 0 < trans_rate g tau src tgt -> 0 <= d ->
    ms_rec s tgt = Some r -> tadd time d < r -> 0 <= d2 ->
    fn_rel time src tgt s (fin_state src tgt s (tadd r d2))
           [KAtt src tgt (per s src) time d false; KAtt src tgt (per s src) r d2 true].

Lemma if_k : forall {A B} (b : bool) (k : A -> B) x y, (if b then k x else k y) = k (if b then x else y).
Proof. intros A B [|] k x y; reflexivity. Qed.

Lemma find_next_reachT : forall A time src tgt s (k : mst -> samp A) a tr,
  reachT (@find_next tmax A time (trans_rate g tau src tgt) src tgt s k) a tr ->
  exists s' cs tr2, fn_rel time src tgt s s' cs /\ reachT (k s') a tr2 /\ tr = map clk_call cs ++ tr2.
Proof.
  intros A time src tgt s k a tr H. unfold find_next in H. cbv zeta beta in H.
  destruct (xtlt (ms_rec s tgt) (ms_rec s src)) eqn:G.
  2:{ exists s, [], tr. split; [apply fn_skip; exact G|]. split; [exact H|reflexivity]. }
  set (rate := trans_rate g tau src tgt) in *.
  destruct (Qltb 0 rate) eqn:Hr.
  - apply Qltb_true in Hr.
    destruct (ms_rec s tgt) as [r|] eqn:Er; [|discriminate G].
    inversion H as [|r0 k0 d a0 tr1 Hnz Hd Hk| | | |]; subst. clear H. cbv beta in Hk. cbn [xtlt] in Hk.
    destruct (Qltb (tadd time d) r) eqn:Hre.
    + inversion Hk as [|r0 k0 d2 a0 tr2 Hnz2 Hd2 Hk2| | | |]; subst. clear Hk. cbv beta in Hk2.
      apply Qltb_true in Hre.
      change (match ms_rec s src with Some y => Qltb (tadd r d2) y | None => true end)
        with (xtlt (Some (tadd r d2)) (ms_rec s src)) in Hk2.
      rewrite (if_k _ k) in Hk2.
      exists (fin_state src tgt s (tadd r d2)), [KAtt src tgt (per s src) time d false; KAtt src tgt (per s src) r d2 true], tr2.
      split; [apply (fn_two time src tgt s d r d2); try assumption; rewrite Er; exact G|]. split; [exact Hk2|reflexivity].
    + change (match ms_rec s src with Some y => Qltb (tadd time d) y | None => true end)
        with (xtlt (Some (tadd time d)) (ms_rec s src)) in Hk.
      rewrite (if_k _ k) in Hk.
      exists (fin_state src tgt s (tadd time d)), [KAtt src tgt (per s src) time d false], tr1.
      split; [apply fn_one; try assumption; [rewrite Er; exact G|rewrite Er; exact Hre]|]. split; [exact Hk|reflexivity].
  - destruct (Qeqb rate 0) eqn:Hz; [|inversion H].
    apply Qeqb_true in Hz. cbn [xtlt] in H.
    exists s, [], tr. split; [apply fn_zero; assumption|]. split; [exact H|reflexivity].
Qed.

Inductive fna_rel (time : Q) (u : node) : list node -> mst -> mst -> list clk -> Prop :=
| fna_nil : forall s, fna_rel time u [] s s []
| fna_cons : forall v rest s s1 s2 c1 c2, fn_rel time u v s s1 c1 -> fna_rel time u rest s1 s2 c2 ->
    fna_rel time u (v :: rest) s s2 (c1 ++ c2).

Lemma find_next_all_reachT : forall A time u nbrs s (k : mst -> samp A) a tr,
  reachT (@find_next_all g tau tmax A time u nbrs s k) a tr ->
  exists s' cs tr2, fna_rel time u nbrs s s' cs /\ reachT (k s') a tr2 /\ tr = map clk_call cs ++ tr2.
Proof.
  intros A time u nbrs. induction nbrs as [|v rest IH]; intros s k a tr H; cbn [find_next_all] in H.
  - exists s, [], tr. split; [constructor|]. split; [exact H|reflexivity].
  - apply find_next_reachT in H. destruct H as [s1 [c1 [tr1 [H1 [H2 E1]]]]].
    apply IH in H2. destruct H2 as [s2 [c2 [tr2 [H3 [H4 E2]]]]].
    exists s2, (c1 ++ c2), tr2. split; [econstructor; eassumption|]. split; [exact H4|].
    rewrite E1, E2, map_app, app_assoc. reflexivity.
Qed.

(* the state right after the infection of tgt, with the drawn recovery time *)
Definition inf_state (time : Q) (src : option node) (tgt : node) (s : mst) (rt : xtime) : mst :=
  mkM (fupdN (ms_stat s) tgt stI) (fupdN (ms_rec s) tgt rt)
      (match rt with
       | Some r => if xtlt rt tmax then q_add tmax (ms_q s) r (MRec tgt) else ms_q s
       | None => ms_q s
       end) (log_inf (ms_log s) time src tgt).

Inductive after_rel (time : Q) (src : option node) (tgt : node) (s : mst) : mst -> list clk -> Prop :=
| af_none : src = None -> after_rel time src tgt s s []
| af_some : forall u s' c, src = Some u -> fn_rel time u tgt s s' c -> after_rel time src tgt s s' c.

Inductive rec_draw (time : Q) (tgt : node) : xtime -> list clk -> Prop :=
| rd_pos : forall d, 0 < rec_rate g gamma tgt -> 0 <= d -> rec_draw time tgt (Some (tadd time d)) [KRec tgt time d]
| rd_zero : rec_rate g gamma tgt == 0 -> rec_draw time tgt None [].

(* _process_trans_SIS_Markov *)
Inductive mt_rel (time : Q) (src : option node) (tgt : node) (s : mst) : mst -> list clk -> Prop :=
| mt_hit : forall s' c, ms_stat s tgt <> stS -> after_rel time src tgt s s' c -> mt_rel time src tgt s s' c
| mt_inf : forall rt c0 s1 c1 s2 c2, ms_stat s tgt = stS -> rec_draw time tgt rt c0 ->
    fna_rel time tgt (gadj g tgt) (inf_state time src tgt s rt) s1 c1 ->
    after_rel time src tgt s1 s2 c2 ->
    mt_rel time src tgt s s2 (c0 ++ c1 ++ c2).

Lemma after_reachT : forall A time src tgt s (k : mst -> samp A) a tr,
  reachT (match src with
          | Some u => @find_next tmax A time (trans_rate g tau u tgt) u tgt s k
          | None => k s end) a tr ->
  exists s' cs tr2, after_rel time src tgt s s' cs /\ reachT (k s') a tr2 /\ tr = map clk_call cs ++ tr2.
Proof.
  intros A time [u|] tgt s k a tr H.
  - apply find_next_reachT in H. destruct H as [s' [cs [tr2 [H1 [H2 E]]]]].
    exists s', cs, tr2. split; [eapply af_some; [reflexivity|exact H1]|]. split; assumption.
  - exists s, [], tr. split; [apply af_none; reflexivity|]. split; [exact H|reflexivity].
Qed.

Lemma m_trans_reachT : forall A time src tgt s (k : mst -> samp A) a tr,
  reachT (@m_trans g tau gamma tmax A time src tgt s k) a tr ->
  exists s' cs tr2, mt_rel time src tgt s s' cs /\ reachT (k s') a tr2 /\ tr = map clk_call cs ++ tr2.
Proof.
  intros A time src tgt s k a tr H. unfold m_trans in H.
  destruct (N.eqb_spec (ms_stat s tgt) stS) as [HS|HS].
  - assert (K : forall rt c0 tr0, rec_draw time tgt rt c0 ->
       reachT (@find_next_all g tau tmax A time tgt (gadj g tgt) (inf_state time src tgt s rt)
                 (fun s1 => match src with
                            | Some u => @find_next tmax A time (trans_rate g tau u tgt) u tgt s1 k
                            | None => k s1 end)) a tr0 ->
       exists s' cs tr2, mt_rel time src tgt s s' cs /\ reachT (k s') a tr2 /\ map clk_call c0 ++ tr0 = map clk_call cs ++ tr2).
    { intros rt c0 tr0 Hrd H0. apply find_next_all_reachT in H0. destruct H0 as [s1 [c1 [tr1 [H1 [H2 E1]]]]].
      apply after_reachT in H2. destruct H2 as [s2 [c2 [tr2 [H3 [H4 E2]]]]].
      exists s2, (c0 ++ c1 ++ c2), tr2. split; [eapply mt_inf; eassumption|]. split; [exact H4|].
      rewrite E1, E2, !map_app, !app_assoc. reflexivity. }
    destruct (Qltb 0 (rec_rate g gamma tgt)) eqn:Hr.
    + apply Qltb_true in Hr. inversion H as [|r0 k0 d a0 tr1 Hnz Hd Hk| | | |]; subst. clear H.
      apply (K (Some (tadd time d)) [KRec tgt time d] tr1); [constructor; assumption|exact Hk].
    + destruct (Qeqb (rec_rate g gamma tgt) 0) eqn:Hz; [|inversion H]. apply Qeqb_true in Hz.
      apply (K None [] tr); [constructor; exact Hz|exact H].
  - apply after_reachT in H. destruct H as [s' [cs [tr2 [H1 [H2 E]]]]].
    exists s', cs, tr2. split; [apply mt_hit; assumption|]. split; assumption.
Qed.

(* the event loop *)
Inductive ml_rel : mst -> mst -> list clk -> Prop :=
| ml_done : forall s, q_items (ms_q s) = [] -> ml_rel s s []
| ml_rec : forall s t c v rest s' cs, q_items (ms_q s) = (t, c, MRec v) :: rest ->
    ml_rel (m_recover t v (pop_state s rest)) s' cs -> ml_rel s s' cs
| ml_tr : forall s t c src tgt rest s1 c1 s' c2, q_items (ms_q s) = (t, c, MTrans src tgt) :: rest ->
    mt_rel t src tgt (pop_state s rest) s1 c1 -> ml_rel s1 s' c2 -> ml_rel s s' (c1 ++ c2).

Lemma m_loop_reachT : forall tmin full ni0 fuel s out tr,
  reachT (m_loop g tau gamma tmax tmin full ni0 fuel s) out tr ->
  exists s' cs, ml_rel s s' cs /\ q_items (ms_q s') = [] /\
                out = finish g tmin full ni0 (ms_log s') /\ tr = map clk_call cs.
Proof.
  intros tmin full ni0 fuel. induction fuel as [|f IH]; intros s out tr H; cbn [m_loop] in H.
  - destruct (q_items (ms_q s)) as [|[[t c] e] rest] eqn:Eq; [|inversion H].
    inversion H; subst. exists s, []. repeat split; [apply ml_done; exact Eq|exact Eq].
  - destruct (q_items (ms_q s)) as [|[[t c] e] rest] eqn:Eq.
    + inversion H; subst. exists s, []. repeat split; [apply ml_done; exact Eq|exact Eq].
    + destruct e as [v|src tgt].
      * apply IH in H. destruct H as [s' [cs [H1 [H2 [H3 H4]]]]]. exists s', cs.
        split; [eapply ml_rec; [exact Eq|exact H1]|]. repeat split; assumption.
      * apply m_trans_reachT in H. destruct H as [s1 [c1 [tr1 [H1 [H2 E1]]]]].
        apply IH in H2. destruct H2 as [s' [c2 [H3 [H4 [H5 H6]]]]]. exists s', (c1 ++ c2).
        split; [eapply ml_tr; [exact Eq|exact H1|exact H3]|]. split; [exact H4|]. split; [exact H5|].
        rewrite E1, H6, map_app. reflexivity.
Qed.

(* invariants of the loop are invariants of its steps *)
Lemma ml_rel_ind_inv : forall (I : mst -> Prop),
  (forall s t c v rest, I s -> q_items (ms_q s) = (t, c, MRec v) :: rest -> I (m_recover t v (pop_state s rest))) ->
  (forall s t c src tgt rest s1 c1, I s -> q_items (ms_q s) = (t, c, MTrans src tgt) :: rest ->
     mt_rel t src tgt (pop_state s rest) s1 c1 -> I s1) ->
  forall s s' cs, ml_rel s s' cs -> I s -> I s'.
Proof.
  intros I Hr Ht s s' cs H. induction H as [s Eq|s t c v rest s' cs Eq H IH|s t c src tgt rest s1 c1 s' c2 Eq Hm H IH]; intro Hi.
  - exact Hi.
  - apply IH. eapply Hr; eassumption.
  - apply IH. eapply Ht; eassumption.
Qed.

(* the whole simulator, explicit initial nodes *)
Theorem fast_SIS_reachT : forall i0 tmin full fuel ds out tr,
  exec (fast_SIS g tau gamma tmax (Some i0) None tmin full fuel) ds [] = (Ok out, tr) ->
  exists s' cs, ml_rel (m_init g tmax tmin i0) s' cs /\ q_items (ms_q s') = [] /\
    out = finish g tmin full (length i0) (ms_log s') /\
    tr = map (fun c => fst (clk_call c)) cs /\
    map (fun c => snd (clk_call c)) cs = firstn (length cs) ds.
Proof.
  intros i0 tmin full fuel ds out tr H. unfold fast_SIS, with_initial in H.
  assert (Hn : nochoose (m_loop g tau gamma tmax tmin full (length i0) fuel (m_init g tmax tmin i0))).
  { pose proof (m_loop_inv g tau gamma tmax tmin full (length i0) fuel _ (m_init_inv g tmax tmin i0)) as K.
    apply allSC_split in K. destruct K as [_ K]. eapply allC_nochoose. exact K. }
  destruct (exec_reachT _ _ Hn ds [] out tr H) as [tr0 [H1 [H2 H3]]].
  apply m_loop_reachT in H1. destruct H1 as [s' [cs [K1 [K2 [K3 K4]]]]].
  exists s', cs. split; [exact K1|]. split; [exact K2|]. split; [exact K3|]. subst tr0. split.
  - rewrite H2. cbn [rev app]. rewrite map_map. reflexivity.
  - rewrite map_map, map_length in H3. exact H3.
Qed.

End Rel.
