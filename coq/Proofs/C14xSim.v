(* C14, proof side, simulators driven by deterministic user rules: relabelling / insertion-order
   invariance as COROLLARIES of the characterisations already proved
     C12 (Proofs/DiscreteP.v, dsir_bfs): discrete_SIR under a table of contact outcomes = breadth-first
         generations of the kept digraph, for every iteration-order oracle;
     C11 (Proofs/EventSIRTop.v, esir_first_passage): fast_nonMarkov_SIR under tables of delays and durations
         = first-passage percolation (infection time = tmin + shortest-path distance), for every tie policy.
   A graph isomorphism phi (node list and adjacency lists in ANY order, initial sets given in ANY order)
   that transports the rule tables preserves walks / paths with their lengths / costs, hence the
   characterised outputs. *)
From EoNV Require Import Prelude Samp Graph EventSIR EventSIRP EventSIRInv EventSIRMain EventSIRChar EventSIRTop EventSIROut EventSIRPred
     Discrete DiscreteP C14xOut.
From Coq Require Import Permutation Lqa.

Section SimIso.
Variables (g g' : graph) (phi : node -> node).
Hypothesis Hinj : forall u v, phi u = phi v -> u = v.
Hypothesis Hnodes : Permutation (gnodes g') (map phi (gnodes g)).
Hypothesis Hadj : forall u, In u (gnodes g) -> Permutation (gadj g' (phi u)) (map phi (gadj g u)).
Variables (i0 i0' r0 r0' : list node).
Hypothesis Hi0 : Permutation i0' (map phi i0).
Hypothesis Hr0 : Permutation r0' (map phi r0).

Lemma in_map_phi v l : In (phi v) (map phi l) <-> In v l.
Proof.
  split; [|apply in_map]. intros H. apply in_map_iff in H. destruct H as [x [E Hx]]. apply Hinj in E. subst. exact Hx.
Qed.
Lemma in_perm_phi v l l' : Permutation l' (map phi l) -> (In (phi v) l' <-> In v l).
Proof.
  intros P. split; intros H.
  - apply in_map_phi. apply (Permutation_in _ P), H.
  - apply (Permutation_in _ (Permutation_sym P)). apply in_map, H.
Qed.
Lemma in_perm_ex x l l' : Permutation l' (map phi l) -> In x l' -> exists v, x = phi v /\ In v l.
Proof.
  intros P H. apply (Permutation_in _ P) in H. apply in_map_iff in H. destruct H as [v [E Hv]].
  exists v. split; [symmetry; exact E|exact Hv].
Qed.
Lemma mem_perm_phi v l l' : Permutation l' (map phi l) -> mem (phi v) l' = mem v l.
Proof. intros P. apply Bool.eq_iff_eq_true. rewrite !dmem_In. apply in_perm_phi, P. Qed.
Lemma len_perm_phi (l l' : list node) : Permutation l' (map phi l) -> length l' = length l.
Proof. intros P. rewrite (Permutation_length P), map_length. reflexivity. Qed.
Lemma NoDup_map_phi l : NoDup l -> NoDup (map phi l).
Proof.
  induction 1 as [|x l Hx Hl IH]; cbn [map]; constructor; [|exact IH]. rewrite in_map_phi. exact Hx.
Qed.
Lemma adj_fwd u v : In u (gnodes g) -> (In (phi v) (gadj g' (phi u)) <-> In v (gadj g u)).
Proof. intros Hu. apply in_perm_phi, Hadj, Hu. Qed.
Lemma adj_ex u y : In u (gnodes g) -> In y (gadj g' (phi u)) -> exists v, y = phi v /\ In v (gadj g u).
Proof. intros Hu. apply in_perm_ex, Hadj, Hu. Qed.

(* ---------- the domain predicates of the copy follow from those of the original ---------- *)
Lemma NoDup_nodupb (l : list node) : NoDup l -> nodupb l = true.
Proof.
  induction 1 as [|x l Hx Hl IH]; [reflexivity|]. cbn [nodupb]. rewrite IH, andb_true_r. apply negb_true_iff.
  apply dmem_false. exact Hx.
Qed.
Lemma In_subsetb (a b : list node) : (forall v, In v a -> In v b) -> subsetb a b = true.
Proof. intros H. unfold subsetb. apply forallb_forall. intros x Hx. apply dmem_In, H, Hx. Qed.
Lemma nodupb_perm_phi l l' : Permutation l' (map phi l) -> nodupb l = true -> nodupb l' = true.
Proof.
  intros P H. apply NoDup_nodupb. apply (Permutation_NoDup (Permutation_sym P)). apply NoDup_map_phi, DiscreteGenP.nodupb_NoDup, H.
Qed.
Lemma subsetb_perm_phi a a' b b' : Permutation a' (map phi a) -> Permutation b' (map phi b) ->
  subsetb a b = true -> subsetb a' b' = true.
Proof.
  intros Pa Pb H. apply In_subsetb. intros x Hx. destruct (in_perm_ex x _ _ Pa Hx) as [v [-> Hv]].
  apply (in_perm_phi v _ _ Pb). apply (DiscreteGenP.subsetb_In _ _ H v Hv).
Qed.
Lemma disjointb_perm_phi : forallb (fun v => negb (mem v r0)) i0 = true -> forallb (fun v => negb (mem v r0')) i0' = true.
Proof.
  intros H. apply forallb_forall. intros x Hx. destruct (in_perm_ex x _ _ Hi0 Hx) as [v [-> Hv]].
  rewrite (mem_perm_phi v _ _ Hr0). rewrite forallb_forall in H. apply H, Hv.
Qed.
Theorem wf_inputb_iso : wf_inputb g i0 r0 = true -> wf_inputb g' i0' r0' = true.
Proof.
  unfold wf_inputb. intros H.
  apply andb_true_iff in H. destruct H as [H H7]. apply andb_true_iff in H. destruct H as [H H6].
  apply andb_true_iff in H. destruct H as [H H5]. apply andb_true_iff in H. destruct H as [H H4].
  apply andb_true_iff in H. destruct H as [H H3]. apply andb_true_iff in H. destruct H as [H1 H2].
  rewrite (nodupb_perm_phi _ _ Hnodes H1), (nodupb_perm_phi _ _ Hi0 H3), (nodupb_perm_phi _ _ Hr0 H4).
  rewrite (subsetb_perm_phi _ _ _ _ Hi0 Hnodes H5), (subsetb_perm_phi _ _ _ _ Hr0 Hnodes H6), (disjointb_perm_phi H7).
  rewrite !andb_true_r. apply forallb_forall. intros x Hx. destruct (in_perm_ex x _ _ Hnodes Hx) as [u [-> Hu]].
  rewrite forallb_forall in H2. apply (subsetb_perm_phi _ _ _ _ (Hadj u Hu) Hnodes (H2 u Hu)).
Qed.

(* ====================================================================== *)
(* discrete_SIR                                                            *)
(* ====================================================================== *)
Section DSIR.
Variables (tt tt' : node -> node -> nat -> bool).
Hypothesis HT : forall u v, tt' (phi u) (phi v) O = tt u v O.
Hypothesis W : wf_inputb g i0 r0 = true.
Let W' : wf_inputb g' i0' r0' = true := wf_inputb_iso W.
Notation T := (T0 tt).
Notation T' := (T0 tt').

Lemma arc_fwd u v : arc g T r0 u v -> arc g' T' r0' (phi u) (phi v).
Proof.
  intros (Hu & Hv & Ht & Hr). repeat split.
  - apply (in_perm_phi u _ _ Hnodes), Hu.
  - apply (adj_fwd u v Hu), Hv.
  - unfold T0. rewrite HT. exact Ht.
  - rewrite (in_perm_phi v _ _ Hr0). exact Hr.
Qed.
Lemma arc_bwd x y : arc g' T' r0' x y -> exists u v, x = phi u /\ y = phi v /\ arc g T r0 u v.
Proof.
  intros (Hx & Hy & Ht & Hr). destruct (in_perm_ex x _ _ Hnodes Hx) as [u [-> Hu]].
  destruct (adj_ex u y Hu Hy) as [v [-> Hv]]. exists u, v. repeat split; try assumption.
  - unfold T0 in *. rewrite HT in Ht. exact Ht.
  - rewrite (in_perm_phi v _ _ Hr0) in Hr. exact Hr.
Qed.
Lemma walk_fwd v n : walk g T i0 r0 v n -> walk g' T' i0' r0' (phi v) n.
Proof.
  induction 1 as [v Hv|u v n Hw IH Ha]; [apply walk0; apply (in_perm_phi v _ _ Hi0), Hv|].
  eapply walkS; [exact IH|apply arc_fwd, Ha].
Qed.
Lemma walk_bwd x n : walk g' T' i0' r0' x n -> exists v, x = phi v /\ walk g T i0 r0 v n.
Proof.
  induction 1 as [x Hx|x y n Hw IH Ha].
  - destruct (in_perm_ex x _ _ Hi0 Hx) as [v [-> Hv]]. exists v. split; [reflexivity|apply walk0, Hv].
  - destruct IH as [u [-> Hu]]. destruct (arc_bwd _ _ Ha) as (u1 & v & E1 & -> & Ha1). apply Hinj in E1. subst u1.
    exists v. split; [reflexivity|]. eapply walkS; eassumption.
Qed.
Lemma walk_iff v n : walk g' T' i0' r0' (phi v) n <-> walk g T i0 r0 v n.
Proof.
  split; [|apply walk_fwd]. intros H. destruct (walk_bwd _ _ H) as [u [E Hu]]. apply Hinj in E. subst. exact Hu.
Qed.
(* breadth-first generations are preserved *)
Theorem bfs_iff v n : bfs_dist g' T' i0' r0' (phi v) n <-> bfs_dist g T i0 r0 v n.
Proof.
  unfold bfs_dist. rewrite walk_iff. split; intros [H1 H2]; (split; [exact H1|]); intros m Hm; specialize (H2 m Hm);
    [rewrite <- walk_iff|rewrite walk_iff]; exact H2.
Qed.

Let P := wf_input_props g i0 r0 W.
Let P' := wf_input_props g' i0' r0' W'.
Lemma Ig_iff k v : In (phi v) (Ig g' T' i0' r0' k) <-> In v (Ig g T i0 r0 k).
Proof.
  destruct P as (_ & A & B & _). destruct P' as (_ & A' & B' & _).
  rewrite (gen_is_bfs g' T' i0' r0' A' B'), (gen_is_bfs g T i0 r0 A B). apply bfs_iff.
Qed.
Lemma Sg_iff k v : In (phi v) (Sg g' T' i0' r0' k) <-> In v (Sg g T i0 r0 k).
Proof.
  destruct P as (_ & A & B & _). destruct P' as (_ & A' & B' & _).
  rewrite (proj2 (gen_inv g' T' i0' r0' A' B' k)), (proj2 (gen_inv g T i0 r0 A B k)).
  rewrite (in_perm_phi v _ _ Hnodes), (in_perm_phi v _ _ Hr0).
  split; intros (H1 & H2 & H3); (split; [exact H1|split; [exact H2|]]); intros m Hm; specialize (H3 m Hm);
    [rewrite <- walk_iff|rewrite walk_iff]; exact H3.
Qed.
Lemma perm_of_iff (L L' : list node) :
  NoDup L -> NoDup L' -> (forall x, In x L' -> In x (gnodes g')) -> (forall v, In (phi v) L' <-> In v L) ->
  Permutation L' (map phi L).
Proof.
  intros N1 N2 Hs H. apply NoDup_Permutation; [exact N2|apply NoDup_map_phi, N1|]. intros x. split.
  - intros Hx. destruct (in_perm_ex x _ _ Hnodes (Hs x Hx)) as [v [-> _]]. apply in_map, H, Hx.
  - intros Hx. apply in_map_iff in Hx. destruct Hx as [v [<- Hv]]. apply H, Hv.
Qed.
Lemma Ig_perm k : Permutation (Ig g' T' i0' r0' k) (map phi (Ig g T i0 r0 k)).
Proof.
  destruct P as (N1 & _). destruct P' as (N2 & _).
  apply perm_of_iff; [apply Ig_NoDup, N1|apply Ig_NoDup, N2|apply Ig_sub|apply Ig_iff].
Qed.
Lemma Sg_perm k : Permutation (Sg g' T' i0' r0' k) (map phi (Sg g T i0 r0 k)).
Proof.
  destruct P as (N1 & _). destruct P' as (N2 & _).
  apply perm_of_iff; [apply Sg_NoDup, N1|apply Sg_NoDup, N2|apply Sg_sub|apply Sg_iff].
Qed.
Lemma lenZ_perm (L L' : list node) : Permutation L' (map phi L) -> lenZ L' = lenZ L.
Proof. intros H. unfold lenZ. rewrite (len_perm_phi _ _ H). reflexivity. Qed.

Lemma Rg_eq k : Rg g' tt' i0' r0' k = Rg g tt i0 r0 k.
Proof. induction k as [|k IH]; cbn [Rg]; [apply lenZ_perm, Hr0|]. rewrite IH, (lenZ_perm _ _ (Ig_perm k)). reflexivity. Qed.
Lemma order_eq : order g' = order g.
Proof. unfold order. rewrite (len_perm_phi _ _ Hnodes). reflexivity. Qed.
Lemma rows_to_eq tmin k : rows_to g' tt' i0' r0' tmin k = rows_to g tt i0 r0 tmin k.
Proof.
  induction k as [|k IH]; cbn [rows_to].
  - rewrite order_eq, (lenZ_perm _ _ Hi0), (lenZ_perm _ _ Hr0). reflexivity.
  - rewrite IH, (lenZ_perm _ _ (Sg_perm (S k))), (lenZ_perm _ _ (Ig_perm (S k))), (Rg_eq (S k)). reflexivity.
Qed.
Lemma nonempty_perm (L L' : list node) : Permutation L' (map phi L) -> nonempty L' = nonempty L.
Proof. intros H. apply len_perm_phi in H. destruct L, L'; cbn in H; try discriminate; reflexivity. Qed.
Lemma stop_eq tmin tmax k : stop g' tt' i0' r0' tmin tmax k = stop g tt i0 r0 tmin tmax k.
Proof. unfold stop. rewrite (nonempty_perm _ _ (Ig_perm k)). reflexivity. Qed.
Lemma first_stop_iff tmin tmax K : first_stop g' tt' i0' r0' tmin tmax K <-> first_stop g tt i0 r0 tmin tmax K.
Proof. unfold first_stop. rewrite stop_eq. split; intros [H1 H2]; (split; [|exact H2]); intros j Hj; specialize (H1 j Hj); rewrite stop_eq in *; exact H1. Qed.
Lemma events_to_eq full tmin tmax K v :
  events_to g' tt' full i0' r0' tmin tmax K (phi v) = events_to g tt full i0 r0 tmin tmax K v.
Proof.
  induction K as [|K IH]; cbn [events_to]; [reflexivity|]. rewrite IH.
  rewrite (mem_perm_phi v _ _ (Ig_perm K)), (mem_perm_phi v _ _ (Ig_perm (S K))). reflexivity.
Qed.
Lemma init_status_eq v : init_status i0' r0' (phi v) = init_status i0 r0 v.
Proof. unfold init_status. rewrite (mem_perm_phi v _ _ Hr0), (mem_perm_phi v _ _ Hi0). reflexivity. Qed.

(* the relabelling of a list of per-node histories *)
Definition relabel_hist (h : list (node * history)) : list (node * history) := map (fun uh => (phi (fst uh), snd uh)) h.
Lemma l1_hist_perm full tmin tmax K :
  Permutation (l1_hist g' tt' full i0' r0' tmin tmax K) (relabel_hist (l1_hist g tt full i0 r0 tmin tmax K)).
Proof.
  unfold l1_hist, relabel_hist. rewrite map_map.
  set (F' := fun u' => (u', (tmin, init_status i0' r0' u') :: events_to g' tt' full i0' r0' tmin tmax K u')).
  etransitivity; [apply (Permutation_map F' Hnodes)|]. rewrite map_map.
  assert (E : forall u, F' (phi u) = (phi (fst (u, (tmin, init_status i0 r0 u) :: events_to g tt full i0 r0 tmin tmax K u)),
                                      snd (u, (tmin, init_status i0 r0 u) :: events_to g tt full i0 r0 tmin tmax K u)))
    by (intros u; unfold F'; cbn [fst snd]; rewrite init_status_eq, events_to_eq; reflexivity).
  rewrite (map_ext _ _ E). apply Permutation_refl.
Qed.

(* discrete_SIR on the relabelled / re-ordered input, any two iteration-order oracles, any pick rules:
   identical rows; per-node histories mapped through phi (listed in the order of the copy's node list) *)
Theorem dsir_relabel_invariant r0o r0o' pick pick' ord ord' tmin tmax full fuel fuel' :
  opt_list r0o = r0 -> opt_list r0o' = r0' ->
  perm_oracle ord -> perm_oracle ord' -> (length (gnodes g) < fuel)%nat -> (length (gnodes g') < fuel')%nat ->
  exists out out',
    discrete_SIR g (det_rules tt pick) None ord (Some i0) r0o None tmin tmax full fuel = Ret out /\
    discrete_SIR g' (det_rules tt' pick') None ord' (Some i0') r0o' None tmin tmax full fuel' = Ret out' /\
    so_rows (o_sim out') = so_rows (o_sim out) /\
    (if full then exists h h', option_map fd_hist (so_full (o_sim out)) = Some h /\ option_map fd_hist (so_full (o_sim out')) = Some h' /\
                               Permutation h' (relabel_hist h)
     else so_full (o_sim out) = None /\ so_full (o_sim out') = None).
Proof.
  intros E1 E2 O1 O2 F1 F2. pose proof W as W1. pose proof W' as W2. rewrite <- E1 in W1. rewrite <- E2 in W2.
  destruct (dsir_bfs g tt pick ord i0 r0o tmin tmax full fuel W1 O1 F1) as (K & out & HK & Hrun & Hrows & Hfull & _).
  destruct (dsir_bfs g' tt' pick' ord' i0' r0o' tmin tmax full fuel' W2 O2 F2) as (K' & out' & HK' & Hrun' & Hrows' & Hfull' & _).
  cbv zeta in *. rewrite E1 in *. rewrite E2 in *.
  assert (EK : K' = K) by (apply (first_stop_unique g tt i0 r0 tmin tmax); [apply first_stop_iff, HK'|exact HK]). subst K'.
  exists out, out'. split; [exact Hrun|]. split; [exact Hrun'|]. split.
  - rewrite Hrows, Hrows'. unfold l1_rows. rewrite rows_to_eq. reflexivity.
  - destruct full.
    + destruct Hfull as [tr E], Hfull' as [tr' E']. rewrite E, E'. cbn [option_map fd_hist].
      eexists; eexists. split; [reflexivity|]. split; [reflexivity|]. apply l1_hist_perm.
    + split; assumption.
Qed.
End DSIR.

(* ====================================================================== *)
(* fast_nonMarkov_SIR                                                      *)
(* ====================================================================== *)
Section ESIR.
Variables (delay delay' : node -> node -> xtime) (dur dur' : node -> xtime).
Hypothesis Hdelay : forall u v, delay' (phi u) (phi v) = delay u v.
Hypothesis Hdur : forall u, dur' (phi u) = dur u.
Notation HE := (hedge g delay dur r0).
Notation HE' := (hedge g' delay' dur' r0').
Notation HP := (hpath g delay dur i0 r0).
Notation HP' := (hpath g' delay' dur' i0' r0').

Lemma hedge_fwd u v d : HE u v d -> HE' (phi u) (phi v) d.
Proof.
  intros (Hu & Hv & Hr & Hd & Hx). repeat split.
  - apply (in_perm_phi u _ _ Hnodes), Hu.
  - apply (adj_fwd u v Hu), Hv.
  - rewrite (in_perm_phi v _ _ Hr0). exact Hr.
  - rewrite Hdelay. exact Hd.
  - rewrite Hdur. exact Hx.
Qed.
Lemma hedge_bwd x y d : HE' x y d -> exists u v, x = phi u /\ y = phi v /\ HE u v d.
Proof.
  intros (Hx & Hy & Hr & Hd & Hl). destruct (in_perm_ex x _ _ Hnodes Hx) as [u [-> Hu]].
  destruct (adj_ex u y Hu Hy) as [v [-> Hv]]. exists u, v. repeat split; try assumption.
  - rewrite (in_perm_phi v _ _ Hr0) in Hr. exact Hr.
  - rewrite Hdelay in Hd. exact Hd.
  - rewrite Hdur in Hl. exact Hl.
Qed.
Lemma hpath_fwd v c : HP v c -> HP' (phi v) c.
Proof.
  induction 1 as [v Hv|u v c d Hp IH He]; [apply hp0, (in_perm_phi v _ _ Hi0), Hv|].
  eapply hpS; [exact IH|apply hedge_fwd, He].
Qed.
Lemma hpath_bwd x c : HP' x c -> exists v, x = phi v /\ HP v c.
Proof.
  induction 1 as [x Hx|x y c d Hp IH He].
  - destruct (in_perm_ex x _ _ Hi0 Hx) as [v [-> Hv]]. exists v. split; [reflexivity|apply hp0, Hv].
  - destruct IH as [u [-> Hu]]. destruct (hedge_bwd _ _ _ He) as (u1 & v & E1 & -> & He1). apply Hinj in E1. subst u1.
    exists v. split; [reflexivity|]. eapply hpS; eassumption.
Qed.
(* paths of the delay graph are preserved with their costs: same distances *)
Theorem hpath_iff v c : HP' (phi v) c <-> HP v c.
Proof.
  split; [|apply hpath_fwd]. intros H. destruct (hpath_bwd _ _ H) as [u [E Hu]]. apply Hinj in E. subst. exact Hu.
Qed.

Lemma nonneg_all_perm u : In u (gnodes g) ->
  forallb (fun v => nonnegx (delay u v)) (gadj g u) = true -> forallb (fun v => nonnegx (delay' (phi u) v)) (gadj g' (phi u)) = true.
Proof.
  intros Hu H. apply forallb_forall. intros y Hy. destruct (adj_ex u y Hu Hy) as [v [-> Hv]]. rewrite Hdelay.
  rewrite forallb_forall in H. apply H, Hv.
Qed.
Theorem esir_okb_iso tmin tmax : esir_okb g delay dur i0 r0 tmin tmax = true -> esir_okb g' delay' dur' i0' r0' tmin tmax = true.
Proof.
  unfold esir_okb. intros H.
  apply andb_true_iff in H. destruct H as [H H5]. apply andb_true_iff in H. destruct H as [H H4].
  apply andb_true_iff in H. destruct H as [H H3]. apply andb_true_iff in H. destruct H as [H1 H2].
  rewrite (nodupb_perm_phi _ _ Hnodes H1), (subsetb_perm_phi _ _ _ _ Hi0 Hnodes H3), (disjointb_perm_phi H4), H5.
  rewrite !andb_true_r. apply forallb_forall. intros x Hx. destruct (in_perm_ex x _ _ Hnodes Hx) as [u [-> Hu]].
  rewrite forallb_forall in H2. specialize (H2 u Hu).
  apply andb_true_iff in H2. destruct H2 as [H2 D4]. apply andb_true_iff in H2. destruct H2 as [H2 D3].
  apply andb_true_iff in H2. destruct H2 as [D1 D2].
  rewrite (nodupb_perm_phi _ _ (Hadj u Hu) D1), (subsetb_perm_phi _ _ _ _ (Hadj u Hu) Hnodes D2), Hdur, D3, (nonneg_all_perm u Hu D4). reflexivity.
Qed.

Lemma ltmax_comp tmax a b : a == b -> (ltmax tmax a <-> ltmax tmax b).
Proof.
  intros H. unfold ltmax, xltb. destruct tmax as [m|]; [|tauto]. rewrite (Qltb_comp a b m m H (Qeq_refl m)). tauto.
Qed.

(* fast_nonMarkov_SIR (its event loop esir_run) on the relabelled / re-ordered input, ANY two tie policies:
   who is infected, every infection time, every recovery time and every final status are mapped through phi *)
Theorem esir_relabel_invariant tb tb' tmin tmax fuel fuel' :
  esir_okb g delay dur i0 r0 tmin tmax = true ->
  (esir_fuel g i0 <= fuel)%nat -> (esir_fuel g' i0' <= fuel')%nat ->
  exists sF sF',
    esir_run tb g delay dur i0 r0 tmin tmax fuel = Ok sF /\
    esir_run tb' g' delay' dur' i0' r0' tmin tmax fuel' = Ok sF' /\
    (forall v, infd (tlog sF') (phi v) <-> infd (tlog sF) v) /\
    (forall v t a t' a', In (t, a, v) (tlog sF) -> In (t', a', phi v) (tlog sF') ->
        t' == t /\ (exists r r', rect sF v = Some r /\ rect sF' (phi v) = Some r' /\
                                 match r, r' with Some x, Some x' => x' == x | None, None => True | _, _ => False end)) /\
    (forall v, stat sF' (phi v) = stat sF v).
Proof.
  intros OK F F'. pose proof (esir_okb_iso tmin tmax OK) as OK'.
  destruct (EventSIRTop.esir_first_passage tb g delay dur i0 r0 tmin tmax fuel OK F) as (sF & Hrun & _ & S).
  destruct (EventSIRTop.esir_first_passage tb' g' delay' dur' i0' r0' tmin tmax fuel' OK' F') as (sF' & Hrun' & _ & S').
  exists sF, sF'. split; [exact Hrun|]. split; [exact Hrun'|].
  destruct S as (S1 & S2 & S3 & S4 & S5 & S6 & S7 & S8). destruct S' as (S1' & S2' & S3' & S4' & S5' & S6' & S7' & S8').
  assert (NS : forall v, ~ In v r0 -> (stat sF' (phi v) <> stS <-> stat sF v <> stS)).
  { intros v Hr. rewrite (S1 v Hr), (S1' (phi v)) by (rewrite (in_perm_phi v _ _ Hr0); exact Hr).
    split; intros [c [Hp Hl]]; exists c; (split; [|exact Hl]); apply hpath_iff; exact Hp. }
  assert (NR : forall t s v, In (t, s, v) (tlog sF) -> ~ In v r0).
  { intros t s v H Hr. apply (proj2 (S2 v Hr)). exists t, s. exact H. }
  assert (NR' : forall t s v, In (t, s, phi v) (tlog sF') -> ~ In v r0).
  { intros t s v H Hr. apply (in_perm_phi v _ _ Hr0) in Hr. apply (proj2 (S2' _ Hr)). exists t, s. exact H. }
  assert (INF : forall v, infd (tlog sF') (phi v) <-> infd (tlog sF) v).
  { intros v. split; intros [t [s H]].
    - pose proof (NR' t s v H) as Hr. apply S3; [|exact Hr]. apply NS; [exact Hr|].
      destruct (S7' t s _ H) as (_ & [E|E] & _); rewrite E; discriminate.
    - pose proof (NR t s v H) as Hr. apply S3'; [|rewrite (in_perm_phi v _ _ Hr0); exact Hr]. apply NS; [exact Hr|].
      destruct (S7 t s _ H) as (_ & [E|E] & _); rewrite E; discriminate. }
  assert (TM : forall v t a t' a', In (t, a, v) (tlog sF) -> In (t', a', phi v) (tlog sF') -> t' == t).
  { intros v t a t' a' H H'.
    destruct (S4 t a v H) as (_ & [c [Hc Ec]] & Hmin). destruct (S4' t' a' _ H') as (_ & [c' [Hc' Ec']] & Hmin').
    apply hpath_iff in Hc'. apply hpath_fwd in Hc. specialize (Hmin c' Hc'). specialize (Hmin' c Hc).
    apply Qle_antisym; lra. }
  split; [exact INF|]. split.
  - intros v t a t' a' H H'. pose proof (TM v t a t' a' H H') as E. split; [exact E|].
    destruct (S7 t a v H) as (R1 & _). destruct (S7' t' a' _ H') as (R1' & _).
    exists (xadd t (dur v)), (xadd t' (dur' (phi v))). split; [exact R1|]. split; [exact R1'|].
    rewrite Hdur. destruct (dur v); cbn [xadd]; [rewrite E; reflexivity|exact I].
  - intros v. destruct (in_dec N.eq_dec v r0) as [Hr|Hr].
    + rewrite (proj1 (S2 v Hr)). apply S2'. rewrite (in_perm_phi v _ _ Hr0). exact Hr.
    + destruct (N.eq_dec (stat sF v) stS) as [Es|Es].
      * rewrite Es. destruct (N.eq_dec (stat sF' (phi v)) stS) as [Es'|Es']; [exact Es'|].
        exfalso. apply (proj1 (NS v Hr)) in Es'. contradiction.
      * pose proof (proj2 (NS v Hr) Es) as Es'.
        destruct (S3 v Es Hr) as [t [a H]].
        destruct (S3' (phi v) Es') as [t' [a' H']]; [rewrite (in_perm_phi v _ _ Hr0); exact Hr|].
        pose proof (TM v t a t' a' H H') as E.
        destruct (S7 t a v H) as (_ & D & RI). destruct (S7' t' a' _ H') as (_ & D' & RI').
        assert (X : stat sF' (phi v) = stR <-> stat sF v = stR).
        { rewrite RI, RI', Hdur. destruct (dur v) as [d|]; cbn [xadd].
          - split; intros [r [Er Hl]]; injection Er as <-; eexists; (split; [reflexivity|]);
              [apply (ltmax_comp tmax (t' + d) (t + d))|apply (ltmax_comp tmax (t + d) (t' + d))]; try exact Hl; rewrite E; reflexivity.
          - split; intros [r [Er _]]; discriminate. }
        destruct D as [D|D], D' as [D'|D']; try congruence.
        -- exfalso. apply X in D'. rewrite D in D'. discriminate.
        -- exfalso. apply X in D. rewrite D' in D. discriminate.
Qed.
(* the same at the level of what fast_nonMarkov_SIR returns with return_full_data=True: transmissions() of the copy lists
   the renamed nodes, each with the same infection time (C11 esir_det_full / esir_det_transmissions) *)
Theorem esir_transmissions_relabel_invariant tb tb' tmin tmax fuel fuel' :
  esir_okb g delay dur i0 r0 tmin tmax = true ->
  (esir_fuel g i0 <= fuel)%nat -> (esir_fuel g' i0' <= fuel')%nat ->
  exists o cs o' cs' hs hs' trs trs',
    esir_det tb g delay dur i0 r0 tmin tmax true fuel = Ok (o, cs) /\
    esir_det tb' g' delay' dur' i0' r0' tmin tmax true fuel' = Ok (o', cs') /\
    so_full o = Some (mkFull hs trs) /\ so_full o' = Some (mkFull hs' trs') /\
    (forall v, (exists t a, In (t, a, phi v) trs') <-> (exists t a, In (t, a, v) trs)) /\
    (forall v t a t' a', In (t, a, v) trs -> In (t', a', phi v) trs' -> t' == t).
Proof.
  intros OK F F'. pose proof (esir_okb_iso tmin tmax OK) as OK'.
  destruct (esir_relabel_invariant tb tb' tmin tmax fuel fuel' OK F F') as (sF & sF' & Hr & Hr' & INF & TM & _).
  destruct (esir_det_full_ok tb g delay dur i0 r0 tmin tmax true fuel OK F) as (sF1 & o & cs & Hr1 & Hd & _).
  destruct (esir_det_full_ok tb' g' delay' dur' i0' r0' tmin tmax true fuel' OK' F') as (sF1' & o' & cs' & Hr1' & Hd' & _).
  rewrite Hr in Hr1. injection Hr1 as <-. rewrite Hr' in Hr1'. injection Hr1' as <-.
  destruct (EventSIROut.esir_det_transmissions tb g delay dur i0 r0 tmin tmax fuel sF o cs Hr Hd) as (hs & Hf & _).
  destruct (EventSIROut.esir_det_transmissions tb' g' delay' dur' i0' r0' tmin tmax fuel' sF' o' cs' Hr' Hd') as (hs' & Hf' & _).
  exists o, cs, o', cs', hs, hs', (rev (tlog sF)), (rev (tlog sF')).
  split; [exact Hd|]. split; [exact Hd'|]. split; [exact Hf|]. split; [exact Hf'|]. split.
  - intros v. specialize (INF v). unfold infd in INF.
    split; intros [t [a H]]; rewrite <- in_rev in H.
    + destruct (proj1 INF (ex_intro _ t (ex_intro _ a H))) as [t2 [a2 H2]]. exists t2, a2. rewrite <- in_rev. exact H2.
    + destruct (proj2 INF (ex_intro _ t (ex_intro _ a H))) as [t2 [a2 H2]]. exists t2, a2. rewrite <- in_rev. exact H2.
  - intros v t a t' a' H H'. rewrite <- in_rev in H. rewrite <- in_rev in H'. apply (TM v t a t' a' H H').
Qed.
End ESIR.
End SimIso.
