(* C08, tree clause: usual_treeb (C08tTreeE.v) DECIDES tree-ness: the bounded search is complete as well as sound.
     grow_complete      every position joined to i by a walk avoiding j is collected by grow n j [i];
     usual_treeb_iff    usual_treeb = true  <=>  no loop, connected, degree sum 2 (n - 1)  <=>  no loop, a tree order exists
                        <=>  no loop, connected, acyclic. *)
From EoNV Require Import Prelude Vec VecP Graph Rhs2D Rhs2DP Rhs2 Rhs2GenP Master C08tG C08tS C08tT C08tR C08tA C08tO C08tC C08tF
  C08tTreeA C08tTreeB C08tTreeC C08tTreeD C08tTreeE C08tTreeG C08tTreeH.
From Coq Require Import Lia List Arith Bool.
Import ListNotations.
Local Open Scope nat_scope.

Section Decide.
Variables (G : graph) (nodelist : list node).
Notation n_ := (nN nodelist).
Notation adj := (adjb G nodelist).

Lemma grow_closed_reach j i a k : In a (grow G nodelist n_ j [i]) -> reach adj (seq 0 n_) j a k -> In k (grow G nodelist n_ j [i]).
Proof.
  intros Ha H. induction H as [a|a c b E Nc Ic _ IH]; [exact Ha|]. apply IH.
  destruct (in_dec Nat.eq_dec c (grow G nodelist n_ j [i])) as [Hc|Hc]; [exact Hc|]. exfalso. apply in_seq in Ic.
  assert (K : In c (fresh G nodelist j (grow G nodelist n_ j [i]))).
  { apply fresh_spec. split; [lia|]. split; [exact Nc|]. split; [exact Hc|]. exists a. split; assumption. }
  rewrite (grow_sat G nodelist n_ j [i] (missing_le nodelist _)) in K. destruct K.
Qed.
Lemma grow_complete j i k : reach adj (seq 0 n_) j i k -> In k (grow G nodelist n_ j [i]).
Proof. apply grow_closed_reach. apply grow_incl. left. reflexivity. Qed.
Lemma walk_reach a b : walk adj (seq 0 n_) a b -> reach adj (seq 0 n_) n_ a b.
Proof.
  intros H. induction H as [a|a c b E Ic _ IH]; [constructor|]. apply (reach_step adj _ n_ a c b E); [|exact Ic|exact IH].
  apply in_seq in Ic. lia.
Qed.
Lemma connected_connectedb : pos_connected G nodelist -> connectedb G nodelist = true.
Proof.
  intros Con. unfold connectedb. apply forallb_forall. intros k Hk. apply memn_In. apply grow_complete. apply walk_reach.
  apply Con; [|exact Hk]. apply in_seq. apply in_seq in Hk. lia.
Qed.

Theorem usual_treeb_iff :
  (usual_treeb G nodelist = true <->
   noloopb G nodelist = true /\ pos_connected G nodelist /\ pos_degsum G nodelist = 2 * (n_ - 1)) /\
  (usual_treeb G nodelist = true <-> noloopb G nodelist = true /\ exists ord, tree_orderb G nodelist ord = true) /\
  (usual_treeb G nodelist = true <-> noloopb G nodelist = true /\ pos_connected G nodelist /\ pos_acyclic G nodelist).
Proof.
  assert (A : usual_treeb G nodelist = true <->
              noloopb G nodelist = true /\ pos_connected G nodelist /\ pos_degsum G nodelist = 2 * (n_ - 1)).
  { unfold usual_treeb. split.
    - intros H. apply andb_prop in H. destruct H as [H H3]. apply andb_prop in H. destruct H as [H1 H2].
      apply Nat.eqb_eq in H2. split; [exact H1|]. split; [apply connectedb_connected; exact H3|exact H2].
    - intros [H1 [H2 H3]]. rewrite H1, (connected_connectedb H2), H3, Nat.eqb_refl. reflexivity. }
  split; [exact A|]. split.
  - rewrite A. split.
    + intros [NL [Con DS]]. split; [exact NL|]. apply (usual_iff G nodelist NL). split; assumption.
    + intros [NL T]. split; [exact NL|]. apply (usual_iff G nodelist NL). exact T.
  - rewrite A. split.
    + intros [NL [Con DS]]. split; [exact NL|]. apply (tree_iff_connected_acyclic_pos G nodelist NL).
      apply (usual_iff G nodelist NL). split; assumption.
    + intros [NL CA]. split; [exact NL|]. apply (usual_iff G nodelist NL). apply (tree_iff_connected_acyclic_pos G nodelist NL). exact CA.
Qed.
End Decide.
