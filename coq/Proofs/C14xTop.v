(* C14, proof side: the node-level ODE problems (initial vector, vector field) of a
   relabelled + re-ordered copy are the re-ordered (initial vector, vector field) of the
   original; aggregated outputs are invariant; adjacency-list order and nodelist order
   are irrelevant (instances); explicit Euler solutions are equivariant (a PROVED discrete
   analogue of the cited lift to the exact flow). *)
From EoNV Require Import Prelude Vec Graph Rhs2D VecP Rhs2DP C14xDef C14xRhs.
From Coq Require Import Permutation Lqa Setoid Morphisms.

(* per-node blocks (offsets) of the state of system sys: the series the entry points sum over the nodes *)
Definition node_blocks (sys n : nat) : list nat :=
  match sys with 0%nat => [0%nat] | 1%nat => [0%nat; n] | 2%nat => [0%nat] | 3%nat => [0%nat; n] | _ => [] end.

Section Top.
Variables (G : graph) (nodelist : list node) (idx : node -> nat) (tr : node -> node -> Q) (rc : node -> Q).
Variables (G' : graph) (nl2 : list node) (phi : node -> node) (idx' : node -> nat) (tr' : node -> node -> Q) (rc' : node -> Q).
Notation n := (nN nodelist).
Notation nd := (node_at nodelist).
Notation nd2 := (node_at nl2).
Notation nl' := (map phi nl2).
Hypothesis R : relabel G nodelist idx tr rc G' nl2 phi idx' tr' rc'.
Local Notation "'wR' f" := (f G nodelist idx tr rc G' nl2 phi idx' tr' rc' R) (at level 10, f at level 9).
Notation rel1 := (rel1 nodelist idx nl2).
Notation rel2 := (rel2 nodelist idx nl2).

Lemma cell_lt_n i j : (i < n)%nat -> (j < n)%nat -> (i * n + j < n * n)%nat.
Proof. nia. Qed.

Lemma rel_perm_pbSIS V V' : veq V' (perm_pbSIS idx nl2 V) -> rel1 0 V V' /\ rel2 n V V' /\ rel2 (n + n * n) V V'.
Proof.
  intros H. unfold perm_pbSIS in H. rewrite !(wR len2) in H. pose proof (veq_nth_all _ _ H) as E.
  split; [|split].
  - apply (wR rel1_of_nth). intros i Hi. unfold vnth. rewrite E. cbn [Nat.add].
    rewrite nth_app_lt by (rewrite (wR blk1_length); exact Hi). reflexivity.
  - apply (wR rel2_of_nth). intros i j Hi Hj. unfold vnth. rewrite E. rewrite <- Nat.add_assoc.
    rewrite nth_app_at by apply (wR blk1_length).
    rewrite nth_app_lt by (rewrite (wR blk2_length); apply cell_lt_n; assumption). reflexivity.
  - apply (wR rel2_of_nth). intros i j Hi Hj. unfold vnth. rewrite E. rewrite <- !Nat.add_assoc.
    rewrite nth_app_at by apply (wR blk1_length). rewrite nth_app_at by apply (wR blk2_length). reflexivity.
Qed.
Lemma rel_perm_pbSIR V V' : veq V' (perm_pbSIR idx nl2 V) ->
  rel1 0 V V' /\ rel1 n V V' /\ rel2 (2 * n) V V' /\ rel2 (2 * n + n * n) V V'.
Proof.
  intros H. unfold perm_pbSIR in H. rewrite !(wR len2) in H. pose proof (veq_nth_all _ _ H) as E.
  split; [|split; [|split]].
  - apply (wR rel1_of_nth). intros i Hi. unfold vnth. rewrite E. cbn [Nat.add].
    rewrite nth_app_lt by (rewrite (wR blk1_length); exact Hi). reflexivity.
  - apply (wR rel1_of_nth). intros i Hi. unfold vnth. rewrite E.
    rewrite nth_app_at by apply (wR blk1_length).
    rewrite nth_app_lt by (rewrite (wR blk1_length); exact Hi). reflexivity.
  - apply (wR rel2_of_nth). intros i j Hi Hj. unfold vnth. rewrite E.
    replace (2 * n + i * n + j)%nat with (n + (n + (i * n + j)))%nat by lia.
    rewrite nth_app_at by apply (wR blk1_length). rewrite nth_app_at by apply (wR blk1_length).
    rewrite nth_app_lt by (rewrite (wR blk2_length); apply cell_lt_n; assumption). reflexivity.
  - apply (wR rel2_of_nth). intros i j Hi Hj. unfold vnth. rewrite E.
    replace (2 * n + n * n + i * n + j)%nat with (n + (n + (n * n + (i * n + j))))%nat by lia.
    rewrite nth_app_at by apply (wR blk1_length). rewrite nth_app_at by apply (wR blk1_length).
    rewrite nth_app_at by apply (wR blk2_length). reflexivity.
Qed.

(* V' carries, block by block, the re-ordered blocks of V *)
Definition state_rel (sys : nat) (V V' : vec) : Prop :=
  match sys with
  | 0%nat => rel1 0 V V'
  | 1%nat => rel1 0 V V' /\ rel1 n V V'
  | 2%nat => rel1 0 V V' /\ rel2 n V V' /\ rel2 (n + n * n) V V'
  | 3%nat => rel1 0 V V' /\ rel1 n V V' /\ rel2 (2 * n) V V' /\ rel2 (2 * n + n * n) V V'
  | _ => True
  end.
Lemma state_rel_perm sys V V' : veq V' (perm_state idx nl2 sys V) -> state_rel sys V V'.
Proof.
  intros H. destruct sys as [|[|[|[|k]]]]; cbn [perm_state state_rel] in *.
  - apply (wR rel_perm_ibSIS), H.
  - apply (wR rel_perm_ibSIR), H.
  - apply rel_perm_pbSIS, H.
  - apply rel_perm_pbSIR, H.
  - exact I.
Qed.

(* ---------- the vector field commutes with the relabelling action ---------- *)
Theorem node_rhs_equivariant_rel sys V V' t : state_rel sys V V' ->
  veq (rhs2_node sys G' nl' idx' tr' rc' V' t) (perm_state idx nl2 sys (rhs2_node sys G nodelist idx tr rc V t)).
Proof.
  intros H. destruct sys as [|[|[|[|k]]]]; cbn [rhs2_node perm_state state_rel] in *.
  - apply (wR ibSIS_equivariant), H.
  - destruct H as [H0 H1]. apply (wR ibSIR_equivariant); assumption.
  - destruct H as [H0 [H1 H2]]. apply (wR pbSIS_equivariant); assumption.
  - destruct H as [H0 [H1 [H2 H3]]]. apply (wR pbSIR_equivariant); assumption.
  - constructor.
Qed.
Theorem node_rhs_equivariant sys V V' t : veq V' (perm_state idx nl2 sys V) ->
  veq (rhs2_node sys G' nl' idx' tr' rc' V' t) (perm_state idx nl2 sys (rhs2_node sys G nodelist idx tr rc V t)).
Proof. intros H. apply node_rhs_equivariant_rel, state_rel_perm, H. Qed.

(* ---------- aggregated outputs ---------- *)
Theorem node_outputs_invariant sys V V' off : veq V' (perm_state idx nl2 sys V) -> In off (node_blocks sys n) ->
  block_sum n off V' == block_sum n off V.
Proof.
  intros H Hoff. apply state_rel_perm in H. apply (wR block_sum_invariant).
  destruct sys as [|[|[|[|k]]]]; cbn [node_blocks state_rel In] in *.
  - destruct Hoff as [<-|[]]. exact H.
  - destruct Hoff as [<-|[<-|[]]]; apply H.
  - destruct Hoff as [<-|[]]. apply H.
  - destruct Hoff as [<-|[<-|[]]]; apply H.
  - destruct Hoff.
Qed.

(* R = sum over nodes of 1 - X_i - Y_i (SIR systems), S = sum of 1 - Y_i (SIS systems) *)
Theorem node_complement_outputs_invariant sys V V' : veq V' (perm_state idx nl2 sys V) ->
  (sys = 1%nat \/ sys = 3%nat ->
     sumn n (fun i => 1 - vnth i V' - vnth (n + i) V') == sumn n (fun i => 1 - vnth i V - vnth (n + i) V)) /\
  (sys = 0%nat \/ sys = 2%nat -> sumn n (fun i => 1 - vnth i V') == sumn n (fun i => 1 - vnth i V)).
Proof.
  intros H. split; intros Hs.
  - assert (B0 : block_sum n 0 V' == block_sum n 0 V) by (apply (node_outputs_invariant sys V V' 0 H); destruct Hs; subst; cbn; auto).
    assert (Bn : block_sum n n V' == block_sum n n V) by (apply (node_outputs_invariant sys V V' n H); destruct Hs; subst; cbn; auto).
    unfold block_sum in B0, Bn. cbn [Nat.add] in B0.
    rewrite !sumn_sub, B0, Bn. reflexivity.
  - assert (B0 : block_sum n 0 V' == block_sum n 0 V) by (apply (node_outputs_invariant sys V V' 0 H); destruct Hs; subst; cbn; auto).
    unfold block_sum in B0. cbn [Nat.add] in B0. rewrite !sumn_sub, B0. reflexivity.
Qed.

(* ---------- lengths ---------- *)
Lemma rhs2_node_length sys V t : length (rhs2_node sys G nodelist idx tr rc V t) = state_len sys n.
Proof.
  destruct sys as [|[|[|[|k]]]]; cbn [rhs2_node state_len];
  unfold dSIS_individual_based, dSIR_individual_based, dSIS_pair_based, dSIR_pair_based;
  rewrite ?app_length, ?tab_length, ?tab2_length; reflexivity.
Qed.
Lemma perm_state_length sys V : length (perm_state idx nl2 sys V) = state_len sys n.
Proof.
  destruct sys as [|[|[|[|k]]]]; cbn [perm_state state_len];
  unfold perm_ibSIS, perm_ibSIR, perm_pbSIS, perm_pbSIR;
  rewrite ?app_length, ?(wR blk1_length), ?(wR blk2_length); reflexivity.
Qed.

(* ---------- the action is linear ---------- *)
Lemma vnth_vadd a b k : length a = length b -> vnth k (vadd a b) == vnth k a + vnth k b.
Proof.
  unfold vnth, vadd. revert b k. induction a as [|x a IH]; intros [|y b] k HL; try discriminate.
  - destruct k; cbn; ring.
  - destruct k; cbn [zipWith nth]; [reflexivity|]. apply IH. cbn in HL. lia.
Qed.
Lemma vnth_smul h a k : vnth k (smul h a) == h * vnth k a.
Proof.
  unfold vnth, smul. revert k. induction a as [|x a IH]; intros k; [destruct k; cbn; ring|].
  destruct k; cbn [map nth]; [reflexivity|apply IH].
Qed.
Lemma vadd_length a b : length a = length b -> length (vadd a b) = length a.
Proof.
  unfold vadd. revert b. induction a as [|x a IH]; intros [|y b] HL; try discriminate; [reflexivity|].
  cbn [zipWith length]. f_equal. apply IH. cbn in HL. lia.
Qed.
Lemma smul_length h a : length (smul h a) = length a.
Proof. unfold smul. apply map_length. Qed.

Lemma state_rel_step sys V V' W W' h :
  length W = length V -> length W' = length V' ->
  state_rel sys V V' -> state_rel sys W W' -> state_rel sys (vadd V (smul h W)) (vadd V' (smul h W')).
Proof.
  intros L L' HV HW.
  assert (A1 : forall off, rel1 off V V' -> rel1 off W W' -> rel1 off (vadd V (smul h W)) (vadd V' (smul h W'))).
  { intros off H1 H2 i Hi. rewrite !vnth_vadd by (rewrite smul_length; congruence). rewrite !vnth_smul.
    rewrite (H1 i Hi), (H2 i Hi). reflexivity. }
  assert (A2 : forall off, rel2 off V V' -> rel2 off W W' -> rel2 off (vadd V (smul h W)) (vadd V' (smul h W'))).
  { intros off H1 H2 i j Hi Hj. rewrite !vnth_vadd by (rewrite smul_length; congruence). rewrite !vnth_smul.
    rewrite (H1 i j Hi Hj), (H2 i j Hi Hj). reflexivity. }
  destruct sys as [|[|[|[|k]]]]; cbn [state_rel] in *.
  - apply A1; assumption.
  - destruct HV, HW. split; apply A1; assumption.
  - destruct HV as [? [? ?]], HW as [? [? ?]]. split; [apply A1|split; apply A2]; assumption.
  - destruct HV as [? [? [? ?]]], HW as [? [? [? ?]]]. split; [apply A1|split; [apply A1|split; apply A2]]; assumption.
  - exact I.
Qed.

(* ---------- explicit Euler solutions are equivariant (every step size, every number of steps) ---------- *)
Theorem node_euler_equivariant_rel sys h k : forall t V V',
  length V = state_len sys n -> length V' = state_len sys n -> state_rel sys V V' ->
  state_rel sys (euler (rhs2_node sys G nodelist idx tr rc) h t k V) (euler (rhs2_node sys G' nl' idx' tr' rc') h t k V').
Proof.
  induction k as [|k IH]; intros t V V' L L' H; cbn [euler]; [exact H|].
  assert (LW : length (rhs2_node sys G nodelist idx tr rc V t) = length V) by (rewrite rhs2_node_length; congruence).
  assert (LW' : length (rhs2_node sys G' nl' idx' tr' rc' V' t) = length V').
  { rewrite (veq_length _ _ (node_rhs_equivariant_rel sys V V' t H)), perm_state_length. congruence. }
  apply IH; unfold euler_step.
  - rewrite vadd_length by (rewrite smul_length; congruence). exact L.
  - rewrite vadd_length by (rewrite smul_length; congruence). exact L'.
  - apply state_rel_step; [exact LW|exact LW'|exact H|].
    apply state_rel_perm. apply node_rhs_equivariant_rel, H.
Qed.
Theorem node_euler_outputs_invariant sys h k t V V' off :
  length V = state_len sys n -> veq V' (perm_state idx nl2 sys V) -> In off (node_blocks sys n) ->
  block_sum n off (euler (rhs2_node sys G' nl' idx' tr' rc') h t k V') ==
  block_sum n off (euler (rhs2_node sys G nodelist idx tr rc) h t k V).
Proof.
  intros L H Hoff. apply (wR block_sum_invariant).
  assert (L' : length V' = state_len sys n) by (rewrite (veq_length _ _ H); apply perm_state_length).
  pose proof (node_euler_equivariant_rel sys h k t V V' L L' (state_rel_perm sys V V' H)) as E.
  destruct sys as [|[|[|[|j]]]]; cbn [node_blocks state_rel In] in *.
  - destruct Hoff as [<-|[]]. exact E.
  - destruct Hoff as [<-|[<-|[]]]; apply E.
  - destruct Hoff as [<-|[]]. apply E.
  - destruct Hoff as [<-|[<-|[]]]; apply E.
  - destruct Hoff.
Qed.

(* ====================================================================== *)
(* initial vectors                                                         *)
(* ====================================================================== *)
Lemma vnth_blk1 off V i : (i < n)%nat -> vnth i (blk1 idx nl2 off V) = vnth (off + idx (nd2 i)) V.
Proof. intros Hi. unfold vnth at 1. apply (wR nth_blk1), Hi. Qed.
Lemma nth_map_nodelist (f : node -> Q) u : In u nodelist -> vnth (idx u) (map f nodelist) = f u.
Proof.
  intros Hu. destruct (wR in_nodelist u Hu) as [Hk Ek]. unfold vnth.
  rewrite (nth_map_d f nodelist (idx u) 0%N 0) by exact Hk. unfold node_at in Ek. rewrite Ek. reflexivity.
Qed.

(* rho * np.ones(len(nodelist)) *)
Lemma y0_rho_equivariant rho : veq (y0_rho nl' rho) (blk1 idx nl2 0 (y0_rho nodelist rho)).
Proof.
  apply veq_of_nth; [unfold y0_rho; rewrite !map_length, (wR blk1_length); apply (wR len2)|].
  unfold y0_rho at 1. rewrite !map_length. change (length nl2) with (nN nl2). rewrite (wR len2). intros i Hi.
  rewrite (wR nth_blk1) by exact Hi. cbn [Nat.add]. unfold y0_rho.
  rewrite (nth_map_nodelist (fun _ => rho)) by (apply (wR nd2_in), Hi).
  rewrite (nth_map_d (fun _ : node => rho) nl' i 0%N 0) by (rewrite map_length; change (i < nN nl2)%nat; rewrite (wR len2); exact Hi).
  reflexivity.
Qed.
(* [1 if u in initial_infecteds else 0 for u in nodelist] with the initial set renamed *)
Lemma y0_set_equivariant I0 : incl I0 nodelist -> veq (y0_set nl' (map phi I0)) (blk1 idx nl2 0 (y0_set nodelist I0)).
Proof.
  intros HI. apply veq_of_nth; [unfold y0_set; rewrite !map_length, (wR blk1_length); apply (wR len2)|].
  unfold y0_set at 1. rewrite !map_length. change (length nl2) with (nN nl2). rewrite (wR len2). intros i Hi.
  rewrite (wR nth_blk1) by exact Hi. cbn [Nat.add]. unfold y0_set.
  rewrite (nth_map_nodelist (fun u => if mem u I0 then 1 else 0)) by (apply (wR nd2_in), Hi).
  rewrite (nth_map_d (fun u : node => if mem u (map phi I0) then 1 else 0) nl' i 0%N 0)
    by (rewrite map_length; change (i < nN nl2)%nat; rewrite (wR len2); exact Hi).
  change (nth i nl' 0%N) with (node_at nl' i). rewrite (wR nd'_eq i Hi).
  rewrite (mem_map_inj phi nodelist (rl_inj _ _ _ _ _ _ _ _ _ _ _ R) (nd2 i) I0 (wR nd2_in i Hi) HI). reflexivity.
Qed.
(* X0 = 1 - Y0 *)
Lemma vnth_x0_of Y k : (k < length Y)%nat -> vnth k (x0_of Y) = 1 - vnth k Y.
Proof. intros Hk. unfold vnth, x0_of. rewrite (nth_map_d (fun y => 1 - y) Y k 0 0) by exact Hk. reflexivity. Qed.
Lemma x0_of_equivariant Y0 Y0' : length Y0 = n -> veq Y0' (blk1 idx nl2 0 Y0) -> veq (x0_of Y0') (blk1 idx nl2 0 (x0_of Y0)).
Proof.
  intros L H. pose proof (veq_length _ _ H) as L'. rewrite (wR blk1_length) in L'.
  apply veq_of_nth; [unfold x0_of; rewrite map_length, (wR blk1_length); exact L'|].
  unfold x0_of at 1. rewrite map_length, L'. intros i Hi.
  change (vnth i (x0_of Y0') == vnth i (blk1 idx nl2 0 (x0_of Y0))).
  rewrite vnth_blk1 by exact Hi. cbn [Nat.add]. destruct (wR in_nodelist _ (wR nd2_in i Hi)) as [Hk _].
  rewrite !vnth_x0_of by lia. unfold vnth. rewrite (veq_nth_all _ _ H i). rewrite (wR nth_blk1) by exact Hi. reflexivity.
Qed.

Lemma veq_tab_ n0 f g : (forall i, (i < n0)%nat -> f i == g i) -> veq (tab n0 f) (tab n0 g).
Proof.
  intros H. apply veq_of_nth; [rewrite !tab_length; reflexivity|].
  rewrite tab_length. intros i Hi. rewrite !nth_tab by exact Hi. apply H, Hi.
Qed.
(* a block of a concatenation *)
Lemma blk1_app_at A B C off : length A = off -> length B = n -> veq (blk1 idx nl2 off (A ++ B ++ C)) (blk1 idx nl2 0 B).
Proof.
  intros LA LB. unfold blk1. apply veq_tab_. intros i Hi. rewrite (wR len2) in Hi.
  destruct (wR in_nodelist _ (wR nd2_in i Hi)) as [Hk _]. unfold vnth. cbn [Nat.add].
  rewrite nth_app_at by exact LA. rewrite nth_app_lt by lia. reflexivity.
Qed.
Lemma is_edge_rel i j : (i < n)%nat -> (j < n)%nat ->
  is_edge G' nl' i j = is_edge G nodelist (idx (nd2 i)) (idx (nd2 j)).
Proof.
  intros Hi Hj. unfold is_edge. rewrite (wR nd'_eq i Hi), (wR nd'_eq j Hj).
  destruct (wR in_nodelist _ (wR nd2_in i Hi)) as [_ Ei]. destruct (wR in_nodelist _ (wR nd2_in j Hj)) as [_ Ej].
  rewrite Ei, Ej. apply (wR mem_adj); apply (wR nd2_in); assumption.
Qed.
(* X0[:,None] * Y0[None,:] * A *)
Lemma pair0_equivariant A B A' B' P Q W off :
  veq A' (blk1 idx nl2 0 A) -> veq B' (blk1 idx nl2 0 B) ->
  W = P ++ pair0 G nodelist A B ++ Q -> length P = off ->
  veq (pair0 G' nl' A' B') (blk2 idx nl2 off W).
Proof.
  intros HA HB EW LP. unfold pair0 in *.
  apply (wR veq_tab_blk2_at _ _ (fun i j => if is_edge G nodelist i j then vnth i A * vnth j B else 0) P Q W off);
    [apply (wR len')|exact EW|exact LP|].
  intros i j Hi Hj. rewrite (is_edge_rel i j Hi Hj). destruct (is_edge G nodelist (idx (nd2 i)) (idx (nd2 j))); [|reflexivity].
  unfold vnth. rewrite (veq_nth_all _ _ HA i), (veq_nth_all _ _ HB j). rewrite !(wR nth_blk1) by assumption. reflexivity.
Qed.

Lemma perm_state_veq sys A B : veq A B -> veq (perm_state idx nl2 sys A) (perm_state idx nl2 sys B).
Proof.
  intros H.
  assert (B1 : forall off, veq (blk1 idx nl2 off A) (blk1 idx nl2 off B))
    by (intros off; unfold blk1; apply veq_tab_; intros i _; apply (veq_nth_all _ _ H)).
  assert (B2 : forall off, veq (blk2 idx nl2 off A) (blk2 idx nl2 off B)).
  { intros off. unfold blk2, tab2. induction (seq 0 (nN nl2)) as [|s l IH]; cbn [flat_map]; [constructor|].
    apply veq_app; [|exact IH]. apply veq_tab_. intros i _. apply (veq_nth_all _ _ H). }
  destruct sys as [|[|[|[|k]]]]; cbn [perm_state]; unfold perm_ibSIS, perm_ibSIR, perm_pbSIS, perm_pbSIR;
    repeat apply veq_app; try apply B1; try apply B2. constructor.
Qed.

Theorem node_V0_equivariant sys X0 Y0 X0' Y0' :
  length X0 = n -> length Y0 = n -> veq X0' (blk1 idx nl2 0 X0) -> veq Y0' (blk1 idx nl2 0 Y0) ->
  veq (node_V0 sys G' nl' X0' Y0') (perm_state idx nl2 sys (node_V0 sys G nodelist X0 Y0)).
Proof.
  intros LX LY HX HY. pose proof (x0_of_equivariant Y0 Y0' LY HY) as HX1.
  assert (LX1 : length (x0_of Y0) = n) by (unfold x0_of; rewrite map_length; exact LY).
  assert (Lp : forall A B, length (pair0 G nodelist A B) = (n * n)%nat) by (intros; unfold pair0; apply tab2_length).
  destruct sys as [|[|[|[|k]]]]; cbn [node_V0 perm_state].
  - exact HY.
  - unfold ib_SIR_V0, perm_ibSIR. rewrite (wR len2). apply veq_app.
    + etransitivity; [exact HX|]. symmetry. apply (blk1_app_at [] X0 Y0 0); [reflexivity|exact LX].
    + etransitivity; [exact HY|]. symmetry. rewrite <- (app_nil_r Y0) at 1. apply (blk1_app_at X0 Y0 [] n); [exact LX|exact LY].
  - unfold pb_SIS_V0, perm_pbSIS. rewrite !(wR len2). apply veq_app; [|apply veq_app].
    + etransitivity; [exact HY|]. symmetry. apply (blk1_app_at [] Y0 _ 0); [reflexivity|exact LY].
    + eapply (pair0_equivariant _ _ _ _ Y0 _ _ n HX1 HY); [reflexivity|exact LY].
    + eapply (pair0_equivariant _ _ _ _ (Y0 ++ pair0 G nodelist (x0_of Y0) Y0) [] _ _ HX1 HX1);
        [rewrite app_nil_r, <- app_assoc; reflexivity|rewrite app_length, Lp, LY; reflexivity].
  - unfold pb_SIR_V0, perm_pbSIR. rewrite !(wR len2). apply veq_app; [|apply veq_app; [|apply veq_app]].
    + etransitivity; [exact HX|]. symmetry. apply (blk1_app_at [] X0 _ 0); [reflexivity|exact LX].
    + etransitivity; [exact HY|]. symmetry. apply (blk1_app_at X0 Y0 _ n); [exact LX|exact LY].
    + eapply (pair0_equivariant _ _ _ _ (X0 ++ Y0) _ _ _ HX HY); [rewrite <- app_assoc; reflexivity|rewrite app_length, LX, LY; lia].
    + eapply (pair0_equivariant _ _ _ _ (X0 ++ Y0 ++ pair0 G nodelist X0 Y0) [] _ _ HX HX);
        [rewrite app_nil_r, <- !app_assoc; reflexivity|rewrite !app_length, Lp, LX, LY; lia].
  - constructor.
Qed.

(* (initial vector, vector field) of the relabelled problem = re-ordered (initial vector, vector field):
   the two initial-value problems are conjugate under the linear isomorphism perm_state *)
Theorem node_problem_equivariant sys X0 Y0 X0' Y0' :
  length X0 = n -> length Y0 = n -> veq X0' (blk1 idx nl2 0 X0) -> veq Y0' (blk1 idx nl2 0 Y0) ->
  veq (node_V0 sys G' nl' X0' Y0') (perm_state idx nl2 sys (node_V0 sys G nodelist X0 Y0)) /\
  (forall V V' t, veq V' (perm_state idx nl2 sys V) ->
     veq (rhs2_node sys G' nl' idx' tr' rc' V' t) (perm_state idx nl2 sys (rhs2_node sys G nodelist idx tr rc V t))).
Proof.
  intros LX LY HX HY. split; [apply node_V0_equivariant; assumption|intros V V' t; apply node_rhs_equivariant].
Qed.
(* any per-node table transported along phi: [f(u) for u in nodelist] *)
Lemma node_tab_equivariant (f f' : node -> Q) : (forall u, In u nodelist -> f' (phi u) = f u) ->
  veq (map f' nl') (blk1 idx nl2 0 (map f nodelist)).
Proof.
  intros H. apply veq_of_nth; [rewrite !map_length, (wR blk1_length); apply (wR len2)|].
  rewrite !map_length. change (length nl2) with (nN nl2). rewrite (wR len2). intros i Hi.
  rewrite (wR nth_blk1) by exact Hi. cbn [Nat.add].
  rewrite (nth_map_nodelist f) by (apply (wR nd2_in), Hi).
  rewrite (nth_map_d f' nl' i 0%N 0) by (rewrite map_length; change (i < nN nl2)%nat; rewrite (wR len2); exact Hi).
  change (nth i nl' 0%N) with (node_at nl' i). rewrite (wR nd'_eq i Hi). rewrite (H _ (wR nd2_in i Hi)). reflexivity.
Qed.
Lemma x0_sets_equivariant I0 R0 : incl I0 nodelist -> incl R0 nodelist ->
  veq (x0_sets nl' (map phi I0) (map phi R0)) (blk1 idx nl2 0 (x0_sets nodelist I0 R0)).
Proof.
  intros HI HR. unfold x0_sets. apply node_tab_equivariant. intros u Hu.
  rewrite (mem_map_inj phi nodelist (rl_inj _ _ _ _ _ _ _ _ _ _ _ R) u I0 Hu HI),
          (mem_map_inj phi nodelist (rl_inj _ _ _ _ _ _ _ _ _ _ _ R) u R0 Hu HR). reflexivity.
Qed.
(* the *_pure_IC entry points: initial vector from renamed initial sets = re-ordered initial vector *)
Theorem node_pure_IC_equivariant sys I0 R0 : incl I0 nodelist -> incl R0 nodelist ->
  veq (node_V0 sys G' nl' (x0_sets nl' (map phi I0) (map phi R0)) (y0_set nl' (map phi I0)))
      (perm_state idx nl2 sys (node_V0 sys G nodelist (x0_sets nodelist I0 R0) (y0_set nodelist I0))).
Proof.
  intros HI HR. apply node_V0_equivariant.
  - unfold x0_sets. apply map_length.
  - unfold y0_set. apply map_length.
  - apply x0_sets_equivariant; assumption.
  - apply y0_set_equivariant; assumption.
Qed.

(* solutions are mapped to solutions: if X (with claimed componentwise derivative dX) satisfies dX(t) = rhs(X(t), t) for
   problem 1 then the re-ordered curve, whose componentwise derivative is the re-ordered dX (differentiation is linear),
   satisfies it for problem 2.  Uniqueness of solutions (Picard-Lindelof, CITED) then gives solution' = perm_state solution. *)
Definition solves (f : vec -> Q -> vec) (X dX : Q -> vec) : Prop := forall t, veq (dX t) (f (X t) t).
Theorem node_maps_solutions_to_solutions sys X dX :
  solves (rhs2_node sys G nodelist idx tr rc) X dX ->
  solves (rhs2_node sys G' nl' idx' tr' rc') (fun t => perm_state idx nl2 sys (X t)) (fun t => perm_state idx nl2 sys (dX t)).
Proof.
  intros H t. cbv beta. symmetry. etransitivity; [apply node_rhs_equivariant; reflexivity|].
  apply perm_state_veq. symmetry. apply H.
Qed.
End Top.

(* ====================================================================== *)
(* boolean form, and the two special cases                                 *)
(* ====================================================================== *)
Theorem equivariant_at_true sys G nodelist idx tr rc G' nl2 phi idx' tr' rc' V t :
  relabel_okb G nodelist idx tr rc G' nl2 phi idx' tr' rc' = true ->
  equivariant_at sys G nodelist idx tr rc G' nl2 phi idx' tr' rc' V t = true.
Proof.
  intros H. unfold equivariant_at. apply veqb_complete.
  apply (node_rhs_equivariant _ _ _ _ _ _ _ _ _ _ _ (relabel_okb_spec _ _ _ _ _ _ _ _ _ _ _ H)). reflexivity.
Qed.

Section Instances.
Variables (G : graph) (nodelist : list node) (idx : node -> nat) (tr : node -> node -> Q) (rc : node -> Q).
Notation n := (nN nodelist).
Hypothesis W : nl_wfb G nodelist idx = true.

Lemma relabel_id G' nl2 idx2 :
  (forall u, In u nodelist -> Permutation (gadj G' u) (gadj G u)) ->
  Permutation nl2 nodelist -> (forall i, (i < n)%nat -> idx2 (node_at nl2 i) = i) ->
  relabel G nodelist idx tr rc G' nl2 (fun u => u) idx2 tr rc.
Proof.
  intros H HP H2. destruct (nl_wfb_spec G nodelist idx W) as [W1 W2]. constructor.
  - exact W1.
  - exact W2.
  - exact HP.
  - intros u v _ _ E. exact E.
  - exact H2.
  - intros u Hu. rewrite map_id. apply H, Hu.
  - intros u v _ _. reflexivity.
  - intros u _. reflexivity.
Qed.
Lemma state_rel_refl sys V : state_rel nodelist idx nodelist sys V V.
Proof.
  destruct (nl_wfb_spec G nodelist idx W) as [W1 _].
  assert (A1 : forall off, rel1 nodelist idx nodelist off V V) by (intros off i Hi; rewrite (W1 i Hi); reflexivity).
  assert (A2 : forall off, rel2 nodelist idx nodelist off V V) by (intros off i j Hi Hj; rewrite (W1 i Hi), (W1 j Hj); reflexivity).
  destruct sys as [|[|[|[|k]]]]; cbn [state_rel]; repeat split; try apply A1; try apply A2.
Qed.

(* the value of the right-hand side does not depend on the order in which G.neighbors(u) lists the neighbours *)
Theorem adjacency_order_irrelevant G' sys V t :
  (forall u, In u nodelist -> Permutation (gadj G' u) (gadj G u)) ->
  veq (rhs2_node sys G' nodelist idx tr rc V t) (rhs2_node sys G nodelist idx tr rc V t).
Proof.
  intros H. destruct (nl_wfb_spec G nodelist idx W) as [W1 _].
  pose proof (node_rhs_equivariant_rel _ _ _ _ _ _ _ _ _ _ _
                (relabel_id G' nodelist idx H (Permutation_refl _) W1) sys V V t (state_rel_refl sys V)) as E1.
  pose proof (node_rhs_equivariant_rel _ _ _ _ _ _ _ _ _ _ _
                (relabel_id G nodelist idx (fun u _ => Permutation_refl _) (Permutation_refl _) W1) sys V V t (state_rel_refl sys V)) as E2.
  rewrite map_id in E1, E2. etransitivity; [exact E1|symmetry; exact E2].
Qed.
(* any re-ordering of nodelist (with its own index_of_node) re-orders the right-hand side accordingly *)
Theorem nodelist_order_equivariant nl2 idx2 sys V V' t :
  Permutation nl2 nodelist -> (forall i, (i < n)%nat -> idx2 (node_at nl2 i) = i) ->
  veq V' (perm_state idx nl2 sys V) ->
  veq (rhs2_node sys G nl2 idx2 tr rc V' t) (perm_state idx nl2 sys (rhs2_node sys G nodelist idx tr rc V t)).
Proof.
  intros HP H2 HV.
  pose proof (node_rhs_equivariant _ _ _ _ _ _ _ _ _ _ _
                (relabel_id G nl2 idx2 (fun u _ => Permutation_refl _) HP H2) sys V V' t HV) as E.
  rewrite map_id in E. exact E.
Qed.
End Instances.
