(* The chain form of C12: the sequence of generation sets of a whole run of basic_discrete_SIR
   (resp. basic_discrete_SIS) is the Reed-Frost (resp. discrete SIS) Markov chain started at the
   initial state and stopped by the loop condition: for every target sequence A_1 .. A_K,
       P(gens = A_1 .. A_K and the loop stops after K passes)
         = prod_k RF(S_k, I_k -> A_{k+1})  *  [loop condition true at 0..K-1, false at K].
   The generation sets are a ghost of the instrumented loop of Model/DiscreteG.v, whose
   projection on the output is the extracted model (dloopG_fst / sis_loopG_fst).
   return_full_data = False. *)
From EoNV Require Import Prelude Samp Graph Discrete DiscreteP DiscreteO DiscreteSISO DiscreteOP DeferredP
  DiscreteLawP SISLawP PercLawP DiscreteG.
From Coq Require Import Permutation Lqa.

(* ---- generalities on prob ---- *)
Lemma prob_ext : forall A (f f' : A -> bool) d, (forall a, f a = f' a) -> prob f d == prob f' d.
Proof.
  intros A f f' d H. unfold prob. induction d as [|x d IH]; cbn [map sumQ fold_right]; [reflexivity|].
  fold (sumQ (map (fun aw => if f (fst aw) then snd aw else 0) d)).
  fold (sumQ (map (fun aw => if f' (fst aw) then snd aw else 0) d)).
  rewrite IH, H. reflexivity.
Qed.

Lemma prob_false : forall A (d : dist A), prob (fun _ => false) d == 0.
Proof.
  intros A d. unfold prob. induction d as [|x d IH]; cbn [map sumQ fold_right]; [reflexivity|].
  fold (sumQ (map (fun aw : A * Q => if false then snd aw else 0) d)). rewrite IH. ring.
Qed.

Lemma prob_concat_scale : forall X A B (e1 : A -> bool) (e2 : B -> bool) (w : X -> Q)
    (d1 : X -> dist A) (d2 : X -> dist B) (l : list X),
  (forall x, prob e1 (d1 x) == prob e2 (d2 x)) ->
  prob e1 (concat (map (fun x => scale (w x) (d1 x)) l)) == prob e2 (concat (map (fun x => scale (w x) (d2 x)) l)).
Proof.
  intros X A B e1 e2 w d1 d2 l H. induction l as [|x l IH]; [reflexivity|].
  cbn [map concat]. rewrite !prob_app, !prob_scale, IH, H. reflexivity.
Qed.

(* the law of a relabelled result *)
Lemma prob_bind_ret : forall A B (ev : B -> bool) (h : A -> B) (m : samp A),
  prob ev (law (bind m (fun x => Ret (h x)))) == prob (fun x => ev (h x)) (law m).
Proof.
  intros A B ev h m. induction m as [a|e|r k IH|p kt IHt kf IHf|ps k IH|w c k IH|c k IH|pop n k IH];
    cbn [bind]; try reflexivity.
  - rewrite !prob_flip, IHt, IHf. reflexivity.
  - cbn [law]. apply (prob_concat_scale _ _ _ ev (fun x => ev (h x)) (fun ip => snd ip)
                        (fun ip => law (bind (k (fst ip)) (fun x => Ret (h x)))) (fun ip => law (k (fst ip)))).
    intro ip. apply IH.
  - cbn [law]. apply (prob_concat_scale _ _ _ ev (fun x => ev (h x))
                        (fun cw => if w then snd cw / wsum c else 1 / Qnat (length c))
                        (fun cw => law (bind (k (fst cw)) (fun x => Ret (h x)))) (fun cw => law (k (fst cw)))).
    intro cw. apply IH.
  - cbn [law]. apply (prob_concat_scale _ _ _ ev (fun x => ev (h x)) (fun _ => 1 / Qnat (length c))
                        (fun x => law (bind (k x) (fun x => Ret (h x)))) (fun x => law (k x))).
    intro x. apply IH.
Qed.

(* conditioning on the result of a first part given as an oracle tree with fresh coins: if the
   continuation's probability of ev is P' on the results selected by sel and 0 on the others *)
Lemma lazy_bind_split : forall A B p (t : otree A) (K : A -> samp B) (ev : B -> bool) (sel : A -> bool)
    (P : A -> Prop) (P' : Q),
  oall P t ->
  (forall a, P a -> sel a = true -> prob ev (law (K a)) == P') ->
  (forall a, P a -> sel a = false -> prob ev (law (K a)) == 0) ->
  prob ev (law (bind (lazy p t) K)) == prob sel (law (lazy p t)) * P'.
Proof.
  intros A B p t K ev sel P P'. induction t as [a|e|u v kt IHt kf IHf|c k IH]; intros Ht H1 H0; cbn [oall] in Ht.
  - cbn [lazy bind]. rewrite prob_ret. destruct (sel a) eqn:E.
    + rewrite (H1 a Ht E). ring.
    + rewrite (H0 a Ht E). ring.
  - cbn [lazy bind law]. change (prob ev []) with 0. change (prob sel []) with 0. ring.
  - destruct Ht as [Ht1 Ht2]. cbn [lazy bind]. rewrite !prob_flip, IHt, IHf by assumption. ring.
  - cbn [lazy bind law]. set (w := 1 / Qnat (length c)).
    assert (G : forall c', prob ev (concat (map (fun x => scale w (law (bind (lazy p (k x)) K))) c')) ==
                           prob sel (concat (map (fun x => scale w (law (lazy p (k x)))) c')) * P').
    { induction c' as [|x c' IHc]; cbn [map concat].
      - change (prob ev []) with 0. change (prob sel []) with 0. ring.
      - rewrite !prob_app, !prob_scale, IHc, (IH x (Ht x) H1 H0). ring. }
    apply G.
Qed.

(* ---- the number of contacts into v does not depend on the iteration order ---- *)
Lemma mcount_perm : forall g us us' v, Permutation us us' -> mcount (contacts g us) v = mcount (contacts g us') v.
Proof.
  intros g us us' v P. induction P as [|x l l' P IH|x y l|l l' l'' P1 IH1 P2 IH2].
  - reflexivity.
  - change (contacts g (x :: l)) with (map (fun w => (x, w)) (gadj g x) ++ contacts g l).
    change (contacts g (x :: l')) with (map (fun w => (x, w)) (gadj g x) ++ contacts g l').
    rewrite !mcount_app, IH. reflexivity.
  - change (contacts g (y :: x :: l)) with (map (fun w => (y, w)) (gadj g y) ++ map (fun w => (x, w)) (gadj g x) ++ contacts g l).
    change (contacts g (x :: y :: l)) with (map (fun w => (x, w)) (gadj g x) ++ map (fun w => (y, w)) (gadj g y) ++ contacts g l).
    rewrite !mcount_app. lia.
  - congruence.
Qed.

(* ---- what the contact loop (plain mode) does to the susceptible map ---- *)
Definition cq (c c' : cst) : Prop :=
  (forall v, mem v (c_new c) = true -> mem v (c_new c') = true) /\
  (forall v, c_sus c' v = c_sus c v && negb (mem v (c_new c'))).

Lemma cloop_cq : forall k cs c, (forall v, mem v (c_new c) = true -> c_sus c v = false) ->
  oall (cq c) (cloop_o false k cs c).
Proof.
  intros k cs. induction cs as [|[u w] cs IH]; intros c Hc.
  - cbn [cloop_o oall]. split; [auto|]. intro v. destruct (mem v (c_new c)) eqn:E.
    + rewrite (Hc v E). reflexivity.
    + rewrite andb_true_r. reflexivity.
  - cbn [cloop_o]. destruct (c_sus c w) eqn:Es.
    + cbn [oask obind oall]. split.
      * eapply oall_mono.
        -- apply IH. cbn [c_new c_sus]. intros v Hv. unfold fupdN. rewrite mem_cons in Hv.
           destruct (N.eqb v w); [reflexivity|]. cbn [orb] in Hv. apply Hc. exact Hv.
        -- intros c' [Q1 Q2]. cbn [c_new c_sus] in Q1, Q2. split.
           ++ intros v Hv. apply Q1. rewrite mem_cons, Hv. apply orb_true_r.
           ++ intro v. rewrite Q2. unfold fupdN. destruct (N.eqb_spec v w) as [E|E]; [|reflexivity].
              subst v. rewrite Es. rewrite (Q1 w) by (rewrite mem_cons, N.eqb_refl; reflexivity). reflexivity.
      * eapply oall_mono; [apply IH; exact Hc|]. intros c' H. exact H.
    + cbn [andb]. apply IH. exact Hc.
Qed.

(* ---- forgetting the ghost ---- *)
Lemma dloopG_fst : forall g R ord tmin tmax full i0 r0 fuel k t s,
  seqv (bind (dloopG g R ord tmin tmax full i0 r0 fuel k t s) (fun x => Ret (fst x)))
       (dloop g R None ord tmin tmax full i0 r0 fuel k t s).
Proof.
  intros g R ord tmin tmax full i0 r0 fuel. induction fuel as [|f IH]; intros k t s; cbn [dloopG dloop];
    destruct (nonempty (d_infs s) && xlt t tmax); cbn [bind fst]; try apply seqv_refl.
  eapply seqv_trans; [apply seqv_bind_assoc|]. apply seqv_bind; [apply seqv_refl|]. intro s'.
  eapply seqv_trans; [apply seqv_bind_assoc|]. cbn [bind fst]. apply IH.
Qed.

Lemma sis_loopG_fst : forall g R ord tmin tmax full i0 fuel k t s,
  seqv (bind (sis_loopG g R ord tmin tmax full i0 fuel k t s) (fun x => Ret (fst x)))
       (sis_loop g R ord tmin tmax full i0 fuel k t s).
Proof.
  intros g R ord tmin tmax full i0 fuel. induction fuel as [|f IH]; intros k t s; cbn [sis_loopG sis_loop];
    destruct (nonempty (s_infs s) && xlt t tmax); cbn [bind fst]; try apply seqv_refl.
  eapply seqv_trans; [apply seqv_bind_assoc|]. apply seqv_bind; [apply seqv_refl|]. intro s'.
  eapply seqv_trans; [apply seqv_bind_assoc|]. cbn [bind fst]. apply IH.
Qed.

Section Chain.
Variable g : graph.
Variable p : Q.
Variable ord : nat -> list node -> list node.
Variable tmin : Q.
Variable tmax : xtime.
Hypothesis Hnd : NoDup (gnodes g).
Hypothesis Hadj : forall u v, In u (gnodes g) -> In v (gadj g u) -> In v (gnodes g).
Hypothesis Hord : forall k l, Permutation (ord k l) l.

Let q := clamp01 p.

Lemma set_is_canon : forall A l,
  set_is g A (canon g l) = forallb (fun v => Bool.eqb (mem v l) (mem v A)) (gnodes g).
Proof.
  intros A l. unfold set_is. apply forallb_ext_in'. intros v Hv. unfold canon. rewrite mem_filter.
  assert (M : mem v (gnodes g) = true) by (apply dmem_In; exact Hv). rewrite M. reflexivity.
Qed.

Lemma set_is_canon_eq : forall A l, set_is g A (canon g l) = true -> canon g l = canon g A.
Proof.
  intros A l H. rewrite set_is_canon in H. rewrite forallb_forall in H. apply canon_ext. intros v Hv.
  apply Bool.eqb_prop. apply H. exact Hv.
Qed.

(* ================= SIR ================= *)
(* Reed-Frost one-step factor from (susceptible map, infectious nodes) to the next generation A *)
Definition RF (sus : node -> bool) (infs A : list node) : Q :=
  prodQ (map (fun v => if sus v
                       then (if mem v A then 1 - qpow (1 - q) (mcount (contacts g infs) v)
                             else qpow (1 - q) (mcount (contacts g infs) v))
                       else (if mem v A then 0 else 1)) (gnodes g)).

(* the chain stopped by the loop condition `while infecteds and t < tmax` (and the model's fuel) *)
Fixpoint chain_prob (fuel : nat) (t : Q) (sus : node -> bool) (infs : list node) (As : list (list node)) : Q :=
  if nonempty infs && xlt t tmax then
    match fuel, As with
    | S f, A :: As' => RF sus infs A * chain_prob f (t + 1) (fun v => sus v && negb (mem v A)) (canon g A) As'
    | _, _ => 0
    end
  else match As with [] => 1 | _ => 0 end.

Lemma RF_ext : forall sus sus' infs A, (forall v, In v (gnodes g) -> sus v = sus' v) -> RF sus infs A == RF sus' infs A.
Proof. intros sus sus' infs A H. unfold RF. apply prodQ_ext. intros v Hv. rewrite (H v Hv). reflexivity. Qed.

Lemma chain_prob_ext : forall fuel t sus sus' infs As, (forall v, In v (gnodes g) -> sus v = sus' v) ->
  chain_prob fuel t sus infs As == chain_prob fuel t sus' infs As.
Proof.
  induction fuel as [|f IH]; intros t sus sus' infs As H; cbn [chain_prob]; [reflexivity|].
  destruct (nonempty infs && xlt t tmax); [|reflexivity]. destruct As as [|A As']; [reflexivity|].
  rewrite (RF_ext sus sus' infs A H).
  rewrite (IH (t + 1) (fun v => sus v && negb (mem v A)) (fun v => sus' v && negb (mem v A)) (canon g A) As').
  - reflexivity.
  - intros v Hv. rewrite (H v Hv). reflexivity.
Qed.

Lemma chain_prob_O : forall t sus infs As, nonempty infs && xlt t tmax = true -> chain_prob O t sus infs As = 0.
Proof. intros t sus infs As H. cbn [chain_prob]. rewrite H. reflexivity. Qed.

Theorem chain_law : forall i0 r0 fuel k t s As,
  (forall u, In u (d_infs s) -> In u (gnodes g)) ->
  prob (fun x => gens_are g As (snd x)) (law (dloopG g (simple_rules p) ord tmin tmax false i0 r0 fuel k t s)) ==
  chain_prob fuel t (d_sus s) (d_infs s) As.
Proof.
  intros i0 r0 fuel. induction fuel as [|f IH]; intros k t s As Hs.
  - cbn [dloopG chain_prob]. destruct (nonempty (d_infs s) && xlt t tmax).
    + reflexivity.
    + rewrite prob_ret. cbn [snd]. destruct As; reflexivity.
  - cbn [dloopG chain_prob]. destruct (nonempty (d_infs s) && xlt t tmax).
    2:{ rewrite prob_ret. cbn [snd]. destruct As; reflexivity. }
    unfold step.
    rewrite (law_seqv _ _ _ (seqv_bind_assoc _ _ _ _ _ _)). cbn [bind].
    rewrite <- (lazy_cloop false p k (d_age s)).
    set (c0 := mkC (d_sus s) [] [] (d_nS s) (l_q (d_logs s))).
    assert (Hq : oall (cq c0) (cloop_o false k (contacts g (ord k (d_infs s))) c0)).
    { apply cloop_cq. intros v Hv. discriminate Hv. }
    destruct As as [|A As'].
    + rewrite (lazy_bind_split _ _ p _ _ _ (fun _ => false) (cq c0) 0 Hq).
      * ring.
      * intros c _ E. discriminate E.
      * intros c _ _. cbn [fst snd]. rewrite prob_bind_ret. cbn [snd gens_are]. apply prob_false.
    + rewrite (lazy_bind_split _ _ p _ _ _ (new_is g A) (cq c0)
                 (chain_prob f (t + 1) (fun v => d_sus s v && negb (mem v A)) (canon g A) As') Hq).
      * rewrite (lazy_cloop false p k (d_age s)). unfold c0.
        rewrite (reedfrost_step_law g p false A Hnd k (d_age s) (ord k (d_infs s)) (d_sus s) (d_nS s) (l_q (d_logs s))).
        2:{ intros u v Hu Hv. apply Hadj with u; [|exact Hv]. apply Hs. eapply Permutation_in; [apply Hord|exact Hu]. }
        fold q. unfold RF.
        rewrite (prodQ_ext _ (fun v => if d_sus s v
                       then (if mem v A then 1 - qpow (1 - q) (mcount (contacts g (d_infs s)) v)
                             else qpow (1 - q) (mcount (contacts g (d_infs s)) v))
                       else (if mem v A then 0 else 1)) (gnodes g)); [reflexivity|].
        intros v _. rewrite (mcount_perm g _ _ v (Hord k (d_infs s))). reflexivity.
      * intros c [Q1 Q2] E. cbn [fst snd]. rewrite prob_bind_ret. cbn [snd fst d_infs gens_are].
        assert (SE : set_is g A (canon g (c_new c)) = true).
        { rewrite set_is_canon. exact E. }
        rewrite (prob_ext _ _ (fun x => gens_are g As' (snd x))) by (intro x; rewrite SE; reflexivity).
        rewrite IH by (cbn [d_infs]; intros u Hu; apply canon_In in Hu; apply Hu).
        cbn [d_sus d_infs]. rewrite (set_is_canon_eq A (c_new c) SE).
        apply chain_prob_ext. intros v Hv. rewrite Q2. cbn [c_sus c0]. f_equal. f_equal.
        unfold new_is in E. rewrite forallb_forall in E. apply Bool.eqb_prop. apply E. exact Hv.
      * intros c _ E. cbn [fst snd]. rewrite prob_bind_ret. cbn [snd fst d_infs gens_are].
        assert (SE : set_is g A (canon g (c_new c)) = false).
        { rewrite set_is_canon. exact E. }
        rewrite (prob_ext _ _ (fun _ => false)) by (intro x; rewrite SE; reflexivity).
        apply prob_false.
Qed.

(* ================= SIS ================= *)
Definition RFS (infs A : list node) : Q :=
  prodQ (map (fun v => if mem v infs then (if mem v A then 0 else 1)
                       else (if mem v A then 1 - qpow (1 - q) (mcount (contacts g infs) v)
                             else qpow (1 - q) (mcount (contacts g infs) v))) (gnodes g)).

Fixpoint sis_chain_prob (fuel : nat) (t : Q) (infs : list node) (As : list (list node)) : Q :=
  if nonempty infs && xlt t tmax then
    match fuel, As with
    | S f, A :: As' => RFS infs A * sis_chain_prob f (t + 1) (canon g A) As'
    | _, _ => 0
    end
  else match As with [] => 1 | _ => 0 end.

Theorem sis_chain_law : forall i0 fuel k t s As,
  (forall u, In u (s_infs s) -> In u (gnodes g)) ->
  prob (fun x => gens_are g As (snd x)) (law (sis_loopG g (simple_rules p) ord tmin tmax false i0 fuel k t s)) ==
  sis_chain_prob fuel t (s_infs s) As.
Proof.
  intros i0 fuel. induction fuel as [|f IH]; intros k t s As Hs.
  - cbn [sis_loopG sis_chain_prob]. destruct (nonempty (s_infs s) && xlt t tmax).
    + reflexivity.
    + rewrite prob_ret. cbn [snd]. destruct As; reflexivity.
  - cbn [sis_loopG sis_chain_prob]. destruct (nonempty (s_infs s) && xlt t tmax).
    2:{ rewrite prob_ret. cbn [snd]. destruct As; reflexivity. }
    unfold sis_step.
    rewrite (law_seqv _ _ _ (seqv_bind_assoc _ _ _ _ _ _)).
    rewrite <- (lazy_sis_cloop (fun _ u => u) p k).
    pose proof (oall_true _ (sis_cloop_o (fun _ u => u) k (s_infs s) (contacts g (ord k (s_infs s))) [] [] (l_q (s_logs s)))) as Hq.
    destruct As as [|A As'].
    + rewrite (lazy_bind_split _ _ p _ _ _ (fun _ => false) (fun _ => True) 0 Hq).
      * ring.
      * intros c _ E. discriminate E.
      * intros [[new inf] ql] _ _. cbn [bind fst snd]. rewrite prob_bind_ret. cbn [snd gens_are]. apply prob_false.
    + rewrite (lazy_bind_split _ _ p _ _ _ (sis_new_is g A) (fun _ => True)
                 (sis_chain_prob f (t + 1) (canon g A) As') Hq).
      * rewrite (lazy_sis_cloop (fun _ u => u) p k).
        rewrite (sis_step_law g p A Hnd k (s_infs s) (ord k (s_infs s)) (l_q (s_logs s))).
        2:{ intros u v Hu Hv. apply Hadj with u; [|exact Hv]. apply Hs. eapply Permutation_in; [apply Hord|exact Hu]. }
        fold q. unfold RFS.
        rewrite (prodQ_ext _ (fun v => if mem v (s_infs s) then (if mem v A then 0 else 1)
                       else (if mem v A then 1 - qpow (1 - q) (mcount (contacts g (s_infs s)) v)
                             else qpow (1 - q) (mcount (contacts g (s_infs s)) v))) (gnodes g)); [reflexivity|].
        intros v _. rewrite (mcount_perm g _ _ v (Hord k (s_infs s))). reflexivity.
      * intros [[new inf] ql] _ E. cbn [bind fst snd]. rewrite prob_bind_ret. cbn [snd fst s_infs gens_are].
        assert (SE : set_is g A (canon g new) = true).
        { rewrite set_is_canon. exact E. }
        rewrite (prob_ext _ _ (fun x => gens_are g As' (snd x))) by (intro x; rewrite SE; reflexivity).
        rewrite IH by (cbn [s_infs]; intros u Hu; apply canon_In in Hu; apply Hu).
        cbn [s_infs]. rewrite (set_is_canon_eq A new SE). reflexivity.
      * intros [[new inf] ql] _ E. cbn [bind fst snd]. rewrite prob_bind_ret. cbn [snd fst s_infs gens_are].
        assert (SE : set_is g A (canon g new) = false).
        { rewrite set_is_canon. exact E. }
        rewrite (prob_ext _ _ (fun _ => false)) by (intro x; rewrite SE; reflexivity).
        apply prob_false.
Qed.

End Chain.

(* ---- top level ---- *)
Theorem dsir_G_fst : forall g p ord i0 r0o tmin tmax full fuel,
  seqv (bind (basic_discrete_SIR_G g p ord i0 r0o tmin tmax full fuel) (fun x => Ret (fst x)))
       (basic_discrete_SIR g p ord (Some i0) r0o None tmin tmax full fuel).
Proof.
  intros. unfold basic_discrete_SIR_G, basic_discrete_SIR, basic_discrete_SIR_R, discrete_SIR. cbn [with_initial].
  apply dloopG_fst.
Qed.

Theorem dsis_G_fst : forall g p ord i0 tmin tmax full fuel,
  seqv (bind (basic_discrete_SIS_G g p ord i0 tmin tmax full fuel) (fun x => Ret (fst x)))
       (basic_discrete_SIS g p ord (Some i0) None tmin tmax full fuel).
Proof.
  intros. unfold basic_discrete_SIS_G, basic_discrete_SIS, basic_discrete_SIS_R. cbn [with_initial].
  apply sis_loopG_fst.
Qed.

Theorem dsir_chain_law : forall g p ord tmin tmax,
  NoDup (gnodes g) -> (forall u v, In u (gnodes g) -> In v (gadj g u) -> In v (gnodes g)) ->
  (forall k l, Permutation (ord k l) l) ->
  forall i0 r0o fuel As,
  prob (fun x => gens_are g As (snd x)) (law (basic_discrete_SIR_G g p ord i0 r0o tmin tmax false fuel)) ==
  chain_prob g p tmax fuel tmin (fun v => negb (mem v i0) && negb (mem v (opt_list r0o))) (canon g i0) As.
Proof.
  intros g p ord tmin tmax Hnd Hadj Hord i0 r0o fuel As. unfold basic_discrete_SIR_G.
  rewrite (chain_law g p ord tmin tmax Hnd Hadj Hord).
  - reflexivity.
  - cbn [init_state d_infs]. intros u Hu. apply canon_In in Hu. apply Hu.
Qed.

Theorem dsis_chain_law : forall g p ord tmin tmax,
  NoDup (gnodes g) -> (forall u v, In u (gnodes g) -> In v (gadj g u) -> In v (gnodes g)) ->
  (forall k l, Permutation (ord k l) l) ->
  forall i0 fuel As,
  prob (fun x => gens_are g As (snd x)) (law (basic_discrete_SIS_G g p ord i0 tmin tmax false fuel)) ==
  sis_chain_prob g p tmax fuel tmin (canon g i0) As.
Proof.
  intros g p ord tmin tmax Hnd Hadj Hord i0 fuel As. unfold basic_discrete_SIS_G.
  rewrite (sis_chain_law g p ord tmin tmax Hnd Hadj Hord).
  - reflexivity.
  - cbn [sis_init s_infs]. intros u Hu. apply canon_In in Hu. apply Hu.
Qed.
