(* Gillespie_complex_contagion refines the textbook direct method: the program
   of Model/Complex.v (incremental bookkeeping in a _ListDict_) and the program
   [sloop] below, which recomputes every rate from scratch from the current
   statuses before every draw, make the same calls to the random source with
   the same arguments (up to == on rationals) and return the same result, for
   every draw script. *)
From EoNV Require Import Prelude Samp Graph ListDict ListDictP Gillespie KldP GillespieInv Complex ComplexP.
From Coq Require Import Lqa Permutation Sorted.

(* ---------- insertion sort on N: the canonical order of node keys ---------- *)
Fixpoint ninsert (x : N) (l : list N) : list N :=
  match l with
  | [] => [x]
  | h :: t => if N.ltb x h then x :: l else h :: ninsert x t
  end.
Definition nsort (l : list N) : list N := fold_right ninsert [] l.

Lemma ninsert_perm : forall x l, Permutation (ninsert x l) (x :: l).
Proof.
  intros x. induction l as [|h t IH]; [apply Permutation_refl|].
  cbn [ninsert]. destruct (N.ltb x h); [apply Permutation_refl|].
  eapply Permutation_trans; [apply perm_skip; exact IH|apply perm_swap].
Qed.

Lemma nsort_perm : forall l, Permutation (nsort l) l.
Proof.
  induction l as [|h t IH]; [apply Permutation_refl|].
  unfold nsort. cbn [fold_right]. fold (nsort t).
  eapply Permutation_trans; [apply ninsert_perm|]. apply perm_skip. exact IH.
Qed.

Lemma ninsert_sorted : forall x l, StronglySorted N.le l -> StronglySorted N.le (ninsert x l).
Proof.
  intros x. induction l as [|h t IH]; intro Hs.
  - cbn. constructor; [constructor|constructor].
  - cbn [ninsert]. inversion Hs as [|h' t' Hst Hall]; subst h' t'.
    destruct (N.ltb_spec x h) as [Hlt|Hge].
    + constructor; [exact Hs|]. constructor; [apply N.lt_le_incl; exact Hlt|].
      eapply Forall_impl; [|exact Hall]. intros a Ha. cbv beta in Ha. lia.
    + constructor; [apply IH; exact Hst|].
      assert (Hp : Permutation (ninsert x t) (x :: t)) by apply ninsert_perm.
      apply Forall_forall. intros a Ha. apply (Permutation_in _ Hp) in Ha.
      destruct Ha as [E|Ha]; [subst a; exact Hge|].
      rewrite Forall_forall in Hall. apply Hall. exact Ha.
Qed.

Lemma nsort_sorted : forall l, StronglySorted N.le (nsort l).
Proof.
  induction l as [|h t IH]; [constructor|].
  unfold nsort. cbn [fold_right]. fold (nsort t). apply ninsert_sorted. exact IH.
Qed.

Lemma sorted_perm_eq : forall l1 l2, StronglySorted N.le l1 -> StronglySorted N.le l2 ->
  Permutation l1 l2 -> l1 = l2.
Proof.
  induction l1 as [|a l1 IH]; intros l2 H1 H2 Hp.
  - apply Permutation_nil in Hp. subst l2. reflexivity.
  - destruct l2 as [|b l2]; [apply Permutation_sym, Permutation_nil in Hp; discriminate|].
    inversion H1 as [|a' l1' Hs1 Ha]; subst a' l1'. inversion H2 as [|b' l2' Hs2 Hb]; subst b' l2'.
    rewrite Forall_forall in Ha, Hb.
    assert (Eab : a = b).
    { assert (Hina : In a (b :: l2)) by (apply (Permutation_in _ Hp); left; reflexivity).
      assert (Hinb : In b (a :: l1)) by (apply (Permutation_in _ (Permutation_sym Hp)); left; reflexivity).
      destruct Hina as [E|Hina]; [symmetry; exact E|]. destruct Hinb as [E|Hinb]; [exact E|].
      apply N.le_antisymm; [apply Ha; exact Hinb|apply Hb; exact Hina]. }
    subst b. f_equal. apply IH; [exact Hs1|exact Hs2|]. apply Permutation_cons_inv with a. exact Hp.
Qed.

Lemma nsort_canon : forall l1 l2, Permutation l1 l2 -> nsort l1 = nsort l2.
Proof.
  intros l1 l2 Hp. apply sorted_perm_eq; [apply nsort_sorted|apply nsort_sorted|].
  eapply Permutation_trans; [apply nsort_perm|]. eapply Permutation_trans; [exact Hp|].
  apply Permutation_sym. apply nsort_perm.
Qed.

(* the canonical order on node keys is the order on nodes *)
Lemma kinsert_knode : forall (w : N -> Q) x l,
  kinsert (knode x, w x) (map (fun u => (knode u, w u)) l) = map (fun u => (knode u, w u)) (ninsert x l).
Proof.
  intros w x. induction l as [|h t IH]; [reflexivity|].
  cbn [map kinsert ninsert fst knode kltb].
  destruct (N.ltb x h) eqn:E1.
  - reflexivity.
  - destruct (N.ltb h x); cbn [map]; rewrite <- IH; reflexivity.
Qed.

Lemma ksort_knode : forall (w : N -> Q) l,
  ksort (map (fun u => (knode u, w u)) l) = map (fun u => (knode u, w u)) (nsort l).
Proof.
  intros w. induction l as [|h t IH]; [reflexivity|].
  unfold ksort, nsort. cbn [map fold_right]. fold (ksort (map (fun u => (knode u, w u)) t)). fold (nsort t).
  rewrite IH. apply kinsert_knode.
Qed.

(* ---------- traces up to == ---------- *)
Definition call_eq (a b : call) : Prop :=
  match a, b with
  | CExpo r, CExpo r' => r == r'
  | CAcc w, CAcc w' => w == w'
  | _, _ => a = b
  end.
Definition trace_eq := Forall2 call_eq.
Definition cand_rel (a b : key * Q) : Prop := fst a = fst b /\ snd a == snd b.

Lemma Forall2_rev : forall (A B : Type) (R : A -> B -> Prop) l l',
  Forall2 R l l' -> Forall2 R (rev l) (rev l').
Proof.
  intros A B R l l' H. induction H as [|a b l l' Hab H IH]; [constructor|].
  cbn [rev]. apply Forall2_app; [exact IH|]. constructor; [exact Hab|constructor].
Qed.

Lemma Forall2_map_same : forall (A B C : Type) (R : B -> C -> Prop) (f : A -> B) (h : A -> C) l,
  (forall x, In x l -> R (f x) (h x)) -> Forall2 R (map f l) (map h l).
Proof.
  intros A B C R f h. induction l as [|a l IH]; intro H; [constructor|].
  cbn [map]. constructor; [apply H; left; reflexivity|]. apply IH. intros x Hx. apply H. right. exact Hx.
Qed.

Lemma Forall2_nth_error : forall (A B : Type) (R : A -> B -> Prop) l l' i,
  Forall2 R l l' ->
  match nth_error l i, nth_error l' i with
  | Some a, Some b => R a b
  | None, None => True
  | _, _ => False
  end.
Proof.
  intros A B R l l' i H. revert i. induction H as [|a b l l' Hab H IH]; intro i.
  - destruct i; exact I.
  - destruct i as [|i]; [exact Hab|apply IH].
Qed.

Lemma cand_rel_keys : forall c1 c2, Forall2 cand_rel c1 c2 -> map fst c1 = map fst c2.
Proof.
  intros c1 c2 H. induction H as [|a b l l' [Hk _] H IH]; [reflexivity|].
  cbn [map]. rewrite Hk, IH. reflexivity.
Qed.

Lemma Qltb_cong : forall a b c, b == c -> Qltb a b = Qltb a c.
Proof.
  intros a b c E. destruct (Qltb a b) eqn:E1; destruct (Qltb a c) eqn:E2; try reflexivity.
  - apply Qltb_true in E1. apply Qltb_false in E2. rewrite E in E1. exfalso. apply (Qlt_irrefl a). eapply Qlt_le_trans; eassumption.
  - apply Qltb_false in E1. apply Qltb_true in E2. rewrite E in E1. exfalso. apply (Qlt_irrefl a). eapply Qlt_le_trans; eassumption.
Qed.

Lemma choose_exec_rel : forall n ds c1 c2 tr1 tr2, (length ds <= n)%nat ->
  Forall2 cand_rel c1 c2 -> trace_eq tr1 tr2 ->
  fst (fst (choose_exec true c1 ds tr1)) = fst (fst (choose_exec true c2 ds tr2)) /\
  trace_eq (snd (fst (choose_exec true c1 ds tr1))) (snd (fst (choose_exec true c2 ds tr2))) /\
  snd (choose_exec true c1 ds tr1) = snd (choose_exec true c2 ds tr2).
Proof.
  induction n as [|n IH]; intros ds c1 c2 tr1 tr2 Hlen Hc Ht.
  - destruct ds; [|cbn in Hlen; lia].
    inversion Hc as [|a b l l' Hab Hl]; subst; cbn [choose_exec fst snd].
    + split; [reflexivity|]. split; [constructor; [reflexivity|exact Ht]|reflexivity].
    + split; [reflexivity|]. split; [exact Ht|reflexivity].
  - inversion Hc as [|a b l l' Hab Hl]; subst.
    { destruct ds; cbn [choose_exec fst snd]; (split; [reflexivity|]; split; [constructor; [reflexivity|exact Ht]|reflexivity]). }
    destruct ds as [|r ds1]; [cbn [choose_exec fst snd]; split; [reflexivity|]; split; [exact Ht|reflexivity]|].
    cbn [choose_exec].
    pose proof (Forall2_nth_error _ _ _ _ _ (rank r) Hc) as Hn.
    destruct (nth_error (a :: l) (rank r)) as [[x1 w1]|]; destruct (nth_error (b :: l') (rank r)) as [[x2 w2]|]; try contradiction.
    2: { cbn [fst snd]. split; [reflexivity|]. split; [exact Ht|reflexivity]. }
    destruct Hn as [Hk Hw]. cbn [fst snd] in Hk, Hw. subst x2.
    rewrite (cand_rel_keys _ _ Hc).
    assert (Ht1 : trace_eq (CPick (map fst (b :: l')) :: tr1) (CPick (map fst (b :: l')) :: tr2)).
    { constructor; [reflexivity|exact Ht]. }
    destruct ds1 as [|u ds2]; [cbn [fst snd]; split; [reflexivity|]; split; [exact Ht1|reflexivity]|].
    rewrite (Qltb_cong 0 w1 w2 Hw).
    assert (Ht2 : trace_eq (CAcc w1 :: CPick (map fst (b :: l')) :: tr1) (CAcc w2 :: CPick (map fst (b :: l')) :: tr2)).
    { constructor; [exact Hw|exact Ht1]. }
    destruct (Qltb 0 w2).
    + cbn [fst snd]. split; [reflexivity|]. split; [exact Ht2|reflexivity].
    + apply IH; [cbn [length] in Hlen; lia|exact Hc|exact Ht2].
Qed.

Section Refine.
Variable g : graph.
Variable rate : smap -> node -> Q.
Variable choice : smap -> node -> N.
Variable infl : smap -> node -> list node.
Variable rstats : list N.
Variable tmin : Q.
Variable tmax : xtime.
Variable full : bool.
Hypothesis Hnd : NoDup (gnodes g).
Hypothesis rate_nonneg : forall st u, 0 <= rate st u.
Hypothesis infl_in : forall st u v, In u (gnodes g) -> In v (infl st u) -> In v (gnodes g).
Hypothesis covers : influence_covers g rate infl.

Notation cloop := (cloop g rate choice infl rstats tmin tmax full).
Notation cfinish := (cfinish g rstats tmin full).
Notation apply_event := (apply_event g rate choice infl rstats full).
Notation total_rate := (total_rate g rate).
Notation posnodes := (posnodes g rate).
Notation cinv := (cinv g rate).
Notation cgood := (cgood g rate rstats).

(* ---- L1: the direct method, every rate recomputed from the statuses ---- *)
Definition spec_cands (st : smap) : list (key * Q) :=
  ksort (map (fun u => (knode u, rate st u)) (posnodes st)).

(* the event without any bookkeeping: new status from the chooser on the old
   statuses; rows; log; the user functions are consulted on the new statuses *)
Definition spec_event (t : Q) (u : node) (s : cst) : cst :=
  let st := cstat s in
  let ns := choice st u in
  let st' := fupdN st u ns in
  mkC st' (cnbr s)
      ((t, bump rstats (st u) ns (hd_counts (crows s))) :: crows s)
      (if full then (t, u, ns) :: celog s else celog s)
      (rev (map (call_rate g st') (infl st' u)) ++
       call_infl g st' u :: call_rate g st' u :: call_choice g st u :: ccalls s).

Fixpoint sloop (st0 : smap) (fuel : nat) (t : Q) (s : cst) : samp cout :=
  let tot := total_rate (cstat s) in
  if Qltb 0 tot then
    Expo tot (fun d =>
      let t1 := t + d in
      if xlt t1 tmax then
        match fuel with
        | O => Fail OutOfFuel
        | S f => Choose true (spec_cands (cstat s)) (fun c =>
                   match keynode c with
                   | Ok u => sloop st0 f t1 (spec_event t1 u s)
                   | Err e => Fail e
                   end)
        end
      else cfinish st0 s)
  else cfinish st0 s.

(* states agree on everything but the (unread) bookkeeping structure *)
Definition sim (s s2 : cst) : Prop :=
  cstat s = cstat s2 /\ crows s = crows s2 /\ celog s = celog s2 /\ ccalls s = ccalls s2.

Lemma cfinish_sim : forall st0 s s2, sim s s2 -> cfinish st0 s = cfinish st0 s2.
Proof.
  intros st0 s s2 [_ [Hr [He Hc]]]. unfold Complex.cfinish. rewrite Hr, He, Hc. reflexivity.
Qed.

Lemma cands_refine : forall s, cinv s -> Forall2 cand_rel (kl_cands (cnbr s)) (spec_cands (cstat s)).
Proof.
  intros s Hs. pose proof (items_perm g rate Hnd s Hs) as Hp.
  destruct (Permutation_map_inv _ _ Hp) as [l3 [Hit Hp3]].
  unfold kl_cands, spec_cands. rewrite (ci_w g rate s Hs), Hit, map_map.
  rewrite (ksort_knode (fun u => wread key (cnbr s) (knode u)) l3).
  rewrite (ksort_knode (fun u => rate (cstat s) u) (posnodes (cstat s))).
  rewrite (nsort_canon _ _ (Permutation_sym Hp3)).
  apply Forall2_map_same. intros u Hu. split; [reflexivity|]. cbn [snd].
  apply (wread_node g rate Hnd s u Hs).
  apply (Permutation_in _ (nsort_perm _)). exact Hu.
Qed.

Lemma sloop_unfold : forall st0 fuel t s,
  sloop st0 fuel t s =
  if Qltb 0 (total_rate (cstat s)) then
    Expo (total_rate (cstat s)) (fun d =>
      if xlt (t + d) tmax then
        match fuel with
        | O => Fail OutOfFuel
        | S f => Choose true (spec_cands (cstat s)) (fun c =>
                   match keynode c with
                   | Ok u => sloop st0 f (t + d) (spec_event (t + d) u s)
                   | Err e => Fail e
                   end)
        end
      else cfinish st0 s)
  else cfinish st0 s.
Proof. intros st0 fuel t s. destruct fuel; reflexivity. Qed.

Definition res_rel (a b : result cout * list call) : Prop := fst a = fst b /\ trace_eq (snd a) (snd b).

Lemma exec_cfinish_rel : forall st0 s s2 ds tr tr2, sim s s2 -> trace_eq tr tr2 ->
  res_rel (exec (cfinish st0 s) ds tr) (exec (cfinish st0 s2) ds tr2).
Proof.
  intros st0 s s2 ds tr tr2 Hsim Ht. rewrite (cfinish_sim st0 s s2 Hsim).
  unfold Complex.cfinish. destruct full.
  - destruct (full_check g rstats st0 (rev (celog s2))); cbn [exec]; split; cbn [fst snd]; try reflexivity; apply Forall2_rev; exact Ht.
  - cbn [exec]. split; cbn [fst snd]; [reflexivity|apply Forall2_rev; exact Ht].
Qed.

Theorem cloop_refines : forall st0 fuel t s s2 ds tr tr2,
  cgood s -> sim s s2 -> trace_eq tr tr2 ->
  res_rel (exec (cloop st0 fuel t s) ds tr) (exec (sloop st0 fuel t s2) ds tr2).
Proof.
  intros st0. induction fuel as [|f IH]; intros t s s2 ds tr tr2 Hg Hsim Ht;
    pose proof (cg_inv g rate rstats s Hg) as Hi;
    pose proof (total_inv g rate Hnd rate_nonneg s Hi) as Htot;
    destruct Hsim as [Hst Hrest]; pose proof (conj Hst Hrest) as Hsim;
    rewrite cloop_unfold, sloop_unfold; rewrite <- Hst;
    rewrite (Qltb_cong 0 _ _ Htot);
    (destruct (Qltb 0 (total_rate (cstat s))) eqn:Epos; [|apply exec_cfinish_rel; assumption]);
    apply Qltb_true in Epos; cbn [exec];
    (assert (Ez : Qeqb (ld_total_weight key (cnbr s)) 0 = false);
     [apply Qeqb_false; intro E; rewrite Htot in E; rewrite E in Epos; apply (Qlt_irrefl 0); exact Epos|]);
    (assert (Ez2 : Qeqb (total_rate (cstat s)) 0 = false);
     [apply Qeqb_false; intro E; rewrite E in Epos; apply (Qlt_irrefl 0); exact Epos|]);
    rewrite Ez, Ez2;
    (destruct ds as [|d ds]; [split; cbn [fst snd]; [reflexivity|apply Forall2_rev; exact Ht]|]);
    (destruct (Qltb d 0); [split; cbn [fst snd]; [reflexivity|apply Forall2_rev; exact Ht]|]);
    (assert (Ht1 : trace_eq (CExpo (ld_total_weight key (cnbr s)) :: tr) (CExpo (total_rate (cstat s)) :: tr2));
     [constructor; [exact Htot|exact Ht]|]);
    unfold loop_body;
    (destruct (xlt (t + d) tmax); [|apply exec_cfinish_rel; assumption]).
  - cbn [exec]. split; cbn [fst snd]; [reflexivity|apply Forall2_rev; exact Ht1].
  - unfold Complex.event. rewrite jump_eq. cbn [bind exec].
    pose proof (choose_exec_rel (length ds) ds _ _ _ _ (le_n _) (cands_refine s Hi) Ht1) as [Hr [Htr Hds]].
    pose proof (choose_exec_cases (length ds) true (kl_cands (cnbr s)) ds (CExpo (ld_total_weight key (cnbr s)) :: tr) (le_n _)) as Hch.
    destruct (choose_exec true (kl_cands (cnbr s)) ds (CExpo (ld_total_weight key (cnbr s)) :: tr)) as [[r1 tr1'] ds1].
    destruct (choose_exec true (spec_cands (cstat s)) ds (CExpo (total_rate (cstat s)) :: tr2)) as [[r2 tr2'] ds2].
    cbn [fst snd] in Hr, Htr, Hds. subst r2 ds2.
    destruct r1 as [x|e]; [|split; cbn [fst snd]; [reflexivity|apply Forall2_rev; exact Htr]].
    destruct Hch as [wt Hin]. destruct (cands_positive g rate Hnd s x wt Hi Hin) as [u [Ex' [Hu _]]]. subst x.
    unfold jump_k, keynode, knode. cbn [bind fst].
    destruct (apply_event_inv g rate choice infl rstats full rate_nonneg infl_in covers (t + d) u s Hi Hu)
      as [s1 [He [Hi1 [Hst1 [Hrows1 [Helog1 Hcalls1]]]]]].
    rewrite He. cbn [liftc].
    apply IH.
    + constructor; [exact Hi1|]. rewrite Hrows1, Hst1. cbn [hd_counts]. rewrite (cg_rows g rate rstats s Hg).
      apply (bump_counts g rstats Hnd). exact Hu.
    + destruct Hrest as [Hr2 [He2 Hc2]]. unfold sim, spec_event. cbn [cstat crows celog ccalls].
      rewrite <- Hst, <- Hr2, <- He2, <- Hc2.
      split; [exact Hst1|]. split; [exact Hrows1|]. split; [exact Helog1|].
      rewrite Hcalls1, Hst1. reflexivity.
    + exact Htr.
Qed.

(* ---- the whole program ---- *)
Definition scomplex (ic : node -> option N) (fuel : nat) : samp cout :=
  if forallb (fun u => match ic u with Some _ => true | None => false end) (gnodes g) then
    let st0 : smap := fun u => match ic u with Some s => s | None => 0%N end in
    sloop st0 fuel tmin
      (mkC st0 (kl_empty true) [(tmin, counts g rstats st0)] [] (rev (map (call_rate g st0) (gnodes g))))
  else Fail KeyErr.

Lemma call_eq_refl : forall c, call_eq c c.
Proof. intros []; cbn; reflexivity. Qed.
Lemma trace_eq_refl : forall tr, trace_eq tr tr.
Proof. induction tr; constructor; [apply call_eq_refl|assumption]. Qed.

Theorem complex_refines : forall ic fuel ds tr,
  res_rel (exec (complex g rate choice infl rstats tmin tmax full ic fuel) ds tr)
          (exec (scomplex ic fuel) ds tr).
Proof.
  intros ic fuel ds tr. unfold complex, scomplex.
  destruct (forallb _ (gnodes g)).
  - set (st0 := fun u => match ic u with Some s => s | None => 0%N end).
    destruct (init_good g rate rstats tmin Hnd rate_nonneg st0) as [lc [He [Hg Hcalls]]].
    rewrite He. cbn [liftc].
    apply cloop_refines; [exact Hg| |apply trace_eq_refl].
    unfold sim, init_state. cbn [cstat crows celog ccalls]. rewrite Hcalls. repeat split; reflexivity.
  - cbn [exec]. split; [reflexivity|apply trace_eq_refl].
Qed.

End Refine.
