(* C08, tree clause: tree_okb (Proofs/C08tF.v) accepts EVERY graph that has a peeling order (every forest, in particular
   every tree), conjunct by conjunct:

     branch_sep      for EVERY graph: the fuel-bounded search `grow` is saturated after nN rounds, so each `branch j i` is
                     closed under adjacency in G - j, i.e. sepb holds (cuts_okb needs no tree hypothesis);
     grow_sound      everything the search collects is joined to the start by a walk avoiding j;
     branch_cover    with a peeling order, two neighbours i, k of j lie on different sides of the cut `branch j i`
                     (peel_no_bypass of C08tTreeA.v): coverb;
     forest_tree_okb the assembled statement;
     wf_pb_wfb       the side conditions pb_wfb and noloopb hold for nodelist = gnodes G, idx = position in gnodes G
                     (pos_in) as soon as G is a simple graph (wf_graphb of Base/Graph.v). *)
From EoNV Require Import Prelude Vec VecP Graph Rhs2D Rhs2DP Rhs2 Rhs2GenP Master C08tG C08tS C08tT C08tR C08tA C08tO C08tC C08tF C08tTreeA.
From Coq Require Import Lia List Arith Bool.
Import ListNotations.

Section Grow.
Variables (G : graph) (nodelist : list node).
Notation n_ := (nN nodelist).
Notation adj := (adjb G nodelist).
Notation edge := (is_edge G nodelist).
Notation grow := (grow G nodelist).
Notation branch := (branch G nodelist).

Lemma memn_In k l : memn k l = true <-> In k l.
Proof. exact (memn'_In k l). Qed.
Lemma memn_false k l : memn k l = false <-> ~ In k l.
Proof. exact (memn'_false k l). Qed.
Lemma adjb_sym a b : adj a b = adj b a.
Proof. unfold adjb. apply orb_comm. Qed.

Definition fresh (j : nat) (cur : list nat) : list nat :=
  filter (fun b => negb (Nat.eqb b j) && negb (memn b cur) && existsb (fun a => adj a b) cur) (seq 0 n_).
Lemma grow_S f j cur : grow (S f) j cur = grow f j (cur ++ fresh j cur).
Proof. reflexivity. Qed.
Lemma grow_closed f j cur : fresh j cur = [] -> grow f j cur = cur.
Proof. intros H. induction f as [|f IH]; [reflexivity|]. rewrite grow_S, H, app_nil_r. exact IH. Qed.
Lemma grow_incl f j cur a : In a cur -> In a (grow f j cur).
Proof.
  revert cur; induction f as [|f IH]; intros cur H; [exact H|]. rewrite grow_S. apply IH. apply in_or_app. left. exact H.
Qed.
Lemma fresh_spec j cur b : In b (fresh j cur) <->
  (b < n_)%nat /\ b <> j /\ ~ In b cur /\ exists a, In a cur /\ adj a b = true.
Proof.
  unfold fresh. rewrite filter_In, in_seq. split.
  - intros [Hb H]. apply andb_prop in H. destruct H as [H H3]. apply andb_prop in H. destruct H as [H1 H2].
    apply negb_true_iff in H1, H2. apply Nat.eqb_neq in H1. apply memn_false in H2. apply existsb_exists in H3.
    repeat split; try assumption; lia.
  - intros [Hb [H1 [H2 H3]]]. split; [lia|]. apply andb_true_intro. split; [apply andb_true_intro; split|].
    + apply negb_true_iff. apply Nat.eqb_neq. exact H1.
    + apply negb_true_iff. apply memn_false. exact H2.
    + apply existsb_exists. exact H3.
Qed.

(* ---- saturation: after `missing cur` rounds nothing new is found ---- *)
Definition missing (cur : list nat) : nat := length (filter (fun b => negb (memn b cur)) (seq 0 n_)).
Lemma missing_le cur : (missing cur <= n_)%nat.
Proof.
  unfold missing. etransitivity; [apply (filter_length_le (fun _ => true)); reflexivity|].
  assert (E : filter (fun _ : nat => true) (seq 0 n_) = seq 0 n_).
  { generalize (seq 0 n_) as l. induction l as [|a l IH]; [reflexivity|]. cbn [filter]. rewrite IH. reflexivity. }
  rewrite E, seq_length. apply Nat.le_refl.
Qed.
Lemma grow_sat f j cur : (missing cur <= f)%nat -> fresh j (grow f j cur) = [].
Proof.
  revert cur; induction f as [|f IH]; intros cur HM.
  - cbn [C08tF.grow]. assert (Z : missing cur = 0%nat) by lia. unfold missing in Z. apply length_zero_iff_nil in Z.
    assert (Z' := proj1 (filter_nil_iff _ _) Z). apply filter_nil_iff. intros b Hb.
    rewrite (proj1 (negb_false_iff _) (Z' b Hb)). cbn [negb]. rewrite andb_false_r. reflexivity.
  - destruct (fresh j cur) as [|b0 rest] eqn:E; [rewrite (grow_closed _ _ _ E); exact E|].
    rewrite grow_S, E. apply IH.
    assert (H0 : In b0 (fresh j cur)) by (rewrite E; left; reflexivity). apply fresh_spec in H0. destruct H0 as [Hb [_ [Hn _]]].
    assert (LT : (missing (cur ++ b0 :: rest) < missing cur)%nat).
    { unfold missing. apply (filter_length_lt _ _ _ b0).
      - intros y Hy. apply negb_true_iff in Hy. apply negb_true_iff. apply memn_false in Hy. apply memn_false.
        intros K. apply Hy. apply in_or_app. left. exact K.
      - apply in_seq. lia.
      - apply negb_true_iff. apply memn_false. exact Hn.
      - apply negb_false_iff. apply memn_In. apply in_or_app. right. left. reflexivity. }
    lia.
Qed.

(* ---- cuts_okb holds for every graph ---- *)
Lemma branch_sep j i : sepb G nodelist j (branch j i) = true.
Proof.
  unfold sepb. apply forallb_forall. intros a Ha. apply forallb_forall. intros b Hb. apply in_seq in Ha, Hb.
  destruct (Nat.eqb a j) eqn:Eaj; [reflexivity|]. destruct (Nat.eqb b j) eqn:Ebj; [reflexivity|]. cbn [orb].
  destruct (branch j i a) eqn:Ua; [|reflexivity]. destruct (branch j i b) eqn:Ub; [reflexivity|]. cbn [negb orb].
  destruct (adj a b) eqn:E.
  - exfalso. unfold C08tF.branch in Ua, Ub. apply memn_In in Ua. apply memn_false in Ub. apply Nat.eqb_neq in Ebj.
    assert (K : In b (fresh j (grow n_ j [i]))).
    { apply fresh_spec. split; [lia|]. split; [exact Ebj|]. split; [exact Ub|]. exists a. split; assumption. }
    rewrite (grow_sat n_ j [i] (missing_le _)) in K. destruct K.
  - unfold adjb in E. apply orb_false_elim in E. destruct E as [E1 E2]. rewrite E1, E2. reflexivity.
Qed.
Lemma cuts_okb_always : cuts_okb G nodelist (branch_cuts G nodelist) = true.
Proof.
  unfold cuts_okb. apply forallb_forall. intros c Hc. unfold branch_cuts in Hc. apply in_flat_map in Hc.
  destruct Hc as [j [Hj Hc]]. apply in_map_iff in Hc. destruct Hc as [i [<- _]]. cbn [fst snd].
  apply in_seq in Hj. rewrite branch_sep, andb_true_r. apply Nat.ltb_lt. lia.
Qed.

(* ---- what the search collects is reachable ---- *)
Lemma grow_sound f j cur k : In k (grow f j cur) -> exists a, In a cur /\ reach adj (seq 0 n_) j a k.
Proof.
  revert cur; induction f as [|f IH]; intros cur H.
  - exists k. split; [exact H|constructor].
  - rewrite grow_S in H. destruct (IH _ H) as [a [Ha R]]. apply in_app_or in Ha. destruct Ha as [Ha|Ha].
    + exists a. split; assumption.
    + apply fresh_spec in Ha. destruct Ha as [Hb [Nj [_ [a0 [Ia0 E]]]]]. exists a0. split; [exact Ia0|].
      apply (reach_step adj _ j a0 a k E Nj); [apply in_seq; lia|exact R].
Qed.

(* ---- a graph with a peeling order ---- *)
Definition perm_orderb (ord : list nat) : bool :=
  Nat.eqb (length ord) n_ && forallb (fun k => Nat.ltb k n_) ord.
Definition forest_orderb (ord : list nat) : bool := perm_orderb ord && forest_peelb adj ord.
Definition tree_orderb (ord : list nat) : bool := perm_orderb ord && tree_peelb adj ord.
Lemma tree_forest_order ord : tree_orderb ord = true -> forest_orderb ord = true.
Proof.
  unfold tree_orderb, forest_orderb. intros H. apply andb_prop in H. destruct H as [H1 H2].
  rewrite H1, (tree_forest_peel adj ord H2). reflexivity.
Qed.

Section Forest.
Variable ord : list nat.
Hypothesis NL : noloopb G nodelist = true.
Hypothesis FO : forest_orderb ord = true.

Lemma ord_parts : length ord = n_ /\ (forall k, In k ord -> (k < n_)%nat) /\ forest_peelb adj ord = true.
Proof.
  unfold forest_orderb, perm_orderb in FO. apply andb_prop in FO. destruct FO as [H H3]. apply andb_prop in H.
  destruct H as [H1 H2]. apply Nat.eqb_eq in H1. split; [exact H1|]. split; [|exact H3].
  intros k Hk. rewrite forallb_forall in H2. apply Nat.ltb_lt. apply H2. exact Hk.
Qed.
Lemma ord_all k : (k < n_)%nat -> In k ord.
Proof.
  destruct ord_parts as [L [B P]]. intros Hk.
  apply (NoDup_length_incl (forest_peel_nodup adj ord P) (l' := seq 0 n_)).
  - rewrite seq_length. lia.
  - intros x Hx. apply in_seq. specialize (B x Hx). lia.
  - apply in_seq. lia.
Qed.
Lemma adj_irrefl k : (k < n_)%nat -> adj k k = false.
Proof.
  intros Hk. unfold noloopb in NL. rewrite forallb_forall in NL.
  assert (H := NL k ltac:(apply in_seq; lia)). apply negb_true_iff in H. unfold adjb. rewrite H. reflexivity.
Qed.

Lemma branch_cover j i k : (j < n_)%nat -> (i < n_)%nat -> (k < n_)%nat -> i <> k -> adj i j = true -> adj k j = true ->
  branch j i i = true /\ branch j i k = false.
Proof.
  intros Hj Hi Hk Nik Eij Ekj. unfold C08tF.branch. split.
  - apply memn_In. apply grow_incl. left. reflexivity.
  - apply memn_false. intros K. apply grow_sound in K. destruct K as [a [[<-|[]] R]].
    destruct ord_parts as [_ [B P]].
    assert (NB : no_bypass adj ord).
    { apply (peel_no_bypass adj adjb_sym); [|exact P]. intros x Hx. apply adj_irrefl. apply B. exact Hx. }
    apply (NB j i k (ord_all j Hj) (ord_all i Hi) (ord_all k Hk) Nik Eij Ekj).
    apply (reach_mono adj (seq 0 n_)); [|exact R]. intros x Hx. apply in_seq in Hx. apply ord_all. lia.
Qed.

Lemma coverb_forest : coverb G nodelist (branch_cuts G nodelist) = true.
Proof.
  unfold coverb. apply forallb_forall. intros j Hj. apply forallb_forall. intros i Hi. apply forallb_forall. intros k Hk.
  destruct (negb (Nat.eqb i k) && (edge i j || edge j i) && (edge k j || edge j k))%bool eqn:C; [|reflexivity].
  apply andb_prop in C. destruct C as [C Ekj]. apply andb_prop in C. destruct C as [Nik Eij].
  apply negb_true_iff in Nik. apply Nat.eqb_neq in Nik. apply in_seq in Hj, Hi, Hk.
  change (adj i j = true) in Eij. change (adj k j = true) in Ekj.
  destruct (branch_cover j i k) as [B1 B2]; try assumption; try lia.
  apply existsb_exists. exists (j, branch j i). split.
  - unfold branch_cuts. apply in_flat_map. exists j. split; [apply in_seq; lia|].
    apply (in_map (fun i0 => (j, branch j i0))). apply filter_In. split; [apply in_seq; lia|].
    rewrite Eij, andb_true_r. apply negb_true_iff. apply Nat.eqb_neq. intros ->.
    rewrite adj_irrefl in Eij by lia. discriminate Eij.
  - cbn [fst snd]. rewrite Nat.eqb_refl, branch_sep, B1, B2. reflexivity.
Qed.
End Forest.
End Grow.

Theorem forest_tree_okb G nodelist idx ord :
  pb_wfb G nodelist idx = true -> noloopb G nodelist = true -> forest_orderb G nodelist ord = true ->
  tree_okb G nodelist idx = true.
Proof.
  intros W NL FO. unfold tree_okb. rewrite W, NL, cuts_okb_always, (coverb_forest G nodelist ord NL FO). reflexivity.
Qed.

(* ---------------- the side conditions for the callers' nodelist / index map ---------------- *)
Fixpoint pos_in (l : list node) (u : node) : nat :=
  match l with [] => 0%nat | x :: t => if N.eqb u x then 0%nat else S (pos_in t u) end.

Lemma pos_in_nth l i d : NoDup l -> (i < length l)%nat -> pos_in l (nth i l d) = i.
Proof.
  intros ND. revert i; induction ND as [|x l Hx ND IH]; intros i Hi; [cbn in Hi; lia|].
  destruct i as [|i]; cbn [nth pos_in]; [rewrite N.eqb_refl; reflexivity|].
  cbn [length] in Hi. assert (Hi' : (i < length l)%nat) by lia.
  destruct (N.eqb_spec (nth i l d) x) as [E|E]; [exfalso; apply Hx; rewrite <- E; apply nth_In; exact Hi'|].
  rewrite IH by exact Hi'. reflexivity.
Qed.
Lemma pos_in_In l u d : In u l -> (pos_in l u < length l)%nat /\ nth (pos_in l u) l d = u.
Proof.
  induction l as [|x l IH]; intros H; [destruct H|]. cbn [pos_in]. destruct (N.eqb_spec u x) as [E|E].
  - subst. cbn [length nth]. split; [lia|reflexivity].
  - destruct H as [H|H]; [exfalso; apply E; symmetry; exact H|]. destruct (IH H) as [A B]. cbn [length nth]. split; [lia|exact B].
Qed.
Lemma nodupb_NoDup l : nodupb l = true -> NoDup l.
Proof.
  induction l as [|x l IH]; intros H; [constructor|]. cbn [nodupb] in H. apply andb_prop in H. destruct H as [H1 H2].
  constructor; [|apply IH; exact H2]. intros K. apply mem_In in K. rewrite K in H1. discriminate H1.
Qed.

Theorem wf_pb_wfb G : wf_graphb G = true ->
  pb_wfb G (gnodes G) (pos_in (gnodes G)) = true /\ noloopb G (gnodes G) = true.
Proof.
  intros W. unfold wf_graphb in W. apply andb_prop in W. destruct W as [W _]. apply andb_prop in W. destruct W as [ND W].
  apply nodupb_NoDup in ND. rewrite forallb_forall in W.
  assert (P : forall i, (i < length (gnodes G))%nat ->
     nodupb (gadj G (node_at (gnodes G) i)) = true /\ subsetb (gadj G (node_at (gnodes G) i)) (gnodes G) = true /\
     mem (node_at (gnodes G) i) (gadj G (node_at (gnodes G) i)) = false).
  { intros i Hi. assert (H := W (node_at (gnodes G) i) ltac:(apply nth_In; exact Hi)).
    repeat (apply andb_prop in H; let K := fresh "K" in destruct H as [H K]).
    apply negb_true_iff in K3. repeat split; assumption. }
  split.
  - unfold pb_wfb, nN. rewrite Nat.eqb_refl. cbn [andb]. apply forallb_forall. intros i Hi. apply in_seq in Hi.
    destruct (P i ltac:(lia)) as [P1 [P2 _]]. unfold node_at at 1. rewrite pos_in_nth by (assumption || lia).
    rewrite Nat.eqb_refl, P1. cbn [andb]. apply forallb_forall. intros v Hv.
    unfold subsetb in P2. rewrite forallb_forall in P2. assert (Iv := P2 v Hv). apply mem_In in Iv.
    destruct (pos_in_In _ _ 0%N Iv) as [A B]. apply andb_true_intro. split; [apply Nat.ltb_lt; exact A|].
    apply N.eqb_eq. exact B.
  - unfold noloopb. apply forallb_forall. intros i Hi. apply in_seq in Hi. unfold nN in Hi.
    destruct (P i ltac:(lia)) as [_ [_ P3]]. apply negb_true_iff. exact P3.
Qed.

(* every simple graph with a peeling order of its positions is accepted, with the callers' nodelist and index map *)
Theorem forest_accepted G ord : wf_graphb G = true -> forest_orderb G (gnodes G) ord = true ->
  tree_okb G (gnodes G) (pos_in (gnodes G)) = true.
Proof. intros W FO. destruct (wf_pb_wfb G W) as [A B]. apply (forest_tree_okb G _ _ ord A B FO). Qed.
