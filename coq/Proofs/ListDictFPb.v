(* binary64 instances of the rounded-_ListDict_ theorems (rnd := rnd53, eps := 2^-53:
   no hypothesis about the rounding is left) and concrete histories. *)
From EoNV Require Import Prelude Samp ListDict ListDictP ListDictF ListDictFP ListDictFPr ListDictFPr2 ListDictFP2 ListDictFP4.
From Coq Require Import Qabs Lqa.

Section B64.
Variable K : Type.
Variable Keqb : K -> K -> bool.
Hypothesis Keqb_spec : forall a b, reflect (a = b) (Keqb a b).

Lemma b64_drift_peak : forall (ops : list (op K)) (s : ld K),
  Forall (op_ok K true) ops -> ldf_run K Keqb rnd53 (ld_empty true) ops = Ok s ->
  Qabs (drift K s) <= gam eps53 (hist_count K ops) * (2 * ldf_peak K Keqb rnd53 (ld_empty true) ops).
Proof.
  intros ops s. destruct eps53_range as [H0 H1].
  apply (ldf_drift_peak K Keqb Keqb_spec rnd53 eps53 H0 H1 rnd53_err).
Qed.

Lemma b64_drift_hist : forall (ops : list (op K)) (s : ld K),
  Forall (op_ok K true) ops -> ldf_run K Keqb rnd53 (ld_empty true) ops = Ok s ->
  Qabs (drift K s) <=
    gam eps53 (hist_count K ops) * (2 * (g eps53 (hist_count K ops) * hist_total K ops)).
Proof.
  intros ops s. destruct eps53_range as [H0 H1].
  apply (ldf_drift_hist K Keqb Keqb_spec rnd53 eps53 H0 H1 rnd53_err).
Qed.

Lemma b64_empty_total_zero : forall (ops : list (op K)) (s : ld K),
  Forall (op_ok K true) ops -> ldf_run K Keqb rnd53 (ld_empty true) ops = Ok s ->
  items s = [] -> total s = 0.
Proof.
  intros ops s. destruct eps53_range as [H0 H1].
  apply (ldf_empty_total_zero K Keqb Keqb_spec rnd53 eps53 H0 H1 rnd53_err).
Qed.

Lemma rnd53_proper_eq : forall x y, x == y -> rnd53 x == rnd53 y.
Proof. intros x y H. rewrite (rnd53_proper x y H). reflexivity. Qed.

Lemma b64_refines_fresh : forall (ops : list (op K)) (s : ld K),
  Forall (op_ok K true) ops -> Forall (op_rep K rnd53) ops ->
  hist_fresh K Keqb (sp_empty K) ops ->
  ldf_run K Keqb rnd53 (ld_empty true) ops = Ok s ->
  forall x, oQeq (abs K s x) (fold_left (sp_step K Keqb) ops (sp_empty K) x).
Proof.
  intros ops s. destruct eps53_range as [H0 H1].
  apply (ldf_refines_fresh K Keqb Keqb_spec rnd53 eps53 H0 H1 rnd53_err rnd53_proper_eq).
Qed.
Lemma b64_max_weight_bounds : forall (ops : list (op K)) (s : ld K),
  Forall (op_ok K true) ops -> ldf_run K Keqb rnd53 (ld_empty true) ops = Ok s ->
  forall k, wread K s k <= maxw s \/ wt s k = None.
Proof.
  intros ops s. destruct eps53_range as [H0 H1].
  apply (ldf_max_weight_bounds K Keqb Keqb_spec rnd53 eps53 H0 H1 rnd53_err rnd53_proper_eq rnd53_idem).
Qed.
End B64.

(* ---------- concrete binary64 histories ---------- *)
Definition d01 : Q := Qred (rnd53 (1 # 10)).      (* the doubles 0.1, 0.2, 0.3, 0.7, 1e-20 *)
Definition d02 : Q := Qred (rnd53 (2 # 10)).
Definition d03 : Q := Qred (rnd53 (3 # 10)).
Definition d07 : Q := Qred (rnd53 (7 # 10)).
Definition dtiny : Q := Qred (rnd53 (1 # 100000000000000000000)).

Definition ok_b (o : op N) : bool :=
  match o with
  | OpInsert _ w => Qleb 0 w && Qeqb (rnd53 w) w
  | OpUpdate _ d => Qleb 0 d && Qeqb (rnd53 d) d
  | OpRemove _ => true
  | OpAdd _ => false
  end.

(* (1) rounding really happens and the proved bound holds with room: insert 0.1, 0.2, 0.3,
   add 0.7 to the first, remove the second: the running total differs from the sum of
   the stored weights, by less than the bound *)
Definition ex_ops : list (op N) :=
  [OpInsert 1%N d01; OpInsert 2%N d02; OpInsert 3%N d03; OpUpdate 1%N d07; OpRemove 2%N].
Definition C16f_example_statement : Prop :=
  forallb ok_b ex_ops = true /\
  exists s, ldf_run N N.eqb rnd53 (ld_empty true) ex_ops = Ok s /\
    ~ drift N s == 0 /\
    Qabs (drift N s) <= gam eps53 (hist_count N ex_ops) * (2 * ldf_peak N N.eqb rnd53 (ld_empty true) ex_ops) /\
    gam eps53 (hist_count N ex_ops) * (2 * ldf_peak N N.eqb rnd53 (ld_empty true) ex_ops) <= 1 # 100000000000000.
Lemma C16f_example_proof : C16f_example_statement.
Proof.
  split; [vm_compute; reflexivity|].
  destruct (ldf_run N N.eqb rnd53 (ld_empty true) ex_ops) as [s|e] eqn:E;
    [|vm_compute in E; discriminate E].
  exists s. split; [reflexivity|].
  vm_compute in E. injection E as E. subst s.
  split; [|split]; vm_compute; intro H; discriminate H.
Qed.

(* (2) the running total is NOT guaranteed non-negative, nor positive when a candidate
   with positive weight is left: insert 0.1, 0.7, 1e-20, remove 0.7, remove 0.1 leaves
   total = -2^-55 < 0 although the remaining weight is 1e-20 > 0 *)
Definition neg_ops : list (op N) :=
  [OpInsert 1%N d01; OpInsert 2%N d07; OpInsert 3%N dtiny; OpRemove 2%N; OpRemove 1%N].
Definition C16f_negative_total_statement : Prop :=
  forallb ok_b neg_ops = true /\
  exists s, ldf_run N N.eqb rnd53 (ld_empty true) neg_ops = Ok s /\
    items s = [3%N] /\ total s < 0 /\ 0 < wsum N s /\ Qred (total s) = -1 # 36028797018963968.
Lemma C16f_negative_total_proof : C16f_negative_total_statement.
Proof.
  split; [vm_compute; reflexivity|].
  destruct (ldf_run N N.eqb rnd53 (ld_empty true) neg_ops) as [s|e] eqn:E;
    [|vm_compute in E; discriminate E].
  exists s. split; [reflexivity|].
  vm_compute in E. injection E as E. subst s.
  split; [reflexivity|]. split; [reflexivity|]. split; reflexivity.
Qed.

(* (3) absorption: insert 0.1, 1e-20, remove 0.1 leaves total = 0 exactly while the
   candidate of weight 1e-20 is still there: a clock that tests total > 0 stops *)
Definition abs_ops : list (op N) := [OpInsert 1%N d01; OpInsert 2%N dtiny; OpRemove 1%N].
Definition C16f_absorbed_statement : Prop :=
  exists s, ldf_run N N.eqb rnd53 (ld_empty true) abs_ops = Ok s /\
    items s = [2%N] /\ total s == 0 /\ 0 < wsum N s.
Lemma C16f_absorbed_proof : C16f_absorbed_statement.
Proof.
  unfold C16f_absorbed_statement.
  destruct (ldf_run N N.eqb rnd53 (ld_empty true) abs_ops) as [s|e] eqn:E;
    [|vm_compute in E; discriminate E].
  exists s. split; [reflexivity|].
  vm_compute in E. injection E as E. subst s.
  split; [reflexivity|]. split; reflexivity.
Qed.
