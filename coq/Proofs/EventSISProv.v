(* fast_nonMarkov_SIS: where every recorded transmission comes from, for EVERY rule
   table (no hypothesis on the rules at all).  A sourced entry (t, u, v) of the
   transmission list was scheduled by an infection of u: the event log contains an
   infection event (s, u, I), the k-th of u, and t = s + d for a delay d that the
   user's rule returned for exactly that infection (d in delays u v k).
   The code schedules the recovery of that infection at s + dur u k (n_trans:
   rec_time[u] = time + duration).  Hence, under the documented contract "all delays
   are before recovery" (d <= dur u k) and non-negative delays, s <= t <= s + dur u k:
   the transmission lies in the closed infectious period of its source. *)
From EoNV Require Import Prelude Samp Graph ListDict ListDictP Gillespie KldP GillespieInv SampP GillespieP GillespieLog.
From EoNV Require Import Investigation InvestigationP GillespieC10.
From EoNV Require Import EventSIS EventSISP EventSISP4 EventSISRows EventSISLog EventSISTrace EventSISRel EventSISFast EventSISNM EventSISOut EventSISClock.
From Coq Require Import Permutation Sorted Lqa.

Section Prov.
Variable g : graph.
Variable dur : node -> nat -> Q.
Variable delays : node -> node -> nat -> list Q.
Variable tmax : xtime.

(* (s,u,I) is in the log (newest first) and k infections of u are older than it *)
Definition ord_event (elog : list ev) (s : Q) (u : node) (k : nat) : Prop :=
  exists newer older, elog = newer ++ (s, u, stI) :: older /\ inf_count older u = k.

Definition prov (elog : list ev) (u v : node) (l : list Q) : Prop :=
  exists s k, ord_event elog s u k /\ Forall (fun y => exists d, In d (delays u v k) /\ y = tadd s d) l.

Lemma ord_event_cons : forall e elog s u k, ord_event elog s u k -> ord_event (e :: elog) s u k.
Proof. intros e elog s u k [newer [older [E H]]]. exists (e :: newer), older. split; [rewrite E; reflexivity|exact H]. Qed.
Lemma prov_cons : forall e elog u v l, prov elog u v l -> prov (e :: elog) u v l.
Proof. intros e elog u v l [s [k [H1 H2]]]. exists s, k. split; [apply ord_event_cons; exact H1|exact H2]. Qed.
Lemma prov_sub : forall elog u v l l', prov elog u v l -> incl l' l -> prov elog u v l'.
Proof.
  intros elog u v l l' [s [k [H1 H2]]] Hi. exists s, k. split; [exact H1|].
  apply Forall_forall. intros y Hy. rewrite Forall_forall in H2. apply H2. apply Hi. exact Hy.
Qed.

Definition ent_prov (elog : list ev) (x : qent nev) : Prop :=
  match snd x with
  | NTrans (Some u) v fut => prov elog u v (qtime x :: fut)
  | _ => True
  end.
Definition tx_prov (elog : list ev) (x : tx) : Prop :=
  match snd (fst x) with Some u => prov elog u (snd x) [fst (fst x)] | None => True end.

Record PInv (s : nst) : Prop := mkPI {
  p_ord : forall u, ns_ord s u = inf_count (l_elog (ns_log s)) u;
  p_q : Forall (ent_prov (l_elog (ns_log s))) (q_items (ns_q s));
  p_tx : Forall (tx_prov (l_elog (ns_log s))) (l_tlog (ns_log s))
}.

Lemma ent_prov_cons : forall e elog x, ent_prov elog x -> ent_prov (e :: elog) x.
Proof. intros e elog [[t c] [v|[u|] v fut]] H; cbn in *; try exact I. apply prov_cons. exact H. Qed.
Lemma tx_prov_cons : forall e elog x, tx_prov elog x -> tx_prov (e :: elog) x.
Proof. intros e elog [[t [u|]] v] H; cbn in *; [apply prov_cons; exact H|exact I]. Qed.

Lemma chain_prov : forall elog q u v tt,
  Forall (ent_prov elog) (q_items q) -> prov elog u v tt ->
  Forall (ent_prov elog) (q_items (chain tmax q (Some u) v tt)).
Proof.
  intros elog q u v [|h tl] Hq Hp; cbn [chain]; [exact Hq|].
  apply Forall_q_add; [exact Hq|]. intros _. unfold ent_prov. cbn [snd qtime fst]. exact Hp.
Qed.

Lemma sched_prov : forall elog t v k stat rec ws q,
  Forall (ent_prov elog) (q_items q) -> ord_event elog t v k ->
  Forall (ent_prov elog) (q_items (fold_left (n_sched delays tmax t v k stat rec) ws q)).
Proof.
  intros elog t v k stat rec ws. induction ws as [|w ws IH]; intros q Hq Ho; cbn [fold_left]; [exact Hq|].
  apply IH; [|exact Ho]. rewrite n_sched_kept. apply chain_prov; [exact Hq|].
  exists t, k. split; [exact Ho|]. apply Forall_forall. intros y Hy.
  destruct (kept_sub delays _ _ _ _ _ _ _ Hy) as [d [Hd E]]. exists d. split; assumption.
Qed.

Lemma PInv_init : forall tmin i0, PInv (n_init g tmax tmin i0).
Proof.
  intros tmin i0. constructor; cbn [n_init ns_ord ns_log ns_q logs0 l_elog l_tlog].
  - intro u. reflexivity.
  - assert (K : forall l q, Forall (ent_prov []) (q_items q) ->
              Forall (ent_prov []) (q_items (fold_left (fun q u => q_add tmax q tmin (NTrans None u [])) l q))).
    { induction l as [|u l IH]; intros q Hq; [exact Hq|]. cbn [fold_left]. apply IH.
      apply Forall_q_add; [exact Hq|intros _; exact I]. }
    apply K. constructor.
  - constructor.
Qed.

Lemma PInv_event : forall s t c e rest, PInv s -> q_items (ns_q s) = (t, c, e) :: rest ->
  PInv (n_event g dur delays tmax t e (npop s rest)).
Proof.
  intros s t c e rest [Ho Hq Ht] Eq. rewrite Eq in Hq. inversion Hq as [|? ? He Hrest]; subst.
  destruct e as [v|src tgt fut]; cbn [n_event].
  - (* recovery *)
    constructor; cbn [n_recover npop ns_ord ns_log ns_q log_rec l_elog l_tlog q_items].
    + intro u. rewrite inf_count_rec. apply Ho.
    + eapply Forall_impl; [|exact Hrest]. intros x Hx. apply ent_prov_cons. exact Hx.
    + eapply Forall_impl; [|exact Ht]. intros x Hx. apply tx_prov_cons. exact Hx.
  - unfold n_trans. cbn [npop ns_stat ns_rec ns_ord ns_q ns_log].
    destruct (N.eqb_spec (ns_stat s tgt) stS) as [HS|HS]; cbn [ns_stat ns_rec ns_ord ns_q ns_log].
    + (* infection *)
      set (k := ns_ord s tgt). set (elog' := (t, tgt, stI) :: l_elog (ns_log s)).
      assert (Hoe : ord_event elog' t tgt k).
      { exists [], (l_elog (ns_log s)). split; [reflexivity|]. symmetry. apply Ho. }
      assert (Hrest' : Forall (ent_prov elog') rest).
      { eapply Forall_impl; [|exact Hrest]. intros x Hx. apply ent_prov_cons. exact Hx. }
      constructor; cbn [ns_ord ns_log ns_q log_inf l_elog l_tlog]; fold elog'.
      * intro u. unfold fupdN. unfold elog', inf_count. cbn [filter fst snd]. change (N.eqb stI stI) with true. rewrite andb_true_r.
        rewrite (N.eqb_sym tgt u). destruct (N.eqb_spec u tgt) as [->|_]; [cbn [length]; f_equal; apply Ho|apply Ho].
      * assert (Hq2 : Forall (ent_prov elog')
                  (q_items (fold_left (n_sched delays tmax t tgt k (fupdN (ns_stat s) tgt stI) (fupdN (ns_rec s) tgt (tadd t (dur tgt k))))
                              (gadj g tgt)
                              (if xlt (tadd t (dur tgt k)) tmax
                               then q_add tmax (mkQ rest (q_ctr (ns_q s))) (tadd t (dur tgt k)) (NRec tgt)
                               else mkQ rest (q_ctr (ns_q s)))))).
        { apply sched_prov; [|exact Hoe]. destruct (xlt (tadd t (dur tgt k)) tmax); [|exact Hrest'].
          apply Forall_q_add; [exact Hrest'|intros _; exact I]. }
        destruct src as [u|].
        -- apply chain_prov; [exact Hq2|]. unfold ent_prov in He. cbn [snd qtime fst] in He.
           apply prov_cons. eapply prov_sub; [exact He|]. intros y Hy. apply filter_In in Hy. right. apply Hy.
        -- destruct (filter _ fut) as [|h tl]; cbn [chain]; [exact Hq2|apply Forall_q_add; [exact Hq2|intros _; exact I]].
      * constructor.
        -- unfold tx_prov. cbn [fst snd]. destruct src as [u|]; [|exact I].
           unfold ent_prov in He. cbn [snd qtime fst] in He. apply prov_cons. eapply prov_sub; [exact He|].
           intros y [<-|[]]. left. reflexivity.
        -- eapply Forall_impl; [|exact Ht]. intros x Hx. apply tx_prov_cons. exact Hx.
    + (* the target is infected: only the stored attempts move *)
      constructor; cbn [ns_ord ns_log ns_q]; try assumption.
      destruct src as [u|].
      * apply chain_prov; [exact Hrest|]. unfold ent_prov in He. cbn [snd qtime fst] in He.
        eapply prov_sub; [exact He|]. intros y Hy. apply filter_In in Hy. right. apply Hy.
      * destruct (filter _ fut) as [|h tl]; cbn [chain]; [exact Hrest|apply Forall_q_add; [exact Hrest|intros _; exact I]].
Qed.

Lemma n_loop_PInv : forall fuel s s', n_loop g dur delays tmax fuel s = Ok s' -> PInv s -> PInv s'.
Proof.
  induction fuel as [|f IH]; intros s s' H Hi; cbn [n_loop] in H.
  - destruct (q_items (ns_q s)) as [|[[t c] e] rest]; [|discriminate H]. injection H as <-. exact Hi.
  - destruct (q_items (ns_q s)) as [|[[t c] e] rest] eqn:Eq; [injection H as <-; exact Hi|].
    apply IH in H; [exact H|]. apply (PInv_event s t c e rest Hi Eq).
Qed.

End Prov.

(* ---------------- the output-level statement ---------------- *)
(* chronological: the k-th infection of u is at s *)
Definition kth_infection (log : list ev) (s : Q) (u : node) (k : nat) : Prop :=
  exists before after, log = before ++ (s, u, stI) :: after /\ inf_count before u = k.

Lemma inf_count_rev : forall l u, inf_count (rev l) u = inf_count l u.
Proof. intros l u. unfold inf_count. rewrite <- filter_rev, rev_length. reflexivity. Qed.

Lemma ord_event_chron : forall elog s u k, ord_event elog s u k -> kth_infection (rev elog) s u k.
Proof.
  intros elog s u k [newer [older [E H]]]. exists (rev older), (rev newer). split.
  - rewrite E, rev_app_distr. cbn [rev]. rewrite <- app_assoc. reflexivity.
  - rewrite inf_count_rev. exact H.
Qed.

(* every run, every rule table: each sourced transmission is one of the delays the user
   returned for an infection of its source that is in the log; the full chronological log
   is the initial infections followed by [evs] *)
Theorem nmsis_provenance : forall g, NoDup (gnodes g) -> (forall u v, In v (gadj g u) -> In v (gnodes g)) ->
  forall dur delays tmax tmin i0 fuel out,
    xlt tmin tmax = true -> NoDup i0 -> incl i0 (gnodes g) -> rules_ok dur delays ->
    nm_run g dur delays tmax tmin true fuel i0 = Ok out ->
    exists evs txs, trans_specW g tmin i0 out evs txs /\
      forall t u v, In (t, Some u, v) txs ->
        exists s k d, kth_infection (map (fun x => (tmin, x, stI)) i0 ++ evs) s u k /\
                      In d (delays u v k) /\ t = tadd s d.
Proof.
  intros g Hnd Hadj dur delays tmax tmin i0 fuel out Hvis Hi0 Hinc [Hdur Hdel] H. unfold nm_run in H.
  destruct (n_loop g dur delays tmax fuel (n_init g tmax tmin i0)) as [s'|e] eqn:El; [|discriminate H].
  cbn [rbind] in H. injection H as <-.
  pose proof (n_loop_PInv g dur delays tmax fuel _ s' El (PInv_init g delays tmax tmin i0)) as HP.
  destruct (n_loop_NI g Hnd Hadj dur delays tmax tmin i0 Hi0 Hinc false Hdur Hdel
              (fun E => False_ind _ (Bool.diff_false_true E)) fuel _ s' El (ex_intro _ tmin (NInv_init g tmax tmin Hvis i0 false)))
    as [[clock Hi] Eq].
  assert (HLL : exists evsN txsN, LL g tmin tmax i0 false evsN txsN (ns_log s') (ns_stat s')).
  { destruct (n_ph _ _ _ _ _ _ _ _ Hi) as [done rem P l E1 E2 E3 E4 E5 E6 E7|evs txs _ HL Hs HJ].
    - rewrite Eq in E2. symmetry in E2. apply app_eq_nil in E2. destruct E2 as [-> ->].
      destruct rem; [|discriminate E4]. cbn [app] in E1. rewrite app_nil_r in E1. subst done.
      exists [], []. rewrite E6, E7. apply LL_start.
    - exists evs, txs. exact HL. }
  destruct HLL as [evsN [txsN HL]].
  pose proof (LL_output g Hnd tmin tmax i0 Hi0 Hinc false evsN txsN _ _ true HL) as HO.
  exists (rev evsN), (rev txsN). split.
  - destruct HO as [_ B _ _ E _ G T _ _]. destruct (T eq_refl) as [fd [T1 [T2 _]]].
    split; [exists fd; split; assumption|]. split; [exact B|]. split; [exact G|exact E].
  - intros t u v Hin. destruct HL as [He Ht _]. destruct HP as [_ _ Hp]. rewrite Forall_forall in Hp.
    assert (Hin' : In (t, Some u, v) (l_tlog (ns_log s'))) by (rewrite Ht; apply in_or_app; left; apply in_rev; exact Hin).
    specialize (Hp _ Hin'). unfold tx_prov in Hp. cbn [fst snd] in Hp. destruct Hp as [s [k [Ho Hf]]].
    inversion Hf as [|? ? [d [Hd Et]] _]; subst. exists s, k, d. split; [|split; [exact Hd|reflexivity]].
    apply ord_event_chron in Ho. rewrite He, rev_app_distr in Ho. unfold init_ev in Ho. rewrite rev_involutive in Ho. exact Ho.
Qed.

(* under the documented contract (non-strict) the transmission lies in the closed infectious
   period [s, s + dur u k] of the infection that scheduled it *)
Definition rules_contract (dur : node -> nat -> Q) (delays : node -> node -> nat -> list Q) : Prop :=
  forall v w k d, In d (delays v w k) -> d <= dur v k.

Theorem nmsis_closed_period : forall g, NoDup (gnodes g) -> (forall u v, In v (gadj g u) -> In v (gnodes g)) ->
  forall dur delays tmax tmin i0 fuel out,
    xlt tmin tmax = true -> NoDup i0 -> incl i0 (gnodes g) -> rules_ok dur delays -> rules_contract dur delays ->
    nm_run g dur delays tmax tmin true fuel i0 = Ok out ->
    exists evs txs, trans_specW g tmin i0 out evs txs /\
      forall t u v, In (t, Some u, v) txs ->
        exists s k, kth_infection (map (fun x => (tmin, x, stI)) i0 ++ evs) s u k /\
                    s <= t /\ t <= tadd s (dur u k).
Proof.
  intros g Hnd Hadj dur delays tmax tmin i0 fuel out Hvis Hi0 Hinc Hr Hc H.
  destruct (nmsis_provenance g Hnd Hadj dur delays tmax tmin i0 fuel out Hvis Hi0 Hinc Hr H) as [evs [txs [A B]]].
  exists evs, txs. split; [exact A|]. intros t u v Hin. destruct (B t u v Hin) as [s [k [d [K1 [K2 K3]]]]].
  exists s, k. split; [exact K1|]. destruct Hr as [_ Hdel]. destruct (Hdel u v k) as [_ Hp]. rewrite Forall_forall in Hp.
  specialize (Hp d K2). specialize (Hc u v k d K2). subst t. rewrite !tadd_eq. split; lra.
Qed.
