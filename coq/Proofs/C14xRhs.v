(* C14, proof side: the node-level ODE right-hand sides of Model/Rhs2D.v (individual
   based SIS / SIR here, pair based in C14xPb.v) commute with the relabelling action
   of C14xDef.v.

   Method.  Each component of a right-hand side is shown to be a function of the
   NODE-indexed state only (`*_nd` below: no nodelist, no index_of_node), evaluated
   at the node sitting at that position (lemmas `*_A`, Leibniz equalities that only
   use index_of_node[nodelist[i]] = i).  The node forms are then transported along
   a relabelling phi with permuted adjacency lists (lemmas `*_B`: sums over a
   permuted, renamed list are equal over Q). *)
From EoNV Require Import Prelude Vec Graph Rhs2D VecP Rhs2DP C14xDef.
From Coq Require Import Permutation Lqa Setoid Morphisms.

(* ====================================================================== *)
(* lists, permutations, sums                                               *)
(* ====================================================================== *)
Lemma sumQ_perm (a b : list Q) : Permutation a b -> sumQ a == sumQ b.
Proof.
  induction 1 as [|x a b H IH|x y a|a b c H1 IH1 H2 IH2]; rewrite ?sumQ_cons.
  - reflexivity.
  - rewrite IH. reflexivity.
  - ring.
  - rewrite IH1. exact IH2.
Qed.
Lemma sum_map_perm {A} (F : A -> Q) l l' : Permutation l l' -> sumQ (map F l) == sumQ (map F l').
Proof. intros H. apply sumQ_perm, Permutation_map, H. Qed.
Lemma sum_relabel (phi : node -> node) (F F' : node -> Q) l l' :
  Permutation l' (map phi l) -> (forall v, In v l -> F' (phi v) == F v) -> sumQ (map F' l') == sumQ (map F l).
Proof.
  intros HP HF. rewrite (sum_map_perm F' _ _ HP), map_map. apply sum_map_ext. exact HF.
Qed.
Lemma nth_map_d {A B} (f : A -> B) l i d d' : (i < length l)%nat -> nth i (map f l) d' = f (nth i l d).
Proof. intros H. rewrite (nth_indep _ d' (f d)) by (rewrite map_length; exact H). apply map_nth. Qed.

Lemma mem_perm x l l' : Permutation l l' -> mem x l = mem x l'.
Proof.
  intros H. apply Bool.eq_iff_eq_true. rewrite !mem_In. split; apply Permutation_in; [exact H|symmetry; exact H].
Qed.
Lemma filter_perm {A} (p : A -> bool) l l' : Permutation l l' -> Permutation (filter p l) (filter p l').
Proof.
  induction 1 as [|x l l' H IH|x y l|l l' l'' H1 IH1 H2 IH2]; cbn [filter].
  - constructor.
  - destruct (p x); [constructor|]; exact IH.
  - destruct (p x), (p y); try apply Permutation_refl. constructor.
  - etransitivity; eassumption.
Qed.
Lemma others_perm u l l' : Permutation l l' -> Permutation (others u l) (others u l').
Proof. apply filter_perm. Qed.

Section Inj.
Variables (phi : node -> node) (S : list node).
Hypothesis Hinj : forall u v, In u S -> In v S -> phi u = phi v -> u = v.
Lemma eqb_inj u v : In u S -> In v S -> N.eqb (phi u) (phi v) = N.eqb u v.
Proof.
  intros Hu Hv. destruct (N.eqb_spec u v) as [E|E]; [subst; apply N.eqb_refl|].
  apply N.eqb_neq. intro C. apply E, Hinj; assumption.
Qed.
Lemma mem_map_inj v l : In v S -> incl l S -> mem (phi v) (map phi l) = mem v l.
Proof.
  intros Hv Hl. induction l as [|x l IH]; [reflexivity|]. cbn [map]. rewrite !mem_cons.
  rewrite eqb_inj by (try exact Hv; apply Hl; left; reflexivity).
  rewrite IH by (intros y Hy; apply Hl; right; exact Hy). reflexivity.
Qed.
Lemma others_map_inj u l : In u S -> incl l S -> others (phi u) (map phi l) = map phi (others u l).
Proof.
  intros Hu Hl. induction l as [|x l IH]; [reflexivity|]. cbn [map]. rewrite !others_cons.
  rewrite eqb_inj by (try exact Hu; apply Hl; left; reflexivity).
  rewrite IH by (intros y Hy; apply Hl; right; exact Hy). destruct (negb (N.eqb x u)); reflexivity.
Qed.
End Inj.

(* boolean forms *)
Lemma cntN_count x l : cntN x l = count_occ N.eq_dec l x.
Proof.
  unfold cntN. induction l as [|y l IH]; [reflexivity|]. cbn [filter count_occ].
  destruct (N.eq_dec y x) as [E|E].
  - subst. rewrite N.eqb_refl. cbn [length]. rewrite IH. reflexivity.
  - replace (N.eqb x y) with false by (symmetry; apply N.eqb_neq; congruence). exact IH.
Qed.
Lemma permb_spec a b : permb a b = true -> Permutation a b.
Proof.
  unfold permb. rewrite forallb_forall. intros H. apply (Permutation_count_occ N.eq_dec). intros x.
  rewrite <- !cntN_count.
  destruct (in_dec N.eq_dec x (a ++ b)) as [I|I]; [apply Nat.eqb_eq, H, I|].
  rewrite !cntN_count. rewrite (proj1 (count_occ_not_In N.eq_dec a x)) by (intro C; apply I, in_or_app; left; exact C).
  rewrite (proj1 (count_occ_not_In N.eq_dec b x)) by (intro C; apply I, in_or_app; right; exact C). reflexivity.
Qed.
Lemma nodupb_NoDup l : nodupb l = true -> NoDup l.
Proof.
  induction l as [|x l IH]; intros H; [constructor|]. cbn [nodupb] in H. apply andb_prop in H. destruct H as [H1 H2].
  constructor; [|apply IH, H2]. intro C. apply mem_In in C. rewrite C in H1. discriminate.
Qed.
Lemma veqb_spec a b : veqb a b = true -> veq a b.
Proof.
  unfold veqb. intros H. apply andb_prop in H. destruct H as [HL H]. apply Nat.eqb_eq in HL.
  revert b HL H. induction a as [|x a IH]; intros [|y b] HL H; try discriminate; [constructor|].
  cbn [combine forallb fst snd] in H. apply andb_prop in H. destruct H as [H1 H2]. constructor.
  - apply Qeq_bool_iff. exact H1.
  - apply IH; [cbn in HL; lia|exact H2].
Qed.
Lemma veqb_complete a b : veq a b -> veqb a b = true.
Proof.
  intros H. unfold veqb. rewrite (veq_length _ _ H), Nat.eqb_refl. cbn [andb].
  induction H as [|x y a b Hxy H IH]; [reflexivity|]. cbn [combine forallb fst snd]. rewrite IH, andb_true_r.
  apply Qeq_bool_iff. exact Hxy.
Qed.

(* ====================================================================== *)
(* node forms of the individual-based right-hand sides                     *)
(* ====================================================================== *)
Section NodeFormIB.
Variables (G : graph) (nodelist : list node) (idx : node -> nat) (tr : node -> node -> Q) (rc : node -> Q).
Notation n := (nN nodelist).
Notation nd := (node_at nodelist).
Hypothesis Hidx : forall i, (i < n)%nat -> idx (nd i) = i.

Definition ibSIS_nd (y : node -> Q) (u : node) : Q :=
  sumQ (map (fun nbr => tr u nbr * (1 - y u) * y nbr) (gadj G u)) - rc u * y u.
Definition ibSIR_dX_nd (x y : node -> Q) (u : node) : Q :=
  - x u * sumQ (map (fun nbr => tr u nbr * y nbr) (gadj G u)).
Definition ibSIR_dY_nd (x y : node -> Q) (u : node) : Q :=
  - ibSIR_dX_nd x y u - rc u * y u.

(* the code's component at position i is the node form at the node sitting there: the value depends on
   nodelist / index_of_node only through the node-indexed state *)
Lemma ibSIS_A Y i : (i < n)%nat ->
  ibSIS_dY G nodelist idx tr rc Y i = ibSIS_nd (fun u => vnth (idx u) Y) (nd i).
Proof. intros Hi. unfold ibSIS_dY, ibSIS_nd. cbv zeta. rewrite (Hidx i Hi). reflexivity. Qed.
Lemma ibSIR_dX_A V i : (i < n)%nat ->
  ibSIR_dX G nodelist idx tr V i = ibSIR_dX_nd (fun u => vnth (idx u) V) (fun u => vnth (n + idx u) V) (nd i).
Proof. intros Hi. unfold ibSIR_dX, ibSIR_dX_nd. cbv zeta. rewrite (Hidx i Hi). reflexivity. Qed.
Lemma ibSIR_dY_A V i : (i < n)%nat ->
  ibSIR_dY G nodelist idx tr rc V i = ibSIR_dY_nd (fun u => vnth (idx u) V) (fun u => vnth (n + idx u) V) (nd i).
Proof. intros Hi. unfold ibSIR_dY, ibSIR_dY_nd. rewrite (ibSIR_dX_A V i Hi). rewrite (Hidx i Hi). reflexivity. Qed.
End NodeFormIB.

(* ====================================================================== *)
(* node forms of the pair-based right-hand sides                           *)
(* ====================================================================== *)
Section NodeFormPB.
Variables (G : graph) (nodelist : list node) (idx : node -> nat) (tr : node -> node -> Q) (rc : node -> Q).
Notation n := (nN nodelist).
Notation nd := (node_at nodelist).
Hypothesis Hidx : forall i, (i < n)%nat -> idx (nd i) = i.

Definition tin_nd (xinv : node -> Q) (xy xx : node -> node -> Q) (u v : node) : Q :=
  sumQ (map (fun w => tr v w * xx u v * xy v w * xinv v) (others u (gadj G v))).
Definition tout_nd (xinv : node -> Q) (xy a : node -> node -> Q) (u v : node) : Q :=
  sumQ (map (fun w => tr u w * xy u w * a u v * xinv u) (others v (gadj G u))).
Definition pb_dX_nd (xy : node -> node -> Q) (u : node) : Q :=
  sumQ (map (fun v => - tr u v * xy u v) (gadj G u)).
Definition pb_dY_nd (y : node -> Q) (xy : node -> node -> Q) (u : node) : Q :=
  - rc u * y u + sumQ (map (fun v => tr u v * xy u v) (gadj G u)).
Definition pbSIR_dXY_nd (x : node -> Q) (xy xx : node -> node -> Q) (u v : node) : Q :=
  if mem v (gadj G u) then
    - (tr u v + rc v) * xy u v + tin_nd (fun k => inv0 (x k)) xy xx u v - tout_nd (fun k => inv0 (x k)) xy xy u v
  else 0.
Definition pbSIR_dXX_nd (x : node -> Q) (xy xx : node -> node -> Q) (u v : node) : Q :=
  if mem v (gadj G u) then
    - tin_nd (fun k => inv0 (x k)) xy xx u v - tout_nd (fun k => inv0 (x k)) xy xx u v
  else 0.
Definition pbSIS_dXY_nd (y : node -> Q) (xy xx : node -> node -> Q) (u v : node) : Q :=
  if mem v (gadj G u) then
    - (tr u v + rc v) * xy u v + rc u * (1 - xy u v - xx u v - xy v u)
    + tin_nd (fun k => inv0 (1 - y k)) xy xx u v - tout_nd (fun k => inv0 (1 - y k)) xy xy u v
  else 0.
Definition pbSIS_dXX_nd (y : node -> Q) (xy xx : node -> node -> Q) (u v : node) : Q :=
  if mem v (gadj G u) then
    rc u * xy v u + rc v * xy u v
    - tin_nd (fun k => inv0 (1 - y k)) xy xx u v - tout_nd (fun k => inv0 (1 - y k)) xy xx u v
  else 0.

Lemma tin_A Xinv XY XX i j : (i < n)%nat -> (j < n)%nat ->
  triples_in G nodelist idx tr Xinv XY XX i j =
  tin_nd (fun u => Xinv (idx u)) (fun a b => XY (idx a) (idx b)) (fun a b => XX (idx a) (idx b)) (nd i) (nd j).
Proof. intros Hi Hj. unfold triples_in, tin_nd. cbv zeta. rewrite (Hidx i Hi), (Hidx j Hj). reflexivity. Qed.
Lemma tout_A Xinv XY A i j : (i < n)%nat -> (j < n)%nat ->
  triples_out G nodelist idx tr Xinv XY A i j =
  tout_nd (fun u => Xinv (idx u)) (fun a b => XY (idx a) (idx b)) (fun a b => A (idx a) (idx b)) (nd i) (nd j).
Proof. intros Hi Hj. unfold triples_out, tout_nd. cbv zeta. rewrite (Hidx i Hi), (Hidx j Hj). reflexivity. Qed.

(* SIR pair based: accessors of V = X ++ Y ++ XY ++ XX through the node names *)
Definition rx (V : vec) (u : node) : Q := prX V (idx u).
Definition ry (V : vec) (u : node) : Q := prY nodelist V (idx u).
Definition rxy (V : vec) (a b : node) : Q := prXY nodelist V (idx a) (idx b).
Definition rxx (V : vec) (a b : node) : Q := prXX nodelist V (idx a) (idx b).
Lemma pbSIR_dX_A V i : (i < n)%nat -> pbSIR_dX G nodelist idx tr V i = pb_dX_nd (rxy V) (nd i).
Proof. intros Hi. unfold pbSIR_dX, pb_dX_nd, rxy. cbv zeta. rewrite (Hidx i Hi). reflexivity. Qed.
Lemma pbSIR_dY_A V i : (i < n)%nat -> pbSIR_dY G nodelist idx tr rc V i = pb_dY_nd (ry V) (rxy V) (nd i).
Proof. intros Hi. unfold pbSIR_dY, pb_dY_nd, rxy, ry. cbv zeta. rewrite (Hidx i Hi). reflexivity. Qed.
Lemma pbSIR_dXY_A V i j : (i < n)%nat -> (j < n)%nat ->
  pbSIR_dXY G nodelist idx tr rc V i j = pbSIR_dXY_nd (rx V) (rxy V) (rxx V) (nd i) (nd j).
Proof.
  intros Hi Hj. unfold pbSIR_dXY, pbSIR_dXY_nd, is_edge. cbv zeta. rewrite (tin_A _ _ _ i j Hi Hj), (tout_A _ _ _ i j Hi Hj).
  unfold rx, rxy, rxx. rewrite (Hidx i Hi), (Hidx j Hj). reflexivity.
Qed.
Lemma pbSIR_dXX_A V i j : (i < n)%nat -> (j < n)%nat ->
  pbSIR_dXX G nodelist idx tr V i j = pbSIR_dXX_nd (rx V) (rxy V) (rxx V) (nd i) (nd j).
Proof.
  intros Hi Hj. unfold pbSIR_dXX, pbSIR_dXX_nd, is_edge. cbv zeta. rewrite (tin_A _ _ _ i j Hi Hj), (tout_A _ _ _ i j Hi Hj).
  reflexivity.
Qed.

(* SIS pair based: V = Y ++ XY ++ XX *)
Definition sy (V : vec) (u : node) : Q := psY V (idx u).
Definition sxy (V : vec) (a b : node) : Q := psXY nodelist V (idx a) (idx b).
Definition sxx (V : vec) (a b : node) : Q := psXX nodelist V (idx a) (idx b).
Lemma pbSIS_dY_A V i : (i < n)%nat -> pbSIS_dY G nodelist idx tr rc V i = pb_dY_nd (sy V) (sxy V) (nd i).
Proof. intros Hi. unfold pbSIS_dY, pb_dY_nd, sxy, sy. cbv zeta. rewrite (Hidx i Hi). reflexivity. Qed.
Lemma pbSIS_dXY_A V i j : (i < n)%nat -> (j < n)%nat ->
  pbSIS_dXY G nodelist idx tr rc V i j = pbSIS_dXY_nd (sy V) (sxy V) (sxx V) (nd i) (nd j).
Proof.
  intros Hi Hj. unfold pbSIS_dXY, pbSIS_dXY_nd, is_edge, psYY. cbv zeta. rewrite (tin_A _ _ _ i j Hi Hj), (tout_A _ _ _ i j Hi Hj).
  unfold sy, sxy, sxx, psX. rewrite (Hidx i Hi), (Hidx j Hj). reflexivity.
Qed.
Lemma pbSIS_dXX_A V i j : (i < n)%nat -> (j < n)%nat ->
  pbSIS_dXX G nodelist idx tr rc V i j = pbSIS_dXX_nd (sy V) (sxy V) (sxx V) (nd i) (nd j).
Proof.
  intros Hi Hj. unfold pbSIS_dXX, pbSIS_dXX_nd, is_edge. cbv zeta. rewrite (tin_A _ _ _ i j Hi Hj), (tout_A _ _ _ i j Hi Hj).
  unfold sy, sxy, sxx, psX. rewrite (Hidx i Hi), (Hidx j Hj). reflexivity.
Qed.
End NodeFormPB.

(* ====================================================================== *)
(* the relabelling hypotheses                                              *)
(* ====================================================================== *)
Section Relabel.
Variables (G : graph) (nodelist : list node) (idx : node -> nat) (tr : node -> node -> Q) (rc : node -> Q).
Variables (G' : graph) (nl2 : list node) (phi : node -> node) (idx' : node -> nat) (tr' : node -> node -> Q) (rc' : node -> Q).
Notation n := (nN nodelist).
Notation nd := (node_at nodelist).
Notation nl' := (map phi nl2).
Notation nd' := (node_at (map phi nl2)).
Notation nd2 := (node_at nl2).

Record relabel : Prop := mkRelabel {
  rl_idx : forall i, (i < n)%nat -> idx (nd i) = i;
  rl_nbr : forall i v, (i < n)%nat -> In v (gadj G (nd i)) -> (idx v < n)%nat /\ nd (idx v) = v;
  rl_perm : Permutation nl2 nodelist;
  rl_inj : forall u v, In u nodelist -> In v nodelist -> phi u = phi v -> u = v;
  rl_idx' : forall i, (i < n)%nat -> idx' (phi (nd2 i)) = i;
  rl_adj : forall u, In u nodelist -> Permutation (gadj G' (phi u)) (map phi (gadj G u));
  rl_tr : forall u v, In u nodelist -> In v (gadj G u) -> tr' (phi u) (phi v) == tr u v;
  rl_rc : forall u, In u nodelist -> rc' (phi u) == rc u
}.

Lemma nl_wfb_spec : nl_wfb G nodelist idx = true ->
  (forall i, (i < n)%nat -> idx (nd i) = i) /\
  (forall i v, (i < n)%nat -> In v (gadj G (nd i)) -> (idx v < n)%nat /\ nd (idx v) = v).
Proof.
  unfold nl_wfb. rewrite forallb_forall. intros H. split.
  - intros i Hi. specialize (H i). rewrite in_seq in H. specialize (H ltac:(lia)).
    apply andb_prop in H. apply Nat.eqb_eq, H.
  - intros i v Hi Hv. specialize (H i). rewrite in_seq in H. specialize (H ltac:(lia)).
    apply andb_prop in H. destruct H as [_ H]. rewrite forallb_forall in H. specialize (H v Hv).
    apply andb_prop in H. destruct H as [A B]. split; [apply Nat.ltb_lt, A|apply N.eqb_eq, B].
Qed.

Lemma NoDup_map_inj (l : list node) : NoDup (map phi l) -> forall u v, In u l -> In v l -> phi u = phi v -> u = v.
Proof.
  induction l as [|x l IH]; intros H u v Hu Hv E; [destruct Hu|]. cbn [map] in H. inversion H as [|? ? Hx Hl]; subst.
  destruct Hu as [<-|Hu], Hv as [<-|Hv]; try reflexivity.
  - exfalso. apply Hx. rewrite E. apply in_map, Hv.
  - exfalso. apply Hx. rewrite <- E. apply in_map, Hu.
  - apply IH; assumption.
Qed.

Lemma relabel_okb_spec : relabel_okb G nodelist idx tr rc G' nl2 phi idx' tr' rc' = true -> relabel.
Proof.
  unfold relabel_okb. intros H.
  apply andb_prop in H. destruct H as [H H5]. apply andb_prop in H. destruct H as [H H4].
  apply andb_prop in H. destruct H as [H H3]. apply andb_prop in H. destruct H as [H1 H2].
  destruct (nl_wfb_spec H1) as [W1 W2]. pose proof (permb_spec _ _ H2) as HP.
  assert (HL : nN nl2 = n) by (unfold nN; apply Permutation_length, HP).
  rewrite forallb_forall in H4, H5.
  constructor; try assumption.
  - apply NoDup_map_inj, nodupb_NoDup, H3.
  - intros i Hi. apply Nat.eqb_eq, H4. rewrite in_seq. lia.
  - intros u Hu. specialize (H5 u Hu). apply andb_prop in H5. destruct H5 as [H5 _]. apply andb_prop in H5.
    apply permb_spec, H5.
  - intros u v Hu Hv. specialize (H5 u Hu). apply andb_prop in H5. destruct H5 as [_ H5].
    rewrite forallb_forall in H5. apply Qeq_bool_iff, H5, Hv.
  - intros u Hu. specialize (H5 u Hu). apply andb_prop in H5. destruct H5 as [H5 _]. apply andb_prop in H5.
    apply Qeq_bool_iff, H5.
Qed.

Hypothesis R : relabel.

(* ---------- consequences ---------- *)
Lemma len2 : nN nl2 = n.
Proof. unfold nN. apply Permutation_length, (rl_perm R). Qed.
Lemma len' : nN nl' = n.
Proof. unfold nN. rewrite map_length. apply len2. Qed.
Lemma in_nodelist u : In u nodelist -> (idx u < n)%nat /\ nd (idx u) = u.
Proof.
  intros Hu. destruct (In_nth _ _ 0%N Hu) as [i [Hi E]]. change (nth i nodelist 0%N) with (nd i) in E. subst u.
  rewrite (rl_idx R i Hi). split; [exact Hi|reflexivity].
Qed.
Lemma nd_in i : (i < n)%nat -> In (nd i) nodelist.
Proof. intros Hi. apply nth_In. exact Hi. Qed.
Lemma nbr_in u v : In u nodelist -> In v (gadj G u) -> In v nodelist.
Proof.
  intros Hu Hv. destruct (in_nodelist u Hu) as [Hi E]. rewrite <- E in Hv.
  destruct (rl_nbr R _ _ Hi Hv) as [Hj Ej]. rewrite <- Ej. apply nd_in, Hj.
Qed.
Lemma adj_incl u : In u nodelist -> incl (gadj G u) nodelist.
Proof. intros Hu v Hv. exact (nbr_in u v Hu Hv). Qed.
Lemma nd2_in i : (i < n)%nat -> In (nd2 i) nodelist.
Proof. intros Hi. apply (Permutation_in _ (rl_perm R)). apply nth_In. change (i < nN nl2)%nat. rewrite len2. exact Hi. Qed.
Lemma nd'_eq i : (i < n)%nat -> nd' i = phi (nd2 i).
Proof. intros Hi. unfold node_at. apply nth_map_d. change (i < nN nl2)%nat. rewrite len2. exact Hi. Qed.
Lemma pos2 v : In v nodelist -> exists j, (j < n)%nat /\ nd2 j = v.
Proof.
  intros Hv. apply (Permutation_in _ (Permutation_sym (rl_perm R))) in Hv.
  destruct (In_nth _ _ 0%N Hv) as [j [Hj E]]. exists j. change (j < nN nl2)%nat in Hj. rewrite len2 in Hj. split; assumption.
Qed.
Lemma idx'_lt v : In v nodelist -> (idx' (phi v) < n)%nat.
Proof. intros Hv. destruct (pos2 v Hv) as [j [Hj E]]. rewrite <- E, (rl_idx' R j Hj). exact Hj. Qed.
(* the primed problem satisfies the callers' precondition too *)
Lemma idx'_nd' i : (i < n)%nat -> idx' (nd' i) = i.
Proof. intros Hi. rewrite (nd'_eq i Hi). apply (rl_idx' R i Hi). Qed.
Lemma mem_adj u v : In u nodelist -> In v nodelist -> mem (phi v) (gadj G' (phi u)) = mem v (gadj G u).
Proof.
  intros Hu Hv. rewrite (mem_perm _ _ _ (rl_adj R u Hu)).
  apply (mem_map_inj phi nodelist (rl_inj R)); [exact Hv|apply adj_incl, Hu].
Qed.
Lemma others_adj u v : In u nodelist -> In v nodelist ->
  Permutation (others (phi u) (gadj G' (phi v))) (map phi (others u (gadj G v))).
Proof.
  intros Hu Hv. etransitivity; [apply others_perm, (rl_adj R v Hv)|].
  rewrite (others_map_inj phi nodelist (rl_inj R)); [apply Permutation_refl|exact Hu|apply adj_incl, Hv].
Qed.

(* ---------- the action on vectors ---------- *)
Lemma blk1_length off V : length (blk1 idx nl2 off V) = n.
Proof. unfold blk1. rewrite tab_length. apply len2. Qed.
Lemma blk2_length off V : length (blk2 idx nl2 off V) = (n * n)%nat.
Proof. unfold blk2. rewrite tab2_length, len2. reflexivity. Qed.
Lemma nth_blk1 off V i : (i < n)%nat -> nth i (blk1 idx nl2 off V) 0 = vnth (off + idx (nd2 i)) V.
Proof. intros Hi. unfold blk1. apply nth_tab. rewrite len2. exact Hi. Qed.
Lemma nth_blk2 off V i j : (i < n)%nat -> (j < n)%nat ->
  nth (i * n + j) (blk2 idx nl2 off V) 0 = vnth (off + idx (nd2 i) * n + idx (nd2 j)) V.
Proof.
  intros Hi Hj. unfold blk2. rewrite <- len2 at 1. rewrite nth_tab2 by (rewrite len2; assumption).
  rewrite len2. reflexivity.
Qed.

(* a vector V' of problem 2 that carries, in its block at `off`, the re-ordered block of V *)
Definition rel1 (off : nat) (V V' : vec) : Prop :=
  forall i, (i < n)%nat -> vnth (off + i) V' == vnth (off + idx (nd2 i)) V.
Definition rel2 (off : nat) (V V' : vec) : Prop :=
  forall i j, (i < n)%nat -> (j < n)%nat -> vnth (off + i * n + j) V' == vnth (off + idx (nd2 i) * n + idx (nd2 j)) V.
(* the same, read through the node names *)
Lemma rel1_node off V V' v : rel1 off V V' -> In v nodelist -> vnth (off + idx' (phi v)) V' == vnth (off + idx v) V.
Proof. intros H Hv. destruct (pos2 v Hv) as [j [Hj E]]. rewrite <- E, (rl_idx' R j Hj). apply H, Hj. Qed.
Lemma rel2_node off V V' u v : rel2 off V V' -> In u nodelist -> In v nodelist ->
  vnth (off + idx' (phi u) * n + idx' (phi v)) V' == vnth (off + idx u * n + idx v) V.
Proof.
  intros H Hu Hv. destruct (pos2 u Hu) as [i [Hi Ei]]. destruct (pos2 v Hv) as [j [Hj Ej]].
  rewrite <- Ei, <- Ej, (rl_idx' R i Hi), (rl_idx' R j Hj). apply H; assumption.
Qed.

(* conclusion side: a tabulated component of problem 2 is the re-ordered block of the tabulated component of problem 1 *)
Lemma veq_tab_blk1_at m (f' f : nat -> Q) (A B W : vec) off :
  m = n -> W = A ++ tab n f ++ B -> length A = off -> (forall i, (i < n)%nat -> f' i == f (idx (nd2 i))) ->
  veq (tab m f') (blk1 idx nl2 off W).
Proof.
  intros -> -> HA H. apply veq_of_nth; [rewrite tab_length, blk1_length; reflexivity|].
  rewrite tab_length. intros i Hi. rewrite nth_tab by exact Hi. rewrite nth_blk1 by exact Hi.
  destruct (in_nodelist _ (nd2_in i Hi)) as [Hk _]. unfold vnth.
  rewrite nth_app_at by exact HA.
  rewrite nth_app_lt by (rewrite tab_length; exact Hk). rewrite nth_tab by exact Hk. apply H, Hi.
Qed.
Lemma veq_tab_blk2_at m (f' f : nat -> nat -> Q) (A B W : vec) off :
  m = n -> W = A ++ tab2 n n f ++ B -> length A = off ->
  (forall i j, (i < n)%nat -> (j < n)%nat -> f' i j == f (idx (nd2 i)) (idx (nd2 j))) ->
  veq (tab2 m m f') (blk2 idx nl2 off W).
Proof.
  intros -> -> HA H. apply veq_of_nth; [rewrite tab2_length, blk2_length; reflexivity|].
  rewrite tab2_length. intros k Hk.
  assert (Hn : (0 < n)%nat) by (destruct n; [cbn in Hk; lia|lia]).
  set (i := (k / n)%nat). set (j := (k mod n)%nat).
  assert (Hj : (j < n)%nat) by (apply Nat.mod_upper_bound; lia).
  assert (Hi : (i < n)%nat) by (apply Nat.div_lt_upper_bound; lia).
  assert (Ek : k = (i * n + j)%nat) by (unfold i, j; rewrite (Nat.div_mod k n) at 1 by lia; lia).
  rewrite Ek. rewrite nth_tab2 by assumption. rewrite nth_blk2 by assumption.
  destruct (in_nodelist _ (nd2_in i Hi)) as [Hki _]. destruct (in_nodelist _ (nd2_in j Hj)) as [Hkj _].
  unfold vnth. rewrite <- Nat.add_assoc. rewrite nth_app_at by exact HA.
  rewrite nth_app_lt by (rewrite tab2_length; apply cell_lt; assumption).
  rewrite nth_tab2 by assumption. apply H; assumption.
Qed.

(* the aggregated outputs: summing a re-ordered per-node block = summing the block *)
Lemma block_sum_invariant off V V' : rel1 off V V' -> block_sum n off V' == block_sum n off V.
Proof.
  intros H. unfold block_sum, sumn, vsum, tab.
  rewrite (sum_map_ext (seq 0 n) _ (fun i => vnth (off + idx (nd2 i)) V)) by (intros i Hi; apply H; rewrite in_seq in Hi; lia).
  assert (E2 : map (fun i => vnth (off + idx (nd2 i)) V) (seq 0 n) = map (fun u => vnth (off + idx u) V) nl2).
  { rewrite <- len2. unfold nN, node_at. generalize nl2 as l. intros l.
    rewrite <- (map_map (fun i => nth i l 0%N) (fun u => vnth (off + idx u) V)). f_equal.
    clear. induction l as [|x l IH]; [reflexivity|]. cbn [length seq map nth]. f_equal. rewrite <- seq_shift, map_map. exact IH. }
  rewrite E2. rewrite (sum_map_perm _ _ _ (rl_perm R)).
  assert (E1 : map (fun u => vnth (off + idx u) V) nodelist = map (fun i => vnth (off + idx (nd i)) V) (seq 0 n)).
  { unfold nN, node_at. generalize nodelist as l. intros l.
    rewrite <- (map_map (fun i => nth i l 0%N) (fun u => vnth (off + idx u) V)). f_equal.
    clear. induction l as [|x l IH]; [reflexivity|]. cbn [length seq map nth]. f_equal. rewrite <- seq_shift, map_map. exact IH. }
  rewrite E1. apply sum_map_ext. intros i Hi. rewrite in_seq in Hi. rewrite (rl_idx R i) by lia. reflexivity.
Qed.


(* ====================================================================== *)
(* individual based                                                        *)
(* ====================================================================== *)
Lemma Hidx'_all : forall i, (i < nN nl')%nat -> idx' (nd' i) = i.
Proof. intros i Hi. rewrite len' in Hi. apply idx'_nd', Hi. Qed.

Lemma ibSIS_B y y' u : (forall v, In v nodelist -> y' (phi v) == y v) -> In u nodelist ->
  ibSIS_nd G' tr' rc' y' (phi u) == ibSIS_nd G tr rc y u.
Proof.
  intros Hy Hu. unfold ibSIS_nd.
  rewrite (sum_relabel phi (fun nbr => tr u nbr * (1 - y u) * y nbr) (fun nbr => tr' (phi u) nbr * (1 - y' (phi u)) * y' nbr)
                       (gadj G u) (gadj G' (phi u)) (rl_adj R u Hu)).
  - rewrite (Hy u Hu), (rl_rc R u Hu). reflexivity.
  - intros v Hv. cbv beta. rewrite (rl_tr R u v Hu Hv), (Hy u Hu), (Hy v (nbr_in u v Hu Hv)). reflexivity.
Qed.
Lemma ibSIR_dX_B x x' y y' u :
  (forall v, In v nodelist -> x' (phi v) == x v) -> (forall v, In v nodelist -> y' (phi v) == y v) -> In u nodelist ->
  ibSIR_dX_nd G' tr' x' y' (phi u) == ibSIR_dX_nd G tr x y u.
Proof.
  intros Hx Hy Hu. unfold ibSIR_dX_nd.
  rewrite (sum_relabel phi (fun nbr => tr u nbr * y nbr) (fun nbr => tr' (phi u) nbr * y' nbr)
                       (gadj G u) (gadj G' (phi u)) (rl_adj R u Hu)).
  - rewrite (Hx u Hu). reflexivity.
  - intros v Hv. cbv beta. rewrite (rl_tr R u v Hu Hv), (Hy v (nbr_in u v Hu Hv)). reflexivity.
Qed.
Lemma ibSIR_dY_B x x' y y' u :
  (forall v, In v nodelist -> x' (phi v) == x v) -> (forall v, In v nodelist -> y' (phi v) == y v) -> In u nodelist ->
  ibSIR_dY_nd G' tr' rc' x' y' (phi u) == ibSIR_dY_nd G tr rc x y u.
Proof.
  intros Hx Hy Hu. unfold ibSIR_dY_nd. rewrite (ibSIR_dX_B x x' y y' u Hx Hy Hu), (Hy u Hu), (rl_rc R u Hu). reflexivity.
Qed.

(* state accessors of problem 2 through the node names *)
Lemma acc1 off V V' : rel1 off V V' -> forall v, In v nodelist ->
  vnth (off + idx' (phi v)) V' == vnth (off + idx v) V.
Proof. intros H v Hv. apply rel1_node; assumption. Qed.
Lemma acc1_0 V V' : rel1 0 V V' -> forall v, In v nodelist -> vnth (idx' (phi v)) V' == vnth (idx v) V.
Proof. intros H v Hv. exact (rel1_node 0 V V' v H Hv). Qed.
Lemma acc1_n V V' : rel1 n V V' -> forall v, In v nodelist -> vnth (nN nl' + idx' (phi v)) V' == vnth (n + idx v) V.
Proof. intros H v Hv. rewrite len'. exact (rel1_node n V V' v H Hv). Qed.

Theorem ibSIS_equivariant V V' t : rel1 0 V V' ->
  veq (dSIS_individual_based G' nl' idx' tr' rc' V' t) (perm_ibSIS idx nl2 (dSIS_individual_based G nodelist idx tr rc V t)).
Proof.
  intros H0. unfold dSIS_individual_based, perm_ibSIS.
  apply (veq_tab_blk1_at _ _ (ibSIS_dY G nodelist idx tr rc V) [] []); [apply len'|rewrite app_nil_r; reflexivity|reflexivity|].
  intros i Hi. pose proof (nd2_in i Hi) as Hu. destruct (in_nodelist _ Hu) as [Hk Ek].
  rewrite (ibSIS_A G' nl' idx' tr' rc' Hidx'_all V' i) by (rewrite len'; exact Hi).
  rewrite (ibSIS_A G nodelist idx tr rc (rl_idx R) V _ Hk). rewrite Ek, (nd'_eq i Hi).
  apply ibSIS_B; [apply acc1_0, H0|exact Hu].
Qed.
Theorem ibSIR_equivariant V V' t : rel1 0 V V' -> rel1 n V V' ->
  veq (dSIR_individual_based G' nl' idx' tr' rc' V' t) (perm_ibSIR idx nl2 (dSIR_individual_based G nodelist idx tr rc V t)).
Proof.
  intros H0 H1. unfold dSIR_individual_based, perm_ibSIR. apply veq_app.
  - apply (veq_tab_blk1_at _ _ (ibSIR_dX G nodelist idx tr V) [] (tab n (ibSIR_dY G nodelist idx tr rc V))); [apply len'|reflexivity|reflexivity|].
    intros i Hi. pose proof (nd2_in i Hi) as Hu. destruct (in_nodelist _ Hu) as [Hk Ek].
    rewrite (ibSIR_dX_A G' nl' idx' tr' Hidx'_all V' i) by (rewrite len'; exact Hi).
    rewrite (ibSIR_dX_A G nodelist idx tr (rl_idx R) V _ Hk). rewrite Ek, (nd'_eq i Hi).
    apply ibSIR_dX_B; [apply acc1_0, H0|apply acc1_n, H1|exact Hu].
  - rewrite len2.
    apply (veq_tab_blk1_at _ _ (ibSIR_dY G nodelist idx tr rc V) (tab n (ibSIR_dX G nodelist idx tr V)) []);
      [apply len'|rewrite app_nil_r; reflexivity|apply tab_length|].
    intros i Hi. pose proof (nd2_in i Hi) as Hu. destruct (in_nodelist _ Hu) as [Hk Ek].
    rewrite (ibSIR_dY_A G' nl' idx' tr' rc' Hidx'_all V' i) by (rewrite len'; exact Hi).
    rewrite (ibSIR_dY_A G nodelist idx tr rc (rl_idx R) V _ Hk). rewrite Ek, (nd'_eq i Hi).
    apply ibSIR_dY_B; [apply acc1_0, H0|apply acc1_n, H1|exact Hu].
Qed.

(* the re-ordered state itself (and anything pointwise equal to it) is related *)
Lemma rel1_of_nth off V V' :
  (forall i, (i < n)%nat -> vnth (off + i) V' == nth i (blk1 idx nl2 off V) 0) -> rel1 off V V'.
Proof. intros H i Hi. rewrite (H i Hi). rewrite nth_blk1 by exact Hi. reflexivity. Qed.
Lemma rel2_of_nth off V V' :
  (forall i j, (i < n)%nat -> (j < n)%nat -> vnth (off + i * n + j) V' == nth (i * n + j) (blk2 idx nl2 off V) 0) -> rel2 off V V'.
Proof. intros H i j Hi Hj. rewrite (H i j Hi Hj). rewrite nth_blk2 by assumption. reflexivity. Qed.

Lemma rel_perm_ibSIS V V' : veq V' (perm_ibSIS idx nl2 V) -> rel1 0 V V'.
Proof.
  intros H. apply rel1_of_nth. intros i Hi. cbn [Nat.add]. exact (veq_nth_all _ _ H i).
Qed.
Lemma rel_perm_ibSIR V V' : veq V' (perm_ibSIR idx nl2 V) -> rel1 0 V V' /\ rel1 n V V'.
Proof.
  intros H. unfold perm_ibSIR in H. split; apply rel1_of_nth; intros i Hi; unfold vnth; rewrite (veq_nth_all _ _ H).
  - cbn [Nat.add]. rewrite nth_app_lt by (rewrite blk1_length; exact Hi). reflexivity.
  - rewrite nth_app_at by apply blk1_length. rewrite len2. reflexivity.
Qed.

(* ====================================================================== *)
(* pair based                                                              *)
(* ====================================================================== *)
Section PBrel.
Variables (xinv xinv' : node -> Q) (xy xy' xx xx' : node -> node -> Q).
Hypothesis Hxi : forall v, In v nodelist -> xinv' (phi v) == xinv v.
Hypothesis Hxy : forall a b, In a nodelist -> In b nodelist -> xy' (phi a) (phi b) == xy a b.
Hypothesis Hxx : forall a b, In a nodelist -> In b nodelist -> xx' (phi a) (phi b) == xx a b.
Lemma tin_B u v : In u nodelist -> In v nodelist ->
  tin_nd G' tr' xinv' xy' xx' (phi u) (phi v) == tin_nd G tr xinv xy xx u v.
Proof.
  intros Hu Hv. unfold tin_nd.
  apply (sum_relabel phi _ (fun w => tr' (phi v) w * xx' (phi u) (phi v) * xy' (phi v) w * xinv' (phi v)) _ _ (others_adj u v Hu Hv)).
  intros w Hw. apply others_In in Hw. pose proof (nbr_in v w Hv Hw) as Hwn.
  rewrite (rl_tr R v w Hv Hw), (Hxx u v Hu Hv), (Hxy v w Hv Hwn), (Hxi v Hv). reflexivity.
Qed.
Lemma tout_B (a a' : node -> node -> Q) u v :
  (forall p q, In p nodelist -> In q nodelist -> a' (phi p) (phi q) == a p q) -> In u nodelist -> In v nodelist ->
  tout_nd G' tr' xinv' xy' a' (phi u) (phi v) == tout_nd G tr xinv xy a u v.
Proof.
  intros Ha Hu Hv. unfold tout_nd.
  apply (sum_relabel phi _ (fun w => tr' (phi u) w * xy' (phi u) w * a' (phi u) (phi v) * xinv' (phi u)) _ _ (others_adj v u Hv Hu)).
  intros w Hw. apply others_In in Hw. pose proof (nbr_in u w Hu Hw) as Hwn.
  rewrite (rl_tr R u w Hu Hw), (Hxy u w Hu Hwn), (Ha u v Hu Hv), (Hxi u Hu). reflexivity.
Qed.
Lemma pb_dX_B u : In u nodelist -> pb_dX_nd G' tr' xy' (phi u) == pb_dX_nd G tr xy u.
Proof.
  intros Hu. unfold pb_dX_nd.
  apply (sum_relabel phi _ (fun v => - tr' (phi u) v * xy' (phi u) v) _ _ (rl_adj R u Hu)).
  intros v Hv. rewrite (rl_tr R u v Hu Hv), (Hxy u v Hu (nbr_in u v Hu Hv)). reflexivity.
Qed.
Lemma pb_dY_B (y y' : node -> Q) u : (forall v, In v nodelist -> y' (phi v) == y v) -> In u nodelist ->
  pb_dY_nd G' tr' rc' y' xy' (phi u) == pb_dY_nd G tr rc y xy u.
Proof.
  intros Hy Hu. unfold pb_dY_nd.
  rewrite (sum_relabel phi (fun v => tr u v * xy u v) (fun v => tr' (phi u) v * xy' (phi u) v) _ _ (rl_adj R u Hu)).
  - rewrite (rl_rc R u Hu), (Hy u Hu). reflexivity.
  - intros v Hv. cbv beta. rewrite (rl_tr R u v Hu Hv), (Hxy u v Hu (nbr_in u v Hu Hv)). reflexivity.
Qed.
End PBrel.

Lemma inv0_rel (x x' : node -> Q) : (forall v, In v nodelist -> x' (phi v) == x v) ->
  forall v, In v nodelist -> inv0 (x' (phi v)) == inv0 (x v).
Proof. intros H v Hv. apply inv0_proper, H, Hv. Qed.
Lemma inv0_rel1 (y y' : node -> Q) : (forall v, In v nodelist -> y' (phi v) == y v) ->
  forall v, In v nodelist -> inv0 (1 - y' (phi v)) == inv0 (1 - y v).
Proof. intros H v Hv. apply inv0_proper. rewrite (H v Hv). reflexivity. Qed.

Section PBrel2.
Variables (x x' : node -> Q) (xy xy' xx xx' : node -> node -> Q).
Hypothesis Hx : forall v, In v nodelist -> x' (phi v) == x v.
Hypothesis Hxy : forall a b, In a nodelist -> In b nodelist -> xy' (phi a) (phi b) == xy a b.
Hypothesis Hxx : forall a b, In a nodelist -> In b nodelist -> xx' (phi a) (phi b) == xx a b.
Lemma pbSIR_dXY_B u v : In u nodelist -> In v nodelist ->
  pbSIR_dXY_nd G' tr' rc' x' xy' xx' (phi u) (phi v) == pbSIR_dXY_nd G tr rc x xy xx u v.
Proof.
  intros Hu Hv. unfold pbSIR_dXY_nd. rewrite (mem_adj u v Hu Hv). destruct (mem v (gadj G u)) eqn:E; [|reflexivity].
  apply mem_In in E.
  rewrite (tin_B _ _ xy xy' xx xx' (inv0_rel x x' Hx) Hxy Hxx u v Hu Hv).
  rewrite (tout_B _ _ xy xy' (inv0_rel x x' Hx) Hxy xy xy' u v Hxy Hu Hv).
  rewrite (rl_tr R u v Hu E), (rl_rc R v Hv), (Hxy u v Hu Hv). reflexivity.
Qed.
Lemma pbSIR_dXX_B u v : In u nodelist -> In v nodelist ->
  pbSIR_dXX_nd G' tr' x' xy' xx' (phi u) (phi v) == pbSIR_dXX_nd G tr x xy xx u v.
Proof.
  intros Hu Hv. unfold pbSIR_dXX_nd. rewrite (mem_adj u v Hu Hv). destruct (mem v (gadj G u)) eqn:E; [|reflexivity].
  rewrite (tin_B _ _ xy xy' xx xx' (inv0_rel x x' Hx) Hxy Hxx u v Hu Hv).
  rewrite (tout_B _ _ xy xy' (inv0_rel x x' Hx) Hxy xx xx' u v Hxx Hu Hv). reflexivity.
Qed.
(* SIS: x plays the role of y, X = 1 - Y *)
Lemma pbSIS_dXY_B u v : In u nodelist -> In v nodelist ->
  pbSIS_dXY_nd G' tr' rc' x' xy' xx' (phi u) (phi v) == pbSIS_dXY_nd G tr rc x xy xx u v.
Proof.
  intros Hu Hv. unfold pbSIS_dXY_nd. rewrite (mem_adj u v Hu Hv). destruct (mem v (gadj G u)) eqn:E; [|reflexivity].
  apply mem_In in E.
  rewrite (tin_B _ _ xy xy' xx xx' (inv0_rel1 x x' Hx) Hxy Hxx u v Hu Hv).
  rewrite (tout_B _ _ xy xy' (inv0_rel1 x x' Hx) Hxy xy xy' u v Hxy Hu Hv).
  rewrite (rl_tr R u v Hu E), (rl_rc R v Hv), (rl_rc R u Hu), (Hxy u v Hu Hv), (Hxy v u Hv Hu), (Hxx u v Hu Hv). reflexivity.
Qed.
Lemma pbSIS_dXX_B u v : In u nodelist -> In v nodelist ->
  pbSIS_dXX_nd G' tr' rc' x' xy' xx' (phi u) (phi v) == pbSIS_dXX_nd G tr rc x xy xx u v.
Proof.
  intros Hu Hv. unfold pbSIS_dXX_nd. rewrite (mem_adj u v Hu Hv). destruct (mem v (gadj G u)) eqn:E; [|reflexivity].
  rewrite (tin_B _ _ xy xy' xx xx' (inv0_rel1 x x' Hx) Hxy Hxx u v Hu Hv).
  rewrite (tout_B _ _ xy xy' (inv0_rel1 x x' Hx) Hxy xx xx' u v Hxx Hu Hv).
  rewrite (rl_rc R v Hv), (rl_rc R u Hu), (Hxy u v Hu Hv), (Hxy v u Hv Hu). reflexivity.
Qed.
End PBrel2.

(* accessors of problem 2 through the node names *)
Lemma acc_rx V V' : rel1 0 V V' -> forall v, In v nodelist -> rx idx' V' (phi v) == rx idx V v.
Proof. intros H v Hv. unfold rx, prX. exact (rel1_node 0 V V' v H Hv). Qed.
Lemma acc_ry V V' : rel1 n V V' -> forall v, In v nodelist -> ry nl' idx' V' (phi v) == ry nodelist idx V v.
Proof. intros H v Hv. unfold ry, prY. rewrite len'. exact (rel1_node n V V' v H Hv). Qed.
Lemma acc_rxy V V' : rel2 (2 * n) V V' -> forall a b, In a nodelist -> In b nodelist ->
  rxy nl' idx' V' (phi a) (phi b) == rxy nodelist idx V a b.
Proof. intros H a b Ha Hb. unfold rxy, prXY. rewrite len'. exact (rel2_node (2 * n) V V' a b H Ha Hb). Qed.
Lemma acc_rxx V V' : rel2 (2 * n + n * n) V V' -> forall a b, In a nodelist -> In b nodelist ->
  rxx nl' idx' V' (phi a) (phi b) == rxx nodelist idx V a b.
Proof. intros H a b Ha Hb. unfold rxx, prXX. rewrite len'. exact (rel2_node (2 * n + n * n) V V' a b H Ha Hb). Qed.
Lemma acc_sy V V' : rel1 0 V V' -> forall v, In v nodelist -> sy idx' V' (phi v) == sy idx V v.
Proof. intros H v Hv. unfold sy, psY. exact (rel1_node 0 V V' v H Hv). Qed.
Lemma acc_sxy V V' : rel2 n V V' -> forall a b, In a nodelist -> In b nodelist ->
  sxy nl' idx' V' (phi a) (phi b) == sxy nodelist idx V a b.
Proof. intros H a b Ha Hb. unfold sxy, psXY. rewrite len'. exact (rel2_node n V V' a b H Ha Hb). Qed.
Lemma acc_sxx V V' : rel2 (n + n * n) V V' -> forall a b, In a nodelist -> In b nodelist ->
  sxx nl' idx' V' (phi a) (phi b) == sxx nodelist idx V a b.
Proof. intros H a b Ha Hb. unfold sxx, psXX. rewrite len'. exact (rel2_node (n + n * n) V V' a b H Ha Hb). Qed.

Ltac at_pos i Hi Hu Hk Ek := pose proof (nd2_in i Hi) as Hu; destruct (in_nodelist _ Hu) as [Hk Ek].

Theorem pbSIR_equivariant V V' t :
  rel1 0 V V' -> rel1 n V V' -> rel2 (2 * n) V V' -> rel2 (2 * n + n * n) V V' ->
  veq (dSIR_pair_based G' nl' idx' tr' rc' V' t) (perm_pbSIR idx nl2 (dSIR_pair_based G nodelist idx tr rc V t)).
Proof.
  intros H0 H1 H2 H3. unfold dSIR_pair_based, perm_pbSIR. rewrite !len2.
  set (tX := tab n (pbSIR_dX G nodelist idx tr V)). set (tY := tab n (pbSIR_dY G nodelist idx tr rc V)).
  set (tXY := tab2 n n (pbSIR_dXY G nodelist idx tr rc V)). set (tXX := tab2 n n (pbSIR_dXX G nodelist idx tr V)).
  apply veq_app; [|apply veq_app; [|apply veq_app]].
  - apply (veq_tab_blk1_at _ _ (pbSIR_dX G nodelist idx tr V) [] (tY ++ tXY ++ tXX)); [apply len'|reflexivity|reflexivity|].
    intros i Hi. at_pos i Hi Hu Hk Ek.
    rewrite (pbSIR_dX_A G' nl' idx' tr' Hidx'_all V' i) by (rewrite len'; exact Hi).
    rewrite (pbSIR_dX_A G nodelist idx tr (rl_idx R) V _ Hk). rewrite Ek, (nd'_eq i Hi).
    apply pb_dX_B; [apply acc_rxy, H2|exact Hu].
  - apply (veq_tab_blk1_at _ _ (pbSIR_dY G nodelist idx tr rc V) tX (tXY ++ tXX)); [apply len'|reflexivity|apply tab_length|].
    intros i Hi. at_pos i Hi Hu Hk Ek.
    rewrite (pbSIR_dY_A G' nl' idx' tr' rc' Hidx'_all V' i) by (rewrite len'; exact Hi).
    rewrite (pbSIR_dY_A G nodelist idx tr rc (rl_idx R) V _ Hk). rewrite Ek, (nd'_eq i Hi).
    apply pb_dY_B; [apply acc_rxy, H2|apply acc_ry, H1|exact Hu].
  - apply (veq_tab_blk2_at _ _ (pbSIR_dXY G nodelist idx tr rc V) (tX ++ tY) tXX);
      [apply len'|rewrite <- app_assoc; reflexivity|unfold tX, tY; rewrite app_length, !tab_length; lia|].
    intros i j Hi Hj. at_pos i Hi Hu Hk Ek. at_pos j Hj Hv Hl El.
    rewrite (pbSIR_dXY_A G' nl' idx' tr' rc' Hidx'_all V' i j) by (rewrite len'; assumption).
    rewrite (pbSIR_dXY_A G nodelist idx tr rc (rl_idx R) V _ _ Hk Hl). rewrite Ek, El, (nd'_eq i Hi), (nd'_eq j Hj).
    apply pbSIR_dXY_B; [apply acc_rx, H0|apply acc_rxy, H2|apply acc_rxx, H3|exact Hu|exact Hv].
  - apply (veq_tab_blk2_at _ _ (pbSIR_dXX G nodelist idx tr V) (tX ++ tY ++ tXY) []);
      [apply len'|rewrite app_nil_r, <- !app_assoc; reflexivity|unfold tX, tY, tXY; rewrite !app_length, !tab_length, tab2_length; lia|].
    intros i j Hi Hj. at_pos i Hi Hu Hk Ek. at_pos j Hj Hv Hl El.
    rewrite (pbSIR_dXX_A G' nl' idx' tr' Hidx'_all V' i j) by (rewrite len'; assumption).
    rewrite (pbSIR_dXX_A G nodelist idx tr (rl_idx R) V _ _ Hk Hl). rewrite Ek, El, (nd'_eq i Hi), (nd'_eq j Hj).
    apply pbSIR_dXX_B; [apply acc_rx, H0|apply acc_rxy, H2|apply acc_rxx, H3|exact Hu|exact Hv].
Qed.

Theorem pbSIS_equivariant V V' t :
  rel1 0 V V' -> rel2 n V V' -> rel2 (n + n * n) V V' ->
  veq (dSIS_pair_based G' nl' idx' tr' rc' V' t) (perm_pbSIS idx nl2 (dSIS_pair_based G nodelist idx tr rc V t)).
Proof.
  intros H0 H2 H3. unfold dSIS_pair_based, perm_pbSIS. rewrite !len2.
  set (tY := tab n (pbSIS_dY G nodelist idx tr rc V)).
  set (tXY := tab2 n n (pbSIS_dXY G nodelist idx tr rc V)). set (tXX := tab2 n n (pbSIS_dXX G nodelist idx tr rc V)).
  apply veq_app; [|apply veq_app].
  - apply (veq_tab_blk1_at _ _ (pbSIS_dY G nodelist idx tr rc V) [] (tXY ++ tXX)); [apply len'|reflexivity|reflexivity|].
    intros i Hi. at_pos i Hi Hu Hk Ek.
    rewrite (pbSIS_dY_A G' nl' idx' tr' rc' Hidx'_all V' i) by (rewrite len'; exact Hi).
    rewrite (pbSIS_dY_A G nodelist idx tr rc (rl_idx R) V _ Hk). rewrite Ek, (nd'_eq i Hi).
    apply pb_dY_B; [apply acc_sxy, H2|apply acc_sy, H0|exact Hu].
  - apply (veq_tab_blk2_at _ _ (pbSIS_dXY G nodelist idx tr rc V) tY tXX); [apply len'|reflexivity|apply tab_length|].
    intros i j Hi Hj. at_pos i Hi Hu Hk Ek. at_pos j Hj Hv Hl El.
    rewrite (pbSIS_dXY_A G' nl' idx' tr' rc' Hidx'_all V' i j) by (rewrite len'; assumption).
    rewrite (pbSIS_dXY_A G nodelist idx tr rc (rl_idx R) V _ _ Hk Hl). rewrite Ek, El, (nd'_eq i Hi), (nd'_eq j Hj).
    apply pbSIS_dXY_B; [apply acc_sy, H0|apply acc_sxy, H2|apply acc_sxx, H3|exact Hu|exact Hv].
  - apply (veq_tab_blk2_at _ _ (pbSIS_dXX G nodelist idx tr rc V) (tY ++ tXY) []);
      [apply len'|rewrite app_nil_r, <- app_assoc; reflexivity|unfold tY, tXY; rewrite app_length, tab_length, tab2_length; lia|].
    intros i j Hi Hj. at_pos i Hi Hu Hk Ek. at_pos j Hj Hv Hl El.
    rewrite (pbSIS_dXX_A G' nl' idx' tr' rc' Hidx'_all V' i j) by (rewrite len'; assumption).
    rewrite (pbSIS_dXX_A G nodelist idx tr rc (rl_idx R) V _ _ Hk Hl). rewrite Ek, El, (nd'_eq i Hi), (nd'_eq j Hj).
    apply pbSIS_dXX_B; [apply acc_sy, H0|apply acc_sxy, H2|apply acc_sxx, H3|exact Hu|exact Hv].
Qed.
End Relabel.
