(* C13x, part 1: the reference agenda run [r_loop] and the model of
   fast_nonMarkov_SIS [n_loop] end within an explicit fuel computed from the
   inputs.  The argument is a potential function and needs no reasoning about
   time:
     every pending attempt weighs 2 (itself + the recovery of the infection it
     may cause), every pending recovery weighs 1, and the attempts that the rule
     tables still hold for the infection ordinals  ord v <= k < K  of every node
     weigh 2 each.
   One agenda / queue item is consumed per step and an infection of v with ordinal
   k moves at most  1 + 2 * natt v k  from the tables into the agenda, so the
   total drops by at least 1 per step PROVIDED the infection is [safe]: its
   ordinal is below K (and v is a node of the graph), or the tables list nothing
   for it.  Where [safe] comes from is the business of the two domains:
     C13xFin.v   the delay tables are finite (nothing listed from ordinal K on);
     C13xTime.v  finite tmax and durations bounded below by a positive constant. *)
From EoNV Require Import Prelude Samp Graph EventSIS EventSISP.
From Coq Require Import Permutation Lia.

Lemma ls_cons : forall x l, list_sum (x :: l) = (x + list_sum l)%nat.
Proof. reflexivity. Qed.
Lemma ls_nil : list_sum [] = O.
Proof. reflexivity. Qed.
Ltac ls := rewrite ?ls_cons, ?ls_nil.

Lemma filter_len_le : forall {T} (p : T -> bool) l, (length (filter p l) <= length l)%nat.
Proof. intros T p l. induction l as [|x l IH]; cbn [filter length]; [lia|]. destruct (p x); cbn [length]; lia. Qed.

Lemma sum_upd_in : forall (l : list node) (f f' : node -> nat) v,
  NoDup l -> In v l -> (forall x, x <> v -> f' x = f x) ->
  (list_sum (map f' l) + f v = list_sum (map f l) + f' v)%nat.
Proof.
  intros l f f' v Hn. induction Hn as [|x l Hx Hn IH]; intros Hin Hf; [destruct Hin|].
  cbn [map]; ls. destruct Hin as [->|Hin].
  - assert (E : map f' l = map f l).
    { apply map_ext_in. intros y Hy. apply Hf. intro; subst y. contradiction. }
    rewrite E. lia.
  - assert (x <> v) by (intro; subst x; contradiction).
    rewrite (Hf x H). specialize (IH Hin Hf). lia.
Qed.
Lemma sum_upd_notin : forall (l : list node) (f f' : node -> nat) v,
  ~ In v l -> (forall x, x <> v -> f' x = f x) -> list_sum (map f' l) = list_sum (map f l).
Proof.
  intros l f f' v Hn Hf. f_equal. apply map_ext_in. intros y Hy. apply Hf. intro; subst y. contradiction.
Qed.

Section Term.
Variable g : graph.
Variable dur : node -> nat -> Q.
Variable delays : node -> node -> nat -> list Q.
Variable tmax : xtime.
Variable K : nat.
Hypothesis Hnd : NoDup (gnodes g).

(* how many attempts the k-th infection of v lists, over all its neighbours *)
Definition natt (v : node) (k : nat) : nat := list_sum (map (fun w => length (delays v w k)) (gadj g v)).
Definition potv (v : node) (j : nat) : nat := list_sum (map (natt v) (seq j (K - j))).
Definition pot (ord : node -> nat) : nat := list_sum (map (fun v => potv v (ord v)) (gnodes g)).
(* THE FUEL: one item per initial node, and per listed attempt of the ordinals below K
   the attempt itself and the recovery of the infection it may cause *)
Definition ref_fuel (i0 : list node) : nat := length i0 + 2 * pot (fun _ => O).
Definition nm_fuel (i0 : list node) : nat := length i0 + ref_fuel i0.

Definition safe (v : node) (k : nat) : Prop := (k < K /\ In v (gnodes g))%nat \/ natt v k = O.

Lemma potv_step : forall v k, (k < K)%nat -> potv v k = (natt v k + potv v (S k))%nat.
Proof.
  intros v k H. unfold potv. replace (K - k)%nat with (S (K - S k)) by lia. cbn [seq map]; ls. reflexivity.
Qed.
Lemma potv_ge : forall v k, (K <= k)%nat -> potv v k = O.
Proof. intros v k H. unfold potv. replace (K - k)%nat with O by lia. reflexivity. Qed.
Lemma potv_mono : forall v k, (potv v (S k) <= potv v k)%nat.
Proof.
  intros v k. destruct (Nat.lt_ge_cases k K) as [H|H]; [rewrite (potv_step v k H); lia|].
  rewrite (potv_ge v k H), (potv_ge v (S k)); lia.
Qed.

Lemma pot_infect : forall ord v, safe v (ord v) ->
  (2 * pot (fupdN ord v (S (ord v))) + 2 * natt v (ord v) <= 2 * pot ord)%nat.
Proof.
  intros ord v Hs. unfold pot.
  set (f := fun x => potv x (ord x)). set (f' := fun x => potv x (fupdN ord v (S (ord v)) x)).
  assert (Hf : forall x, x <> v -> f' x = f x).
  { intros x Hx. unfold f, f', fupdN. destruct (N.eqb_spec x v); [contradiction|reflexivity]. }
  assert (Ev : f' v = potv v (S (ord v))) by (unfold f', fupdN; rewrite N.eqb_refl; reflexivity).
  destruct (in_dec N.eq_dec v (gnodes g)) as [Hin|Hout].
  - pose proof (sum_upd_in (gnodes g) f f' v Hnd Hin Hf) as E. rewrite Ev in E. unfold f at 1 in E.
    destruct Hs as [[Hk _]|H0].
    + rewrite (potv_step v _ Hk) in E. lia.
    + pose proof (potv_mono v (ord v)). lia.
  - rewrite (sum_upd_notin (gnodes g) f f' v Hout Hf). destruct Hs as [[_ Hin]|H0]; [contradiction|lia].
Qed.

(* ================================================================== *)
(* the reference agenda                                                 *)
Definition aw (x : Q * aev) : nat := match snd x with ARec _ => 1 | AAtt _ _ => 2 end.
Definition agw (ag : list (Q * aev)) : nat := list_sum (map aw ag).
Definition rM (s : rst) : nat := agw (r_ag s) + 2 * pot (r_ord s).
Definition rpop (s : rst) (rest : list (Q * aev)) : rst := mkR (r_stat s) (r_ord s) rest (r_log s) (r_ok s).

Local Notation rins := (r_insert tmax).
Local Notation rinfect := (r_infect g dur delays tmax).
Local Notation rsched := (r_sched delays tmax).

Lemma agw_ains : forall x l, agw (ains x l) = (aw x + agw l)%nat.
Proof.
  intros x l. unfold agw. induction l as [|h t IH]; cbn [ains]; [reflexivity|].
  destruct (Qltb (fst x) (fst h)); [reflexivity|]. cbn [map]; ls. rewrite IH. lia.
Qed.
Lemma agw_pos : forall ag, agw ag = O -> ag = [].
Proof. intros [|[t [v|u v]] ag]; [reflexivity| |]; unfold agw, aw; cbn [map snd]; ls; lia. Qed.

Lemma rins_fields : forall now s t a,
  r_stat (rins now s t a) = r_stat s /\ r_ord (rins now s t a) = r_ord s /\ r_log (rins now s t a) = r_log s.
Proof. intros. unfold r_insert. destruct (xlt t tmax); cbn; tauto. Qed.
Lemma rins_ag : forall now s t a,
  r_ag (rins now s t a) = if xlt t tmax then ains (t, a) (r_ag s) else r_ag s.
Proof. intros. unfold r_insert. destruct (xlt t tmax); reflexivity. Qed.

(* a property of the agenda that every insertion of the infection keeps *)
Section InfectInd.
Variable I : list (Q * aev) -> Prop.
Variables (time : Q) (v : node) (k : nat).
Hypothesis Hatt : forall ag w d, I ag -> In w (gadj g v) -> In d (delays v w k) ->
  xlt (tadd time d) tmax = true -> I (ains (tadd time d, AAtt v w) ag).

Lemma fold_ins_ind : forall w dl s, In w (gadj g v) -> incl dl (delays v w k) -> I (r_ag s) ->
  let s' := fold_left (fun s d => rins time s (tadd time d) (AAtt v w)) dl s in
  I (r_ag s') /\ r_stat s' = r_stat s /\ r_ord s' = r_ord s /\ r_log s' = r_log s.
Proof.
  intros w dl. induction dl as [|d dl IH]; intros s Hw Hinc Hi; cbn [fold_left]; [tauto|].
  destruct (rins_fields time s (tadd time d) (AAtt v w)) as [E1 [E2 E3]].
  destruct (IH (rins time s (tadd time d) (AAtt v w)) Hw) as [A [B1 [B2 B3]]].
  - intros x Hx. apply Hinc. right. exact Hx.
  - rewrite rins_ag. destruct (xlt (tadd time d) tmax) eqn:V; [|exact Hi].
    apply Hatt; [exact Hi|exact Hw|apply Hinc; left; reflexivity|exact V].
  - split; [exact A|]. rewrite B1, B2, B3, E1, E2, E3. tauto.
Qed.

Lemma sched_fold_ind : forall ws s, incl ws (gadj g v) -> I (r_ag s) ->
  let s' := fold_left (rsched time v k) ws s in
  I (r_ag s') /\ r_stat s' = r_stat s /\ r_ord s' = r_ord s /\ r_log s' = r_log s.
Proof.
  induction ws as [|w ws IH]; intros s Hinc Hi; cbn [fold_left]; [tauto|].
  assert (Hw : In w (gadj g v)) by (apply Hinc; left; reflexivity).
  set (s0 := mkR (r_stat s) (r_ord s) (r_ag s) (r_log s) (r_ok s && ascending (delays v w k))).
  destruct (fold_ins_ind w (delays v w k) s0 Hw (incl_refl _) Hi) as [A [B1 [B2 B3]]].
  change (fold_left (fun s d => rins time s (tadd time d) (AAtt v w)) (delays v w k) s0) with (rsched time v k s w) in A, B1, B2, B3.
  destruct (IH (rsched time v k s w)) as [C [D1 [D2 D3]]].
  - intros x Hx. apply Hinc. right. exact Hx.
  - exact A.
  - split; [exact C|]. rewrite D1, D2, D3, B1, B2, B3. cbn [s0 r_stat r_ord r_log]. tauto.
Qed.
End InfectInd.

Lemma r_infect_ind : forall (I : list (Q * aev) -> Prop) time src v s,
  let k := r_ord s v in
  (xlt (tadd time (dur v k)) tmax = true -> I (ains (tadd time (dur v k), ARec v) (r_ag s))) ->
  (xlt (tadd time (dur v k)) tmax = false -> I (r_ag s)) ->
  (forall ag w d, I ag -> In w (gadj g v) -> In d (delays v w k) ->
     xlt (tadd time d) tmax = true -> I (ains (tadd time d, AAtt v w) ag)) ->
  let s' := rinfect time src v s in
  I (r_ag s') /\ r_stat s' = fupdN (r_stat s) v stI /\ r_ord s' = fupdN (r_ord s) v (S k) /\
  r_log s' = log_inf (r_log s) time src v.
Proof.
  intros I time src v s k H1 H2 H3 s'. subst s'. rewrite r_infect_unfold. fold k.
  set (s0 := mkR (fupdN (r_stat s) v stI) (fupdN (r_ord s) v (S k)) (r_ag s) (log_inf (r_log s) time src v) (r_ok s)).
  destruct (rins_fields time s0 (tadd time (dur v k)) (ARec v)) as [E1 [E2 E3]].
  destruct (sched_fold_ind I time v k H3 (gadj g v) (rins time s0 (tadd time (dur v k)) (ARec v)) (incl_refl _)) as [A [B1 [B2 B3]]].
  - rewrite rins_ag. cbn [s0 r_ag]. destruct (xlt (tadd time (dur v k)) tmax) eqn:V; [apply H1|apply H2]; reflexivity.
  - split; [exact A|]. rewrite B1, B2, B3, E1, E2, E3. cbn [s0 r_stat r_ord r_log]. tauto.
Qed.

(* the weight an infection adds *)
Lemma fold_ins_w : forall time v w dl s,
  (agw (r_ag (fold_left (fun s d => rins time s (tadd time d) (AAtt v w)) dl s)) <= 2 * length dl + agw (r_ag s))%nat.
Proof.
  intros time v w dl. induction dl as [|d dl IH]; intro s; cbn [fold_left length]; [lia|].
  specialize (IH (rins time s (tadd time d) (AAtt v w))). rewrite rins_ag in IH.
  destruct (xlt (tadd time d) tmax); [rewrite agw_ains in IH; unfold aw in IH; cbn [snd] in IH|]; lia.
Qed.
Lemma sched_fold_w : forall time v k ws s,
  (agw (r_ag (fold_left (rsched time v k) ws s)) <=
   2 * list_sum (map (fun w => length (delays v w k)) ws) + agw (r_ag s))%nat.
Proof.
  intros time v k ws. induction ws as [|w ws IH]; intro s; cbn [fold_left map]; ls; [lia|].
  specialize (IH (rsched time v k s w)).
  pose proof (fold_ins_w time v w (delays v w k)
                (mkR (r_stat s) (r_ord s) (r_ag s) (r_log s) (r_ok s && ascending (delays v w k)))) as H.
  cbn [r_ag] in H.
  change (fold_left (fun s0 d => rins time s0 (tadd time d) (AAtt v w)) (delays v w k)
            (mkR (r_stat s) (r_ord s) (r_ag s) (r_log s) (r_ok s && ascending (delays v w k)))) with (rsched time v k s w) in H.
  lia.
Qed.
Lemma r_infect_w : forall time src v s,
  (agw (r_ag (rinfect time src v s)) <= agw (r_ag s) + 1 + 2 * natt v (r_ord s v))%nat.
Proof.
  intros time src v s. rewrite r_infect_unfold.
  set (s0 := mkR (fupdN (r_stat s) v stI) (fupdN (r_ord s) v (S (r_ord s v))) (r_ag s) (log_inf (r_log s) time src v) (r_ok s)).
  pose proof (sched_fold_w time v (r_ord s v) (gadj g v) (rins time s0 (tadd time (dur v (r_ord s v))) (ARec v))) as H.
  rewrite rins_ag in H. cbn [s0 r_ag] in H. unfold natt.
  destruct (xlt (tadd time (dur v (r_ord s v))) tmax); [rewrite agw_ains in H; unfold aw in H; cbn [snd] in H|]; lia.
Qed.
Lemma r_infect_ord : forall time src v s, r_ord (rinfect time src v s) = fupdN (r_ord s) v (S (r_ord s v)).
Proof.
  intros. destruct (r_infect_ind (fun _ => True) time src v s) as [_ [_ [E _]]]; try (intros; exact I). exact E.
Qed.
Lemma r_infect_stat : forall time src v s, r_stat (rinfect time src v s) = fupdN (r_stat s) v stI.
Proof.
  intros. destruct (r_infect_ind (fun _ => True) time src v s) as [_ [E _]]; try (intros; exact I). exact E.
Qed.

Lemma r_infect_M : forall time src v s, safe v (r_ord s v) -> (rM (rinfect time src v s) <= rM s + 1)%nat.
Proof.
  intros time src v s Hs. unfold rM. rewrite r_infect_ord.
  pose proof (r_infect_w time src v s). pose proof (pot_infect (r_ord s) v Hs). lia.
Qed.

Lemma r_step_dec : forall s t a rest, r_ag s = (t, a) :: rest ->
  (forall u v, a = AAtt u v -> r_stat s v = stS -> safe v (r_ord s v)) ->
  (rM (r_event g dur delays tmax t a (rpop s rest)) + 1 <= rM s)%nat.
Proof.
  intros s t a rest Ea Hs. destruct a as [v|u v]; cbn [r_event].
  - unfold rM. cbn [r_ag r_ord rpop]. rewrite Ea. unfold agw, aw. cbn [map snd]; ls. lia.
  - cbn [rpop r_stat]. destruct (N.eqb_spec (r_stat s v) stS) as [E|E].
    + pose proof (r_infect_M t (Some u) v (rpop s rest) (Hs u v eq_refl E)) as H.
      unfold rM in *. cbn [rpop r_ag r_ord] in *. rewrite Ea. unfold agw at 2, aw. cbn [map snd]; ls.
      fold aw. fold (agw rest). lia.
    + unfold rM. cbn [r_ag r_ord rpop]. rewrite Ea. unfold agw, aw. cbn [map snd]; ls. lia.
Qed.

(* generic: an invariant that makes every infection safe bounds the run *)
Section RTotal.
Variable P : rst -> Prop.
Hypothesis Pstep : forall s t a rest, P s -> r_ag s = (t, a) :: rest ->
  P (r_event g dur delays tmax t a (rpop s rest)) /\
  (forall u v, a = AAtt u v -> r_stat s v = stS -> safe v (r_ord s v)).

Lemma r_loop_total : forall f s, P s -> (rM s <= f)%nat ->
  exists s', r_loop g dur delays tmax f s = Ok s' /\ P s'.
Proof.
  induction f as [|f IH]; intros s Hp Hm; cbn [r_loop].
  - assert (E : r_ag s = []) by (apply agw_pos; unfold rM in Hm; lia). rewrite E. exists s. split; [reflexivity|exact Hp].
  - destruct (r_ag s) as [|[t a] rest] eqn:Ea; [exists s; split; [reflexivity|exact Hp]|].
    destruct (Pstep s t a rest Hp Ea) as [Hp' Hs]. apply IH; [exact Hp'|].
    pose proof (r_step_dec s t a rest Ea Hs). change (mkR (r_stat s) (r_ord s) rest (r_log s) (r_ok s)) with (rpop s rest). lia.
Qed.
End RTotal.

Definition r_init_step (tmin : Q) (s : rst) (u : node) : rst :=
  if N.eqb (r_stat s u) stS then rinfect tmin None u s
  else mkR (r_stat s) (r_ord s) (r_ag s) (r_log s) false.
Definition r_empty (tmin : Q) : rst := mkR (fun _ => stS) (fun _ => O) [] (logs0 g tmin) true.
Lemma r_init_eq : forall tmin i0, r_init g dur delays tmax tmin i0 = fold_left (r_init_step tmin) i0 (r_empty tmin).
Proof. reflexivity. Qed.

Section RInit.
Variable P : rst -> Prop.
Variable tmin : Q.
Lemma r_init_total : forall l s,
  (forall s u, P s -> In u l -> P (r_init_step tmin s u) /\ (r_stat s u = stS -> safe u (r_ord s u))) ->
  P s -> P (fold_left (r_init_step tmin) l s) /\ (rM (fold_left (r_init_step tmin) l s) <= length l + rM s)%nat.
Proof.
  induction l as [|u l IH]; intros s Hstep Hp; cbn [fold_left length]; [split; [exact Hp|lia]|].
  destruct (Hstep s u Hp (or_introl eq_refl)) as [Hp' Hs].
  destruct (IH (r_init_step tmin s u)) as [A B]; [intros s2 u2 H2 Hin; apply Hstep; [exact H2|right; exact Hin]|exact Hp'|].
  split; [exact A|]. assert (rM (r_init_step tmin s u) <= rM s + 1)%nat; [|lia].
  unfold r_init_step. destruct (N.eqb_spec (r_stat s u) stS) as [E|E]; [apply r_infect_M; apply Hs; exact E|].
  unfold rM. cbn [r_ag r_ord]. lia.
Qed.
End RInit.

(* ================================================================== *)
(* the queue of fast_nonMarkov_SIS                                      *)
Definition nw (x : qent nev) : nat :=
  match snd x with NRec _ => 1 | NTrans _ _ fut => 2 * (1 + length fut) end.
Definition qw (l : list (qent nev)) : nat := list_sum (map nw l).
Definition nM (s : nst) : nat := qw (q_items (ns_q s)) + 2 * pot (ns_ord s).
Definition npop (s : nst) (rest : list (qent nev)) : nst :=
  mkN (ns_stat s) (ns_rec s) (ns_ord s) (mkQ rest (q_ctr (ns_q s))) (ns_log s).

Lemma qw_qins : forall x l, qw (qins x l) = (nw x + qw l)%nat.
Proof.
  intros x l. unfold qw. induction l as [|h t IH]; cbn [qins]; [reflexivity|].
  destruct (qbefore x h); [reflexivity|]. cbn [map]; ls. rewrite IH. lia.
Qed.
Lemma qw_pos : forall l, qw l = O -> l = [].
Proof. intros [|[[t c] [v|s v fut]] l]; [reflexivity| |]; unfold qw, nw; cbn [map snd]; ls; lia. Qed.
Lemma qw_add : forall q t e, (qw (q_items (q_add tmax q t e)) <= nw (t, q_ctr q, e) + qw (q_items q))%nat.
Proof. intros q t e. unfold q_add. destruct (xlt t tmax); cbn [q_items]; [rewrite qw_qins|]; lia. Qed.
Lemma qw_chain : forall q src tgt tt, (qw (q_items (chain tmax q src tgt tt)) <= 2 * length tt + qw (q_items q))%nat.
Proof.
  intros q src tgt [|h tl]; cbn [chain length]; [lia|].
  pose proof (qw_add q h (NTrans src tgt tl)) as H. unfold nw in H. cbn [snd] in H. lia.
Qed.
Lemma qw_sched : forall time u k stat rec q v,
  (qw (q_items (n_sched delays tmax time u k stat rec q v)) <= 2 * length (delays u v k) + qw (q_items q))%nat.
Proof.
  intros time u k stat rec q v. unfold n_sched. destruct (delays u v k) as [|d dl] eqn:E; [lia|].
  set (tt := map (fun d0 => tadd time d0) (d :: dl)).
  assert (Hl : length tt = length (d :: dl)) by (unfold tt; apply map_length).
  destruct (N.eqb (stat v) stI).
  - pose proof (qw_chain q (Some u) v (filter (fun t => Qltb (rec v) t) tt)).
    pose proof (filter_len_le (fun t => Qltb (rec v) t) tt). lia.
  - pose proof (qw_chain q (Some u) v tt). lia.
Qed.
Lemma qw_sched_fold : forall time u k stat rec ws q,
  (qw (q_items (fold_left (n_sched delays tmax time u k stat rec) ws q)) <=
   2 * list_sum (map (fun w => length (delays u w k)) ws) + qw (q_items q))%nat.
Proof.
  intros time u k stat rec ws. induction ws as [|w ws IH]; intro q; cbn [fold_left map]; ls; [lia|].
  specialize (IH (n_sched delays tmax time u k stat rec q w)). pose proof (qw_sched time u k stat rec q w). lia.
Qed.

Lemma n_trans_ord : forall t src tgt fut s,
  ns_ord (n_trans g dur delays tmax t src tgt fut s) =
  if N.eqb (ns_stat s tgt) stS then fupdN (ns_ord s) tgt (S (ns_ord s tgt)) else ns_ord s.
Proof. intros. unfold n_trans. destruct (N.eqb (ns_stat s tgt) stS); reflexivity. Qed.

Lemma n_trans_w : forall t src tgt fut s,
  (qw (q_items (ns_q (n_trans g dur delays tmax t src tgt fut s))) <=
   qw (q_items (ns_q s)) + 2 * length fut +
   (if N.eqb (ns_stat s tgt) stS then 1 + 2 * natt tgt (ns_ord s tgt) else 0))%nat.
Proof.
  intros t src tgt fut s. unfold n_trans. destruct (N.eqb (ns_stat s tgt) stS); cbn [ns_q ns_rec].
  - set (k := ns_ord s tgt). set (rt := tadd t (dur tgt k)).
    set (q1 := if xlt rt tmax then q_add tmax (ns_q s) rt (NRec tgt) else ns_q s).
    set (st' := fupdN (ns_stat s) tgt stI). set (rc' := fupdN (ns_rec s) tgt rt).
    pose proof (qw_chain (fold_left (n_sched delays tmax t tgt k st' rc') (gadj g tgt) q1) src tgt
                  (filter (fun x => Qltb (rc' tgt) x) fut)) as H1.
    pose proof (filter_len_le (fun x => Qltb (rc' tgt) x) fut) as H2.
    pose proof (qw_sched_fold t tgt k st' rc' (gadj g tgt) q1) as H3.
    assert (H4 : (qw (q_items q1) <= 1 + qw (q_items (ns_q s)))%nat).
    { unfold q1. destruct (xlt rt tmax); [|lia]. pose proof (qw_add (ns_q s) rt (NRec tgt)) as H. unfold nw in H. cbn [snd] in H. lia. }
    unfold natt. fold k. lia.
  - pose proof (qw_chain (ns_q s) src tgt (filter (fun x => Qltb (ns_rec s tgt) x) fut)) as H1.
    pose proof (filter_len_le (fun x => Qltb (ns_rec s tgt) x) fut) as H2. lia.
Qed.

Lemma n_step_dec : forall s t c e rest, q_items (ns_q s) = (t, c, e) :: rest ->
  (forall src v fut, e = NTrans src v fut -> ns_stat s v = stS -> safe v (ns_ord s v)) ->
  (nM (n_event g dur delays tmax t e (npop s rest)) + 1 <= nM s)%nat.
Proof.
  intros s t c e rest Eq Hs. destruct e as [v|src v fut]; cbn [n_event].
  - unfold nM, n_recover. cbn [ns_q ns_ord npop q_items]. rewrite Eq. unfold qw, nw. cbn [map snd]; ls. lia.
  - pose proof (n_trans_w t src v fut (npop s rest)) as H. unfold nM. rewrite n_trans_ord.
    cbn [npop ns_stat ns_ord ns_q q_items] in *. rewrite Eq. unfold qw at 2, nw. cbn [map snd]; ls. fold nw. fold (qw rest).
    destruct (N.eqb_spec (ns_stat s v) stS) as [E|E]; [|lia].
    pose proof (pot_infect (ns_ord s) v (Hs src v fut eq_refl E)). lia.
Qed.

Section NTotal.
Variable P : nst -> Prop.
Hypothesis Pstep : forall s t c e rest, P s -> q_items (ns_q s) = (t, c, e) :: rest ->
  P (n_event g dur delays tmax t e (npop s rest)) /\
  (forall src v fut, e = NTrans src v fut -> ns_stat s v = stS -> safe v (ns_ord s v)).

Lemma n_loop_total : forall f s, P s -> (nM s <= f)%nat ->
  exists s', n_loop g dur delays tmax f s = Ok s' /\ P s'.
Proof.
  induction f as [|f IH]; intros s Hp Hm; cbn [n_loop].
  - assert (E : q_items (ns_q s) = []) by (apply qw_pos; unfold nM in Hm; lia). rewrite E. exists s. split; [reflexivity|exact Hp].
  - destruct (q_items (ns_q s)) as [|[[t c] e] rest] eqn:Eq; [exists s; split; [reflexivity|exact Hp]|].
    destruct (Pstep s t c e rest Hp Eq) as [Hp' Hs]. apply IH; [exact Hp'|].
    pose proof (n_step_dec s t c e rest Eq Hs).
    change (mkN (ns_stat s) (ns_rec s) (ns_ord s) (mkQ rest (q_ctr (ns_q s))) (ns_log s)) with (npop s rest). lia.
Qed.
End NTotal.

(* the queue fast_nonMarkov_SIS starts from: one source-less event per initial node *)
Lemma n_init_M : forall tmin i0, (nM (n_init g tmax tmin i0) <= 2 * length i0 + 2 * pot (fun _ => O))%nat.
Proof.
  intros tmin i0. unfold nM, n_init. cbn [ns_q ns_ord].
  assert (H : forall l q, (qw (q_items (fold_left (fun q u => q_add tmax q tmin (NTrans None u [])) l q)) <= 2 * length l + qw (q_items q))%nat).
  { induction l as [|u l IH]; intro q; cbn [fold_left length]; [lia|].
    specialize (IH (q_add tmax q tmin (NTrans None u []))). pose proof (qw_add q tmin (NTrans None u [])) as H. unfold nw in H. cbn [snd length] in H. lia. }
  specialize (H i0 q_empty). unfold q_empty in H at 2. cbn [q_items] in H. unfold qw in H at 2. cbn [map] in H. rewrite ls_nil in H. lia.
Qed.

End Term.
