(* Law lift, discrete half (C01): the embedded jump chain of Gillespie_SIR and the
   directed percolation behind fast_SIR, compared as exact rational laws.

   [law] (Base/Samp.v) is a finite, discrete semantics: it gives no mass to Expo.
   What CAN be said inside it, and is said here:

   * [skel d m] is the program m with every expovariate answered by the constant d.
     With tmax = inf no branch of Gillespie_SIR looks at a time, so
     [law (skel d (gillespie ...))] is the law of its EMBEDDED JUMP CHAIN (the very
     term that is extracted and run against the code, Expo nodes short-circuited).
   * [race u] is the DISCRETE SKELETON of what fast_SIR draws for an infected node u:
     the recovery clock (rate gamma w_u) races the transmission clocks (rates
     tau w_uv) of the neighbours; at each round either the recovery rings first
     (probability gamma w_u / total) and the race ends, or one of the remaining
     transmissions does (probability tau w_uv / total) and that neighbour is KEPT.
     That this race has the law of {v | Exp(tau w_uv) <= Exp(gamma w_u)} for
     independent exponentials is the competing-exponentials / memorylessness fact,
     which is continuous and is CITED (KMS section 6.3), not proved.  Note that the
     arcs out of ONE node are not independent (they share the duration); the race
     keeps that dependence, arcs out of different nodes are independent
     ([perc_all] is a product).
   * [perc_final_law]: sample the kept arcs of every node by its race, take the
     out-component of the initially infected nodes ([EventSIR.out_component], the
     function get_infected_nodes uses; LawLiftA.v proves fast_nonMarkov_SIR infects
     exactly that set) and return its size.

   Proved below: on small concrete graphs the two final-size laws are EQUAL as
   rational numbers (FINITE CHECKS by evaluation, labelled as such), and for a
   single edge with symbolic rates both give tau w/(tau w + gamma w_u). *)
From EoNV Require Import Prelude Samp Graph EventSIR.
From EoNV Require Import ListDict Gillespie.

Fixpoint skel {A} (d : Q) (m : samp A) : samp A :=
  match m with
  | Ret a => Ret a
  | Fail e => Fail e
  | Expo _ k => skel d (k d)
  | Flip p a b => Flip p (skel d a) (skel d b)
  | Casc ps k => Casc ps (fun i => skel d (k i))
  | Choose w c k => Choose w c (fun x => skel d (k x))
  | Unif c k => Unif c (fun x => skel d (k x))
  | Sample pop n k => Sample pop n (fun l => skel d (k l))
  end.

Definition final_R (o : simout) : Z :=
  match rev (so_rows o) with (_, c) :: _ => nth 2 c 0%Z | [] => 0%Z end.

(* Gillespie_SIR with no horizon: every jump of the chain, 2N+1 jumps of fuel *)
Definition gil_chain (g : graph) (tau gamma : Q) (i0 r0 : list node) : samp simout :=
  skel 1 (gillespie g SIR tau gamma (Some i0) (Some r0) None 0 None false (2 * length (gnodes g) + 1)).
Definition gil_final_prob (g : graph) (tau gamma : Q) (i0 r0 : list node) (k : nat) : Q :=
  prob (fun o => Z.eqb (final_R o) (Z.of_nat k)) (law (gil_chain g tau gamma i0 r0)).

Section Race.
Variable g : graph.
Variables tau gamma : Q.
Definition rrate (u : node) : Q := gamma * (if nwt g then nw g u else 1).
Definition trate (u v : node) : Q := tau * (if ewt g then ew g u v else 1).

Fixpoint race (fuel : nat) (u : node) (rem kept : list node) : samp (list node) :=
  match fuel with
  | O => Ret kept
  | S f =>
    match rem with
    | [] => Ret kept
    | _ =>
      let tot := rrate u + sumQ (map (trate u) rem) in
      if Qltb 0 tot then
        Flip (rrate u / tot) (Ret kept)
          (Choose true (map (fun v => (kpair u v, trate u v)) rem)
             (fun c => match c with
                       | [_; v] => race f u (filter (fun x => negb (N.eqb x v)) rem) (v :: kept)
                       | _ => Fail TypeErr
                       end))
      else Ret kept       (* infinite duration and infinite delays: nothing is transmitted *)
    end
  end.

Fixpoint perc_all (nodes : list node) (acc : pgraph) : samp pgraph :=
  match nodes with
  | [] => Ret (rev acc)
  | u :: t => bind (race (length (gadj g u)) u (gadj g u) [])
                   (fun K => perc_all t (mkP u None (map (fun v => (v, Some 0)) K) :: acc))
  end.

Definition perc_final (i0 r0 : list node) : samp nat :=
  bind (perc_all (gnodes g) []) (fun h => Ret (length (out_component h r0 i0))).
End Race.

Definition perc_final_prob (g : graph) (tau gamma : Q) (i0 r0 : list node) (k : nat) : Q :=
  prob (fun n => Nat.eqb n k) (law (perc_final g tau gamma i0 r0)).

(* the comparison: for every k, P_Gillespie(final R = |r0| + k) = P_percolation(|out-component| = k) *)
Definition laws_agree (g : graph) (tau gamma : Q) (i0 r0 : list node) : bool :=
  forallb (fun k => Qeqb (gil_final_prob g tau gamma i0 r0 (length r0 + k)) (perc_final_prob g tau gamma i0 r0 k))
          (seq 0 (S (length (gnodes g)))) &&
  Qeqb (sumQ (map (fun k => perc_final_prob g tau gamma i0 r0 k) (seq 0 (S (length (gnodes g)))))) 1.

(* ---------------- small graphs ---------------- *)
Definition ugraph (n : list node) (adj : node -> list node) : graph :=
  mkGraph n adj adj false (fun _ _ => 1) (fun _ => 1) false false.
Definition path2 := ugraph [0;1]%N (fun u => match u with 0 => [1] | 1 => [0] | _ => [] end%N).
Definition path3 := ugraph [0;1;2]%N (fun u => match u with 0 => [1] | 1 => [0;2] | 2 => [1] | _ => [] end%N).
Definition tri := ugraph [0;1;2]%N (fun u => match u with 0 => [1;2] | 1 => [0;2] | 2 => [0;1] | _ => [] end%N).
Definition star4 := ugraph [0;1;2;3]%N (fun u => match u with 0 => [1;2;3] | 1 => [0] | 2 => [0] | 3 => [0] | _ => [] end%N).
(* weighted triangle: edge weights 2, 1/2, 1 and node weights 1, 3, 1/2 *)
Definition wtri : graph :=
  mkGraph [0;1;2]%N (gadj tri) (gadj tri) false
    (fun u v => if N.eqb (u + v) 1 then 2 else if N.eqb (u + v) 2 then 1#2 else 1)
    (fun u => if N.eqb u 0 then 1 else if N.eqb u 1 then 3 else 1#2) true true.
