(* C08, tree exactness: (3b) + (3c) for EVERY graph whose paths i - j - k are all separated by listed cuts (every tree):
   on the intersection of the M_{j,U} and p >= 0 the pair-based right-hand side at the marginals of p equals the exact
   unclosed moment system open_rhs p. *)
From EoNV Require Import Prelude Vec VecP Graph Rhs2D Rhs2DP Rhs2 Rhs2GenP Master C08tG C08tS C08tR.
From Coq Require Import Lqa.

Section Cover.
Variables (G : graph) (nodelist : list node) (idx : node -> nat) (tr : node -> node -> Q) (rc : node -> Q).
Notation n_ := (nN nodelist).
Notation nd := (node_at nodelist).
Notation edge := (is_edge G nodelist).
Hypothesis W : pb_wfb G nodelist idx = true.

Definition cut := (nat * (nat -> bool))%type.
(* every two distinct positions i, k adjacent to j are on different sides of a listed cut at j *)
Definition coverb (cuts : list cut) : bool :=
  forallb (fun j => forallb (fun i => forallb (fun k =>
    if (negb (Nat.eqb i k) && (edge i j || edge j i) && (edge k j || edge j k))%bool
    then existsb (fun c => Nat.eqb (fst c) j && sepb G nodelist j (snd c) && xorb (snd c i) (snd c k)) cuts
    else true) (seq 0 n_)) (seq 0 n_)) (seq 0 n_).
Definition inMs (cuts : list cut) (p : state -> Q) : Prop := forall c, In c cuts -> inM nodelist (fst c) (snd c) p.

Lemma cover_spec cuts i j k : coverb cuts = true -> (i < n_)%nat -> (j < n_)%nat -> (k < n_)%nat -> i <> k ->
  (edge i j = true \/ edge j i = true) -> (edge k j = true \/ edge j k = true) ->
  exists U, In (j, U) cuts /\ U i <> U k.
Proof.
  intros Hc Hi Hj Hk Nik Ei Ek. unfold coverb in Hc. rewrite forallb_forall in Hc.
  assert (H1 := Hc j ltac:(apply in_seq; lia)). rewrite forallb_forall in H1.
  assert (H2 := H1 i ltac:(apply in_seq; lia)). rewrite forallb_forall in H2.
  assert (H3 := H2 k ltac:(apply in_seq; lia)). cbv beta in H3.
  replace (Nat.eqb i k) with false in H3 by (symmetry; apply Nat.eqb_neq; exact Nik).
  replace (edge i j || edge j i)%bool with true in H3 by (symmetry; apply orb_true_iff; exact Ei).
  replace (edge k j || edge j k)%bool with true in H3 by (symmetry; apply orb_true_iff; exact Ek).
  cbn [negb andb] in H3. apply existsb_exists in H3. destruct H3 as [[j' U] [Hin H]]. cbn [fst snd] in H.
  apply andb_prop in H. destruct H as [H Hx]. apply andb_prop in H. destruct H as [Hjj _]. apply Nat.eqb_eq in Hjj. subst j'.
  exists U. split; [exact Hin|]. destruct (U i), (U k); cbn in Hx; congruence.
Qed.

Lemma closure_from_cover cuts p a i j b k : coverb cuts = true -> nonneg nodelist p -> inMs cuts p ->
  (i < n_)%nat -> (j < n_)%nat -> (k < n_)%nat -> i <> k ->
  (edge i j = true \/ edge j i = true) -> (edge k j = true \/ edge j k = true) ->
  closure_at nodelist p a i j b k.
Proof.
  intros Hc Hp HM Hi Hj Hk Nik Ei Ek.
  destruct (cover_spec cuts i j k Hc Hi Hj Hk Nik Ei Ek) as [U [Hin HU]].
  assert (M := HM (j, U) Hin). cbn [fst snd] in M.
  destruct (U i) eqn:Ui, (U k) eqn:Uk; try congruence.
  - exact (proj1 (closure_on_M nodelist j U Hj p a i b k Hi Hk Ui Uk Hp M)).
  - exact (proj2 (closure_on_M nodelist j U Hj p b k a i Hk Hi Uk Ui Hp M)).
Qed.

Theorem closure_on_paths_on_M cuts p : coverb cuts = true -> nonneg nodelist p -> inMs cuts p ->
  closure_on_paths G nodelist idx p.
Proof.
  intros Hc Hp HM i j Hi Hj E. destruct (pb_wf_spec _ _ _ W) as [_ WF]. split.
  - intros w Hw. assert (Hw' := others_In _ _ _ Hw).
    destruct (nbr_edge G nodelist idx W j w Hj Hw') as [Hk Ejk].
    assert (Nik : i <> idx w).
    { intros ->. destruct (WF j Hj) as [_ [_ H3]]. destruct (H3 w Hw') as [_ B].
      unfold others in Hw. apply filter_In in Hw. destruct Hw as [_ Hn]. rewrite B, N.eqb_refl in Hn. discriminate Hn. }
    apply (closure_from_cover cuts); auto.
  - intros w Hw. assert (Hw' := others_In _ _ _ Hw).
    destruct (nbr_edge G nodelist idx W i w Hi Hw') as [Hk Eik].
    assert (Nkj : idx w <> j).
    { intros Ej. destruct (WF i Hi) as [_ [_ H3]]. destruct (H3 w Hw') as [_ B].
      unfold others in Hw. apply filter_In in Hw. destruct Hw as [_ Hn]. rewrite <- B, Ej, N.eqb_refl in Hn. discriminate Hn. }
    split; apply (closure_from_cover cuts); auto.
Qed.

(* (3b) + (3c), every graph with a cut cover *)
Theorem closed_eq_open_on_M cuts p t : coverb cuts = true -> nonneg nodelist p -> inMs cuts p ->
  veq (dSIR_pair_based G nodelist idx tr rc (marginals G nodelist p) t) (open_rhs G nodelist idx tr rc p).
Proof.
  intros Hc Hp HM. apply (closed_eq_open G nodelist idx tr rc W p t). apply (closure_on_paths_on_M cuts); assumption.
Qed.
End Cover.
