(* Event-driven SIR, cross-cutting properties, part 4 (C09): the transmissions list of
   a run is causally valid and complete, for every tie policy. *)
From EoNV Require Import Prelude Samp Graph EventSIR EventSIRP EventSIRInv EventSIRMain EventSIRChar EventSIRTop EventSIRPred.
From EoNV Require Import Investigation EventSIRLog EventSIRRows EventSIRTraj EventSIRC04.
Require Import Lqa.

Definition txl := list (Q * option node * node).
Definition tx_time (x : Q * option node * node) : Q := fst (fst x).
Definition tx_src (x : Q * option node * node) : option node := snd (fst x).
Definition tx_tgt (x : Q * option node * node) : node := snd x.

(* following sources backwards ends at a source-less entry *)
Inductive rooted (txs : txl) : node -> Prop :=
| rooted_init : forall t v, In (t, None, v) txs -> rooted txs v
| rooted_step : forall t u v, In (t, Some u, v) txs -> rooted txs u -> rooted txs v.

Lemma rooted_incl : forall (l l' : txl), (forall x, In x l -> In x l') -> forall v, rooted l v -> rooted l' v.
Proof.
  intros l l' H v Hr. induction Hr as [t v Hin|t u v Hin Hu IH].
  - eapply rooted_init; eauto.
  - eapply rooted_step; eauto.
Qed.

Lemma enabledb_snoc : forall evs st e, enabledb st evs = true ->
  (if N.eqb (ev_s e) stI then N.eqb (replay st evs (ev_u e)) stS
   else N.eqb (ev_s e) stR && N.eqb (replay st evs (ev_u e)) stI) = true ->
  enabledb st (evs ++ [e]) = true.
Proof.
  induction evs as [|x evs IH]; intros st e H He.
  - cbn [app enabledb]. cbn [replay fold_left] in He. rewrite He. reflexivity.
  - cbn [app enabledb] in *. apply andb_prop in H. destruct H as [H1 H2]. rewrite H1. cbn [andb].
    apply IH; auto.
Qed.

Lemma filter_rev : forall (A : Type) (p : A -> bool) l, rev (filter p l) = filter p (rev l).
Proof.
  intros A p. induction l as [|x l IH]; [reflexivity|]. cbn [rev filter]. rewrite filter_app, <- IH. cbn [filter].
  destruct (p x); [reflexivity|rewrite app_nil_r; reflexivity].
Qed.

Section C09.
Variable g : graph.
Variable tmax : xtime.
Variable delay : node -> node -> xtime.
Variable dur : node -> xtime.
Variable tmin : Q.
Variables i0 r0 : list node.

Hypothesis Hdelay : forall u v d, In u (gnodes g) -> In v (gadj g u) -> delay u v = Some d -> 0 <= d.
Hypothesis Hdur : forall u d, In u (gnodes g) -> dur u = Some d -> 0 <= d.
Hypothesis Hadj : forall u, In u (gnodes g) -> NoDup (gadj g u).
Hypothesis Hdisj : forall u, In u i0 -> ~ In u r0.
Hypothesis Htmin : ltmax tmax tmin.
Hypothesis Hgn : NoDup (gnodes g).
Hypothesis Hi0g : forall u, In u i0 -> In u (gnodes g).
Hypothesis Hadjg : forall u v, In u (gnodes g) -> In v (gadj g u) -> In v (gnodes g).
Hypothesis Hr0nd : NoDup r0.
Hypothesis Hr0g : forall u, In u r0 -> In u (gnodes g).
Hypothesis Hi0nd : NoDup i0.

Notation INV := (Inv g tmax delay dur tmin i0 r0).
Notation XINV := (XI g tmax tmin i0 r0).
Notation ST00 := (st00 r0).
Notation ROW00 := (row00 g tmin r0).
Notation SOUND := (sound_log g delay dur tmin i0 r0).
Notation JUST := (justified g delay dur tmin i0 r0).

(* u is infectious at t in the closed sense: infected at tu <= t, and t <= its recovery
   time rec_time[u] = tu + dur u (a transmission at exactly the recovery time counts) *)
Definition closed_infectious (sF : est) (u : node) (tu t : Q) : Prop :=
  tu <= t /\ rect sF u = Some (xadd tu (dur u)) /\ xleb (Some t) (xadd tu (dur u)) = true.

Record tx_valid (sF : est) (evs : list event) (txs : txl) : Prop := {
  (* a sourced entry goes along an edge u -> v; u has its own, EARLIER, entry (tu, _, u);
     the entry is dated tu + delay u v, within u's closed infectious interval *)
  tv_sourced : forall a t u v b, txs = a ++ (t, Some u, v) :: b ->
     In u (gnodes g) /\ In v (gadj g u) /\
     exists tu su d, In (tu, su, u) a /\ delay u v = Some d /\ t == tu + d /\ closed_infectious sF u tu t;
  (* the target was never infected before, is not initially recovered; the entry is before tmax *)
  tv_target : forall a t s v b, txs = a ++ (t, s, v) :: b ->
     ~ In v r0 /\ ~ In v (map tx_tgt a) /\ In v (gnodes g) /\ ltmax tmax t;
  (* one entry per infection event of the run: same times, same nodes, same order ... *)
  tv_events : map (fun x => (tx_time x, tx_tgt x, stI)) txs = filter is_inf evs;
  (* ... and replaying the run's events, every infection hits a node that is susceptible just
     before it, every recovery an infectious one *)
  tv_enabled : enabledb ST00 evs = true;
  (* completeness: a node that is not initially recovered ends up non-susceptible iff it has an entry *)
  tv_complete : forall v, ~ In v r0 -> (stat sF v <> stS <-> In v (map tx_tgt txs));
  (* source-less entries: exactly the initial nodes, at tmin *)
  tv_sourceless : forall t v, In (t, None, v) txs -> In v i0 /\ t = tmin;
  tv_initial : forall v, In v i0 -> In (tmin, None, v) txs;
  (* nobody is infected twice; times never decrease; every chain of sources ends at an initial node *)
  tv_once : NoDup (map tx_tgt txs);
  tv_sorted : forall a x b, txs = a ++ x :: b -> forall y, In y a -> tx_time y <= tx_time x;
  tv_after : forall x, In x txs -> tmin <= tx_time x;
  tv_rooted : forall t s v, In (t, s, v) txs -> rooted txs v /\ exists r, In r i0 /\ rooted txs r
}.

Lemma sound_suffix : forall l1 x l2, SOUND (l1 ++ x :: l2) -> SOUND (x :: l2).
Proof.
  induction l1 as [|[[t s] v] l1 IH]; intros x l2 H; [exact H|].
  cbn [app sound_log] in H. destruct H as [_ H]. apply IH. exact H.
Qed.

Lemma sound_rooted : forall l, SOUND l -> forall t s v, In (t, s, v) l -> rooted l v.
Proof.
  induction l as [|[[t1 s1] v1] l IH]; intros Hs t s v Hin; [destruct Hin|].
  cbn [sound_log] in Hs. destruct Hs as [Hj Hs].
  assert (Hsub : forall x, In x l -> In x ((t1, s1, v1) :: l)) by (intros; right; auto).
  destruct Hin as [E|Hin].
  - inversion E; subst t1 s1 v1. destruct s as [u|].
    + destruct Hj as [tu [su [d [Hu _]]]]. apply (rooted_step _ t u v); [left; reflexivity|].
      apply (rooted_incl l _ Hsub). apply (IH Hs tu su u Hu).
    + apply (rooted_init _ t v). left. reflexivity.
  - apply (rooted_incl l _ Hsub). apply (IH Hs t s v Hin).
Qed.

Lemma elock_enabled : forall evs txs rws st, elock g tmax ST00 ROW00 evs txs rws st ->
  enabledb ST00 (rev evs) = true.
Proof.
  intros evs txs rws st H. induction H as [|evs txs rws st t u H IH Hu Hug Ht Hx|evs txs rws st t src v H IH Hv Hvg Ht Hx].
  - reflexivity.
  - cbn [rev]. apply enabledb_snoc; [exact IH|]. cbn [ev_s ev_u fst snd].
    rewrite <- (elock_replay g tmax ST00 ROW00 _ _ _ _ H), Hu. reflexivity.
  - cbn [rev]. apply enabledb_snoc; [exact IH|]. cbn [ev_s ev_u fst snd].
    rewrite <- (elock_replay g tmax ST00 ROW00 _ _ _ _ H), Hv. reflexivity.
Qed.

(* transmission times never decrease (newest first: every older entry is not later) *)
Lemma elock_tx_sorted : forall evs txs rws st, elock g tmax ST00 ROW00 evs txs rws st ->
  snd ROW00 = census3 g ST00 ->
  (forall x, In x txs -> tx_time x <= hd_t rws) /\
  (forall a x b, txs = a ++ x :: b -> forall y, In y b -> tx_time y <= tx_time x).
Proof.
  intros evs txs rws st H H00.
  induction H as [|evs txs rws st t u H [I1 I2] Hu Hug Ht Hx|evs txs rws st t src v H [I1 I2] Hv Hvg Ht Hx].
  - split; [intros x []|]. intros a x b E. destruct a; discriminate E.
  - split; [|exact I2]. intros x Hin. pose proof (I1 x Hin). cbn [hd_t fst]. lra.
  - split.
    + intros x [<-|Hin]; cbn [hd_t fst tx_time]; [apply Qle_refl|]. pose proof (I1 x Hin). lra.
    + intros a x b E y Hy. destruct a as [|z a]; cbn [app] in E; inversion E; subst.
      * pose proof (I1 y Hy). cbn [tx_time fst]. lra.
      * eapply I2; eauto.
Qed.

Theorem final_tx_valid : forall sF cF evs, INV cF sF -> Inv2 tmin r0 sF -> XINV cF evs sF -> qu sF = [] ->
  tx_valid sF (rev evs) (rev (tlog sF)).
Proof.
  intros sF cF evs HI H2 HX Hq.
  pose proof (x_lock _ _ _ _ _ _ _ _ HX) as HL.
  pose proof (row00_census g tmin r0 Hgn Hr0nd Hr0g) as H00.
  pose proof (i_sound _ _ _ _ _ _ _ _ _ HI) as Hsound.
  pose proof (i_nodup _ _ _ _ _ _ _ _ _ HI) as Hnd.
  (* chronological split <-> newest-first split *)
  assert (Split : forall a x b, rev (tlog sF) = a ++ x :: b -> tlog sF = rev b ++ x :: rev a).
  { intros a x b E. rewrite <- (rev_involutive (tlog sF)), E, rev_app_distr. cbn [rev]. rewrite <- app_assoc. reflexivity. }
  constructor.
  - intros a t u v b E. apply Split in E.
    pose proof Hsound as Hs. rewrite E in Hs. apply sound_suffix in Hs. cbn [sound_log] in Hs. destruct Hs as [Hj _].
    destruct Hj as [tu [su [d [Hu [Hh Htd]]]]]. destruct Hh as [Hug [Hva [Hvr [Hd Hle]]]].
    split; [exact Hug|]. split; [exact Hva|]. exists tu, su, d.
    split; [apply in_rev; exact Hu|]. split; [exact Hd|]. split; [exact Htd|].
    pose proof (Hdelay u v d Hug Hva Hd) as Hd0.
    split; [lra|]. split.
    + apply (i_rect _ _ _ _ _ _ _ _ _ HI tu su u). rewrite E. apply in_or_app. right. right. exact Hu.
    + destruct (dur u) as [du|]; [|reflexivity]. cbn [xadd]. apply xleb_SS. apply xleb_SS in Hle. lra.
  - intros a t s v b E. apply Split in E.
    assert (Hin : In (t, s, v) (tlog sF)) by (rewrite E; apply in_or_app; right; left; reflexivity).
    split; [|split; [|split]].
    + intros Hr. destruct (i_r0 _ _ _ _ _ _ _ _ _ HI v Hr) as [_ Hn]. apply Hn. exists t, s. exact Hin.
    + rewrite E, map_app in Hnd. apply NoDup_app_r in Hnd. cbn [map] in Hnd. inversion Hnd as [|? ? Hni _]; subst.
      intros Hv. apply Hni. apply in_map_iff in Hv. destruct Hv as [y [Ey Hy]]. apply in_map_iff. exists y.
      split; [exact Ey|]. apply in_rev in Hy. exact Hy.
    + apply (elock_tx_nodes g tmax ST00 ROW00 _ _ _ _ HL t s v Hin).
    + apply (i_ltime _ _ _ _ _ _ _ _ _ HI t s v Hin).
  - destruct (elock_tx g tmax ST00 ROW00 _ _ _ _ HL) as [Etx _].
    rewrite map_rev, <- filter_rev. f_equal. exact Etx.
  - apply (elock_enabled _ _ _ _ HL).
  - intros v Hv. rewrite (i_stat _ _ _ _ _ _ _ _ _ HI v Hv). split.
    + intros [t [s Hin]]. apply in_map_iff. exists (t, s, v). split; [reflexivity|]. apply in_rev in Hin. exact Hin.
    + intros Hin. apply in_map_iff in Hin. destruct Hin as [[[t s] w] [E Hin]]. cbn in E. subst w.
      exists t, s. apply in_rev. exact Hin.
  - intros t v Hin. apply in_rev in Hin. split.
    + pose proof (sound_just g delay dur tmin i0 r0 _ Hsound t None v Hin) as Hj. apply Hj.
    + apply (x_tnone _ _ _ _ _ _ _ _ HX t v Hin).
  - intros v Hv. apply in_rev. rewrite rev_involutive.
    apply (fin_i0_tx g tmax delay dur tmin i0 r0 Htmin sF cF evs HI HX Hq v Hv).
  - unfold tx_tgt. rewrite map_rev. apply NoDup_rev. exact Hnd.
  - intros a x b E y Hy. apply Split in E.
    destruct (elock_tx_sorted _ _ _ _ HL H00) as [_ Hso]. apply (Hso (rev b) x (rev a) E y). apply in_rev in Hy. exact Hy.
  - intros [[t s] v] Hin. apply in_rev in Hin. cbn [tx_time fst].
    destruct (elock_times g tmin tmax ST00 ROW00 H00 eq_refl _ _ _ _ HL) as [_ [Hge _]].
    apply (Hge (t, v, stI)). apply (elock_tx_ev g tmax ST00 ROW00 _ _ _ _ HL t s v Hin).
  - intros t s v Hin. apply in_rev in Hin.
    assert (Hroot : rooted (rev (tlog sF)) v).
    { apply (rooted_incl (tlog sF)); [intros x Hx; apply in_rev; rewrite rev_involutive; exact Hx|].
      apply (sound_rooted _ Hsound t s v Hin). }
    split; [exact Hroot|].
    clear Hin. induction Hroot as [t1 v1 Hin1|t1 u1 v1 Hin1 Hu1 IH].
    + exists v1. split; [|eapply rooted_init; eauto].
      apply in_rev in Hin1. pose proof (sound_just g delay dur tmin i0 r0 _ Hsound t1 None v1 Hin1) as Hj. apply Hj.
    + exact IH.
Qed.

End C09.

(* C09 for fast_nonMarkov_SIR with table rules, every tie policy *)
Theorem esir_transmissions_valid : forall tb g delay dur i0 r0 tmin tmax fuel,
  esir_okb2 g delay dur i0 r0 tmin tmax = true -> (esir_fuel g i0 <= fuel)%nat ->
  exists sF evs out cs fd,
    esir_run tb g delay dur i0 r0 tmin tmax fuel = Ok sF /\
    esir_log tb g delay dur i0 r0 tmin tmax fuel = Ok evs /\
    esir_det tb g delay dur i0 r0 tmin tmax true fuel = Ok (out, cs) /\
    so_full out = Some fd /\
    tx_valid g tmax delay dur tmin i0 r0 sF evs (fd_trans fd).
Proof.
  intros tb g delay dur i0 r0 tmin tmax fuel Hok Hf.
  destruct (esir_final tb g delay dur i0 r0 tmin tmax fuel Hok Hf) as [sF [cF [evs [HL [HR [Hq [HI [H2 HX]]]]]]]].
  destruct (okb2_parts _ _ _ _ _ _ _ Hok) as [Hok1 [Hi [Hr Hrg]]].
  destruct (okb_parts g delay dur i0 r0 tmin tmax Hok1) as [H1 [H3 [H4 [H5 [H6 [H7 [H8 H9]]]]]]].
  destruct (fin_finish g tmax delay dur tmin i0 r0 sF cF HI H2 true) as [hs [Hfin _]].
  exists sF, (rev evs). eexists. eexists. eexists.
  split; [exact HR|]. split; [apply (esir_log_of _ _ _ _ _ _ _ _ _ _ _ HL)|].
  split; [unfold esir_det; rewrite HR; cbn [rbind]; exact Hfin|]. cbn [so_full].
  split; [reflexivity|]. cbn [fd_trans].
  apply (final_tx_valid g tmax delay dur tmin i0 r0 H6 H9 H1 Hr Hrg sF cF evs HI H2 HX Hq).
Qed.
