(* C08, tree clause: on the positions of a graph,
     tree_iff_connected_acyclic_pos   connected and acyclic (no simple cycle)  <=>  a tree peeling order exists;
     forest_iff_acyclic_pos           acyclic                                  <=>  a forest peeling order exists;
     tree_okb_iff                     tree_okb = true  <=>  side conditions, and acyclic: the executable test of C08tF.v
                                      accepts EXACTLY the forests (in particular every tree, and no graph with a cycle);
     connected_acyclic_exact          the conclusion of tree_exact_on_M for every connected acyclic simple graph. *)
From EoNV Require Import Prelude Vec VecP Graph Rhs2D Rhs2DP Rhs2 Rhs2GenP Master C08tG C08tS C08tT C08tR C08tA C08tO C08tC C08tF
  C08tTreeA C08tTreeB C08tTreeC C08tTreeD C08tTreeE C08tTreeG.
From Coq Require Import Lia List Arith Bool.
Import ListNotations.
Local Open Scope nat_scope.

Section Pos.
Variables (G : graph) (nodelist : list node).
Notation n_ := (nN nodelist).
Notation adj := (adjb G nodelist).
Notation edge := (is_edge G nodelist).

Definition pos_acyclic : Prop := acyclic adj (seq 0 n_).

Lemma order_same_elts ord : forest_orderb G nodelist ord = true -> same_elts ord (seq 0 n_).
Proof.
  intros FO x. destruct (ord_parts G nodelist ord FO) as [_ [B _]]. rewrite in_seq. split.
  - intros Hx. specialize (B x Hx). lia.
  - intros Hx. apply (ord_all G nodelist ord FO). lia.
Qed.
Lemma forest_order_intro ord : same_elts ord (seq 0 n_) -> forest_peelb adj ord = true -> forest_orderb G nodelist ord = true.
Proof.
  intros SE FP. unfold forest_orderb. rewrite FP, andb_true_r. apply same_elts_order; [exact SE|apply (forest_peel_nodup adj); exact FP].
Qed.
Lemma tree_order_intro ord : same_elts ord (seq 0 n_) -> tree_peelb adj ord = true -> tree_orderb G nodelist ord = true.
Proof.
  intros SE TP. unfold tree_orderb. rewrite TP, andb_true_r.
  apply same_elts_order; [exact SE|apply (forest_peel_nodup adj); apply tree_forest_peel; exact TP].
Qed.

Theorem forest_iff_acyclic_pos : noloopb G nodelist = true ->
  (pos_acyclic <-> exists ord, forest_orderb G nodelist ord = true).
Proof.
  intros NL. unfold pos_acyclic.
  rewrite (forest_iff_acyclic adj (adjb_sym G nodelist) (seq 0 n_) (seq_NoDup _ _) (noloop_irrefl G nodelist NL)). split.
  - intros [ord [SE FP]]. exists ord. apply forest_order_intro; assumption.
  - intros [ord FO]. exists ord. split; [apply order_same_elts; exact FO|apply (ord_parts G nodelist ord FO)].
Qed.
Theorem tree_iff_connected_acyclic_pos : noloopb G nodelist = true ->
  ((pos_connected G nodelist /\ pos_acyclic) <-> exists ord, tree_orderb G nodelist ord = true).
Proof.
  intros NL. unfold pos_acyclic, pos_connected.
  rewrite (tree_iff_connected_acyclic adj (adjb_sym G nodelist) (seq 0 n_) (seq_NoDup _ _) (noloop_irrefl G nodelist NL)). split.
  - intros [ord [SE TP]]. exists ord. apply tree_order_intro; assumption.
  - intros [ord TO]. exists ord. split; [apply order_same_elts; apply tree_forest_order; exact TO|].
    unfold tree_orderb in TO. apply andb_prop in TO. apply TO.
Qed.

(* ---- the converse of forest_tree_okb: an accepted graph is acyclic ---- *)
(* a separated side is constant along walks that avoid j *)
Lemma sep_reach j U a b : sepb G nodelist j U = true -> reach adj (seq 0 n_) j a b -> a <> j -> a < n_ -> U a = U b.
Proof.
  intros Sep H. induction H as [a|a c b E Nc Ic _ IH]; intros Na Ha; [reflexivity|]. apply in_seq in Ic.
  rewrite <- IH by (assumption || lia). unfold sepb in Sep. rewrite forallb_forall in Sep.
  assert (S1 := Sep a ltac:(apply in_seq; lia)). rewrite forallb_forall in S1. specialize (S1 c ltac:(apply in_seq; lia)).
  assert (S2 := Sep c ltac:(apply in_seq; lia)). rewrite forallb_forall in S2. specialize (S2 a ltac:(apply in_seq; lia)).
  cbv beta in S1, S2. apply Nat.eqb_neq in Na, Nc. rewrite Na, Nc in S1, S2. cbn [orb] in S1, S2.
  unfold adjb in E. destruct (U a) eqn:Ua, (U c) eqn:Uc; try reflexivity; cbn [negb orb] in S1, S2; exfalso.
  - apply andb_prop in S1. destruct S1 as [X Y]. apply negb_true_iff in X, Y. rewrite X, Y in E. discriminate E.
  - apply andb_prop in S2. destruct S2 as [X Y]. apply negb_true_iff in X, Y. rewrite X, Y in E. discriminate E.
Qed.
Lemma cover_no_bypass cuts : noloopb G nodelist = true -> coverb G nodelist cuts = true -> no_bypass adj (seq 0 n_).
Proof.
  intros NL C j i k Hj Hi Hk Nik Eij Ekj R. apply in_seq in Hj, Hi, Hk.
  assert (Nij : i <> j) by (intros ->; rewrite (adj_irrefl G nodelist NL j) in Eij by lia; discriminate Eij).
  unfold coverb in C. rewrite forallb_forall in C.
  assert (C1 := C j ltac:(apply in_seq; lia)). rewrite forallb_forall in C1.
  assert (C2 := C1 i ltac:(apply in_seq; lia)). rewrite forallb_forall in C2.
  assert (C3 := C2 k ltac:(apply in_seq; lia)). cbv beta in C3.
  apply Nat.eqb_neq in Nik. rewrite Nik in C3. change (adj i j) with (edge i j || edge j i)%bool in Eij.
  change (adj k j) with (edge k j || edge j k)%bool in Ekj. rewrite Eij, Ekj in C3. cbn [negb andb] in C3.
  apply existsb_exists in C3. destruct C3 as [[j' U] [_ H]]. cbn [fst snd] in H.
  apply andb_prop in H. destruct H as [H Hx]. apply andb_prop in H. destruct H as [Hjj Sep]. apply Nat.eqb_eq in Hjj. subst j'.
  rewrite (sep_reach j U i k Sep R Nij ltac:(lia)) in Hx. rewrite xorb_nilpotent in Hx. discriminate Hx.
Qed.

Theorem tree_okb_iff idx : tree_okb G nodelist idx = true <->
  (pb_wfb G nodelist idx = true /\ noloopb G nodelist = true /\ exists ord, forest_orderb G nodelist ord = true).
Proof.
  split.
  - intros OK. unfold tree_okb in OK. apply andb_prop in OK. destruct OK as [H C]. apply andb_prop in H. destruct H as [H _].
    apply andb_prop in H. destruct H as [W NL]. split; [exact W|]. split; [exact NL|].
    apply (forest_iff_acyclic_pos NL). unfold pos_acyclic. apply acyclic_of_no_bypass; [apply adjb_sym|].
    apply (cover_no_bypass _ NL C).
  - intros [W [NL [ord FO]]]. apply (forest_tree_okb G nodelist idx ord W NL FO).
Qed.
End Pos.

Theorem connected_acyclic_accepted G : wf_graphb G = true -> pos_connected G (gnodes G) -> pos_acyclic G (gnodes G) ->
  tree_okb G (gnodes G) (pos_in (gnodes G)) = true.
Proof.
  intros W Con AC. destruct (wf_pb_wfb G W) as [A B].
  destruct (proj1 (tree_iff_connected_acyclic_pos G (gnodes G) B) (conj Con AC)) as [ord T].
  apply (tree_accepted_simple_graph G ord W T).
Qed.
Theorem connected_acyclic_exact G tr rc : wf_graphb G = true -> pos_connected G (gnodes G) -> pos_acyclic G (gnodes G) ->
  let nodelist := gnodes G in let idx := pos_in (gnodes G) in
  forall p t, nonneg nodelist p -> inMs nodelist (branch_cuts G nodelist) p ->
  veq (g_dSIR_pair_based (marginals G nodelist p) t G nodelist idx tr rc)
      (marginals G nodelist (master_rhs G nodelist idx tr rc p)).
Proof.
  intros W Con AC. destruct (wf_pb_wfb G W) as [A B].
  destruct (proj1 (tree_iff_connected_acyclic_pos G (gnodes G) B) (conj Con AC)) as [ord T].
  apply (tree_exact_simple_graph G ord tr rc W T).
Qed.
