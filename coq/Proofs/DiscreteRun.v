(* The discrete-time simulators under ARBITRARY rules (any sampler programs for
   test_transmission and random.choice, hence any table of outcomes and any draw script),
   with or without test_recovery, both return modes: every reachable result of
   discrete_SIR is a [drun] -- a chronological sequence of status maps, one per unit step
   from tmin, each obtained from the previous one by legal moves only (S->I next to an
   infectious node, I->R), whose censuses are the returned rows, whose per-node changes
   are the node histories and whose S->I moves are the sourced transmissions.
   Part A: the contact loop and random.choice loop for arbitrary rules (reach semantics).
   Part B: the relational specification [drun].
   Part C: one step of discrete_SIR; the loop; the theorem.  (basic_discrete_SIS: DiscreteRunS.v) *)
From EoNV Require Import Prelude Samp Graph Discrete DiscreteP SampP DiscreteChk.
From EoNV Require Gillespie GillespieP.
From Coq Require Import Permutation.

Notation kSIR := Gillespie.SIR.
Notation kSIS := Gillespie.SIS.

(* ------------------------------------------------------------------ *)
(* Part A                                                               *)

Lemma reach_ret_inv : forall (A : Type) (a b : A), reach (Ret a) b -> a = b.
Proof. intros A a b H. inversion H. reflexivity. Qed.

Lemma lenZ_nil : forall A, lenZ (@nil A) = 0%Z.
Proof. reflexivity. Qed.
Lemma lenZ_app : forall A (l l' : list A), lenZ (l ++ l') = (lenZ l + lenZ l')%Z.
Proof. intros. unfold lenZ. rewrite app_length. lia. Qed.

Definition cspec (cs : list (node * node)) (c c' : cst) : Prop :=
  exists added,
    c_new c' = added ++ c_new c /\
    (forall v, c_sus c' v = c_sus c v && negb (mem v added)) /\
    c_nS c' = (c_nS c - lenZ added)%Z /\
    NoDup added /\
    (forall v, In v added -> c_sus c v = true /\ exists u, In (u, v) cs).

Definition infok (P : node -> node -> Prop) (inf : list (node * list node)) : Prop :=
  Forall (fun e => snd e <> [] /\ forall u, In u (snd e) -> P u (fst e)) inf.

Lemma inf_append_keys : forall inf v u, map fst (inf_append inf v u) = map fst inf.
Proof.
  intros inf v u. unfold inf_append. rewrite map_map. apply map_ext. intro e. cbv beta.
  destruct (N.eqb _ v); reflexivity.
Qed.

Lemma inf_append_ok : forall P inf v u, infok P inf -> P u v -> infok P (inf_append inf v u).
Proof.
  intros P inf v u H Hp. unfold infok, inf_append in *. rewrite Forall_forall in *. intros e He.
  apply in_map_iff in He. destruct He as [e0 [E He0]]. specialize (H e0 He0). destruct H as [H1 H2].
  destruct (N.eqb_spec (fst e0) v) as [Ev|Ev]; subst e; cbn [fst snd].
  - split.
    + intro H. apply app_eq_nil in H. destruct H as [_ H]. discriminate.
    + intros x Hx. apply in_app_or in Hx. destruct Hx as [Hx|[Hx|[]]]; [apply H2; exact Hx|]. subst x. rewrite Ev. exact Hp.
  - split; assumption.
Qed.

Section CLoop.
Variable R : rules.
Variable full : bool.

Lemma cloop_reach : forall k age cs c c', reach (cloop R full k age cs c) c' -> cspec cs c c'.
Proof.
  intros k age cs. induction cs as [|[u v] cs IH]; intros c c' H.
  - cbn [cloop] in H. apply reach_ret_inv in H. subst c'. exists []. split; [reflexivity|]. split.
    + intro x. cbn. rewrite andb_true_r. reflexivity.
    + split; [rewrite lenZ_nil; lia|]. split; [constructor|intros x []].
  - cbn [cloop] in H. destruct (c_sus c v) eqn:Es.
    + apply reach_bind in H. destruct H as [b [_ H]]. destruct b; apply IH in H;
        destruct H as [added [E1 [E2 [E3 [E4 E5]]]]]; cbn [c_new c_sus c_nS] in *.
      * exists (added ++ [v]). split; [rewrite E1, <- app_assoc; reflexivity|]. split.
        { intro x. rewrite E2. unfold fupdN. rewrite mem_app. cbn [mem existsb]. rewrite orb_false_r.
          destruct (N.eqb x v); destruct (c_sus c x); destruct (mem x added); reflexivity. }
        split; [rewrite E3, lenZ_app; unfold lenZ; cbn [length]; lia|]. split.
        { apply NoDup_app_disj; [exact E4|constructor; [intros []|constructor]|].
          intros x Hx [Hv|[]]. subst x. destruct (E5 v Hx) as [Hs _]. unfold fupdN in Hs. rewrite N.eqb_refl in Hs. discriminate. }
        intros x Hx. apply in_app_or in Hx. destruct Hx as [Hx|[Hx|[]]].
        { destruct (E5 x Hx) as [Hs [w Hw]]. unfold fupdN in Hs. destruct (N.eqb x v); [discriminate|].
          split; [exact Hs|]. exists w. right. exact Hw. }
        { subst x. split; [exact Es|]. exists u. left. reflexivity. }
      * exists added. split; [exact E1|]. split; [exact E2|]. split; [exact E3|]. split; [exact E4|].
        intros x Hx. destruct (E5 x Hx) as [Hs [w Hw]]. split; [exact Hs|]. exists w. right. exact Hw.
    + assert (G : forall c1, c_sus c1 = c_sus c -> c_new c1 = c_new c -> c_nS c1 = c_nS c -> cspec cs c1 c' -> cspec ((u, v) :: cs) c c').
      { intros c1 H1 H2 H3 [added [E1 [E2 [E3 [E4 E5]]]]]. rewrite H1, H2, H3 in *. exists added.
        split; [exact E1|]. split; [exact E2|]. split; [exact E3|]. split; [exact E4|].
        intros x Hx. destruct (E5 x Hx) as [Hs [w Hw]]. split; [exact Hs|]. exists w. right. exact Hw. }
      destruct (full && mem v (c_new c)).
      * apply reach_bind in H. destruct H as [b [_ H]]. destruct b; apply IH in H; eapply G; try exact H; reflexivity.
      * apply IH in H. eapply G; try exact H; reflexivity.
Qed.

Lemma cloop_reach_inf : forall (P : node -> node -> Prop) k age cs c c',
  (forall u v, In (u, v) cs -> P u v) -> reach (cloop R full k age cs c) c' ->
  infok P (c_inf c) -> map fst (c_inf c) = rev (c_new c) ->
  infok P (c_inf c') /\ map fst (c_inf c') = rev (c_new c').
Proof.
  intros P k age cs. induction cs as [|[u v] cs IH]; intros c c' Hcs H Hok Hk.
  - cbn [cloop] in H. apply reach_ret_inv in H. subst c'. split; assumption.
  - assert (Hcs' : forall a b, In (a, b) cs -> P a b) by (intros a b Hab; apply Hcs; right; exact Hab).
    assert (Puv : P u v) by (apply Hcs; left; reflexivity).
    cbn [cloop] in H. destruct (c_sus c v).
    + apply reach_bind in H. destruct H as [b [_ H]]. destruct b; apply (IH _ _ Hcs') in H; try exact H; cbn [c_inf c_new]; try assumption.
      * unfold infok. apply Forall_app. split; [exact Hok|]. constructor; [|constructor]. cbn [fst snd].
        split; [discriminate|]. intros x [Hx|[]]. subst x. exact Puv.
      * rewrite map_app, Hk. cbn [map fst rev]. reflexivity.
    + destruct (full && mem v (c_new c)).
      * apply reach_bind in H. destruct H as [b [_ H]]. destruct b; apply (IH _ _ Hcs') in H; try exact H; cbn [c_inf c_new]; try assumption.
        { apply inf_append_ok; assumption. }
        { rewrite inf_append_keys. exact Hk. }
      * apply (IH _ _ Hcs') in H; assumption.
Qed.

(* random.choice returns one of the candidates *)
Definition pick_sound : Prop := forall k v c s, reach (r_pick R k v c) s -> In s c.

Lemma picks_reach : pick_sound -> forall k t inf tl pl r, reach (picks R k t inf tl pl) r ->
  exists ents : list tx, fst r = rev ents ++ tl /\ map tx_v ents = map fst inf /\
    forall e, In e ents -> tx_t e = t /\ exists s c, tx_s e = Some s /\ In (tx_v e, c) inf /\ In s c.
Proof.
  intros Hp k t inf. induction inf as [|[v c] inf IH]; intros tl pl r H.
  - cbn [picks] in H. apply reach_ret_inv in H. subst r. exists []. split; [reflexivity|]. split; [reflexivity|intros e []].
  - cbn [picks] in H. apply reach_bind in H. destruct H as [s [Hs H]]. apply IH in H.
    destruct H as [ents [E1 [E2 E3]]]. exists ((t, Some s, v) :: ents). split.
    + rewrite E1. cbn [rev]. rewrite <- app_assoc. reflexivity.
    + split; [cbn [map tx_v snd fst]; rewrite E2; reflexivity|].
      intros e [He|He].
      * subst e. split; [reflexivity|]. exists s, c. split; [reflexivity|]. split; [left; reflexivity|apply (Hp k v c s Hs)].
      * destruct (E3 e He) as [Et [s' [c' [Es [Hin Hc]]]]]. split; [exact Et|]. exists s', c'. split; [exact Es|]. split; [right; exact Hin|exact Hc].
Qed.

End CLoop.

Lemma ninsert_In : forall x l y, In y (ninsert x l) <-> y = x \/ In y l.
Proof.
  intros x l y. induction l as [|h t IH]; cbn [ninsert].
  - cbn. intuition.
  - destruct (N.leb x h); cbn [In]; [intuition|]. rewrite IH. intuition.
Qed.
Lemma nsort_In : forall l y, In y (nsort l) <-> In y l.
Proof.
  induction l as [|x l IH]; intro y; [reflexivity|].
  cbn [nsort fold_right]. fold (nsort l). rewrite ninsert_In, IH. cbn [In]. intuition.
Qed.

Lemma det_pick_sound : forall tt pick, pick_sound (det_rules tt pick).
Proof.
  intros tt pick k v c s H. cbn [det_rules r_pick] in H.
  destruct (nth_error (nsort c) (Nat.modulo (pick k v) (length c))) as [x|] eqn:E; [|inversion H].
  apply reach_ret_inv in H. subst x. apply nth_error_In in E. apply (proj1 (nsort_In _ _)) in E. exact E.
Qed.

Lemma simple_pick_sound : forall p, pick_sound (simple_rules p).
Proof.
  intros p k v c s H. cbn [simple_rules r_pick] in H.
  inversion H as [| | | | | |c0 k0 x a Hin Hk|]; subst.
  apply in_map_iff in Hin. destruct Hin as [y [Ey Hy]]. subst x. unfold knode in Hk.
  apply reach_ret_inv in Hk. subst y. apply (proj1 (nsort_In _ _)) in Hy. exact Hy.
Qed.

(* ------------------------------------------------------------------ *)
(* Part B: the relational specification                                 *)

Definition hev := (Q * node * N)%type.

Section Spec.
Variable g : graph.
Variable kind : Gillespie.model_kind.
Variable onestep : bool.           (* SIR without test_recovery: infectious for exactly one step *)
Variable tmin : Q.
Variable tmax : xtime.
Variable full : bool.

Definition has_inf (st : node -> N) : Prop := exists u, In u (gnodes g) /\ st u = stI.

Definition infected_by_neighbour (st st' : node -> N) (v : node) : Prop :=
  st' v = stI /\ exists u, In u (gnodes g) /\ st u = stI /\ In v (gadj g u).

(* one time step: every node keeps its status or makes one legal move *)
Definition dstep (st st' : node -> N) : Prop := forall v, In v (gnodes g) ->
  match kind with
  | kSIR => (st v = stS /\ (st' v = stS \/ infected_by_neighbour st st' v))
         \/ (st v = stI /\ (st' v = stR \/ (onestep = false /\ st' v = stI)))
         \/ (st v = stR /\ st' v = stR)
  | kSIS => (st v = stS /\ (st' v = stS \/ infected_by_neighbour st st' v))
         \/ (st v = stI /\ st' v = stS)
  end.

(* the node-history appends of the step: exactly one entry (t+1, new status) for every node
   that changes (recorded when t + 1 <= tmax: always, for horizons of whole steps) *)
Definition hstep_ok (t : Q) (st st' : node -> N) (hnew : list hev) : Prop :=
  full = true -> le_x (t + 1) tmax = true -> forall u, In u (gnodes g) ->
    node_events u (rev hnew) = if N.eqb (st u) (st' u) then [] else [(t + 1, st' u)].

(* the transmissions appended by the step: one entry, dated t, for every node that turns
   S -> I, from a neighbour that is infectious at t *)
Definition tstep_ok (t : Q) (st st' : node -> N) (tnew : list tx) : Prop :=
  full = true ->
  NoDup (map tx_v tnew) /\
  (forall e, In e tnew -> tx_t e = t /\ In (tx_v e) (gnodes g) /\ st (tx_v e) = stS /\ st' (tx_v e) = stI /\
     exists u, tx_s e = Some u /\ In u (gnodes g) /\ st u = stI /\ In (tx_v e) (gadj g u)) /\
  (forall v, In v (gnodes g) -> st v = stS -> st' v = stI -> In v (map tx_v tnew)).

(* rows, history appends and transmissions newest first *)
Inductive drun (st0 : node -> N) (tl0 : list tx) : nat -> Q -> (node -> N) -> list row -> list hev -> list tx -> Prop :=
| drun0 : forall st, (forall v, In v (gnodes g) -> st v = st0 v) -> GillespieP.stat_ok kind st ->
    drun st0 tl0 O tmin st [(tmin, GillespieP.census g kind st)] [] tl0
| drunS : forall k t st rows hl tl st' hnew tnew,
    drun st0 tl0 k t st rows hl tl -> xlt t tmax = true -> has_inf st ->
    GillespieP.stat_ok kind st' -> dstep st st' -> hstep_ok t st st' hnew -> tstep_ok t st st' tnew ->
    drun st0 tl0 (S k) (t + 1) st' ((t + 1, GillespieP.census g kind st') :: rows) (hnew ++ hl) (tnew ++ tl).

Lemma drun_head : forall st0 tl0 k t st rows hl tl, drun st0 tl0 k t st rows hl tl ->
  exists rest, rows = (t, GillespieP.census g kind st) :: rest.
Proof. intros st0 tl0 k t st rows hl tl H. destruct H; eexists; reflexivity. Qed.

Lemma drun_stat_ok : forall st0 tl0 k t st rows hl tl, drun st0 tl0 k t st rows hl tl -> GillespieP.stat_ok kind st.
Proof. intros st0 tl0 k t st rows hl tl H. destruct H; assumption. Qed.

End Spec.

(* ------------------------------------------------------------------ *)
(* counting                                                             *)

Lemma filter_minus_len : forall (f : node -> bool) A l, NoDup l -> NoDup A ->
  (forall a, In a A -> In a l /\ f a = true) ->
  (length (filter (fun u => f u && negb (mem u A)) l) + length A = length (filter f l))%nat.
Proof.
  intros f A l Hl HA Hsub.
  pose proof (lenZ_filter_split (fun u => mem u A) (filter f l)) as H. unfold lenZ in H.
  rewrite !filter_filter in H.
  assert (E : length (filter (fun x => f x && mem x A) l) = length A).
  { rewrite <- filter_filter. apply GillespieP.count_mem; [exact HA|apply NoDup_filter; exact Hl|].
    intros a Ha. apply filter_In. apply Hsub. exact Ha. }
  rewrite E in H. lia.
Qed.

Lemma filter_len_ext : forall (f h : node -> bool) l, (forall x, In x l -> f x = h x) ->
  length (filter f l) = length (filter h l).
Proof. intros f h l H. rewrite (filter_ext_in f h l H). reflexivity. Qed.

Lemma filter_len_imp : forall (f h : node -> bool) l, (forall x, In x l -> f x = true -> h x = true) ->
  (length (filter f l) <= length (filter h l))%nat.
Proof.
  intros f h l H. induction l as [|x l IH]; [apply le_n|].
  assert (IH' := IH (fun y Hy => H y (or_intror Hy))).
  cbn [filter]. destruct (f x) eqn:Ef.
  - rewrite (H x (or_introl eq_refl) Ef). cbn [length]. lia.
  - destruct (h x); cbn [length]; lia.
Qed.

Lemma filter_len_or : forall (f h : node -> bool) l, (forall x, In x l -> f x && h x = false) ->
  length (filter (fun x => f x || h x) l) = (length (filter f l) + length (filter h l))%nat.
Proof.
  intros f h l H. induction l as [|x l IH]; [reflexivity|].
  assert (IH' := IH (fun y Hy => H y (or_intror Hy))). specialize (H x (or_introl eq_refl)).
  cbn [filter]. destruct (f x), (h x); cbn [orb length] in *; try discriminate; lia.
Qed.

(* ------------------------------------------------------------------ *)
(* Part C: discrete_SIR                                                 *)

Definition dstat (s : dst) (v : node) : N :=
  if d_sus s v then stS else if mem v (d_infs s) then stI else stR.

Definition init_tx (tmin : Q) (i0 : list node) : list tx := map (fun u => (tmin - 1, None, u)) i0.

Lemma rec_loop_spec : forall f full k next age us totR kept h rl,
  exists rl',
  rec_loop full f k next age us (totR, kept, h, rl) =
    ((totR + lenZ (filter (fun u => f u (age u)) us))%Z,
     rev (filter (fun u => negb (f u (age u))) us) ++ kept,
     (if full then rev (map (fun u => (next, u, stR)) (filter (fun u => f u (age u)) us)) else []) ++ h,
     rl').
Proof.
  intros f full k next age us. unfold rec_loop. induction us as [|u us IH]; intros totR kept h rl.
  - exists rl. cbn [fold_left filter]. rewrite lenZ_nil, Z.add_0_r. destruct full; reflexivity.
  - cbn [fold_left filter]. cbv beta iota. destruct (f u (age u)) eqn:Ef; cbn [negb].
    + destruct (IH (totR + 1)%Z kept (if full then (next, u, stR) :: h else h) ((k, u) :: rl)) as [rl' E].
      exists rl'. etransitivity; [exact E|].
      set (F := filter (fun u0 => f u0 (age u0)) us).
      assert (A1 : (totR + 1 + lenZ F)%Z = (totR + lenZ (u :: F))%Z) by (rewrite lenZ_cons; lia).
      assert (A2 : (if full then rev (map (fun u0 => (next, u0, stR)) F) else []) ++ (if full then (next, u, stR) :: h else h) =
                   (if full then rev (map (fun u0 => (next, u0, stR)) (u :: F)) else []) ++ h).
      { destruct full; [cbn [map rev]; rewrite <- app_assoc|]; reflexivity. }
      rewrite A1, A2. reflexivity.
    + destruct (IH totR (u :: kept) h ((k, u) :: rl)) as [rl' E]. exists rl'. etransitivity; [exact E|].
      cbn [rev]. rewrite <- app_assoc. reflexivity.
Qed.

Section SIR.
Variable g : graph.
Variable R : rules.
Variable trec : option (node -> nat -> bool).
Variable ord : nat -> list node -> list node.
Variable tmin : Q.
Variable tmax : xtime.
Variable full : bool.
Variables i0 r0 : list node.

Hypothesis Hnd : NoDup (gnodes g).
Hypothesis Hadj : forall u v, In u (gnodes g) -> In v (gadj g u) -> In v (gnodes g).
Hypothesis Hi0 : forall v, In v i0 -> In v (gnodes g).
Hypothesis Hr0 : forall v, In v r0 -> In v (gnodes g).
Hypothesis Hi0nd : NoDup i0.
Hypothesis Hr0nd : NoDup r0.
Hypothesis Hdisj : forall v, In v i0 -> ~ In v r0.
Hypothesis Hord : forall k l, Permutation (ord k l) l.
Hypothesis Hpick : full = true -> pick_sound R.

Definition onestep_of : bool := match trec with None => true | Some _ => false end.

Notation cnt := (GillespieP.cntst g).

Record SInv (s : dst) : Prop := {
  si_nd : NoDup (d_infs s);
  si_sub : forall v, In v (d_infs s) -> In v (gnodes g);
  si_dis : forall v, In v (d_infs s) -> d_sus s v = false;
  si_nS : d_nS s = cnt (dstat s) stS;
  si_totR : d_totR s = cnt (dstat s) stR
}.

Lemma dstat_ok : forall s, GillespieP.stat_ok kSIR (dstat s).
Proof. intros s x. unfold dstat. destruct (d_sus s x); [left; reflexivity|]. destruct (mem x (d_infs s)); [right; left|right; right]; reflexivity. Qed.

Lemma cnt_S : forall s, cnt (dstat s) stS = Z.of_nat (length (filter (d_sus s) (gnodes g))).
Proof.
  intro s. unfold GillespieP.cntst. f_equal. apply filter_len_ext. intros x _. unfold dstat.
  destruct (d_sus s x); [reflexivity|]. destruct (mem x (d_infs s)); reflexivity.
Qed.

Lemma cnt_I : forall s, NoDup (d_infs s) -> (forall v, In v (d_infs s) -> In v (gnodes g)) ->
  (forall v, In v (d_infs s) -> d_sus s v = false) -> cnt (dstat s) stI = lenZ (d_infs s).
Proof.
  intros s H1 H2 H3. unfold GillespieP.cntst, lenZ. f_equal.
  rewrite <- (GillespieP.count_mem (d_infs s) (gnodes g) H1 Hnd H2). apply filter_len_ext. intros x _.
  unfold dstat. destruct (mem x (d_infs s)) eqn:E.
  - apply dmem_In in E. rewrite (H3 x E). reflexivity.
  - destruct (d_sus s x); reflexivity.
Qed.

Lemma cnt_total : forall s, (cnt (dstat s) stS + cnt (dstat s) stI + cnt (dstat s) stR)%Z = order g.
Proof.
  intro s. unfold GillespieP.cntst, order. rewrite (GillespieP.partition3 (dstat s) (gnodes g) (dstat_ok s)). lia.
Qed.

(* what one pass of the while loop does to the state *)
Record shape (k : nat) (t : Q) (s s' : dst) (added recd kept : list node) (hnew : list hev) (tnew : list tx) : Prop := {
  sh_nd : NoDup added;
  sh_added : forall v, In v added -> d_sus s v = true /\ exists u, In u (d_infs s) /\ In v (gadj g u);
  sh_sus : forall v, d_sus s' v = d_sus s v && negb (mem v added);
  sh_nS : d_nS s' = (d_nS s - lenZ added)%Z;
  sh_part : forall u, In u (d_infs s) <-> In u recd \/ In u kept;
  sh_rnd : NoDup recd;
  sh_knd : NoDup kept;
  sh_rk : forall u, In u recd -> ~ In u kept;
  sh_len : (lenZ recd + lenZ kept)%Z = lenZ (d_infs s);
  sh_one : trec = None -> kept = [];
  sh_infs : d_infs s' = canon g (added ++ kept);
  sh_totR : d_totR s' = (d_totR s + lenZ recd)%Z;
  sh_rows : d_rows s' = (t + 1, [d_nS s'; lenZ (d_infs s'); d_totR s']) :: d_rows s;
  sh_hlog : d_hlog s' = hnew ++ d_hlog s;
  sh_hev : full = true -> le_x (t + 1) tmax = true -> forall u,
     let X := if mem u recd then [(t + 1, stR)] else [] in
     let Y := if mem u (canon g added) then [(t + 1, stI)] else [] in
     node_events u (rev hnew) = X ++ Y \/ node_events u (rev hnew) = Y ++ X;
  sh_tlog : d_tlog s' = tnew ++ d_tlog s;
  sh_tx : full = true -> (forall v, In v (map tx_v tnew) <-> In v added) /\ NoDup (map tx_v tnew) /\
     forall e, In e tnew -> tx_t e = t /\ exists u, tx_s e = Some u /\ In u (d_infs s) /\ In (tx_v e) (gadj g u)
}.

Lemma contacts_In : forall us u v, In (u, v) (contacts g us) <-> In u us /\ In v (gadj g u).
Proof.
  intros us u v. unfold contacts. rewrite in_flat_map. split.
  - intros [x [Hx H]]. apply in_map_iff in H. destruct H as [w [E Hw]]. injection E as E1 E2. subst x w. split; assumption.
  - intros [Hu Hv]. exists u. split; [exact Hu|]. apply in_map_iff. exists v. split; [reflexivity|exact Hv].
Qed.

Lemma canon_NoDup : forall l, NoDup (canon g l).
Proof. intro l. unfold canon. apply NoDup_filter. exact Hnd. Qed.

Lemma step_shape : forall k t s s', NoDup (d_infs s) ->
  reach (step g R trec ord tmax full k t s) s' ->
  exists added recd kept hnew tnew, shape k t s s' added recd kept hnew tnew.
Proof.
  intros k t s s' Hinfnd H. unfold step in H.
  set (us := ord k (d_infs s)) in *.
  assert (Pus : Permutation us (d_infs s)) by apply Hord.
  assert (Hus : forall u, In u us <-> In u (d_infs s)).
  { intro u. split; intro Hu; [eapply Permutation_in; [exact Pus|exact Hu]|eapply Permutation_in; [apply Permutation_sym; exact Pus|exact Hu]]. }
  assert (Husnd : NoDup us) by (apply (Permutation_NoDup (Permutation_sym Pus)); exact Hinfnd).
  apply reach_bind in H. destruct H as [c [Hc H]].
  pose proof (cloop_reach R full _ _ _ _ _ Hc) as [added [E1 [E2 [E3 [E4 E5]]]]].
  cbn [c_new c_sus c_nS] in E1, E2, E3, E5. rewrite app_nil_r in E1.
  destruct (cloop_reach_inf R full (fun u v => In (u, v) (contacts g us)) _ _ _ _ _ (fun u v Huv => Huv) Hc) as [Iok Ikeys];
    [constructor|reflexivity|]. rewrite E1 in Ikeys.
  apply reach_bind in H. destruct H as [tp [Htp H]].
  (* the transmissions *)
  assert (TX : exists tnew, fst tp = tnew ++ d_tlog s /\
     (full = true -> (forall v, In v (map tx_v tnew) <-> In v added) /\ NoDup (map tx_v tnew) /\
        forall e, In e tnew -> tx_t e = t /\ exists u, tx_s e = Some u /\ In u (d_infs s) /\ In (tx_v e) (gadj g u))).
  { destruct full eqn:Efull.
    - destruct (picks_reach R (Hpick eq_refl) _ _ _ _ _ _ Htp) as [ents [F1 [F2 F3]]].
      exists (rev ents). split; [exact F1|]. intros _.
      assert (K : forall v, In v (map tx_v (rev ents)) <-> In v added).
      { intro v. rewrite map_rev, <- in_rev, F2, Ikeys, <- in_rev. reflexivity. }
      split; [exact K|]. split.
      + rewrite map_rev, F2, Ikeys, rev_involutive. exact E4.
      + intros e He. apply in_rev in He. destruct (F3 e He) as [Et [u [cands [Es [Hin Hu]]]]].
        split; [exact Et|]. exists u. split; [exact Es|].
        unfold infok in Iok. rewrite Forall_forall in Iok. destruct (Iok _ Hin) as [_ Hsrc]. cbn [fst snd] in Hsrc.
        apply Hsrc in Hu. apply contacts_In in Hu. destruct Hu as [Hu Hv]. split; [apply Hus; exact Hu|exact Hv].
    - apply reach_ret_inv in Htp. subst tp. exists []. split; [reflexivity|]. intro Hf. discriminate. }
  destruct TX as [tnew [Etl Htx]].
  assert (Hadded : forall v, In v added -> d_sus s v = true /\ exists u, In u (d_infs s) /\ In v (gadj g u)).
  { intros v Hv. destruct (E5 v Hv) as [Hs [u Hu]]. split; [exact Hs|]. apply contacts_In in Hu. exists u. split; [apply Hus; apply Hu|apply Hu]. }
  destruct trec as [f|] eqn:Etrec.
  - (* with test_recovery *)
    set (h1 := if full && le_x (t + 1) tmax then rev (map (fun v => (t + 1, v, stI)) (canon g (c_new c))) ++ [] ++ d_hlog s else d_hlog s) in *.
    destruct (rec_loop_spec f full k (t + 1) (d_age s) us (d_totR s) [] h1 (l_r (d_logs s))) as [rl' Erl].
    rewrite Erl in H. apply reach_ret_inv in H. subst s'.
    set (recd := filter (fun u => f u (d_age s u)) us).
    set (kept := rev (filter (fun u => negb (f u (d_age s u))) us)).
    exists added, recd, kept.
    exists ((if full then rev (map (fun u => (t + 1, u, stR)) recd) else []) ++
            (if full && le_x (t + 1) tmax then rev (map (fun v => (t + 1, v, stI)) (canon g added)) else [])), tnew.
    constructor; cbn [d_sus d_infs d_nS d_totR d_rows d_hlog d_tlog].
    + exact E4.
    + exact Hadded.
    + exact E2.
    + exact E3.
    + intro u. rewrite <- Hus. unfold recd, kept. rewrite <- in_rev, !filter_In.
      destruct (f u (d_age s u)); cbn [negb]; intuition discriminate.
    + apply NoDup_filter. exact Husnd.
    + unfold kept. apply NoDup_rev. apply NoDup_filter. exact Husnd.
    + intros u Hr Hk. unfold recd, kept in *. apply in_rev in Hk. apply filter_In in Hr. apply filter_In in Hk.
      destruct Hr as [_ Hr]. destruct Hk as [_ Hk]. rewrite Hr in Hk. discriminate.
    + unfold kept, lenZ. rewrite rev_length. pose proof (lenZ_filter_split (fun u => f u (d_age s u)) us) as L.
      unfold lenZ in L. fold recd in L. rewrite (Permutation_length Pus) in L. lia.
    + intro X. rewrite Etrec in X. discriminate X.
    + rewrite E1, app_nil_r. reflexivity.
    + reflexivity.
    + rewrite E1, app_nil_r. reflexivity.
    + unfold h1. rewrite E1. destruct (full && le_x (t + 1) tmax); cbn [app]; rewrite <- app_assoc; reflexivity.
    + intros Hf Hle u. rewrite Hf, Hle. cbn [andb]. right.
      rewrite rev_app_distr, !rev_involutive, node_events_app.
      rewrite (node_events_map u (t + 1) stI (canon g added) (canon_NoDup added)).
      rewrite (node_events_map u (t + 1) stR recd) by (apply NoDup_filter; exact Husnd). reflexivity.
    + exact Etl.
    + exact Htx.
  - (* test_recovery = None *)
    apply reach_ret_inv in H. subst s'.
    exists added, us, [].
    exists (if full && le_x (t + 1) tmax then rev (map (fun v => (t + 1, v, stI)) (canon g added)) ++ rev (map (fun u => (t + 1, u, stR)) us) else []), tnew.
    constructor; cbn [d_sus d_infs d_nS d_totR d_rows d_hlog d_tlog].
    + exact E4.
    + exact Hadded.
    + exact E2.
    + exact E3.
    + intro u. split; [intro Hu; left; apply Hus; exact Hu|intros [Hu|[]]; apply Hus; exact Hu].
    + exact Husnd.
    + constructor.
    + intros u _ [].
    + rewrite lenZ_nil. unfold lenZ. rewrite (Permutation_length Pus). lia.
    + intros _. reflexivity.
    + rewrite E1, app_nil_r. reflexivity.
    + unfold lenZ. rewrite (Permutation_length Pus). reflexivity.
    + rewrite E1. reflexivity.
    + rewrite E1. destruct (full && le_x (t + 1) tmax); [rewrite <- app_assoc|]; reflexivity.
    + intros Hf Hle u. rewrite Hf, Hle. cbn [andb]. left.
      rewrite rev_app_distr, !rev_involutive, node_events_app.
      rewrite (node_events_map u (t + 1) stI (canon g added) (canon_NoDup added)).
      rewrite (node_events_map u (t + 1) stR us Husnd). reflexivity.
    + exact Etl.
    + exact Htx.
Qed.

Notation DRUN := (drun g kSIR onestep_of tmin tmax full (init_status i0 r0) (if full then rev (init_tx tmin i0) else [])).

Lemma shape_inv : forall k t s s' added recd kept hnew tnew,
  SInv s -> shape k t s s' added recd kept hnew tnew ->
  SInv s' /\ dstep g kSIR onestep_of (dstat s) (dstat s') /\
  d_rows s' = (t + 1, GillespieP.census g kSIR (dstat s')) :: d_rows s /\
  hstep_ok g tmax full t (dstat s) (dstat s') hnew /\ tstep_ok g full t (dstat s) (dstat s') tnew.
Proof.
  intros k t s s' added recd kept hnew tnew Hs Sh.
  destruct Hs as [Snd Ssub Sdis SnS StotR]. destruct Sh.
  assert (Haddsub : forall v, In v added -> In v (gnodes g)).
  { intros v Hv. destruct (sh_added0 v Hv) as [_ [u [Hu Hg]]]. apply Hadj with u; [apply Ssub; exact Hu|exact Hg]. }
  assert (Hkeptin : forall u, In u kept -> In u (d_infs s)) by (intros u Hu; apply sh_part0; right; exact Hu).
  assert (Hak : forall v, In v added -> ~ In v kept).
  { intros v Hv Hk. destruct (sh_added0 v Hv) as [Hsus _]. rewrite (Sdis v (Hkeptin v Hk)) in Hsus. discriminate. }
  assert (Hnd' : NoDup (added ++ kept)) by (apply NoDup_app_disj; assumption).
  assert (Hsub' : forall v, In v (added ++ kept) -> In v (gnodes g)).
  { intros v Hv. apply in_app_or in Hv. destruct Hv as [Hv|Hv]; [apply Haddsub; exact Hv|apply Ssub; apply Hkeptin; exact Hv]. }
  assert (Hinfs' : forall v, In v (d_infs s') <-> In v added \/ In v kept).
  { intro v. rewrite sh_infs0, canon_In, in_app_iff. split; [tauto|]. intro Hv. split; [apply Hsub'; apply in_or_app; exact Hv|exact Hv]. }
  assert (Hdis' : forall v, In v (d_infs s') -> d_sus s' v = false).
  { intros v Hv. rewrite sh_sus0. apply Hinfs' in Hv. destruct Hv as [Hv|Hv].
    - apply dmem_In in Hv. rewrite Hv. apply andb_false_r.
    - rewrite (Sdis v (Hkeptin v Hv)). reflexivity. }
  assert (Hnd2 : NoDup (d_infs s')) by (rewrite sh_infs0; apply canon_NoDup).
  assert (Hsub2 : forall v, In v (d_infs s') -> In v (gnodes g)) by (intros v Hv; rewrite sh_infs0 in Hv; apply canon_In in Hv; apply Hv).
  assert (HI' : cnt (dstat s') stI = lenZ (d_infs s')) by (apply cnt_I; assumption).
  assert (HI : cnt (dstat s) stI = lenZ (d_infs s)) by (apply cnt_I; assumption).
  assert (Hlen' : lenZ (d_infs s') = (lenZ added + lenZ kept)%Z).
  { rewrite sh_infs0. unfold lenZ. rewrite (NoDup_length_canon g (added ++ kept) Hnd Hnd' Hsub'), app_length. lia. }
  assert (HS' : cnt (dstat s') stS = (cnt (dstat s) stS - lenZ added)%Z).
  { rewrite !cnt_S. unfold lenZ.
    pose proof (filter_minus_len (d_sus s) added (gnodes g) Hnd sh_nd0) as L.
    rewrite (filter_len_ext (d_sus s') (fun u => d_sus s u && negb (mem u added)) (gnodes g)) by (intros x _; apply sh_sus0).
    rewrite <- L; [lia|]. intros a Ha. split; [apply Haddsub; exact Ha|apply sh_added0; exact Ha]. }
  pose proof (cnt_total s) as T. pose proof (cnt_total s') as T'.
  assert (HR' : d_totR s' = cnt (dstat s') stR) by (rewrite sh_totR0, StotR; lia).
  assert (HnS' : d_nS s' = cnt (dstat s') stS) by (rewrite sh_nS0, SnS; lia).
  split; [constructor; assumption|].
  assert (Hstat : forall v, In v (gnodes g) ->
     dstat s' v = if d_sus s v then (if mem v added then stI else stS) else if mem v kept then stI else stR).
  { intros v Hv. unfold dstat at 1. rewrite sh_sus0. destruct (d_sus s v) eqn:Es; cbn [andb].
    - destruct (mem v added) eqn:Ea; cbn [negb]; [|reflexivity].
      assert (M : mem v (d_infs s') = true) by (apply dmem_In; apply Hinfs'; left; apply dmem_In; exact Ea). rewrite M. reflexivity.
    - destruct (mem v kept) eqn:Ek.
      + assert (M : mem v (d_infs s') = true) by (apply dmem_In; apply Hinfs'; right; apply dmem_In; exact Ek). rewrite M. reflexivity.
      + assert (M : mem v (d_infs s') = false).
        { apply dmem_false. intro Hin. apply Hinfs' in Hin. destruct Hin as [Hin|Hin].
          - destruct (sh_added0 v Hin) as [Hsus _]. congruence.
          - apply dmem_In in Hin. congruence. }
        rewrite M. reflexivity. }
  assert (HstatI : forall u, In u (d_infs s) -> dstat s u = stI).
  { intros u Hu. unfold dstat. rewrite (Sdis u Hu). apply dmem_In in Hu. rewrite Hu. reflexivity. }
  split.
  { intros v Hv. cbn match. pose proof (Hstat v Hv) as E'.
    assert (E0 : dstat s v = if d_sus s v then stS else if mem v (d_infs s) then stI else stR) by reflexivity.
    destruct (d_sus s v) eqn:Es.
    - left. split; [exact E0|]. destruct (mem v added) eqn:Ea; [right|left; exact E'].
      split; [exact E'|]. apply dmem_In in Ea. destruct (sh_added0 v Ea) as [_ [u [Hu Hg]]].
      exists u. split; [apply Ssub; exact Hu|]. split; [apply HstatI; exact Hu|exact Hg].
    - destruct (mem v (d_infs s)) eqn:Ei.
      + right. left. split; [exact E0|]. destruct (mem v kept) eqn:Ek; [right|left; exact E'].
        split; [|exact E']. unfold onestep_of. destruct trec as [f|] eqn:Etr; [reflexivity|].
        rewrite (sh_one0 eq_refl) in Ek. discriminate.
      + right. right. split; [exact E0|]. destruct (mem v kept) eqn:Ek; [|exact E'].
        apply dmem_In in Ek. apply Hkeptin in Ek. apply dmem_In in Ek. congruence. }
  split.
  { rewrite sh_rows0. unfold GillespieP.census. rewrite HnS', HR', HI'. reflexivity. }
  split.
  { intros Hf Hle u Hu. specialize (sh_hev0 Hf Hle u). cbv zeta in sh_hev0.
    assert (E : (if mem u recd then [(t + 1, stR)] else []) ++ (if mem u (canon g added) then [(t + 1, stI)] else []) =
                if N.eqb (dstat s u) (dstat s' u) then [] else [(t + 1, dstat s' u)]).
    { rewrite (Hstat u Hu). replace (dstat s u) with (if d_sus s u then stS else if mem u (d_infs s) then stI else stR) by reflexivity.
      destruct (d_sus s u) eqn:Es.
      - assert (Mr : mem u recd = false).
        { apply dmem_false. intro Hin. assert (In u (d_infs s)) as Hi by (apply sh_part0; left; exact Hin). rewrite (Sdis u Hi) in Es. discriminate. }
        rewrite Mr. cbn [app]. destruct (mem u added) eqn:Ea.
        + assert (M : mem u (canon g added) = true) by (apply dmem_In; apply canon_In; split; [exact Hu|apply dmem_In; exact Ea]). rewrite M. reflexivity.
        + assert (M : mem u (canon g added) = false) by (apply dmem_false; intro Hin; apply canon_In in Hin; destruct Hin as [_ Hin]; apply dmem_In in Hin; congruence).
          rewrite M. reflexivity.
      - assert (M : mem u (canon g added) = false).
        { apply dmem_false. intro Hin. apply canon_In in Hin. destruct Hin as [_ Hin]. destruct (sh_added0 u Hin) as [Hsus _]. congruence. }
        rewrite M, app_nil_r. destruct (mem u (d_infs s)) eqn:Ei.
        + apply dmem_In in Ei. apply sh_part0 in Ei. destruct Ei as [Ei|Ei].
          * assert (Mk : mem u kept = false) by (apply dmem_false; apply sh_rk0; exact Ei).
            apply dmem_In in Ei. rewrite Ei, Mk. reflexivity.
          * assert (Mr : mem u recd = false) by (apply dmem_false; intro Hr; apply (sh_rk0 u Hr Ei)).
            apply dmem_In in Ei. rewrite Ei, Mr. reflexivity.
        + assert (Mr : mem u recd = false).
          { apply dmem_false. intro Hin. assert (In u (d_infs s)) as Hi by (apply sh_part0; left; exact Hin). apply dmem_In in Hi. congruence. }
          assert (Mk : mem u kept = false).
          { apply dmem_false. intro Hin. apply Hkeptin in Hin. apply dmem_In in Hin. congruence. }
          rewrite Mr, Mk. reflexivity. }
    destruct sh_hev0 as [G|G]; rewrite G; [exact E|]. rewrite <- E.
    destruct (mem u recd), (mem u (canon g added)) eqn:Ec; try reflexivity.
    exfalso. apply dmem_In in Ec. apply canon_In in Ec. destruct Ec as [_ Ec].
    destruct (sh_added0 u Ec) as [Hsus _].
    destruct (mem u recd) eqn:Er in E; [|].
    all: cbn in E; rewrite (Hstat u Hu) in E; unfold dstat in E; rewrite Hsus in E; apply dmem_In in Ec; rewrite Ec in E; cbn in E; discriminate. }
  { intro Hf. destruct (sh_tx0 Hf) as [K1 [K2 K3]]. split; [exact K2|]. split.
    - intros e He. destruct (K3 e He) as [Et [u [Es [Hu Hg]]]].
      assert (Ha : In (tx_v e) added) by (apply K1; apply in_map; exact He).
      destruct (sh_added0 _ Ha) as [Hsus _].
      split; [exact Et|]. split; [apply Haddsub; exact Ha|].
      split; [unfold dstat; rewrite Hsus; reflexivity|]. split.
      + rewrite (Hstat _ (Haddsub _ Ha)), Hsus. apply dmem_In in Ha. rewrite Ha. reflexivity.
      + exists u. split; [exact Es|]. split; [apply Ssub; exact Hu|]. split; [apply HstatI; exact Hu|exact Hg].
    - intros v Hv H1 H2. apply K1. rewrite (Hstat v Hv) in H2. unfold dstat in H1.
      destruct (d_sus s v); [|destruct (mem v (d_infs s)); discriminate].
      destruct (mem v added) eqn:Ea; [apply dmem_In; exact Ea|discriminate]. }
Qed.

Definition LInv (k : nat) (t : Q) (s : dst) : Prop :=
  SInv s /\ DRUN k t (dstat s) (d_rows s) (d_hlog s) (d_tlog s).

Lemma has_inf_nonempty : forall s, SInv s -> nonempty (d_infs s) = true -> has_inf g (dstat s).
Proof.
  intros s Hs Hne. destruct (d_infs s) as [|u l] eqn:E; [discriminate|]. exists u.
  assert (Hu : In u (d_infs s)) by (rewrite E; left; reflexivity).
  split; [apply (si_sub s Hs); exact Hu|]. unfold dstat. rewrite (si_dis s Hs u Hu). apply dmem_In in Hu. rewrite Hu. reflexivity.
Qed.

Lemma has_inf_inv : forall s, SInv s -> has_inf g (dstat s) -> nonempty (d_infs s) = true.
Proof.
  intros s Hs [u [Hu Hi]]. unfold dstat in Hi. destruct (d_sus s u); [discriminate|].
  destruct (mem u (d_infs s)) eqn:E; [|discriminate]. apply dmem_In in E. destruct (d_infs s); [destruct E|reflexivity].
Qed.

Lemma step_LInv : forall k t s s', LInv k t s -> nonempty (d_infs s) && xlt t tmax = true ->
  reach (step g R trec ord tmax full k t s) s' -> LInv (S k) (t + 1) s'.
Proof.
  intros k t s s' [Hs Hrun] Hc H. apply andb_true_iff in Hc. destruct Hc as [Hne Hlt].
  destruct (step_shape k t s s' (si_nd s Hs) H) as [added [recd [kept [hnew [tnew Sh]]]]].
  destruct (shape_inv k t s s' added recd kept hnew tnew Hs Sh) as [Hs' [Hst [Hrows [Hh Ht]]]].
  split; [exact Hs'|]. rewrite Hrows, (sh_hlog _ _ _ _ _ _ _ _ _ Sh), (sh_tlog _ _ _ _ _ _ _ _ _ Sh).
  eapply drunS; [exact Hrun|exact Hlt|apply has_inf_nonempty; assumption|apply dstat_ok|exact Hst|exact Hh|exact Ht].
Qed.

Lemma dloop_reach : forall fuel k t s out, LInv k t s ->
  reach (dloop g R trec ord tmin tmax full i0 r0 fuel k t s) out ->
  exists K tK sK, LInv K tK sK /\ nonempty (d_infs sK) && xlt tK tmax = false /\ out = finish g tmin full i0 r0 sK.
Proof.
  induction fuel as [|f IH]; intros k t s out Hinv H; cbn [dloop] in H;
    destruct (nonempty (d_infs s) && xlt t tmax) eqn:Ec.
  - inversion H.
  - apply reach_ret_inv in H. exists k, t, s. split; [exact Hinv|]. split; [exact Ec|symmetry; exact H].
  - apply reach_bind in H. destruct H as [s' [Hstep H]].
    apply (IH (S k) (t + 1) s' out); [|exact H]. apply (step_LInv k t s s' Hinv Ec Hstep).
  - apply reach_ret_inv in H. exists k, t, s. split; [exact Hinv|]. split; [exact Ec|symmetry; exact H].
Qed.

Lemma init_LInv : LInv O tmin (init_state g tmin full i0 r0).
Proof.
  set (s := init_state g tmin full i0 r0).
  assert (Hsus : forall v, d_sus s v = negb (mem v i0) && negb (mem v r0)) by reflexivity.
  assert (Hinfs : d_infs s = canon g i0) by reflexivity.
  assert (H1 : NoDup (d_infs s)) by (rewrite Hinfs; apply canon_NoDup).
  assert (H2 : forall v, In v (d_infs s) -> In v (gnodes g)) by (intros v Hv; rewrite Hinfs in Hv; apply canon_In in Hv; apply Hv).
  assert (H3 : forall v, In v (d_infs s) -> d_sus s v = false).
  { intros v Hv. rewrite Hinfs in Hv. apply canon_In in Hv. destruct Hv as [_ Hv]. rewrite Hsus. apply dmem_In in Hv. rewrite Hv. reflexivity. }
  assert (HS : cnt (dstat s) stS = (order g - lenZ i0 - lenZ r0)%Z).
  { rewrite cnt_S. rewrite <- (count_S0 g (fun _ _ _ => true) i0 r0 Hnd Hi0 Hr0 Hi0nd Hr0nd Hdisj).
    unfold Sg, lenZ. cbn [gen gen0 fst]. reflexivity. }
  assert (HI : cnt (dstat s) stI = lenZ i0).
  { rewrite (cnt_I s H1 H2 H3), Hinfs. unfold lenZ. rewrite (NoDup_length_canon g i0 Hnd Hi0nd Hi0). reflexivity. }
  pose proof (cnt_total s) as T.
  assert (HR : cnt (dstat s) stR = lenZ r0) by lia.
  assert (Hs : SInv s).
  { constructor; try assumption.
    - change (d_nS s) with (order g - lenZ i0 - lenZ r0)%Z. symmetry. exact HS.
    - change (d_totR s) with (lenZ r0). symmetry. exact HR. }
  split; [exact Hs|].
  assert (Erows : d_rows s = [(tmin, GillespieP.census g kSIR (dstat s))]).
  { change (d_rows s) with [(tmin, [(order g - lenZ i0 - lenZ r0)%Z; lenZ i0; lenZ r0])].
    unfold GillespieP.census. rewrite HS, HI, HR. reflexivity. }
  rewrite Erows.
  assert (Etl : d_tlog s = if full then rev (init_tx tmin i0) else []) by reflexivity.
  assert (Ehl : d_hlog s = []) by reflexivity.
  rewrite Ehl.
  assert (Hst0 : forall v, In v (gnodes g) -> dstat s v = init_status i0 r0 v).
  { intros v Hv. unfold dstat, init_status. rewrite Hsus, Hinfs.
    destruct (mem v r0) eqn:Er.
    - destruct (mem v i0) eqn:Ei; cbn [negb andb].
      + apply dmem_In in Ei. apply dmem_In in Er. exfalso. apply (Hdisj v Ei Er).
      + assert (M : mem v (canon g i0) = false) by (apply dmem_false; intro Hin; apply canon_In in Hin; destruct Hin as [_ Hin]; apply dmem_In in Hin; congruence).
        rewrite M. reflexivity.
    - destruct (mem v i0) eqn:Ei; cbn [negb andb]; [|reflexivity].
      assert (M : mem v (canon g i0) = true) by (apply dmem_In; apply canon_In; split; [exact Hv|apply dmem_In; exact Ei]).
      rewrite M. reflexivity. }
  rewrite Etl. apply drun0; [exact Hst0|apply dstat_ok].
Qed.

End SIR.
