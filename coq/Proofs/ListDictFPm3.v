(* The selection law of choose_random with ROUNDED accept thresholds, obtained from the
   exact rejection law of Proofs/ListDictP.v: the rounded chooser on s behaves, round by
   round, as the exact chooser on [thr_state s] — the exact structure whose weights are
   the thresholds thr_k = fl(w_k/M) and whose max_weight is 1.  That structure satisfies
   ld_inv because every threshold is in [0,1] (Proofs/ListDictFPm2.v), so
     P(k returned within fuel rounds) = (thr_k / sum thr) (1 - (1-a)^fuel)
   and thr_k / sum thr is within [(1-eps)/(1+eps), (1+eps)/(1-eps)] of w_k / sum w. *)
From EoNV Require Import Prelude Samp ListDict ListDictP ListDictF ListDictFP ListDictFPr ListDictFPr2
  ListDictFP2 ListDictFP3 ListDictFP4 ListDictFPb ListDictFPm ListDictFPm2.
From Coq Require Import Qabs Qpower Lqa.

Lemma Qmult_le_l_weak : forall a b c : Q, 0 <= c -> a <= b -> c * a <= c * b.
Proof. intros a b c Hc Hab. nra. Qed.

Section THR.
Variable K : Type.
Variable rnd : Q -> Q.

Definition thr_sum (s : ld K) : Q := sumQ (map (ldf_threshold K rnd s) (items s)).
Definition thr_state (s : ld K) : ld K :=
  mkLD true (items s) (pos s)
       (fun k => match wt s k with Some _ => Some (ldf_threshold K rnd s k) | None => None end)
       1 (maxc s) (thr_sum s).

Lemma thr_wread_in : forall s k, ldf_inv K s -> weighted s = true -> In k (items s) ->
  wread K (thr_state s) k = ldf_threshold K rnd s k.
Proof.
  intros s k Hinv Hw Hin. unfold ListDict.wread, thr_state. cbn [wt].
  destruct (wt s k) eqn:E; [reflexivity|exfalso].
  apply (finv_dom K s Hinv Hw k) in Hin. apply Hin. exact E.
Qed.

Lemma thr_state_inv : forall s, ldf_inv K s -> weighted s = true ->
  (forall k, 0 <= ldf_threshold K rnd s k /\ ldf_threshold K rnd s k <= 1) ->
  ld_inv K (thr_state s).
Proof.
  intros s Hinv Hw Hthr. constructor; cbn [thr_state items pos weighted wt maxw total].
  - apply (finv_nodup K s Hinv).
  - apply (finv_pos K s Hinv).
  - intros _ k. rewrite <- (finv_dom K s Hinv Hw k).
    destruct (wt s k); split; intro H; try exact H; try discriminate; intro H1; discriminate H1.
  - intros _ k w H. destruct (wt s k); [|discriminate H]. injection H as H. subst w.
    apply (Hthr k).
  - intros _ k w H. destruct (wt s k); [|discriminate H]. injection H as H. subst w.
    apply (Hthr k).
  - intros _. unfold thr_sum. apply sumQ_map_ext_in. intros x Hx.
    rewrite (thr_wread_in s x Hinv Hw Hx). reflexivity.
Qed.

Lemma Qeqb_pos_false : forall m, 0 < m -> Qeqb m 0 = false.
Proof.
  intros m H. unfold Qeqb. destruct (Qeq_bool m 0) eqn:E; [|reflexivity].
  apply Qeq_bool_iff in E. lra.
Qed.

Lemma Qltb_div1 : forall u t, Qltb u (t / 1) = Qltb u t.
Proof.
  intros u t. assert (E : t / 1 == t) by (field).
  unfold Qltb. destruct (Qlt_le_dec u (t / 1)) as [A|A]; destruct (Qlt_le_dec u t) as [B|B];
    try reflexivity; exfalso; lra.
Qed.

(* one round of the rounded chooser = one round of the exact chooser on thr_state *)
Lemma round_is_exact_round : forall s r u, ldf_inv K s -> weighted s = true -> 0 < maxw s ->
  ldf_choose_round K rnd s r u = ld_choose_round K (thr_state s) r u.
Proof.
  intros s r u Hinv Hw HM. unfold ldf_choose_round, ld_choose_round.
  cbn [thr_state items weighted maxw]. rewrite Hw.
  destruct (nth_error (items s) r) as [k|] eqn:E; [|reflexivity].
  rewrite (Qeqb_pos_false (maxw s) HM).
  assert (E0 : Qeqb 1 0 = false) by reflexivity. rewrite E0.
  pose proof (nth_error_In _ _ E) as Hin.
  fold (thr_state s). rewrite (thr_wread_in s k Hinv Hw Hin), Qltb_div1. reflexivity.
Qed.

(* ---------- error analysis under the standard model ---------- *)
Variable eps : Q.
Hypothesis eps_nonneg : 0 <= eps.
Hypothesis eps_lt1 : eps < 1.
Hypothesis rnd_err : forall x, Qabs (rnd x - x) <= eps * Qabs x.

Lemma thr_sum_bounds : forall s, ldf_inv K s -> weighted s = true -> 0 < maxw s ->
  (1 - eps) * (wsum K s / maxw s) <= thr_sum s /\ thr_sum s <= (1 + eps) * (wsum K s / maxw s).
Proof.
  intros s Hinv Hw HM. unfold thr_sum, wsum. split.
  - assert (E : (1 - eps) * (sumQ (map (wread K s) (items s)) / maxw s)
                == sumQ (map (fun x => ((1 - eps) / maxw s) * wread K s x) (items s))).
    { rewrite sumQ_map_scale. field. lra. }
    rewrite E. apply sumQ_map_le. intros x _.
    destruct (ldf_threshold_bounds K rnd eps rnd_err s x Hinv Hw HM) as [H1 _].
    assert (E1 : (1 - eps) / maxw s * wread K s x == (1 - eps) * (wread K s x / maxw s))
      by (field; lra).
    rewrite E1. exact H1.
  - assert (E : (1 + eps) * (sumQ (map (wread K s) (items s)) / maxw s)
                == sumQ (map (fun x => ((1 + eps) / maxw s) * wread K s x) (items s))).
    { rewrite sumQ_map_scale. field. lra. }
    rewrite E. apply sumQ_map_le. intros x _.
    destruct (ldf_threshold_bounds K rnd eps rnd_err s x Hinv Hw HM) as [_ [H1 _]].
    assert (E1 : (1 + eps) / maxw s * wread K s x == (1 + eps) * (wread K s x / maxw s))
      by (field; lra).
    rewrite E1. exact H1.
Qed.

Lemma thr_sum_pos : forall s, ldf_inv K s -> weighted s = true -> 0 < maxw s ->
  0 < wsum K s -> 0 < thr_sum s.
Proof.
  intros s Hinv Hw HM HW. destruct (thr_sum_bounds s Hinv Hw HM) as [H _].
  assert (H1 : 0 < wsum K s / maxw s).
  { unfold Qdiv. apply Qmult_lt_0_compat; [exact HW|]. apply Qinv_lt_0_compat, HM. }
  assert (H2 : 0 < (1 - eps) * (wsum K s / maxw s)) by (apply Qmult_lt_0_compat; lra).
  lra.
Qed.

Lemma selection_ratio : forall s k, ldf_inv K s -> weighted s = true -> 0 < maxw s ->
  0 < wsum K s ->
  let p := ldf_threshold K rnd s k / thr_sum s in
  let q := wread K s k / wsum K s in
  ((1 - eps) / (1 + eps)) * q <= p /\ p <= ((1 + eps) / (1 - eps)) * q.
Proof.
  intros s k Hinv Hw HM HW. cbv zeta.
  destruct (thr_sum_bounds s Hinv Hw HM) as [HA1 HA2].
  pose proof (thr_sum_pos s Hinv Hw HM HW) as HA.
  destruct (ldf_threshold_bounds K rnd eps rnd_err s k Hinv Hw HM) as [Ha1 [Ha2 _]].
  cbv zeta in Ha1, Ha2.
  pose proof (fwread_nonneg K s k Hinv Hw) as Hw0.
  set (a := ldf_threshold K rnd s k) in *. set (A := thr_sum s) in *.
  set (w := wread K s k) in *. set (W := wsum K s) in *. set (M := maxw s) in *.
  assert (Hq : 0 <= w / W).
  { unfold Qdiv. apply Qmult_le_0_compat; [exact Hw0|]. apply Qlt_le_weak, Qinv_lt_0_compat, HW. }
  split.
  - apply Qle_shift_div_l; [exact HA|].
    set (c := (1 - eps) / (1 + eps) * (w / W)).
    assert (Hc : 0 <= c).
    { unfold c. apply Qmult_le_0_compat; [|exact Hq].
      apply Qle_shift_div_l; lra. }
    assert (H1 : c * A <= c * ((1 + eps) * (W / M))) by (apply Qmult_le_l_weak; assumption).
    assert (E : c * ((1 + eps) * (W / M)) == (1 - eps) * (w / M)).
    { unfold c. field. repeat split; lra. }
    lra.
  - apply Qle_shift_div_r; [exact HA|].
    set (c := (1 + eps) / (1 - eps) * (w / W)).
    assert (Hc : 0 <= c).
    { unfold c. apply Qmult_le_0_compat; [|exact Hq].
      apply Qle_shift_div_l; lra. }
    assert (H1 : c * ((1 - eps) * (W / M)) <= c * A) by (apply Qmult_le_l_weak; assumption).
    assert (E : c * ((1 - eps) * (W / M)) == (1 + eps) * (w / M)).
    { unfold c. field. repeat split; lra. }
    lra.
Qed.

End THR.

Lemma ratio_coeffs : forall eps : Q, 0 <= eps -> eps <= 1 # 3 ->
  1 - 2 * eps <= (1 - eps) / (1 + eps) /\ (1 + eps) / (1 - eps) <= 1 + 3 * eps.
Proof.
  intros eps H0 H3. split.
  - apply Qle_shift_div_l; [lra|]. nra.
  - apply Qle_shift_div_r; [lra|]. nra.
Qed.

(* ---------- binary64, every history ---------- *)
Section B64S.
Variable K : Type.
Variable Keqb : K -> K -> bool.
Hypothesis Keqb_spec : forall a b, reflect (a = b) (Keqb a b).

Lemma b64_round_is_exact_round : forall (s : ld K) (r : nat) (u : Q),
  ldf_inv K s -> weighted s = true -> 0 < maxw s ->
  ldf_choose_round K rnd53 s r u = ld_choose_round K (thr_state K rnd53 s) r u.
Proof. exact (round_is_exact_round K rnd53). Qed.

(* a positive sum of stored weights forces a positive tracked maximum *)
Lemma b64_wsum_pos_maxw_pos : forall (ops : list (op K)) (s : ld K),
  Forall (op_ok K true) ops -> ldf_run K Keqb rnd53 (ld_empty true) ops = Ok s ->
  0 < wsum K s -> 0 < maxw s.
Proof.
  intros ops s Hok He HW.
  destruct (Qlt_le_dec 0 (maxw s)) as [L|L]; [exact L|exfalso].
  assert (H : wsum K s <= sumQ (map (fun _ : K => 0) (items s))).
  { unfold wsum. apply sumQ_map_le. intros x _.
    destruct (b64_max_weight_bounds K Keqb Keqb_spec ops s Hok He x) as [H|H]; [lra|].
    unfold ListDict.wread. rewrite H. lra. }
  rewrite sumQ_map_const in H. lra.
Qed.

Lemma b64_thr_all : forall (ops : list (op K)) (s : ld K),
  Forall (op_ok K true) ops -> ldf_run K Keqb rnd53 (ld_empty true) ops = Ok s -> 0 < maxw s ->
  forall k, 0 <= ldf_threshold K rnd53 s k /\ ldf_threshold K rnd53 s k <= 1.
Proof.
  intros ops s Hok He HM k.
  destruct (b64_threshold_probability K Keqb Keqb_spec ops s k Hok He HM) as [A [B _]].
  split; assumption.
Qed.

Theorem b64_rejection_law_rounded : forall (ops : list (op K)) (s : ld K) (fuel : nat) k,
  Forall (op_ok K true) ops -> ldf_run K Keqb rnd53 (ld_empty true) ops = Ok s ->
  0 < wsum K s -> In k (items s) ->
  ld_inv K (thr_state K rnd53 s) /\
  0 < thr_sum K rnd53 s /\
  sel_prob K Keqb fuel (thr_state K rnd53 s) k ==
    (ldf_threshold K rnd53 s k / thr_sum K rnd53 s) *
    (1 - (1 - acc_rate K (thr_state K rnd53 s)) ^ Z.of_nat fuel).
Proof.
  intros ops s fuel k Hok He HW Hin.
  destruct (b64_run_inv K Keqb Keqb_spec ops s Hok He) as [Hinv Hw].
  pose proof (b64_wsum_pos_maxw_pos ops s Hok He HW) as HM.
  pose proof (thr_state_inv K rnd53 s Hinv Hw (b64_thr_all ops s Hok He HM)) as Hi.
  destruct eps53_range as [H0 _].
  pose proof (thr_sum_pos K rnd53 eps53 eps53_lt1 rnd53_err s Hinv Hw HM HW) as HA.
  split; [exact Hi|]. split; [exact HA|].
  rewrite (rejection_law K Keqb Keqb_spec (thr_state K rnd53 s) fuel k Hi eq_refl HA Hin).
  rewrite (thr_wread_in K rnd53 s k Hinv Hw Hin). reflexivity.
Qed.

Theorem b64_selection_ratio : forall (ops : list (op K)) (s : ld K) k,
  Forall (op_ok K true) ops -> ldf_run K Keqb rnd53 (ld_empty true) ops = Ok s ->
  0 < wsum K s ->
  let p := ldf_threshold K rnd53 s k / thr_sum K rnd53 s in
  let q := wread K s k / wsum K s in
  ((1 - eps53) / (1 + eps53)) * q <= p /\ p <= ((1 + eps53) / (1 - eps53)) * q /\
  (1 - 2 * eps53) * q <= p /\ p <= (1 + 3 * eps53) * q.
Proof.
  intros ops s k Hok He HW. cbv zeta.
  destruct (b64_run_inv K Keqb Keqb_spec ops s Hok He) as [Hinv Hw].
  pose proof (b64_wsum_pos_maxw_pos ops s Hok He HW) as HM.
  destruct eps53_range as [H0 _].
  destruct (selection_ratio K rnd53 eps53 H0 eps53_lt1 rnd53_err s k Hinv Hw HM HW) as [A B].
  cbv zeta in A, B.
  assert (H3 : eps53 <= 1 # 3) by discriminate.
  destruct (ratio_coeffs eps53 H0 H3) as [C D].
  pose proof (fwread_nonneg K s k Hinv Hw) as Hw0.
  assert (Hq : 0 <= wread K s k / wsum K s).
  { unfold Qdiv. apply Qmult_le_0_compat; [exact Hw0|]. apply Qlt_le_weak, Qinv_lt_0_compat, HW. }
  set (q := wread K s k / wsum K s) in *.
  split; [exact A|]. split; [exact B|]. split.
  - eapply Qle_trans; [|exact A]. apply Qmult_le_compat_r; assumption.
  - eapply Qle_trans; [exact B|]. apply Qmult_le_compat_r; assumption.
Qed.

End B64S.

(* ---------- non-vacuity: the history of ListDictFPm2.v (weights 0.30000000000000004, 0.3, 0.7) ---------- *)
Definition b64_selection_example_statement : Prop :=
  0 < wsum N m_state /\ In 1%N (items m_state) /\
  let p := ldf_threshold N rnd53 m_state 1%N / thr_sum N rnd53 m_state in
  let q := wread N m_state 1%N / wsum N m_state in
  ~ p == q /\ (1 - 2 * eps53) * q <= p /\ p <= (1 + 3 * eps53) * q /\
  Qred (sel_prob N N.eqb 2 (thr_state N rnd53 m_state) 1%N) =
  Qred (p * (1 - (1 - acc_rate N (thr_state N rnd53 m_state)) ^ 2)).
Lemma b64_selection_example_proof : b64_selection_example_statement.
Proof.
  split; [vm_compute; reflexivity|]. split; [vm_compute; left; reflexivity|].
  cbv zeta. split; [vm_compute; discriminate|].
  split; [vm_compute; discriminate|]. split; [vm_compute; discriminate|].
  vm_compute. reflexivity.
Qed.

Print Assumptions b64_rejection_law_rounded.
Print Assumptions b64_selection_ratio.
