(* Lemmas about Model/EventSIR.v, part 2: the invariant of the event loop of
   fast_nonMarkov_SIR (DESIGN Appendix A.1, J0-J5) and its preservation by
   every pop, for every tie policy. *)
From EoNV Require Import Prelude Samp Graph EventSIR EventSIRP.
Require Import Lqa.

Section Inv.
Variable tb : tiepolicy.
Variable g : graph.
Variable tmax : xtime.
Variable delay : node -> node -> xtime.
Variable dur : node -> xtime.
Variable tmin : Q.
Variables i0 r0 : list node.

Hypothesis Hdelay : forall u v d, In u (gnodes g) -> In v (gadj g u) -> delay u v = Some d -> 0 <= d.
Hypothesis Hdur : forall u d, In u (gnodes g) -> dur u = Some d -> 0 <= d.
Hypothesis Hadj : forall u, In u (gnodes g) -> NoDup (gadj g u).
Hypothesis Hdisj : forall u, In u i0 -> ~ In u r0.

Definition ltmax (t : Q) : Prop := xltb (Some t) tmax = true.
Hypothesis Htmin : ltmax tmin.

(* u -> v is an arc of the percolated graph H (minus R0), with delay d *)
Definition hedge (u v : node) (d : Q) : Prop :=
  In u (gnodes g) /\ In v (gadj g u) /\ ~ In v r0 /\ delay u v = Some d /\ xleb (Some d) (dur u) = true.

Lemma hedge_nonneg : forall u v d, hedge u v d -> 0 <= d.
Proof. intros u v d [H1 [H2 [_ [H3 _]]]]. eapply Hdelay; eauto. Qed.

Definition tl := list (Q * option node * node).
Definition infd (l : tl) (v : node) : Prop := exists t s, In (t, s, v) l.

Definition justified (l : tl) (src : option node) (v : node) (t : Q) : Prop :=
  match src with
  | None => In v i0 /\ t == tmin
  | Some u => exists tu su d, In (tu, su, u) l /\ hedge u v d /\ t == tu + d
  end.

Fixpoint sound_log (l : tl) : Prop :=
  match l with
  | [] => True
  | (t, s, v) :: l' => justified l' s v t /\ sound_log l'
  end.

Definition covered (s : est) (w : node) (b : Q) : Prop :=
  (exists tw sw, In (tw, sw, w) (tlog s) /\ tw <= b) \/
  (stat s w = stS /\ exists p, predt s w = Some (Some p) /\ p <= b).

Record Inv (c : Q) (s : est) : Prop := {
  i_sorted : qsorted (qu s);
  i_qtime : forall e, In e (qu s) -> c <= qt e /\ ltmax (qt e);
  i_clock : tmin <= c;
  i_qjust : forall e src v, In e (qu s) -> qe e = ETrans src v ->
            ~ In v r0 /\ justified (tlog s) src v (qt e);
  i_qrec : forall e u, In e (qu s) -> qe e = ERec u ->
           stat s u <> stS /\ exists t sr, In (t, sr, u) (tlog s) /\ xadd t (dur u) = Some (qt e);
  i_r0 : forall v, In v r0 -> stat s v = stR /\ ~ infd (tlog s) v;
  i_stat3 : forall v, stat s v = stS \/ stat s v = stI \/ stat s v = stR;
  i_stat : forall v, ~ In v r0 -> (stat s v <> stS <-> infd (tlog s) v);
  i_nodup : NoDup (map snd (tlog s));
  i_ltime : forall t sr v, In (t, sr, v) (tlog s) -> t <= c /\ ltmax t;
  i_sound : sound_log (tlog s);
  i_j3 : forall w p, stat s w = stS -> predt s w = Some (Some p) -> ltmax p ->
         exists e src, In e (qu s) /\ qe e = ETrans src w /\ qt e == p;
  i_j4 : forall tu su u w d, In (tu, su, u) (tlog s) -> hedge u w d -> ltmax (tu + d) ->
         covered s w (tu + d);
  i_init : forall v, In v i0 -> covered s v tmin;
  i_rect : forall t sr u, In (t, sr, u) (tlog s) -> rect s u = Some (xadd t (dur u));
  i_recq : forall t sr u r, In (t, sr, u) (tlog s) -> stat s u = stI ->
           xadd t (dur u) = Some r -> ltmax r ->
           exists e, In e (qu s) /\ qe e = ERec u /\ qt e = r;
  i_recd : forall u, stat s u = stR -> ~ In u r0 ->
           exists t sr r, In (t, sr, u) (tlog s) /\ xadd t (dur u) = Some r /\ ltmax r /\ r <= c
}.

(* ---------------- small facts ---------------- *)
Lemma ltmax_le : forall a b, a <= b -> ltmax b -> ltmax a.
Proof. unfold ltmax. intros. eapply xltb_le_trans; eauto. Qed.

Lemma justified_mono : forall l x src v t, justified l src v t -> justified (x :: l) src v t.
Proof.
  intros l x [u|] v t; simpl; auto.
  intros [tu [su [d [Hin H]]]]. exists tu, su, d. split; [right; auto|auto].
Qed.

Lemma stS_ne_I : stS <> stI. Proof. discriminate. Qed.
Lemma stS_ne_R : stS <> stR. Proof. discriminate. Qed.
Lemma stI_ne_R : stI <> stR. Proof. discriminate. Qed.

Lemma Neqb_true : forall a b : N, N.eqb a b = true -> a = b.
Proof. intros. apply N.eqb_eq; auto. Qed.

(* projections of apply_inf *)
Section ApplyInf.
Variables (time : Q) (src : option node) (v : node) (td : list (node * xtime)) (rd : xtime)
          (calls : list (node * option node)) (s : est).
Let rt := xadd time rd.
Let qc1 := if xleb rt tmax then qadd tb tmax rt (ERec v) (qu s, ctr s) else (qu s, ctr s).
Let s' := apply_inf tb tmax time src v td rd calls s.
Let R := sfold tb tmax time rt v td (fst qc1, snd qc1, predt s).

Lemma ai_stat : stat s' = fupdN (stat s) v stI.
Proof. unfold s', apply_inf. destruct (fold_left _ _ _) as [[q2 c2] p2]. reflexivity. Qed.
Lemma ai_rect : rect s' = fupdN (rect s) v (Some rt).
Proof. unfold s', apply_inf. destruct (fold_left _ _ _) as [[q2 c2] p2]. reflexivity. Qed.
Lemma ai_tlog : tlog s' = (time, src, v) :: tlog s.
Proof. unfold s', apply_inf. destruct (fold_left _ _ _) as [[q2 c2] p2]. reflexivity. Qed.
Lemma ai_olog : olog s' = calls ++ olog s.
Proof. unfold s', apply_inf. destruct (fold_left _ _ _) as [[q2 c2] p2]. reflexivity. Qed.
Lemma ai_rows : rows s' = push_row (rows s) time (-1) 1 0.
Proof. unfold s', apply_inf. destruct (fold_left _ _ _) as [[q2 c2] p2]. reflexivity. Qed.
Lemma ai_qu : qu s' = fst (fst R).
Proof.
  unfold s', apply_inf, R, sfold, qc1, rt.
  destruct (fold_left _ _ _) as [[q2 c2] p2]. reflexivity.
Qed.
Lemma ai_predt : predt s' = snd R.
Proof.
  unfold s', apply_inf, R, sfold, qc1, rt.
  destruct (fold_left _ _ _) as [[q2 c2] p2]. reflexivity.
Qed.

Lemma q1_In : forall x, In x (fst qc1) <->
  In x (qu s) \/ (exists r, rt = Some r /\ ltmax r /\ x = mkQ r (ctr s) (ERec v)).
Proof.
  intros x. unfold qc1. destruct (xleb rt tmax) eqn:E.
  - rewrite qadd_In. split; intros [H|[r [Hr [Hl Hx]]]]; auto; right; exists r.
    + rewrite Hr in Hl. auto.
    + rewrite Hr. auto.
  - simpl. split; auto. intros [H|[r [Hr [Hl Hx]]]]; auto.
    unfold ltmax in Hl. rewrite <- Hr in Hl. apply xltb_xleb in Hl. congruence.
Qed.

Lemma q1_sorted : qsorted (qu s) -> qsorted (fst qc1).
Proof.
  intros H. unfold qc1. destruct (xleb rt tmax); [apply qadd_sorted; auto|exact H].
Qed.

Lemma q1_length : (length (fst qc1) <= S (length (qu s)))%nat.
Proof.
  unfold qc1. destruct (xleb rt tmax); [apply qadd_length|simpl; auto].
Qed.

Lemma ai_length : (length (qu s') <= S (length td + length (qu s)))%nat.
Proof.
  rewrite ai_qu. unfold R.
  pose proof (sfold_length tb tmax time rt v td (fst qc1) (snd qc1) (predt s)).
  pose proof q1_length. lia.
Qed.
End ApplyInf.

(* deterministic delays *)
Lemma det_delays_fst : forall u sus, map fst (det_delays delay u sus) = sus.
Proof. intros. unfold det_delays. rewrite map_map. simpl. apply map_id. Qed.

Lemma det_delays_In : forall u sus w d,
  In (w, d) (det_delays delay u sus) <-> In w sus /\ d = delay u w.
Proof.
  intros. unfold det_delays. rewrite in_map_iff. split.
  - intros [x [E Hx]]. inversion E; subst. auto.
  - intros [H ->]. exists w. auto.
Qed.

Lemma sus_nbrs_In : forall st u w, In w (sus_nbrs g st u) <-> In w (gadj g u) /\ st w = stS.
Proof.
  intros. unfold sus_nbrs. rewrite filter_In. rewrite N.eqb_eq. tauto.
Qed.

Lemma sus_nbrs_nodup : forall st u, In u (gnodes g) -> NoDup (sus_nbrs g st u).
Proof. intros. unfold sus_nbrs. apply NoDup_filter. apply Hadj. auto. Qed.

Lemma pget_some : forall p w x, pget p w = Some x -> p w = Some (Some x).
Proof. intros p w x. unfold pget. destruct (p w) as [[y|]|]; intros H; inversion H; auto. Qed.

(* the new predicted time is never later than the old one *)
Lemma new_pred_le : forall time rt p w d x,
  p w = Some (Some x) ->
  exists y, new_pred tmax time rt p w d = Some (Some y) /\ y <= x.
Proof.
  intros time rt p w d x Hp. unfold new_pred.
  assert (Hg : pget p w = Some x) by (unfold pget; rewrite Hp; auto).
  destruct (xleb (xadd time d) rt).
  - rewrite Hg. destruct (xltb (xadd time d) (Some x) && xleb (xadd time d) tmax) eqn:E.
    + apply andb_prop in E. destruct E as [E _].
      destruct (xadd time d) as [y|]; [|discriminate].
      exists y. split; auto. apply xltb_SS in E. lra.
    + exists x. split; auto. lra.
  - exists x. split; auto. lra.
Qed.

(* ================================================================== *)
(* preservation: recovery event                                         *)
Lemma step_rec : forall c s e q' u,
  Inv c s -> qu s = e :: q' -> qe e = ERec u ->
  Inv (qt e) (apply_rec (qt e) u (set_qu s q')).
Proof.
  intros c s e q' u HI Hq He.
  assert (Hin_e : In e (qu s)) by (rewrite Hq; left; auto).
  destruct (i_qtime _ _ HI e Hin_e) as [Hce Hlte].
  destruct (i_qrec _ _ HI e u Hin_e He) as [HuS [t0 [sr0 [Hent Hrt]]]].
  pose proof (i_sorted _ _ HI) as Hs. rewrite Hq in Hs. destruct Hs as [Hhd Hs'].
  assert (Hsub : forall x, In x q' -> In x (qu s)) by (intros; rewrite Hq; right; auto).
  assert (Hstat' : forall w, stat (apply_rec (qt e) u (set_qu s q')) w = if N.eqb w u then stR else stat s w)
    by reflexivity.
  assert (HstS : forall w, stat (apply_rec (qt e) u (set_qu s q')) w = stS -> stat s w = stS /\ w <> u).
  { intros w. rewrite Hstat'. destruct (N.eqb w u) eqn:E; [discriminate|].
    apply N.eqb_neq in E. auto. }
  assert (HstS' : forall w, stat s w = stS -> stat (apply_rec (qt e) u (set_qu s q')) w = stS).
  { intros w H. rewrite Hstat'. destruct (N.eqb w u) eqn:E; auto.
    apply Neqb_true in E. subst. contradiction. }
  assert (Hcov : forall w b, covered s w b -> covered (apply_rec (qt e) u (set_qu s q')) w b).
  { intros w b [H|[H1 H2]]; [left; exact H|right; split; auto]. }
  constructor; simpl qu; simpl tlog; simpl predt; simpl rect.
  - exact Hs'.
  - intros x Hx. split; [apply Hhd; auto|]. apply (i_qtime _ _ HI). auto.
  - pose proof (i_clock _ _ HI). lra.
  - intros x sr w Hx. apply (i_qjust _ _ HI). auto.
  - intros x u' Hx Hx'. destruct (i_qrec _ _ HI x u' (Hsub x Hx) Hx') as [H1 H2]. split; auto.
    rewrite Hstat'. destruct (N.eqb u' u); auto. discriminate.
  - intros w Hw. destruct (i_r0 _ _ HI w Hw) as [H1 H2]. split; auto.
    rewrite Hstat'. destruct (N.eqb w u); auto.
  - intros w. rewrite Hstat'. destruct (N.eqb w u); auto. apply (i_stat3 _ _ HI).
  - intros w Hw. rewrite Hstat'. destruct (N.eqb w u) eqn:E.
    + apply Neqb_true in E. subst. split; [|discriminate]. intros _. exists t0, sr0. auto.
    + apply (i_stat _ _ HI). auto.
  - apply (i_nodup _ _ HI).
  - intros t sr w Hin. destruct (i_ltime _ _ HI t sr w Hin). split; auto. lra.
  - apply (i_sound _ _ HI).
  - intros w p Hw Hp Hl. apply HstS in Hw. destruct Hw as [Hw Hwu].
    destruct (i_j3 _ _ HI w p Hw Hp Hl) as [x [sr [Hx [Hqx Htx]]]].
    exists x, sr. split; auto. rewrite Hq in Hx. destruct Hx as [<-|Hx]; auto. congruence.
  - intros tu su u' w d Hin Hh Hl. apply Hcov. apply (i_j4 _ _ HI tu su u'); auto.
  - intros w Hw. apply Hcov. apply (i_init _ _ HI). auto.
  - apply (i_rect _ _ HI).
  - intros t sr u' r Hin Hst Hx Hl. rewrite Hstat' in Hst.
    destruct (N.eqb u' u) eqn:E; [discriminate|]. apply N.eqb_neq in E.
    destruct (i_recq _ _ HI t sr u' r Hin Hst Hx Hl) as [x [Hx1 [Hx2 Hx3]]].
    exists x. split; auto. rewrite Hq in Hx1. destruct Hx1 as [<-|Hx1]; auto. congruence.
  - intros u' Hst Hr. rewrite Hstat' in Hst. destruct (N.eqb u' u) eqn:E.
    + apply Neqb_true in E. subst. exists t0, sr0, (qt e). split; auto. split; auto. split; auto. lra.
    + destruct (i_recd _ _ HI u' Hst Hr) as [t [sr [r [H1 [H2 [H3 H4]]]]]].
      exists t, sr, r. split; auto. split; auto. split; auto. lra.
Qed.

(* ================================================================== *)
(* preservation: a transmission event reaching a node that is not susceptible *)
Lemma step_skip : forall c s e q' src v,
  Inv c s -> qu s = e :: q' -> qe e = ETrans src v -> stat s v <> stS ->
  Inv (qt e) (set_qu s q').
Proof.
  intros c s e q' src v HI Hq He Hv.
  assert (Hin_e : In e (qu s)) by (rewrite Hq; left; auto).
  destruct (i_qtime _ _ HI e Hin_e) as [Hce Hlte].
  pose proof (i_sorted _ _ HI) as Hs. rewrite Hq in Hs. destruct Hs as [Hhd Hs'].
  assert (Hsub : forall x, In x q' -> In x (qu s)) by (intros; rewrite Hq; right; auto).
  assert (Hcov : forall w b, covered s w b -> covered (set_qu s q') w b) by (intros w b H; exact H).
  constructor; simpl qu; simpl tlog; simpl predt; simpl rect; simpl stat.
  - exact Hs'.
  - intros x Hx. split; [apply Hhd; auto|]. apply (i_qtime _ _ HI). auto.
  - pose proof (i_clock _ _ HI). lra.
  - intros x sr w Hx. apply (i_qjust _ _ HI). auto.
  - intros x u' Hx. apply (i_qrec _ _ HI). auto.
  - apply (i_r0 _ _ HI).
  - apply (i_stat3 _ _ HI).
  - apply (i_stat _ _ HI).
  - apply (i_nodup _ _ HI).
  - intros t sr w Hin. destruct (i_ltime _ _ HI t sr w Hin). split; auto. lra.
  - apply (i_sound _ _ HI).
  - intros w p Hw Hp Hl.
    destruct (i_j3 _ _ HI w p Hw Hp Hl) as [x [sr [Hx [Hqx Htx]]]].
    exists x, sr. split; auto. rewrite Hq in Hx. destruct Hx as [<-|Hx]; auto.
    rewrite He in Hqx. inversion Hqx; subst. contradiction.
  - intros tu su u' w d Hin Hh Hl. apply Hcov. apply (i_j4 _ _ HI tu su u'); auto.
  - intros w Hw. apply Hcov. apply (i_init _ _ HI). auto.
  - apply (i_rect _ _ HI).
  - intros t sr u' r Hin Hst Hx Hl.
    destruct (i_recq _ _ HI t sr u' r Hin Hst Hx Hl) as [x [Hx1 [Hx2 Hx3]]].
    exists x. split; auto. rewrite Hq in Hx1. destruct Hx1 as [<-|Hx1]; auto. congruence.
  - intros u' Hst Hr.
    destruct (i_recd _ _ HI u' Hst Hr) as [t [sr [r [H1 [H2 [H3 H4]]]]]].
    exists t, sr, r. split; auto. split; auto. split; auto. lra.
Qed.

(* ================================================================== *)
(* preservation: infection of a susceptible node                       *)
Lemma xadd_some : forall t d x, xadd t d = Some x -> exists d', d = Some d' /\ x = t + d'.
Proof. intros t [d|] x H; simpl in H; inversion H. exists d. auto. Qed.

Lemma xltb_false_some : forall a m, xltb (Some a) m = false -> exists p, m = Some p /\ p <= a.
Proof.
  intros a [m|] H; simpl in H; [|discriminate].
  exists m. split; auto. apply Qltb_false in H. auto.
Qed.

Lemma step_inf : forall c s e q' src v,
  Inv c s -> qu s = e :: q' -> qe e = ETrans src v -> stat s v = stS -> In v (gnodes g) ->
  let sus := sus_nbrs g (fupdN (stat s) v stI) v in
  Inv (qt e) (apply_inf tb tmax (qt e) src v (det_delays delay v sus) (dur v) (det_calls v sus) (set_qu s q')).
Proof.
  intros c s e q' src v HI Hq He Hv Hvg sus.
  set (t := qt e). set (s0 := set_qu s q').
  set (td := det_delays delay v sus). set (rt := xadd t (dur v)).
  set (s' := apply_inf tb tmax t src v td (dur v) (det_calls v sus) s0).
  assert (Hin_e : In e (qu s)) by (rewrite Hq; left; auto).
  destruct (i_qtime _ _ HI e Hin_e) as [Hce Hlte]. fold t in Hce, Hlte.
  pose proof (i_sorted _ _ HI) as Hs. rewrite Hq in Hs. destruct Hs as [Hhd Hs']. fold t in Hhd.
  assert (Hsub : forall x, In x q' -> In x (qu s)) by (intros; rewrite Hq; right; auto).
  destruct (i_qjust _ _ HI e src v Hin_e He) as [Hvr0 Hjust]. fold t in Hjust.
  assert (Hninf : ~ infd (tlog s) v).
  { intros H. apply (i_stat _ _ HI v Hvr0) in H. contradiction. }
  pose proof (i_clock _ _ HI) as Hclk.
  (* statuses *)
  assert (Hst : stat s' = fupdN (stat s) v stI) by (unfold s'; rewrite ai_stat; reflexivity).
  assert (Htl : tlog s' = (t, src, v) :: tlog s) by (unfold s'; rewrite ai_tlog; reflexivity).
  assert (Hsus : forall w, In w sus <-> In w (gadj g v) /\ w <> v /\ stat s w = stS).
  { intros w. unfold sus. rewrite sus_nbrs_In. unfold fupdN.
    destruct (N.eqb w v) eqn:E.
    - apply Neqb_true in E. subst. split; [intros [_ H]; discriminate|intros [_ [H _]]; congruence].
    - apply N.eqb_neq in E. tauto. }
  assert (Hnd : NoDup (map fst td)).
  { unfold td. rewrite det_delays_fst. apply sus_nbrs_nodup. exact Hvg. }
  assert (Hr0S : forall w, stat s w = stS -> ~ In w r0).
  { intros w H Hr. destruct (i_r0 _ _ HI w Hr) as [H1 _]. rewrite H in H1. discriminate. }
  (* queue *)
  pose proof (q1_In t v td (dur v) s0) as Hq1. fold rt in Hq1.
  pose proof (ai_qu t src v td (dur v) (det_calls v sus) s0) as Hqu. fold rt s' in Hqu.
  pose proof (ai_predt t src v td (dur v) (det_calls v sus) s0) as Hpr. fold rt s' in Hpr.
  set (qc1 := if xleb rt tmax then qadd tb tmax rt (ERec v) (qu s0, ctr s0) else (qu s0, ctr s0)) in *.
  assert (QA : forall x, In x (fst qc1) -> In x (qu s')).
  { intros x Hx. rewrite Hqu. apply sfold_queue_old. auto. }
  assert (QB : forall x, In x (qu s') -> In x (fst qc1) \/
            exists w d, In (w, d) td /\ pushed tmax t rt (predt s) w d (qt x) /\ qe x = ETrans (Some v) w).
  { intros x Hx. rewrite Hqu in Hx. apply sfold_queue_new in Hx; auto. }
  assert (QC : forall w d x0, In (w, d) td -> pushed tmax t rt (predt s) w d x0 ->
            exists x, In x (qu s') /\ qt x = x0 /\ qe x = ETrans (Some v) w).
  { intros w d x0 Hin Hp. rewrite Hqu. eapply sfold_queue_pushed; eauto. }
  assert (PA : forall w, ~ In w sus -> predt s' w = predt s w).
  { intros w Hw. rewrite Hpr. apply sfold_pred_other. unfold td. rewrite det_delays_fst. auto. }
  assert (PB : forall w, In w sus -> predt s' w = new_pred tmax t rt (predt s) w (delay v w)).
  { intros w Hw. rewrite Hpr. apply sfold_pred_in; auto. unfold td. apply det_delays_In. auto. }
  assert (Hq'old : forall x, In x q' -> In x (qu s')).
  { intros x Hx. apply QA. apply Hq1. left. exact Hx. }
  (* what a pushed transmission means *)
  assert (Hpush : forall w d x0, In (w, d) td -> pushed tmax t rt (predt s) w d x0 ->
            exists d', hedge v w d' /\ x0 = t + d' /\ ltmax x0 /\ stat s w = stS /\ w <> v).
  { intros w d x0 Hin [Hx [Hle [Hlt Hmx]]].
    unfold td in Hin. apply det_delays_In in Hin. destruct Hin as [Hw ->].
    apply Hsus in Hw. destruct Hw as [Hadjw [Hwv HwS]].
    apply xadd_some in Hx. destruct Hx as [d' [Hd' ->]].
    exists d'. split; [|auto].
    split; auto. split; auto. split; [apply Hr0S; auto|]. split; auto.
    unfold rt in Hle. change (Some (t + d')) with (xadd t (Some d')) in Hle.
    rewrite xleb_xadd in Hle. exact Hle. }
  assert (Hrt_ge : forall r, rt = Some r -> t <= r).
  { intros r Hr. unfold rt in Hr. apply xadd_some in Hr. destruct Hr as [d' [Hd' ->]].
    apply (Hdur v d' Hvg) in Hd'. lra. }
  (* coverage is preserved *)
  assert (Hcov : forall w b, covered s w b -> ltmax b -> covered s' w b).
  { intros w b [[tw [sw [Hin Hle]]]|[HwS [p [Hp Hpb]]]] Hlb.
    - left. exists tw, sw. rewrite Htl. split; [right; auto|auto].
    - destruct (N.eq_dec w v) as [->|Hwv].
      + left. exists t, src. rewrite Htl. split; [left; auto|].
        destruct (i_j3 _ _ HI v p HwS Hp (ltmax_le p b Hpb Hlb)) as [x [sr [Hx [Hqx Htx]]]].
        rewrite Hq in Hx. destruct Hx as [<-|Hx].
        * fold t in Htx. lra.
        * specialize (Hhd x Hx). lra.
      + right. split. { rewrite Hst. rewrite fupdN_other; auto. }
        destruct (in_dec N.eq_dec w sus) as [Hws|Hws].
        * rewrite (PB w Hws).
          destruct (new_pred_le t rt (predt s) w (delay v w) p Hp) as [y [Hy Hyp]].
          exists y. split; auto. lra.
        * rewrite (PA w Hws). exists p. auto. }
  constructor.
  - (* sorted *) rewrite Hqu. apply sfold_sorted. apply (q1_sorted t v td (dur v) s0). exact Hs'.
  - (* queue times *)
    intros x Hx. apply QB in Hx. destruct Hx as [Hx|[w [d [Hin [Hp Hqx]]]]].
    + apply Hq1 in Hx. destruct Hx as [Hx|[r [Hr [Hl ->]]]].
      * split; [apply Hhd; auto|]. apply (i_qtime _ _ HI). auto.
      * simpl. split; auto.
    + destruct (Hpush w d (qt x) Hin Hp) as [d' [Hh [Hx [Hl _]]]].
      split; auto. apply hedge_nonneg in Hh. rewrite Hx. lra.
  - lra.
  - (* queued transmissions are justified *)
    intros x sr w Hx Hqx. apply QB in Hx. destruct Hx as [Hx|[w' [d [Hin [Hp Hqx']]]]].
    + apply Hq1 in Hx. destruct Hx as [Hx|[r [Hr [Hl ->]]]]; [|discriminate].
      destruct (i_qjust _ _ HI x sr w (Hsub x Hx) Hqx) as [H1 H2]. split; auto.
      rewrite Htl. apply justified_mono. auto.
    + rewrite Hqx in Hqx'. inversion Hqx'; subst.
      destruct (Hpush w' d (qt x) Hin Hp) as [d' [Hh [Hx [Hl [HwS Hwv]]]]].
      split; [apply Hr0S; auto|].
      simpl. exists t, src, d'. rewrite Htl. split; [left; auto|]. split; auto. rewrite Hx. reflexivity.
  - (* queued recoveries *)
    intros x u Hx Hqx. apply QB in Hx. destruct Hx as [Hx|[w' [d [Hin [Hp Hqx']]]]]; [|congruence].
    apply Hq1 in Hx. destruct Hx as [Hx|[r [Hr [Hl ->]]]].
    + destruct (i_qrec _ _ HI x u (Hsub x Hx) Hqx) as [H1 [t1 [sr1 [H2 H3]]]]. split.
      * rewrite Hst. unfold fupdN. destruct (N.eqb u v); auto. discriminate.
      * exists t1, sr1. rewrite Htl. split; [right; auto|auto].
    + simpl in Hqx. inversion Hqx; subst. split.
      * rewrite Hst. rewrite fupdN_same. discriminate.
      * exists t, src. rewrite Htl. split; [left; auto|]. exact Hr.
  - (* R0 *)
    intros w Hw. destruct (i_r0 _ _ HI w Hw) as [H1 H2]. split.
    + rewrite Hst. rewrite fupdN_other; auto. intros ->. contradiction.
    + rewrite Htl. intros [t1 [s1 [H|H]]].
      * inversion H; subst. contradiction.
      * apply H2. exists t1, s1. auto.
  - intros w. rewrite Hst. unfold fupdN. destruct (N.eqb w v); auto. apply (i_stat3 _ _ HI).
  - (* status <-> log *)
    intros w Hw. rewrite Hst, Htl. unfold fupdN. destruct (N.eqb w v) eqn:E.
    + apply Neqb_true in E. subst. split; [|discriminate]. intros _. exists t, src. left. auto.
    + apply N.eqb_neq in E. rewrite (i_stat _ _ HI w Hw). split.
      * intros [t1 [s1 H]]. exists t1, s1. right. auto.
      * intros [t1 [s1 [H|H]]]; [inversion H; subst; congruence|]. exists t1, s1. auto.
  - (* targets distinct *)
    rewrite Htl. simpl. constructor; [|apply (i_nodup _ _ HI)].
    intros H. apply in_map_iff in H. destruct H as [[[t1 s1] w] [Hw Hin]]. simpl in Hw. subst.
    apply Hninf. exists t1, s1. auto.
  - (* log times *)
    intros t1 sr w Hin. rewrite Htl in Hin. destruct Hin as [H|Hin].
    + inversion H; subst. split; auto. lra.
    + destruct (i_ltime _ _ HI t1 sr w Hin). split; auto. lra.
  - (* sound *)
    rewrite Htl. simpl. split; auto. apply (i_sound _ _ HI).
  - (* J3 *)
    intros w p Hw Hp Hl. rewrite Hst in Hw. unfold fupdN in Hw.
    destruct (N.eqb w v) eqn:E; [discriminate|]. apply N.eqb_neq in E.
    assert (Hold : predt s w = Some (Some p) ->
                   exists x sr, In x (qu s') /\ qe x = ETrans sr w /\ qt x == p).
    { intros Hp0. destruct (i_j3 _ _ HI w p Hw Hp0 Hl) as [x [sr [Hx [Hqx Htx]]]].
      exists x, sr. split; auto. rewrite Hq in Hx. destruct Hx as [<-|Hx]; auto.
      rewrite He in Hqx. inversion Hqx; subst. congruence. }
    destruct (in_dec N.eq_dec w sus) as [Hws|Hws].
    + rewrite (PB w Hws) in Hp. unfold new_pred in Hp.
      destruct (xleb (xadd t (delay v w)) rt) eqn:E1; [|auto].
      destruct (xltb (xadd t (delay v w)) (pget (predt s) w) && xleb (xadd t (delay v w)) tmax) eqn:E2.
      * inversion Hp as [Hit]. apply andb_prop in E2. destruct E2 as [E2 E3].
        destruct (QC w (delay v w) p) as [x [Hx [Hxt Hxe]]].
        { unfold td. apply det_delays_In. auto. }
        { unfold pushed. rewrite Hit in *. auto. }
        exists x, (Some v). split; auto. split; auto. rewrite Hxt. reflexivity.
      * inversion Hp as [Hpg]. apply pget_some in Hpg. auto.
    + rewrite (PA w Hws) in Hp. auto.
  - (* J4 *)
    intros tu su u w d Hin Hh Hl. rewrite Htl in Hin. destruct Hin as [H|Hin].
    + inversion H; subst tu su u. clear H.
      pose proof (hedge_nonneg _ _ _ Hh) as Hd0.
      destruct Hh as [_ [Hadjw [Hwr0 [Hd Hle]]]].
      destruct (N.eq_dec w v) as [->|Hwv].
      { left. exists t, src. rewrite Htl. split; [left; auto|lra]. }
      destruct (N.eq_dec (stat s w) stS) as [HwS|HwS].
      * right. split. { rewrite Hst. rewrite fupdN_other; auto. }
        assert (Hws : In w sus) by (apply Hsus; auto).
        rewrite (PB w Hws). unfold new_pred. rewrite Hd.
        change (xadd t (Some d)) with (Some (t + d)).
        assert (E1 : xleb (Some (t + d)) rt = true).
        { unfold rt. change (Some (t + d)) with (xadd t (Some d)). rewrite xleb_xadd. exact Hle. }
        rewrite E1.
        destruct (xltb (Some (t + d)) (pget (predt s) w) && xleb (Some (t + d)) tmax) eqn:E2.
        -- exists (t + d). split; auto. lra.
        -- apply andb_false_iff in E2. destruct E2 as [E2|E2].
           ++ apply xltb_false_some in E2. destruct E2 as [p0 [Hp0 Hle0]].
              exists p0. rewrite Hp0. auto.
           ++ apply xltb_xleb in Hl. congruence.
      * left. apply (i_stat _ _ HI w Hwr0) in HwS. destruct HwS as [tw [sw Hw]].
        exists tw, sw. rewrite Htl. split; [right; auto|].
        destruct (i_ltime _ _ HI tw sw w Hw). lra.
    + apply Hcov; auto. apply (i_j4 _ _ HI tu su u); auto.
  - (* initial nodes *)
    intros w Hw. apply Hcov; auto. apply (i_init _ _ HI). auto.
  - (* rec_time *)
    intros t1 sr u Hin. rewrite Htl in Hin.
    assert (Hrc : rect s' = fupdN (rect s) v (Some rt)) by (unfold s'; rewrite ai_rect; reflexivity).
    rewrite Hrc.
    destruct Hin as [H|Hin].
    + inversion H; subst. rewrite fupdN_same. reflexivity.
    + rewrite fupdN_other. { apply (i_rect _ _ HI t1 sr u Hin). }
      intros ->. apply Hninf. exists t1, sr. auto.
  - (* pending recovery *)
    intros t1 sr u r Hin Hsu Hx Hl. rewrite Htl in Hin. destruct Hin as [H|Hin].
    + inversion H; subst t1 sr u. clear H.
      exists (mkQ r (ctr s0) (ERec v)). split; [|auto].
      apply QA. apply Hq1. right. exists r. auto.
    + assert (Huv : u <> v). { intros ->. apply Hninf. exists t1, sr. auto. }
      rewrite Hst in Hsu. rewrite fupdN_other in Hsu; auto.
      destruct (i_recq _ _ HI t1 sr u r Hin Hsu Hx Hl) as [x [Hx1 [Hx2 Hx3]]].
      exists x. split; auto. rewrite Hq in Hx1. destruct Hx1 as [<-|Hx1]; auto. congruence.
  - (* recovered *)
    intros u Hsu Hr. rewrite Hst in Hsu. unfold fupdN in Hsu.
    destruct (N.eqb u v) eqn:E; [discriminate|].
    destruct (i_recd _ _ HI u Hsu Hr) as [t1 [sr [r [H1 [H2 [H3 H4]]]]]].
    exists t1, sr, r. rewrite Htl. split; [right; auto|]. split; auto. split; auto. lra.
Qed.

(* one pop of the deterministic loop *)
Lemma step_det_inv : forall c s e q',
  Inv c s -> qu s = e :: q' -> (forall src v, qe e = ETrans src v -> In v (gnodes g)) ->
  Inv (qt e) (step_det tb g tmax delay dur e (set_qu s q')).
Proof.
  intros c s e q' HI Hq Hgn. unfold step_det.
  destruct (qe e) as [src v|u] eqn:He.
  - change (stat (set_qu s q') v) with (stat s v).
    destruct (N.eqb (stat s v) stS) eqn:E.
    + apply Neqb_true in E. apply (step_inf c s e q' src v HI Hq He E (Hgn src v eq_refl)).
    + apply N.eqb_neq in E. apply (step_skip c s e q' src v HI Hq He E).
  - apply (step_rec c s e q' u HI Hq He).
Qed.

End Inv.
