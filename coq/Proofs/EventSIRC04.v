(* Event-driven SIR, cross-cutting properties, part 3: the statements of C04 for
   fast_nonMarkov_SIR with table rules (esir_run / esir_det), for every tie policy. *)
From EoNV Require Import Prelude Samp Graph EventSIR EventSIRP EventSIRInv EventSIRMain EventSIRChar EventSIRTop EventSIRPred.
From EoNV Require Import Investigation EventSIRLog EventSIRRows EventSIRTraj.
From EoNV Require Gillespie GillespieP.
Require Import Lqa.

Lemma okb2_parts : forall g delay dur i0 r0 tmin tmax, esir_okb2 g delay dur i0 r0 tmin tmax = true ->
  esir_okb g delay dur i0 r0 tmin tmax = true /\ NoDup i0 /\ NoDup r0 /\ (forall u, In u r0 -> In u (gnodes g)).
Proof.
  intros g delay dur i0 r0 tmin tmax H. unfold esir_okb2 in H.
  apply andb_prop in H. destruct H as [H H4]. apply andb_prop in H. destruct H as [H H3].
  apply andb_prop in H. destruct H as [H1 H2].
  split; auto. split; [apply nodupb_NoDup; auto|]. split; [apply nodupb_NoDup; auto|]. apply subsetb_In. auto.
Qed.

(* everything the invariants say about the end of a run *)
Theorem esir_final : forall tb g delay dur i0 r0 tmin tmax fuel,
  esir_okb2 g delay dur i0 r0 tmin tmax = true -> (esir_fuel g i0 <= fuel)%nat ->
  exists sF cF evs,
    loop_log tb g tmax delay dur fuel (init_state tb g tmin tmax i0 r0) [] = Ok (sF, evs) /\
    esir_run tb g delay dur i0 r0 tmin tmax fuel = Ok sF /\
    qu sF = [] /\ Inv g tmax delay dur tmin i0 r0 cF sF /\ Inv2 tmin r0 sF /\ XI g tmax tmin i0 r0 cF evs sF.
Proof.
  intros tb g delay dur i0 r0 tmin tmax fuel Hok Hf.
  destruct (okb2_parts _ _ _ _ _ _ _ Hok) as [Hok1 [Hi [Hr Hrg]]].
  destruct (okb_parts g delay dur i0 r0 tmin tmax Hok1) as [H1 [H2 [H3 [H4 [H5 [H6 [H7 H8]]]]]]].
  apply esir_xrun; auto.
Qed.

Lemma esir_log_of : forall tb g delay dur i0 r0 tmin tmax fuel sF evs,
  loop_log tb g tmax delay dur fuel (init_state tb g tmin tmax i0 r0) [] = Ok (sF, evs) ->
  esir_log tb g delay dur i0 r0 tmin tmax fuel = Ok (rev evs).
Proof. intros. unfold esir_log. rewrite H. reflexivity. Qed.

(* ---------------- extensionality in the status map ---------------- *)
Lemma count_status_ext : forall nodes (st st' : node -> N) s, (forall u, st u = st' u) ->
  count_status nodes st s = count_status nodes st' s.
Proof.
  intros nodes st st' s H. unfold count_status. f_equal. f_equal. apply filter_ext. intros u. rewrite H. reflexivity.
Qed.

Lemma log_rows_ext : forall nodes ps l (st st' : node -> N), (forall u, st u = st' u) ->
  log_rows nodes ps st l = log_rows nodes ps st' l.
Proof.
  intros nodes ps l. induction l as [|e l IH]; intros st st' H; [reflexivity|]. cbn [log_rows].
  assert (H' : forall u, fupdN st (ev_u e) (ev_s e) u = fupdN st' (ev_u e) (ev_s e) u).
  { intros u. unfold fupdN. destruct (N.eqb u (ev_u e)); auto. }
  f_equal; [f_equal; apply map_ext; intros s; apply count_status_ext; exact H'|apply IH; exact H'].
Qed.

Lemma log_arrays_ext : forall nodes ps tmin l (st st' : node -> N), (forall u, st u = st' u) ->
  log_arrays nodes ps tmin st l = log_arrays nodes ps tmin st' l.
Proof.
  intros. unfold log_arrays. f_equal; [f_equal; apply map_ext; intros s; apply count_status_ext; auto|apply log_rows_ext; auto].
Qed.

Lemma last_app_ne : forall A (a b : list A) d, b <> [] -> last (a ++ b) d = last b d.
Proof.
  intros A a b d Hb. induction a as [|x a IH]; [reflexivity|]. cbn [app].
  destruct (a ++ b) eqn:E; [destruct a; [simpl in E; contradiction|discriminate]|]. rewrite <- IH. reflexivity.
Qed.

(* ---------------- C04 ---------------- *)
(* every run, both return modes, every tie policy: the returned rows are a well-formed
   trajectory, and they are the running census of the run's event log, replayed from the
   statuses before the initial infections, minus the first |I0| rows *)
Theorem esir_rows_traj : forall tb g delay dur i0 r0 tmin tmax full fuel,
  esir_okb2 g delay dur i0 r0 tmin tmax = true -> (esir_fuel g i0 <= fuel)%nat ->
  exists sF evs out cs,
    esir_run tb g delay dur i0 r0 tmin tmax fuel = Ok sF /\
    esir_log tb g delay dur i0 r0 tmin tmax fuel = Ok evs /\
    esir_det tb g delay dur i0 r0 tmin tmax full fuel = Ok (out, cs) /\
    so_rows out = skipn (length i0) (rev (rows sF)) /\
    rev (rows sF) = log_arrays (gnodes g) sir_ps tmin (esir_init [] r0) evs /\
    stat sF = replay (st00 r0) evs /\
    trajS g tmin tmax (so_rows out).
Proof.
  intros tb g delay dur i0 r0 tmin tmax full fuel Hok Hf.
  destruct (esir_final tb g delay dur i0 r0 tmin tmax fuel Hok Hf) as [sF [cF [evs [HL [HR [Hq [HI [H2 HX]]]]]]]].
  destruct (okb2_parts _ _ _ _ _ _ _ Hok) as [Hok1 [Hi [Hr Hrg]]].
  destruct (okb_parts g delay dur i0 r0 tmin tmax Hok1) as [H1 [H3 [H4 [H5 [H6 [H7 [H8 H9]]]]]]].
  destruct (fin_finish g tmax delay dur tmin i0 r0 sF cF HI H2 full) as [hs [Hfin _]].
  exists sF, (rev evs). eexists. eexists.
  split; [exact HR|]. split; [apply (esir_log_of _ _ _ _ _ _ _ _ _ _ _ HL)|].
  split; [unfold esir_det; rewrite HR; cbn [rbind]; exact Hfin|]. cbn [so_rows].
  split; [reflexivity|]. split; [|split].
  - rewrite (fin_rows g tmax tmin i0 r0 sF cF evs HX). unfold log_arrays. f_equal.
    + pose proof (row00_census g tmin r0 H1 Hr Hrg) as HC. unfold row00 in *. cbn [snd] in HC. rewrite HC. f_equal.
      change (census3 g (st00 r0)) with (map (count_status (gnodes g) (st00 r0)) sir_ps).
      apply map_ext. intros s. apply count_status_ext. intros u. rewrite st00_spec. reflexivity.
    + apply log_rows_ext. intros u. rewrite st00_spec. reflexivity.
  - apply (elock_replay g tmax (st00 r0) (row00 g tmin r0) _ _ _ _ (x_lock _ _ _ _ _ _ _ _ HX)).
  - apply (fin_out_traj g tmax delay dur tmin i0 r0 H9 H1 Hr Hrg Hi sF cF evs HI HX Hq).
Qed.

(* a legal move of an SIR run never increases S nor decreases R *)
Lemma move_SIR_monotone : forall c c', moveS c c' ->
  (Gillespie.cnt c' 0 <= Gillespie.cnt c 0)%Z /\ (Gillespie.cnt c 2 <= Gillespie.cnt c' 2)%Z.
Proof. intros c c' [E|E]; subst c'; cbn [Gillespie.cnt nth]; lia. Qed.

(* unbounded horizon and finite durations: the run ends without an infected node, and
   the last returned row says so *)
Theorem esir_unbounded_no_infected : forall tb g delay dur i0 r0 tmin full fuel,
  esir_okb2 g delay dur i0 r0 tmin None = true -> finite_dur g dur = true -> (esir_fuel g i0 <= fuel)%nat ->
  exists sF out cs,
    esir_run tb g delay dur i0 r0 tmin None fuel = Ok sF /\
    esir_det tb g delay dur i0 r0 tmin None full fuel = Ok (out, cs) /\
    (forall u, stat sF u <> stI) /\
    snd (last (so_rows out) (0, [])) = census3 g (stat sF) /\
    Gillespie.cnt (snd (last (so_rows out) (0, []))) 1 = 0%Z.
Proof.
  intros tb g delay dur i0 r0 tmin full fuel Hok Hfin Hf.
  destruct (esir_final tb g delay dur i0 r0 tmin None fuel Hok Hf) as [sF [cF [evs [HL [HR [Hq [HI [H2 HX]]]]]]]].
  destruct (okb2_parts _ _ _ _ _ _ _ Hok) as [Hok1 [Hi [Hr Hrg]]].
  destruct (okb_parts g delay dur i0 r0 tmin None Hok1) as [H1 [H3 [H4 [H5 [H6 [H7 [H8 H9]]]]]]].
  destruct (fin_finish g None delay dur tmin i0 r0 sF cF HI H2 full) as [hs [Hfn _]].
  exists sF. eexists. eexists. split; [exact HR|]. split; [unfold esir_det; rewrite HR; cbn [rbind]; exact Hfn|].
  assert (HnoI : forall u, stat sF u <> stI).
  { intros u HuI.
    assert (Hur : ~ In u r0).
    { intros Hu. destruct (i_r0 _ _ _ _ _ _ _ _ _ HI u Hu) as [HR' _]. rewrite HR' in HuI. discriminate. }
    assert (Hinf : infd (tlog sF) u).
    { apply (i_stat _ _ _ _ _ _ _ _ _ HI u Hur). rewrite HuI. discriminate. }
    destruct Hinf as [t [sr Hin]].
    assert (Hug : In u (gnodes g)).
    { apply (elock_tx_nodes g None (st00 r0) (row00 g tmin r0) _ _ _ _ (x_lock _ _ _ _ _ _ _ _ HX) t sr u Hin). }
    unfold finite_dur in Hfin. rewrite forallb_forall in Hfin. specialize (Hfin u Hug).
    destruct (dur u) as [d|] eqn:Hd; [|discriminate].
    destruct (i_recq _ _ _ _ _ _ _ _ _ HI t sr u (t + d) Hin HuI) as [x [Hx _]].
    - rewrite Hd. reflexivity.
    - reflexivity.
    - rewrite Hq in Hx. destruct Hx. }
  split; [exact HnoI|]. cbn [so_rows].
  destruct (elock_head g None (st00 r0) (row00 g tmin r0) _ _ _ _ (row00_census g tmin r0 H1 Hr Hrg) (x_lock _ _ _ _ _ _ _ _ HX))
    as [t0 [rest Hrows]].
  destruct (fin_suffix g None delay dur tmin i0 r0 H9 H1 Hr Hrg Hi sF cF evs HI HX Hq) as [r [b [E _]]].
  assert (Hlast : last (skipn (length i0) (rev (rows sF))) (0, []) = (t0, census3 g (stat sF))).
  { rewrite <- (last_app_ne _ (firstn (length i0) (rev (rows sF))) (skipn (length i0) (rev (rows sF))) (0, []))
      by (rewrite E; discriminate).
    rewrite firstn_skipn, Hrows. cbn [rev]. apply last_last. }
  rewrite Hlast. cbn [snd]. split; [reflexivity|].
  unfold GillespieP.census, GillespieP.cntst. cbn [Gillespie.cnt nth].
  rewrite filter_nil_all; [reflexivity|]. intros u _. apply N.eqb_neq. apply HnoI.
Qed.

(* ================================================================== *)
(* the first row: when the first |I0| events are the infections of I0  *)
Require Import Permutation.

Definition init_events (tmin : Q) (i0 : list node) : list event := map (fun u => (tmin, u, stI)) i0.

Lemma skipn_log_rows : forall nodes ps tmin a b st (r : row),
  Forall (fun e => ev_t e = tmin) a -> r = (tmin, map (count_status nodes st) ps) ->
  skipn (length a) (r :: log_rows nodes ps st (a ++ b)) = log_arrays nodes ps tmin (replay st a) b.
Proof.
  intros nodes ps tmin a. induction a as [|e a IH]; intros b st r HF E.
  - cbn. subst. reflexivity.
  - pose proof (Forall_inv HF) as He. pose proof (Forall_inv_tail HF) as HF'. cbn beta in He.
    cbn [length skipn app log_rows].
    change (replay st (e :: a)) with (replay (fupdN st (ev_u e) (ev_s e)) a).
    apply IH; [exact HF'|rewrite He; reflexivity].
Qed.

Lemma replay_inf : forall a st u, (forall e, In e a -> ev_s e = stI) ->
  replay st a u = if mem u (map ev_u a) then stI else st u.
Proof.
  induction a as [|e a IH]; intros st u H; [reflexivity|].
  cbn [replay fold_left map]. fold (replay (apply_event st e) a). rewrite IH by (intros x Hx; apply H; right; exact Hx).
  unfold mem. cbn [existsb]. fold (mem u (map ev_u a)).
  destruct (mem u (map ev_u a)); [rewrite orb_true_r; reflexivity|]. rewrite orb_false_r.
  unfold apply_event, fupdN. destruct (N.eqb u (ev_u e)); auto. apply H. left. reflexivity.
Qed.

Lemma mem_ext : forall u a b, (In u a <-> In u b) -> mem u a = mem u b.
Proof.
  intros u a b H. destruct (mem u a) eqn:Ea; destruct (mem u b) eqn:Eb; auto.
  - apply mem_In in Ea. apply H in Ea. apply mem_In in Ea. congruence.
  - apply mem_In in Eb. apply H in Eb. apply mem_In in Eb. congruence.
Qed.

Lemma init_events_nodes : forall tmin i0, map ev_u (init_events tmin i0) = i0.
Proof. intros. unfold init_events. rewrite map_map. cbn. apply map_id. Qed.

Lemma init_events_In : forall tmin i0 e, In e (init_events tmin i0) -> ev_t e = tmin /\ ev_s e = stI /\ In (ev_u e) i0.
Proof. intros tmin i0 e H. apply in_map_iff in H. destruct H as [u [<- Hu]]. auto. Qed.

Lemma replay_init : forall tmin i0 r0 LA, (forall u, In u i0 -> ~ In u r0) ->
  Permutation LA (init_events tmin i0) -> forall u, replay (st00 r0) LA u = esir_init i0 r0 u.
Proof.
  intros tmin i0 r0 LA Hdisj HP u. rewrite replay_inf.
  2:{ intros e He. apply (Permutation_in _ HP) in He. apply init_events_In in He. apply He. }
  assert (Hm : mem u (map ev_u LA) = mem u i0).
  { apply mem_ext. pose proof (Permutation_map ev_u HP) as HPm. rewrite init_events_nodes in HPm.
    split; apply Permutation_in; [exact HPm|apply Permutation_sym; exact HPm]. }
  rewrite Hm, st00_spec. unfold esir_init.
  destruct (mem u i0) eqn:Ei; destruct (mem u r0) eqn:Er; auto.
  apply mem_In in Ei. apply mem_In in Er. exfalso. eapply Hdisj; eauto.
Qed.

Lemma esir_init_census : forall g i0 r0, NoDup (gnodes g) -> NoDup i0 -> NoDup r0 ->
  (forall u, In u i0 -> In u (gnodes g)) -> (forall u, In u r0 -> In u (gnodes g)) ->
  (forall u, In u i0 -> ~ In u r0) ->
  map (count_status (gnodes g) (esir_init i0 r0)) sir_ps =
  [order g - Z.of_nat (length i0) - Z.of_nat (length r0); Z.of_nat (length i0); Z.of_nat (length r0)]%Z.
Proof.
  intros g i0 r0 Hgn Hi Hr Hig Hrg Hdisj. unfold sir_ps, count_status. cbn [map].
  assert (HR : length (filter (fun u => N.eqb (esir_init i0 r0 u) stR) (gnodes g)) = length r0).
  { rewrite <- (GillespieP.count_mem r0 (gnodes g) Hr Hgn) by (intros x Hx; apply Hrg; exact Hx).
    f_equal. apply filter_ext. intros u. unfold esir_init. destruct (mem u r0); [reflexivity|]. destruct (mem u i0); reflexivity. }
  assert (HI : length (filter (fun u => N.eqb (esir_init i0 r0 u) stI) (gnodes g)) = length i0).
  { rewrite <- (GillespieP.count_mem i0 (gnodes g) Hi Hgn) by (intros x Hx; apply Hig; exact Hx).
    f_equal. apply filter_ext. intros u. unfold esir_init.
    destruct (mem u r0) eqn:Er; destruct (mem u i0) eqn:Ei; try reflexivity.
    apply mem_In in Ei. apply mem_In in Er. exfalso. eapply Hdisj; eauto. }
  pose proof (GillespieP.partition3 (esir_init i0 r0) (gnodes g)) as Hp.
  assert (H3 : forall x, esir_init i0 r0 x = stS \/ esir_init i0 r0 x = stI \/ esir_init i0 r0 x = stR).
  { intros x. unfold esir_init. destruct (mem x r0); auto. destruct (mem x i0); auto. }
  specialize (Hp H3). rewrite HR, HI in *. unfold order. f_equal. lia.
Qed.

Lemma pos_init_spec : forall g delay dur i0, pos_init g delay dur i0 = true ->
  forall u, In u i0 -> (forall d, dur u = Some d -> 0 < d) /\
                       (forall v d, In v (gadj g u) -> delay u v = Some d -> 0 < d).
Proof.
  intros g delay dur i0 H u Hu. unfold pos_init in H. rewrite forallb_forall in H. specialize (H u Hu).
  apply andb_prop in H. destruct H as [H1 H2]. split.
  - intros d Hd. rewrite Hd in H1. simpl in H1. apply Qltb_true. exact H1.
  - intros v d Hv Hd. rewrite forallb_forall in H2. specialize (H2 v Hv). rewrite Hd in H2. simpl in H2.
    apply Qltb_true. exact H2.
Qed.

(* with positive delays and durations of the initial nodes, only they are infected at tmin *)
Lemma sound_tmin_i0 : forall g delay dur tmin i0 r0,
  (forall u v d, In u (gnodes g) -> In v (gadj g u) -> delay u v = Some d -> 0 <= d) ->
  pos_init g delay dur i0 = true ->
  forall l, sound_log g delay dur tmin i0 r0 l -> (forall t s v, In (t, s, v) l -> tmin <= t) ->
  forall t s v, In (t, s, v) l -> t == tmin -> In v i0.
Proof.
  intros g delay dur tmin i0 r0 Hdelay Hpos l. induction l as [|[[t1 s1] v1] l IH]; intros Hs Hge t s v Hin Ht.
  - destruct Hin.
  - cbn [sound_log] in Hs. destruct Hs as [Hj Hs].
    assert (Hge' : forall t s v, In (t, s, v) l -> tmin <= t) by (intros; eapply Hge; right; eauto).
    destruct Hin as [E|Hin]; [|eapply IH; eauto]. inversion E; subst t1 s1 v1. clear E.
    destruct s as [u|]; [|apply Hj]. exfalso.
    destruct Hj as [tu [su [d [Hu [Hh Htd]]]]].
    pose proof (Hge' tu su u Hu) as Htu.
    destruct Hh as [Hug [Hva [_ [Hd _]]]]. pose proof (Hdelay u v d Hug Hva Hd) as Hd0.
    assert (Hui : In u i0) by (apply (IH Hs Hge' tu su u Hu); lra).
    destruct (pos_init_spec g delay dur i0 Hpos u Hui) as [_ Hp]. pose proof (Hp v d Hva Hd). lra.
Qed.

Lemma NoDup_app_r : forall A (a b : list A), NoDup (a ++ b) -> NoDup b.
Proof. intros A a b. induction a as [|x a IH]; cbn [app]; intros H; [exact H|]. inversion H; subst. auto. Qed.

Section Start.
Variable tb : tiepolicy.
Variable g : graph.
Variable tmax : xtime.
Variable delay : node -> node -> xtime.
Variable dur : node -> xtime.
Variable tmin : Q.
Variables i0 r0 : list node.

Hypothesis Hdelay : forall u v d, In u (gnodes g) -> In v (gadj g u) -> delay u v = Some d -> 0 <= d.
Hypothesis Hdur : forall u d, In u (gnodes g) -> dur u = Some d -> 0 <= d.
Hypothesis Hadj : forall u, In u (gnodes g) -> NoDup (gadj g u).
Hypothesis Hdisj : forall u, In u i0 -> ~ In u r0.
Hypothesis Htmin : ltmax tmax tmin.
Hypothesis Hgn : NoDup (gnodes g).
Hypothesis Hi0g : forall u, In u i0 -> In u (gnodes g).
Hypothesis Hadjg : forall u v, In u (gnodes g) -> In v (gadj g u) -> In v (gnodes g).
Hypothesis Hr0nd : NoDup r0.
Hypothesis Hr0g : forall u, In u r0 -> In u (gnodes g).
Hypothesis Hi0nd : NoDup i0.

Notation INV := (Inv g tmax delay dur tmin i0 r0).
Notation XINV := (XI g tmax tmin i0 r0).
Notation ST00 := (st00 r0).
Notation ROW00 := (row00 g tmin r0).

Variables (sF : est) (cF : Q) (evs : list event).
Hypothesis HI : INV cF sF.
Hypothesis H2 : Inv2 tmin r0 sF.
Hypothesis HX : XINV cF evs sF.
Hypothesis Hq : qu sF = [].

Let HL := x_lock _ _ _ _ _ _ _ _ HX.
Let H00 := row00_census g tmin r0 Hgn Hr0nd Hr0g.

(* the statement "the run starts from the requested statuses" *)
Definition starts_ok : Prop :=
  exists LA LB, rev evs = LA ++ LB /\ Permutation LA (init_events tmin i0).

Lemma start_rows : forall LA LB, rev evs = LA ++ LB -> Permutation LA (init_events tmin i0) ->
  length LA = length i0 /\
  skipn (length i0) (rev (rows sF)) = log_arrays (gnodes g) sir_ps tmin (esir_init i0 r0) LB /\
  (forall u, replay ST00 LA u = esir_init i0 r0 u).
Proof.
  intros LA LB E HP.
  assert (Hlen : length LA = length i0).
  { rewrite (Permutation_length HP). unfold init_events. apply map_length. }
  split; [exact Hlen|]. split; [|apply (replay_init tmin); auto].
  rewrite (fin_rows g tmax tmin i0 r0 sF cF evs HX), E, <- Hlen.
  rewrite (skipn_log_rows (gnodes g) sir_ps tmin LA LB ST00 ROW00).
  - apply log_arrays_ext. apply (replay_init tmin); auto.
  - apply Forall_forall. intros e He. apply (Permutation_in _ HP) in He. apply init_events_In in He. apply He.
  - unfold row00 in *. cbn [snd] in H00. rewrite H00. reflexivity.
Qed.

Lemma perm_of_len : forall B A, evs = B ++ A -> (forall u, In u i0 -> In (tmin, u, stI) A) ->
  (length A <= length i0)%nat -> starts_ok.
Proof.
  intros B A E Hin Hlen. exists (rev A), (rev B). split; [rewrite E; apply rev_app_distr|].
  apply Permutation_sym. eapply Permutation_trans; [|apply Permutation_rev].
  apply NoDup_Permutation_bis.
  - apply (map_inj_NoDup tmin). exact Hi0nd.
  - unfold init_events. rewrite map_length. exact Hlen.
  - intros x Hx. apply in_map_iff in Hx. destruct Hx as [u [<- Hu]]. auto.
Qed.

(* (a) no two events at the same instant after the first |I0| ones *)
Lemma start_strict : increasing tmin (skipn (length i0) (rev evs)) = true -> starts_ok.
Proof.
  intros Hinc.
  destruct (fin_phase g tmax delay dur tmin i0 r0 Htmin Hgn Hr0nd Hr0g Hi0nd sF cF evs HI HX Hq)
    as [B [A [E [HA [HB [Hin Hlen]]]]]].
  apply (perm_of_len B A E Hin).
  destruct (le_lt_dec (length A) (length i0)) as [Hle|Hlt]; [exact Hle|exfalso].
  rewrite E, rev_app_distr in Hinc.
  destruct (skipn_head_prop event (fun e => at_tmin tmin e = true) (rev A) (rev B) (length i0)) as [r [b [Es Hr]]].
  - apply Forall_rev. exact HA.
  - rewrite rev_length. exact Hlt.
  - rewrite Es in Hinc. cbn [increasing] in Hinc. apply andb_prop in Hinc. destruct Hinc as [Hinc _].
    apply Qltb_true in Hinc. apply at_tmin_true in Hr. lra.
Qed.

(* an infectious node has an infection event *)
Lemma elock_inf_ev : forall evs0 txs rws st, elock g tmax ST00 ROW00 evs0 txs rws st ->
  forall u, st u = stI -> exists t, In (t, u, stI) evs0.
Proof.
  intros evs0 txs rws st H. induction H as [|evs0 txs rws st t u H IH Hu Hug Ht Hx|evs0 txs rws st t src v H IH Hv Hvg Ht Hx]; intros w Hw.
  - rewrite st00_spec in Hw. destruct (mem w r0); discriminate.
  - unfold fupdN in Hw. destruct (N.eqb w u); [discriminate|]. destruct (IH w Hw) as [t1 H1]. exists t1. right. exact H1.
  - unfold fupdN in Hw. destruct (N.eqb w v) eqn:Ew.
    + apply N.eqb_eq in Ew. subst w. exists t. left. reflexivity.
    + destruct (IH w Hw) as [t1 H1]. exists t1. right. exact H1.
Qed.

Lemma elock_rec_inf : forall evs0 txs rws st, elock g tmax ST00 ROW00 evs0 txs rws st ->
  forall t u, In (t, u, stR) evs0 -> exists t', In (t', u, stI) evs0.
Proof.
  intros evs0 txs rws st H. induction H as [|evs0 txs rws st t u H IH Hu Hug Ht Hx|evs0 txs rws st t src v H IH Hv Hvg Ht Hx]; intros t1 w Hw.
  - destruct Hw.
  - destruct Hw as [E|Hw].
    + inversion E; subst t1 w. destruct (elock_inf_ev _ _ _ _ H u Hu) as [t' H']. exists t'. right. exact H'.
    + destruct (IH t1 w Hw) as [t' H']. exists t'. right. exact H'.
  - destruct Hw as [E|Hw]; [inversion E|]. destruct (IH t1 w Hw) as [t' H']. exists t'. right. exact H'.
Qed.

(* (b) the initial nodes have positive durations and delays *)
Lemma start_pos : pos_init g delay dur i0 = true -> starts_ok.
Proof.
  intros Hpos.
  destruct (fin_phase g tmax delay dur tmin i0 r0 Htmin Hgn Hr0nd Hr0g Hi0nd sF cF evs HI HX Hq)
    as [B [A [E [HA [HB [Hin Hlen]]]]]].
  apply (perm_of_len B A E Hin).
  destruct (elock_tx g tmax ST00 ROW00 _ _ _ _ HL) as [Etx [Hst Hnodes]].
  destruct (elock_times g tmin tmax ST00 ROW00 H00 eq_refl _ _ _ _ HL) as [_ [Hge _]].
  assert (Htlge : forall t s v, In (t, s, v) (tlog sF) -> tmin <= t).
  { intros t s v Hx. apply (Hge (t, v, stI)). apply (elock_tx_ev g tmax ST00 ROW00 _ _ _ _ HL t s v Hx). }
  assert (Hinf_i0 : forall t v, In (t, v, stI) evs -> t == tmin -> In v i0).
  { intros t v Hx Ht. destruct (elock_ev_tx g tmax ST00 ROW00 _ _ _ _ HL t v Hx) as [sr Hsr].
    apply (sound_tmin_i0 g delay dur tmin i0 r0 Hdelay Hpos (tlog sF) (i_sound _ _ _ _ _ _ _ _ _ HI) Htlge t sr v Hsr Ht). }
  assert (HAinf : forall e, In e A -> ev_s e = stI /\ In (ev_u e) i0).
  { intros [[t u] s] He. rewrite Forall_forall in HA. pose proof (HA _ He) as Ht. apply at_tmin_true in Ht. cbn [ev_t fst] in Ht.
    assert (Hev : In (t, u, s) evs) by (rewrite E; apply in_or_app; right; exact He).
    destruct (Hst _ Hev) as [Hs|Hs]; cbn [ev_s snd] in Hs; subst s; cbn [ev_s ev_u fst snd].
    - split; [reflexivity|]. apply (Hinf_i0 t u Hev Ht).
    - exfalso. destruct (x_rec _ _ _ _ _ _ _ _ HX t u Hev) as [Hrect _].
      destruct (elock_rec_inf _ _ _ _ HL t u Hev) as [t' Ht'].
      destruct (elock_ev_tx g tmax ST00 ROW00 _ _ _ _ HL t' u Ht') as [sr Hsr].
      pose proof (i_rect _ _ _ _ _ _ _ _ _ HI t' sr u Hsr) as Hr. rewrite Hrect in Hr.
      injection Hr as Hr. symmetry in Hr. apply xadd_some in Hr. destruct Hr as [d [Hd Htd]].
      pose proof (Htlge t' sr u Hsr) as Hge'.
      assert (Hug : In u (gnodes g)) by (apply (elock_tx_nodes g tmax ST00 ROW00 _ _ _ _ HL t' sr u Hsr)).
      pose proof (Hdur u d Hug Hd) as Hd0.
      assert (Hui : In u i0) by (apply (Hinf_i0 t' u Ht'); rewrite Htd in Ht; lra).
      destruct (pos_init_spec g delay dur i0 Hpos u Hui) as [Hp _]. pose proof (Hp d Hd). rewrite Htd in Ht. lra. }
  assert (HAf : filter is_inf A = A).
  { clear -HAinf. induction A as [|e A' IH]; [reflexivity|]. cbn [filter]. unfold is_inf at 1.
    destruct (HAinf e (or_introl eq_refl)) as [Hs _]. rewrite Hs. cbn. f_equal. apply IH. intros x Hx. apply HAinf. right. exact Hx. }
  assert (HndA : NoDup (map ev_u A)).
  { pose proof (i_nodup _ _ _ _ _ _ _ _ _ HI) as Hnd.
    assert (Hm : map ev_u (filter is_inf evs) = map snd (tlog sF)).
    { rewrite <- Etx, map_map. apply map_ext. intros [[t s] v]. reflexivity. }
    rewrite <- Hm, E, filter_app, HAf, map_app in Hnd. apply NoDup_app_r in Hnd. exact Hnd. }
  rewrite <- (map_length ev_u A). apply NoDup_incl_length; [exact HndA|].
  intros u Hu. apply in_map_iff in Hu. destruct Hu as [e [<- He]]. apply (HAinf e He).
Qed.

End Start.

Lemma firstn_len_app : forall A (a b : list A), firstn (length a) (a ++ b) = a.
Proof. intros A a b. induction a as [|x a IH]; [reflexivity|]. cbn. f_equal. exact IH. Qed.
Lemma skipn_len_app : forall A (a b : list A), skipn (length a) (a ++ b) = b.
Proof. intros A a b. induction a as [|x a IH]; [reflexivity|]. cbn. exact IH. Qed.

(* when does the run start from the requested statuses?  For every tie policy: when the
   initially infected nodes have positive durations and positive delays to their neighbours,
   or when no two events after the first |I0| share an instant (none at tmin) *)
Definition start_cond (g : graph) (delay : node -> node -> xtime) (dur : node -> xtime)
    (i0 : list node) (tmin : Q) (evs : list event) : Prop :=
  pos_init g delay dur i0 = true \/ increasing tmin (skipn (length i0) evs) = true.

Theorem esir_rows_start : forall tb g delay dur i0 r0 tmin tmax full fuel,
  esir_okb2 g delay dur i0 r0 tmin tmax = true -> (esir_fuel g i0 <= fuel)%nat ->
  exists evs out cs,
    esir_log tb g delay dur i0 r0 tmin tmax fuel = Ok evs /\
    esir_det tb g delay dur i0 r0 tmin tmax full fuel = Ok (out, cs) /\
    (start_cond g delay dur i0 tmin evs ->
       Permutation (firstn (length i0) evs) (init_events tmin i0) /\
       so_rows out = log_arrays (gnodes g) sir_ps tmin (esir_init i0 r0) (skipn (length i0) evs) /\
       exists rest, so_rows out =
         (tmin, [order g - Z.of_nat (length i0) - Z.of_nat (length r0); Z.of_nat (length i0); Z.of_nat (length r0)]%Z) :: rest).
Proof.
  intros tb g delay dur i0 r0 tmin tmax full fuel Hok Hf.
  destruct (esir_final tb g delay dur i0 r0 tmin tmax fuel Hok Hf) as [sF [cF [evs [HL [HR [Hq [HI [H2 HX]]]]]]]].
  destruct (okb2_parts _ _ _ _ _ _ _ Hok) as [Hok1 [Hi [Hr Hrg]]].
  destruct (okb_parts g delay dur i0 r0 tmin tmax Hok1) as [H1 [H3 [H4 [H5 [H6 [H7 [H8 H9]]]]]]].
  destruct (fin_finish g tmax delay dur tmin i0 r0 sF cF HI H2 full) as [hs [Hfin _]].
  exists (rev evs). eexists. eexists.
  split; [apply (esir_log_of _ _ _ _ _ _ _ _ _ _ _ HL)|].
  split; [unfold esir_det; rewrite HR; cbn [rbind]; exact Hfin|]. cbn [so_rows].
  intros Hc.
  assert (Hs : starts_ok tmin i0 evs).
  { destruct Hc as [Hc|Hc].
    - apply (start_pos g tmax delay dur tmin i0 r0 H6 H5 H9 H1 Hr Hrg Hi sF cF evs HI HX Hq Hc).
    - apply (start_strict g tmax delay dur tmin i0 r0 H9 H1 Hr Hrg Hi sF cF evs HI HX Hq Hc). }
  destruct Hs as [LA [LB [E HP]]].
  destruct (start_rows g tmax tmin i0 r0 H8 H1 Hr Hrg sF cF evs HX LA LB E HP) as [Hlen [Hrows _]].
  rewrite E, <- Hlen, firstn_len_app, skipn_len_app. split; [exact HP|]. rewrite Hlen. split; [exact Hrows|].
  rewrite Hrows. unfold log_arrays. rewrite (esir_init_census g i0 r0 H1 Hi Hr H7 Hrg H8). eexists. reflexivity.
Qed.
