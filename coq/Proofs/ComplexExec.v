(* Gillespie_complex_contagion under EVERY draw script, with the calls it makes to the random
   source and to the user's three functions.
   [crun t s calls t' s'] : from the loop head (clock t, state s) a sequence of steps leads to the
   loop head (t', s').  One [cstep]: the sum of the current rates is positive; the waiting time is
   drawn with total_weight() of nodes_by_rate (== that sum); t1 = t + d < tmax; choose_random is
   offered the nodes with a positive current rate and returns one of them, u; apply_event sets
   status[u] to transition_choice's answer on the statuses BEFORE, then re-rates u and its
   influence set on the statuses AFTER.
   [clog]: the chronological event list of a run; the rows, the node histories and the log of
   user-function calls are functions of it. *)
From EoNV Require Import Prelude Samp Graph ListDict ListDictP Gillespie KldP SampP Complex ComplexP SimpleExecS.
From Coq Require Import Permutation Lqa.

Section CX.
Variable g : graph.
Variable rate : smap -> node -> Q.
Variable choice : smap -> node -> N.
Variable infl : smap -> node -> list node.
Variable rstats : list N.
Variable tmin : Q.
Variable tmax : xtime.
Variable full : bool.
Hypothesis Hnd : NoDup (gnodes g).
Hypothesis rate_nonneg : forall st u, 0 <= rate st u.
Hypothesis infl_in : forall st u v, In u (gnodes g) -> In v (infl st u) -> In v (gnodes g).
Hypothesis covers : influence_covers g rate infl.

Definition cstep (t : Q) (s : cst) (l : list call) (t1 : Q) (s1 : cst) : Prop :=
  0 < total_rate g rate (cstat s) /\
  exists d u l0,
    0 <= d /\ t1 = t + d /\ xlt t1 tmax = true /\ In u (gnodes g) /\ 0 < rate (cstat s) u /\
    apply_event g rate choice infl rstats full t1 u s = Ok s1 /\
    l = CExpo (ld_total_weight key (cnbr s)) :: l0 /\
    choose_calls true (kl_cands (cnbr s)) l0.

Inductive crun : Q -> cst -> list call -> Q -> cst -> Prop :=
| crun_refl : forall t s, crun t s [] t s
| crun_step : forall t s l1 t1 s1 l2 t2 s2,
    cstep t s l1 t1 s1 -> crun t1 s1 l2 t2 s2 -> crun t s (l1 ++ l2) t2 s2.

Definition cstop (t : Q) (s : cst) (l : list call) : Prop :=
  (total_rate g rate (cstat s) == 0 /\ l = []) \/
  (0 < total_rate g rate (cstat s) /\ l = [CExpo (ld_total_weight key (cnbr s))] /\
   exists d, 0 <= d /\ xlt (t + d) tmax = false).

Lemma cfinish_reacht : forall st0 s l out, reacht (cfinish g rstats tmin full st0 s) l out ->
  cfinish g rstats tmin full st0 s = Ret out /\ l = [].
Proof.
  intros st0 s l out H. destruct (cfinish_cases g rstats tmin full st0 s) as [[o [E _]]|[_ [e [E _]]]]; rewrite E in H.
  - apply reacht_ret_inv in H. destruct H as [Eo El]. subst o. split; [exact E|exact El].
  - exfalso. exact (reacht_fail_inv _ _ _ _ H).
Qed.

Lemma cfinish_rerr : forall st0 s e, rerr (cfinish g rstats tmin full st0 s) e ->
  full = true /\ (e = KeyErr \/ e = IndexErr).
Proof.
  intros st0 s e H. destruct (cfinish_cases g rstats tmin full st0 s) as [[o [E _]]|[Hf [e0 [E He]]]]; rewrite E in H.
  - exfalso. exact (rerr_ret_inv _ _ _ H).
  - apply rerr_fail_inv in H. subst e0. split; assumption.
Qed.

Lemma total_pos_iff : forall s, cinv g rate s ->
  (Qltb 0 (ld_total_weight key (cnbr s)) = true <-> 0 < total_rate g rate (cstat s)).
Proof.
  intros s Hi. pose proof (total_inv g rate Hnd rate_nonneg s Hi) as Ht. split; intro H.
  - apply Qltb_true in H. rewrite <- Ht. exact H.
  - apply Qltb_true. rewrite Ht. exact H.
Qed.

(* one event of the loop, seen through the program *)
Lemma event_reacht : forall st0 f t1 s l out, cinv g rate s ->
  reacht (event g rate choice infl rstats full t1 s (fun s' => cloop g rate choice infl rstats tmin tmax full st0 f t1 s')) l out ->
  exists u s1 l0 l', l = l0 ++ l' /\ In u (gnodes g) /\ 0 < rate (cstat s) u /\
    apply_event g rate choice infl rstats full t1 u s = Ok s1 /\ cinv g rate s1 /\
    choose_calls true (kl_cands (cnbr s)) l0 /\
    reacht (cloop g rate choice infl rstats tmin tmax full st0 f t1 s1) l' out.
Proof.
  intros st0 f t1 s l out Hi H. unfold event in H.
  apply reacht_bind in H. destruct H as [[u ns] [la [lb [El [Ha Hb]]]]].
  rewrite jump_eq in Ha. apply reacht_choose_inv in Ha.
  destruct Ha as [x [q [l0 [l1 [Ela [Hin [Hq [Hc Hr]]]]]]]].
  destruct (cands_positive g rate Hnd s x q Hi Hin) as [v [Ex [Hv [Hqp Hqr]]]]. subst x.
  unfold jump_k, keynode, knode in Hr. apply reacht_ret_inv in Hr. destruct Hr as [Er El1].
  injection Er as Eu Ens. subst v l1. cbn [fst] in Hb.
  destruct (apply_event_inv g rate choice infl rstats full rate_nonneg infl_in covers t1 u s Hi Hv) as [s1 [He [Hi1 _]]].
  rewrite He in Hb. cbn [liftc] in Hb.
  exists u, s1, l0, lb. split; [rewrite El, Ela, app_nil_r; reflexivity|]. split; [exact Hv|].
  split; [rewrite <- Hqr; exact Hqp|]. split; [exact He|]. split; [exact Hi1|]. split; [exact Hc|exact Hb].
Qed.

Lemma event_rerr : forall st0 f t1 s e, cinv g rate s -> 0 < total_rate g rate (cstat s) ->
  rerr (event g rate choice infl rstats full t1 s (fun s' => cloop g rate choice infl rstats tmin tmax full st0 f t1 s')) e ->
  exists u s1, In u (gnodes g) /\ apply_event g rate choice infl rstats full t1 u s = Ok s1 /\ cinv g rate s1 /\
    0 < rate (cstat s) u /\ (exists l0, choose_calls true (kl_cands (cnbr s)) l0) /\
    rerr (cloop g rate choice infl rstats tmin tmax full st0 f t1 s1) e.
Proof.
  intros st0 f t1 s e Hi Hpos H. unfold event in H. apply rerr_bind in H. destruct H as [H|[[u ns] [la [Ha Hb]]]].
  - exfalso. rewrite jump_eq in H. apply rerr_choose_inv in H. destruct H as [[Ec _]|[x [q [Hin [_ Hr]]]]].
    + exact (cands_nonempty g rate Hnd rate_nonneg s Hi Hpos Ec).
    + destruct (cands_positive g rate Hnd s x q Hi Hin) as [v [Ex _]]. subst x.
      unfold jump_k, keynode, knode in Hr. exact (rerr_ret_inv _ _ _ Hr).
  - rewrite jump_eq in Ha. apply reacht_choose_inv in Ha.
    destruct Ha as [x [q [l0 [l1 [Ela [Hin [Hq [Hc Hr]]]]]]]].
    destruct (cands_positive g rate Hnd s x q Hi Hin) as [v [Ex [Hv [Hqp Hqr]]]]. subst x.
    unfold jump_k, keynode, knode in Hr. apply reacht_ret_inv in Hr. destruct Hr as [Er El1].
    injection Er as Eu Ens. subst v. cbn [fst] in Hb.
    destruct (apply_event_inv g rate choice infl rstats full rate_nonneg infl_in covers t1 u s Hi Hv) as [s1 [He [Hi1 _]]].
    rewrite He in Hb. cbn [liftc] in Hb.
    exists u, s1. split; [exact Hv|]. split; [exact He|]. split; [exact Hi1|].
    split; [rewrite <- Hqr; exact Hqp|]. split; [exists l0; exact Hc|exact Hb].
Qed.

Lemma cloop_reacht : forall st0 fuel t s l out, cinv g rate s ->
  reacht (cloop g rate choice infl rstats tmin tmax full st0 fuel t s) l out ->
  exists l1 l2 t' s', l = l1 ++ l2 /\ crun t s l1 t' s' /\ cstop t' s' l2 /\ cinv g rate s' /\
                      cfinish g rstats tmin full st0 s' = Ret out.
Proof.
  intro st0. induction fuel as [|f IH]; intros t s l out Hi H; rewrite cloop_unfold in H;
    destruct (Qltb 0 (ld_total_weight key (cnbr s))) eqn:Et.
  - apply (total_pos_iff s Hi) in Et.
    apply reacht_expo_inv in H. destruct H as [d [l' [El [Hr [Hd Hk]]]]]. subst l. unfold loop_body in Hk.
    destruct (xlt (t + d) tmax) eqn:Ex; [exfalso; exact (reacht_fail_inv _ _ _ _ Hk)|].
    apply cfinish_reacht in Hk. destruct Hk as [Ef El]. subst l'.
    exists [], [CExpo (ld_total_weight key (cnbr s))], t, s. split; [reflexivity|]. split; [constructor|].
    split; [|split; assumption]. right. split; [exact Et|]. split; [reflexivity|]. exists d. split; assumption.
  - apply cfinish_reacht in H. destruct H as [Ef El]. subst l.
    exists [], [], t, s. split; [reflexivity|]. split; [constructor|]. split; [|split; assumption]. left. split; [|reflexivity].
    apply Qltb_false in Et. rewrite (total_inv g rate Hnd rate_nonneg s Hi) in Et.
    apply Qle_antisym; [exact Et|apply (total_rate_nonneg g rate rate_nonneg)].
  - apply (total_pos_iff s Hi) in Et.
    apply reacht_expo_inv in H. destruct H as [d [l' [El [Hr [Hd Hk]]]]]. subst l. unfold loop_body in Hk.
    destruct (xlt (t + d) tmax) eqn:Ex.
    + destruct (event_reacht st0 f (t + d) s l' out Hi Hk) as [u [s1 [l0 [lb [El [Hu [Hru [He [Hi1 [Hc Hb]]]]]]]]]].
      destruct (IH (t + d) s1 lb out Hi1 Hb) as [l1 [l2 [t' [s' [Elb [Hrun [Hstop [Hi' Hfin]]]]]]]].
      exists ((CExpo (ld_total_weight key (cnbr s)) :: l0) ++ l1), l2, t', s'. split.
      { rewrite El, Elb. cbn [app]. rewrite <- app_assoc. reflexivity. }
      split; [|split; [exact Hstop|split; assumption]].
      eapply crun_step; [|exact Hrun]. split; [exact Et|].
      exists d, u, l0. repeat split; assumption.
    + apply cfinish_reacht in Hk. destruct Hk as [Ef El]. subst l'.
      exists [], [CExpo (ld_total_weight key (cnbr s))], t, s. split; [reflexivity|]. split; [constructor|].
      split; [|split; assumption]. right. split; [exact Et|]. split; [reflexivity|]. exists d. split; assumption.
  - apply cfinish_reacht in H. destruct H as [Ef El]. subst l.
    exists [], [], t, s. split; [reflexivity|]. split; [constructor|]. split; [|split; assumption]. left. split; [|reflexivity].
    apply Qltb_false in Et. rewrite (total_inv g rate Hnd rate_nonneg s Hi) in Et.
    apply Qle_antisym; [exact Et|apply (total_rate_nonneg g rate rate_nonneg)].
Qed.

Lemma cloop_rerr : forall st0 fuel t s e, cinv g rate s ->
  rerr (cloop g rate choice infl rstats tmin tmax full st0 fuel t s) e ->
  e = OutOfFuel \/ (full = true /\ (e = KeyErr \/ e = IndexErr)).
Proof.
  intro st0. induction fuel as [|f IH]; intros t s e Hi H; rewrite cloop_unfold in H;
    destruct (Qltb 0 (ld_total_weight key (cnbr s))) eqn:Et.
  - apply rerr_expo_inv in H. destruct H as [[Hr0 _]|[d [Hr [Hd Hk]]]].
    { apply Qltb_true in Et. rewrite Hr0 in Et. exfalso. exact (Qlt_irrefl 0 Et). }
    unfold loop_body in Hk. destruct (xlt (t + d) tmax); [left; exact (rerr_fail_inv _ _ _ Hk)|right; exact (cfinish_rerr st0 s e Hk)].
  - right. exact (cfinish_rerr st0 s e H).
  - pose proof (proj1 (total_pos_iff s Hi) Et) as Hpos.
    apply rerr_expo_inv in H. destruct H as [[Hr0 _]|[d [Hr [Hd Hk]]]].
    { apply Qltb_true in Et. rewrite Hr0 in Et. exfalso. exact (Qlt_irrefl 0 Et). }
    unfold loop_body in Hk. destruct (xlt (t + d) tmax); [|right; exact (cfinish_rerr st0 s e Hk)].
    destruct (event_rerr st0 f (t + d) s e Hi Hpos Hk) as [u [s1 [_ [_ [Hi1 [_ [_ Hb]]]]]]].
    exact (IH (t + d) s1 e Hi1 Hb).
  - right. exact (cfinish_rerr st0 s e H).
Qed.

(* ------------------------------------------------------------------ *)
(* the event log of a run and what the state records of it             *)

(* chronological events (time, node): each node has a positive rate in the statuses of its
   moment; the status map moves by the chooser's answer on the statuses before the event *)
Inductive clog : smap -> Q -> list (Q * node) -> smap -> Q -> Prop :=
| cl_nil : forall st t, clog st t [] st t
| cl_cons : forall st t t1 u l st' t', t <= t1 -> xlt t1 tmax = true -> In u (gnodes g) -> 0 < rate st u ->
    clog (fupdN st u (choice st u)) t1 l st' t' -> clog st t ((t1, u) :: l) st' t'.

(* the calls to the user's functions that one event makes, in order: transition_choice on the
   statuses before; then, on the statuses after: rate_function at the node, get_influence_set at
   the node, rate_function at every member of the influence set *)
Definition ev_calls (st : smap) (u : node) : list ucall :=
  let st' := fupdN st u (choice st u) in
  call_choice g st u :: call_rate g st' u :: call_infl g st' u :: map (call_rate g st') (infl st' u).

Fixpoint run_calls (st : smap) (evs : list (Q * node)) : list ucall :=
  match evs with
  | [] => []
  | e :: r => ev_calls st (snd e) ++ run_calls (fupdN st (snd e) (choice st (snd e))) r
  end.

Fixpoint ev_elog (st : smap) (evs : list (Q * node)) : list (Q * node * N) :=
  match evs with
  | [] => []
  | e :: r => (fst e, snd e, choice st (snd e)) :: ev_elog (fupdN st (snd e) (choice st (snd e))) r
  end.

Lemma crun_log : forall t s l t' s', crun t s l t' s' -> cgood g rate rstats s ->
  exists evs, clog (cstat s) t evs (cstat s') t' /\ cgood g rate rstats s' /\
    crows s' = rev (map (row_of g rstats) (statuses choice (cstat s) evs)) ++ crows s /\
    celog s' = (if full then rev (ev_elog (cstat s) evs) else []) ++ celog s /\
    ccalls s' = rev (run_calls (cstat s) evs) ++ ccalls s.
Proof.
  intros t s l t' s' H. induction H as [t s|t s l1 t1 s1 l2 t2 s2 Hs Hr IH]; intro Hg.
  - exists []. split; [constructor|]. split; [exact Hg|]. cbn [statuses map rev ev_elog run_calls app].
    destruct full; repeat split; reflexivity.
  - destruct Hs as [Hpos [d [u [l0 [Hd [Et1 [Hx [Hu [Hru [He _]]]]]]]]]].
    destruct (apply_event_inv g rate choice infl rstats full rate_nonneg infl_in covers t1 u s (cg_inv g rate rstats s Hg) Hu)
      as [s1' [He' [Hi1 [Hst [Hrows [Hel Hcalls]]]]]].
    assert (s1' = s1) by congruence. subst s1'.
    assert (Hg1 : cgood g rate rstats s1).
    { constructor; [exact Hi1|]. rewrite Hrows, Hst. cbn [hd_counts]. rewrite (cg_rows g rate rstats s Hg).
      apply (bump_counts g rstats Hnd). exact Hu. }
    destruct (IH Hg1) as [evs [Hlog [Hg2 [Rrows [Rel Rcalls]]]]].
    exists ((t1, u) :: evs). split.
    { constructor; [subst t1; lra|exact Hx|exact Hu|exact Hru|]. rewrite <- Hst. exact Hlog. }
    split; [exact Hg2|]. split; [|split].
    + rewrite Rrows, Hrows, Hst. cbn [statuses map rev fst snd]. rewrite <- app_assoc. cbn [app].
      unfold row_of at 2. cbn [fst snd]. rewrite (cg_rows g rate rstats s Hg).
      rewrite (bump_counts g rstats Hnd (cstat s) u (choice (cstat s) u) Hu). reflexivity.
    + rewrite Rel, Hel, Hst. cbn [ev_elog fst snd]. destruct full; cbn [rev app]; [rewrite <- app_assoc; reflexivity|reflexivity].
    + rewrite Rcalls, Hcalls, Hst. cbn [run_calls fst snd]. unfold ev_calls.
      rewrite rev_app_distr. cbn [rev]. rewrite <- !app_assoc. cbn [app]. reflexivity.
Qed.

Lemma clog_times : forall st t evs st' t', clog st t evs st' t' ->
  t <= t' /\ Forall (fun e => t <= fst e /\ fst e <= t' /\ xlt (fst e) tmax = true) evs.
Proof.
  intros st t evs st' t' H. induction H as [st t|st t t1 u l st' t' Ht Hx Hu Hr Hl [IH1 IH2]]; [split; [lra|constructor]|].
  split; [lra|]. constructor; [cbn [fst]; split; [exact Ht|split; [exact IH1|exact Hx]]|].
  eapply Forall_impl; [|exact IH2]. intros x [A [B C]]. split; [lra|split; assumption].
Qed.

Lemma clog_final : forall st t evs st' t', clog st t evs st' t' -> st' = last_status choice st evs.
Proof. intros st t evs st' t' H. induction H; [reflexivity|]. unfold last_status in *. cbn [fold_left snd]. assumption. Qed.

(* ------------------------------------------------------------------ *)
(* the whole program                                                    *)
Theorem complex_exec_ok : forall (ic : node -> option N) fuel ds out tr,
  (forall u, In u (gnodes g) -> ic u <> None) ->
  exec (complex g rate choice infl rstats tmin tmax full ic fuel) ds [] = (Ok out, tr) ->
  let st0 := fun u => match ic u with Some s => s | None => 0%N end in
  exists lc l1 l2 t' s',
    fill g rate st0 = Ok lc /\ cgood g rate rstats (init_state g rstats tmin st0 lc) /\
    snd lc = rev (map (call_rate g st0) (gnodes g)) /\
    tr = l1 ++ l2 /\ crun tmin (init_state g rstats tmin st0 lc) l1 t' s' /\ cstop t' s' l2 /\
    cfinish g rstats tmin full st0 s' = Ret out.
Proof.
  intros ic fuel ds out tr Hic H st0.
  destruct (init_good g rate rstats tmin Hnd rate_nonneg st0) as [lc [He [Hg Hcalls]]].
  unfold complex in H. fold st0 in H.
  assert (Hall : forallb (fun u => match ic u with Some _ => true | None => false end) (gnodes g) = true).
  { apply forallb_forall. intros u Hu. specialize (Hic u Hu). destruct (ic u); [reflexivity|contradiction Hic; reflexivity]. }
  rewrite Hall, He in H. cbn [liftc] in H.
  apply exec_reacht in H. destruct H as [l [Et Hr]]. cbn [rev app] in Et. subst l.
  destruct (cloop_reacht st0 fuel tmin _ tr out (cg_inv g rate rstats _ Hg) Hr) as [l1 [l2 [t' [s' [El [Hrun [Hstop [_ Hfin]]]]]]]].
  exists lc, l1, l2, t', s'. repeat (split; [assumption|]). assumption.
Qed.

Theorem complex_exec_output : forall (ic : node -> option N) fuel ds out tr,
  (forall u, In u (gnodes g) -> ic u <> None) ->
  exec (complex g rate choice infl rstats tmin tmax full ic fuel) ds [] = (Ok out, tr) ->
  let st0 := fun u => match ic u with Some s => s | None => 0%N end in
  exists evs st' t',
    clog st0 tmin evs st' t' /\
    so_rows (fst out) = (tmin, counts g rstats st0) :: map (row_of g rstats) (statuses choice st0 evs) /\
    snd out = map (call_rate g st0) (gnodes g) ++ run_calls st0 evs /\
    so_full (fst out) =
      (if full then Some (mkFull (map (fun u => (u, (tmin, st0 u) :: node_events u (ev_elog st0 evs))) (gnodes g)) [])
       else None).
Proof.
  intros ic fuel ds out tr Hic H st0.
  destruct (complex_exec_ok ic fuel ds out tr Hic H) as [lc [l1 [l2 [t' [s' [He [Hg [Hcalls [_ [Hrun [_ Hfin]]]]]]]]]]].
  fold st0 in He, Hg, Hcalls, Hrun, Hfin.
  destruct (crun_log _ _ _ _ _ Hrun Hg) as [evs [Hlog [_ [Hrows [Hel Hcc]]]]].
  unfold init_state in Hlog, Hrows, Hel, Hcc. cbn [cstat crows celog ccalls] in Hlog, Hrows, Hel, Hcc.
  exists evs, (cstat s'), t'. split; [exact Hlog|].
  unfold cfinish in Hfin. rewrite Hrows, Hel, Hcc, Hcalls in Hfin. destruct full.
  - rewrite app_nil_r, rev_involutive in Hfin.
    destruct (full_check g rstats st0 (ev_elog st0 evs)) as [[]|e]; [|discriminate Hfin].
    injection Hfin as Hfin. subst out. cbn [fst snd so_rows so_full].
    rewrite !rev_app_distr, !rev_involutive. cbn [rev app]. repeat split; reflexivity.
  - injection Hfin as Hfin. subst out. cbn [fst snd so_rows so_full].
    rewrite !rev_app_distr, !rev_involutive. cbn [rev app]. repeat split; reflexivity.
Qed.

(* the calls of one step, read against the user's rate function *)
Lemma cstep_calls : forall t s l t1 s1, cinv g rate s -> cstep t s l t1 s1 ->
  exists l0, l = CExpo (ld_total_weight key (cnbr s)) :: l0 /\
    ld_total_weight key (cnbr s) == total_rate g rate (cstat s) /\
    choose_calls true (kl_cands (cnbr s)) l0 /\
    (forall k w, In (k, w) (kl_cands (cnbr s)) ->
       exists u, k = knode u /\ In u (gnodes g) /\ 0 < w /\ w == rate (cstat s) u) /\
    (forall u, In u (gnodes g) -> 0 < rate (cstat s) u -> exists w, In (knode u, w) (kl_cands (cnbr s))).
Proof.
  intros t s l t1 s1 Hi [_ [d [u [l0 [_ [_ [_ [_ [_ [_ [El Hc]]]]]]]]]]].
  exists l0. split; [exact El|]. split; [apply (total_inv g rate Hnd rate_nonneg s Hi)|]. split; [exact Hc|]. split.
  - intros k w Hin. exact (cands_positive g rate Hnd s k w Hi Hin).
  - intros v Hv Hpos.
    pose proof (kl_cands_perm g rate Hnd s Hi) as Hp.
    exists (wread key (cnbr s) (knode v)).
    apply (Permutation_in _ (Permutation_sym Hp)). apply in_map_iff. exists v. split; [reflexivity|].
    unfold posnodes. apply filter_In. split; [exact Hv|apply Qltb_true; exact Hpos].
Qed.

(* what one step does to the state: only the chosen node changes, to the chooser's answer on the
   statuses before; the row appended moves one unit from the old to the new status; the user
   functions are called in this order: transition_choice (statuses before), then on the
   statuses AFTER the change rate_function at the node, get_influence_set at the node,
   rate_function at every member of the influence set -- and nowhere else *)
Lemma cstep_effect : forall t s l t1 s1, cinv g rate s -> cstep t s l t1 s1 ->
  exists u, In u (gnodes g) /\ 0 < rate (cstat s) u /\ t <= t1 /\ xlt t1 tmax = true /\
    cinv g rate s1 /\
    cstat s1 = fupdN (cstat s) u (choice (cstat s) u) /\
    crows s1 = (t1, bump rstats (cstat s u) (choice (cstat s) u) (hd_counts (crows s))) :: crows s /\
    celog s1 = (if full then (t1, u, choice (cstat s) u) :: celog s else celog s) /\
    ccalls s1 = rev (ev_calls (cstat s) u) ++ ccalls s.
Proof.
  intros t s l t1 s1 Hi [_ [d [u [l0 [Hd [Et1 [Hx [Hu [Hru [He _]]]]]]]]]].
  destruct (apply_event_inv g rate choice infl rstats full rate_nonneg infl_in covers t1 u s Hi Hu)
    as [s1' [He' [Hi1 [Hst [Hrows [Hel Hcalls]]]]]].
  assert (s1' = s1) by congruence. subst s1'.
  exists u. split; [exact Hu|]. split; [exact Hru|]. split; [subst t1; lra|]. split; [exact Hx|].
  split; [exact Hi1|]. split; [exact Hst|]. split; [exact Hrows|]. split; [exact Hel|].
  rewrite Hcalls, Hst. unfold ev_calls. cbn [rev]. rewrite <- !app_assoc. cbn [app]. reflexivity.
Qed.

(* the step law at every loop head of a run *)
Lemma crun_law : forall t s l t' s', crun t s l t' s' -> cgood g rate rstats s ->
  cinv g rate s' /\
  forall u, In u (gnodes g) -> 0 < total_rate g rate (cstat s') ->
    prob (fun o => N.eqb (fst o) u) (law (jump choice s')) == rate (cstat s') u / total_rate g rate (cstat s').
Proof.
  intros t s l t' s' H Hg. destruct (crun_log t s l t' s' H Hg) as [evs [_ [Hg' _]]].
  pose proof (cg_inv g rate rstats s' Hg') as Hi. split; [exact Hi|].
  intros u Hu Hpos. exact (jump_law g rate choice Hnd rate_nonneg s' u Hi Hu Hpos).
Qed.

(* ------------------------------------------------------------------ *)
(* no Python-level error: failing runs end in fuel, or in the full-data constructor after a
   complete run -- and not even that when return_statuses contains every status in use *)
Lemma cloop_rerr_run : forall st0 fuel t s e, cinv g rate s ->
  rerr (cloop g rate choice infl rstats tmin tmax full st0 fuel t s) e ->
  e = OutOfFuel \/ exists l1 t' s', crun t s l1 t' s' /\ cfinish g rstats tmin full st0 s' = Fail e.
Proof.
  intro st0. induction fuel as [|f IH]; intros t s e Hi H; rewrite cloop_unfold in H;
    destruct (Qltb 0 (ld_total_weight key (cnbr s))) eqn:Et.
  - apply rerr_expo_inv in H. destruct H as [[Hr0 _]|[d [Hr [Hd Hk]]]].
    { apply Qltb_true in Et. rewrite Hr0 in Et. exfalso. exact (Qlt_irrefl 0 Et). }
    unfold loop_body in Hk. destruct (xlt (t + d) tmax); [left; exact (rerr_fail_inv _ _ _ Hk)|right].
    exists [], t, s. split; [constructor|].
    destruct (cfinish_cases g rstats tmin full st0 s) as [[o [E _]]|[_ [e0 [E _]]]]; rewrite E in Hk;
      [exfalso; exact (rerr_ret_inv _ _ _ Hk)|apply rerr_fail_inv in Hk; subst e0; exact E].
  - right. exists [], t, s. split; [constructor|].
    destruct (cfinish_cases g rstats tmin full st0 s) as [[o [E _]]|[_ [e0 [E _]]]]; rewrite E in H;
      [exfalso; exact (rerr_ret_inv _ _ _ H)|apply rerr_fail_inv in H; subst e0; exact E].
  - pose proof (proj1 (total_pos_iff s Hi) Et) as Hpos.
    apply rerr_expo_inv in H. destruct H as [[Hr0 _]|[d [Hr [Hd Hk]]]].
    { apply Qltb_true in Et. rewrite Hr0 in Et. exfalso. exact (Qlt_irrefl 0 Et). }
    unfold loop_body in Hk. destruct (xlt (t + d) tmax) eqn:Ex.
    + destruct (event_rerr st0 f (t + d) s e Hi Hpos Hk) as [u [s1 [Hu [He [Hi1 [Hru [[l0 Hc] Hb]]]]]]].
      destruct (IH (t + d) s1 e Hi1 Hb) as [E|[l1 [t' [s' [Hrun Hfin]]]]]; [left; exact E|right].
      exists ((CExpo (ld_total_weight key (cnbr s)) :: l0) ++ l1), t', s'. split; [|exact Hfin].
      eapply crun_step; [|exact Hrun]. split; [exact Hpos|]. exists d, u, l0. repeat split; assumption.
    + right. exists [], t, s. split; [constructor|].
      destruct (cfinish_cases g rstats tmin full st0 s) as [[o [E _]]|[_ [e0 [E _]]]]; rewrite E in Hk;
        [exfalso; exact (rerr_ret_inv _ _ _ Hk)|apply rerr_fail_inv in Hk; subst e0; exact E].
  - right. exists [], t, s. split; [constructor|].
    destruct (cfinish_cases g rstats tmin full st0 s) as [[o [E _]]|[_ [e0 [E _]]]]; rewrite E in H;
      [exfalso; exact (rerr_ret_inv _ _ _ H)|apply rerr_fail_inv in H; subst e0; exact E].
Qed.

Lemma full_check_ok : forall st0 (log : list (Q * node * N)),
  gnodes g <> [] -> (forall u, In u (gnodes g) -> In (st0 u) rstats) ->
  Forall (fun e => In (snd e) rstats) log ->
  full_check g rstats st0 log = Ok tt.
Proof.
  intros st0 log Hne Hst Hlog. unfold full_check. cbv zeta.
  assert (Hc : filter (fun u => mem (st0 u) rstats) (gnodes g) = gnodes g).
  { clear Hne. induction (gnodes g) as [|u l IH] in Hst |- *; [reflexivity|]. cbn [filter].
    rewrite (proj2 (GillespieInv.mem_In _ _) (Hst u (or_introl eq_refl))). f_equal. apply IH.
    intros v Hv. apply Hst. right. exact Hv. }
  rewrite Hc.
  assert (Hex : existsb (fun u => existsb (fun e : Q * node => negb (mem (snd e) rstats)) (node_events u log)) (gnodes g) = false).
  { destruct (existsb _ (gnodes g)) eqn:E; [|reflexivity]. apply existsb_exists in E. destruct E as [u [_ Hb]].
    apply existsb_exists in Hb. destruct Hb as [x [Hx Hn]]. unfold node_events in Hx. apply in_map_iff in Hx.
    destruct Hx as [e [Ex He]]. apply filter_In in He. destruct He as [He _]. subst x. cbn [snd] in Hn.
    rewrite Forall_forall in Hlog. pose proof (Hlog e He) as K. cbn beta in K.
    rewrite (proj2 (GillespieInv.mem_In (snd e) rstats) K) in Hn. discriminate Hn. }
  rewrite Hex. destruct (gnodes g); [contradiction Hne; reflexivity|reflexivity].
Qed.

Theorem complex_exec_never_crashes : forall (ic : node -> option N) fuel ds e tr,
  (forall u, In u (gnodes g) -> ic u <> None) ->
  full = false \/
  (gnodes g <> [] /\ (forall u s, In u (gnodes g) -> ic u = Some s -> In s rstats) /\ (forall st u, In (choice st u) rstats)) ->
  exec (complex g rate choice infl rstats tmin tmax full ic fuel) ds [] = (Err e, tr) ->
  e = OutOfDraws \/ e = OutOfFuel.
Proof.
  intros ic fuel ds e tr Hic Hc H.
  set (st0 := fun u => match ic u with Some s => s | None => 0%N end).
  destruct (init_good g rate rstats tmin Hnd rate_nonneg st0) as [lc [He [Hg Hcalls]]].
  unfold complex in H. fold st0 in H.
  assert (Hall : forallb (fun u => match ic u with Some _ => true | None => false end) (gnodes g) = true).
  { apply forallb_forall. intros u Hu. specialize (Hic u Hu). destruct (ic u); [reflexivity|contradiction Hic; reflexivity]. }
  rewrite Hall, He in H. cbn [liftc] in H.
  apply exec_rerr in H. destruct H as [H|H]; [left; exact H|right].
  destruct (cloop_rerr_run st0 fuel tmin _ e (cg_inv g rate rstats _ Hg) H) as [E|[l1 [t' [s' [Hrun Hfin]]]]]; [exact E|exfalso].
  destruct (crun_log _ _ _ _ _ Hrun Hg) as [evs [Hlog [_ [_ [Hel _]]]]].
  unfold init_state in Hlog, Hel. cbn [cstat celog] in Hlog, Hel.
  unfold cfinish in Hfin. destruct Hc as [Hf|[Hne [Hics Hch]]]; [rewrite Hf in Hfin; discriminate Hfin|].
  destruct full; [|discriminate Hfin].
  rewrite Hel, app_nil_r, rev_involutive in Hfin.
  rewrite (full_check_ok st0 (ev_elog st0 evs) Hne) in Hfin; [discriminate Hfin| |].
  - intros u Hu. unfold st0. specialize (Hic u Hu). destruct (ic u) as [s|] eqn:E; [apply (Hics u s Hu E)|contradiction Hic; reflexivity].
  - clear - Hch. generalize st0. induction evs as [|x evs IH]; intro st; [constructor|]. cbn [ev_elog]. constructor; [cbn [snd]; apply Hch|apply IH].
Qed.

End CX.
